/-
  C10 helper lemmas, part 4: `minimize_update_anderson` — the coefficients α computed from γ_LS
  telescope to 1, and the accumulation loop over the ring yields `Σ_{i<K} α_i G(:,σ i) + α_K g_k`.
-/
import Alpaqa.Proofs.C10Basic

namespace Alpaqa.C10
open Finset Alpaqa Alpaqa.Gen
set_option linter.unusedSectionVars false
set_option linter.unusedSimpArgs false
set_option linter.unusedVariables false

section
variable {α : Type} [Field α] [LinearOrder α] [IsStrictOrderedRing α] [RealLike α]

/-- The coefficient the code gives to the `i`-th oldest function value (`i = K`: the current `gₖ`),
    built from the regenerated formulas `aaAlpha0 / aaAlphaMid / aaAlphaLast` of
    anderson-helpers.hpp (`K` = number of columns after the update). -/
def aaCoef (gam : ℕ → α) (K i : ℕ) : α :=
  if i = K then aaAlphaLast gam K else if i = 0 then aaAlpha0 gam else aaAlphaMid gam i

theorem aaCoef_telescope (gam : ℕ → α) :
    ∀ K, ∑ i ∈ range (K + 1), (if i = 0 then aaAlpha0 gam else aaAlphaMid gam i) = gam K := by
  intro K
  induction K with
  | zero => simp [aaAlpha0]
  | succ K ih =>
    rw [Finset.sum_range_succ, ih, if_neg (by omega)]
    simp [aaAlphaMid]

/-- `Σ α_i = 1` — the telescoping of the γ_LS coefficients exactly as the code computes them. -/
theorem aaCoef_sum (gam : ℕ → α) (K : ℕ) (hK : 0 < K) : ∑ i ∈ range (K + 1), aaCoef gam K i = 1 := by
  rw [Finset.sum_range_succ]
  have e : ∑ i ∈ range K, aaCoef gam K i =
      ∑ i ∈ range K, (if i = 0 then aaAlpha0 gam else aaAlphaMid gam i) := by
    apply Finset.sum_congr rfl
    intro i hi
    rw [Finset.mem_range] at hi
    unfold aaCoef; rw [if_neg (by omega)]
  obtain ⟨k, rfl⟩ : ∃ k, K = k + 1 := ⟨K - 1, by omega⟩
  rw [e, aaCoef_telescope gam k]
  simp [aaCoef, aaAlphaLast]

theorem list_sum_range (f : ℕ → α) (n : ℕ) : ((List.range n).map f).sum = ∑ i ∈ range n, f i := by
  induction n with
  | zero => simp
  | succ n ih => rw [List.range_succ, List.map_append, List.sum_append, ih, Finset.sum_range_succ]; simp

theorem aaAccum_eq (gam : ℕ → α) (G : ℕ → ℕ → α) :
    ∀ (l : List (ℕ × ℕ)) (x : ℕ → α) (j : ℕ),
      aaAccum gam G l x j = x j + (l.map fun p => aaAlphaMid gam p.1 * G j p.2).sum := by
  intro l
  induction l with
  | nil => intro x j; simp [aaAccum]
  | cons p rest ih =>
    intro x j
    obtain ⟨i, c⟩ := p
    simp only [aaAccum, List.map_cons, List.sum_cons]
    rw [ih]; ring

/-- the whole accumulation over `ring_iter()` of a valid ring with `K ≥ 1` columns -/
theorem aa_accumulate (gam : ℕ → α) (G : ℕ → ℕ → α) (gk : ℕ → α) (rs m K : ℕ) (hK : 0 < K) (j : ℕ) :
    aaAccum gam G (((List.range (K - 1)).map Nat.succ).map fun i => (i, (rs + i) % m))
        (fun j => aaAlpha0 gam * G j ((rs + 0) % m)) j + aaAlphaLast gam K * gk j =
      ∑ i ∈ range K, aaCoef gam K i * G j ((rs + i) % m) + aaCoef gam K K * gk j := by
  obtain ⟨k, rfl⟩ : ∃ k, K = k + 1 := ⟨K - 1, by omega⟩
  rw [aaAccum_eq, List.map_map, List.map_map, list_sum_range, Finset.sum_range_succ']
  simp only [Nat.add_sub_cancel, Function.comp]
  have e : ∀ i ∈ range k, aaCoef gam (k + 1) (i + 1) * G j ((rs + (i + 1)) % m) =
      aaAlphaMid gam (Nat.succ i) * G j ((rs + Nat.succ i) % m) := by
    intro i hi
    rw [Finset.mem_range] at hi
    unfold aaCoef
    rw [if_neg (by omega), if_neg (by omega)]
  rw [Finset.sum_congr rfl e]
  have e0 : aaCoef gam (k + 1) 0 = aaAlpha0 gam := by unfold aaCoef; rw [if_neg (by omega), if_pos rfl]
  have eK : aaCoef gam (k + 1) (k + 1) = aaAlphaLast gam (k + 1) := by unfold aaCoef; rw [if_pos rfl]
  rw [e0, eK]; ring

/-! ### `compute` -/

/-- the QR object after the update inside `compute` -/
def AA.qrNext (fuel : ℕ) (giv : α → α → α × α × α) (a : AA α) (rk : ℕ → α) : LMQR α :=
  (if aaFull (lmqrNumColumns a.qr.qIdx a.qr.rStart a.qr.rEnd) a.qr.m
    then a.qr.removeColumn giv else a.qr).addColumn fuel fun j => rk j - readV a.rLast j

theorem computeCore_qr (fuel : ℕ) (giv : α → α → α × α × α) (a : AA α) (gk rk : ℕ → α) :
    (a.computeCore fuel giv gk rk).1.qr = a.qrNext fuel giv rk := rfl

theorem computeCore_n (fuel : ℕ) (giv : α → α → α × α × α) (a : AA α) (gk rk : ℕ → α) :
    (a.computeCore fuel giv gk rk).1.n = a.n := rfl

theorem computeCore_gam (fuel : ℕ) (giv : α → α → α × α × α) (a : AA α) (gk rk : ℕ → α) {i : ℕ}
    (hi : i < (a.qrNext fuel giv rk).m) :
    readV (a.computeCore fuel giv gk rk).1.gamLS i =
      (a.qrNext fuel giv rk).solveCol rk (readV a.gamLS)
        (aaTol (a.qrNext fuel giv rk).maxEig a.minDivFac) i := by
  simp only [AA.computeCore]
  exact readV_freezeV_lt _ hi

theorem computeCore_G (fuel : ℕ) (giv : α → α → α × α × α) (a : AA α) (gk rk : ℕ → α) {i j : ℕ}
    (hi : i < a.n) (hj : j < a.qr.m) :
    (a.computeCore fuel giv gk rk).1.G.get i j =
      if j = (a.qrNext fuel giv rk).rEnd then gk i else a.G.get i j := by
  simp only [AA.computeCore, lmqrRingTail]
  rw [Mat.get_ofFn_lt _ hi hj]
  rfl

theorem computeCore_rLast (fuel : ℕ) (giv : α → α → α × α × α) (a : AA α) (gk rk : ℕ → α) {j : ℕ}
    (hj : j < a.n) : readV (a.computeCore fuel giv gk rk).1.rLast j = rk j := by
  simp only [AA.computeCore]
  exact readV_freezeV_lt _ hj

/-- `anderson_affine`: the accelerated iterate is the combination `Σ_{i<K} α_i G(:, σ i) + α_K gₖ`
    of the stored function values (ring order) and the current one, with the coefficients
    `aaCoef` of the freshly solved γ_LS, and `Σ α_i = 1`. -/
theorem computeCore_affine (fuel : ℕ) (giv : α → α → α × α × α) (a : AA α) (gk rk : ℕ → α)
    (hR : RingInv (a.qrNext fuel giv rk)) (hK : 0 < (a.qrNext fuel giv rk).qIdx) :
    (∑ i ∈ range ((a.qrNext fuel giv rk).qIdx + 1),
        aaCoef (readV (a.computeCore fuel giv gk rk).1.gamLS) (a.qrNext fuel giv rk).qIdx i = 1) ∧
    ∀ j < a.n, readV (a.computeCore fuel giv gk rk).2 j =
      ∑ i ∈ range (a.qrNext fuel giv rk).qIdx,
          aaCoef (readV (a.computeCore fuel giv gk rk).1.gamLS) (a.qrNext fuel giv rk).qIdx i *
            a.G.get j ((a.qrNext fuel giv rk).slot i) +
        aaCoef (readV (a.computeCore fuel giv gk rk).1.gamLS) (a.qrNext fuel giv rk).qIdx
            (a.qrNext fuel giv rk).qIdx * gk j := by
  refine ⟨aaCoef_sum _ _ hK, ?_⟩
  intro j hj
  have hfwd := ringFwd_eq _ hR
  obtain ⟨k, hk⟩ : ∃ k, (a.qrNext fuel giv rk).qIdx = k + 1 := ⟨_, (Nat.succ_pred_eq_of_pos hK).symm⟩
  have hx : readV (a.computeCore fuel giv gk rk).2 j =
      aaCombine (readV (a.computeCore fuel giv gk rk).1.gamLS) a.G.get gk
        (a.qrNext fuel giv rk).qIdx (a.qrNext fuel giv rk).ringFwd j := by
    simp only [AA.computeCore, lmqrNumColumns]
    rw [readV_freezeV_lt _ hj]
    rfl
  rw [hx, hfwd, hk, List.range_succ_eq_map, List.map_cons]
  simp only [aaCombine, LMQR.slot]
  have := aa_accumulate (readV (a.computeCore fuel giv gk rk).1.gamLS) a.G.get gk
    (a.qrNext fuel giv rk).rStart (a.qrNext fuel giv rk).m (k + 1) (by omega) j
  simp only [Nat.add_sub_cancel] at this
  exact this
end
end Alpaqa.C10
