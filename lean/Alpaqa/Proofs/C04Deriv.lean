/-
  C04 helper lemmas over ℝ: the half squared distance to an interval is differentiable
  everywhere (kinks and infinite sides included) with derivative `σ(ζ − Πζ)`.
-/
import Mathlib.Analysis.Calculus.Deriv.Pow
import Mathlib.Analysis.Calculus.Deriv.Add
import Mathlib.Analysis.Calculus.Deriv.Mul
import Mathlib.Analysis.Calculus.Deriv.Comp
import Mathlib.Analysis.Calculus.FDeriv.Add
import Mathlib.Analysis.Asymptotics.Lemmas
import Alpaqa.Proofs.C04Box

namespace Alpaqa.C04
open Alpaqa Filter Topology Asymptotics

/-- `s ↦ (s⁺)²` is differentiable everywhere, also at the kink `s = 0`. -/
theorem hasDerivAt_posPart_sq (t : ℝ) :
    HasDerivAt (fun s : ℝ => (max s 0) ^ 2) (2 * max t 0) t := by
  rcases lt_trichotomy t 0 with h | h | h
  · have he : (fun s : ℝ => (max s 0) ^ 2) =ᶠ[𝓝 t] fun _ => (0 : ℝ) := by
      filter_upwards [Iio_mem_nhds h] with s hs
      rw [max_eq_right (le_of_lt hs)]; norm_num
    rw [max_eq_right h.le, mul_zero]
    exact (hasDerivAt_const t (0 : ℝ)).congr_of_eventuallyEq he
  · subst h
    rw [max_self, mul_zero, hasDerivAt_iff_isLittleO_nhds_zero]
    have h1 : (fun h : ℝ => (max (0 + h) 0) ^ 2 - (max (0 : ℝ) 0) ^ 2 - h • (0 : ℝ))
        =O[𝓝 0] fun h : ℝ => h ^ 2 := by
      apply isBigO_of_le
      intro x
      simp only [zero_add, max_self, smul_zero, sub_zero]
      norm_num
      rcases le_total x 0 with hx | hx
      · rw [max_eq_right hx]; simp; positivity
      · rw [max_eq_left hx]
    exact h1.trans_isLittleO (isLittleO_pow_id (by norm_num))
  · have he : (fun s : ℝ => (max s 0) ^ 2) =ᶠ[𝓝 t] fun s => s ^ 2 := by
      filter_upwards [Ioi_mem_nhds h] with s hs
      rw [max_eq_left (le_of_lt hs)]
    rw [max_eq_left h.le]
    have := (hasDerivAt_pow 2 t).congr_of_eventuallyEq he
    simpa using this

/-- excess above the upper bound (`0` for an infinite side). -/
def posU (u : Bnd ℝ) (t : ℝ) : ℝ := match u with | none => 0 | some b => max (t - b) 0
/-- shortfall below the lower bound (`0` for an infinite side). -/
def posL (l : Bnd ℝ) (t : ℝ) : ℝ := match l with | none => 0 | some a => max (a - t) 0

theorem pd1_decomp (l u : Bnd ℝ) (hok : BndOK l u) (t : ℝ) :
    pd1 l u t = posU u t - posL l t ∧ (pd1 l u t) ^ 2 = (posU u t) ^ 2 + (posL l t) ^ 2 := by
  unfold pd1
  rcases l with _ | a <;> rcases u with _ | b
  · simp [proj1_none_none, posU, posL]
  · rw [proj1_none_some]; simp only [posU, posL]
    rcases le_total t b with h | h
    · rw [min_eq_left h, max_eq_right (by linarith)]; constructor <;> ring
    · rw [min_eq_right h, max_eq_left (by linarith)]; constructor <;> ring
  · rw [proj1_some_none]; simp only [posU, posL]
    rcases le_total a t with h | h
    · rw [max_eq_left h, max_eq_right (by linarith)]; constructor <;> ring
    · rw [max_eq_right h, max_eq_left (by linarith)]; constructor <;> ring
  · rw [proj1_some_some]; simp only [posU, posL]
    have hab : a ≤ b := hok a b rfl rfl
    rcases le_total a t with h | h
    · rw [max_eq_left h, max_eq_right (by linarith : a - t ≤ 0)]
      rcases le_total t b with h2 | h2
      · rw [min_eq_left h2, max_eq_right (by linarith)]; constructor <;> ring
      · rw [min_eq_right h2, max_eq_left (by linarith)]; constructor <;> ring
    · rw [max_eq_right h, min_eq_left hab, max_eq_left (by linarith : 0 ≤ a - t),
        max_eq_right (by linarith : t - b ≤ 0)]
      constructor <;> ring

theorem hasDerivAt_posU_sq (u : Bnd ℝ) (t : ℝ) :
    HasDerivAt (fun s => (posU u s) ^ 2) (2 * posU u t) t := by
  rcases u with _ | b
  · simpa [posU] using hasDerivAt_const t (0 : ℝ)
  · have := (hasDerivAt_posPart_sq (t - b)).comp t ((hasDerivAt_id t).sub_const b)
    simpa [posU, Function.comp_def] using this

theorem hasDerivAt_posL_sq (l : Bnd ℝ) (t : ℝ) :
    HasDerivAt (fun s => (posL l s) ^ 2) (-(2 * posL l t)) t := by
  rcases l with _ | a
  · simpa [posL] using hasDerivAt_const t (0 : ℝ)
  · have := (hasDerivAt_posPart_sq (a - t)).comp t ((hasDerivAt_id t).const_sub a)
    simpa [posL, Function.comp_def] using this

/-- `d/dζ ½ σ (ζ − Π_[l,u] ζ)² = σ (ζ − Π_[l,u] ζ)` for every `ζ` — at the kinks `ζ = l`,
    `ζ = u`, with infinite sides, with equal bounds, and even for an (invalid) box `l > u`. -/
theorem half_sq_dist_hasDerivAt_aux (σ : ℝ) (l u : Bnd ℝ) (t : ℝ) :
    HasDerivAt (fun s => 1 / 2 * σ * (pd1 l u s) ^ 2) (σ * pd1 l u t) t := by
  by_cases hok : BndOK l u
  · have hf : (fun s => 1 / 2 * σ * (pd1 l u s) ^ 2)
        = fun s => 1 / 2 * σ * ((posU u s) ^ 2 + (posL l s) ^ 2) := by
      funext s; rw [(pd1_decomp l u hok s).2]
    rw [hf, (pd1_decomp l u hok t).1]
    have := ((hasDerivAt_posU_sq u t).add (hasDerivAt_posL_sq l t)).const_mul (1 / 2 * σ)
    exact this.congr_deriv (by ring)
  · -- `l = some a`, `u = some b`, `b < a`: the projection is constantly `b`
    unfold BndOK at hok
    push Not at hok
    obtain ⟨a, b, rfl, rfl, hab⟩ := hok
    have hp : ∀ s : ℝ, pd1 (some a) (some b) s = s - b := by
      intro s; unfold pd1; rw [proj1_some_some]
      rw [min_eq_right (le_trans hab.le (le_max_right s a))]
    have hf : (fun s => 1 / 2 * σ * (pd1 (some a) (some b) s) ^ 2)
        = fun s => 1 / 2 * σ * (s - b) ^ 2 := by funext s; rw [hp]
    rw [hf, hp]
    have := (((hasDerivAt_id t).sub_const b).pow 2).const_mul (1 / 2 * σ)
    exact this.congr_deriv (by simp; ring)

end Alpaqa.C04
