/-
  C12 — the adjoint sweep of `OCPEvaluator::backward` is the transpose of the linearised
  roll-out.  First for the bare recursion (`adjLoop`), then for the model's `backwardLoop`.
-/
import Alpaqa.Model.C12
import Alpaqa.Proofs.C12Vec
import Alpaqa.Proofs.C12Layout
import Mathlib.Tactic.LinearCombination

namespace Alpaqa.C12
open Alpaqa Alpaqa.Gen.C12
variable {α : Type} [Field α]

/-- The recursion of `backward` with the storage reads abstracted:
    `gfp t λ = (A_tᵀλ ; B_tᵀλ)`, `q t`, `r t` the stage gradients. -/
def adjLoop (gfp : Nat → Vec α → Vec α) (q r : Nat → Vec α) (nx nu : Nat) :
    Nat → Vec α → List (Vec α) → List (Vec α)
  | 0, _, gs => gs
  | t + 1, lam, gs =>
    adjLoop gfp q r nx nu t (vadd ((gfp t lam).take nx) (q t))
      (vadd ((gfp t lam).drop ((gfp t lam).length - nu)) (r t) :: gs)

/-- The linearised roll-out `δx₀ = 0`, `δx_{t+1} = J_t(δx_t, δu_t)`. -/
def tangent (jac : Nat → Vec α → Vec α → Vec α) (δu : Nat → Vec α) (nx : Nat) : Nat → Vec α
  | 0 => List.replicate nx 0
  | t + 1 => jac t (tangent jac δu nx t) (δu t)

section
variable (gfp : Nat → Vec α → Vec α) (jac : Nat → Vec α → Vec α → Vec α) (q r : Nat → Vec α)
  (nx nu N : Nat) (δu : Nat → Vec α)

theorem tangent_length
    (hjl : ∀ t < N, ∀ dx du, dx.length = nx → du.length = nu → (jac t dx du).length = nx)
    (hδu : ∀ t < N, (δu t).length = nu) :
    ∀ t ≤ N, (tangent jac δu nx t).length = nx := by
  intro t
  induction t with
  | zero => intro _; simp [tangent]
  | succ t ih =>
    intro ht
    exact hjl t (by omega) _ _ (ih (by omega)) (hδu t (by omega))

/-- one stage: `⟨λ_t, δx_t⟩ + ⟨g_t, δu_t⟩ = ⟨q_t,δx_t⟩ + ⟨r_t,δu_t⟩ + ⟨λ_{t+1}, δx_{t+1}⟩`. -/
theorem adj_stage (gf qt rt lam dx du dxn : Vec α)
    (hgf : gf.length = nx + nu) (hq : qt.length = nx) (hr : rt.length = nu)
    (hdx : dx.length = nx)
    (hadj : dot gf (dx ++ du) = dot lam dxn) :
    dot (vadd (gf.take nx) qt) dx + dot (vadd (gf.drop (gf.length - nu)) rt) du
      = dot qt dx + dot rt du + dot lam dxn := by
  have h1 : gf.length - nu = nx := by omega
  rw [h1, dot_vadd_left _ _ _ (by simp [hgf, hq]), dot_vadd_left _ _ _ (by simp [hgf, hr]), ← hadj]
  have : dot gf (dx ++ du) = dot (gf.take nx) dx + dot (gf.drop nx) du := by
    conv_lhs => rw [← List.take_append_drop nx gf]
    rw [dot_append _ _ _ _ (by simp [hgf, hdx])]
  rw [this]; ring

theorem adjLoop_spec
    (hgl : ∀ t < N, ∀ lam, lam.length = nx → (gfp t lam).length = nx + nu)
    (hq : ∀ t < N, (q t).length = nx) (hr : ∀ t < N, (r t).length = nu)
    (hjl : ∀ t < N, ∀ dx du, dx.length = nx → du.length = nu → (jac t dx du).length = nx)
    (hadj : ∀ t < N, ∀ lam dx du, lam.length = nx → dx.length = nx → du.length = nu →
      dot (gfp t lam) (dx ++ du) = dot lam (jac t dx du))
    (hδu : ∀ t < N, (δu t).length = nu) :
    ∀ t ≤ N, ∀ (lam : Vec α) (gs : List (Vec α)), lam.length = nx →
      (adjLoop gfp q r nx nu t lam gs).length = t + gs.length ∧
      (∀ i, (adjLoop gfp q r nx nu t lam gs).getD (t + i) [] = gs.getD i []) ∧
      (∀ s < t, ((adjLoop gfp q r nx nu t lam gs).getD s []).length = nu) ∧
      ∑ s ∈ Finset.range t, dot ((adjLoop gfp q r nx nu t lam gs).getD s []) (δu s)
        = ∑ s ∈ Finset.range t, (dot (q s) (tangent jac δu nx s) + dot (r s) (δu s))
          + dot lam (tangent jac δu nx t) := by
  intro t
  induction t with
  | zero =>
    intro _ lam gs _
    simp [adjLoop, tangent, dot_replicate_zero]
  | succ t ih =>
    intro ht lam gs hlam
    have htN : t < N := by omega
    have hgf := hgl t htN lam hlam
    obtain ⟨h1, h2, hl, h3⟩ := ih (by omega) (vadd ((gfp t lam).take nx) (q t))
      (vadd ((gfp t lam).drop ((gfp t lam).length - nu)) (r t) :: gs)
      (by rw [length_vadd]; simp [hgf, hq t htN])
    have hdx := tangent_length jac nx nu N δu hjl hδu t (by omega)
    refine ⟨?_, ?_, ?_, ?_⟩
    · simp only [adjLoop]; rw [h1]; simp; omega
    · intro i
      simp only [adjLoop]
      have := h2 (i + 1)
      rw [show t + 1 + i = t + (i + 1) by omega, this]; simp
    · intro s hs
      simp only [adjLoop]
      by_cases hst : s < t
      · exact hl s hst
      · have : s = t := by omega
        subst this
        have hgt := h2 0
        simp only [Nat.add_zero, List.getD_cons_zero] at hgt
        rw [hgt, length_vadd]; simp [hgf, hr s htN]
    · simp only [adjLoop]
      rw [Finset.sum_range_succ, Finset.sum_range_succ, h3]
      have hgt := h2 0
      simp only [Nat.add_zero, List.getD_cons_zero] at hgt
      rw [hgt]
      have := adj_stage nx nu (gfp t lam) (q t) (r t) lam (tangent jac δu nx t) (δu t)
        (tangent jac δu nx (t + 1)) hgf (hq t htN) (hr t htN) hdx
        (by rw [hadj t htN lam _ _ hlam hdx (hδu t htN)]; rfl)
      linear_combination this

end

/-- the flat inner product is the sum of the blockwise ones -/
theorem dot_flatten (gs : List (Vec α)) (f : Nat → Vec α) (off : Nat)
    (h : ∀ i < gs.length, (gs.getD i []).length = (f (off + i)).length) :
    dot gs.flatten ((List.range' off gs.length).map f).flatten
      = ∑ i ∈ Finset.range gs.length, dot (gs.getD i []) (f (off + i)) := by
  induction gs generalizing off with
  | nil => simp
  | cons g gs ih =>
    rw [List.length_cons, List.range'_succ, List.map_cons, List.flatten_cons, List.flatten_cons,
      dot_append _ _ _ _ (by simpa using h 0 (by simp)), Finset.sum_range_succ',
      ih (off + 1) (by
        intro i hi
        have := h (i + 1) (by simpa using hi)
        simpa [Nat.add_assoc, Nat.add_comm 1 i] using this)]
    simp only [List.getD_cons_succ, List.getD_cons_zero, Nat.add_zero]
    rw [add_comm]
    congr 1
    apply Finset.sum_congr rfl
    intro x _
    rw [show off + 1 + x = off + (x + 1) by omega]

/-! ### the model's loop is that recursion -/
section model
variable [LinearOrder α]

theorem backwardLoop_eq (P : OCP α) (v : OCPVars) (D : Box α) (μ y st : Vec α) :
    ∀ (t : Nat) (lam : Vec α) (gs qrs : List (Vec α)),
      (backwardLoop P v D μ y st t lam gs qrs).1 =
        adjLoop (fun t lam => P.gradFProd t (getSeg st (v.xkStart t) (v.xkLen t))
            (getSeg st (v.ukStart t) (v.ukLen t)) lam)
          (fun t => (stageQR P v D μ y st t).1) (fun t => (stageQR P v D μ y st t).2)
          v.nx v.nu t lam gs ∧
      (backwardLoop P v D μ y st t lam gs qrs).2 =
        ((List.range t).map fun s => (stageQR P v D μ y st s).1 ++ (stageQR P v D μ y st s).2)
          ++ qrs := by
  intro t
  induction t with
  | zero => intro lam gs qrs; simp [backwardLoop, adjLoop]
  | succ t ih =>
    intro lam gs qrs
    simp only [backwardLoop, backwardStage, adjLoop]
    obtain ⟨h1, h2⟩ := ih
      (vadd ((P.gradFProd t (getSeg st (v.xkStart t) (v.xkLen t))
        (getSeg st (v.ukStart t) (v.ukLen t)) lam).take v.nx) (stageQR P v D μ y st t).1)
      (vadd ((P.gradFProd t (getSeg st (v.xkStart t) (v.xkLen t))
        (getSeg st (v.ukStart t) (v.ukLen t)) lam).drop
          ((P.gradFProd t (getSeg st (v.xkStart t) (v.xkLen t))
            (getSeg st (v.ukStart t) (v.ukLen t)) lam).length - v.nu)) (stageQR P v D μ y st t).2 :: gs)
      (((stageQR P v D μ y st t).1 ++ (stageQR P v D μ y st t).2) :: qrs)
    refine ⟨h1, ?_⟩
    rw [h2, List.range_succ, List.map_append]
    simp

/-- Output dimensions of the derivative oracles. -/
structure GradDim (P : OCP α) (dx du : Nat) : Prop where
  gf : ∀ t x u p, (P.gradFProd t x u p).length = dx + du
  qr : ∀ t xu h, (P.qr t xu h).length = dx + du
  qN : ∀ x h, (P.qN x h).length = dx
  gc : ∀ t x p, (P.gradCProd t x p).length = dx
  gcN : ∀ x p, (P.gradCProdN x p).length = dx

section dims
variable (N dx du dh dc dhN dcN : Nat)
local notation "𝓥" => OCPVars.ofProblem N dx du dh dc dhN dcN

theorem stageQR_length (P : OCP α) (hg : GradDim P dx du) (D : Box α) (μ y st : Vec α) (t : Nat) :
    (stageQR P 𝓥 D μ y st t).1.length = dx ∧ (stageQR P 𝓥 D μ y st t).2.length = du := by
  unfold stageQR
  simp only [nx_ofProblem, nu_ofProblem, nc_ofProblem]
  constructor
  · split_ifs
    · rw [length_vadd]; simp [hg.qr, hg.gc]
    · simp [hg.qr]
  · simp [hg.qr]

theorem backwardTerminal_length (P : OCP α) (hg : GradDim P dx du) (DN : Box α) (μ y st : Vec α) :
    (backwardTerminal P 𝓥 DN μ y st).length = dx := by
  unfold backwardTerminal
  simp only [nc_N_ofProblem]
  split_ifs
  · rw [length_vadd]; simp [hg.qN, hg.gcN]
  · exact hg.qN _ _

/-- **adjoint identity for the model's `backward`** (blockwise and flat), together with what it
    leaves in `qr` / `q_N`. -/
theorem backward_adjoint_core (P : OCP α) (hg : GradDim P dx du) (D DN : Box α) (μ y st : Vec α)
    (jac : Nat → Vec α → Vec α → Vec α)
    (hjl : ∀ t < N, ∀ a b, a.length = dx → b.length = du → (jac t a b).length = dx)
    (hadj : ∀ t < N, ∀ lam a b, lam.length = dx → a.length = dx → b.length = du →
      dot (P.gradFProd t (getSeg st ((𝓥).xkStart t) ((𝓥).xkLen t))
            (getSeg st ((𝓥).ukStart t) ((𝓥).ukLen t)) lam) (a ++ b) = dot lam (jac t a b))
    (δu : Nat → Vec α) (hδu : ∀ t < N, (δu t).length = du) :
    dot (backward P 𝓥 D DN μ y st).g ((List.range N).map δu).flatten
      = ∑ t ∈ Finset.range N,
          (dot (stageQR P 𝓥 D μ y st t).1 (tangent jac δu dx t)
            + dot (stageQR P 𝓥 D μ y st t).2 (δu t))
        + dot (backwardTerminal P 𝓥 DN μ y st) (tangent jac δu dx N) ∧
    (backward P 𝓥 D DN μ y st).qrs =
      (List.range N).map (fun t => (stageQR P 𝓥 D μ y st t).1 ++ (stageQR P 𝓥 D μ y st t).2) ∧
    (backward P 𝓥 D DN μ y st).qN = backwardTerminal P 𝓥 DN μ y st := by
  obtain ⟨e1, e2⟩ := backwardLoop_eq P 𝓥 D μ y st N (backwardTerminal P 𝓥 DN μ y st) [] []
  simp only [nx_ofProblem, nu_ofProblem] at e1
  obtain ⟨s1, s2, s3, s4⟩ := adjLoop_spec
    (fun t lam => P.gradFProd t (getSeg st ((𝓥).xkStart t) ((𝓥).xkLen t))
        (getSeg st ((𝓥).ukStart t) ((𝓥).ukLen t)) lam)
    jac (fun t => (stageQR P 𝓥 D μ y st t).1) (fun t => (stageQR P 𝓥 D μ y st t).2) dx du N δu
    (fun t _ lam _ => hg.gf _ _ _ _)
    (fun t _ => (stageQR_length N dx du dh dc dhN dcN P hg D μ y st t).1)
    (fun t _ => (stageQR_length N dx du dh dc dhN dcN P hg D μ y st t).2)
    hjl hadj hδu N (Nat.le_refl N) (backwardTerminal P 𝓥 DN μ y st) []
    (backwardTerminal_length N dx du dh dc dhN dcN P hg DN μ y st)
  refine ⟨?_, ?_, rfl⟩
  · unfold BackOut.g backward
    simp only [N_ofProblem]
    rw [e1]
    have hlen : (adjLoop (fun t lam => P.gradFProd t (getSeg st ((𝓥).xkStart t) ((𝓥).xkLen t))
        (getSeg st ((𝓥).ukStart t) ((𝓥).ukLen t)) lam) (fun t => (stageQR P 𝓥 D μ y st t).1)
        (fun t => (stageQR P 𝓥 D μ y st t).2) dx du N (backwardTerminal P 𝓥 DN μ y st) []).length
        = N := by simpa using s1
    have := dot_flatten _ δu 0 (by
      intro i hi
      rw [hlen] at hi
      rw [s3 i hi, Nat.zero_add, hδu i hi])
    rw [hlen] at this
    simp only [Nat.zero_add] at this
    rw [List.range_eq_range', this, s4]
  · unfold backward
    simp only [N_ofProblem]
    rw [e2]; simp

end dims

end model

end Alpaqa.C12
