import Alpaqa.Proofs.C10Basic
import Mathlib.Algebra.BigOperators.Intervals
import Mathlib.Algebra.Order.BigOperators.Ring.Finset

/-
  C10 proofs, part: `LimitedMemoryQR::solve_col` is circular back substitution on `get_R()`
  (`solveCol_backsubst`), and back substitution on a QR factorisation with orthonormal `Q` yields
  the (unique) least-squares minimiser (`ls_optimal`, `ls_unique`, `solveCol_ls`,
  `solveCol_ls_unique`) — normal-equations / Pythagoras argument, no square roots.
-/
namespace Alpaqa.C10
open Finset Alpaqa Alpaqa.Gen
set_option linter.unusedSectionVars false
set_option linter.unusedSimpArgs false
set_option linter.unusedVariables false

section solve
variable {α : Type} [Field α] [LinearOrder α] [IsStrictOrderedRing α] [RealLike α]

/-- closed form of the inner loop: from forward-iterator position `zb` (storage column
    `(rs+zb) % m`) it subtracts `R(rR, σ k)·x(k)` for `k = zb … K-1`. -/
theorem solveInner_eq (m rs K : ℕ) (hm : 0 < m) (R : ℕ → ℕ → α) (rR : ℕ) (x : ℕ → α) :
    ∀ fuel zb (acc : α), zb ≤ K → K - zb < fuel →
      solveInner m K R rR x fuel zb ((rs + zb) % m) acc =
        acc - ∑ k ∈ Ico zb K, R rR ((rs + k) % m) * x k := by
  intro fuel
  induction fuel with
  | zero => intro zb _ _ h; omega
  | succ f ih =>
    intro zb acc hz hf
    unfold solveInner
    by_cases h : zb = K
    · subst h; simp [circEq]
    · simp only [circEq, beq_iff_eq, h, if_false]
      rw [circInc_eq (Nat.mod_lt _ hm)]
      simp only
      rw [mod_succ_step, ih (zb + 1) _ (by omega) (by omega),
        Finset.sum_eq_sum_Ico_succ_bot (show zb < K by omega)]
      ring

/-- one trip of the outer loop, with the generated iterator steps, the skip test and the inner loop
    in closed form. -/
theorem solveOuter_succ (n m rs K : ℕ) (hm : 0 < m) (hK : K ≤ m) (Q R : ℕ → ℕ → α) (b : ℕ → α)
    (tol : α) (f k : ℕ) (hk : k < K) (x : ℕ → α) :
    solveOuter n m K 0 Q R b tol (f + 1) (k + 1) ((rs + (k + 1)) % m) x =
      solveOuter n m K 0 Q R b tol f k ((rs + k) % m) (fun j => if j = k then
        (if |R k ((rs + k) % m)| ≤ tol then 0 else
          ((∑ j ∈ range n, Q j k * b j) - ∑ i ∈ Ico (k + 1) K, R k ((rs + i) % m) * x i) /
            R k ((rs + k) % m)) else x j) := by
  rw [solveOuter]
  have h0 : circEq (k + 1) ((rs + (k + 1)) % m) 0 0 = false := by simp [circEq]
  rw [h0, circDec_eq (Nat.mod_lt _ hm)]
  simp only [Nat.add_sub_cancel, Bool.false_eq_true, if_false]
  rw [mod_pred_step _ _ _ hm, solveInner_eq m rs K hm R k x (m + 1) (k + 1) _ (by omega) (by omega),
    sumTo_eq_sum]
  congr 1
  funext j
  simp only [lmqrSolveSkip, eabs_eq_abs, decide_eq_true_eq]
  split_ifs with h1 h2 h2 <;> simp only [h2, if_true, if_false]

/-- outer-loop invariant: processing rows `zb-1 … 0` leaves entries `≥ zb` alone and makes every
    row `r < zb` either zero (pivot below the threshold) or a solved row of the triangular system. -/
theorem solveOuter_spec (n m rs K : ℕ) (hm : 0 < m) (hK : K ≤ m) (Q R : ℕ → ℕ → α) (b : ℕ → α)
    (tol : α) :
    ∀ fuel zb (x : ℕ → α), zb ≤ K → zb < fuel →
      (∀ k, zb ≤ k → solveOuter n m K 0 Q R b tol fuel zb ((rs + zb) % m) x k = x k) ∧
      ∀ r < zb,
        (|R r ((rs + r) % m)| ≤ tol →
          solveOuter n m K 0 Q R b tol fuel zb ((rs + zb) % m) x r = 0) ∧
        (¬ |R r ((rs + r) % m)| ≤ tol → R r ((rs + r) % m) ≠ 0 →
          R r ((rs + r) % m) * solveOuter n m K 0 Q R b tol fuel zb ((rs + zb) % m) x r +
            ∑ k ∈ Ico (r + 1) K,
              R r ((rs + k) % m) * solveOuter n m K 0 Q R b tol fuel zb ((rs + zb) % m) x k =
          ∑ j ∈ range n, Q j r * b j) := by
  intro fuel
  induction fuel with
  | zero => intro zb _ _ h; omega
  | succ f ih =>
    intro zb x hz hf
    cases zb with
    | zero =>
      refine ⟨fun k _ => ?_, fun r hr => absurd hr (Nat.not_lt_zero _)⟩
      rw [solveOuter]; simp [circEq]
    | succ k =>
      rw [solveOuter_succ n m rs K hm hK Q R b tol f k (by omega) x]
      obtain ⟨h1, h2⟩ := ih k _ (by omega) (by omega)
      generalize hy : solveOuter n m K 0 Q R b tol f k ((rs + k) % m) _ = y at h1 h2 ⊢
      refine ⟨fun j hj => ?_, fun r hr => ?_⟩
      · rw [h1 j (by omega), if_neg (by omega)]
      · rcases Nat.lt_succ_iff_lt_or_eq.mp hr with hr | rfl
        · exact h2 r hr
        · have hyr := h1 r le_rfl
          simp only [if_true] at hyr
          have hS : ∑ i ∈ Ico (r + 1) K, R r ((rs + i) % m) * y i =
              ∑ i ∈ Ico (r + 1) K, R r ((rs + i) % m) * x i := by
            apply Finset.sum_congr rfl
            intro i hi
            rw [Finset.mem_Ico] at hi
            rw [h1 i (by omega), if_neg (by omega)]
          refine ⟨fun ht => ?_, fun ht hd => ?_⟩
          · rw [hyr, if_pos ht]
          · rw [hS, hyr, if_neg ht]
            field_simp
            ring

/-- `∑ₖ get_R()(r,k)·y(k)` over all `q_idx` columns = diagonal term + strictly-upper part read in
    ring order. -/
theorem getR_row_sum (s : LMQR α) {r : ℕ} (hr : r < s.qIdx) (y : ℕ → α) :
    ∑ k ∈ range s.qIdx, s.getR r k * y k =
      s.R.get r ((s.rStart + r) % s.m) * y r +
        ∑ k ∈ Ico (r + 1) s.qIdx, s.R.get r ((s.rStart + k) % s.m) * y k := by
  rw [← Finset.sum_range_add_sum_Ico _ (le_of_lt hr), Finset.sum_eq_sum_Ico_succ_bot hr]
  have h0 : ∑ k ∈ range r, s.getR r k * y k = 0 := by
    apply Finset.sum_eq_zero
    intro k hk
    rw [Finset.mem_range] at hk
    rw [getR_upper s hk, zero_mul]
  rw [h0, zero_add]
  congr 1
  · unfold LMQR.getR LMQR.slot; rw [if_pos le_rfl]
  · apply Finset.sum_congr rfl
    intro k hk
    rw [Finset.mem_Ico] at hk
    unfold LMQR.getR LMQR.slot; rw [if_pos (by omega)]

/-- `solve_col` = the outer loop started at `end()` = `(q_idx, σ q_idx)`, stopping at `begin()`. -/
theorem solveCol_eq (s : LMQR α) (h : RingInv s) (b x0 : ℕ → α) (tol : α) :
    s.solveCol b x0 tol =
      solveOuter s.n s.m s.qIdx 0 s.Q.get s.R.get b tol (s.m + 1) s.qIdx
        ((s.rStart + s.qIdx) % s.m) x0 := by
  unfold LMQR.solveCol lmqrRingIterArgs circBegin circEnd
  simp only
  rw [h.end_eq]

/-- back substitution: rows whose pivot passes the threshold satisfy row r of `R x = Qᵀ b`
    (provided the pivot is nonzero — automatic when tol > 0), rows below the threshold get 0,
    entries ≥ q_idx are untouched. -/
theorem solveCol_backsubst (s : LMQR α) (h : RingInv s) (b x0 : ℕ → α) (tol : α) :
    (∀ k, s.qIdx ≤ k → s.solveCol b x0 tol k = x0 k) ∧
    ∀ r < s.qIdx,
      (|s.getR r r| ≤ tol → s.solveCol b x0 tol r = 0) ∧
      (¬ |s.getR r r| ≤ tol → s.getR r r ≠ 0 →
        ∑ k ∈ range s.qIdx, s.getR r k * s.solveCol b x0 tol k =
          ∑ j ∈ range s.n, s.Q.get j r * b j) := by
  rw [solveCol_eq s h]
  obtain ⟨h1, h2⟩ := solveOuter_spec s.n s.m s.rStart s.qIdx h.mpos h.cap s.Q.get s.R.get b tol
    (s.m + 1) s.qIdx x0 le_rfl (by have := h.cap; omega)
  refine ⟨h1, fun r hr => ?_⟩
  have hd : s.getR r r = s.R.get r ((s.rStart + r) % s.m) := by
    unfold LMQR.getR LMQR.slot; rw [if_pos le_rfl]
  rw [hd, getR_row_sum s hr]
  exact h2 r hr

/-! ### least squares through the normal equations -/

/-- `Qᵀ (Q t) = t` on the first `K` columns. -/
theorem orth_apply (n K : ℕ) (Q : ℕ → ℕ → α)
    (hO : ∀ a < K, ∀ c < K, ∑ j ∈ range n, Q j a * Q j c = if a = c then 1 else 0)
    (t : ℕ → α) {a : ℕ} (ha : a < K) :
    ∑ j ∈ range n, Q j a * ∑ i ∈ range K, Q j i * t i = t a := by
  simp only [Finset.mul_sum]
  rw [Finset.sum_comm]
  have h1 : ∀ i ∈ range K, ∑ j ∈ range n, Q j a * (Q j i * t i) = if a = i then t i else 0 := by
    intro i hi
    rw [Finset.mem_range] at hi
    have h2 : ∑ j ∈ range n, Q j a * (Q j i * t i) = (∑ j ∈ range n, Q j a * Q j i) * t i := by
      rw [Finset.sum_mul]; apply Finset.sum_congr rfl; intro j _; ring
    rw [h2, hO a ha i hi]; split_ifs <;> simp
  rw [Finset.sum_congr rfl h1, Finset.sum_ite_eq (range K) a]
  simp [ha]

/-- `A v = Q (Ru v)` row by row. -/
theorem qr_apply (n K : ℕ) (Q Ru A : ℕ → ℕ → α)
    (hA : ∀ k < K, ∀ j < n, ∑ i ∈ range K, Q j i * Ru i k = A k j) (v : ℕ → α) {j : ℕ}
    (hj : j < n) :
    ∑ k ∈ range K, A k j * v k = ∑ i ∈ range K, Q j i * ∑ k ∈ range K, Ru i k * v k := by
  simp only [Finset.mul_sum]
  rw [Finset.sum_comm]
  apply Finset.sum_congr rfl
  intro k hk
  rw [Finset.mem_range] at hk
  rw [← hA k hk j hj, Finset.sum_mul]
  apply Finset.sum_congr rfl; intro i _; ring

/-- `Qᵀ (A v) = Ru v`. -/
theorem qt_apply (n K : ℕ) (Q Ru A : ℕ → ℕ → α)
    (hA : ∀ k < K, ∀ j < n, ∑ i ∈ range K, Q j i * Ru i k = A k j)
    (hO : ∀ a < K, ∀ c < K, ∑ j ∈ range n, Q j a * Q j c = if a = c then 1 else 0)
    (v : ℕ → α) {a : ℕ} (ha : a < K) :
    ∑ j ∈ range n, Q j a * ∑ k ∈ range K, A k j * v k = ∑ k ∈ range K, Ru a k * v k := by
  have h1 : ∀ j ∈ range n, Q j a * ∑ k ∈ range K, A k j * v k =
      Q j a * ∑ i ∈ range K, Q j i * ∑ k ∈ range K, Ru i k * v k := by
    intro j hj
    rw [Finset.mem_range] at hj
    rw [qr_apply n K Q Ru A hA v hj]
  rw [Finset.sum_congr rfl h1]
  exact orth_apply n K Q hO (fun i => ∑ k ∈ range K, Ru i k * v k) ha

/-- normal equations: the residual of a solution of `Ru x = Qᵀ b` is orthogonal to `range Q`. -/
theorem ls_normal (n K : ℕ) (Q Ru A : ℕ → ℕ → α)
    (hA : ∀ k < K, ∀ j < n, ∑ i ∈ range K, Q j i * Ru i k = A k j)
    (hO : ∀ a < K, ∀ c < K, ∑ j ∈ range n, Q j a * Q j c = if a = c then 1 else 0)
    (b x : ℕ → α) (hx : ∀ r < K, ∑ k ∈ range K, Ru r k * x k = ∑ j ∈ range n, Q j r * b j)
    {a : ℕ} (ha : a < K) :
    ∑ j ∈ range n, Q j a * (∑ k ∈ range K, A k j * x k - b j) = 0 := by
  simp only [mul_sub]
  rw [Finset.sum_sub_distrib, qt_apply n K Q Ru A hA hO x ha, hx a ha, sub_self]

/-- … hence orthogonal to every `A d`. -/
theorem ls_cross (n K : ℕ) (Q Ru A : ℕ → ℕ → α)
    (hA : ∀ k < K, ∀ j < n, ∑ i ∈ range K, Q j i * Ru i k = A k j)
    (e : ℕ → α) (he : ∀ a < K, ∑ j ∈ range n, Q j a * e j = 0) (d : ℕ → α) :
    ∑ j ∈ range n, e j * ∑ k ∈ range K, A k j * d k = 0 := by
  have h1 : ∀ j ∈ range n, e j * ∑ k ∈ range K, A k j * d k =
      ∑ i ∈ range K, (∑ k ∈ range K, Ru i k * d k) * (Q j i * e j) := by
    intro j hj
    rw [Finset.mem_range] at hj
    rw [qr_apply n K Q Ru A hA d hj, Finset.mul_sum]
    apply Finset.sum_congr rfl; intro i _; ring
  rw [Finset.sum_congr rfl h1, Finset.sum_comm]
  apply Finset.sum_eq_zero
  intro i hi
  rw [Finset.mem_range] at hi
  rw [← Finset.mul_sum, he i hi, mul_zero]

/-- Pythagoras for the residual: `‖A z − b‖² = ‖A x − b‖² + ‖A (z − x)‖²`. -/
theorem ls_pythagoras (n K : ℕ) (Q Ru A : ℕ → ℕ → α)
    (hA : ∀ k < K, ∀ j < n, ∑ i ∈ range K, Q j i * Ru i k = A k j)
    (hO : ∀ a < K, ∀ c < K, ∑ j ∈ range n, Q j a * Q j c = if a = c then 1 else 0)
    (b x : ℕ → α) (hx : ∀ r < K, ∑ k ∈ range K, Ru r k * x k = ∑ j ∈ range n, Q j r * b j)
    (z : ℕ → α) :
    ∑ j ∈ range n, (∑ k ∈ range K, A k j * z k - b j) ^ 2 =
      ∑ j ∈ range n, (∑ k ∈ range K, A k j * x k - b j) ^ 2 +
        ∑ j ∈ range n, (∑ k ∈ range K, A k j * (z k - x k)) ^ 2 := by
  have hc := ls_cross n K Q Ru A hA (fun j => ∑ k ∈ range K, A k j * x k - b j)
    (fun a ha => ls_normal n K Q Ru A hA hO b x hx ha) (fun k => z k - x k)
  have h1 : ∀ j ∈ range n, (∑ k ∈ range K, A k j * z k - b j) ^ 2 =
      (∑ k ∈ range K, A k j * x k - b j) ^ 2 + (∑ k ∈ range K, A k j * (z k - x k)) ^ 2 +
        2 * ((∑ k ∈ range K, A k j * x k - b j) * ∑ k ∈ range K, A k j * (z k - x k)) := by
    intro j _
    have h2 : ∑ k ∈ range K, A k j * (z k - x k) =
        ∑ k ∈ range K, A k j * z k - ∑ k ∈ range K, A k j * x k := by
      rw [← Finset.sum_sub_distrib]; apply Finset.sum_congr rfl; intro k _; ring
    rw [h2]; ring
  rw [Finset.sum_congr rfl h1, Finset.sum_add_distrib, Finset.sum_add_distrib, ← Finset.mul_sum, hc]
  ring

/-- normal-equations argument, no square roots: if A = Q·Ru (columns k<K, rows j<n), QᵀQ = I and
    Ru x = Qᵀ b, then x minimises ‖A z − b‖². `A k j` is entry (row j, column k). -/
theorem ls_optimal (n K : ℕ) (Q Ru A : ℕ → ℕ → α)
    (hA : ∀ k < K, ∀ j < n, ∑ i ∈ range K, Q j i * Ru i k = A k j)
    (hO : ∀ a < K, ∀ c < K, ∑ j ∈ range n, Q j a * Q j c = if a = c then 1 else 0)
    (b x : ℕ → α) (hx : ∀ r < K, ∑ k ∈ range K, Ru r k * x k = ∑ j ∈ range n, Q j r * b j) :
    ∀ z : ℕ → α, ∑ j ∈ range n, (∑ k ∈ range K, A k j * x k - b j) ^ 2 ≤
                  ∑ j ∈ range n, (∑ k ∈ range K, A k j * z k - b j) ^ 2 := by
  intro z
  rw [ls_pythagoras n K Q Ru A hA hO b x hx z]
  have : 0 ≤ ∑ j ∈ range n, (∑ k ∈ range K, A k j * (z k - x k)) ^ 2 :=
    Finset.sum_nonneg fun j _ => sq_nonneg _
  linarith

/-- an upper-triangular matrix with nonzero diagonal is injective -/
theorem upper_tri_inj (K : ℕ) (Ru : ℕ → ℕ → α) (hd : ∀ r < K, Ru r r ≠ 0)
    (hU : ∀ i k, k < i → Ru i k = 0) (d : ℕ → α)
    (h0 : ∀ r < K, ∑ k ∈ range K, Ru r k * d k = 0) : ∀ k < K, d k = 0 := by
  have key : ∀ c, ∀ k, K - c ≤ k → k < K → d k = 0 := by
    intro c
    induction c with
    | zero => intro k h1 h2; omega
    | succ c ih =>
      intro k h1 h2
      by_cases hk : K - c ≤ k
      · exact ih k hk h2
      · have hs := h0 k h2
        rw [Finset.sum_eq_single k] at hs
        · exact (mul_eq_zero.mp hs).resolve_left (hd k h2)
        · intro i hi hne
          rw [Finset.mem_range] at hi
          rcases Nat.lt_or_gt_of_ne hne with hlt | hgt
          · rw [hU k i hlt, zero_mul]
          · rw [ih i (by omega) hi, mul_zero]
        · intro hn; exact absurd (Finset.mem_range.mpr h2) hn
  intro k hk; exact key K k (by omega) hk

/-- uniqueness: with a nonsingular upper-triangular `Ru`, the minimiser is unique on `range K`. -/
theorem ls_unique (n K : ℕ) (Q Ru A : ℕ → ℕ → α)
    (hA : ∀ k < K, ∀ j < n, ∑ i ∈ range K, Q j i * Ru i k = A k j)
    (hO : ∀ a < K, ∀ c < K, ∑ j ∈ range n, Q j a * Q j c = if a = c then 1 else 0)
    (hd : ∀ r < K, Ru r r ≠ 0) (hU : ∀ i k, k < i → Ru i k = 0)
    (b x : ℕ → α) (hx : ∀ r < K, ∑ k ∈ range K, Ru r k * x k = ∑ j ∈ range n, Q j r * b j)
    (z : ℕ → α)
    (hz : ∑ j ∈ range n, (∑ k ∈ range K, A k j * z k - b j) ^ 2 ≤
          ∑ j ∈ range n, (∑ k ∈ range K, A k j * x k - b j) ^ 2) :
    ∀ k < K, z k = x k := by
  rw [ls_pythagoras n K Q Ru A hA hO b x hx z] at hz
  have hnn : ∀ j ∈ range n, 0 ≤ (∑ k ∈ range K, A k j * (z k - x k)) ^ 2 :=
    fun j _ => sq_nonneg _
  have hs0 : ∑ j ∈ range n, (∑ k ∈ range K, A k j * (z k - x k)) ^ 2 = 0 :=
    le_antisymm (by linarith) (Finset.sum_nonneg hnn)
  have hw : ∀ j ∈ range n, ∑ k ∈ range K, A k j * (z k - x k) = 0 := by
    intro j hj
    have := (Finset.sum_eq_zero_iff_of_nonneg hnn).mp hs0 j hj
    exact pow_eq_zero_iff (two_ne_zero) |>.mp this
  have hR : ∀ r < K, ∑ k ∈ range K, Ru r k * (z k - x k) = 0 := by
    intro r hr
    rw [← qt_apply n K Q Ru A hA hO (fun k => z k - x k) hr]
    apply Finset.sum_eq_zero
    intro j hj
    rw [hw j hj, mul_zero]
  intro k hk
  exact sub_eq_zero.mp (upper_tri_inj K Ru hd hU (fun k => z k - x k) hR k hk)

/-- end to end: on a state representing A with orthonormal Q whose pivots all pass the threshold
    and are nonzero, `solve_col` returns a least-squares minimiser of ‖A z − b‖. -/
theorem solveCol_ls (s : LMQR α) (h : RingInv s) (A : ℕ → ℕ → α) (hA : Represents s A)
    (hO : Orth s) (b x0 : ℕ → α) (tol : α)
    (hp : ∀ r < s.qIdx, ¬ |s.getR r r| ≤ tol ∧ s.getR r r ≠ 0) :
    ∀ z : ℕ → α,
      ∑ j ∈ range s.n, (∑ k ∈ range s.qIdx, A k j * s.solveCol b x0 tol k - b j) ^ 2 ≤
      ∑ j ∈ range s.n, (∑ k ∈ range s.qIdx, A k j * z k - b j) ^ 2 :=
  ls_optimal s.n s.qIdx s.Q.get s.getR A hA hO b (s.solveCol b x0 tol) fun r hr =>
    ((solveCol_backsubst s h b x0 tol).2 r hr).2 (hp r hr).1 (hp r hr).2

/-- … and that minimiser is the only one (on the `q_idx` entries `solve_col` writes). -/
theorem solveCol_ls_unique (s : LMQR α) (h : RingInv s) (A : ℕ → ℕ → α) (hA : Represents s A)
    (hO : Orth s) (b x0 : ℕ → α) (tol : α)
    (hp : ∀ r < s.qIdx, ¬ |s.getR r r| ≤ tol ∧ s.getR r r ≠ 0) (z : ℕ → α)
    (hz : ∑ j ∈ range s.n, (∑ k ∈ range s.qIdx, A k j * z k - b j) ^ 2 ≤
          ∑ j ∈ range s.n, (∑ k ∈ range s.qIdx, A k j * s.solveCol b x0 tol k - b j) ^ 2) :
    ∀ k < s.qIdx, z k = s.solveCol b x0 tol k :=
  ls_unique s.n s.qIdx s.Q.get s.getR A hA hO (fun r hr => (hp r hr).2)
    (fun i k hik => getR_upper s hik) b (s.solveCol b x0 tol)
    (fun r hr => ((solveCol_backsubst s h b x0 tol).2 r hr).2 (hp r hr).1 (hp r hr).2) z hz

/-- with a nonnegative threshold a pivot that passes it (`|d| > tol`) is nonzero -/
theorem pivot_ne_zero_of_nonneg_tol {d tol : α} (ht : 0 ≤ tol) (hd : ¬ |d| ≤ tol) : d ≠ 0 := by
  intro h0; rw [h0, abs_zero] at hd; exact hd ht

end solve
end Alpaqa.C10
