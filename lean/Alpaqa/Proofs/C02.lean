/-
  C02 helper lemmas: the structural sums / decidable quantifiers of `Model/C02.lean` are Mathlib's
  `∑ i`, `⬝ᵥ`, `*ᵥ`, `∀ i`; elementary facts about dot products over an ordered field.
-/
import Alpaqa.Model.C02
import Mathlib.Data.Matrix.Mul
import Mathlib.Algebra.BigOperators.Fin
import Mathlib.Algebra.Order.BigOperators.Ring.Finset
import Mathlib.Algebra.Order.Field.Basic
import Mathlib.Tactic.Ring
import Mathlib.Tactic.Abel
import Mathlib.Tactic.Positivity
import Mathlib.Tactic.FieldSimp
import Mathlib.Tactic.Linarith

namespace Alpaqa.C02
set_option linter.unusedSectionVars false
open Matrix

section bridge
variable {α : Type}

theorem fsum_eq_sum [AddCommMonoid α] : ∀ (n : ℕ) (f : Fin n → α), fsum n f = ∑ i, f i
  | 0, f => by simp [fsum]
  | n + 1, f => by rw [fsum, fsum_eq_sum n, Fin.sum_univ_succ]

theorem allFin_iff : ∀ (n : ℕ) (p : Fin n → Bool), allFin n p = true ↔ ∀ i, p i = true
  | 0, p => by simp [allFin]
  | n + 1, p => by
    rw [allFin, Bool.and_eq_true, allFin_iff n, Fin.forall_fin_succ]

variable [CommRing α]

theorem fdot_eq {n : ℕ} (x y : Fin n → α) : fdot x y = x ⬝ᵥ y := by
  rw [fdot, fsum_eq_sum]; rfl

theorem mulV_eq {m n : ℕ} (A : Fin m → Fin n → α) (x : Fin n → α) :
    mulV A x = (Matrix.of A) *ᵥ x := by
  funext j; rw [mulV, fdot_eq]; rfl

theorem tmulV_eq {m n : ℕ} (A : Fin m → Fin n → α) (y : Fin m → α) :
    tmulV A y = (Matrix.of A)ᵀ *ᵥ y := by
  funext i; rw [tmulV, fsum_eq_sum]; rfl

/-- `grad2 = 2 (Q_s x + c + Aᵀ y)` in Mathlib's vocabulary, with `Q_s x = ½ (Q x + Qᵀ x)`. -/
theorem grad2_eq {m n : ℕ} (Q : Fin n → Fin n → α) (c : Fin n → α) (A : Fin m → Fin n → α)
    (x : Fin n → α) (y : Fin m → α) (i : Fin n) :
    grad2 Q c A x y i =
      ((Matrix.of Q) *ᵥ x) i + ((Matrix.of Q)ᵀ *ᵥ x) i + 2 * c i + 2 * ((Matrix.of A)ᵀ *ᵥ y) i := by
  rw [grad2, fsum_eq_sum, tmulV_eq]
  have : ∑ k, (Q i k + Q k i) * x k = ((Matrix.of Q) *ᵥ x) i + ((Matrix.of Q)ᵀ *ᵥ x) i := by
    simp only [Matrix.mulVec, dotProduct, Matrix.of_apply, Matrix.transpose_apply, add_mul,
      Finset.sum_add_distrib]
  rw [this]; ring

end bridge

section order
variable {α : Type} [Field α] [LinearOrder α] [IsStrictOrderedRing α]

theorem dotProduct_self_eq_sum_sq {n : ℕ} (d : Fin n → α) : d ⬝ᵥ d = ∑ i, (d i) ^ 2 := by
  simp only [dotProduct, pow_two]

theorem dotProduct_self_nonneg' {n : ℕ} (d : Fin n → α) : 0 ≤ d ⬝ᵥ d := by
  rw [dotProduct]; exact Finset.sum_nonneg fun i _ => mul_self_nonneg (d i)

theorem dotProduct_self_eq_zero' {n : ℕ} (d : Fin n → α) (h : d ⬝ᵥ d ≤ 0) : d = 0 := by
  have h0 : ∑ i, d i * d i = 0 := le_antisymm h (dotProduct_self_nonneg' d)
  have := (Finset.sum_eq_zero_iff_of_nonneg (fun i _ => mul_self_nonneg (d i))).mp h0
  funext i
  exact mul_self_eq_zero.mp (this i (Finset.mem_univ i))

/-- Hölder with `‖·‖∞ ≤ ε`, `‖·‖₁`. -/
theorem dotProduct_le_of_abs_le {n : ℕ} (r d : Fin n → α) (ε : α) (h : ∀ i, |r i| ≤ ε) :
    r ⬝ᵥ d ≤ ε * ∑ i, |d i| := by
  rw [dotProduct, Finset.mul_sum]
  refine Finset.sum_le_sum fun i _ => ?_
  calc r i * d i ≤ |r i * d i| := le_abs_self _
    _ = |r i| * |d i| := abs_mul _ _
    _ ≤ ε * |d i| := mul_le_mul_of_nonneg_right (h i) (abs_nonneg _)

theorem neg_dotProduct_le_of_abs_le {n : ℕ} (r d : Fin n → α) (ε : α) (h : ∀ i, |r i| ≤ ε) :
    -(d ⬝ᵥ r) ≤ ε * ∑ i, |d i| := by
  have := dotProduct_le_of_abs_le (fun i => -r i) d ε (fun i => by simpa using h i)
  have e : (fun i => -r i) ⬝ᵥ d = -(d ⬝ᵥ r) := by
    rw [dotProduct_comm d r]; simp [dotProduct, Finset.sum_neg_distrib]
  rwa [e] at this

end order

end Alpaqa.C02
