/-
  C10 proofs: what `LimitedMemoryQR::solve_col` returns when pivots fall below the threshold.
  The skipped components are 0, the remaining rows of `R x = Qᵀ b` hold; that vector is the unique one
  with these two properties, and it is a least-squares minimiser for the *deflated* window
  `A' = A − Σ_{r skipped} q_r · (row r of R)` — in general NOT for `A` restricted to `{x_r = 0, r skipped}`
  (counterexample in Props/C10.lean).  `ls_optimal_of_normal`: normal equations ⇒ optimality for any matrix.
-/
import Alpaqa.Proofs.C10Solve
namespace Alpaqa.C10
open Finset Alpaqa Alpaqa.Gen
set_option linter.unusedSectionVars false
set_option linter.unusedVariables false
section
variable {α : Type} [Field α] [LinearOrder α] [IsStrictOrderedRing α] [RealLike α]

/-- Normal equations `Aᵀ(A x − b) = 0` ⇒ `x` minimises `‖A z − b‖²`, for an arbitrary matrix `A`
    (`A k j` = row `j` of column `k`). -/
theorem ls_optimal_of_normal (n K : ℕ) (A : ℕ → ℕ → α) (b x : ℕ → α)
    (hN : ∀ a < K, ∑ j ∈ range n, A a j * (∑ k ∈ range K, A k j * x k - b j) = 0) (z : ℕ → α) :
    ∑ j ∈ range n, (∑ k ∈ range K, A k j * x k - b j) ^ 2 ≤
      ∑ j ∈ range n, (∑ k ∈ range K, A k j * z k - b j) ^ 2 := by
  have hc : ∑ j ∈ range n, (∑ k ∈ range K, A k j * x k - b j) *
      ∑ k ∈ range K, A k j * (z k - x k) = 0 := by
    have h1 : ∀ j ∈ range n, (∑ k ∈ range K, A k j * x k - b j) * ∑ k ∈ range K, A k j * (z k - x k) =
        ∑ k ∈ range K, (z k - x k) * (A k j * (∑ k ∈ range K, A k j * x k - b j)) := by
      intro j _
      rw [Finset.mul_sum]
      apply Finset.sum_congr rfl; intro k _; ring
    rw [Finset.sum_congr rfl h1, Finset.sum_comm]
    apply Finset.sum_eq_zero
    intro k hk
    rw [Finset.mem_range] at hk
    rw [← Finset.mul_sum, hN k hk, mul_zero]
  have h2 : ∀ j ∈ range n, (∑ k ∈ range K, A k j * z k - b j) ^ 2 =
      (∑ k ∈ range K, A k j * x k - b j) ^ 2 + (∑ k ∈ range K, A k j * (z k - x k)) ^ 2 +
        2 * ((∑ k ∈ range K, A k j * x k - b j) * ∑ k ∈ range K, A k j * (z k - x k)) := by
    intro j _
    have h3 : ∑ k ∈ range K, A k j * (z k - x k) =
        ∑ k ∈ range K, A k j * z k - ∑ k ∈ range K, A k j * x k := by
      rw [← Finset.sum_sub_distrib]; apply Finset.sum_congr rfl; intro k _; ring
    rw [h3]; ring
  rw [Finset.sum_congr rfl h2, Finset.sum_add_distrib, Finset.sum_add_distrib, ← Finset.mul_sum, hc]
  have : 0 ≤ ∑ j ∈ range n, (∑ k ∈ range K, A k j * (z k - x k)) ^ 2 :=
    Finset.sum_nonneg fun j _ => sq_nonneg _
  linarith

/-- `Qᵀ(A x − b)` at one column `a`, using the row equation of `Ru x = Qᵀ b` only at that row. -/
theorem ls_normal_row (n K : ℕ) (Q Ru A : ℕ → ℕ → α)
    (hA : ∀ k < K, ∀ j < n, ∑ i ∈ range K, Q j i * Ru i k = A k j)
    (hO : ∀ a < K, ∀ c < K, ∑ j ∈ range n, Q j a * Q j c = if a = c then 1 else 0)
    (b x : ℕ → α) {a : ℕ} (ha : a < K) :
    ∑ j ∈ range n, Q j a * (∑ k ∈ range K, A k j * x k - b j) =
      ∑ k ∈ range K, Ru a k * x k - ∑ j ∈ range n, Q j a * b j := by
  simp only [mul_sub]
  rw [Finset.sum_sub_distrib, qt_apply n K Q Ru A hA hO x ha]

/-! ### `solve_col` with pivots below the threshold -/

/-- `get_R()` with the rows of the skipped pivots zeroed -/
def getRt (s : LMQR α) (tol : α) (i k : ℕ) : α := if |s.getR i i| ≤ tol then 0 else s.getR i k

/-- The **deflated window** `A' = Q · getRt`: `A` with the component along `q_r` removed from every
    column, for every pivot `r` that `solve_col(·, ·, tol)` skips
    (`A' = A − Σ_{r skipped} q_r · (row r of R)`). -/
def deflated (s : LMQR α) (tol : α) (k j : ℕ) : α :=
  ∑ i ∈ range s.qIdx, s.Q.get j i * getRt s tol i k

theorem deflated_eq_of_no_trunc (s : LMQR α) (tol : α) (A : ℕ → ℕ → α) (hA : Represents s A)
    (hp : ∀ r < s.qIdx, ¬ |s.getR r r| ≤ tol) {k j : ℕ} (hk : k < s.qIdx) (hj : j < s.n) :
    deflated s tol k j = A k j := by
  rw [← hA k hk j hj]
  unfold deflated colSum
  apply Finset.sum_congr rfl
  intro i hi
  rw [Finset.mem_range] at hi
  unfold getRt; rw [if_neg (hp i hi)]

/-- the deflated window is the window minus the skipped `q`-directions -/
theorem deflated_eq_sub (s : LMQR α) (tol : α) (A : ℕ → ℕ → α) (hA : Represents s A)
    {k j : ℕ} (hk : k < s.qIdx) (hj : j < s.n) :
    deflated s tol k j =
      A k j - ∑ i ∈ range s.qIdx, (if |s.getR i i| ≤ tol then s.Q.get j i * s.getR i k else 0) := by
  rw [← hA k hk j hj]
  unfold deflated colSum
  rw [← Finset.sum_sub_distrib]
  apply Finset.sum_congr rfl
  intro i _
  unfold getRt
  split_ifs <;> ring

/-- **What `solve_col` returns, for any pivots.**  With orthonormal `Q` (and every pivot that passes the
    threshold nonzero — automatic for `tol > 0`):
    1. the components of skipped pivots are `0`;
    2. the residual `A x − b` is orthogonal to `q_r` for every pivot `r` that is not skipped
       (row `r` of `R x = Qᵀ b`);
    3. `x` is a least-squares minimiser of `‖A' z − b‖` for the deflated window `A'`. -/
theorem solveCol_truncated (s : LMQR α) (h : RingInv s) (A : ℕ → ℕ → α) (hA : Represents s A)
    (hO : Orth s) (b x0 : ℕ → α) (tol : α)
    (hnz : ∀ r < s.qIdx, ¬ |s.getR r r| ≤ tol → s.getR r r ≠ 0) :
    (∀ r < s.qIdx, |s.getR r r| ≤ tol → s.solveCol b x0 tol r = 0) ∧
    (∀ r < s.qIdx, ¬ |s.getR r r| ≤ tol →
      ∑ j ∈ range s.n, s.Q.get j r * (∑ k ∈ range s.qIdx, A k j * s.solveCol b x0 tol k - b j) = 0) ∧
    ∀ z : ℕ → α,
      ∑ j ∈ range s.n, (∑ k ∈ range s.qIdx, deflated s tol k j * s.solveCol b x0 tol k - b j) ^ 2 ≤
      ∑ j ∈ range s.n, (∑ k ∈ range s.qIdx, deflated s tol k j * z k - b j) ^ 2 := by
  obtain ⟨_, hbs⟩ := solveCol_backsubst s h b x0 tol
  refine ⟨fun r hr ht => (hbs r hr).1 ht, fun r hr ht => ?_, ?_⟩
  · rw [ls_normal_row s.n s.qIdx s.Q.get s.getR A hA hO b _ hr, (hbs r hr).2 ht (hnz r hr ht), sub_self]
  · apply ls_optimal_of_normal
    intro a ha
    -- Σ_j A'(a,j) e_j = Σ_i getRt i a · (q_iᵀ e)
    have h1 : ∀ j ∈ range s.n, deflated s tol a j *
        (∑ k ∈ range s.qIdx, deflated s tol k j * s.solveCol b x0 tol k - b j) =
        ∑ i ∈ range s.qIdx, getRt s tol i a * (s.Q.get j i *
          (∑ k ∈ range s.qIdx, deflated s tol k j * s.solveCol b x0 tol k - b j)) := by
      intro j _
      unfold deflated
      rw [Finset.sum_mul]
      apply Finset.sum_congr rfl; intro i _; ring
    rw [Finset.sum_congr rfl h1, Finset.sum_comm]
    apply Finset.sum_eq_zero
    intro i hi
    rw [Finset.mem_range] at hi
    rw [← Finset.mul_sum]
    by_cases ht : |s.getR i i| ≤ tol
    · unfold getRt; rw [if_pos ht, zero_mul]
    · rw [ls_normal_row s.n s.qIdx s.Q.get (getRt s tol) (deflated s tol) (fun k _ j _ => rfl) hO b _ hi]
      have e : ∑ k ∈ range s.qIdx, getRt s tol i k * s.solveCol b x0 tol k =
          ∑ k ∈ range s.qIdx, s.getR i k * s.solveCol b x0 tol k := by
        apply Finset.sum_congr rfl; intro k _; unfold getRt; rw [if_neg ht]
      rw [e, (hbs i hi).2 ht (hnz i hi ht), sub_self, mul_zero]

/-- … and it is the **only** vector with properties 1 and 2 (on the `q_idx` entries `solve_col` writes). -/
theorem solveCol_truncated_unique (s : LMQR α) (h : RingInv s) (A : ℕ → ℕ → α) (hA : Represents s A)
    (hO : Orth s) (b x0 : ℕ → α) (tol : α)
    (hnz : ∀ r < s.qIdx, ¬ |s.getR r r| ≤ tol → s.getR r r ≠ 0) (z : ℕ → α)
    (hz0 : ∀ r < s.qIdx, |s.getR r r| ≤ tol → z r = 0)
    (hz1 : ∀ r < s.qIdx, ¬ |s.getR r r| ≤ tol →
      ∑ j ∈ range s.n, s.Q.get j r * (∑ k ∈ range s.qIdx, A k j * z k - b j) = 0) :
    ∀ k < s.qIdx, z k = s.solveCol b x0 tol k := by
  obtain ⟨hx0, hx1, _⟩ := solveCol_truncated s h A hA hO b x0 tol hnz
  -- M = R with the skipped rows replaced by unit rows
  have key := upper_tri_inj s.qIdx
    (fun i k => if |s.getR i i| ≤ tol then (if i = k then 1 else 0) else s.getR i k)
    (fun r hr => by
      by_cases ht : |s.getR r r| ≤ tol
      · rw [if_pos ht, if_pos rfl]; exact one_ne_zero
      · rw [if_neg ht]; exact hnz r hr ht)
    (fun i k hik => by
      split_ifs with ht he
      · omega
      · rfl
      · exact getR_upper s hik)
    (fun k => z k - s.solveCol b x0 tol k)
    (fun r hr => by
      by_cases ht : |s.getR r r| ≤ tol
      · simp only [ht, if_true]
        rw [Finset.sum_eq_single r]
        · rw [if_pos rfl, hz0 r hr ht, hx0 r hr ht]; ring
        · intro k _ hne; rw [if_neg (Ne.symm hne), zero_mul]
        · intro hn; exact absurd (Finset.mem_range.mpr hr) hn
      · simp only [ht, if_false]
        have e1 := hz1 r hr ht
        have e2 := hx1 r hr ht
        rw [ls_normal_row s.n s.qIdx s.Q.get s.getR A hA hO b _ hr] at e1 e2
        have : ∑ k ∈ range s.qIdx, s.getR r k * (z k - s.solveCol b x0 tol k) =
            ∑ k ∈ range s.qIdx, s.getR r k * z k -
              ∑ k ∈ range s.qIdx, s.getR r k * s.solveCol b x0 tol k := by
          rw [← Finset.sum_sub_distrib]; apply Finset.sum_congr rfl; intro k _; ring
        rw [this]; linear_combination e1 - e2)
  intro k hk
  exact sub_eq_zero.mp (key k hk)

end
end Alpaqa.C10
