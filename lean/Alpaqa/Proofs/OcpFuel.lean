/-
  Fuel sufficiency of the PANOC-OCP loop model over a linearly ordered field.

  The C++ loops have no iteration bound; the model gives them fuel (`Params.lsFuel` for the two inner
  `while` loops, `max_iter + 2` passes for the main loop) and the any-carrier theorems carry
  `fuelOut = false`.  Here that hypothesis is *proved* from the parameters:

  * step-size loops (`initQub`, branch "QUB violated" of the line search): `L` doubles while `L < L_max`;
    with `L_max ≤ L·2^nL` at most `nL` doublings happen;
  * line search: `τ` starts at `τ_init ∈ {0, 1}`, is halved while the line-search test fails and set to 0
    once `τ/2 < min_linesearch_coefficient`; with `1 < min_linesearch_coefficient · 2^nτ` at most `nτ + 1`
    halvings happen between two doublings; a failed accelerated step (`L ≥ L_max` / non-finite ψ) sets
    `τ = 0` once and resets `L`.  Total number of passes `≤ (nL + 1)(nτ + 3)`;
  * main loop: every `Busy` pass advances `k` (never beyond `max_iter`) or was interrupted, and an
    interrupted pass is followed by a head that sees the flag at the same tick.

  `FuelOK pr nL nτ` collects the parameter conditions; `run_fuelOut_false` is the result.
-/
import Alpaqa.Proofs.OcpLs
import Alpaqa.Proofs.OcpLoop
import Alpaqa.Proofs.Basic

namespace Alpaqa.Ocp
open Alpaqa Alpaqa.Gen
set_option linter.unusedSectionVars false
set_option linter.unusedVariables false

variable {α D : Type} [Field α] [LinearOrder α] [IsStrictOrderedRing α] [RealLike α]

/-- `L` is positive and `nL` doublings reach `L_max`. -/
def LBound (pr : Params α) (nL : Nat) (L : α) : Prop := 0 < L ∧ pr.Lmax ≤ L * 2 ^ nL

theorem LBound.double {pr : Params α} {nL : Nat} {L : α} (h : LBound pr nL L) : LBound pr nL (L * 2) := by
  refine ⟨by have := h.1; positivity, le_trans h.2 ?_⟩
  have h1 : (0 : α) < 2 ^ nL := by positivity
  nlinarith [h.1]

/-- from `L < L_max ≤ L·2^a` one doubling is "used": `a ≥ 1` and `L_max ≤ (2L)·2^(a−1)`. -/
theorem doubling_step {Lmax L : α} {a : Nat} (hL : 0 < L) (hlt : L < Lmax) (hle : Lmax ≤ L * 2 ^ a) :
    ∃ a', a = a' + 1 ∧ Lmax ≤ (L * 2) * 2 ^ a' := by
  cases a with
  | zero => simp at hle; exact absurd (lt_of_lt_of_le hlt hle) (lt_irrefl _)
  | succ a' => exact ⟨a', rfl, by rw [pow_succ] at hle; linarith [hle, mul_assoc L 2 ((2:α) ^ a'), mul_comm ((2:α)^a') 2, mul_assoc L ((2:α)^a') 2]⟩

/-- Parameter conditions under which the model's fuel provably suffices. -/
structure FuelOK (pr : Params α) (nL nτ : Nat) : Prop where
  lmin_pos : 0 < pr.Lmin
  lmin_le : pr.Lmin ≤ pr.Lmax
  /-- `nL` doublings take `L_min` (the smallest initial estimate) to `L_max` -/
  lmax_lmin : pr.Lmax ≤ pr.Lmin * 2 ^ nL
  /-- … and a user-supplied `L_0 > 0` too -/
  lmax_l0 : 0 < pr.L0 → pr.Lmax ≤ pr.L0 * 2 ^ nL
  /-- `nτ` halvings take `τ = 1` below `min_linesearch_coefficient` -/
  tau : 1 < pr.minLsCoef * 2 ^ nτ
  fuel : (nL + 1) * (nτ + 3) + 1 ≤ pr.lsFuel

/-! ### The initial step-size loop -/

theorem initQub_fuel (O : Oracles α) (P : Prob α) (pr : Params α) (stop : Nat → Bool) (f : Nat)
    (c : Iterate α) (t b a : Nat) (hL : 0 < c.L) (ha : pr.Lmax ≤ c.L * 2 ^ a) (hf : a < f) :
    (initQub O P pr stop f c t b).2.2.2 = false ∧ 0 < (initQub O P pr stop f c t b).1.L ∧
    pr.Lmax ≤ (initQub O P pr stop f c t b).1.L * 2 ^ a := by
  induction f generalizing c t b a with
  | zero => omega
  | succ f ih =>
    unfold initQub
    by_cases hst : stop t = true
    · simp only [hst, if_true]; exact ⟨by first | rfl | trivial, hL, ha⟩
    · simp only [hst, Bool.false_eq_true, if_false]
      by_cases hc : (decide (c.L < pr.Lmax) && qubViolated pr c) = true
      · simp only [hc, if_true]
        have hlt : c.L < pr.Lmax := by
          have := (Bool.and_eq_true _ _).mp hc; exact of_decide_eq_true this.1
        obtain ⟨a', rfl, ha'⟩ := doubling_step hL hlt ha
        have := ih (evalStep O P { c with gamma := c.gamma / 2, L := c.L * 2 }) (t + P.fwdTicks) (b + 1) a'
          (by show 0 < c.L * 2; positivity) ha' (by omega)
        refine ⟨this.1, this.2.1, le_trans this.2.2 ?_⟩
        have h0 := this.2.1
        rw [pow_succ]
        have : (0:α) < 2 ^ a' := by positivity
        nlinarith
      · rw [if_neg hc]; exact ⟨by first | rfl | trivial, hL, ha⟩

/-! ### The line search -/

/-- Progress measure of the line search in state `s`: an upper bound `M` on the number of passes still
    possible.  Phase 2 (`τ` not positive): only doublings remain.  Phase 1 (`τ > 0`): `a` doublings, and `b`
    halvings before `τ` drops below `min_linesearch_coefficient`. -/
def LsMeasure (pr : Params α) (nL nτ : Nat) (s : LS α D) (M : Nat) : Prop :=
  0 < s.next.L ∧
  ((¬ 0 < s.tau ∧ ∃ a, pr.Lmax ≤ s.next.L * 2 ^ a ∧ a ≤ nL ∧ a + 1 ≤ M) ∨
   (0 < s.tau ∧ ∃ a b, pr.Lmax ≤ s.next.L * 2 ^ a ∧ a ≤ nL ∧ 1 ≤ b ∧ b ≤ nτ + 1 ∧
      s.tau < pr.minLsCoef * 2 ^ b ∧ a * (nτ + 2) + b + nL + 2 ≤ M))

theorem LsMeasure.lbound {pr : Params α} {nL nτ : Nat} {s : LS α D} {M : Nat}
    (h : LsMeasure pr nL nτ s M) : LBound pr nL s.next.L := by
  obtain ⟨hL, h | h⟩ := h
  · obtain ⟨_, a, ha, hal, _⟩ := h
    refine ⟨hL, le_trans ha (mul_le_mul_of_nonneg_left ?_ hL.le)⟩
    exact pow_le_pow_right₀ (by norm_num) hal
  · obtain ⟨_, a, b, ha, hal, _⟩ := h
    refine ⟨hL, le_trans ha (mul_le_mul_of_nonneg_left ?_ hL.le)⟩
    exact pow_le_pow_right₀ (by norm_num) hal

/-- One pass of the body: `break`, or `continue` with a strictly smaller measure. -/
theorem lsPass_measure (O : Oracles α) (dir : Dir D α) (P : Prob α) (pr : Params α) (c : Iterate α)
    (q : Vec α) (tauInit : α) (dn : Bool) (nL nτ : Nat) (s : LS α D) (M : Nat)
    (hc : LBound pr nL c.L) (hti : tauInit = 0 ∨ tauInit = 1) (hτ : 1 < pr.minLsCoef * 2 ^ nτ)
    (h : LsMeasure pr nL nτ s M) :
    match lsPass O dir P pr c q tauInit dn s with
    | .done s' => LBound pr nL s'.next.L
    | .again s' => ∃ M', M' < M ∧ LsMeasure pr nL nτ s' M' := by
  have hr := lsRecompute_gammaL O P c q dn s
  have hrt : (lsRecompute O P c q dn s).tau = s.tau := by
    unfold lsRecompute; split_ifs <;> rfl
  have hg : ∀ i : Iterate α, (evalStep O P i).L = i.L := fun _ => rfl
  have hminpos : 0 < pr.minLsCoef := by
    by_contra hneg
    have : pr.minLsCoef * 2 ^ nτ ≤ 0 :=
      mul_nonpos_of_nonpos_of_nonneg (not_lt.mp hneg) (by positivity)
    linarith
  have hlb := h.lbound
  obtain ⟨hL, hph⟩ := h
  unfold lsPass
  simp only []
  -- branch (a): failed accelerated step
  by_cases h1 : (decide ((lsRecompute O P c q dn s).tau > (0 : α)) &&
      (decide ((lsRecompute O P c q dn s).next.L ≥ pr.Lmax) ||
        !RealLike.isFinite (lsRecompute O P c q dn s).next.psiu)) = true
  · rw [if_pos h1]
    have hτpos : 0 < s.tau := by
      have := (Bool.and_eq_true _ _).mp h1
      rw [← hrt]; exact of_decide_eq_true this.1
    rcases hph with hph | hph
    · exact absurd hτpos hph.1
    · obtain ⟨_, a, b, ha, hal, hb1, hb2, hτb, hM⟩ := hph
      refine ⟨nL + 1, by nlinarith, ?_⟩
      refine ⟨hc.1, Or.inl ⟨?_, nL, hc.2, le_refl _, le_refl _⟩⟩
      show ¬ (0 : α) < 0
      exact lt_irrefl _
  · rw [if_neg h1]
    -- branch (b): quadratic upper bound violated
    by_cases h2 : (decide ((evalStep O P (lsRecompute O P c q dn s).next).L < pr.Lmax) &&
        qubViolated pr (evalStep O P (lsRecompute O P c q dn s).next)) = true
    · rw [if_pos h2]
      have hlt : s.next.L < pr.Lmax := by
        have := (Bool.and_eq_true _ _).mp h2
        have := of_decide_eq_true this.1
        rwa [hg, hr.2.1] at this
      have hL' : (0 : α) < s.next.L * 2 := by positivity
      rcases hph with hph | hph
      · obtain ⟨hnt, a, ha, hal, hM⟩ := hph
        obtain ⟨a', rfl, ha'⟩ := doubling_step hL hlt ha
        refine ⟨a' + 1, by omega, ?_⟩
        refine ⟨by show 0 < (evalStep O P (lsRecompute O P c q dn s).next).L * 2; rw [hg, hr.2.1]; exact hL', ?_⟩
        left
        refine ⟨?_, a', ?_, by omega, le_refl _⟩
        · show ¬ 0 < (if (lsRecompute O P c q dn s).tau > 0 then tauInit else (lsRecompute O P c q dn s).tau)
          rw [hrt, if_neg (by simpa using hnt)]; exact hnt
        · show pr.Lmax ≤ (evalStep O P (lsRecompute O P c q dn s).next).L * 2 * 2 ^ a'
          rw [hg, hr.2.1]; exact ha'
      · obtain ⟨hτpos, a, b, ha, hal, hb1, hb2, hτb, hM⟩ := hph
        obtain ⟨a', rfl, ha'⟩ := doubling_step hL hlt ha
        have hLn : (evalStep O P (lsRecompute O P c q dn s).next).L * 2 = s.next.L * 2 := by
          rw [hg, hr.2.1]
        have htn : (if (lsRecompute O P c q dn s).tau > 0 then tauInit else (lsRecompute O P c q dn s).tau)
            = tauInit := by rw [hrt, if_pos hτpos]
        rcases hti with h0 | h1'
        · -- τ_init = 0: phase 2
          refine ⟨a' + 1, by nlinarith, ?_⟩
          refine ⟨by show 0 < (evalStep O P (lsRecompute O P c q dn s).next).L * 2; rw [hLn]; exact hL', ?_⟩
          left
          refine ⟨?_, a', ?_, by omega, le_refl _⟩
          · show ¬ 0 < (if (lsRecompute O P c q dn s).tau > 0 then tauInit else (lsRecompute O P c q dn s).tau)
            rw [htn, h0]; exact lt_irrefl _
          · show pr.Lmax ≤ (evalStep O P (lsRecompute O P c q dn s).next).L * 2 * 2 ^ a'
            rw [hLn]; exact ha'
        · -- τ_init = 1: phase 1 again with one doubling less, halvings reset
          refine ⟨a' * (nτ + 2) + (nτ + 1) + nL + 2, by nlinarith, ?_⟩
          refine ⟨by show 0 < (evalStep O P (lsRecompute O P c q dn s).next).L * 2; rw [hLn]; exact hL', ?_⟩
          right
          refine ⟨?_, a', nτ + 1, ?_, by omega, by omega, le_refl _, ?_, le_refl _⟩
          · show 0 < (if (lsRecompute O P c q dn s).tau > 0 then tauInit else (lsRecompute O P c q dn s).tau)
            rw [htn, h1']; exact one_pos
          · show pr.Lmax ≤ (evalStep O P (lsRecompute O P c q dn s).next).L * 2 * 2 ^ a'
            rw [hLn]; exact ha'
          · show (if (lsRecompute O P c q dn s).tau > 0 then tauInit else (lsRecompute O P c q dn s).tau)
                < pr.minLsCoef * 2 ^ (nτ + 1)
            rw [htn, h1', pow_succ]
            have : (0 : α) < 2 ^ nτ := by positivity
            nlinarith
    · rw [if_neg h2]
      -- branch (c): line-search test failed
      by_cases h3 : (decide ((lsRecompute O P c q dn s).tau > (0 : α)) &&
          linesearchViolated pr c (evalStep O P (lsRecompute O P c q dn s).next)) = true
      · rw [if_pos h3]
        have hτpos : 0 < s.tau := by
          have := (Bool.and_eq_true _ _).mp h3
          rw [← hrt]; exact of_decide_eq_true this.1
        rcases hph with hph | hph
        · exact absurd hτpos hph.1
        · obtain ⟨_, a, b, ha, hal, hb1, hb2, hτb, hM⟩ := hph
          have hLn : (evalStep O P (lsRecompute O P c q dn s).next).L = s.next.L := by rw [hg, hr.2.1]
          by_cases hsmall : (lsRecompute O P c q dn s).tau / 2 < pr.minLsCoef
          · -- τ := 0: phase 2
            refine ⟨a + 1, by nlinarith, ?_⟩
            refine ⟨by show 0 < (evalStep O P (lsRecompute O P c q dn s).next).L; rw [hLn]; exact hL, ?_⟩
            left
            refine ⟨?_, a, ?_, hal, le_refl _⟩
            · show ¬ 0 < (if (lsRecompute O P c q dn s).tau / 2 < pr.minLsCoef then 0
                else (lsRecompute O P c q dn s).tau / 2)
              rw [if_pos hsmall]; exact lt_irrefl _
            · show pr.Lmax ≤ (evalStep O P (lsRecompute O P c q dn s).next).L * 2 ^ a
              rw [hLn]; exact ha
          · -- τ := τ/2 stays positive: one halving less
            have hb2' : 2 ≤ b := by
              by_contra hb
              have hb1' : b = 1 := by omega
              apply hsmall
              rw [hrt]
              rw [hb1', pow_one] at hτb
              linarith
            obtain ⟨b', rfl⟩ : ∃ b', b = b' + 1 := ⟨b - 1, by omega⟩
            refine ⟨a * (nτ + 2) + b' + nL + 2, by omega, ?_⟩
            refine ⟨by show 0 < (evalStep O P (lsRecompute O P c q dn s).next).L; rw [hLn]; exact hL, ?_⟩
            right
            refine ⟨?_, a, b', ?_, hal, by omega, by omega, ?_, le_refl _⟩
            · show 0 < (if (lsRecompute O P c q dn s).tau / 2 < pr.minLsCoef then 0
                else (lsRecompute O P c q dn s).tau / 2)
              rw [if_neg hsmall, hrt]; linarith
            · show pr.Lmax ≤ (evalStep O P (lsRecompute O P c q dn s).next).L * 2 ^ a
              rw [hLn]; exact ha
            · show (if (lsRecompute O P c q dn s).tau / 2 < pr.minLsCoef then 0
                else (lsRecompute O P c q dn s).tau / 2) < pr.minLsCoef * 2 ^ b'
              rw [if_neg hsmall, hrt]
              rw [pow_succ] at hτb
              linarith
      · rw [if_neg h3]
        show LBound pr nL (evalStep O P (lsRecompute O P c q dn s).next).L
        rw [hg, hr.2.1]; exact hlb

/-- **The line search never runs out of fuel** when `M < fuel`; the candidate's `L` keeps its bound. -/
theorem lineSearch_fuel (O : Oracles α) (dir : Dir D α) (P : Prob α) (pr : Params α)
    (stop : Nat → Bool) (c : Iterate α) (q : Vec α) (tauInit : α) (dn : Bool) (nL nτ : Nat)
    (hc : LBound pr nL c.L) (hti : tauInit = 0 ∨ tauInit = 1) (hτ : 1 < pr.minLsCoef * 2 ^ nτ)
    (fuel : Nat) (s : LS α D) (M : Nat) (h : LsMeasure pr nL nτ s M) (hM : M < fuel)
    (hf : s.fuelOut = false) :
    (lineSearch O dir P pr stop c q tauInit dn fuel s).fuelOut = false ∧
    LBound pr nL (lineSearch O dir P pr stop c q tauInit dn fuel s).next.L := by
  induction fuel generalizing s M with
  | zero => omega
  | succ f ih =>
    unfold lineSearch
    by_cases hst : stop s.tick = true
    · simp only [hst, if_true]; exact ⟨hf, h.lbound⟩
    · simp only [hst, Bool.false_eq_true, if_false]
      have hp := lsPass_measure O dir P pr c q tauInit dn nL nτ s M hc hti hτ h
      have hq := lineSearch_accept.lsPass_inv_fuel O dir P pr c q tauInit dn s
      cases hpass : lsPass O dir P pr c q tauInit dn s with
      | done s' =>
        rw [hpass] at hp hq
        exact ⟨by rw [hq, hf], hp⟩
      | again s' =>
        rw [hpass] at hp hq
        obtain ⟨M', hM', hm'⟩ := hp
        exact ih s' M' hm' (by omega) (by rw [hq, hf])

/-! ### One pass of the main loop, the main loop, a whole solve -/

/-- the line search started by `iterBody` in state `s` -/
def iterLs (O : Oracles α) (dir : Dir D α) (P : Prob α) (pr : Params α) (stop : Nat → Bool)
    (s : St α D) : LS α D :=
  lineSearch O dir P pr stop s.curr (directionStage dir P pr s).q (directionStage dir P pr s).tauInit
    (decide (pr.gnInterval > 0) && ((s.k + 1) % pr.gnInterval == 0) && !pr.disableAccel) pr.lsFuel
    { next := { s.next with gamma := s.curr.gamma, L := s.curr.L }, d := (directionStage dir P pr s).d,
      tick := (directionStage dir P pr s).tick, tau := (directionStage dir P pr s).tauInit,
      tauPrev := -1,
      doGnStep := (decide (pr.gnInterval > 0) && ((s.k + 1) % pr.gnInterval == 0) && !pr.disableAccel)
        || (s.doGnStep && pr.gnSticky),
      lsBacktracks := 0, stepsizeBacktracks := 0 }

theorem iterLs_fuel (O : Oracles α) (dir : Dir D α) (P : Prob α) (pr : Params α) (stop : Nat → Bool)
    (nL nτ : Nat) (hp : FuelOK pr nL nτ) (s : St α D) (hc : LBound pr nL s.curr.L) :
    (iterLs O dir P pr stop s).fuelOut = false ∧ LBound pr nL (iterLs O dir P pr stop s).next.L := by
  unfold iterLs
  have hti := directionStage_tauInit dir P pr s
  refine lineSearch_fuel O dir P pr stop s.curr _ _ _ nL nτ hc hti hp.tau pr.lsFuel _
    ((nL + 1) * (nτ + 3)) ?_ (by have := hp.fuel; omega) rfl
  refine ⟨hc.1, ?_⟩
  rcases hti with h0 | h1
  · left
    refine ⟨?_, nL, hc.2, le_refl _, by nlinarith⟩
    show ¬ 0 < (directionStage dir P pr s).tauInit
    rw [h0]; exact lt_irrefl _
  · right
    refine ⟨?_, nL, nτ + 1, hc.2, le_refl _, by omega, le_refl _, ?_, by nlinarith⟩
    · show 0 < (directionStage dir P pr s).tauInit
      rw [h1]; exact one_pos
    · show (directionStage dir P pr s).tauInit < pr.minLsCoef * 2 ^ (nτ + 1)
      rw [h1, pow_succ]
      have : (0 : α) < 2 ^ nτ := by positivity
      have := hp.tau
      nlinarith

theorem iterBody_eq (O : Oracles α) (dir : Dir D α) (P : Prob α) (pr : Params α) (stop : Nat → Bool)
    (s : St α D) (eps : α) :
    ((directionStage dir P pr s).exc ≠ .none →
      (iterBody O dir P pr stop s eps).2 ≠ .none ∧
      (iterBody O dir P pr stop s eps).1.fuelOut = s.fuelOut ∧
      (iterBody O dir P pr stop s eps).1.curr = s.curr ∧ (iterBody O dir P pr stop s eps).1.k = s.k) ∧
    ((directionStage dir P pr s).exc = .none →
      (iterBody O dir P pr stop s eps).2 = .none ∧
      (iterBody O dir P pr stop s eps).1.fuelOut = (s.fuelOut || (iterLs O dir P pr stop s).fuelOut) ∧
      (stop (iterLs O dir P pr stop s).tick = true →
        (iterBody O dir P pr stop s eps).1.curr = s.curr ∧ (iterBody O dir P pr stop s eps).1.k = s.k ∧
        (iterBody O dir P pr stop s eps).1.tick = (iterLs O dir P pr stop s).tick) ∧
      (stop (iterLs O dir P pr stop s).tick = false →
        (iterBody O dir P pr stop s eps).1.curr.L = (iterLs O dir P pr stop s).next.L ∧
        (iterBody O dir P pr stop s eps).1.k = s.k + 1)) := by
  constructor
  · intro hex
    unfold iterBody
    simp only []
    rw [if_pos (by simpa using hex)]
    exact ⟨hex, rfl, rfl, rfl⟩
  · intro hex
    unfold iterBody iterLs
    simp only []
    rw [if_neg (by simp [hex])]
    refine ⟨?_, ?_, ?_, ?_⟩
    · split_ifs <;> rfl
    · split_ifs
      · rfl
      · exact (acceptStep_fields dir pr s _ _ _ eps).2.2.2.1
    · intro hst
      rw [if_pos hst]
      exact ⟨rfl, rfl, rfl⟩
    · intro hst
      rw [if_neg (by simp [hst])]
      refine ⟨?_, (acceptStep_fields dir pr s _ _ _ eps).2.2.1⟩
      rw [(acceptStep_fields dir pr s _ _ _ eps).2.1]
      rcases updateStage_fields dir pr s.curr
        (lineSearch O dir P pr stop s.curr (directionStage dir P pr s).q (directionStage dir P pr s).tauInit
          (decide (pr.gnInterval > 0) && ((s.k + 1) % pr.gnInterval == 0) && !pr.disableAccel) pr.lsFuel
          { next := { s.next with gamma := s.curr.gamma, L := s.curr.L }, d := (directionStage dir P pr s).d,
            tick := (directionStage dir P pr s).tick, tau := (directionStage dir P pr s).tauInit,
            tauPrev := -1,
            doGnStep := (decide (pr.gnInterval > 0) && ((s.k + 1) % pr.gnInterval == 0) && !pr.disableAccel)
              || (s.doGnStep && pr.gnSticky),
            lsBacktracks := 0, stepsizeBacktracks := 0 }).next _ _ (directionStage dir P pr s).didGn
        with hu | hu <;> rw [hu]

/-- **The main loop never runs out of fuel**: `(max_iter − k) + 1` passes, plus one if no stop request is
    visible yet (the pass that gets interrupted). -/
theorem mainLoop_fuel (O : Oracles α) (dir : Dir D α) (P : Prob α) (pr : Params α) (stop : Nat → Bool)
    (oot : Bool) (u0 y mu errz0 : Vec α) (nL nτ : Nat) (hp : FuelOK pr nL nτ) (fuel : Nat) (s : St α D)
    (hc : LBound pr nL s.curr.L) (hk : s.k ≤ pr.maxIter) (hf : s.fuelOut = false)
    (hfuel : (pr.maxIter - s.k) + 1 + (if stop s.tick then 0 else 1) ≤ fuel) :
    (mainLoop O dir P pr stop oot u0 y mu errz0 fuel s).fuelOut = false := by
  induction fuel generalizing s with
  | zero => omega
  | succ f ih =>
    unfold mainLoop
    have hh := headStep_curr P pr stop oot s
    have hsnd := headStep_snd P pr stop oot s
    cases hes : (headStep P pr stop oot s).2 with
    | none => simp only [excResult]; rw [hh.2.1]; exact hf
    | some es =>
      simp only []
      rw [hes] at hsnd
      cases hep : epsOf P pr s.curr with
      | none => rw [hep] at hsnd; simp at hsnd
      | some e0 =>
        rw [hep] at hsnd
        simp only [Option.map_some, Option.some.injEq] at hsnd
        split_ifs with hb hx
        · simp only [exitBlock]; rw [hh.2.1]; exact hf
        · -- exception in the body
          simp only [excResult]
          have hbody := iterBody_eq O dir P pr stop (headStep P pr stop oot s).1 es.1
          by_cases hex : (directionStage dir P pr (headStep P pr stop oot s).1).exc = .none
          · exact absurd (hbody.2 hex).1 (by simpa using hx)
          · rw [(hbody.1 hex).2.1, hh.2.1]; exact hf
        · have hbusy : es.2 = .Busy := by simpa using hb
          have hstat : statusOf pr s.k e0 s.noProgress oot (stop s.tick) = .Busy := by
            rw [← hbusy, hsnd]
          have hkne : s.k ≠ pr.maxIter := statusOf_busy_k pr s.k e0 s.noProgress oot (stop s.tick) hstat
          have hns : stop s.tick = false := by
            cases hst : stop s.tick
            · rfl
            · rw [hst] at hstat
              exact absurd hstat (statusOf_stop_not_busy pr s.k e0 s.noProgress oot)
          rw [hns] at hfuel
          simp only [Bool.false_eq_true, if_false] at hfuel
          have hbody := iterBody_eq O dir P pr stop (headStep P pr stop oot s).1 es.1
          have hex : (directionStage dir P pr (headStep P pr stop oot s).1).exc = .none := by
            by_contra hne
            exact hx (by simpa using (hbody.1 hne).1)
          obtain ⟨_, hfo, hint, hacc⟩ := hbody.2 hex
          have hcL : LBound pr nL (headStep P pr stop oot s).1.curr.L := by rw [hh.1]; exact hc
          have hls := iterLs_fuel O dir P pr stop nL nτ hp (headStep P pr stop oot s).1 hcL
          apply ih
          · by_cases hst : stop (iterLs O dir P pr stop (headStep P pr stop oot s).1).tick = true
            · rw [(hint hst).1, hh.1]; exact hc
            · rw [(hacc (by simpa using hst)).1]; exact hls.2
          · by_cases hst : stop (iterLs O dir P pr stop (headStep P pr stop oot s).1).tick = true
            · rw [(hint hst).2.1, hh.2.2.1]; exact hk
            · rw [(hacc (by simpa using hst)).2, hh.2.2.1]; omega
          · rw [hfo, hh.2.1, hf, hls.1]; rfl
          · by_cases hst : stop (iterLs O dir P pr stop (headStep P pr stop oot s).1).tick = true
            · rw [(hint hst).2.1, (hint hst).2.2, hh.2.2.1, hst]
              simp only [if_true]; omega
            · rw [(hacc (by simpa using hst)).2, hh.2.2.1]
              split_ifs <;> omega

theorem eclamp_ge_lo' (v lo hi : α) (h : lo ≤ hi) : lo ≤ eclamp v lo hi := by
  unfold eclamp; split_ifs with h1 h2
  · exact le_refl _
  · exact h
  · exact not_lt.mp h1

/-- The Lipschitz estimate the loop starts from is positive and within `nL` doublings of `L_max`. -/
theorem initialLipschitz_L (O : Oracles α) (pr : Params α) (c n : Iterate α) :
    ∃ v, (initialLipschitz O pr c n).1.L = eclamp v pr.Lmin pr.Lmax := ⟨_, rfl⟩

theorem initialLipschitz_lbound (O : Oracles α) (pr : Params α) (c n : Iterate α) (nL nτ : Nat)
    (hp : FuelOK pr nL nτ) : LBound pr nL (initialLipschitz O pr c n).1.L := by
  obtain ⟨v, hv⟩ := initialLipschitz_L O pr c n
  rw [hv]
  have hge := eclamp_ge_lo' v pr.Lmin pr.Lmax hp.lmin_le
  refine ⟨lt_of_lt_of_le hp.lmin_pos hge, le_trans hp.lmax_lmin ?_⟩
  exact mul_le_mul_of_nonneg_right hge (by positivity)

theorem initIterates_lbound (O : Oracles α) (P : Prob α) (pr : Params α) (u0 gV : Vec α) (gS : α)
    (nL nτ : Nat) (hp : FuelOK pr nL nτ) : LBound pr nL (initIterates O P pr u0 gV gS).1.L := by
  unfold initIterates
  simp only []
  by_cases h0 : pr.L0 ≤ 0
  · rw [if_pos h0]
    exact initialLipschitz_lbound O pr _ (blankIterate gV gS) nL nτ hp
  · rw [if_neg h0]
    have h0' : 0 < pr.L0 := not_le.mp h0
    exact ⟨h0', hp.lmax_l0 h0'⟩

/-- **A whole solve never runs out of model fuel** under `FuelOK` — for all oracles, all stop
    schedules, all budgets. -/
theorem run_fuelOut_false (O : Oracles α) (dir : Dir D α) (P : Prob α) (d0 : D) (pr : Params α)
    (stop : Nat → Bool) (oot : Bool) (u0 y mu errz0 gV gQ : Vec α) (gS e0 : α) (nL nτ : Nat)
    (hp : FuelOK pr nL nτ) :
    (run O dir P d0 pr stop oot u0 y mu errz0 gV gQ gS e0).fuelOut = false := by
  unfold run
  cases hi : initState O P d0 pr stop u0 gV gQ gS e0 with
  | inl t => rfl
  | inr s =>
    simp only []
    unfold initState at hi
    simp only [] at hi
    split_ifs at hi
    injection hi with hi
    have hlb := initIterates_lbound O P pr u0 gV gS nL nτ hp
    have hq := initQub_fuel O P pr stop pr.lsFuel
      (evalStep O P { (initIterates O P pr u0 gV gS).1 with
        gamma := pr.LgammaFactor / (initIterates O P pr u0 gV gS).1.L })
      ((initIterates O P pr u0 gV gS).2.2 + P.fwdTicks) 0 nL hlb.1 hlb.2
      (by have := hp.fuel; nlinarith)
    subst hi
    apply mainLoop_fuel O dir P pr stop oot u0 y mu errz0 nL nτ hp
    · exact ⟨hq.2.1, hq.2.2⟩
    · show 0 ≤ pr.maxIter; omega
    · exact hq.1
    · show pr.maxIter - 0 + 1 + _ ≤ pr.maxIter + 2
      split_ifs <;> omega

end Alpaqa.Ocp
