/-
  C17 helper lemmas, row level: the generic `read` step from any canonical state for *any* text
  (`read_canon`), hence for `readFields` / `readAll` / `nextLine` / `done`; `skip_comments` in front of
  any line; the frame theorems of the two row functions (`readRowCore_frame`, `readVecCore_frame`);
  the error handler (`discardLine_inLine`); reading a prefix of well-formed fields and then whatever
  follows (`readRowCore_prefix`, `readVecCore_prefix`); the rejecting steps.
-/
import Alpaqa.Proofs.C17
namespace Alpaqa.Proofs.C17
set_option linter.unusedSimpArgs false
open Alpaqa.C17 Alpaqa.Gen.C17

def PBound {V : Type} (P : List Char → Option (V × Nat)) : Prop :=
  ∀ l v k, P l = some (v, k) → k ≤ l.length

theorem readSingleG_le {V : Type} (rej : Bool) (P : List Char → Option (V × Nat)) (hP : PBound P)
    (s : List Char) (e : Nat) (he : e ≤ s.length) (v : V) (ptr : Nat)
    (h : readSingleG rej P s 0 e = some (v, ptr)) : ptr ≤ e := by
  unfold readSingleG at h
  simp only [singleFails] at h
  have hlen : (List.take e s).length = e := by rw [List.length_take]; omega
  by_cases hs : singleSkipPlus 0 e (s.getD 0 ' ') = true
  · have he1 : 1 ≤ e := by
      simp [singleSkipPlus] at hs
      omega
    simp only [hs, if_true] at h
    split at h
    · exact absurd h (by simp)
    · cases hp : P (List.drop (0 + 1) (List.take e s)) with
      | none => rw [hp] at h; simp at h
      | some vk =>
        obtain ⟨v', k⟩ := vk
        have := hP _ _ _ hp
        rw [hp] at h
        simp at h
        rw [List.length_drop, hlen] at this
        omega
  · have hs' : singleSkipPlus 0 e (s.getD 0 ' ') = false := by simpa using hs
    simp only [hs', Bool.false_and, Bool.false_eq_true, if_false] at h
    cases hp : P (List.drop 0 (List.take e s)) with
    | none => rw [hp] at h; simp at h
    | some vk =>
      obtain ⟨v', k⟩ := vk
      have := hP _ _ _ hp
      rw [hp] at h
      simp at h
      rw [List.length_drop, hlen] at this
      omega

theorem readSingle_le {V : Type} (P : List Char → Option (V × Nat)) (hP : PBound P) (s : List Char) (e : Nat)
    (he : e ≤ s.length) (v : V) (ptr : Nat) (h : readSingle P s 0 e = some (v, ptr)) : ptr ≤ e :=
  readSingleG_le _ P hP s e he v ptr h

/-- the token without a leading `+`: `read_single` is the oracle on the window -/
theorem readSingleG_noplus {V : Type} (rej : Bool) (P : List Char → Option (V × Nat)) (s : List Char) (e : Nat)
    (h : singleSkipPlus 0 e (s.getD 0 ' ') = false) :
    readSingleG rej P s 0 e = if (P (s.take e)).isSome then P (s.take e) else none := by
  unfold readSingleG
  simp only [h, Bool.false_and, Bool.false_eq_true, if_false, singleFails]
  cases hp : P (s.take e) with
  | none => simp [hp]
  | some vk => obtain ⟨v, k⟩ := vk; simp [hp]

/-- **`+-…` with the check**: whatever the oracle, the token is rejected -/
theorem readSingleG_plusminus_rejected {V : Type} (P : List Char → Option (V × Nat)) (X : List Char) (e : Nat)
    (he : 2 ≤ e) : readSingleG true P ('+' :: '-' :: X) 0 e = none := by
  have h1 : (0 != e) = true := by simp; omega
  have h2 : (1 != e) = true := by simp; omega
  simp [readSingleG, singleSkipPlus, h1, h2]

/-- **`+-…` without the check** (csv.tpp until the finding is fixed): the `+` is skipped and the oracle
    (`from_chars`, which accepts a minus sign) decides on the rest — `+-3` is read as `-3` -/
theorem readSingleG_plusminus_accepted {V : Type} (P : List Char → Option (V × Nat)) (X : List Char) (e : Nat)
    (he : 2 ≤ e) (v : V) (k : Nat) (hP : P (('-' :: X).take (e - 1)) = some (v, k)) :
    readSingleG false P ('+' :: '-' :: X) 0 e = some (v, 1 + k) := by
  have h1 : (0 != e) = true := by simp; omega
  obtain ⟨e', rfl⟩ : ∃ e', e = e' + 1 := ⟨e - 1, by omega⟩
  simp only [Nat.add_sub_cancel] at hP
  simp [readSingleG, singleSkipPlus, h1, singleFails, hP]

theorem shifted_zero (M : List Char) :
    shifted M 0 = ⟨M.take 64, min 64 M.length, decide (64 < M.length)⟩ := by simp [shifted]

/-- parse step from the canonical state at the start of the unread text `M`: either a value and the
    canonical state `j'` characters further (progress when `M ≠ []`), or an error with the reader
    unchanged -/
theorem readParse_canon {V : Type} (P : List Char → Option (V × Nat)) (hP : PBound P) (sep : Char)
    (M : List Char) :
    (∃ v j', j' ≤ min 64 M.length ∧ (M ≠ [] → 1 ≤ j') ∧
        readParse P (shifted M 0) sep = (.ok v, shifted M j')) ∨
    (∃ e, (e = .conv ∨ e = .sep ∨ e = .long) ∧ readParse P (shifted M 0) sep = (.error e, shifted M 0)) := by
  rw [shifted_zero]
  have hWlen : (M.take 64).length = min 64 M.length := List.length_take
  unfold readParse
  simp only [readBufend, readSingleBegin, Nat.zero_add]
  cases hrs : readSingle P (M.take 64) 0 (min 64 M.length) with
  | none => exact Or.inr ⟨.conv, Or.inl rfl, by simp⟩
  | some vp =>
    obtain ⟨v, ptr⟩ := vp
    have hle := readSingle_le P hP (M.take 64) (min 64 M.length) (by omega) v ptr hrs
    simp only []
    by_cases h1 : readSepBad ptr (min 64 M.length) ((M.take 64).getD ptr ' ') sep = true
    · exact Or.inr ⟨.sep, Or.inr (Or.inl rfl), by rw [if_pos h1]⟩
    · by_cases h2 : readLong ptr (min 64 M.length) (decide (64 < M.length)) = true
      · exact Or.inr ⟨.long, Or.inr (Or.inr rfl), by rw [if_neg h1, if_pos h2]⟩
      · by_cases h3 : readShift ptr (min 64 M.length) = true
        · have hne : ptr ≠ min 64 M.length := by simpa [readShift] using h3
          refine Or.inl ⟨v, ptr + 1, by omega, fun _ => by omega, ?_⟩
          rw [if_neg h1, if_neg h2, if_pos h3]
          have ht : List.take (min 64 M.length) (List.take 64 M) = List.take 64 M :=
            List.take_of_length_le (by omega)
          simp only [shifted, readCopyTo, readCopyFrom, readCopyDest, readBufidxShift, ht, List.take_zero,
            List.nil_append, Nat.sub_zero]
        · have heq : ptr = min 64 M.length := by simpa [readShift] using h3
          have hk : ¬ (64 < M.length) := by
            intro hk
            apply h2
            simp [readLong, heq, hk]
          refine Or.inl ⟨v, M.length, by omega, fun hM => ?_, ?_⟩
          · cases M with
            | nil => exact absurd rfl hM
            | cons a b => simp
          · rw [if_neg h1, if_neg h2, if_neg h3]
            have hd : List.drop M.length (List.take 64 M) = [] := List.drop_eq_nil_of_le (by omega)
            have hm : min 64 M.length - M.length = 0 := by omega
            simp [shifted, Reader.setBufidx, readBufidxElse, hk, hd, hm]


/-! ### canonical states over suffixes of one line, and the generic step -/

/-- reader and stream are in the canonical state over a suffix `M` of the line `L`, `rem` being the
    text of the line that is still unread -/
def Canon (L tail : List Char) (r : Reader) (is : IStream) (rem : List Char) : Prop :=
  ∃ M j, M <:+ L ∧ j ≤ min 64 M.length ∧ r = shifted M j ∧ is = streamOf M tail ∧ rem = M.drop j

/-- the stream is positioned inside the line `L` (or at its end): what is unread is a suffix of `L`
    followed by everything after the line -/
def InLine (L tail : List Char) (is : IStream) : Prop := ∃ pre, pre <:+ L ∧ is.rest = pre ++ tail

theorem NoNL.suffix {L M : List Char} (h : NoNL L) (hs : M <:+ L) : NoNL M :=
  fun c hc => h c (hs.subset hc)

theorem Canon.rem_suffix {L tail r is rem} (h : Canon L tail r is rem) : rem <:+ L := by
  obtain ⟨M, j, hM, _, _, _, rfl⟩ := h
  exact (List.drop_suffix j M).trans hM

theorem Canon.inLine {L tail r is rem} (h : Canon L tail r is rem) : InLine L tail is := by
  obtain ⟨M, j, hM, _, _, rfl, _⟩ := h
  exact ⟨M.drop 64, (List.drop_suffix 64 M).trans hM, rfl⟩

theorem canon_start (L tail : List Char) : Canon L tail (shifted L 0) (streamOf L tail) L :=
  ⟨L, 0, List.suffix_refl L, by omega, rfl, rfl, rfl⟩

/-- **generic `read` step** from any canonical state, for any text: a value and a canonical state
    further on in the line (strictly further when something was unread), or an error
    (conversion / separator / too long) with the stream still inside the line. -/
theorem read_canon {V : Type} (P : List Char → Option (V × Nat)) (hP : PBound P) (sep : Char)
    (L tail : List Char) (hL : NoNL L) (ht : TailOK tail) (r : Reader) (is : IStream) (rem : List Char)
    (hc : Canon L tail r is rem) :
    (∃ v r' is' rem', read P r is sep = (.ok v, r', is') ∧ Canon L tail r' is' rem' ∧
        (rem ≠ [] → rem'.length < rem.length)) ∨
    (∃ e r' is', (e = .conv ∨ e = .sep ∨ e = .long) ∧ read P r is sep = (.error e, r', is') ∧
        InLine L tail is') := by
  obtain ⟨M, j, hM, hj, rfl, rfl, rfl⟩ := hc
  have hch := chunkPhase_shifted M tail j hj (hL.suffix hM) ht
  have hsuf : M.drop j <:+ L := (List.drop_suffix j M).trans hM
  rcases readParse_canon P hP sep (M.drop j) with ⟨v, j', hj', hprog, hrp⟩ | ⟨e, he, hrp⟩
  · refine Or.inl ⟨v, shifted (M.drop j) j', streamOf (M.drop j) tail, (M.drop j).drop j', ?_, ?_, ?_⟩
    · simp only [Alpaqa.C17.read, hch, hrp]
    · exact ⟨M.drop j, j', hsuf, hj', rfl, rfl, rfl⟩
    · intro hne
      have := hprog hne
      have hlen : 0 < (M.drop j).length := List.length_pos_of_ne_nil hne
      rw [List.length_drop]
      omega
  · refine Or.inr ⟨e, shifted (M.drop j) 0, streamOf (M.drop j) tail, he, ?_, ?_⟩
    · simp only [Alpaqa.C17.read, hch, hrp]
    · exact (canon_start (M.drop j) tail).inLine.imp fun pre h => ⟨h.1.trans hsuf, h.2⟩


/-- the stream after a line has been read and its newline consumed -/
def afterLine : List Char → IStream
  | [] => ⟨[], true, true⟩
  | _ :: t => ⟨t, false, false⟩

/-- `readFields` from a canonical state, for any text -/
theorem readFields_canon {V : Type} (P : List Char → Option (V × Nat)) (hP : PBound P) (sep : Char)
    (L tail : List Char) (hL : NoNL L) (ht : TailOK tail) :
    ∀ (n : Nat) (r : Reader) (is : IStream) (rem : List Char), Canon L tail r is rem →
      (∃ vs r' is' rem', readFields P n r is sep = (.ok vs, r', is') ∧ Canon L tail r' is' rem' ∧
          vs.length = n) ∨
      (∃ e r' is', (e = .conv ∨ e = .sep ∨ e = .long) ∧ readFields P n r is sep = (.error e, r', is') ∧
          InLine L tail is') := by
  intro n
  induction n with
  | zero => intro r is rem hc; exact Or.inl ⟨[], r, is, rem, rfl, hc, rfl⟩
  | succ n ih =>
    intro r is rem hc
    rcases read_canon P hP sep L tail hL ht r is rem hc with ⟨v, r1, is1, rem1, h1, hc1, _⟩ | ⟨e, r1, is1, he, h1, hin⟩
    · rcases ih r1 is1 rem1 hc1 with ⟨vs, r2, is2, rem2, h2, hc2, hlen⟩ | ⟨e, r2, is2, he, h2, hin⟩
      · exact Or.inl ⟨v :: vs, r2, is2, rem2, by simp only [readFields, h1, h2], hc2, by simp [hlen]⟩
      · exact Or.inr ⟨e, r2, is2, he, by simp only [readFields, h1, h2], hin⟩
    · exact Or.inr ⟨e, r1, is1, he, by simp only [readFields, h1], hin⟩

/-- `next_line` from a canonical state: succeeds exactly when nothing of the line is unread -/
theorem nextLine_canon (L tail : List Char) (hL : NoNL L) (ht : TailOK tail) (r : Reader) (is : IStream)
    (rem : List Char) (hc : Canon L tail r is rem) :
    (rem = [] ∧ nextLine r is = (.ok (), afterLine tail)) ∨
    (rem ≠ [] ∧ ∃ is', nextLine r is = (.error .line, is') ∧ InLine L tail is') := by
  obtain ⟨M, j, hM, hj, rfl, rfl, rfl⟩ := hc
  by_cases hd : M.drop j = []
  · left
    obtain ⟨h1, h2⟩ := shifted_done M tail j hj hd
    refine ⟨hd, ?_⟩
    rw [h1, h2, nextLine_done tail ht]
    cases tail <;> rfl
  · right
    refine ⟨hd, ?_⟩
    have hlt : j < M.length := by
      by_contra h; exact hd (List.drop_eq_nil_of_le (by omega))
    by_cases hb : min 64 M.length - j > 0
    · refine ⟨streamOf M tail, ?_, (canon_start M tail).inLine.imp fun pre h => ⟨h.1.trans hM, h.2⟩⟩
      simp [nextLine, shifted, nextLineThrowsEvalsGetc, nextLineThrows, hb]
    · have h64 : 64 < M.length := by omega
      have hj64 : j = 64 := by omega
      have h1 : ¬ (M.length ≤ 64) := by omega
      obtain ⟨c, r, hcr⟩ : ∃ c r, M.drop 64 = c :: r := by
        cases hdd : M.drop 64 with
        | nil => have := List.drop_eq_nil_iff.mp hdd; omega
        | cons c r => exact ⟨c, r, rfl⟩
      have hc : c ≠ '\n' := hL c (hM.subset (List.mem_of_mem_drop (by rw [hcr]; simp)))
      have hr : r <:+ L := by
        have : r <:+ M.drop 64 := by rw [hcr]; exact List.suffix_cons c r
        exact (this.trans (List.drop_suffix 64 M)).trans hM
      refine ⟨⟨r ++ tail, false, false⟩, ?_, ⟨r, hr, rfl⟩⟩
      have hb0 : min 64 M.length - j = 0 := by omega
      simp [nextLine, shifted, streamOf, nextLineThrowsEvalsGetc, nextLineThrows, hb0, h1, hcr, IStream.get1,
        IStream.good, endCh, hc]

/-- `done` from a canonical state: true exactly when nothing of the line is unread; the stream is
    not changed -/
theorem done_canon (L tail : List Char) (hL : NoNL L) (ht : TailOK tail) (r : Reader) (is : IStream)
    (rem : List Char) (hc : Canon L tail r is rem) :
    done r is = (decide (rem = []), is) := by
  obtain ⟨M, j, hM, hj, rfl, rfl, rfl⟩ := hc
  by_cases h : 64 < M.length
  · have h1 : ¬ (M.length ≤ 64) := by omega
    obtain ⟨c, r, hcr⟩ : ∃ c r, M.drop 64 = c :: r := by
      cases hdd : M.drop 64 with
      | nil => have := List.drop_eq_nil_iff.mp hdd; omega
      | cons c r => exact ⟨c, r, rfl⟩
    have hc : c ≠ '\n' := hL c (hM.subset (List.mem_of_mem_drop (by rw [hcr]; simp)))
    have hne : M.drop j ≠ [] := by
      intro hd; have := List.drop_eq_nil_iff.mp hd; omega
    simp [done, doneKeepEvalsPeek, doneRet, doneKeep, shifted, streamOf, h1, hcr, IStream.peek, IStream.good,
      endCh, hc, hne]
  · have h1 : M.length ≤ 64 := by omega
    have hd64 : M.drop 64 = [] := List.drop_eq_nil_of_le h1
    have hiff : (M.drop j = []) ↔ (min 64 M.length - j = 0) := by
      rw [List.drop_eq_nil_iff]; omega
    rcases ht with rfl | ⟨t, rfl⟩
    · simp [done, doneKeepEvalsPeek, doneRet, doneKeep, shifted, streamOf, h1, hd64, IStream.peek, IStream.good,
        endCh, hiff]
      cases hk : M.length - j <;> simp
    · simp [done, doneKeepEvalsPeek, doneRet, doneKeep, shifted, streamOf, h1, hd64, IStream.peek, IStream.good,
        endCh, hiff]
      cases hk : M.length - j <;> simp


/-- `while (!reader.done(is)) v.push_back(reader.read(is, sep))` from a canonical state, for any
    text; the recursion bound of the model is never what ends the loop (`f` only has to exceed the
    length of the unread text, every successful `read` consumes at least one character) -/
theorem readAll_canon {V : Type} (P : List Char → Option (V × Nat)) (hP : PBound P) (sep : Char)
    (L tail : List Char) (hL : NoNL L) (ht : TailOK tail) :
    ∀ (f : Nat) (r : Reader) (is : IStream) (rem : List Char), Canon L tail r is rem → rem.length + 1 ≤ f →
      (∃ vs r' is', readAll P f r is sep = (.ok vs, r', is') ∧ Canon L tail r' is' []) ∨
      (∃ e r' is', (e = .conv ∨ e = .sep ∨ e = .long) ∧ readAll P f r is sep = (.error e, r', is') ∧
          InLine L tail is') := by
  intro f
  induction f with
  | zero => intro r is rem _ hf; omega
  | succ f ih =>
    intro r is rem hc hf
    have hd := done_canon L tail hL ht r is rem hc
    by_cases hrem : rem = []
    · subst hrem
      exact Or.inl ⟨[], r, is, by simp [readAll, hd], hc⟩
    · rcases read_canon P hP sep L tail hL ht r is rem hc with ⟨v, r1, is1, rem1, h1, hc1, hlt⟩ | ⟨e, r1, is1, he, h1, hin⟩
      · have hlt := hlt hrem
        rcases ih r1 is1 rem1 hc1 (by omega) with ⟨vs, r2, is2, h2, hc2⟩ | ⟨e, r2, is2, he, h2, hin⟩
        · exact Or.inl ⟨v :: vs, r2, is2, by simp [readAll, hd, hrem, h1, h2], hc2⟩
        · exact Or.inr ⟨e, r2, is2, he, by simp [readAll, hd, hrem, h1, h2], hin⟩
      · exact Or.inr ⟨e, r1, is1, he, by simp [readAll, hd, hrem, h1], hin⟩

/-! ### `skip_comments` in front of any line -/

/-- any number of comment lines, then a non-empty line that is not a comment: the canonical start -/
theorem skipComments_line (cs : List (List Char)) (hcs : ∀ b ∈ cs, NoNL b) (line tail : List Char)
    (c : Char) (l : List Char) (hline : line = c :: l) (hc : c ≠ '#') (hNL : NoNL line) (ht : TailOK tail) :
    skipComments {} ⟨commentText cs ++ (line ++ tail), false, false⟩ =
      (.ok (), shifted line 0, streamOf line tail) := by
  have hF : cs.length + 1 ≤ (commentText cs ++ (line ++ tail)).length + 1 := by
    have := commentText_length cs
    simp only [List.length_append]; omega
  obtain ⟨k', hk⟩ := comments_skipped (line ++ tail) cs true _ hF hcs
  have hpos : ∃ f, (commentText cs ++ (line ++ tail)).length + 1 - cs.length = f + 1 := by
    have := commentText_length cs
    exact ⟨(commentText cs ++ (line ++ tail)).length - cs.length, by
      simp only [List.length_append] at *; omega⟩
  obtain ⟨f, hf⟩ := hpos
  rw [skipComments_eq]
  have hr0 : ({} : Reader) = ⟨[], 0, true⟩ := rfl
  rw [hr0, hk, hf]
  exact afterTest_data f k' _ tail c l hline hc hNL ht

/-- any number of comment lines, then an empty line (or the end of the file): nothing is loaded -/
theorem skipComments_emptyline (cs : List (List Char)) (hcs : ∀ b ∈ cs, NoNL b) (tail : List Char)
    (ht : TailOK tail) :
    ∃ k', skipComments {} ⟨commentText cs ++ tail, false, false⟩ =
      (.ok (), ⟨[], 0, k'⟩, ⟨tail, tail.isEmpty, false⟩) := by
  have hF : cs.length + 1 ≤ (commentText cs ++ tail).length + 1 := by
    have := commentText_length cs
    simp only [List.length_append]; omega
  obtain ⟨k', hk⟩ := comments_skipped tail cs true _ hF hcs
  have hpos : ∃ f, (commentText cs ++ tail).length + 1 - cs.length = f + 1 := by
    have := commentText_length cs
    exact ⟨(commentText cs ++ tail).length - cs.length, by simp only [List.length_append] at *; omega⟩
  obtain ⟨f, hf⟩ := hpos
  have hr0 : ({} : Reader) = ⟨[], 0, true⟩ := rfl
  refine ⟨k', ?_⟩
  rw [skipComments_eq, hr0, hk, hf]
  rcases ht with rfl | ⟨t, rfl⟩
  · rw [afterTest_eof]; rfl
  · rw [afterTest_empty]; rfl


/-! ### every row call consumes exactly one line, or fails inside it -/

/-- the line is not a comment line (it may be empty) -/
def DataLine (L : List Char) : Prop := ∀ c l, L = c :: l → c ≠ '#'

/-- the stream is at the start of what follows the line (`tail` = `[]` at the end of the file, or
    the newline and the following lines) -/
def AtNext (tail : List Char) (is : IStream) : Prop :=
  match tail with
  | [] => is.rest = [] ∧ is.eof = true
  | _ :: t => is = ⟨t, false, false⟩

/-- the stream after the error handler has discarded the rest of the line -/
def afterError : List Char → IStream
  | [] => ⟨[], true, false⟩
  | _ :: t => ⟨t, false, false⟩

theorem atNext_afterLine (tail : List Char) : AtNext tail (afterLine tail) := by
  cases tail <;> simp [AtNext, afterLine]

theorem atNext_afterError (tail : List Char) : AtNext tail (afterError tail) := by
  cases tail <;> simp [AtNext, afterError]

theorem AtNext.rest {tail : List Char} {is : IStream} (h : AtNext tail is) : is.rest = tail.drop 1 := by
  cases tail with
  | nil => exact h.1
  | cons a t => simp only [AtNext] at h; subst h; rfl

/-- `read` on an empty line (nothing loaded, nothing to load): an error, nothing consumed -/
theorem read_emptyline {V : Type} (P : List Char → Option (V × Nat)) (hP0 : P [] = none) (sep : Char)
    (k' : Bool) (tail : List Char) (ht : TailOK tail) :
    ∃ e r' is', (e = .ext ∨ e = .conv) ∧
      read P ⟨[], 0, k'⟩ ⟨tail, tail.isEmpty, false⟩ sep = (.error e, r', is') ∧ is'.rest = tail := by
  cases k' with
  | false =>
    refine ⟨.conv, ⟨[], 0, false⟩, ⟨tail, tail.isEmpty, false⟩, Or.inr rfl, ?_, rfl⟩
    simp [Alpaqa.C17.read, chunkPhase, readCallsChunk, readParse, readBufend, readSingleBegin, readSingle, readSingleG,
      singleSkipPlus, hP0, singleFails]
  | true =>
    rcases ht with rfl | ⟨t, rfl⟩
    · refine ⟨.ext, ⟨[], 0, true⟩, ⟨[], true, true⟩, Or.inl rfl, ?_, rfl⟩
      simp [Alpaqa.C17.read, chunkPhase, readCallsChunk, readChunk, chunkInvalid, IStream.ok, chunkFull,
        bufmaxsize, IStream.getN, IStream.good, chunkGetFailed]
    · refine ⟨.ext, ⟨[], 0, true⟩, ⟨'\n' :: t, false, true⟩, Or.inl rfl, ?_, rfl⟩
      simp [Alpaqa.C17.read, chunkPhase, readCallsChunk, readChunk, chunkInvalid, IStream.ok, chunkFull,
        bufmaxsize, IStream.getN, IStream.good, chunkGetFailed, chunkGetCount, chunkGetDelim, endCh,
        IStream.line]

theorem nextLine_emptyline (k' : Bool) (tail : List Char) (ht : TailOK tail) :
    ∃ is', nextLine ⟨[], 0, k'⟩ ⟨tail, tail.isEmpty, false⟩ = (.ok (), is') ∧ AtNext tail is' := by
  rcases ht with rfl | ⟨t, rfl⟩
  · exact ⟨⟨[], true, false⟩, by simp [nextLine, nextLineThrowsEvalsGetc, nextLineThrows], by simp [AtNext]⟩
  · exact ⟨⟨t, false, false⟩, by
      simp [nextLine, nextLineThrowsEvalsGetc, nextLineThrows, IStream.get1, IStream.good, endCh],
      by simp [AtNext]⟩

/-- **`read_row_impl` without handler, any text**: for *every* content `L` of the line that follows
    the comment lines — well-formed or not — the call either returns `n` values with the stream at the
    start of the next line, or throws with the stream still inside `L`: nothing after the line's end
    is ever consumed, and the model's recursion bound is never the reason. -/
theorem readRowCore_frame {V : Type} (P : List Char → Option (V × Nat)) (hP : PBound P) (hP0 : P [] = none)
    (sep : Char) (cs : List (List Char)) (hcs : ∀ b ∈ cs, NoNL b) (L tail : List Char) (hL : NoNL L)
    (hdata : DataLine L) (ht : TailOK tail) (n : Nat) :
    (∃ vs is', readRowCore P n sep ⟨commentText cs ++ (L ++ tail), false, false⟩ = (.ok vs, is') ∧
        AtNext tail is' ∧ vs.length = n) ∨
    (∃ e is', e ≠ .fuel ∧ readRowCore P n sep ⟨commentText cs ++ (L ++ tail), false, false⟩ = (.error e, is') ∧
        InLine L tail is') := by
  cases hLc : L with
  | nil =>
    obtain ⟨k', hk⟩ := skipComments_emptyline cs hcs tail ht
    cases n with
    | zero =>
      obtain ⟨is', h1, h2⟩ := nextLine_emptyline k' tail ht
      exact Or.inl ⟨[], is', by simp [readRowCore, hk, readFields, h1], h2, rfl⟩
    | succ n =>
      obtain ⟨e, r', is', he, h1, h2⟩ := read_emptyline P hP0 sep k' tail ht
      refine Or.inr ⟨e, is', by rcases he with rfl | rfl <;> simp, ?_, ⟨[], List.suffix_refl _, by simpa using h2⟩⟩
      simp [readRowCore, hk, readFields, h1]
  | cons c l =>
    have hc : c ≠ '#' := hdata c l hLc
    rw [← hLc]
    have hs := skipComments_line cs hcs L tail c l hLc hc hL ht
    rcases readFields_canon P hP sep L tail hL ht n _ _ _ (canon_start L tail) with
      ⟨vs, r2, is2, rem2, h2, hc2, hlen⟩ | ⟨e, r2, is2, he, h2, hin⟩
    · rcases nextLine_canon L tail hL ht r2 is2 rem2 hc2 with ⟨_, h3⟩ | ⟨_, is3, h3, hin⟩
      · exact Or.inl ⟨vs, afterLine tail, by simp [readRowCore, hs, h2, h3], atNext_afterLine tail, hlen⟩
      · exact Or.inr ⟨.line, is3, by simp, by simp [readRowCore, hs, h2, h3], hin⟩
    · exact Or.inr ⟨e, is2, by rcases he with rfl | rfl | rfl <;> simp, by simp [readRowCore, hs, h2], hin⟩


theorem done_emptyline (k' : Bool) (tail : List Char) (ht : TailOK tail) :
    done ⟨[], 0, k'⟩ ⟨tail, tail.isEmpty, false⟩ = (true, ⟨tail, tail.isEmpty, tail.isEmpty⟩) := by
  rcases ht with rfl | ⟨t, rfl⟩
  · simp [done, doneKeepEvalsPeek, doneRet, doneKeep, IStream.peek, IStream.good]
  · simp [done, doneKeepEvalsPeek, doneRet, doneKeep, IStream.peek, IStream.good, endCh]

/-- **`read_row_std_vector` without handler, any text** (as `readRowCore_frame`) -/
theorem readVecCore_frame {V : Type} (P : List Char → Option (V × Nat)) (hP : PBound P)
    (sep : Char) (cs : List (List Char)) (hcs : ∀ b ∈ cs, NoNL b) (L tail : List Char) (hL : NoNL L)
    (hdata : DataLine L) (ht : TailOK tail) :
    (∃ vs is', readVecCore P sep ⟨commentText cs ++ (L ++ tail), false, false⟩ = (.ok vs, is') ∧
        AtNext tail is') ∨
    (∃ e is', e ≠ .fuel ∧ readVecCore P sep ⟨commentText cs ++ (L ++ tail), false, false⟩ = (.error e, is') ∧
        InLine L tail is') := by
  cases hLc : L with
  | nil =>
    obtain ⟨k', hk⟩ := skipComments_emptyline cs hcs tail ht
    have hd := done_emptyline k' tail ht
    have hn := nextLine_done tail ht
    have hn' : nextLine ⟨[], 0, k'⟩ ⟨tail, tail.isEmpty, tail.isEmpty⟩ = (.ok (), afterLine tail) := by
      have : nextLine ⟨[], 0, k'⟩ ⟨tail, tail.isEmpty, tail.isEmpty⟩ =
          nextLine ⟨[], 0, false⟩ ⟨tail, tail.isEmpty, tail.isEmpty⟩ := rfl
      rw [this, hn]; cases tail <;> rfl
    refine Or.inl ⟨[], afterLine tail, ?_, atNext_afterLine tail⟩
    simp [readVecCore, hk, readAll, hd, hn']
  | cons c l =>
    have hc : c ≠ '#' := hdata c l hLc
    rw [← hLc]
    have hs := skipComments_line cs hcs L tail c l hLc hc hL ht
    have hfuel : L.length + 1 ≤ (streamOf L tail).rest.length + (shifted L 0).bufidx + 2 := by
      simp only [streamOf, shifted, List.length_append, List.length_drop]
      omega
    rcases readAll_canon P hP sep L tail hL ht _ _ _ _ (canon_start L tail) hfuel with
      ⟨vs, r2, is2, h2, hc2⟩ | ⟨e, r2, is2, he, h2, hin⟩
    · rcases nextLine_canon L tail hL ht r2 is2 [] hc2 with ⟨_, h3⟩ | ⟨hne, _⟩
      · exact Or.inl ⟨vs, afterLine tail, by simp [readVecCore, hs, h2, h3], atNext_afterLine tail⟩
      · exact absurd rfl hne
    · exact Or.inr ⟨e, is2, by rcases he with rfl | rfl | rfl <;> simp, by simp [readVecCore, hs, h2], hin⟩

/-- the error handler, applied to a stream that is inside the line, leaves the stream exactly at
    the start of what follows the line, with no flag set except eofbit at the end of the file -/
theorem discardLine_inLine (L tail : List Char) (hL : NoNL L) (ht : TailOK tail) (is : IStream)
    (h : InLine L tail is) : discardLine is = afterError tail := by
  obtain ⟨pre, hpre, hrest⟩ := h
  have hline := line_append pre tail (hL.suffix hpre) ht
  cases is with
  | mk rest eof fail =>
    simp only at hrest
    subst hrest
    rcases ht with rfl | ⟨t, rfl⟩
    · simp only [List.append_nil] at hline
      simp [discardLine, IStream.clear, IStream.ignoreLine, IStream.good, endCh, hline, afterError]
    · simp [discardLine, IStream.clear, IStream.ignoreLine, IStream.good, endCh, hline, afterError]


/-! ### reading a prefix of well-formed fields, then whatever follows -/

/-- fields, each followed by the separator -/
def fieldsText (sep : Char) : List (List Char) → List Char
  | [] => []
  | t :: r => t ++ sep :: fieldsText sep r

/-- prepend already-read values to the result of the rest of the loop -/
def prependOk {V σ : Type} (vs : List V) : Res (List V) × σ → Res (List V) × σ
  | (.ok ws, s) => (.ok (vs ++ ws), s)
  | (.error e, s) => (.error e, s)

theorem prependOk_nil {V σ : Type} (x : Res (List V) × σ) : prependOk [] x = x := by
  obtain ⟨r, s⟩ := x
  cases r <;> rfl

theorem prependOk_cons {V σ : Type} (v : V) (vs : List V) (x : Res (List V) × σ) :
    prependOk (v :: vs) x = prependOk [v] (prependOk vs x) := by
  obtain ⟨r, s⟩ := x
  cases r <;> rfl

theorem readFields_succ_ok {V : Type} (P : List Char → Option (V × Nat)) (n : Nat) (r : Reader) (is : IStream)
    (sep : Char) (v : V) (r1 : Reader) (is1 : IStream) (h : read P r is sep = (.ok v, r1, is1)) :
    readFields P (n + 1) r is sep = prependOk [v] (readFields P n r1 is1 sep) := by
  rw [readFields, h]
  dsimp only
  rcases hh : readFields P n r1 is1 sep with ⟨res, r2, is2⟩
  cases res <;> simp [prependOk]

theorem readFields_succ_err {V : Type} (P : List Char → Option (V × Nat)) (n : Nat) (r : Reader) (is : IStream)
    (sep : Char) (e : Err) (r1 : Reader) (is1 : IStream) (h : read P r is sep = (.error e, r1, is1)) :
    readFields P (n + 1) r is sep = (.error e, r1, is1) := by
  rw [readFields, h]

/-- `k` well-formed fields (each < window, each followed by the separator) are read from any
    canonical state, whatever follows them (`R`), leaving the canonical state in front of `R` -/
theorem readFields_prefix {V : Type} (P : List Char → Option (V × Nat)) (sep : Char)
    (L tail : List Char) (hL : NoNL L) (ht : TailOK tail) (R : List Char) :
    ∀ (tv : List (List Char × V)), (∀ p ∈ tv, p.1.length ≤ 63) → (∀ p ∈ tv, TokOK P sep p.1 p.2) →
    ∀ (r : Reader) (is : IStream), Canon L tail r is (fieldsText sep (tv.map (·.1)) ++ R) →
      ∃ r' is', Canon L tail r' is' R ∧
        ∀ m, readFields P (tv.length + m) r is sep = prependOk (tv.map (·.2)) (readFields P m r' is' sep) := by
  intro tv
  induction tv with
  | nil =>
    intro _ _ r is hc
    exact ⟨r, is, by simpa [fieldsText] using hc, fun m => by simp [prependOk_nil]⟩
  | cons p rest ih =>
    intro hlen hok r is hc
    obtain ⟨M, j, hM, hj, rfl, rfl, hrem⟩ := hc
    have hd : M.drop j = p.1 ++ sep :: (fieldsText sep (rest.map (·.1)) ++ R) := by
      rw [← hrem]; simp [fieldsText]
    have hr := read_tok P sep M tail p.1 _ j p.2 hj (hL.suffix hM) ht hd (hlen p (by simp)) (hok p (by simp))
    have hj2 : p.1.length + 1 ≤ min 64 (M.drop j).length := by
      have := hlen p (by simp)
      rw [hd, List.length_append, List.length_cons]; omega
    have hdd : (M.drop j).drop (p.1.length + 1) = fieldsText sep (rest.map (·.1)) ++ R := by
      rw [hd, List.drop_append, List.drop_eq_nil_of_le (by omega)]
      simp
    have hc' : Canon L tail (shifted (M.drop j) (p.1.length + 1)) (streamOf (M.drop j) tail)
        (fieldsText sep (rest.map (·.1)) ++ R) :=
      ⟨M.drop j, p.1.length + 1, (List.drop_suffix j M).trans hM, hj2, rfl, rfl, hdd.symm⟩
    obtain ⟨r', is', hcR, hrf⟩ := ih (fun q hq => hlen q (by simp [hq])) (fun q hq => hok q (by simp [hq])) _ _ hc'
    refine ⟨r', is', hcR, fun m => ?_⟩
    have e1 : (p :: rest).length + m = (rest.length + m) + 1 := by simp; omega
    rw [e1, readFields_succ_ok P _ _ _ sep p.2 _ _ hr, hrf m, List.map_cons]
    exact (prependOk_cons _ _ _).symm


theorem readAll_succ_ok {V : Type} (P : List Char → Option (V × Nat)) (f : Nat) (r : Reader) (is : IStream)
    (sep : Char) (v : V) (r1 : Reader) (is1 : IStream) (hd : done r is = (false, is))
    (h : read P r is sep = (.ok v, r1, is1)) :
    readAll P (f + 1) r is sep = prependOk [v] (readAll P f r1 is1 sep) := by
  rw [readAll, hd]
  dsimp only
  rw [h]
  dsimp only
  rcases hh : readAll P f r1 is1 sep with ⟨res, r2, is2⟩
  cases res <;> simp [prependOk]

theorem readAll_succ_err {V : Type} (P : List Char → Option (V × Nat)) (f : Nat) (r : Reader) (is : IStream)
    (sep : Char) (e : Err) (r1 : Reader) (is1 : IStream) (hd : done r is = (false, is))
    (h : read P r is sep = (.error e, r1, is1)) :
    readAll P (f + 1) r is sep = (.error e, r1, is1) := by
  rw [readAll, hd]
  dsimp only
  rw [h]
  simp

theorem readAll_prefix {V : Type} (P : List Char → Option (V × Nat)) (sep : Char)
    (L tail : List Char) (hL : NoNL L) (ht : TailOK tail) (R : List Char) :
    ∀ (tv : List (List Char × V)), (∀ p ∈ tv, p.1.length ≤ 63) → (∀ p ∈ tv, TokOK P sep p.1 p.2) →
    ∀ (r : Reader) (is : IStream), Canon L tail r is (fieldsText sep (tv.map (·.1)) ++ R) →
      ∃ r' is', Canon L tail r' is' R ∧
        ∀ f, readAll P (tv.length + f) r is sep = prependOk (tv.map (·.2)) (readAll P f r' is' sep) := by
  intro tv
  induction tv with
  | nil =>
    intro _ _ r is hc
    exact ⟨r, is, by simpa [fieldsText] using hc, fun m => by simp [prependOk_nil]⟩
  | cons p rest ih =>
    intro hlen hok r is hc
    have hdone := done_canon L tail hL ht r is _ hc
    have hne : fieldsText sep ((p :: rest).map (·.1)) ++ R ≠ [] := by simp [fieldsText]
    simp only [hne, decide_false] at hdone
    obtain ⟨M, j, hM, hj, rfl, rfl, hrem⟩ := hc
    have hd : M.drop j = p.1 ++ sep :: (fieldsText sep (rest.map (·.1)) ++ R) := by
      rw [← hrem]; simp [fieldsText]
    have hr := read_tok P sep M tail p.1 _ j p.2 hj (hL.suffix hM) ht hd (hlen p (by simp)) (hok p (by simp))
    have hj2 : p.1.length + 1 ≤ min 64 (M.drop j).length := by
      have := hlen p (by simp)
      rw [hd, List.length_append, List.length_cons]; omega
    have hdd : (M.drop j).drop (p.1.length + 1) = fieldsText sep (rest.map (·.1)) ++ R := by
      rw [hd, List.drop_append, List.drop_eq_nil_of_le (by omega)]
      simp
    have hc' : Canon L tail (shifted (M.drop j) (p.1.length + 1)) (streamOf (M.drop j) tail)
        (fieldsText sep (rest.map (·.1)) ++ R) :=
      ⟨M.drop j, p.1.length + 1, (List.drop_suffix j M).trans hM, hj2, rfl, rfl, hdd.symm⟩
    obtain ⟨r', is', hcR, hrf⟩ := ih (fun q hq => hlen q (by simp [hq])) (fun q hq => hok q (by simp [hq])) _ _ hc'
    refine ⟨r', is', hcR, fun m => ?_⟩
    have e1 : (p :: rest).length + m = (rest.length + m) + 1 := by simp; omega
    rw [e1, readAll_succ_ok P _ _ _ sep p.2 _ _ hdone hr, hrf m, List.map_cons]
    exact (prependOk_cons _ _ _).symm

/-! ### the rejecting `read` steps, from any canonical state -/

/-- a token the oracle stops after, followed by a character that is not the separator -/
theorem read_wrongsep {V : Type} (P : List Char → Option (V × Nat)) (sep c : Char)
    (L tail tok L' : List Char) (j : Nat) (v : V) (hj : j ≤ min 64 L.length) (hL : NoNL L) (ht : TailOK tail)
    (hd : L.drop j = tok ++ c :: L') (hc : c ≠ sep) (hlen : tok.length ≤ 63)
    (hparse : ∀ X, readSingle P (tok ++ c :: X) 0 (tok ++ c :: X).length = some (v, tok.length)) :
    read P (shifted L j) (streamOf L tail) sep =
      (.error .sep, shifted (L.drop j) 0, streamOf (L.drop j) tail) := by
  simp only [Alpaqa.C17.read, chunkPhase_shifted L tail j hj hL ht]
  rw [hd]
  have hW := take64_tok_sep tok L' c hlen
  have hrs := hparse (L'.take (63 - tok.length))
  have hlenW : min 64 (tok ++ c :: L').length = (tok ++ c :: L'.take (63 - tok.length)).length := by
    rw [← hW, List.length_take]
  have hne : tok.length ≠ (tok ++ c :: L'.take (63 - tok.length)).length := by simp
  have hget : (tok ++ c :: L'.take (63 - tok.length)).getD tok.length ' ' = c := by
    simp [List.getD_eq_getElem?_getD]
  simp only [readParse, shifted, readBufend, readSingleBegin, Nat.zero_add, List.drop_zero, Nat.sub_zero, hW,
    hlenW, hrs]
  simp [readSepBad, hne, hget, hc]

/-- the oracle rejects the window -/
theorem read_unparsable {V : Type} (P : List Char → Option (V × Nat)) (sep : Char)
    (L tail : List Char) (j : Nat) (hj : j ≤ min 64 L.length) (hL : NoNL L) (ht : TailOK tail)
    (hparse : readSingle P ((L.drop j).take 64) 0 (min 64 (L.drop j).length) = none) :
    read P (shifted L j) (streamOf L tail) sep =
      (.error .conv, shifted (L.drop j) 0, streamOf (L.drop j) tail) := by
  simp only [Alpaqa.C17.read, chunkPhase_shifted L tail j hj hL ht]
  have hparse' := hparse
  simp only [List.length_drop] at hparse'
  simp [readParse, shifted, readBufend, readSingleBegin, hparse']

/-- which error an over-long token produces: decided by the oracle on its first 64 characters -/
def overlongErr {V : Type} (P : List Char → Option (V × Nat)) (tok : List Char) : Err :=
  match readSingle P (tok.take 64) 0 64 with
  | none => .conv
  | some (_, ptr) => if ptr = 64 then .long else .sep

theorem overlongErr_cases {V : Type} (P : List Char → Option (V × Nat)) (tok : List Char) :
    overlongErr P tok = .conv ∨ overlongErr P tok = .sep ∨ overlongErr P tok = .long := by
  unfold overlongErr
  rcases readSingle P (tok.take 64) 0 64 with _ | ⟨v, ptr⟩
  · exact Or.inl rfl
  · by_cases h : ptr = 64 <;> simp [h]

/-- a token longer than the window -/
theorem read_overlong {V : Type} (P : List Char → Option (V × Nat)) (sep : Char)
    (L tail tok rest : List Char) (j : Nat) (hj : j ≤ min 64 L.length) (hL : NoNL L) (ht : TailOK tail)
    (hd : L.drop j = tok ++ rest) (hlong : 65 ≤ tok.length) (hsep : sep ∉ tok)
    (hbound : ∀ v ptr, readSingle P (tok.take 64) 0 64 = some (v, ptr) → ptr ≤ 64) :
    read P (shifted L j) (streamOf L tail) sep =
      (.error (overlongErr P tok), shifted (L.drop j) 0, streamOf (L.drop j) tail) := by
  simp only [Alpaqa.C17.read, chunkPhase_shifted L tail j hj hL ht]
  have hW : (L.drop j).take 64 = tok.take 64 := by
    rw [hd, List.take_append_of_le_length (by omega)]
  have hlen : 64 < (L.drop j).length := by rw [hd, List.length_append]; omega
  have hmin : min 64 (L.drop j).length = 64 := by omega
  have hsh : shifted (L.drop j) 0 = ⟨tok.take 64, 64, true⟩ := by
    simp only [shifted, List.drop_zero, Nat.sub_zero, hW, hmin]
    have : 64 < L.length - j := by simpa using hlen
    simp [this]
  rw [hsh]
  unfold overlongErr
  cases hrs : readSingle P (tok.take 64) 0 64 with
  | none => simp [readParse, readBufend, readSingleBegin, hrs]
  | some vp =>
    obtain ⟨v, ptr⟩ := vp
    have hb := hbound v ptr hrs
    by_cases h64 : ptr = 64
    · subst h64
      simp [readParse, readBufend, readSingleBegin, hrs, readSepBad, readLong]
    · have hlt : ptr < (tok.take 64).length := by rw [List.length_take]; omega
      have hne : (tok.take 64)[ptr]?.getD ' ' ≠ sep := by
        rw [List.getElem?_eq_getElem hlt]
        simp only [Option.getD_some]
        intro h
        exact hsep (h ▸ List.mem_of_mem_take (List.getElem_mem hlt))
      simp [readParse, readBufend, readSingleBegin, hrs, readSepBad, h64, hne]

/-! ### row level: `k` well-formed fields, then `R` -/

theorem fieldsText_length (sep : Char) (toks : List (List Char)) :
    toks.length ≤ (fieldsText sep toks).length := by
  induction toks with
  | nil => simp [fieldsText]
  | cons t r ih => simp [fieldsText]; omega

/-- what `read_row_impl` does after the fields (continuation of `readRowCore` after `readFields`) -/
def finishRow {V : Type} : Res (List V) × Reader × IStream → Res (List V) × IStream
  | (.error e, _, is2) => (.error e, is2)
  | (.ok vs, r2, is2) =>
    match nextLine r2 is2 with
    | (.error e, is3) => (.error e, is3)
    | (.ok (), is3) => (.ok vs, is3)

theorem readRowCore_prefix {V : Type} (P : List Char → Option (V × Nat)) (sep : Char)
    (cs : List (List Char)) (hcs : ∀ b ∈ cs, NoNL b) (L tail : List Char) (hL : NoNL L) (ht : TailOK tail)
    (c : Char) (l : List Char) (hLc : L = c :: l) (hc : c ≠ '#')
    (tv : List (List Char × V)) (hlen : ∀ p ∈ tv, p.1.length ≤ 63) (hok : ∀ p ∈ tv, TokOK P sep p.1 p.2)
    (R : List Char) (hline : L = fieldsText sep (tv.map (·.1)) ++ R) :
    ∃ r' is', Canon L tail r' is' R ∧
      ∀ m, readRowCore P (tv.length + m) sep ⟨commentText cs ++ (L ++ tail), false, false⟩ =
        finishRow (prependOk (tv.map (·.2)) (readFields P m r' is' sep)) := by
  have hs := skipComments_line cs hcs L tail c l hLc hc hL ht
  have hc0 : Canon L tail (shifted L 0) (streamOf L tail) (fieldsText sep (tv.map (·.1)) ++ R) := by
    rw [← hline]; exact canon_start L tail
  obtain ⟨r', is', hcR, hrf⟩ := readFields_prefix P sep L tail hL ht R tv hlen hok _ _ hc0
  refine ⟨r', is', hcR, fun m => ?_⟩
  rw [readRowCore, hs]
  dsimp only
  rw [hrf m]
  rcases prependOk (tv.map (·.2)) (readFields P m r' is' sep) with ⟨res, r2, is2⟩
  cases res <;> rfl

/-- continuation of `readVecCore` after `readAll` (the same as for `read_row_impl`) -/
theorem readVecCore_prefix {V : Type} (P : List Char → Option (V × Nat)) (sep : Char)
    (cs : List (List Char)) (hcs : ∀ b ∈ cs, NoNL b) (L tail : List Char) (hL : NoNL L) (ht : TailOK tail)
    (c : Char) (l : List Char) (hLc : L = c :: l) (hc : c ≠ '#')
    (tv : List (List Char × V)) (hlen : ∀ p ∈ tv, p.1.length ≤ 63) (hok : ∀ p ∈ tv, TokOK P sep p.1 p.2)
    (R : List Char) (hline : L = fieldsText sep (tv.map (·.1)) ++ R) :
    ∃ r' is' f, Canon L tail r' is' R ∧ R.length + 2 ≤ f ∧
      readVecCore P sep ⟨commentText cs ++ (L ++ tail), false, false⟩ =
        finishRow (prependOk (tv.map (·.2)) (readAll P f r' is' sep)) := by
  have hs := skipComments_line cs hcs L tail c l hLc hc hL ht
  have hc0 : Canon L tail (shifted L 0) (streamOf L tail) (fieldsText sep (tv.map (·.1)) ++ R) := by
    rw [← hline]; exact canon_start L tail
  obtain ⟨r', is', hcR, hrf⟩ := readAll_prefix P sep L tail hL ht R tv hlen hok _ _ hc0
  have hfl := fieldsText_length sep (tv.map (·.1))
  have hLl : L.length = (fieldsText sep (tv.map (·.1))).length + R.length := by
    rw [hline, List.length_append]
  have hfuel : ∃ f, (streamOf L tail).rest.length + (shifted L 0).bufidx + 2 = tv.length + f ∧ R.length + 2 ≤ f := by
    refine ⟨(streamOf L tail).rest.length + (shifted L 0).bufidx + 2 - tv.length, ?_, ?_⟩ <;>
    · simp only [streamOf, shifted, List.length_append, List.length_drop, List.length_map] at *
      omega
  obtain ⟨f, hf1, hf2⟩ := hfuel
  refine ⟨r', is', f, hcR, hf2, ?_⟩
  rw [readVecCore, hs]
  dsimp only
  rw [hf1, hrf f]
  rcases prependOk (tv.map (·.2)) (readAll P f r' is' sep) with ⟨res, r2, is2⟩
  cases res <;> rfl

theorem finishRow_err {V : Type} (vs : List V) (e : Err) (r : Reader) (is : IStream) :
    finishRow (prependOk vs ((.error e, r, is) : Res (List V) × Reader × IStream)) = (.error e, is) := rfl

/-! ### transfer from the bodies to the row functions (with or without the handler) -/

theorem readRowImplG_ok {V : Type} (h : Bool) (P : List Char → Option (V × Nat)) (n : Nat) (sep : Char)
    (is is' : IStream) (vs : List V) (hc : readRowCore P n sep is = (.ok vs, is')) :
    readRowImplG h P n sep is = (.ok vs, is') := by simp [readRowImplG, hc]

theorem readRowImplG_err {V : Type} (h : Bool) (P : List Char → Option (V × Nat)) (n : Nat) (sep : Char)
    (is is' : IStream) (e : Err) (hc : readRowCore P n sep is = (.error e, is')) :
    readRowImplG h P n sep is = (.error e, onRowError h is.fail is') := by simp [readRowImplG, hc]

theorem readRowStdVectorG_ok {V : Type} (h : Bool) (P : List Char → Option (V × Nat)) (sep : Char)
    (is is' : IStream) (vs : List V) (hc : readVecCore P sep is = (.ok vs, is')) :
    readRowStdVectorG h P sep is = (.ok vs, is') := by simp [readRowStdVectorG, hc]

theorem readRowStdVectorG_err {V : Type} (h : Bool) (P : List Char → Option (V × Nat)) (sep : Char)
    (is is' : IStream) (e : Err) (hc : readVecCore P sep is = (.error e, is')) :
    readRowStdVectorG h P sep is = (.error e, onRowError h is.fail is') := by simp [readRowStdVectorG, hc]

/-! ### the context of a row: comment lines, then the data line `L`, then `tail` -/

/-- the text in front of a row call: `cs` comment lines, the line `L` (no newline, not a comment,
    not empty), then the end of the file or a newline and the following lines -/
structure RowCtx (cs : List (List Char)) (L tail : List Char) : Prop where
  hcs : ∀ b ∈ cs, NoNL b
  hL : NoNL L
  ht : TailOK tail
  hstart : ∃ c l, L = c :: l ∧ c ≠ '#'

def rowStream (cs : List (List Char)) (L tail : List Char) : IStream :=
  ⟨commentText cs ++ (L ++ tail), false, false⟩

section
variable {V : Type} (P : List Char → Option (V × Nat)) (sep : Char)
  {cs : List (List Char)} {L tail : List Char} (ctx : RowCtx cs L tail)
  (tv : List (List Char × V)) (hlen : ∀ p ∈ tv, p.1.length ≤ 63) (hok : ∀ p ∈ tv, TokOK P sep p.1 p.2)
  (R : List Char) (hline : L = fieldsText sep (tv.map (·.1)) ++ R)
include ctx hlen hok hline

/-- exactly the requested number of sep-terminated fields: accepted (the trailing separator is a
    terminator) -/
theorem core_terminated_ok (hR : R = []) :
    readRowCore P tv.length sep (rowStream cs L tail) = (.ok (tv.map (·.2)), afterLine tail) := by
  obtain ⟨c, l, hLc, hc⟩ := ctx.hstart
  obtain ⟨r', is', hcan, hrow⟩ := readRowCore_prefix P sep cs ctx.hcs L tail ctx.hL ctx.ht c l hLc hc tv hlen hok R hline
  subst hR
  have h0 := hrow 0
  rcases nextLine_canon L tail ctx.hL ctx.ht r' is' [] hcan with ⟨_, h3⟩ | ⟨hne, _⟩
  · simp only [Nat.add_zero, readFields, prependOk, List.append_nil, finishRow, h3] at h0
    exact h0
  · exact absurd rfl hne

/-- something of the line is left after the requested number of fields: "line not fully consumed" -/
theorem core_too_many (hR : R ≠ []) :
    ∃ is', readRowCore P tv.length sep (rowStream cs L tail) = (.error .line, is') := by
  obtain ⟨c, l, hLc, hc⟩ := ctx.hstart
  obtain ⟨r', is', hcan, hrow⟩ := readRowCore_prefix P sep cs ctx.hcs L tail ctx.hL ctx.ht c l hLc hc tv hlen hok R hline
  have h0 := hrow 0
  rcases nextLine_canon L tail ctx.hL ctx.ht r' is' R hcan with ⟨he, _⟩ | ⟨_, is3, h3, _⟩
  · exact absurd he hR
  · simp only [Nat.add_zero, readFields, prependOk, List.append_nil, finishRow, h3] at h0
    exact ⟨is3, h0⟩

/-- a `read` that fails in front of `R` makes `read_row_impl` fail with that error when it asks for
    more than the `k` fields in front of `R` -/
theorem core_read_fails_row (e : Err)
    (hread : ∀ r is, Canon L tail r is R → ∃ r1 is1, read P r is sep = (.error e, r1, is1)) (m : Nat) :
    ∃ is', readRowCore P (tv.length + (m + 1)) sep (rowStream cs L tail) = (.error e, is') := by
  obtain ⟨c, l, hLc, hc⟩ := ctx.hstart
  obtain ⟨r', is', hcan, hrow⟩ := readRowCore_prefix P sep cs ctx.hcs L tail ctx.hL ctx.ht c l hLc hc tv hlen hok R hline
  obtain ⟨r1, is1, hr⟩ := hread r' is' hcan
  exact ⟨is1, by rw [rowStream, hrow (m + 1), readFields_succ_err P m r' is' sep e r1 is1 hr, finishRow_err]⟩

/-- … and `read_row_std_vector` whenever `R` is not empty (it would otherwise end the row there) -/
theorem core_read_fails_vec (e : Err)
    (hread : ∀ r is, Canon L tail r is R → ∃ r1 is1, read P r is sep = (.error e, r1, is1)) (hR : R ≠ []) :
    ∃ is', readVecCore P sep (rowStream cs L tail) = (.error e, is') := by
  obtain ⟨c, l, hLc, hc⟩ := ctx.hstart
  obtain ⟨r', is', f, hcan, hf, hrow⟩ := readVecCore_prefix P sep cs ctx.hcs L tail ctx.hL ctx.ht c l hLc hc tv hlen hok R hline
  obtain ⟨r1, is1, hr⟩ := hread r' is' hcan
  obtain ⟨f', rfl⟩ : ∃ f', f = f' + 1 := ⟨f - 1, by omega⟩
  have hd := done_canon L tail ctx.hL ctx.ht r' is' R hcan
  simp only [hR, decide_false] at hd
  exact ⟨is1, by rw [rowStream, hrow, readAll_succ_err P f' r' is' sep e r1 is1 hd hr, finishRow_err]⟩

/-- the sep-terminated fields are the whole line: `read_row_std_vector` returns them -/
theorem core_vec_terminated_ok (hR : R = []) :
    readVecCore P sep (rowStream cs L tail) = (.ok (tv.map (·.2)), afterLine tail) := by
  obtain ⟨c, l, hLc, hc⟩ := ctx.hstart
  obtain ⟨r', is', f, hcan, hf, hrow⟩ := readVecCore_prefix P sep cs ctx.hcs L tail ctx.hL ctx.ht c l hLc hc tv hlen hok R hline
  subst hR
  obtain ⟨f', rfl⟩ : ∃ f', f = f' + 1 := ⟨f - 1, by omega⟩
  have hd := done_canon L tail ctx.hL ctx.ht r' is' [] hcan
  rcases nextLine_canon L tail ctx.hL ctx.ht r' is' [] hcan with ⟨_, h3⟩ | ⟨hne, _⟩
  · rw [rowStream, hrow]
    simp [readAll, hd, prependOk, finishRow, h3]
  · exact absurd rfl hne

/-- the sep-terminated fields are followed by one last field (≤ window) that ends the line -/
theorem core_vec_last_ok (v : V) (hRne : R ≠ []) (hRlen : R.length ≤ 64) (hRok : TokOK P sep R v) :
    readVecCore P sep (rowStream cs L tail) = (.ok (tv.map (·.2) ++ [v]), afterLine tail) := by
  obtain ⟨c, l, hLc, hc⟩ := ctx.hstart
  obtain ⟨r', is', f, hcan, hf, hrow⟩ := readVecCore_prefix P sep cs ctx.hcs L tail ctx.hL ctx.ht c l hLc hc tv hlen hok R hline
  obtain ⟨f', rfl⟩ : ∃ f', f = f' + 2 := ⟨f - 2, by omega⟩
  have hd := done_canon L tail ctx.hL ctx.ht r' is' R hcan
  simp only [hRne, decide_false] at hd
  obtain ⟨M, j, hM, hj, rfl, rfl, hrem⟩ := hcan
  have hr := read_last P sep M tail R j v hj (ctx.hL.suffix hM) ctx.ht hrem.symm hRlen hRok
  have hcan2 : Canon L tail (shifted (M.drop j) R.length) (streamOf (M.drop j) tail) [] :=
    ⟨M.drop j, R.length, (List.drop_suffix j M).trans hM, by rw [← hrem]; omega, rfl, rfl, by rw [← hrem]; simp⟩
  have hd2 := done_canon L tail ctx.hL ctx.ht _ _ [] hcan2
  rcases nextLine_canon L tail ctx.hL ctx.ht _ _ [] hcan2 with ⟨_, h3⟩ | ⟨hne, _⟩
  · rw [rowStream, hrow, readAll_succ_ok P (f' + 1) _ _ sep v _ _ hd hr]
    simp [readAll, hd2, prependOk, finishRow, h3]
  · exact absurd rfl hne

end

/-! ### the failing `read` steps, from `Canon` -/

theorem canon_read_wrongsep {V : Type} (P : List Char → Option (V × Nat)) (sep c : Char) (L tail : List Char)
    (hL : NoNL L) (ht : TailOK tail) (tok R' : List Char) (v : V) (hc : c ≠ sep) (hlen : tok.length ≤ 63)
    (hparse : ∀ X, readSingle P (tok ++ c :: X) 0 (tok ++ c :: X).length = some (v, tok.length))
    (r : Reader) (is : IStream) (hcan : Canon L tail r is (tok ++ c :: R')) :
    ∃ r1 is1, read P r is sep = (.error .sep, r1, is1) := by
  obtain ⟨M, j, hM, hj, rfl, rfl, hrem⟩ := hcan
  exact ⟨_, _, read_wrongsep P sep c M tail tok R' j v hj (hL.suffix hM) ht hrem.symm hc hlen hparse⟩

theorem canon_read_unparsable {V : Type} (P : List Char → Option (V × Nat)) (sep : Char) (L tail : List Char)
    (hL : NoNL L) (ht : TailOK tail) (R : List Char)
    (hparse : readSingle P (R.take 64) 0 (min 64 R.length) = none)
    (r : Reader) (is : IStream) (hcan : Canon L tail r is R) :
    ∃ r1 is1, read P r is sep = (.error .conv, r1, is1) := by
  obtain ⟨M, j, hM, hj, rfl, rfl, hrem⟩ := hcan
  exact ⟨_, _, read_unparsable P sep M tail j hj (hL.suffix hM) ht (by rw [← hrem]; exact hparse)⟩

theorem canon_read_overlong {V : Type} (P : List Char → Option (V × Nat)) (hP : PBound P) (sep : Char)
    (L tail : List Char) (hL : NoNL L) (ht : TailOK tail) (tok rest : List Char) (hlong : 65 ≤ tok.length)
    (hsep : sep ∉ tok) (r : Reader) (is : IStream) (hcan : Canon L tail r is (tok ++ rest)) :
    ∃ r1 is1, read P r is sep = (.error (overlongErr P tok), r1, is1) := by
  obtain ⟨M, j, hM, hj, rfl, rfl, hrem⟩ := hcan
  exact ⟨_, _, read_overlong P sep M tail tok rest j hj (hL.suffix hM) ht hrem.symm hlong hsep
    (fun v ptr h => readSingle_le P hP (tok.take 64) 64 (by rw [List.length_take]; omega) v ptr h)⟩

theorem lineOf_concat (sep : Char) (ts : List (List Char)) (t : List Char) :
    lineOf sep (ts ++ [t]) = fieldsText sep ts ++ t := by
  induction ts with
  | nil => rfl
  | cons a r ih =>
    cases r with
    | nil => simp [lineOf, fieldsText]
    | cons b r' =>
      have : lineOf sep (a :: b :: r' ++ [t]) = a ++ sep :: lineOf sep (b :: r' ++ [t]) := by simp [lineOf]
      rw [this, ih]; simp [fieldsText]

/-! ### valid / empty rows at the level of the row bodies -/

theorem readRowImplG_fst {V : Type} (h : Bool) (P : List Char → Option (V × Nat)) (n : Nat) (sep : Char)
    (is : IStream) : (readRowImplG h P n sep is).1 = (readRowCore P n sep is).1 := by
  unfold readRowImplG
  rcases readRowCore P n sep is with ⟨res, is'⟩
  cases res <;> rfl

theorem readRowStdVectorG_fst {V : Type} (h : Bool) (P : List Char → Option (V × Nat)) (sep : Char)
    (is : IStream) : (readRowStdVectorG h P sep is).1 = (readVecCore P sep is).1 := by
  unfold readRowStdVectorG
  rcases readVecCore P sep is with ⟨res, is'⟩
  cases res <;> rfl

/-- a valid row of any length after any number of comment lines -/
theorem readRowCore_tokens {V : Type} (P : List Char → Option (V × Nat)) (sep : Char)
    (cs : List (List Char)) (hcs : ∀ b ∈ cs, NoNL b)
    (tv : List (List Char × V)) (tail : List Char) (ht : TailOK tail)
    (hlen : ∀ p ∈ tv, p.1.length ≤ 63) (hok : ∀ p ∈ tv, TokOK P sep p.1 p.2)
    (hNL : NoNL (lineOf sep (tv.map (·.1))))
    (c : Char) (l : List Char) (hline : lineOf sep (tv.map (·.1)) = c :: l) (hc : c ≠ '#') :
    readRowCore P tv.length sep ⟨commentText cs ++ (lineOf sep (tv.map (·.1)) ++ tail), false, false⟩ =
      (.ok (tv.map (·.2)), afterLine tail) := by
  have h1 := skipComments_line cs hcs (lineOf sep (tv.map (·.1))) tail c l hline hc hNL ht
  have h2 := readFields_tokens P sep tv tail ht hlen hok (lineOf sep (tv.map (·.1))) 0 (by omega) hNL rfl
  have h3 := nextLine_done tail ht
  simp only [readRowCore, h1, h2, h3]
  cases tail <;> rfl

theorem readRowCore_empty {V : Type} (P : List Char → Option (V × Nat)) (sep : Char)
    (cs : List (List Char)) (hcs : ∀ b ∈ cs, NoNL b) (t : List Char) :
    readRowCore P 0 sep ⟨commentText cs ++ '\n' :: t, false, false⟩ = (.ok [], ⟨t, false, false⟩) := by
  obtain ⟨k', hk⟩ := skipComments_emptyline cs hcs ('\n' :: t) (Or.inr ⟨t, rfl⟩)
  simp [readRowCore, hk, readFields, nextLine, nextLineThrowsEvalsGetc, nextLineThrows, IStream.get1,
    IStream.good, endCh]

theorem readRowCore_empty_eof {V : Type} (P : List Char → Option (V × Nat)) (sep : Char)
    (cs : List (List Char)) (hcs : ∀ b ∈ cs, NoNL b) :
    readRowCore P 0 sep ⟨commentText cs, false, false⟩ = (.ok [], ⟨[], true, false⟩) := by
  obtain ⟨k', hk⟩ := skipComments_emptyline cs hcs [] (Or.inl rfl)
  simp only [List.append_nil] at hk
  simp [readRowCore, hk, readFields, nextLine, nextLineThrowsEvalsGetc, nextLineThrows]

/-- an empty line (or the end of the file) is an empty row for `read_row_std_vector` -/
theorem readVecCore_emptyline {V : Type} (P : List Char → Option (V × Nat)) (sep : Char)
    (cs : List (List Char)) (hcs : ∀ b ∈ cs, NoNL b) (tail : List Char) (ht : TailOK tail) :
    readVecCore P sep ⟨commentText cs ++ tail, false, false⟩ = (.ok [], afterLine tail) := by
  obtain ⟨k', hk⟩ := skipComments_emptyline cs hcs tail ht
  have hd := done_emptyline k' tail ht
  have hn := nextLine_done tail ht
  have hn' : nextLine ⟨[], 0, k'⟩ ⟨tail, tail.isEmpty, tail.isEmpty⟩ = (.ok (), afterLine tail) := by
    have : nextLine ⟨[], 0, k'⟩ ⟨tail, tail.isEmpty, tail.isEmpty⟩ =
        nextLine ⟨[], 0, false⟩ ⟨tail, tail.isEmpty, tail.isEmpty⟩ := rfl
    rw [this, hn]; cases tail <;> rfl
  simp [readVecCore, hk, readAll, hd, hn']

/-- too few fields, the last field not terminated: `k` sep-terminated fields, one last field `R`
    that ends the line, and more than `k + 1` requested -/
theorem core_too_few_last {V : Type} (P : List Char → Option (V × Nat)) (hP0 : P [] = none) (sep : Char)
    {cs : List (List Char)} {L tail : List Char} (ctx : RowCtx cs L tail)
    (tv : List (List Char × V)) (hlen : ∀ p ∈ tv, p.1.length ≤ 63) (hok : ∀ p ∈ tv, TokOK P sep p.1 p.2)
    (R : List Char) (hline : L = fieldsText sep (tv.map (·.1)) ++ R) (v : V) (hRlen : R.length ≤ 64)
    (hRok : TokOK P sep R v) (m : Nat) :
    ∃ is', readRowCore P (tv.length + (m + 2)) sep (rowStream cs L tail) = (.error .conv, is') := by
  obtain ⟨c, l, hLc, hc⟩ := ctx.hstart
  obtain ⟨r', is', hcan, hrow⟩ := readRowCore_prefix P sep cs ctx.hcs L tail ctx.hL ctx.ht c l hLc hc tv hlen hok R hline
  obtain ⟨M, j, hM, hj, rfl, rfl, hrem⟩ := hcan
  have hr := read_last P sep M tail R j v hj (ctx.hL.suffix hM) ctx.ht hrem.symm hRlen hRok
  have hcan2 : Canon L tail (shifted (M.drop j) R.length) (streamOf (M.drop j) tail) [] :=
    ⟨M.drop j, R.length, (List.drop_suffix j M).trans hM, by rw [← hrem]; omega, rfl, rfl, by rw [← hrem]; simp⟩
  obtain ⟨r1, is1, hr2⟩ := canon_read_unparsable P sep L tail ctx.hL ctx.ht []
    (by simp [readSingle, readSingleG, singleSkipPlus, hP0, singleFails]) _ _ hcan2
  refine ⟨is1, ?_⟩
  rw [rowStream, hrow (m + 2), readFields_succ_ok P (m + 1) _ _ sep v _ _ hr,
    readFields_succ_err P m _ _ sep .conv r1 is1 hr2]
  rfl

end Alpaqa.Proofs.C17
