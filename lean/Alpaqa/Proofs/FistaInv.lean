/-
  Structural invariants of the FISTA loop model (`Alpaqa/Model/Fista.lean`):

  * after the "proximal gradient step + quadratic upper bound" stage the current iterate carries a
    *consistent* forward-backward step — `(h(x̂), x̂, p)` is the prox oracle's answer at its own
    `(γ, x, ∇ψ)` and, when the loop evaluates ψ(x̂) at all, `ŷx̂` is the ψ oracle's answer at `x̂`;
  * the iteration counter never exceeds `max_iter`, so the model's main-loop fuel (`max_iter + 2`)
    is never exhausted;
  * the result of a solve is the exit block applied to the *last loop head*.

  Purely structural: holds over any carrier (IEEE doubles included), for arbitrary oracles and
  stop schedules.
-/
import Mathlib.Tactic.SplitIfs
import Mathlib.Tactic.Basic
import Mathlib.Tactic.Linarith
import Alpaqa.Model.Fista

namespace Alpaqa.Fista
open Alpaqa Alpaqa.Gen
set_option linter.unusedSectionVars false

variable {α : Type} [Add α] [Sub α] [Mul α] [Div α] [Neg α] [LT α] [LE α] [DecidableLT α]
  [DecidableLE α] [BEq α] [RealLike α] [NatCast α] [OfScientific α]
  [OfNat α 0] [OfNat α 1] [OfNat α 2] [OfNat α 4] [OfNat α 100]

/-- `(h(x̂), x̂, p)` is the prox oracle's answer at the iterate's own `(γ, x, ∇ψ)`. -/
def ProxCons (P : Problem α) (i : Iterate α) : Prop :=
  i.hxhat = (P.prox i.gamma i.x i.gradPsi).1 ∧ i.xhat = (P.prox i.gamma i.x i.gradPsi).2.1 ∧
  i.p = (P.prox i.gamma i.x i.gradPsi).2.2

/-- `ŷx̂` is the ψ oracle's answer at `x̂` whenever the loop body evaluates ψ(x̂). -/
def YhatCons (P : Problem α) (pr : Params α) (i : Iterate α) : Prop :=
  (!fixedLip pr || needGradHat pr) = true → i.yhat = (P.psi i.xhat).2

def Good (P : Problem α) (pr : Params α) (i : Iterate α) : Prop := ProxCons P i ∧ YhatCons P pr i

theorem proxCons_evalProx (P : Problem α) (i : Iterate α) : ProxCons P (evalProxGradStep P i) := by
  unfold ProxCons evalProxGradStep; exact ⟨rfl, rfl, rfl⟩

theorem good_evalStep (P : Problem α) (pr : Params α) (i : Iterate α) :
    Good P pr (evalPsiHat P (evalProxGradStep P i)) := by
  unfold Good ProxCons YhatCons evalPsiHat evalProxGradStep
  exact ⟨⟨rfl, rfl, rfl⟩, fun _ => rfl⟩

/-- Changing only `∇ψ(x̂)` keeps the iterate good. -/
theorem good_evalGradPsiHat (P : Problem α) (pr : Params α) (i : Iterate α) (h : Good P pr i) :
    Good P pr (evalGradPsiHat P i) := h

theorem qubLoop_good (P : Problem α) (pr : Params α)
    (stop : Nat → Bool) (f : Nat) (c : Iterate α) (t b : Nat)
    (h : Good P pr c) : Good P pr (qubLoop P pr stop f c t b).1 := by
  induction f generalizing c t b with
  | zero => simpa [qubLoop] using h
  | succ f ih =>
    unfold qubLoop
    split_ifs
    · exact h
    · exact ih _ _ _ (good_evalStep P pr _)
    · exact h

/-- **Once the flag is visible the backtracking loop makes no further call.** -/
theorem qubLoop_stop_noop (P : Problem α) (pr : Params α) (stop : Nat → Bool) (f : Nat)
    (c : Iterate α) (t b : Nat) (h : stop t = true) :
    qubLoop P pr stop (f + 1) c t b = (c, t, b, false) := by
  unfold qubLoop; simp [h]

/-- With a flag that is never lowered and visible from tick `t₀` on, the backtracking loop entered
    at tick `t` is left at tick `≤ max t (t₀ + 1)` (a pass, 2 calls, is only started while the flag
    is invisible). -/
theorem qubLoop_tick_bound (P : Problem α) (pr : Params α) (stop : Nat → Bool)
    (hm : ∀ a b, a ≤ b → stop a = true → stop b = true) (t0 : Nat) (h0 : stop t0 = true)
    (f : Nat) (c : Iterate α) (t b : Nat) :
    (qubLoop P pr stop f c t b).2.1 ≤ max t (t0 + 1) := by
  induction f generalizing c t b with
  | zero => simp only [qubLoop]; omega
  | succ f ih =>
    unfold qubLoop
    by_cases hst : stop t
    · simp only [hst, if_true]; omega
    · simp only [hst, Bool.false_eq_true, if_false]
      have hlt : t < t0 := by
        apply Nat.lt_of_not_le
        intro hc
        exact hst (hm t0 t hc h0)
      split_ifs
      · refine Nat.le_trans (ih _ (t + 2) (b + 1)) ?_
        omega
      · simp only []; omega

/-- After the prox / QUB stage the current iterate is good — whatever the state before. -/
theorem firstStep_good (P : Problem α) (pr : Params α) (s : St α) : Good P pr (firstStep P pr s) := by
  unfold firstStep
  simp only []
  cases hf : fixedLip pr <;> cases hn : needGradHat pr <;>
    simp only [Bool.not_true, Bool.not_false, Bool.or_true, Bool.or_false,
      if_true, if_false, Bool.false_eq_true]
  · exact good_evalStep P pr _
  · exact good_evalStep P pr _
  · exact ⟨proxCons_evalProx P _, fun hc => by simp [hf, hn] at hc⟩
  · exact good_evalStep P pr _

theorem withGradHat_good (P : Problem α) (pr : Params α) (c : Iterate α) (h : Good P pr c) :
    Good P pr (withGradHat P pr c) := by
  unfold withGradHat; split_ifs
  · exact good_evalGradPsiHat P pr c h
  · exact h

theorem proxStage_good (P : Problem α) (pr : Params α) (stop : Nat → Bool) (s : St α) :
    Good P pr (proxStage P pr stop s).curr := by
  unfold proxStage
  exact withGradHat_good P pr _ (qubLoop_good P pr stop _ _ _ _ (firstStep_good P pr s))

/-- `∇ψ(x̂)` held by the iterate is the `eval_grad_L` oracle's answer *at the iterate's own*
    `x̂`, `ŷ` whenever the stopping criterion reads it (no stale gradient after backtracking). -/
def GradHatCons (P : Problem α) (pr : Params α) (i : Iterate α) : Prop :=
  needGradHat pr = true → i.gradPsiHat = P.gradL i.xhat i.yhat

theorem proxStage_gradHat (P : Problem α) (pr : Params α) (stop : Nat → Bool) (s : St α) :
    GradHatCons P pr (proxStage P pr stop s).curr := by
  intro hn
  unfold proxStage withGradHat
  simp only [hn, if_true]
  rfl

theorem proxStage_k (P : Problem α) (pr : Params α) (stop : Nat → Bool) (s : St α) :
    (proxStage P pr stop s).k = s.k ∧ (proxStage P pr stop s).cbs = s.cbs ∧ (proxStage P pr stop s).t = s.t := by
  unfold proxStage; exact ⟨rfl, rfl, rfl⟩

theorem headStep_curr (P : Problem α) (pr : Params α) (stop : Nat → Bool) (oot : Bool) (s : St α) :
    (headStep P pr stop oot s).1.curr = s.curr ∧ (headStep P pr stop oot s).1.k = s.k ∧
    (headStep P pr stop oot s).1.cbs = s.cbs ∧ (headStep P pr stop oot s).1.fuelOut = s.fuelOut ∧
    (headStep P pr stop oot s).1.t = s.t ∧ (headStep P pr stop oot s).1.prev = s.prev := by
  unfold headStep; exact ⟨rfl, rfl, rfl, rfl, rfl, rfl⟩

/-- Exit contract of a solve (what the caller's `x`, `y`, `err_z` hold afterwards). -/
def ExitOK (P : Problem α) (x0 y Sig errz0 : Vec α) (r : Result α) : Prop :=
  (r.wrote = true →
      (∃ γ x g, r.x = (P.prox γ x g).2.1) ∧ r.y = (P.psi r.x).2 ∧
      r.errz = (if errz0.length > 0 then vdiv (vsub r.y y) Sig else errz0)) ∧
  (r.wrote = false → r.x = x0 ∧ r.y = y ∧ r.errz = errz0)

theorem exitBlock_ok (P : Problem α) (pr : Params α) (s : St α) (eps : α) (status : SolverStatus)
    (x0 y Sig errz0 : Vec α) (h : Good P pr s.curr) :
    ExitOK P x0 y Sig errz0 (exitBlock P pr s eps status x0 y Sig errz0) := by
  unfold exitBlock ExitOK
  simp only []
  constructor
  · intro hw
    simp only [hw, if_true]
    by_cases hc : (fixedLip pr && !needGradHat pr) = true
    · simp only [hc, if_true]
      exact ⟨⟨_, _, _, h.1.2.1⟩, by first | rfl | trivial, by first | rfl | trivial⟩
    · simp only [hc, Bool.false_eq_true, if_false]
      refine ⟨⟨_, _, _, h.1.2.1⟩, ?_, by first | rfl | trivial⟩
      apply h.2
      cases hf : fixedLip pr <;> cases hn : needGradHat pr <;> simp_all
  · intro hw
    simp only [hw, Bool.false_eq_true, if_false]
    exact ⟨by first | rfl | trivial, by first | rfl | trivial, by first | rfl | trivial⟩

theorem exitBlock_fields (P : Problem α) (pr : Params α) (s : St α) (eps : α) (status : SolverStatus)
    (x0 y Sig errz0 : Vec α) :
    (exitBlock P pr s eps status x0 y Sig errz0).wrote =
      (status == .Converged || status == .Interrupted || pr.alwaysOverwrite) ∧
    (exitBlock P pr s eps status x0 y Sig errz0).stats.status = status ∧
    (exitBlock P pr s eps status x0 y Sig errz0).stats.iterations = s.k ∧
    (exitBlock P pr s eps status x0 y Sig errz0).stats.eps = eps ∧
    (exitBlock P pr s eps status x0 y Sig errz0).fuelOut = s.fuelOut ∧
    (exitBlock P pr s eps status x0 y Sig errz0).ticks ≤ s.tick + 2 ∧
    s.tick + 1 ≤ (exitBlock P pr s eps status x0 y Sig errz0).ticks := by
  unfold exitBlock
  simp only []
  refine ⟨by first | rfl | trivial, by first | rfl | trivial, by first | rfl | trivial,
    by first | rfl | trivial, by first | rfl | trivial, ?_, ?_⟩ <;> split_ifs <;> omega

/-- How a solve ends: at some loop head whose status is not `Busy`, by the exit block —
    or (never, see `mainLoop_endsAtHead`) by running out of model fuel. -/
inductive EndsAt (P : Problem α) (pr : Params α) (stop : Nat → Bool) (oot : Bool)
    (x0 y Sig errz0 : Vec α) (r : Result α) : Prop
  | head (s : St α)
      (hk : s.k ≤ pr.maxIter)
      (hcbs : s.cbs.length = s.k)
      (hst : (headStep P pr stop oot (proxStage P pr stop s)).2.2 ≠ .Busy)
      (hr : r = exitBlock P pr (headStep P pr stop oot (proxStage P pr stop s)).1
                  (headStep P pr stop oot (proxStage P pr stop s)).2.1
                  (headStep P pr stop oot (proxStage P pr stop s)).2.2 x0 y Sig errz0)

theorem headStep_busy_k (P : Problem α) (pr : Params α) (stop : Nat → Bool) (oot : Bool) (s : St α)
    (hb : (headStep P pr stop oot s).2.2 = .Busy) : s.k ≠ pr.maxIter := by
  unfold headStep statusOf statusChain at hb
  simp only [] at hb
  split_ifs at hb <;> simp_all

theorem advance_k (P : Problem α) (pr : Params α) (s : St α) (eps : α) :
    (advance P pr s eps).k = s.k + 1 ∧ (advance P pr s eps).cbs.length = s.cbs.length + 1 := by
  unfold advance; simp only [List.length_cons, and_self]

/-- **The main loop always ends at a loop head** (the fuel `max_iter + 2 − k` is never used up),
    for all oracles, stop schedules, budgets. -/
theorem mainLoop_endsAtHead (P : Problem α) (pr : Params α) (stop : Nat → Bool) (oot : Bool)
    (x0 y Sig errz0 : Vec α) (fuel : Nat) (s : St α) (hk : s.k ≤ pr.maxIter)
    (hcbs : s.cbs.length = s.k) (hfuel : pr.maxIter + 1 ≤ fuel + s.k) :
    EndsAt P pr stop oot x0 y Sig errz0 (mainLoop P pr stop oot x0 y Sig errz0 fuel s) := by
  induction fuel generalizing s with
  | zero => omega
  | succ f ih =>
    unfold mainLoop
    simp only []
    by_cases hb : (headStep P pr stop oot (proxStage P pr stop s)).2.2 = .Busy
    · have hne : ((headStep P pr stop oot (proxStage P pr stop s)).2.2 != SolverStatus.Busy) = false := by
        simp [hb]
      simp only [hne, Bool.false_eq_true, if_false]
      have hkne := headStep_busy_k P pr stop oot _ hb
      rw [(proxStage_k P pr stop s).1] at hkne
      apply ih
      · rw [(advance_k _ _ _ _).1, (headStep_curr P pr stop oot _).2.1, (proxStage_k P pr stop s).1]; omega
      · rw [(advance_k _ _ _ _).1, (advance_k _ _ _ _).2, (headStep_curr P pr stop oot _).2.1,
          (headStep_curr P pr stop oot _).2.2.1, (proxStage_k P pr stop s).1, (proxStage_k P pr stop s).2.1, hcbs]
      · rw [(advance_k _ _ _ _).1, (headStep_curr P pr stop oot _).2.1, (proxStage_k P pr stop s).1]; omega
    · have hne : ((headStep P pr stop oot (proxStage P pr stop s)).2.2 != SolverStatus.Busy) = true := by
        simp [hb]
      simp only [hne, if_true]
      exact .head s hk hcbs hb rfl

theorem qubLoop_tick_le (P : Problem α) (pr : Params α)
    (stop : Nat → Bool) (f : Nat) (c : Iterate α) (t b : Nat) :
    t ≤ (qubLoop P pr stop f c t b).2.1 := by
  induction f generalizing c t b with
  | zero => simp [qubLoop]
  | succ f ih =>
    unfold qubLoop
    split_ifs
    · exact le_refl _
    · exact le_trans (by omega) (ih _ _ _)
    · exact le_refl _

/-- the tick (number of oracle calls) only grows through a pass of the loop body -/
theorem head_tick_le (P : Problem α) (pr : Params α) (stop : Nat → Bool) (oot : Bool) (s : St α) :
    s.tick ≤ (headStep P pr stop oot (proxStage P pr stop s)).1.tick := by
  unfold headStep proxStage
  simp only []
  have h1 : s.tick ≤ firstTick pr s := by unfold firstTick; omega
  exact le_trans (le_trans (le_trans h1 (qubLoop_tick_le P pr stop _ _ _ _)) (Nat.le_add_right _ _))
    (Nat.le_add_right _ _)

theorem initState_k (P : Problem α) (pr : Params α) (x0 gV : Vec α) (nan : α) (s : St α)
    (h : initState P pr x0 gV nan = .inr s) : s.k = 0 ∧ s.cbs = [] ∧ s.fuelOut = false := by
  unfold initState at h
  simp only [] at h
  split_ifs at h
  all_goals first
    | (injection h with h; subst h; exact ⟨rfl, rfl, rfl⟩)
    | (exact absurd h (by simp))

end Alpaqa.Fista
