/-
  C10 proofs: (1) the diagonal of `get_R()` stays nonzero through `add_column` (nonzero `norm_q`),
  `remove_column` (any rotation meeting the Givens contract: `r² = p² + q²` with `q` the old pivot),
  `scale_R(c ≠ 0)`, `reset`; (2) with orthonormal `Q` and nonzero pivots the window is linearly independent;
  (3) conversely `add_column`'s `norm_q` is nonzero whenever the new column is not in the span of the window
  (exact arithmetic, lawful `sqrt`) — so the hypothesis "`norm_q ≠ 0`" of the history theorems is
  "every added column is linearly independent of the current window".
-/
import Alpaqa.Proofs.C10Add
import Alpaqa.Proofs.C10Misc
import Alpaqa.Proofs.C10Remove
import Alpaqa.Proofs.C10Solve

namespace Alpaqa.C10
open Finset Alpaqa Alpaqa.Gen
set_option linter.unusedSectionVars false
set_option linter.unusedSimpArgs false
set_option linter.unusedVariables false

section
variable {α : Type} [Field α] [LinearOrder α] [IsStrictOrderedRing α] [RealLike α]

/-- every pivot (diagonal entry of `get_R()`) is nonzero -/
def PivNZ (s : LMQR α) : Prop := ∀ r < s.qIdx, s.getR r r ≠ 0

theorem reset_pivnz (inf : α) (s : LMQR α) : PivNZ (s.reset inf) := by
  intro r hr; rw [(reset_idx inf s).1] at hr; omega

theorem new_pivnz (inf : α) (n m : ℕ) : PivNZ (LMQR.new inf n m) := by
  intro r hr; rw [(new_idx inf n m).1] at hr; omega

theorem scaleR_pivnz (s : LMQR α) (h : RingInv s) {c : α} (hc : c ≠ 0) (hP : PivNZ s) :
    PivNZ (s.scaleR c) := by
  intro r hr
  rw [(scaleR_idx s c).1] at hr
  rw [scaleR_getR s h c hr]
  exact mul_ne_zero (hP r hr) hc

/-- `add_column` leaves the old columns of `get_R()` alone … -/
theorem addColumn_getR_old (fuel : ℕ) (s : LMQR α) (h : RingInv s) (hK : s.qIdx < s.m) (v : ℕ → α)
    {i k : ℕ} (hk : k < s.qIdx) : (s.addColumn fuel v).getR i k = s.getR i k := by
  obtain ⟨e1, e2, e3, e4, e5⟩ := addColumn_idx fuel s v
  unfold LMQR.getR
  have hslot : (s.addColumn fuel v).slot k = s.slot k := by simp [LMQR.slot, e2, e5]
  rw [hslot]
  split_ifs with hik
  · have hne : s.slot k ≠ s.rEnd := by rw [h.end_eq]; exact slot_inj hk (by omega)
    have hσ : s.slot k < s.m := Nat.mod_lt _ h.mpos
    rw [addColumn_R fuel s v (by omega) hσ, if_neg hne]
  · rfl

/-- … and its new pivot is `norm_q`. -/
theorem addColumn_getR_diag (fuel : ℕ) (s : LMQR α) (h : RingInv s) (hK : s.qIdx < s.m) (v : ℕ → α) :
    (s.addColumn fuel v).getR s.qIdx s.qIdx = (addCore fuel s v).2.2.1 := by
  obtain ⟨e1, e2, e3, e4, e5⟩ := addColumn_idx fuel s v
  unfold LMQR.getR
  have hslot : (s.addColumn fuel v).slot s.qIdx = s.rEnd := by
    rw [h.end_eq]; simp [LMQR.slot, e2, e5]
  rw [hslot, if_pos le_rfl, addColumn_R fuel s v hK (by rw [h.end_eq]; exact Nat.mod_lt _ h.mpos),
    if_pos rfl, if_pos rfl]

theorem addColumn_pivnz (fuel : ℕ) (s : LMQR α) (h : RingInv s) (hK : s.qIdx < s.m) (v : ℕ → α)
    (hn : (addCore fuel s v).2.2.1 ≠ 0) (hP : PivNZ s) : PivNZ (s.addColumn fuel v) := by
  intro r hr
  rw [(addColumn_idx fuel s v).1] at hr
  by_cases hrK : r = s.qIdx
  · rw [hrK, addColumn_getR_diag fuel s h hK v]; exact hn
  · rw [addColumn_getR_old fuel s h hK v (by omega)]; exact hP r (by omega)

/-- the `r` a Givens rotation returns satisfies `r² = p² + q²`; in particular `r ≠ 0` when `q ≠ 0` -/
theorem givens_r_sq {giv : α → α → α × α × α} (hg : GivensOK giv) (p q : α) :
    (giv p q).2.2 * (giv p q).2.2 = p * p + q * q := by
  obtain ⟨g1, g2, g3⟩ := hg p q
  rw [g2]
  linear_combination (p * p + q * q) * g1 - ((giv p q).2.1 * p + (giv p q).1 * q) * g3

theorem givens_r_ne_zero {giv : α → α → α × α × α} (hg : GivensOK giv) (p q : α) (hq : q ≠ 0) :
    (giv p q).2.2 ≠ 0 := by
  intro h0
  have h := givens_r_sq hg p q
  rw [h0, mul_zero] at h
  have : q * q = 0 := le_antisymm (by nlinarith [mul_self_nonneg p]) (mul_self_nonneg q)
  exact hq (mul_self_eq_zero.mp this)

/-- Sweep invariant for the pivots: the diagonal entries of the columns not reached yet are the old
    ones, the new diagonal entries of the columns already processed are nonzero. -/
def DiagInv (m rs K t : ℕ) (R0 R : ℕ → ℕ → α) : Prop :=
  (∀ k, t + 1 ≤ k → k < K → R k ((rs + k) % m) = R0 k ((rs + k) % m)) ∧
  (∀ k, 1 ≤ k → k ≤ t → k < K → R (k - 1) ((rs + k) % m) ≠ 0)

theorem sweep_diagInv (giv : α → α → α × α × α) (hg : GivensOK giv) (m rs K : ℕ) (hm : 0 < m)
    (hKm : K ≤ m) (R0 : ℕ → ℕ → α) (hR0 : ∀ k, 1 ≤ k → k < K → R0 k ((rs + k) % m) ≠ 0)
    (t : ℕ) (w : Sweep α) (ht : t + 1 < K)
    (hP : w.r = t ∧ w.c = (rs + (t + 1)) % m ∧ DiagInv m rs K t R0 w.R) :
    (sweepStep giv m ((rs + K) % m) w).r = t + 1 ∧
    (sweepStep giv m ((rs + K) % m) w).c = (rs + (t + 1 + 1)) % m ∧
    DiagInv m rs K (t + 1) R0 (sweepStep giv m ((rs + K) % m) w).R := by
  obtain ⟨hr, hc, hI1, hI2⟩ := hP
  subst hr
  obtain ⟨s1, s2, s3, s4, s5, s6⟩ := sweepStep_spec giv m rs K hm hKm w ht hc
  refine ⟨s1, s2, ?_, ?_⟩
  · intro k h1 h2
    rw [s5 k (by omega) h2, if_neg (by omega), if_neg (by omega)]
    exact hI1 k (by omega) h2
  · intro k h1 h2 h3
    rcases Nat.lt_or_ge k (w.r + 1) with hk | hk
    · rw [s6 k (by omega)]
      exact hI2 k h1 (by omega) h3
    · have e : k = w.r + 1 := by omega
      subst e
      rw [Nat.add_sub_cancel, s4, if_pos rfl]
      unfold sweepGiv
      apply givens_r_ne_zero hg
      rw [hc, hI1 (w.r + 1) (le_refl _) h3]
      exact hR0 (w.r + 1) (by omega) h3

/-- `remove_column` keeps the pivots nonzero (Givens contract only). -/
theorem removeColumn_pivnz (giv : α → α → α × α × α) (hg : GivensOK giv) (s : LMQR α)
    (h : RingInv s) (hK : 0 < s.qIdx) (hP : PivNZ s) : PivNZ (s.removeColumn giv) := by
  obtain ⟨e1, e2, e3, e4, e5⟩ := removeColumn_idx giv s h hK
  have hm := h.mpos
  have hcap := h.cap
  have hR0 : ∀ k, 1 ≤ k → k < s.qIdx → s.R.get k ((s.rStart + k) % s.m) ≠ 0 := by
    intro k _ hk
    have := hP k hk
    unfold LMQR.getR LMQR.slot at this
    rwa [if_pos le_rfl] at this
  have hfin := sweepLoop_inv giv s.m s.rEnd s.qIdx
    (fun t w => w.r = t ∧ w.c = (s.rStart + (t + 1)) % s.m ∧
      DiagInv s.m s.rStart s.qIdx t s.R.get w.R)
    (fun t w hP => hP.1)
    (fun t w ht hP => by
      rw [h.end_eq]; exact sweep_diagInv giv hg s.m s.rStart s.qIdx hm hcap _ hR0 t w ht hP)
    (s.qIdx - 1) 0 s.m
    { r := 0, c := lmqrSucc s.m s.rStart, Q := s.Q.get, R := s.R.get, minEig := s.minEig,
      maxEig := s.maxEig } (by omega) (by omega)
    ⟨rfl, by simp only [lmqrSucc_eq h.start_lt], fun k _ _ => rfl, fun k h1 h2 _ => by omega⟩
  obtain ⟨_, _, _, hI⟩ := hfin
  intro r hr
  rw [e1] at hr
  have hslot : (s.removeColumn giv).slot r = (s.rStart + (r + 1)) % s.m := by
    rw [LMQR.slot, e2, e5, Nat.mod_add_mod]; congr 1; omega
  unfold LMQR.getR
  rw [if_pos le_rfl, hslot, removeColumn_R, Mat.get_ofFn_lt _ (by omega) (Nat.mod_lt _ hm)]
  have := hI (r + 1) (by omega) (by omega) (by omega)
  rwa [Nat.add_sub_cancel] at this

/-! ### linear independence of the window ⇔ nonzero `norm_q` -/

/-- With orthonormal `Q` and nonzero pivots, the window `A = QR` has linearly independent columns. -/
theorem window_independent (s : LMQR α) (A : ℕ → ℕ → α) (hA : Represents s A) (hO : Orth s)
    (hP : PivNZ s) (z : ℕ → α) (hz : ∀ j < s.n, ∑ k ∈ range s.qIdx, A k j * z k = 0) :
    ∀ k < s.qIdx, z k = 0 := by
  apply upper_tri_inj s.qIdx s.getR hP (fun i k hik => getR_upper s hik) z
  intro r hr
  rw [← qt_apply s.n s.qIdx s.Q.get s.getR A hA hO z hr]
  apply Finset.sum_eq_zero
  intro j hj
  rw [Finset.mem_range] at hj
  rw [hz j hj, mul_zero]

/-- **`norm_q ≠ 0` for a column outside the span of the window** (exact arithmetic, lawful `sqrt`):
    if `norm_q = 0` then `q = 0`, so `v = Q r`, and back substitution `R z = r` exhibits `v = A z`. -/
theorem addCore_norm_ne_zero (hs : SqrtLaw α) (fuel : ℕ) (s : LMQR α) (h : RingInv s)
    (A : ℕ → ℕ → α) (hA : Represents s A) (hO : Orth s) (hP : PivNZ s) (v : ℕ → α)
    (hind : ¬ ∃ z : ℕ → α, ∀ j < s.n, v j = ∑ k ∈ range s.qIdx, A k j * z k) :
    (addCore fuel s v).2.2.1 ≠ 0 := by
  intro h0
  apply hind
  obtain ⟨hperp, hnorm⟩ := addCore_perp fuel s hO v
  have hsq : (addCore fuel s v).2.2.1 * (addCore fuel s v).2.2.1 =
      ∑ j ∈ range s.n, readV (addCore fuel s v).1 j * readV (addCore fuel s v).1 j := by
    rw [hnorm]; unfold normTo; rw [sumTo_eq_sum]
    apply hs
    apply Finset.sum_nonneg
    intro j _; exact mul_self_nonneg _
  rw [h0, mul_zero] at hsq
  have hq0 : ∀ j < s.n, readV (addCore fuel s v).1 j = 0 := by
    intro j hj
    have := (Finset.sum_eq_zero_iff_of_nonneg (fun j _ => mul_self_nonneg _)).mp hsq.symm j
      (Finset.mem_range.mpr hj)
    exact mul_self_eq_zero.mp this
  -- v = Q r on the rows < n
  have hv : ∀ j < s.n, v j = ∑ i ∈ range s.qIdx, s.Q.get j i * readV (addCore fuel s v).2.1 i := by
    intro j hj
    have := addCore_inv fuel s h.cap v j hj
    rw [hq0 j hj, zero_add] at this
    rw [← this]
    apply Finset.sum_congr rfl; intro i _; ring
  -- Qᵀ v = r
  have hqtv : ∀ a < s.qIdx, ∑ j ∈ range s.n, s.Q.get j a * v j = readV (addCore fuel s v).2.1 a := by
    intro a ha
    have e : ∀ j ∈ range s.n, s.Q.get j a * v j =
        s.Q.get j a * ∑ i ∈ range s.qIdx, s.Q.get j i * readV (addCore fuel s v).2.1 i := by
      intro j hj; rw [Finset.mem_range] at hj; rw [hv j hj]
    rw [Finset.sum_congr rfl e]
    exact orth_apply s.n s.qIdx s.Q.get hO _ ha
  -- back substitution with threshold 0 solves R z = Qᵀ v = r
  obtain ⟨_, hbs⟩ := solveCol_backsubst s h v (fun _ => 0) 0
  refine ⟨s.solveCol v (fun _ => 0) 0, fun j hj => ?_⟩
  rw [qr_apply s.n s.qIdx s.Q.get s.getR A hA _ hj, hv j hj]
  apply Finset.sum_congr rfl
  intro i hi
  rw [Finset.mem_range] at hi
  rw [(hbs i hi).2 (not_le.mpr (abs_pos.mpr (hP i hi))) (hP i hi), hqtv i hi]

end
end Alpaqa.C10
