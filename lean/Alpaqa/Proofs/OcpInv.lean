/-
  Invariant of the PANOC-OCP loop model (`Alpaqa/Model/Ocp.lean`).

  `Good O P i` — the iterate `i` is *consistent*:
    * `SrcCons`:  `xu`'s trajectory and `ψu` are the forward oracle's answer at its own inputs `u`, and
                  `grad_ψ` is the backward oracle's answer at that storage;
    * `ProxCons`: `(û, p, pᵀp, ∇ψᵀp)` is the projected-gradient step at its own `(γ, u, ∇ψ)`;
    * `HatCons`:  `x̂u`'s trajectory (hence the stored constraint values) and `ψû` are the forward
                  oracle's answer at `û`.
  The *current* iterate is `Good` at every loop head — through every branch of the line search, every
  schedule of Gauss-Newton / L-BFGS steps (all direction oracles), every stop schedule, and although the
  stopping criterion borrows the spare iterate as workspace.  Purely structural: any carrier.
-/
import Mathlib.Tactic.SplitIfs
import Mathlib.Tactic.Basic
import Alpaqa.Model.Ocp

namespace Alpaqa.Ocp
open Alpaqa Alpaqa.Gen
set_option linter.unusedSectionVars false
set_option linter.unusedVariables false

variable {α D : Type} [Add α] [Sub α] [Mul α] [Div α] [Neg α] [LT α] [LE α] [DecidableLT α]
  [DecidableLE α] [BEq α] [RealLike α] [NatCast α] [OfScientific α]
  [OfNat α 0] [OfNat α 1] [OfNat α 2] [OfNat α 100]

def SrcCons (O : Oracles α) (i : Iterate α) : Prop :=
  i.traj = (O.fwd i.u).2 ∧ i.psiu = (O.fwd i.u).1 ∧ i.gradPsi = O.bwd i.u i.traj

def ProxCons (P : Prob α) (i : Iterate α) : Prop :=
  (i.uhat, i.p, i.pTp, i.gradPsiTp) = evalProxImpl P i.gamma i.u i.gradPsi

def HatCons (O : Oracles α) (i : Iterate α) : Prop :=
  i.trajHat = (O.fwd i.uhat).2 ∧ i.psiuhat = (O.fwd i.uhat).1

def Good (O : Oracles α) (P : Prob α) (i : Iterate α) : Prop :=
  SrcCons O i ∧ ProxCons P i ∧ HatCons O i

/-- The two values `τ_init` can take differ from the sentinel `τ_prev = -1` (true for IEEE doubles and
    in every ordered field; needed because the model compares with `!=` as the C++ does). -/
def TauSentinelOK (α : Type) [BEq α] [Neg α] [OfNat α 0] [OfNat α 1] : Prop :=
  ((0 : α) != (-1 : α)) = true ∧ ((1 : α) != (-1 : α)) = true

/-! ### Elementary evaluation steps -/

theorem src_evalFwdBwd (O : Oracles α) (i : Iterate α) : SrcCons O (evalBackward O (evalForward O i)) :=
  ⟨rfl, rfl, rfl⟩

theorem src_of_same (O : Oracles α) (i j : Iterate α) (h : SrcCons O i) (hu : j.u = i.u)
    (ht : j.traj = i.traj) (hp : j.psiu = i.psiu) (hg : j.gradPsi = i.gradPsi) : SrcCons O j := by
  unfold SrcCons at *; rw [hu, ht, hp, hg]; exact h

theorem good_evalStep (O : Oracles α) (P : Prob α) (i : Iterate α) (h : SrcCons O i) :
    Good O P (evalStep O P i) :=
  ⟨src_of_same O i _ h rfl rfl rfl rfl, rfl, rfl, rfl⟩

theorem src_takeSafeStep (O : Oracles α) (P : Prob α) (c n : Iterate α) (h : Good O P c) :
    SrcCons O (takeSafeStep O c n) := by
  obtain ⟨_, _, h3, h4⟩ := h
  exact ⟨h3, h4, rfl⟩

theorem src_takeAcceleratedStep (O : Oracles α) (c n : Iterate α) (q : Vec α) (tau : α) :
    SrcCons O (takeAcceleratedStep O c n q tau) := src_evalFwdBwd O _

/-! ### Line search -/

/-- Line-search invariant: either nothing has been computed yet (`τ_prev` is still the sentinel and
    `τ = τ_init ∈ {0, 1}`) or the candidate's `xu`, `ψu`, `∇ψ` are consistent. -/
def LSInv (O : Oracles α) (s : LS α D) : Prop :=
  (s.tauPrev = -1 ∧ (s.tau = 0 ∨ s.tau = 1)) ∨ SrcCons O s.next

theorem lsRecompute_src (O : Oracles α) (P : Prob α) (c : Iterate α) (q : Vec α) (dn : Bool)
    (s : LS α D) (hc : Good O P c) (hτ : TauSentinelOK α) (h : LSInv O s) :
    SrcCons O (lsRecompute O P c q dn s).next ∧ (lsRecompute O P c q dn s).fuelOut = s.fuelOut := by
  unfold lsRecompute
  by_cases h1 : (s.tau != s.tauPrev) = true
  · simp only [h1, if_true]
    by_cases h2 : (s.tau != 0) = true
    · simp only [h2, if_true]; exact ⟨src_takeAcceleratedStep O c _ q _, by first | rfl | trivial⟩
    · simp only [h2, Bool.false_eq_true, if_false]
      exact ⟨src_takeSafeStep O P c _ hc, by first | rfl | trivial⟩
  · simp only [h1, Bool.false_eq_true, if_false]
    refine ⟨?_, by first | rfl | trivial⟩
    rcases h with ⟨hp, h0 | h1'⟩ | hs
    · exfalso; apply h1; rw [hp, h0]; exact hτ.1
    · exfalso; apply h1; rw [hp, h1']; exact hτ.2
    · exact hs

/-- One pass of the line-search body: on `break` the candidate is `Good`; on `continue` its source
    fields are consistent. -/
theorem lsPass_inv (O : Oracles α) (dir : Dir D α) (P : Prob α) (pr : Params α) (c : Iterate α)
    (q : Vec α) (tauInit : α) (dn : Bool) (s : LS α D) (hc : Good O P c) (hτ : TauSentinelOK α)
    (h : LSInv O s) :
    match lsPass O dir P pr c q tauInit dn s with
    | .done s' => Good O P s'.next ∧ s'.fuelOut = s.fuelOut
    | .again s' => SrcCons O s'.next ∧ s'.fuelOut = s.fuelOut := by
  have h1 := lsRecompute_src O P c q dn s hc hτ h
  unfold lsPass
  simp only []
  split_ifs
  all_goals first
    | exact ⟨src_of_same O _ _ h1.1 rfl rfl rfl rfl, h1.2⟩
    | exact ⟨src_of_same O _ _ (good_evalStep O P _ h1.1).1 rfl rfl rfl rfl, h1.2⟩
    | exact ⟨(good_evalStep O P _ h1.1).1, h1.2⟩
    | exact ⟨good_evalStep O P _ h1.1, h1.2⟩

/-- The whole line search: if the loop was left through `break` (no fuel-out, stop flag still clear
    at the end) the candidate is `Good`. -/
theorem lineSearch_good (O : Oracles α) (dir : Dir D α) (P : Prob α) (pr : Params α)
    (stop : Nat → Bool) (c : Iterate α) (q : Vec α) (tauInit : α) (dn : Bool) (fuel : Nat) (s : LS α D)
    (hc : Good O P c) (hτ : TauSentinelOK α) (h : LSInv O s) (hf : s.fuelOut = false) :
    (lineSearch O dir P pr stop c q tauInit dn fuel s).fuelOut = false →
      stop (lineSearch O dir P pr stop c q tauInit dn fuel s).tick = false →
      Good O P (lineSearch O dir P pr stop c q tauInit dn fuel s).next := by
  induction fuel generalizing s with
  | zero => simp [lineSearch]
  | succ f ih =>
    unfold lineSearch
    by_cases hst : stop s.tick
    · simp only [hst, if_true]
      exact fun _ h2 => absurd h2 (by simp [hst])
    · simp only [hst, Bool.false_eq_true, if_false]
      have hp := lsPass_inv O dir P pr c q tauInit dn s hc hτ h
      cases hpass : lsPass O dir P pr c q tauInit dn s with
      | done s' =>
        rw [hpass] at hp
        exact fun _ _ => hp.1
      | again s' =>
        rw [hpass] at hp
        exact ih s' (Or.inr hp.1) (by rw [hp.2, hf])

/-! ### Initialisation -/

theorem initQub_good (O : Oracles α) (P : Prob α) (pr : Params α) (stop : Nat → Bool) (f : Nat)
    (c : Iterate α) (t b : Nat)
    (h : Good O P c) : Good O P (initQub O P pr stop f c t b).1 := by
  induction f generalizing c t b with
  | zero => simpa [initQub] using h
  | succ f ih =>
    unfold initQub
    split_ifs
    · exact h
    · exact ih _ _ _ (good_evalStep O P _ (src_of_same O c _ h.1 rfl rfl rfl rfl))
    · exact h

/-- **Once the flag is visible the initial step-size loop makes no further call.** -/
theorem initQub_stop_noop (O : Oracles α) (P : Prob α) (pr : Params α) (stop : Nat → Bool) (f : Nat)
    (c : Iterate α) (t b : Nat) (h : stop t = true) :
    initQub O P pr stop (f + 1) c t b = (c, t, b, false) := by
  unfold initQub; simp [h]

/-- With a flag that is never lowered and visible from tick `t₀` on, the initial step-size loop
    entered at tick `t` is left at tick `≤ max t (t₀ + fwdTicks − 1)`: a backtrack (`eval_prox` is
    not an event; `eval_forward_hat` makes `fwdTicks` calls) is only started while the flag is
    invisible (tick `< t₀`). -/
theorem initQub_tick_bound (O : Oracles α) (P : Prob α) (pr : Params α) (stop : Nat → Bool)
    (hm : ∀ a b, a ≤ b → stop a = true → stop b = true) (t0 : Nat) (h0 : stop t0 = true)
    (f : Nat) (c : Iterate α) (t b : Nat) :
    (initQub O P pr stop f c t b).2.1 ≤ max t (t0 + P.fwdTicks - 1) := by
  induction f generalizing c t b with
  | zero => simp only [initQub]; omega
  | succ f ih =>
    unfold initQub
    by_cases hst : stop t
    · simp only [hst, if_true]; omega
    · simp only [hst, Bool.false_eq_true, if_false]
      have hlt : t < t0 := by
        apply Nat.lt_of_not_le
        intro hc
        exact hst (hm t0 t hc h0)
      split_ifs
      · refine Nat.le_trans (ih _ (t + P.fwdTicks) (b + 1)) ?_
        omega
      · simp only []; omega

theorem initialLipschitz_src (O : Oracles α) (pr : Params α) (c n : Iterate α) :
    SrcCons O (initialLipschitz O pr c n).1 := by
  unfold initialLipschitz
  exact src_of_same O _ _ (src_evalFwdBwd O c) rfl rfl rfl rfl

theorem initIterates_src (O : Oracles α) (P : Prob α) (pr : Params α) (u0 gV : Vec α) (gS : α) :
    SrcCons O (initIterates O P pr u0 gV gS).1 := by
  unfold initIterates
  simp only []
  split_ifs
  all_goals first
    | exact initialLipschitz_src O pr _ _
    | exact src_evalFwdBwd O _

theorem initState_good (O : Oracles α) (P : Prob α) (d0 : D) (pr : Params α)
    (stop : Nat → Bool) (u0 gV gQ : Vec α)
    (gS e0 : α) (s : St α D) (h : initState O P d0 pr stop u0 gV gQ gS e0 = .inr s) :
    Good O P s.curr ∧ s.k = 0 := by
  unfold initState at h
  simp only [] at h
  split_ifs at h
  injection h with h
  subst h
  exact ⟨initQub_good O P pr stop _ _ _ _ (good_evalStep O P _
    (src_of_same O _ _ (initIterates_src O P pr u0 gV gS) rfl rfl rfl rfl)), rfl⟩

/-! ### Main loop -/

theorem headStep_curr (P : Prob α) (pr : Params α) (stop : Nat → Bool) (oot : Bool) (s : St α D) :
    (headStep P pr stop oot s).1.curr = s.curr ∧ (headStep P pr stop oot s).1.fuelOut = s.fuelOut ∧
    (headStep P pr stop oot s).1.k = s.k ∧ (headStep P pr stop oot s).1.tick = s.tick ∧
    (headStep P pr stop oot s).1.noProgress = s.noProgress := by
  unfold headStep
  simp only []
  split <;> exact ⟨rfl, rfl, rfl, rfl, rfl⟩

theorem directionStage_tauInit (dir : Dir D α) (P : Prob α) (pr : Params α) (s : St α D) :
    (directionStage dir P pr s).tauInit = 0 ∨ (directionStage dir P pr s).tauInit = 1 := by
  unfold directionStage directionRaw
  simp only []
  split_ifs <;> simp

theorem updateStage_good (O : Oracles α) (dir : Dir D α) (P : Prob α) (pr : Params α)
    (c n : Iterate α) (d : D) (t : Nat) (g : Bool) (h : Good O P n) :
    Good O P (updateStage dir pr c n d t g).1 := by
  unfold updateStage
  simp only []
  split_ifs <;> first | exact h | exact ⟨src_of_same O n _ h.1 rfl rfl rfl rfl, h.2.1, h.2.2⟩

/-- Fields of the state after an accepted step. -/
theorem acceptStep_fields (dir : Dir D α) (pr : Params α) (s : St α D) (ds : DirOut α D) (ls : LS α D)
    (st1 : Stats α) (eps : α) :
    (acceptStep dir pr s ds ls st1 eps).next = s.curr ∧
    (acceptStep dir pr s ds ls st1 eps).curr = (updateStage dir pr s.curr ls.next ls.d ls.tick ds.didGn).1 ∧
    (acceptStep dir pr s ds ls st1 eps).k = s.k + 1 ∧
    (acceptStep dir pr s ds ls st1 eps).fuelOut = (s.fuelOut || ls.fuelOut) ∧
    ∃ cb : Callback α, (acceptStep dir pr s ds ls st1 eps).cbs = cb :: s.cbs ∧ cb.it = s.curr ∧
      cb.status = .Busy ∧ cb.tau = ls.tau ∧ cb.k = s.k ∧ cb.eps = eps := by
  unfold acceptStep
  exact ⟨rfl, rfl, rfl, rfl, _, rfl, rfl, rfl, rfl, rfl, rfl⟩

/-- What one pass of the loop body leaves as the *current* iterate is `Good`, for every direction
    oracle and every stop schedule (unless the model's line-search fuel ran out). If the line search was
    interrupted the current iterate and the iteration counter are unchanged. -/
theorem iterBody_good (O : Oracles α) (dir : Dir D α) (P : Prob α) (pr : Params α) (stop : Nat → Bool)
    (s : St α D) (eps : α) (h : Good O P s.curr) (hτ : TauSentinelOK α) (hf : s.fuelOut = false)
    (hf' : (iterBody O dir P pr stop s eps).1.fuelOut = false) :
    Good O P (iterBody O dir P pr stop s eps).1.curr := by
  unfold iterBody at hf' ⊢
  simp only [] at hf' ⊢
  by_cases hex : ((directionStage dir P pr s).exc != Exc.none) = true
  · simp only [hex, if_true] at hf' ⊢; exact h
  · simp only [hex, Bool.false_eq_true, if_false] at hf' ⊢
    generalize hls : lineSearch O dir P pr stop s.curr (directionStage dir P pr s).q
        (directionStage dir P pr s).tauInit _ pr.lsFuel _ = ls at hf' ⊢
    have hgood := lineSearch_good O dir P pr stop s.curr (directionStage dir P pr s).q
        (directionStage dir P pr s).tauInit
        (decide (pr.gnInterval > 0) && ((s.k + 1) % pr.gnInterval == 0) && !pr.disableAccel) pr.lsFuel
        { next := { s.next with gamma := s.curr.gamma, L := s.curr.L }, d := (directionStage dir P pr s).d,
          tick := (directionStage dir P pr s).tick, tau := (directionStage dir P pr s).tauInit,
          tauPrev := -1,
          doGnStep := (decide (pr.gnInterval > 0) && ((s.k + 1) % pr.gnInterval == 0) && !pr.disableAccel)
            || (s.doGnStep && pr.gnSticky),
          lsBacktracks := 0, stepsizeBacktracks := 0 }
        h hτ (Or.inl ⟨rfl, directionStage_tauInit dir P pr s⟩) rfl
    rw [hls] at hgood
    by_cases hst : stop ls.tick
    · simp only [hst, if_true] at hf' ⊢
      exact h
    · simp only [hst, Bool.false_eq_true, if_false] at hf' ⊢
      rw [(acceptStep_fields dir pr s _ ls _ eps).2.2.2.1] at hf'
      rw [(acceptStep_fields dir pr s _ ls _ eps).2.1]
      have hlsf : ls.fuelOut = false := by
        rw [hf] at hf'; simpa using hf'
      exact updateStage_good O dir P pr _ _ _ _ _ (hgood hlsf (by simpa using hst))

theorem iterBody_fuelOut_mono (O : Oracles α) (dir : Dir D α) (P : Prob α) (pr : Params α)
    (stop : Nat → Bool) (s : St α D) (eps : α) (hf : s.fuelOut = true) :
    (iterBody O dir P pr stop s eps).1.fuelOut = true := by
  unfold iterBody
  simp only []
  split_ifs
  · exact hf
  · simp [hf]
  · rw [(acceptStep_fields dir pr s _ _ _ eps).2.2.2.1]; simp [hf]

/-- Exit contract of a solve: what the caller's `u`, `y`, `err_z` hold afterwards. -/
def ExitOK (O : Oracles α) (P : Prob α) (u0 y mu errz0 : Vec α) (r : Result α D) : Prop :=
  (r.wrote = true →
      (∃ γ u g, r.u = (evalProxImpl P γ u g).1) ∧
      (r.u, r.y, r.errz) = writeSolution P r.u (O.fwd r.u).2 y mu errz0) ∧
  (r.wrote = false → r.u = u0 ∧ r.y = y ∧ r.errz = errz0)

theorem writeSolution_u (P : Prob α) (uh th y mu e0 : Vec α) : (writeSolution P uh th y mu e0).1 = uh := by
  unfold writeSolution; split_ifs <;> rfl

theorem exitBlock_ok (O : Oracles α) (P : Prob α) (pr : Params α) (s : St α D) (eps : α)
    (status : SolverStatus) (u0 y mu errz0 : Vec α) (h : Good O P s.curr) :
    ExitOK O P u0 y mu errz0 (exitBlock P pr s eps status u0 y mu errz0) := by
  unfold exitBlock ExitOK
  simp only []
  constructor
  · intro hw
    simp only [hw, if_true]
    have hu := writeSolution_u P s.curr.uhat s.curr.trajHat y mu errz0
    refine ⟨⟨s.curr.gamma, s.curr.u, s.curr.gradPsi, ?_⟩, ?_⟩
    · rw [hu]; exact congrArg Prod.fst h.2.1
    · rw [hu, ← h.2.2.1]
      exact Prod.ext hu.symm rfl
  · intro hw
    simp only [hw, Bool.false_eq_true, if_false]
    exact ⟨trivial, trivial, trivial⟩

theorem excResult_ok (O : Oracles α) (P : Prob α) (s : St α D) (e : Exc) (u0 y mu errz0 : Vec α) :
    ExitOK O P u0 y mu errz0 (excResult s e u0 y errz0) :=
  ⟨fun h => absurd h (by simp [excResult]), fun _ => ⟨rfl, rfl, rfl⟩⟩

theorem mainLoop_fuelOut_mono (O : Oracles α) (dir : Dir D α) (P : Prob α) (pr : Params α)
    (stop : Nat → Bool) (oot : Bool) (u0 y mu errz0 : Vec α) (fuel : Nat) (s : St α D)
    (hf : s.fuelOut = true) : (mainLoop O dir P pr stop oot u0 y mu errz0 fuel s).fuelOut = true := by
  induction fuel generalizing s with
  | zero => simp [mainLoop]
  | succ f ih =>
    unfold mainLoop
    have hh : (headStep P pr stop oot s).1.fuelOut = true := by
      rw [(headStep_curr P pr stop oot s).2.1]; exact hf
    cases hes : (headStep P pr stop oot s).2 with
    | none => simpa [excResult] using hh
    | some es =>
      simp only []
      split_ifs
      · simpa [exitBlock] using hh
      · simpa [excResult] using iterBody_fuelOut_mono O dir P pr stop _ es.1 hh
      · exact ih _ (iterBody_fuelOut_mono O dir P pr stop _ es.1 hh)

/-- **Exit contract of the main loop**, for all oracles, stop schedules, budgets. -/
theorem mainLoop_ok (O : Oracles α) (dir : Dir D α) (P : Prob α) (pr : Params α) (stop : Nat → Bool)
    (oot : Bool) (u0 y mu errz0 : Vec α) (fuel : Nat) (s : St α D) (h : Good O P s.curr)
    (hτ : TauSentinelOK α) (hf : s.fuelOut = false)
    (hr : (mainLoop O dir P pr stop oot u0 y mu errz0 fuel s).fuelOut = false) :
    ExitOK O P u0 y mu errz0 (mainLoop O dir P pr stop oot u0 y mu errz0 fuel s) := by
  induction fuel generalizing s with
  | zero => simp [mainLoop] at hr
  | succ f ih =>
    unfold mainLoop at hr ⊢
    have hh := headStep_curr P pr stop oot s
    have hg : Good O P (headStep P pr stop oot s).1.curr := by rw [hh.1]; exact h
    have hfs : (headStep P pr stop oot s).1.fuelOut = false := by rw [hh.2.1]; exact hf
    cases hes : (headStep P pr stop oot s).2 with
    | none => exact excResult_ok O P _ _ u0 y mu errz0
    | some es =>
      simp only [hes] at hr ⊢
      split_ifs at hr ⊢
      · exact exitBlock_ok O P pr _ es.1 es.2 u0 y mu errz0 hg
      · exact excResult_ok O P _ _ u0 y mu errz0
      · have hf2 : (iterBody O dir P pr stop (headStep P pr stop oot s).1 es.1).1.fuelOut = false := by
          rcases Bool.eq_false_or_eq_true
            (iterBody O dir P pr stop (headStep P pr stop oot s).1 es.1).1.fuelOut with hc' | hc'
          · have := mainLoop_fuelOut_mono O dir P pr stop oot u0 y mu errz0 f _ hc'
            rw [this] at hr; exact absurd hr (by decide)
          · exact hc'
        exact ih _ (iterBody_good O dir P pr stop _ es.1 hg hτ hfs hf2) hf2 hr

end Alpaqa.Ocp
