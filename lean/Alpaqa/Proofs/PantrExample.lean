/-
  A closed instance of the PANTR loop model, used by the `example`s next to the theorem families of
  `Props/C0x_Pantr.lean` to show that their hypotheses are satisfiable: one variable,
  `ψ(x) = 2x²`, `C = [1, 8]`, carrier `Int` (an abstract carrier is all the structural theorems
  need; `Int` evaluates inside the kernel, so the examples are closed by `decide`).
-/
import Alpaqa.Proofs.PantrInv

namespace Alpaqa.Pantr.Example
open Alpaqa Alpaqa.Pantr Alpaqa.Gen

scoped instance : RealLike Int := ⟨id, fun _ => false, fun _ => true⟩
scoped instance : OfScientific Int := ⟨fun m _ _ => m⟩

/-- ψ(x) = 2x², C = [1, 8], one variable, no constraints -/
def P : Problem Int where
  psiGradPsi x := (2 * (x.headD 0) * (x.headD 0), [4 * x.headD 0], [])
  psi x := (2 * (x.headD 0) * (x.headD 0), [])
  gradPsi x := [4 * x.headD 0]
  gradL x _ := [4 * x.headD 0]
  prox γ x g :=
    let v := x.headD 0 - γ * g.headD 0
    let xh := if v < 1 then 1 else if 8 < v then 8 else v
    (0, [xh], [xh - x.headD 0])

/-- a provider that proposes the forward-backward step itself with model value `qm` -/
def dir (qm : Int) : Direction Unit Int where
  init _ _ _ _ _ _ := ()
  hasInitial _ := true
  apply _ _ _ _ p _ _ _ := ((), qm, p)
  update _ _ _ _ _ _ _ _ _ := ((), true)
  changedGamma _ _ _ := ()
  reset _ := ()

def pr (maxIter : Nat) (overwrite : Bool) : Params Int :=
  { L0 := 4, lipEps := 1, lipDelta := 1, LgammaFactor := 4, maxIter := maxIter, Lmin := 1, Lmax := 1000,
    stopCrit := .ProjGradNorm, maxNoProgress := 10, qubTol := 0, trTol := 0,
    ratioThresholdAcceptable := 0, ratioThresholdGood := 1, radiusFactorRejected := 1,
    radiusFactorAcceptable := 1, radiusFactorGood := 2, initialRadius := 5, minRadius := 1,
    computeRatioUsingNewStepsize := false, updateDirectionOnProxStep := true,
    recomputeLastProx := false, disableAcceleration := false, ratioApproxFbe := false,
    alwaysOverwrite := overwrite, tolerance := 0, qubFuel := 8 }

def co : Consts Int := ⟨1000000, -1000000⟩

/-- `run` from `x₀ = 5` with the given budget, overwrite flag, provider model value, stop tick. -/
def solve (maxIter : Nat) (overwrite : Bool) (qm : Int) (stopTick : Nat) : Result Int Unit :=
  run co P (dir qm) () (pr maxIter overwrite) (fun t => stopTick != 0 && t ≥ stopTick) false
    [5] [] [] [] [0]

end Alpaqa.Pantr.Example
