/-
  C16 helper lemmas, part 6: what no operation changes — the configuration (`cfg`: small-buffer
  size, allocator traits, pool size) and which slots outside the pool hold a wrapper (none).
  Used to discharge, for every operation sequence, the side conditions of
  `Props.C16.construct_destroy_once_run` (`run_cfg`, `run_pool`).
-/
import Alpaqa.Proofs.C16Exec

set_option linter.unusedSimpArgs false

namespace Alpaqa.Proofs.C16
open Alpaqa.Gen.C16 Alpaqa.C16

/-! ### `cfg` -/

@[simp] theorem setObj_cfg (s : State) (l : Loc) (o : Option Obj) : (setObj s l o).cfg = s.cfg :=
  (setObj_fields s l o).2.2.2.2.1

@[simp] theorem constructAt_cfg (s : State) (l : Loc) (v t : Nat) (ev : Nat → Ev) :
    (constructAt s l v t ev).cfg = s.cfg := by
  unfold constructAt
  split
  · simp
  · split
    · simp
    · exact setObj_cfg _ _ _

@[simp] theorem copyConstruct_cfg (s : State) (p q : Option Loc) : (copyConstruct s p q).cfg = s.cfg := by
  unfold copyConstruct
  split
  · split <;> simp
  · simp

@[simp] theorem heapAlloc_cfg (s : State) (a sz o : Nat) : (heapAlloc s a sz o).1.cfg = s.cfg := rfl

@[simp] theorem heapFree_cfg (s : State) (a : Nat) (p : Option Loc) : (heapFree s a p).cfg = s.cfg := by
  unfold heapFree
  split
  · simp only []
    split
    · simp
    · split
      · simp
      · split
        · simp
        · rfl
  · simp

@[simp] theorem wAllocate_cfg (s : State) (i sz : Nat) : (wAllocate s i sz).cfg = s.cfg := by
  unfold wAllocate; split <;> simp

@[simp] theorem wDeallocate_cfg (s : State) (i : Nat) : (wDeallocate s i).cfg = s.cfg := by
  unfold wDeallocate; simp only [modW_cfg]; split <;> simp

@[simp] theorem wCleanup_cfg (s : State) (i : Nat) : (wCleanup s i).cfg = s.cfg := by
  unfold wCleanup
  simp only []
  split
  · simp
  · split <;> simp

@[simp] theorem steal_cfg (s : State) (i k : Nat) : (steal s i k).cfg = s.cfg := by
  unfold steal
  simp only []
  split <;> simp

@[simp] theorem isSome_steal (s : State) (i k n : Nat) :
    ((steal s i k).wr n).isSome = (s.wr n).isSome := by
  unfold steal
  simp only []
  split <;> simp

@[simp] theorem moveSmall_cfg (s : State) (i k : Nat) : (moveSmall s i k).cfg = s.cfg := by
  unfold moveSmall
  simp only [modW_cfg]
  split <;> simp

@[simp] theorem isSome_moveSmall (s : State) (i k n : Nat) :
    ((moveSmall s i k).wr n).isSome = (s.wr n).isSome := by
  unfold moveSmall
  simp only [isSome_modW]
  split <;> simp

@[simp] theorem moveRealloc_cfg (s : State) (i j a : Nat) (v : Bool) :
    (moveRealloc s i j a v).cfg = s.cfg := by
  unfold moveRealloc
  simp only []
  split <;> split <;> simp

@[simp] theorem isSome_moveRealloc (s : State) (i j a : Nat) (v : Bool) (n : Nat) :
    ((moveRealloc s i j a v).wr n).isSome = (s.wr n).isSome := by
  unfold moveRealloc
  simp only []
  split <;> split <;> simp

@[simp] theorem doCopyAssign_cfg (s : State) (c : Bool) (i k : Nat) (thr : Bool) :
    (Alpaqa.C16.doCopyAssign s c i k thr).1.cfg = s.cfg := by
  unfold Alpaqa.C16.doCopyAssign
  simp only []
  split <;> (try split) <;> (try split) <;> (try split) <;> simp

@[simp] theorem isSome_doCopyAssign (s : State) (c : Bool) (i k : Nat) (thr : Bool) (n : Nat) :
    ((Alpaqa.C16.doCopyAssign s c i k thr).1.wr n).isSome = (s.wr n).isSome := by
  unfold Alpaqa.C16.doCopyAssign
  simp only []
  split <;> (try split) <;> (try split) <;> (try split) <;> simp

@[simp] theorem dropW_cfg (s : State) (i : Nat) : (dropW s i).cfg = s.cfg := by
  unfold dropW
  simp only []
  split <;> (try split) <;> first | rfl | simp

theorem dropW_wr (s : State) (i n : Nat) :
    (dropW s i).wr n = if n = i then none else s.wr n := by
  unfold dropW
  simp only [upd]
  split
  · rfl
  · split <;> (try split) <;> simp

theorem newW_wr (s : State) (i a vt n : Nat) :
    (newW s i a vt).wr n = if n = i then some { blankW a with vtTy := vt } else s.wr n := rfl

theorem isSome_dropW_ne (s : State) (i : Nat) {n : Nat} (h : n ≠ i) :
    ((dropW s i).wr n).isSome = (s.wr n).isSome := by
  rw [dropW_wr]; simp [h]

/-! ### operations -/

theorem shape_opNewInPlace (s : State) (i a ty val : Nat) (thr : Bool) :
    (opNewInPlace s i a ty val thr).1.cfg = s.cfg ∧
    ∀ n, n ≠ i → ((opNewInPlace s i a ty val thr).1.wr n).isSome = (s.wr n).isSome := by
  unfold opNewInPlace
  simp only []
  split
  · exact ⟨by simp, fun n hn => by simp [isSome_dropW_ne _ _ hn, isSome_newW_ne _ _ _ _ hn]⟩
  · exact ⟨by simp, fun n hn => by simp [isSome_newW_ne _ _ _ _ hn]⟩

theorem shape_opNewCopyEnv (s : State) (i a k : Nat) (thr : Bool) :
    (opNewCopyEnv s i a k thr).1.cfg = s.cfg ∧
    ∀ n, n ≠ i → ((opNewCopyEnv s i a k thr).1.wr n).isSome = (s.wr n).isSome := by
  unfold opNewCopyEnv
  split
  · exact ⟨rfl, fun _ _ => rfl⟩
  · simp only []
    split
    · exact ⟨by simp, fun n hn => by simp [isSome_dropW_ne _ _ hn, isSome_newW_ne _ _ _ _ hn]⟩
    · exact ⟨by simp, fun n hn => by simp [isSome_newW_ne _ _ _ _ hn]⟩

theorem shape_opNewMoveEnv (s : State) (i a k : Nat) :
    (opNewMoveEnv s i a k).1.cfg = s.cfg ∧
    ∀ n, n ≠ i → ((opNewMoveEnv s i a k).1.wr n).isSome = (s.wr n).isSome := by
  unfold opNewMoveEnv
  split
  · exact ⟨rfl, fun _ _ => rfl⟩
  · exact ⟨by simp, fun n hn => by simp [isSome_newW_ne _ _ _ _ hn]⟩

theorem shape_opNewPtr (s : State) (i a k : Nat) (c : Bool) :
    (opNewPtr s i a k c).1.cfg = s.cfg ∧
    ∀ n, n ≠ i → ((opNewPtr s i a k c).1.wr n).isSome = (s.wr n).isSome := by
  unfold opNewPtr
  split
  · exact ⟨rfl, fun _ _ => rfl⟩
  · exact ⟨by simp, fun n hn => by simp [isSome_newW_ne _ _ _ _ hn]⟩

theorem shape_opCopyCtorWith (s : State) (i j a : Nat) (thr : Bool) :
    (opCopyCtorWith s i j a thr).1.cfg = s.cfg ∧
    ∀ n, n ≠ i → ((opCopyCtorWith s i j a thr).1.wr n).isSome = (s.wr n).isSome := by
  unfold opCopyCtorWith
  simp only []
  split
  · exact ⟨by simp, fun n hn => by simp [isSome_dropW_ne _ _ hn, isSome_newW_ne _ _ _ _ hn]⟩
  · exact ⟨by simp, fun n hn => by simp [isSome_newW_ne _ _ _ _ hn]⟩

theorem shape_opMoveCtor (s : State) (i j : Nat) :
    (opMoveCtor s i j).1.cfg = s.cfg ∧
    ∀ n, n ≠ i → ((opMoveCtor s i j).1.wr n).isSome = (s.wr n).isSome := by
  unfold opMoveCtor
  simp only []
  split
  · exact ⟨by simp, fun n hn => by simp [isSome_newW_ne _ _ _ _ hn]⟩
  · split
    · exact ⟨by simp, fun n hn => by simp [isSome_newW_ne _ _ _ _ hn]⟩
    · exact ⟨by simp, fun n hn => by simp [isSome_newW_ne _ _ _ _ hn]⟩

theorem shape_opMoveCtorAlloc (s : State) (i j a : Nat) :
    (opMoveCtorAlloc s i j a).1.cfg = s.cfg ∧
    ∀ n, n ≠ i → ((opMoveCtorAlloc s i j a).1.wr n).isSome = (s.wr n).isSome := by
  unfold opMoveCtorAlloc
  simp only []
  split
  · exact ⟨by simp, fun n hn => by simp [isSome_newW_ne _ _ _ _ hn]⟩
  · repeat' split
    all_goals exact ⟨by simp, fun n hn => by simp [isSome_newW_ne _ _ _ _ hn]⟩

theorem shape_opCopyAssign (s : State) (i j : Nat) (thr : Bool) :
    (opCopyAssign s i j thr).1.cfg = s.cfg ∧
    ∀ n, ((opCopyAssign s i j thr).1.wr n).isSome = (s.wr n).isSome := by
  unfold opCopyAssign
  split
  · exact ⟨rfl, fun _ => rfl⟩
  · exact ⟨by simp, fun n => by simp⟩

theorem shape_opMoveAssign (s : State) (i j : Nat) :
    (opMoveAssign s i j).1.cfg = s.cfg ∧
    ∀ n, ((opMoveAssign s i j).1.wr n).isSome = (s.wr n).isSome := by
  unfold opMoveAssign
  split
  · exact ⟨rfl, fun _ => rfl⟩
  · simp only []
    repeat' split
    all_goals exact ⟨by simp, fun n => by simp⟩

theorem shape_opDel (s : State) (i : Nat) :
    (opDel s i).1.cfg = s.cfg ∧ ∀ n, n ≠ i → ((opDel s i).1.wr n).isSome = (s.wr n).isSome := by
  unfold opDel
  exact ⟨by simp, fun n hn => by simp [isSome_dropW_ne _ _ hn]⟩

theorem shape_deref (s : State) (w : Wrapper) :
    (deref s w).1.cfg = s.cfg ∧ (deref s w).1.wr = s.wr := by
  unfold deref
  repeat' split
  all_goals simp

theorem shape_opSet (s : State) (i v : Nat) :
    (opSet s i v).1.cfg = s.cfg ∧ ∀ n, ((opSet s i v).1.wr n).isSome = (s.wr n).isSome := by
  unfold opSet
  simp only []
  repeat' split
  all_goals exact ⟨by simp, fun n => by simp⟩

theorem shape_opAccess (s : State) (gs : List Guard) (i ty : Nat) :
    (opAccess s gs i ty).1.cfg = s.cfg ∧ (opAccess s gs i ty).1.wr = s.wr := by
  unfold opAccess
  simp only []
  repeat' split
  all_goals first | exact ⟨rfl, rfl⟩ | exact shape_deref _ _

theorem free_lt {s : State} {i : Nat} (h : free s i = true) : i < s.cfg.npool := by
  simp only [free, Bool.and_eq_true, decide_eq_true_eq] at h; exact h.1

/-- **No operation changes the configuration or puts a wrapper into a slot outside the pool.** -/
theorem stepH_shape (s : State) (op : Op) :
    (stepH s op).1.cfg = s.cfg ∧
    ∀ n, s.cfg.npool ≤ n → (s.wr n).isSome = false → ((stepH s op).1.wr n).isSome = false := by
  have ctor : ∀ {i : Nat} {r : State × Out}, free s i = true →
      (r.1.cfg = s.cfg ∧ ∀ n, n ≠ i → (r.1.wr n).isSome = (s.wr n).isSome) →
      r.1.cfg = s.cfg ∧ ∀ n, s.cfg.npool ≤ n → (s.wr n).isSome = false → (r.1.wr n).isSome = false := by
    intro i r hf h
    refine ⟨h.1, fun n hn h0 => ?_⟩
    have := free_lt hf
    rw [h.2 n (by omega)]; exact h0
  have all : ∀ {r : State × Out},
      (r.1.cfg = s.cfg ∧ ∀ n, (r.1.wr n).isSome = (s.wr n).isSome) →
      r.1.cfg = s.cfg ∧ ∀ n, s.cfg.npool ≤ n → (s.wr n).isSome = false → (r.1.wr n).isSome = false :=
    fun h => ⟨h.1, fun n _ h0 => by rw [h.2 n]; exact h0⟩
  have triv : (s.cfg = s.cfg ∧ ∀ n, s.cfg.npool ≤ n → (s.wr n).isSome = false → (s.wr n).isSome = false) :=
    ⟨rfl, fun _ _ h => h⟩
  cases op <;> simp only [stepH]
  case newDefault i a =>
    split
    · rename_i hf
      exact ctor hf ⟨rfl, fun n hn => isSome_newW_ne _ _ _ _ hn⟩
    · exact triv
  case newInPlace i a ty val thr =>
    split
    · rename_i hf; exact ctor hf (shape_opNewInPlace _ _ _ _ _ _)
    · exact triv
  case newCopyEnv i a k thr =>
    split
    · rename_i hf; exact ctor hf (shape_opNewCopyEnv _ _ _ _ _)
    · exact triv
  case newMoveEnv i a k =>
    split
    · rename_i hf; exact ctor hf (shape_opNewMoveEnv _ _ _ _)
    · exact triv
  case newPtr i a k c =>
    split
    · rename_i hf; exact ctor hf (shape_opNewPtr _ _ _ _ _)
    · exact triv
  case copyCtor i j thr =>
    split
    · rename_i hf
      simp only [Bool.and_eq_true] at hf
      exact ctor hf.1 (shape_opCopyCtorWith _ _ _ _ _)
    · exact triv
  case copyCtorAlloc i j a thr =>
    split
    · rename_i hf
      simp only [Bool.and_eq_true] at hf
      exact ctor hf.1 (shape_opCopyCtorWith _ _ _ _ _)
    · exact triv
  case moveCtor i j =>
    split
    · rename_i hf
      simp only [Bool.and_eq_true] at hf
      exact ctor hf.1 (shape_opMoveCtor _ _ _)
    · exact triv
  case moveCtorAlloc i j a =>
    split
    · rename_i hf
      simp only [Bool.and_eq_true] at hf
      exact ctor hf.1 (shape_opMoveCtorAlloc _ _ _ _)
    · exact triv
  case copyAssign i j thr =>
    split
    · exact all (shape_opCopyAssign _ _ _ _)
    · exact triv
  case moveAssign i j =>
    split
    · exact all (shape_opMoveAssign _ _ _)
    · exact triv
  case del i =>
    split
    · rename_i hh
      refine ⟨(shape_opDel s i).1, fun n hn h0 => ?_⟩
      by_cases e : n = i
      · subst e; simp [has, h0] at hh
      · rw [(shape_opDel s i).2 n e]; exact h0
    · exact triv
  case get i =>
    split
    · exact all ⟨(shape_deref _ _).1, fun n => by rw [opGet, (shape_deref _ _).2]⟩
    · exact triv
  case set i v =>
    split
    · exact all (shape_opSet _ _ _)
    · exact triv
  case asMut i ty =>
    split
    · exact all ⟨(shape_opAccess _ _ _ _).1, fun n => by rw [(shape_opAccess _ _ _ _).2]⟩
    · exact triv
  case asConst i ty =>
    split
    · exact all ⟨(shape_opAccess _ _ _ _).1, fun n => by rw [(shape_opAccess _ _ _ _).2]⟩
    · exact triv
  case getPtr i =>
    split
    · exact all ⟨(shape_opAccess _ _ _ _).1, fun n => by rw [(shape_opAccess _ _ _ _).2]⟩
    · exact triv

/-! ### The environment's objects keep their identity

  No operation constructs in the environment's storage (`usable`), so an object found in
  `env k` afterwards is the object that was there before, possibly with another value
  (moved-from / written through a reference). -/

/-- every environment object of `s'` is an environment object of `s` with the same id, same slot -/
def EnvLe (s s' : State) : Prop :=
  ∀ k o', s'.env k = some o' → ∃ o, s.env k = some o ∧ o.id = o'.id

theorem EnvLe.refl (s : State) : EnvLe s s := fun _ o h => ⟨o, h, rfl⟩
theorem EnvLe.trans {a b c : State} (h1 : EnvLe a b) (h2 : EnvLe b c) : EnvLe a c := by
  intro k o h
  obtain ⟨o1, e1, i1⟩ := h2 k o h
  obtain ⟨o0, e0, i0⟩ := h1 k o1 e1
  exact ⟨o0, e0, i0.trans i1⟩
theorem EnvLe.of_eq {s s' : State} (h : s'.env = s.env) : EnvLe s s' := by
  intro k o ho; rw [h] at ho; exact ⟨o, ho, rfl⟩

@[simp] theorem modW_env (s : State) (i : Nat) (f : Wrapper → Wrapper) : (modW s i f).env = s.env :=
  (modW_fields s i f).2.2.2.2.2.2.1

theorem setObj_env_ne (s : State) (l : Loc) (o : Option Obj) (h : ∀ k, l ≠ .env k) :
    (setObj s l o).env = s.env := by
  cases l with
  | buf i => simp [setObj]
  | blk b => rfl
  | env k => exact absurd rfl (h k)

@[simp] theorem constructAt_env (s : State) (l : Loc) (v t : Nat) (ev : Nat → Ev) :
    (constructAt s l v t ev).env = s.env := by
  unfold constructAt
  split
  · simp
  · split
    · simp
    · rename_i hu _
      refine setObj_env_ne _ _ _ ?_
      intro k e; subst e; simp [usable] at hu

@[simp] theorem copyConstruct_env (s : State) (p q : Option Loc) : (copyConstruct s p q).env = s.env := by
  unfold copyConstruct
  split
  · split <;> simp
  · simp

@[simp] theorem heapFree_env (s : State) (a : Nat) (p : Option Loc) : (heapFree s a p).env = s.env := by
  unfold heapFree
  split
  · simp only []
    split
    · simp
    · split
      · simp
      · split
        · simp
        · rfl
  · simp

@[simp] theorem heapAlloc_env (s : State) (a sz o : Nat) : (heapAlloc s a sz o).1.env = s.env := rfl

@[simp] theorem wAllocate_env (s : State) (i sz : Nat) : (wAllocate s i sz).env = s.env := by
  unfold wAllocate; split <;> simp

@[simp] theorem wDeallocate_env (s : State) (i : Nat) : (wDeallocate s i).env = s.env := by
  unfold wDeallocate; simp only [modW_env]; split <;> simp

@[simp] theorem steal_env (s : State) (i k : Nat) : (steal s i k).env = s.env := by
  unfold steal
  simp only []
  split <;> simp

@[simp] theorem dropW_env (s : State) (i : Nat) : (dropW s i).env = s.env := by
  unfold dropW
  simp only []
  split <;> (try split) <;> first | rfl | simp

@[simp] theorem newW_env (s : State) (i a vt : Nat) : (newW s i a vt).env = s.env := rfl

@[simp] theorem doCopyAssign_env (s : State) (c : Bool) (i k : Nat) (thr : Bool) :
    (Alpaqa.C16.doCopyAssign s c i k thr).1.env = s.env := by
  unfold Alpaqa.C16.doCopyAssign
  simp only []
  split <;> (try split) <;> (try split) <;> (try split) <;> simp

theorem EnvLe.right {s t t' : State} (h : EnvLe s t) (e : t'.env = t.env) : EnvLe s t' := by
  intro k o ho; rw [e] at ho; exact h k o ho

/-- replacing / removing an object keeps `EnvLe` if a replacement in the environment carries the
    id of what was there -/
theorem envLe_setObj (s c : State) (hc : c.env = s.env) (l : Loc) (o : Option Obj)
    (h : ∀ k o', l = .env k → o = some o' → ∃ o0, s.env k = some o0 ∧ o0.id = o'.id) :
    EnvLe s (setObj c l o) := by
  cases l with
  | buf i => exact EnvLe.of_eq (by simp [setObj, hc])
  | blk b => exact EnvLe.of_eq hc
  | env k =>
    intro k' o' ho'
    simp only [setObj, upd] at ho'
    split at ho'
    · rename_i e; subst e
      exact h k' o' rfl ho'
    · rw [hc] at ho'; exact ⟨o', ho', rfl⟩

theorem envLe_destroyAt (s : State) (l : Loc) : EnvLe s (destroyAt s l) := by
  unfold destroyAt
  split
  · exact EnvLe.of_eq (by simp)
  · exact (envLe_setObj s s rfl l none (fun _ _ _ h => by cases h)).right rfl

theorem envLe_moveConstruct (s : State) (p q : Option Loc) : EnvLe s (moveConstruct s p q) := by
  cases p with
  | none => exact EnvLe.of_eq (by simp [moveConstruct])
  | some p' =>
    cases q with
    | none => exact EnvLe.of_eq (by simp [moveConstruct])
    | some q' =>
      simp only [moveConstruct]
      cases ho : objAt s p' with
      | none => exact EnvLe.of_eq (by simp)
      | some o =>
        refine envLe_setObj s _ (constructAt_env _ _ _ _ _) p' _ ?_
        intro k o' e h
        subst e; cases h
        exact ⟨o, by simpa [objAt] using ho, rfl⟩

theorem envLe_wCleanup (s : State) (i : Nat) : EnvLe s (wCleanup s i) := by
  unfold wCleanup
  simp only []
  split
  · exact EnvLe.of_eq (by simp)
  · cases hs : (getW s i).self with
    | none => exact EnvLe.refl _
    | some p => exact (envLe_destroyAt s p).right (by simp)

theorem envLe_moveSmall (s : State) (i k : Nat) : EnvLe s (moveSmall s i k) := by
  unfold moveSmall
  simp only []
  have h1 := envLe_moveConstruct (modW s i fun w => { w with self := some (.buf i) })
    (getW (modW s i fun w => { w with self := some (.buf i) }) k).self (some (.buf i))
  have h0 : EnvLe s (modW s i fun w => { w with self := some (.buf i) }) := EnvLe.of_eq (by simp)
  cases hs : (getW (modW s i fun w => { w with self := some (.buf i) }) k).self with
  | none =>
    rw [hs] at h1
    exact (h0.trans h1).right (by simp)
  | some p =>
    rw [hs] at h1
    exact ((h0.trans h1).trans (envLe_destroyAt _ p)).right (by simp)

theorem envLe_moveRealloc (s : State) (i j a : Nat) (v : Bool) : EnvLe s (moveRealloc s i j a v) := by
  unfold moveRealloc
  simp only []
  have h0 : EnvLe s (modW (heapAlloc s (getW s i).alloc (getW s i).size i).1 i
      fun w => { w with self := some (.blk (heapAlloc s (getW s i).alloc (getW s i).size i).2) }) :=
    EnvLe.of_eq (by simp)
  have h1 := h0.trans (envLe_moveConstruct _ (getW s j).self
    (some (.blk (heapAlloc s (getW s i).alloc (getW s i).size i).2)))
  cases hs : (getW s j).self with
  | none =>
    rw [hs] at h1
    split
    · exact h1.right (by simp)
    · exact h1.right (by simp)
  | some p =>
    rw [hs] at h1
    have h2 := h1.trans (envLe_destroyAt _ p)
    split
    · exact h2.right (by simp)
    · exact h2.right (by simp)

theorem envLe_opNewInPlace (s : State) (i a ty val : Nat) (thr : Bool) :
    EnvLe s (opNewInPlace s i a ty val thr).1 := by
  unfold opNewInPlace
  simp only []
  split <;> exact EnvLe.of_eq (by simp)

theorem envLe_opNewCopyEnv (s : State) (i a k : Nat) (thr : Bool) :
    EnvLe s (opNewCopyEnv s i a k thr).1 := by
  unfold opNewCopyEnv
  split
  · exact EnvLe.refl _
  · simp only []
    split <;> exact EnvLe.of_eq (by simp)

theorem envLe_opNewMoveEnv (s : State) (i a k : Nat) : EnvLe s (opNewMoveEnv s i a k).1 := by
  unfold opNewMoveEnv
  cases he : s.env k with
  | none => exact EnvLe.refl _
  | some o =>
    simp only []
    have h0 : EnvLe s (wAllocate (newW s i a 0) i o.ty) := EnvLe.of_eq (by simp)
    exact (h0.trans (envLe_moveConstruct _ (some (.env k))
      (getW (wAllocate (newW s i a 0) i o.ty) i).self)).right (by simp)

theorem envLe_opNewPtr (s : State) (i a k : Nat) (c : Bool) : EnvLe s (opNewPtr s i a k c).1 := by
  unfold opNewPtr
  split
  · exact EnvLe.refl _
  · exact EnvLe.of_eq (by simp)

theorem envLe_opCopyCtorWith (s : State) (i j a : Nat) (thr : Bool) :
    EnvLe s (opCopyCtorWith s i j a thr).1 := by
  unfold opCopyCtorWith
  simp only []
  split <;> exact EnvLe.of_eq (by simp)

theorem envLe_opMoveCtor (s : State) (i j : Nat) : EnvLe s (opMoveCtor s i j).1 := by
  unfold opMoveCtor
  simp only []
  have h0 : EnvLe s (modW (newW s i (getW s j).alloc (getW s j).vtTy) i
      fun w => { w with size := (getW s j).size }) := EnvLe.of_eq (by simp)
  split
  · exact EnvLe.of_eq (by simp)
  · split
    · exact (h0.trans (envLe_moveSmall _ i j)).right (by simp)
    · exact EnvLe.of_eq (by simp)

theorem envLe_opMoveCtorAlloc (s : State) (i j a : Nat) : EnvLe s (opMoveCtorAlloc s i j a).1 := by
  unfold opMoveCtorAlloc
  simp only []
  have h0 : EnvLe s (modW (newW s i a (getW s j).vtTy) i
      fun w => { w with size := (getW s j).size }) := EnvLe.of_eq (by simp)
  split
  · exact EnvLe.of_eq (by simp)
  · split
    · exact EnvLe.of_eq (by simp)
    · split
      · split
        · exact EnvLe.of_eq (by simp)
        · exact (h0.trans (envLe_moveRealloc _ i j (getW s j).alloc true)).right (by simp)
      · split
        · exact (h0.trans (envLe_moveSmall _ i j)).right (by simp)
        · exact EnvLe.of_eq (by simp)

theorem envLe_opCopyAssign (s : State) (i j : Nat) (thr : Bool) :
    EnvLe s (opCopyAssign s i j thr).1 := by
  unfold opCopyAssign
  split
  · exact EnvLe.refl _
  · exact (envLe_wCleanup s i).right (by simp)

theorem envLe_opMoveAssign (s : State) (i j : Nat) : EnvLe s (opMoveAssign s i j).1 := by
  unfold opMoveAssign
  split
  · exact EnvLe.refl _
  · simp only []
    have hc := envLe_wCleanup s i
    generalize wCleanup s i = t at hc
    have key : ∀ u : State, u.env = t.env →
        EnvLe s (modW (
          if (!ownsReferencedObject (getW t j).size) = true then steal u i j
          else if moveAssignLarge (getW t j).size u.cfg.sbs = true then
            if (t.cfg.pocma || cls (getW u i).alloc == cls (getW t j).alloc) = true then steal u i j
            else moveRealloc u i j (if t.cfg.pocma = true then (getW u i).alloc else (getW t j).alloc) false
          else if (getW t j).self.isSome = true then moveSmall u i j else u) j
          fun w => { w with size := invalidSize }) := by
      intro u hu
      have h0 : EnvLe s u := hc.right hu
      split
      · exact h0.right (by simp)
      · split
        · split
          · exact h0.right (by simp)
          · exact (h0.trans (envLe_moveRealloc u i j
              (if t.cfg.pocma = true then (getW u i).alloc else (getW t j).alloc) false)).right (by simp)
        · split
          · exact (h0.trans (envLe_moveSmall u i j)).right (by simp)
          · exact h0.right (by simp)
    have hu0 : (if t.cfg.pocma = true then
        modW t i fun w => { w with alloc := (getW t j).alloc } else t).env = t.env := by
      split <;> simp
    split
    · exact hc.right hu0
    · exact key _ (by simp [hu0])

theorem envLe_opDel (s : State) (i : Nat) : EnvLe s (opDel s i).1 := by
  unfold opDel
  exact (envLe_wCleanup s i).right (by simp)

theorem deref_env (s : State) (w : Wrapper) : (deref s w).1.env = s.env := by
  unfold deref
  repeat' split
  all_goals simp

theorem envLe_opSet (s : State) (i v : Nat) : EnvLe s (opSet s i v).1 := by
  unfold opSet
  simp only []
  cases hs : (getW s i).self with
  | none => exact EnvLe.refl _
  | some p =>
    simp only []
    split
    · exact EnvLe.refl _
    · cases ho : objAt s p with
      | none => exact EnvLe.of_eq (by simp)
      | some o =>
        simp only []
        refine (envLe_setObj s s rfl p (some { o with val := v }) ?_).right rfl
        intro k o' e h
        subst e; cases h
        exact ⟨o, by simpa [objAt] using ho, rfl⟩

theorem opAccess_env (s : State) (gs : List Guard) (i ty : Nat) :
    (opAccess s gs i ty).1.env = s.env := by
  unfold opAccess
  simp only []
  repeat' split
  all_goals first | rfl | exact deref_env _ _

/-- **Every operation leaves the environment's objects their identity.** -/
theorem envLe_stepH (s : State) (op : Op) : EnvLe s (stepH s op).1 := by
  cases op <;> simp only [stepH]
  case newDefault i a =>
    split
    · exact EnvLe.of_eq rfl
    · exact EnvLe.refl _
  case newInPlace i a ty val thr =>
    split
    · exact envLe_opNewInPlace _ _ _ _ _ _
    · exact EnvLe.refl _
  case newCopyEnv i a k thr =>
    split
    · exact envLe_opNewCopyEnv _ _ _ _ _
    · exact EnvLe.refl _
  case newMoveEnv i a k =>
    split
    · exact envLe_opNewMoveEnv _ _ _ _
    · exact EnvLe.refl _
  case newPtr i a k c =>
    split
    · exact envLe_opNewPtr _ _ _ _ _
    · exact EnvLe.refl _
  case copyCtor i j thr =>
    split
    · exact envLe_opCopyCtorWith _ _ _ _ _
    · exact EnvLe.refl _
  case copyCtorAlloc i j a thr =>
    split
    · exact envLe_opCopyCtorWith _ _ _ _ _
    · exact EnvLe.refl _
  case moveCtor i j =>
    split
    · exact envLe_opMoveCtor _ _ _
    · exact EnvLe.refl _
  case moveCtorAlloc i j a =>
    split
    · exact envLe_opMoveCtorAlloc _ _ _ _
    · exact EnvLe.refl _
  case copyAssign i j thr =>
    split
    · exact envLe_opCopyAssign _ _ _ _
    · exact EnvLe.refl _
  case moveAssign i j =>
    split
    · exact envLe_opMoveAssign _ _ _
    · exact EnvLe.refl _
  case del i =>
    split
    · exact envLe_opDel _ _
    · exact EnvLe.refl _
  case get i =>
    split
    · exact EnvLe.of_eq (deref_env _ _)
    · exact EnvLe.refl _
  case set i v =>
    split
    · exact envLe_opSet _ _ _
    · exact EnvLe.refl _
  case asMut i ty =>
    split
    · exact EnvLe.of_eq (opAccess_env _ _ _ _)
    · exact EnvLe.refl _
  case asConst i ty =>
    split
    · exact EnvLe.of_eq (opAccess_env _ _ _ _)
    · exact EnvLe.refl _
  case getPtr i =>
    split
    · exact EnvLe.of_eq (opAccess_env _ _ _ _)
    · exact EnvLe.refl _

end Alpaqa.Proofs.C16
