/-
  C12 — `factor_masked` / `solve_masked` produce a KKT point of the masked equality-constrained
  QP.  Stage lemma (list model → Mathlib matrices → `C12RicM`), then the two loops.
-/
import Alpaqa.Proofs.C12Lin
import Alpaqa.Proofs.C12RicM

namespace Alpaqa.C12
open Alpaqa Matrix
variable {α : Type} [Field α]

/-- `M` is symmetric on its leading `n × n` block. -/
def SymM (n : Nat) (M : Mat α) : Prop := (toM n n M)ᵀ = toM n n M

section stage
variable (nx nu : Nat) (solveM : Mat α → Mat α → Mat α) (solveV : Mat α → Vec α → Vec α)
  (d : LQRStage α) (P : Mat α) (s : Vec α)

/-- The solve oracle did its job at this stage: `R̄·X = S̄`, `R̄·x = t`. -/
def SolveOK : Prop :=
  mulMM d.J.length d.J.length nx (ricRecord nx nu solveM solveV d P s).Rbar
      (solveM (ricRecord nx nu solveM solveV d P s).Rbar (ricRecord nx nu solveM solveV d P s).Sbar)
    = (ricRecord nx nu solveM solveV d P s).Sbar ∧
  mulMV d.J.length d.J.length (ricRecord nx nu solveM solveV d P s).Rbar
      (solveV (ricRecord nx nu solveM solveV d P s).Rbar (ricRecord nx nu solveM solveV d P s).tvec)
    = (ricRecord nx nu solveM solveV d P s).tvec

local notation "nJ" => d.J.length
local notation "nK" => d.K.length
local notation "rec" => ricRecord nx nu solveM solveV d P s
local notation "BJ" => toM nx nJ (mkM nx nJ fun a j => mget d.B a (iget d.J j))
local notation "RJJ" => toM nJ nJ (mkM nJ nJ fun a b => mget d.R (iget d.J a) (iget d.J b))
local notation "SJ" => toM nJ nx (mkM nJ nx fun a b => mget d.S (iget d.J a) b)
local notation "cv" => toV nx (mkV nx fun a => sumTo nK fun k => mget d.B a (iget d.K k) * vget d.u (iget d.K k))
local notation "rJ" => toV nJ (mkV nJ fun a => vget d.r (iget d.J a))
local notation "rk" => toV nJ (mkV nJ fun a => sumTo nK fun k => mget d.R (iget d.J a) (iget d.K k) * vget d.u (iget d.K k))
local notation "sk" => toV nx (mkV nx fun a => sumTo nK fun k => mget d.S (iget d.K k) a * vget d.u (iget d.K k))
local notation "Am" => toM nx nx d.A
local notation "Pm" => toM nx nx P
local notation "Qm" => toM nx nx d.Q
local notation "sv" => toV nx s

theorem rec_Rbar : toM nJ nJ (rec).Rbar = BJᵀ * (Pm * BJ) + RJJ := by
  simp only [ricRecord, toM_addM, toM_mulTM, toM_mulMM]
theorem rec_Sbar : toM nJ nx (rec).Sbar = BJᵀ * (Pm * Am) + SJ := by
  simp only [ricRecord, toM_addM, toM_mulTM, toM_mulMM]
theorem rec_y : toV nx (rec).yvec = Pm *ᵥ cv + sv := by
  simp only [ricRecord, toV_addV, toV_mulMV]
theorem rec_t : toV nJ (rec).tvec = BJᵀ *ᵥ (Pm *ᵥ cv + sv) + rJ + rk := by
  simp only [ricRecord, toV_addV, toV_mulMV, toV_mulTV]

theorem rec_hK (h : SolveOK nx nu solveM solveV d P s) :
    (BJᵀ * (Pm * BJ) + RJJ) * toM nJ nx (rec).gain = -(BJᵀ * (Pm * Am) + SJ) := by
  have h1 := congrArg (toM nJ nx) h.1
  rw [toM_mulMM, rec_Rbar, rec_Sbar] at h1
  have hg : toM nJ nx (rec).gain = -toM nJ nx (solveM (rec).Rbar (rec).Sbar) := by
    simp only [ricRecord, toM_negM]
  rw [hg, Matrix.mul_neg, h1]

theorem rec_he (h : SolveOK nx nu solveM solveV d P s) :
    (BJᵀ * (Pm * BJ) + RJJ) *ᵥ toV nJ (rec).e = -(BJᵀ *ᵥ (Pm *ᵥ cv + sv) + rJ + rk) := by
  have h1 := congrArg (toV nJ) h.2
  rw [toV_mulMV, rec_Rbar, rec_t] at h1
  have hg : toV nJ (rec).e = -toV nJ (solveV (rec).Rbar (rec).tvec) := by
    simp only [ricRecord, toV_negV]
  rw [hg, Matrix.mulVec_neg, h1]

theorem nextP_eq : toM nx nx (ricNextP nx d P (rec))
    = Amᵀ * (Pm * Am) + (BJᵀ * (Pm * Am) + SJ)ᵀ * toM nJ nx (rec).gain + Qm := by
  simp only [ricNextP, toM_addM, toM_mulTM, toM_mulMM, rec_Sbar]

theorem nextS_eq : toV nx (ricNextS nx d (rec))
    = (BJᵀ * (Pm * Am) + SJ)ᵀ *ᵥ toV nJ (rec).e + Amᵀ *ᵥ (Pm *ᵥ cv + sv) + toV nx d.q + sk := by
  simp only [ricNextS, toV_addV, toV_mulTV, rec_Sbar, rec_y]

/-- symmetry of the cost-to-go is preserved -/
theorem nextP_symm (h : SolveOK nx nu solveM solveV d P s) (hP : SymM nx P) (hQ : SymM nx d.Q)
    (hR : ∀ a < nu, ∀ b < nu, mget d.R a b = mget d.R b a)
    (hJ : ∀ j ∈ d.J, j < nu) :
    SymM nx (ricNextP nx d P (rec)) := by
  unfold SymM
  rw [nextP_eq]
  apply ric_stage_symm _ _ _ _ RJJ _ _ hP hQ _ (rec_hK nx nu solveM solveV d P s h)
  ext a b
  rw [Matrix.transpose_apply, toM_mkM_apply, toM_mkM_apply]
  exact hR _ (hJ _ (iget_mem b.2)) _ (hJ _ (iget_mem a.2))

/-! ### the roll-out step of `solve_masked` against the record of the same stage -/
section solve
variable (dx : Vec α) (hpart : (d.J ++ d.K).Perm (List.range nu))

set_option quotPrecheck false
local notation "ei" => addV nJ (rec).e (mulMV nJ nx (rec).gain dx)
local notation "du" => (solveStage nx nu d (rec) dx).1
local notation "dxn" => (solveStage nx nu d (rec) dx).2
local notation "δx" => toV nx dx
local notation "ΔuJ" => toV nJ (rec).e + toM nJ nx (rec).gain *ᵥ toV nx dx

theorem ei_eq : toV nJ ei = ΔuJ := by rw [toV_addV, toV_mulMV]

include hpart in
theorem du_J (b : Nat) (hb : b < nJ) : vget du (iget d.J b) = vget ei b := by
  simp only [solveStage]
  exact vget_scatter_J nu d.u _ d.J (part_nodup_J hpart) (part_lt_J hpart) b hb

include hpart in
theorem du_K (k : Nat) (hk : k < nK) : vget du (iget d.K k) = vget d.u (iget d.K k) := by
  simp only [solveStage]
  exact vget_scatter_notin nu d.u _ d.J _ (part_lt_K hpart _ (iget_mem hk))
    (part_K_notin_J hpart _ (iget_mem hk))

include hpart in
/-- a sum over all inputs splits into the free part (values `ΔuJ`) and the fixed part (`u_K`) -/
theorem sum_du (f : Nat → α) :
    sumTo nu (fun k => f k * vget du k)
      = ∑ b : Fin nJ, f (iget d.J b) * (ΔuJ) b
        + sumTo nK (fun k => f (iget d.K k) * vget d.u (iget d.K k)) := by
  rw [sumTo_partition d.J d.K nu hpart, sumTo_eq_fin, sumTo_eq_fin nK, sumTo_eq_fin nK]
  congr 1
  · apply Finset.sum_congr rfl
    intro b _
    rw [du_J nx nu solveM solveV d P s dx hpart b b.2, ← ei_eq]; rfl
  · apply Finset.sum_congr rfl
    intro k _
    rw [du_K nx nu solveM solveV d P s dx hpart k k.2]

include hpart in
theorem B_du : toV nx (mulMV nx nu d.B du) = BJ *ᵥ (ΔuJ) + cv := by
  ext a
  rw [mulMV, toV_mkV_apply, sum_du nx nu solveM solveV d P s dx hpart (fun k => mget d.B a k)]
  simp only [Pi.add_apply, Matrix.mulVec, dotProduct, toV_mkV_apply, toM_mkM_apply]

include hpart in
theorem St_du : toV nx (mulTV nx nu d.S du) = SJᵀ *ᵥ (ΔuJ) + sk := by
  ext a
  rw [mulTV, toV_mkV_apply, sum_du nx nu solveM solveV d P s dx hpart (fun k => mget d.S k a)]
  simp only [Pi.add_apply, Matrix.mulVec, dotProduct, toV_mkV_apply, toM_mkM_apply,
    Matrix.transpose_apply]

include hpart in
theorem R_du_J (b : Fin nJ) :
    vget (mulMV nu nu d.R du) (iget d.J b) = (RJJ *ᵥ (ΔuJ) + rk) b := by
  rw [mulMV, vget_mkV _ (part_lt_J hpart _ (iget_mem b.2)),
    sum_du nx nu solveM solveV d P s dx hpart (fun k => mget d.R (iget d.J b) k)]
  simp only [Pi.add_apply, Matrix.mulVec, dotProduct, toV_mkV_apply, toM_mkM_apply]

include hpart in
theorem S_dx_J (b : Fin nJ) :
    vget (mulMV nu nx d.S dx) (iget d.J b) = (SJ *ᵥ δx) b := by
  rw [mulMV, vget_mkV _ (part_lt_J hpart _ (iget_mem b.2)), sumTo_eq_fin]
  simp only [Matrix.mulVec, dotProduct, toM_mkM_apply, toV]

include hpart in
theorem Bt_lam_J (lam : Vec α) (b : Fin nJ) :
    vget (mulTV nu nx d.B lam) (iget d.J b) = (BJᵀ *ᵥ toV nx lam) b := by
  rw [mulTV, vget_mkV _ (part_lt_J hpart _ (iget_mem b.2)), sumTo_eq_fin]
  simp only [Matrix.mulVec, dotProduct, toM_mkM_apply, toV, Matrix.transpose_apply]

include hpart in
theorem dxn_eq : toV nx dxn = Am *ᵥ δx + (BJ *ᵥ (ΔuJ) + cv) := by
  have := B_du nx nu solveM solveV d P s dx hpart
  simp only [solveStage] at this ⊢
  rw [toV_addV, toV_mulMV, this]

theorem vget_addV {n k : Nat} (x y : Vec α) (hk : k < n) :
    vget (addV n x y) k = vget x k + vget y k := by
  rw [addV, vget_mkV _ hk]

theorem length_addV (n : Nat) (x y : Vec α) : (addV n x y).length = n := by simp [addV, mkV]

include hpart in
/-- free-input stationarity of stage `i`: `(R Δu + S δx + r + Bᵀλ⁺)[j] = 0` for every `j ∈ J`,
    with `λ⁺ = P δx⁺ + s`. -/
theorem stage_stationary (h : SolveOK nx nu solveM solveV d P s) (j : Nat) (hj : j ∈ d.J) :
    vget (addV nu (addV nu (addV nu (mulMV nu nu d.R du) (mulMV nu nx d.S dx)) d.r)
      (mulTV nu nx d.B (addV nx (mulMV nx nx P dxn) s))) j = 0 := by
  obtain ⟨b, hb, rfl⟩ := List.getElem_of_mem hj
  have hjb : d.J[b] = iget d.J b := by
    simp [iget, List.getD_eq_getElem?_getD, List.getElem?_eq_getElem hb]
  rw [hjb]
  have hlt := part_lt_J hpart _ (iget_mem hb)
  rw [vget_addV _ _ hlt, vget_addV _ _ hlt, vget_addV _ _ hlt,
    R_du_J nx nu solveM solveV d P s dx hpart ⟨b, hb⟩,
    S_dx_J nx nu d dx hpart ⟨b, hb⟩,
    Bt_lam_J nx nu d hpart _ ⟨b, hb⟩,
    toV_addV, toV_mulMV, dxn_eq nx nu solveM solveV d P s dx hpart]
  have key := congrFun (ric_stage_stationary Am Pm BJ RJJ SJ cv sv rJ rk
    (toM nJ nx (rec).gain) (toV nJ (rec).e) δx
    (rec_hK nx nu solveM solveV d P s h) (rec_he nx nu solveM solveV d P s h)) ⟨b, hb⟩
  have hr : vget d.r (iget d.J b) = (rJ) ⟨b, hb⟩ := by rw [toV_mkV_apply]
  rw [hr]
  simpa [Pi.add_apply] using key

include hpart in
/-- costate recursion: `P_i δx + s_i = Q δx + Sᵀ Δu + q + Aᵀλ⁺` (uses the symmetry of `P`). -/
theorem stage_costate (hP : SymM nx P) :
    addV nx (mulMV nx nx (ricNextP nx d P (rec)) dx) (ricNextS nx d (rec))
      = addV nx (addV nx (addV nx (mulMV nx nx d.Q dx) (mulTV nx nu d.S du)) d.q)
          (mulTV nx nx d.A (addV nx (mulMV nx nx P dxn) s)) := by
  apply eq_of_toV_eq (length_addV _ _ _) (length_addV _ _ _)
  rw [toV_addV, toV_mulMV, nextP_eq, nextS_eq, toV_addV, toV_addV, toV_addV, toV_mulMV,
    St_du nx nu solveM solveV d P s dx hpart, toV_mulTV, toV_addV, toV_mulMV,
    dxn_eq nx nu solveM solveV d P s dx hpart]
  exact ric_stage_costate Am Pm Qm BJ SJ cv sv (toV nx d.q) sk (toM nJ nx (rec).gain)
    (toV nJ (rec).e) δx hP

end solve

end stage

/-! ### the two loops -/
section loops
variable (nx nu : Nat) (solveM : Mat α → Mat α → Mat α) (solveV : Mat α → Vec α → Vec α)
  (data : Nat → LQRStage α)

/-- default record for out-of-range list lookups -/
def rdflt : RicStage α := ⟨[], [], [], [], [], [], [], []⟩

theorem factorStage_fst (d : LQRStage α) (i : Nat) (P : Mat α) (s : Vec α) :
    (factorStage nx nu solveM solveV d i P s).1 = ricRecord nx nu solveM solveV d P s := by
  unfold factorStage; split_ifs <;> rfl

theorem factorStage_snd_pos (d : LQRStage α) (i : Nat) (hi : i > 0) (P : Mat α) (s : Vec α) :
    (factorStage nx nu solveM solveV d i P s).2 =
      (ricNextP nx d P (ricRecord nx nu solveM solveV d P s),
       ricNextS nx d (ricRecord nx nu solveM solveV d P s)) := by
  unfold factorStage; rw [if_pos hi]

/-- What `factor_masked` leaves behind, stage by stage: every record is the record of its stage
    computed from the cost-to-go it carries, and the cost-to-go of stage `k+1` is the update of
    stage `k+1`'s own. -/
theorem factorLoop_spec : ∀ (i : Nat) (P : Mat α) (s : Vec α) (acc : List (RicStage α)),
    (factorLoop nx nu solveM solveV data i P s acc).length = i + acc.length ∧
    (∀ j, (factorLoop nx nu solveM solveV data i P s acc).getD (i + j) rdflt = acc.getD j rdflt) ∧
    (∀ k < i, (factorLoop nx nu solveM solveV data i P s acc).getD k rdflt =
      ricRecord nx nu solveM solveV (data k)
        ((factorLoop nx nu solveM solveV data i P s acc).getD k rdflt).Pn
        ((factorLoop nx nu solveM solveV data i P s acc).getD k rdflt).sn) ∧
    (i > 0 → ((factorLoop nx nu solveM solveV data i P s acc).getD (i - 1) rdflt).Pn = P ∧
             ((factorLoop nx nu solveM solveV data i P s acc).getD (i - 1) rdflt).sn = s) ∧
    (∀ k, k + 1 < i →
      ((factorLoop nx nu solveM solveV data i P s acc).getD k rdflt).Pn =
        ricNextP nx (data (k + 1))
          ((factorLoop nx nu solveM solveV data i P s acc).getD (k + 1) rdflt).Pn
          ((factorLoop nx nu solveM solveV data i P s acc).getD (k + 1) rdflt) ∧
      ((factorLoop nx nu solveM solveV data i P s acc).getD k rdflt).sn =
        ricNextS nx (data (k + 1))
          ((factorLoop nx nu solveM solveV data i P s acc).getD (k + 1) rdflt)) := by
  intro i
  induction i with
  | zero => intro P s acc; simp [factorLoop]
  | succ i ih =>
    intro P s acc
    simp only [factorLoop]
    obtain ⟨h1, h2, h3, h4, h5⟩ := ih (factorStage nx nu solveM solveV (data i) i P s).2.1
      (factorStage nx nu solveM solveV (data i) i P s).2.2
      ((factorStage nx nu solveM solveV (data i) i P s).1 :: acc)
    generalize hout : factorLoop nx nu solveM solveV data i
      (factorStage nx nu solveM solveV (data i) i P s).2.1
      (factorStage nx nu solveM solveV (data i) i P s).2.2
      ((factorStage nx nu solveM solveV (data i) i P s).1 :: acc) = out at h1 h2 h3 h4 h5 ⊢
    have hi : out.getD i rdflt = ricRecord nx nu solveM solveV (data i) P s := by
      have := h2 0
      simp only [Nat.add_zero, List.getD_cons_zero] at this
      rw [this, factorStage_fst]
    refine ⟨by rw [h1]; simp; omega, ?_, ?_, ?_, ?_⟩
    · intro j
      have := h2 (j + 1)
      rw [show i + 1 + j = i + (j + 1) by omega, this]; simp
    · intro k hk
      by_cases hki : k < i
      · exact h3 k hki
      · have : k = i := by omega
        subst this
        rw [hi]; rfl
    · intro _
      simp only [Nat.add_sub_cancel]
      rw [hi]; exact ⟨rfl, rfl⟩
    · intro k hk
      by_cases hki : k + 1 < i
      · exact h5 k hki
      · have hk1 : k + 1 = i := by omega
        have hipos : i > 0 := by omega
        obtain ⟨a, b⟩ := h4 hipos
        have hk' : i - 1 = k := by omega
        rw [hk'] at a b
        rw [hk1, hi, a, b, factorStage_snd_pos nx nu solveM solveV (data i) i hipos]
        exact ⟨rfl, rfl⟩

theorem solveLoop_spec : ∀ (stages : List (RicStage α)) (i : Nat) (dx : Vec α),
    (solveLoop nx nu data stages i dx).1.length = stages.length ∧
    (solveLoop nx nu data stages i dx).2.length = stages.length + 1 ∧
    (solveLoop nx nu data stages i dx).2.getD 0 [] = dx ∧
    ∀ k < stages.length,
      (solveLoop nx nu data stages i dx).1.getD k [] =
        (solveStage nx nu (data (i + k)) (stages.getD k rdflt)
          ((solveLoop nx nu data stages i dx).2.getD k [])).1 ∧
      (solveLoop nx nu data stages i dx).2.getD (k + 1) [] =
        (solveStage nx nu (data (i + k)) (stages.getD k rdflt)
          ((solveLoop nx nu data stages i dx).2.getD k [])).2 := by
  intro stages
  induction stages with
  | nil => intro i dx; simp [solveLoop]
  | cons r rs ih =>
    intro i dx
    obtain ⟨h1, h2, h3, h4⟩ := ih (i + 1) (solveStage nx nu (data i) r dx).2
    simp only [solveLoop]
    refine ⟨by simp [h1], by simp [h2], by simp, ?_⟩
    intro k hk
    cases k with
    | zero =>
      simp only [Nat.add_zero, List.getD_cons_zero, List.getD_cons_succ, true_and]
      exact h3
    | succ k =>
      have := h4 k (by simpa using hk)
      simp only [List.getD_cons_succ, List.length_cons] at this ⊢
      rw [show i + (k + 1) = i + 1 + k by omega]
      exact this

end loops

/-! ### `factor_masked` + `solve_masked` give a KKT point of the masked QP -/
section final
variable (N nx nu : Nat) (solveM : Mat α → Mat α → Mat α) (solveV : Mat α → Vec α → Vec α)
  (data : Nat → LQRStage α) (QN : Mat α) (qN : Vec α)

/-- record of stage `k` left by `factor_masked` -/
def ricStg (k : Nat) : RicStage α := (factorMasked N nx nu solveM solveV data QN qN).getD k rdflt
/-- `Δu_k` returned by `solve_masked` -/
def ricDu (k : Nat) : Vec α :=
  (solveMasked nx nu data (factorMasked N nx nu solveM solveV data QN qN)).1.getD k []
/-- `Δx_k` of `solve_masked` -/
def ricDx (k : Nat) : Vec α :=
  (solveMasked nx nu data (factorMasked N nx nu solveM solveV data QN qN)).2.getD k []
/-- costate `λ_k = P_k Δx_k + s_k` (`1 ≤ k ≤ N`; `(P_k, s_k)` is what stage `k−1` was computed from) -/
def ricLam (k : Nat) : Vec α :=
  addV nx (mulMV nx nx (ricStg N nx nu solveM solveV data QN qN (k - 1)).Pn
            (ricDx N nx nu solveM solveV data QN qN k))
    (ricStg N nx nu solveM solveV data QN qN (k - 1)).sn

theorem mulMV_zero_addM (M : Mat α) (x : Vec α) :
    mulMV nx nx (addM nx nx (mkM nx nx fun _ _ => 0) M) x = mulMV nx nx M x := by
  apply eq_of_toV_eq (n := nx) (by simp [mulMV, mkV]) (by simp [mulMV, mkV])
  rw [toV_mulMV, toV_mulMV, toM_addM]
  congr 1
  ext a b
  rw [Matrix.add_apply, toM_mkM_apply, zero_add]

theorem symM_zero_addM (M : Mat α) (h : SymM nx M) :
    SymM nx (addM nx nx (mkM nx nx fun _ _ => 0) M) := by
  unfold SymM at *
  have : toM nx nx (addM nx nx (mkM nx nx fun _ _ => (0 : α)) M) = toM nx nx M := by
    ext a b; rw [toM_addM, Matrix.add_apply, toM_mkM_apply, zero_add]
  rw [this, h]

local notation "STG" => ricStg N nx nu solveM solveV data QN qN
local notation "DU" => ricDu N nx nu solveM solveV data QN qN
local notation "DX" => ricDx N nx nu solveM solveV data QN qN
local notation "LAM" => ricLam N nx nu solveM solveV data QN qN

variable (hpart : ∀ i < N, ((data i).J ++ (data i).K).Perm (List.range nu))
  (hQ : ∀ i < N, SymM nx (data i).Q) (hQN : SymM nx QN)
  (hR : ∀ i < N, ∀ a < nu, ∀ b < nu, mget (data i).R a b = mget (data i).R b a)
  (hsolve : ∀ i < N, SolveOK nx nu solveM solveV (data i)
    (ricStg N nx nu solveM solveV data QN qN i).Pn (ricStg N nx nu solveM solveV data QN qN i).sn)

theorem ric_records (i : Nat) (hi : i < N) :
    STG i = ricRecord nx nu solveM solveV (data i) (STG i).Pn (STG i).sn :=
  (factorLoop_spec nx nu solveM solveV data N _ qN []).2.2.1 i hi

theorem ric_top (hN : N > 0) :
    (STG (N - 1)).Pn = addM nx nx (mkM nx nx fun _ _ => 0) QN ∧ (STG (N - 1)).sn = qN :=
  (factorLoop_spec nx nu solveM solveV data N _ qN []).2.2.2.1 hN

theorem ric_chain (k : Nat) (hk : k + 1 < N) :
    (STG k).Pn = ricNextP nx (data (k + 1)) (STG (k + 1)).Pn (STG (k + 1)) ∧
    (STG k).sn = ricNextS nx (data (k + 1)) (STG (k + 1)) :=
  (factorLoop_spec nx nu solveM solveV data N _ qN []).2.2.2.2 k hk

theorem ric_len : (factorMasked N nx nu solveM solveV data QN qN).length = N := by
  have := (factorLoop_spec nx nu solveM solveV data N
    (addM nx nx (mkM nx nx fun _ _ => 0) QN) qN []).1
  simpa [factorMasked] using this

theorem ric_solve (i : Nat) (hi : i < N) :
    DU i = (solveStage nx nu (data i) (STG i) (DX i)).1 ∧
    DX (i + 1) = (solveStage nx nu (data i) (STG i) (DX i)).2 := by
  have h := (solveLoop_spec nx nu data (factorMasked N nx nu solveM solveV data QN qN) 0
    (mkV nx fun _ => 0)).2.2.2 i (by rw [ric_len]; exact hi)
  simpa [ricDu, ricDx, ricStg, solveMasked] using h

theorem ric_dx0 : DX 0 = mkV nx fun _ => 0 :=
  (solveLoop_spec nx nu data (factorMasked N nx nu solveM solveV data QN qN) 0
    (mkV nx fun _ => 0)).2.2.1

include hpart hQ hQN hR hsolve in
theorem ric_symm : ∀ (m k : Nat), k + m + 1 = N → SymM nx (STG k).Pn := by
  intro m
  induction m with
  | zero =>
    intro k hk
    have hk' : k = N - 1 := by omega
    subst hk'
    rw [(ric_top N nx nu solveM solveV data QN qN (by omega)).1]
    exact symM_zero_addM nx QN hQN
  | succ m ih =>
    intro k hk
    have ih' := ih (k + 1) (by omega)
    have hs := hsolve (k + 1) (by omega)
    rw [(ric_chain N nx nu solveM solveV data QN qN k (by omega)).1]
    obtain ⟨Pi, si, hPi, hsi, hrec⟩ : ∃ Pi si, (STG (k + 1)).Pn = Pi ∧ (STG (k + 1)).sn = si ∧
        STG (k + 1) = ricRecord nx nu solveM solveV (data (k + 1)) Pi si :=
      ⟨_, _, rfl, rfl, ric_records N nx nu solveM solveV data QN qN (k + 1) (by omega)⟩
    rw [hPi] at ih' hs ⊢
    rw [hsi] at hs
    rw [hrec]
    exact nextP_symm nx nu solveM solveV (data (k + 1)) Pi si hs ih'
      (hQ (k + 1) (by omega)) (hR (k + 1) (by omega))
      (part_lt_J (hpart (k + 1) (by omega)))

include hpart hsolve in
/-- free-input stationarity at every stage -/
theorem ric_stationary (i : Nat) (hi : i < N) (j : Nat) (hj : j ∈ (data i).J) :
    vget (addV nu (addV nu (addV nu (mulMV nu nu (data i).R (DU i)) (mulMV nu nx (data i).S (DX i)))
      (data i).r) (mulTV nu nx (data i).B (LAM (i + 1)))) j = 0 := by
  obtain ⟨a, b⟩ := ric_solve N nx nu solveM solveV data QN qN i hi
  have hs := hsolve i hi
  obtain ⟨Pi, si, hPi, hsi, hrec⟩ : ∃ Pi si, (STG i).Pn = Pi ∧ (STG i).sn = si ∧
      STG i = ricRecord nx nu solveM solveV (data i) Pi si :=
    ⟨_, _, rfl, rfl, ric_records N nx nu solveM solveV data QN qN i hi⟩
  unfold ricLam
  simp only [Nat.add_sub_cancel]
  rw [hPi, hsi] at hs ⊢
  rw [a, b, hrec]
  exact stage_stationary nx nu solveM solveV (data i) Pi si (DX i) (hpart i hi) hs j hj

include hpart hQ hQN hR hsolve in
/-- costate recursion at the interior stages -/
theorem ric_costate (i : Nat) (h0 : 0 < i) (hi : i < N) :
    LAM i = addV nx (addV nx (addV nx (mulMV nx nx (data i).Q (DX i))
        (mulTV nx nu (data i).S (DU i))) (data i).q) (mulTV nx nx (data i).A (LAM (i + 1))) := by
  obtain ⟨a, b⟩ := ric_solve N nx nu solveM solveV data QN qN i hi
  have hrec := ric_records N nx nu solveM solveV data QN qN i hi
  have hch := ric_chain N nx nu solveM solveV data QN qN (i - 1) (by omega)
  have hsym := ric_symm N nx nu solveM solveV data QN qN hpart hQ hQN hR hsolve (N - 1 - i) i
    (by omega)
  rw [show i - 1 + 1 = i by omega] at hch
  clear hrec
  obtain ⟨Pi, si, hPi, hsi, hrec⟩ : ∃ Pi si, (STG i).Pn = Pi ∧ (STG i).sn = si ∧
      STG i = ricRecord nx nu solveM solveV (data i) Pi si :=
    ⟨_, _, rfl, rfl, ric_records N nx nu solveM solveV data QN qN i hi⟩
  unfold ricLam
  simp only [Nat.add_sub_cancel]
  rw [hch.1, hch.2, hPi, hsi, a, b, hrec]
  rw [hPi] at hsym
  exact stage_costate nx nu solveM solveV (data i) Pi si (DX i) (hpart i hi) hsym

theorem ric_terminal (hN : N > 0) :
    LAM N = addV nx (mulMV nx nx QN (DX N)) qN := by
  obtain ⟨a, b⟩ := ric_top N nx nu solveM solveV data QN qN hN
  unfold ricLam
  rw [a, b, mulMV_zero_addM]

include hpart in
/-- fixed components keep their prescribed values -/
theorem ric_fixed (i : Nat) (hi : i < N) (k : Nat) (hk : k ∈ (data i).K) :
    vget (DU i) k = vget (data i).u k := by
  obtain ⟨a, _⟩ := ric_solve N nx nu solveM solveV data QN qN i hi
  rw [a]
  simp only [solveStage]
  exact vget_scatter_notin nu _ _ _ k (part_lt_K (hpart i hi) k hk)
    (part_K_notin_J (hpart i hi) k hk)

/-- linearised dynamics along the returned step -/
theorem ric_dynamics (i : Nat) (hi : i < N) :
    DX (i + 1) = addV nx (mulMV nx nx (data i).A (DX i)) (mulMV nx nu (data i).B (DU i)) := by
  obtain ⟨a, b⟩ := ric_solve N nx nu solveM solveV data QN qN i hi
  rw [b, a]; rfl

end final

end Alpaqa.C12
