/-
  Size invariant of the PANOC loop model (`Model/Panoc.lean`).

  In the C++ every vector of an `Iterate`, `q`, `x`, `y`, `err_z` is an Eigen vector of fixed size
  (`n` or `m`) that is written in place; the list model only sees sizes through the length lemmas of
  the vector operations and through size contracts of the oracles:

  * `ProblemSized n m P` — the problem oracles return vectors of the right size when called with
    vectors of the right size;
  * `DirSized n dir d₀`  — a *successful* `apply` of the direction provider leaves a `q` of size `n`
    (a failing one may leave anything: `q` is then not used), **in every provider state PANOC can
    reach** from the initial state `d₀` (`DirReach`: `initialize`, then any sequence of `apply` /
    `update` / `changed_γ` / `reset` / `initialize` with `n`-sized arguments).  The contract is not
    demanded of unreachable states: the list model truncates (`zipWith`) where the C++ would assert
    — e.g. the L-BFGS model resized to 2 and applied at `n = 3` returns a 2-vector —, so a contract
    over *all* states is false for the shipped providers.  That the loop only ever calls the
    provider with `n`-sized vectors, from reachable states, is part of `run_sized`
    (`iterBody_sized`, `busyHeads_ok`).

  Under these, on a well-formed call (`x₀` of size `n`; `y`, `Σ`, `err_z` of size `m`): the current
  iterate at every loop head has all its vectors of the right size (`Sized`), and the returned
  `x`, `y`, `err_z` have sizes `n`, `m`, `m` (`run_sized`).  Used by `Props/C05` (the prox contract
  is only available on well-sized vectors) and `Props/C01_Alm` (the inner-solver contract is stated
  for well-formed calls).
-/
import Alpaqa.Proofs.PanocDescent

namespace Alpaqa.Panoc
open Alpaqa Alpaqa.Gen
set_option linter.unusedSectionVars false
set_option linter.unusedVariables false

variable {α D : Type} [Field α] [LinearOrder α] [IsStrictOrderedRing α] [RealLike α]

/-- Size contract of the problem oracles (`n` variables, `m` constraints). -/
structure ProblemSized (n m : Nat) (P : Problem α) : Prop where
  pgp_grad : ∀ x, x.length = n → (P.psiGradPsi x).2.1.length = n
  pgp_work : ∀ x, x.length = n → (P.psiGradPsi x).2.2.length = m
  psi_yhat : ∀ x, x.length = n → (P.psi x).2.length = m
  gradPsi : ∀ x, x.length = n → (P.gradPsi x).length = n
  gradL : ∀ x y, x.length = n → y.length = m → (P.gradL x y).length = n
  prox_xhat : ∀ γ x g, x.length = n → g.length = n → (P.prox γ x g).2.1.length = n
  prox_p : ∀ γ x g, x.length = n → g.length = n → (P.prox γ x g).2.2.length = n

/-- **Provider states PANOC can reach** from the initial state `d₀` on a problem of dimension `n`:
    `initialize` (on `d₀`, or again on a reached state: an interrupted first iteration), then any
    sequence of `apply`, `update`, `changed_γ`, `reset` — every vector argument of size `n` (the
    previous content of `q` handed to `apply` is arbitrary: never-written storage). -/
inductive DirReach (n : Nat) (dir : Direction D α) (d0 : D) : D → Prop
  | init (γ : α) (x xh p g : Vec α) : x.length = n → xh.length = n → p.length = n → g.length = n →
      DirReach n dir d0 (dir.init d0 γ x xh p g)
  | reinit {d : D} (γ : α) (x xh p g : Vec α) : DirReach n dir d0 d → x.length = n →
      xh.length = n → p.length = n → g.length = n → DirReach n dir d0 (dir.init d γ x xh p g)
  | apply {d : D} (γ : α) (x xh p g q : Vec α) : DirReach n dir d0 d → x.length = n →
      xh.length = n → p.length = n → g.length = n → DirReach n dir d0 (dir.apply d γ x xh p g q).1
  | update {d : D} (γk γn : α) (xk xn pk pn gk gn : Vec α) : DirReach n dir d0 d →
      xk.length = n → xn.length = n → pk.length = n → pn.length = n → gk.length = n →
      gn.length = n → DirReach n dir d0 (dir.update d γk γn xk xn pk pn gk gn).1
  | changedGamma {d : D} (γ old : α) : DirReach n dir d0 d →
      DirReach n dir d0 (dir.changedGamma d γ old)
  | reset {d : D} : DirReach n dir d0 d → DirReach n dir d0 (dir.reset d)

/-- The provider state of a loop state with iteration counter `k`: still the initial one (only
    possible while `k = 0`: `initialize` is the first call of iteration 0), or reached. -/
def DirOK (n : Nat) (dir : Direction D α) (d0 : D) (k : Nat) (d : D) : Prop :=
  (k = 0 ∧ d = d0) ∨ DirReach n dir d0 d

/-- Size contract of the direction provider: in every reachable state a successful `apply` on
    well-sized arguments leaves a `q` of size `n`. -/
def DirSized (n : Nat) (dir : Direction D α) (d0 : D) : Prop :=
  ∀ d, DirReach n dir d0 d → ∀ γ x xh p g q, x.length = n → xh.length = n → p.length = n →
    g.length = n → (dir.apply d γ x xh p g q).2.1 = true → (dir.apply d γ x xh p g q).2.2.length = n

/-- A provider that meets the contract in *every* state (the toy providers of the examples) meets
    it in the reachable ones. -/
theorem DirSized.of_all {n : Nat} {dir : Direction D α} (d0 : D)
    (h : ∀ d γ x xh p g q, x.length = n → xh.length = n → p.length = n → g.length = n →
      (dir.apply d γ x xh p g q).2.1 = true → (dir.apply d γ x xh p g q).2.2.length = n) :
    DirSized n dir d0 := fun d _ => h d

/-- `x` and `∇ψ(x)` of an iterate have size `n`. -/
def XG (n : Nat) (i : Iterate α) : Prop := i.x.length = n ∧ i.gradPsi.length = n

/-- All vectors of an iterate that the algorithm reads have the right size. -/
structure Sized (n m : Nat) (i : Iterate α) : Prop where
  x : i.x.length = n
  g : i.gradPsi.length = n
  xhat : i.xhat.length = n
  p : i.p.length = n
  yhat : i.yhat.length = m
  gh : i.haveGradHat = true → i.gradPsiHat.length = n

theorem Sized.xg {n m : Nat} {i : Iterate α} (h : Sized n m i) : XG n i := ⟨h.x, h.g⟩

theorem vadd_length (a b : Vec α) : (vadd a b).length = min a.length b.length := by
  simp [vadd, vzip]
theorem vsub_length (a b : Vec α) : (vsub a b).length = min a.length b.length := by
  simp [vsub, vzip]
theorem vdiv_length (a b : Vec α) : (vdiv a b).length = min a.length b.length := by
  simp [vdiv, vzip]
theorem smul_length (c : α) (a : Vec α) : (smul c a).length = a.length := by
  simp [smul]

theorem sized_evalStep {n m : Nat} {P : Problem α} (hP : ProblemSized n m P) (pr : Params α)
    (i : Iterate α) (h : XG n i) : Sized n m (evalPsiHat P pr (evalProxGradStep P i)) := by
  have hx : (P.prox i.gamma i.x i.gradPsi).2.1.length = n := hP.prox_xhat _ _ _ h.1 h.2
  have hp : (P.prox i.gamma i.x i.gradPsi).2.2.length = n := hP.prox_p _ _ _ h.1 h.2
  unfold evalPsiHat evalProxGradStep
  by_cases he : pr.eagerGradientEval
  · simp only [he, if_true]
    exact ⟨h.1, h.2, hx, hp, hP.pgp_work _ hx, fun _ => hP.pgp_grad _ hx⟩
  · simp only [he, Bool.false_eq_true, if_false]
    exact ⟨h.1, h.2, hx, hp, hP.psi_yhat _ hx, fun hc => by simp at hc⟩

theorem sized_evalGradPsiHat {n m : Nat} {P : Problem α} (hP : ProblemSized n m P) (i : Iterate α)
    (h : Sized n m i) : Sized n m (evalGradPsiHat P i) :=
  ⟨h.x, h.g, h.xhat, h.p, h.yhat, fun _ => hP.gradL _ _ h.xhat h.yhat⟩

theorem sized_of_core {n m : Nat} {a b : Iterate α} (hc : core a = core b) (hb : Sized n m b)
    (hy : a.yhat.length = m)
    (hgh : a.haveGradHat = true → a.gradPsiHat.length = n) : Sized n m a :=
  ⟨by rw [x_of_core hc]; exact hb.x, by rw [gradPsi_of_core hc]; exact hb.g,
   by rw [xhat_of_core hc]; exact hb.xhat, by rw [p_of_core hc]; exact hb.p,
   hy, hgh⟩

theorem takeSafeStep_sized {n m : Nat} {P : Problem α} (hP : ProblemSized n m P) (c nx : Iterate α)
    (t : Nat) (h : Sized n m c) :
    Sized n m (takeSafeStep P c nx t).1 ∧ XG n (takeSafeStep P c nx t).2.1 := by
  unfold takeSafeStep
  by_cases hh : c.haveGradHat = true
  · simp only [hh, Bool.not_true, Bool.false_eq_true, if_false]
    exact ⟨⟨h.x, h.g, h.xhat, h.p, h.yhat, fun hc => by simp at hc⟩, h.xhat, h.gh hh⟩
  · have hh' : c.haveGradHat = false := by simpa using hh
    simp only [hh', Bool.not_false, if_true]
    exact ⟨⟨h.x, h.g, h.xhat, h.p, h.yhat, fun hc => by simp at hc⟩, h.xhat,
      hP.gradL _ _ h.xhat h.yhat⟩

theorem takeAcceleratedStep_xg {n m : Nat} {P : Problem α} (hP : ProblemSized n m P)
    (c nx : Iterate α) (q : Vec α) (tau : α) (h : Sized n m c) (hq : q.length = n) :
    XG n (takeAcceleratedStep P c nx q tau) := by
  have hx : (if tau == 1 then vadd c.x q
      else vadd (vadd c.x (smul (1 - tau) c.p)) (smul tau q)).length = n := by
    split_ifs
    · rw [vadd_length, h.x, hq]; exact Nat.min_self n
    · rw [vadd_length, vadd_length, smul_length, smul_length, h.x, h.p, hq]; simp
  unfold takeAcceleratedStep evalPsiGradPsi
  exact ⟨hx, hP.pgp_grad _ hx⟩

/-! ### Line search -/

/-- Size invariant of the line-search state. -/
structure LSSized (n m : Nat) (q : Vec α) (tauInit : α) (s : LS α D) : Prop where
  curr : Sized n m s.curr
  /-- a candidate that will not be recomputed has `x`, `∇ψ(x)` of size `n` -/
  next : s.tau = s.tauPrev → XG n s.next
  /-- without a direction (`τ_init = 0`) `τ` stays `0`: `q` is never read -/
  tau0 : tauInit = 0 → s.tau = 0

theorem lsRecompute_sized {n m : Nat} {P : Problem α} (hP : ProblemSized n m P) (q : Vec α)
    (tauInit : α) (hq : tauInit ≠ 0 → q.length = n) (s : LS α D) (h : LSSized n m q tauInit s) :
    Sized n m (lsRecompute P q s).curr ∧ XG n (lsRecompute P q s).next := by
  unfold lsRecompute
  split_ifs with h1 h2
  · have hτ : s.tau ≠ 0 := by simpa using h2
    exact ⟨h.curr, takeAcceleratedStep_xg hP _ _ _ _ h.curr (hq (fun h0 => hτ (h.tau0 h0)))⟩
  · exact takeSafeStep_sized hP _ _ _ h.curr
  · exact ⟨h.curr, h.next (by simpa using h1)⟩

/-- One pass of the line-search body keeps the invariant; on `break` the candidate is fully sized. -/
theorem lsPass_sized {n m : Nat} {P : Problem α} (hP : ProblemSized n m P) (dir : Direction D α)
    (pr : Params α) (q : Vec α) (tauInit : α) (hq : tauInit ≠ 0 → q.length = n) (s : LS α D)
    (h : LSSized n m q tauInit s) :
    match lsPass P dir pr q tauInit s with
    | .done s' => Sized n m s'.curr ∧ Sized n m s'.next
    | .again s' => LSSized n m q tauInit s' := by
  have h1 := lsRecompute_sized hP q tauInit hq s h
  have hτ1 : (lsRecompute P q s).tau = s.tau := (lsRecompute_prev P q s).2
  have hes := evalStep_fields P pr (lsRecompute P q s).next
  have hs2 : Sized n m (evalPsiHat P pr (evalProxGradStep P (lsRecompute P q s).next)) :=
    sized_evalStep hP pr _ h1.2
  unfold lsPass
  simp only []
  split_ifs with hfail hqub htq hls hmc
  · exact ⟨h1.1, fun _ => h1.2, fun _ => rfl⟩
  · refine ⟨h1.1, fun _ => ⟨hs2.x, hs2.g⟩, fun h0 => h0⟩
  · refine ⟨h1.1, fun _ => ⟨hs2.x, hs2.g⟩, fun h0 => ?_⟩
    show (lsRecompute P q s).tau = 0
    rw [hτ1]; exact h.tau0 h0
  · have hsame := lsUpdateInCandidate_same dir
      { lsRecompute P q s with
        next := evalPsiHat P pr (evalProxGradStep P (lsRecompute P q s).next),
        tick := (lsRecompute P q s).tick + 2 }
    refine ⟨by show Sized n m _; rw [hsame.1]; exact h1.1,
      fun _ => by show XG n _; rw [hsame.2.1]; exact hs2.xg, fun _ => rfl⟩
  · have hsame := lsUpdateInCandidate_same dir
      { lsRecompute P q s with
        next := evalPsiHat P pr (evalProxGradStep P (lsRecompute P q s).next),
        tick := (lsRecompute P q s).tick + 2 }
    have hupd := lsUpdateInCandidate_tau dir
      { lsRecompute P q s with
        next := evalPsiHat P pr (evalProxGradStep P (lsRecompute P q s).next),
        tick := (lsRecompute P q s).tick + 2 }
    refine ⟨by show Sized n m _; rw [hsame.1]; exact h1.1,
      fun _ => by show XG n _; rw [hsame.2.1]; exact hs2.xg, fun h0 => ?_⟩
    simp only []
    rw [hupd.1]
    show (lsRecompute P q s).tau * pr.lsUpdateFactor = 0
    rw [hτ1, h.tau0 h0, zero_mul]
  · have hsame := lsUpdateInCandidate_same dir
      { lsRecompute P q s with
        next := evalPsiHat P pr (evalProxGradStep P (lsRecompute P q s).next),
        tick := (lsRecompute P q s).tick + 2 }
    exact ⟨by rw [hsame.1]; exact h1.1, by rw [hsame.2.1]; exact hs2⟩

/-- The whole line search: `curr` stays sized; if the loop was left through `break` the candidate is
    sized. -/
theorem lineSearch_sized {n m : Nat} {P : Problem α} (hP : ProblemSized n m P) (dir : Direction D α)
    (pr : Params α) (stop : Nat → Bool) (q : Vec α) (tauInit : α) (hq : tauInit ≠ 0 → q.length = n)
    (fuel : Nat) (s : LS α D) (h : LSSized n m q tauInit s) (hf : s.fuelOut = false) :
    Sized n m (lineSearch P dir pr stop q tauInit fuel s).curr ∧
    ((lineSearch P dir pr stop q tauInit fuel s).fuelOut = false →
      stop (lineSearch P dir pr stop q tauInit fuel s).tick = false →
      Sized n m (lineSearch P dir pr stop q tauInit fuel s).next) := by
  induction fuel generalizing s with
  | zero => simp [lineSearch, h.curr]
  | succ f ih =>
    unfold lineSearch
    by_cases hst : stop s.tick
    · simp only [hst, if_true]
      exact ⟨h.curr, fun _ h2 => absurd h2 (by decide)⟩
    · simp only [hst, Bool.false_eq_true, if_false]
      have hp := lsPass_sized hP dir pr q tauInit hq s h
      have hfo := lsPass_fuelOut P dir pr q tauInit s
      cases hpass : lsPass P dir pr q tauInit s with
      | done s' =>
        rw [hpass] at hp
        exact ⟨hp.1, fun _ _ => hp.2⟩
      | again s' =>
        rw [hpass] at hp hfo
        exact ih s' hp (by have : s'.fuelOut = s.fuelOut := hfo
                           rw [this]; exact hf)
where
  lsPass_fuelOut (P : Problem α) (dir : Direction D α) (pr : Params α) (q : Vec α) (tauInit : α)
      (s : LS α D) : (lsPass P dir pr q tauInit s).st.fuelOut = s.fuelOut := by
    have h1 := (lsRecompute_next P q s).2.2.1
    unfold lsPass
    simp only []
    split_ifs <;> simp only [Pass.st] <;>
      first
      | exact h1
      | (rw [(lsUpdateInCandidate_same dir _).2.2]; exact h1)

/-! ### Direction stage, update stage, one pass of the loop body -/

/-- the provider state `initialize` (at `k = 0`) leaves, or the current one -/
theorem directionStage_dt_reach {n m : Nat} (dir : Direction D α) (d0 : D) (s : St α D)
    (h : Sized n m s.curr) (hd : DirOK n dir d0 s.k s.d) :
    DirReach n dir d0 (if s.k == 0 then
      (dir.init s.d s.curr.gamma s.curr.x s.curr.xhat s.curr.p s.curr.gradPsi, s.tick + 1)
      else (s.d, s.tick)).1 := by
  split_ifs with hk
  · rcases hd with ⟨_, h0⟩ | hr
    · rw [h0]; exact DirReach.init _ _ _ _ _ h.x h.xhat h.p h.g
    · exact DirReach.reinit _ _ _ _ _ hr h.x h.xhat h.p h.g
  · rcases hd with ⟨h0, _⟩ | hr
    · exact absurd (by simpa using h0) hk
    · exact hr

/-- The direction stage calls the provider on reachable states with `n`-sized vectors, and leaves a
    reachable state. -/
theorem directionStage_reach {n m : Nat} (dir : Direction D α) (d0 : D) (s : St α D)
    (h : Sized n m s.curr) (hd : DirOK n dir d0 s.k s.d) :
    DirReach n dir d0 (directionStage dir s).1 := by
  have hdt := directionStage_dt_reach dir d0 s h hd
  unfold directionStage
  simp only []
  by_cases hk : (s.k == 0) = true
  · simp only [hk, if_true] at hdt ⊢
    split_ifs <;> first
      | exact DirReach.reset (DirReach.apply _ _ _ _ _ _ hdt h.x h.xhat h.p h.g)
      | exact DirReach.apply _ _ _ _ _ _ hdt h.x h.xhat h.p h.g
      | exact hdt
  · simp only [hk, Bool.false_eq_true, if_false] at hdt ⊢
    split_ifs <;> first
      | exact DirReach.reset (DirReach.apply _ _ _ _ _ _ hdt h.x h.xhat h.p h.g)
      | exact DirReach.apply _ _ _ _ _ _ hdt h.x h.xhat h.p h.g
      | exact hdt

theorem directionStage_q {n m : Nat} (dir : Direction D α) (d0 : D) (hD : DirSized n dir d0)
    (s : St α D) (h : Sized n m s.curr) (hd : DirOK n dir d0 s.k s.d) :
    (directionStage dir s).2.2.2.1 ≠ 0 → (directionStage dir s).2.2.1.length = n := by
  have hdt := directionStage_dt_reach dir d0 s h hd
  unfold directionStage
  simp only []
  by_cases hk : (s.k == 0) = true
  · simp only [hk, if_true] at hdt ⊢
    split_ifs with h2 h3 h4 h5 <;> simp only [] <;> intro hne
    all_goals first
      | exact absurd rfl hne
      | (apply hD _ hdt _ _ _ _ _ _ h.x h.xhat h.p h.g
         by_contra hc
         simp_all)
      | simp_all
  · simp only [hk, Bool.false_eq_true, if_false] at hdt ⊢
    split_ifs with h2 h3 h4 h5 <;> simp only [] <;> intro hne
    all_goals first
      | exact absurd rfl hne
      | (apply hD _ hdt _ _ _ _ _ _ h.x h.xhat h.p h.g
         by_contra hc
         simp_all)
      | simp_all

/-! ### the provider state through the line search and the update stage -/

theorem lsRecompute_d (P : Problem α) (q : Vec α) (s : LS α D) : (lsRecompute P q s).d = s.d := by
  unfold lsRecompute
  split_ifs <;> rfl

theorem lsUpdateInCandidate_reach {n m : Nat} (dir : Direction D α) (d0 : D) (s : LS α D)
    (hc : Sized n m s.curr) (hn : Sized n m s.next) (hd : DirReach n dir d0 s.d) :
    DirReach n dir d0 (lsUpdateInCandidate dir s).d := by
  unfold lsUpdateInCandidate
  split_ifs
  · exact DirReach.update _ _ _ _ _ _ _ _ hd hc.x hn.x hc.p hn.p hc.g hn.g
  · exact hd

/-- One pass of the line-search body calls the provider (`reset`, `update` in the candidate) only
    on reachable states with `n`-sized vectors. -/
theorem lsPass_reach {n m : Nat} {P : Problem α} (hP : ProblemSized n m P) (dir : Direction D α)
    (d0 : D) (pr : Params α) (q : Vec α) (tauInit : α) (hq : tauInit ≠ 0 → q.length = n) (s : LS α D)
    (h : LSSized n m q tauInit s) (hd : DirReach n dir d0 s.d) :
    DirReach n dir d0 (lsPass P dir pr q tauInit s).st.d := by
  have h1 := lsRecompute_sized hP q tauInit hq s h
  have hd1 : DirReach n dir d0 (lsRecompute P q s).d := by rw [lsRecompute_d]; exact hd
  have hs2 : Sized n m (evalPsiHat P pr (evalProxGradStep P (lsRecompute P q s).next)) :=
    sized_evalStep hP pr _ h1.2
  have hu := lsUpdateInCandidate_reach dir d0
    { lsRecompute P q s with
      next := evalPsiHat P pr (evalProxGradStep P (lsRecompute P q s).next),
      tick := (lsRecompute P q s).tick + 2 } h1.1 hs2 hd1
  unfold lsPass
  simp only []
  split_ifs <;> simp only [Pass.st] <;> first
    | exact DirReach.reset hd1
    | exact hd1
    | exact hu

theorem lineSearch_reach {n m : Nat} {P : Problem α} (hP : ProblemSized n m P) (dir : Direction D α)
    (d0 : D) (pr : Params α) (stop : Nat → Bool) (q : Vec α) (tauInit : α)
    (hq : tauInit ≠ 0 → q.length = n) (fuel : Nat) (s : LS α D) (h : LSSized n m q tauInit s)
    (hd : DirReach n dir d0 s.d) :
    DirReach n dir d0 (lineSearch P dir pr stop q tauInit fuel s).d := by
  induction fuel generalizing s with
  | zero => simpa [lineSearch] using hd
  | succ f ih =>
    unfold lineSearch
    by_cases hst : stop s.tick
    · simp only [hst, if_true]; exact hd
    · simp only [hst, Bool.false_eq_true, if_false]
      have hp := lsPass_sized hP dir pr q tauInit hq s h
      have hr := lsPass_reach hP dir d0 pr q tauInit hq s h hd
      cases hpass : lsPass P dir pr q tauInit s with
      | done s' => rw [hpass] at hr; exact hr
      | again s' =>
        rw [hpass] at hp hr
        exact ih s' hp hr

theorem updateStage_sized {n m : Nat} {P : Problem α} (hP : ProblemSized n m P) (dir : Direction D α)
    (pr : Params α) (ls : LS α D) (h : Sized n m ls.curr) :
    Sized n m (updateStage P dir pr ls).1 := by
  rcases updateStage_curr P dir pr ls with hu | ⟨_, _, hu⟩
  · rw [hu]; exact h
  · rw [hu]
    unfold evalProxGradStep
    exact ⟨h.x, h.g, hP.prox_xhat _ _ _ h.x h.g, hP.prox_p _ _ _ h.x h.g, h.yhat, h.gh⟩

/-- The update stage (`changed_γ`, `update`) calls the provider on reachable states with `n`-sized
    vectors. -/
theorem updateStage_reach {n m : Nat} {P : Problem α} (hP : ProblemSized n m P) (dir : Direction D α)
    (d0 : D) (pr : Params α) (ls : LS α D) (hc : Sized n m ls.curr) (hn : Sized n m ls.next)
    (hd : DirReach n dir d0 ls.d) : DirReach n dir d0 (updateStage P dir pr ls).2.1 := by
  unfold updateStage
  split_ifs with h1 h2 h3
  · refine DirReach.update _ _ _ _ _ _ _ _ (DirReach.changedGamma _ _ hd) ?_ hn.x ?_ hn.p ?_ hn.g
    · exact hc.x
    · unfold evalProxGradStep; exact hP.prox_p _ _ _ hc.x hc.g
    · exact hc.g
  · exact DirReach.update _ _ _ _ _ _ _ _ (DirReach.changedGamma _ _ hd) hc.x hn.x hc.p hn.p hc.g hn.g
  · exact DirReach.update _ _ _ _ _ _ _ _ hd hc.x hn.x hc.p hn.p hc.g hn.g
  · exact hd

theorem iterLs_init_sized {n m : Nat} (dir : Direction D α) (pr : Params α) (s : St α D)
    (h : Sized n m s.curr) :
    LSSized n m (directionStage dir s).2.2.1 (directionStage dir s).2.2.2.1
      ({ curr := s.curr, next := { s.next with gamma := s.curr.gamma, L := s.curr.L },
         d := (directionStage dir s).1, tick := (directionStage dir s).2.1,
         tau := (directionStage dir s).2.2.2.1, tauPrev := -1, updInLs := pr.updateDirInCandidate,
         updated := false, dirRejected := true, lsBacktracks := 0, stepsizeBacktracks := 0,
         lbfgsRejected := 0 } : LS α D) := by
  refine ⟨h, fun he => ?_, fun h0 => h0⟩
  exfalso
  have he' : (directionStage dir s).2.2.2.1 = (-1 : α) := he
  rcases directionStage_tau dir s with h0 | h0 <;> rw [h0] at he' <;> norm_num at he'

/-- What one pass of the loop body leaves as the current iterate is sized — unless the model's
    line-search fuel ran out. -/
theorem iterBody_sized {n m : Nat} {P : Problem α} (hP : ProblemSized n m P) (dir : Direction D α)
    (d0 : D) (hD : DirSized n dir d0) (pr : Params α) (stop : Nat → Bool) (s : St α D) (eps : α)
    (h : Sized n m s.curr) (hd : DirOK n dir d0 s.k s.d)
    (hf : (iterLs P dir pr stop s).fuelOut = false) :
    Sized n m (iterBody P dir pr stop s eps).curr ∧
    (stop (iterLs P dir pr stop s).tick = false → Sized n m (iterLs P dir pr stop s).next) := by
  have hls := lineSearch_sized hP dir pr stop (directionStage dir s).2.2.1
    (directionStage dir s).2.2.2.1 (directionStage_q dir d0 hD s h hd) pr.lsFuel _
    (iterLs_init_sized dir pr s h) rfl
  have hls' : Sized n m (iterLs P dir pr stop s).curr ∧
      ((iterLs P dir pr stop s).fuelOut = false → stop (iterLs P dir pr stop s).tick = false →
        Sized n m (iterLs P dir pr stop s).next) := hls
  refine ⟨?_, fun hst => hls'.2 hf hst⟩
  by_cases hst : stop (iterLs P dir pr stop s).tick = true
  · rw [(iterBody_interrupted P dir pr stop s eps hst).2.2.2.1]; exact hls'.1
  · have hst' : stop (iterLs P dir pr stop s).tick = false := by simpa using hst
    rw [(iterBody_advanced P dir pr stop s eps hst').2.2.1]
    exact hls'.2 hf hst'

/-- … and the provider state it leaves is reachable: every provider call of the pass was made on a
    reachable state with `n`-sized vectors. -/
theorem iterBody_reach {n m : Nat} {P : Problem α} (hP : ProblemSized n m P) (dir : Direction D α)
    (d0 : D) (hD : DirSized n dir d0) (pr : Params α) (stop : Nat → Bool) (s : St α D) (eps : α)
    (h : Sized n m s.curr) (hd : DirOK n dir d0 s.k s.d)
    (hf : (iterLs P dir pr stop s).fuelOut = false) :
    DirReach n dir d0 (iterBody P dir pr stop s eps).d := by
  have hq := directionStage_q dir d0 hD s h hd
  have hinit := iterLs_init_sized dir pr s h
  have hls := lineSearch_sized hP dir pr stop (directionStage dir s).2.2.1
    (directionStage dir s).2.2.2.1 hq pr.lsFuel _ hinit rfl
  have hr := lineSearch_reach hP dir d0 pr stop (directionStage dir s).2.2.1
    (directionStage dir s).2.2.2.1 hq pr.lsFuel _ hinit (directionStage_reach dir d0 s h hd)
  have hls' : Sized n m (iterLs P dir pr stop s).curr ∧
      ((iterLs P dir pr stop s).fuelOut = false → stop (iterLs P dir pr stop s).tick = false →
        Sized n m (iterLs P dir pr stop s).next) := hls
  have hr' : DirReach n dir d0 (iterLs P dir pr stop s).d := hr
  by_cases hst : stop (iterLs P dir pr stop s).tick = true
  · have e : (iterBody P dir pr stop s eps).d = (iterLs P dir pr stop s).d := by
      unfold iterLs at hst
      unfold iterBody iterLs
      simp only []
      rw [if_pos hst]
    rw [e]; exact hr'
  · have hst' : stop (iterLs P dir pr stop s).tick = false := by simpa using hst
    have e : (iterBody P dir pr stop s eps).d = (updateStage P dir pr (iterLs P dir pr stop s)).2.1 := by
      unfold iterLs at hst'
      unfold iterBody iterLs
      simp only []
      rw [if_neg (by rw [hst']; decide)]
    rw [e]
    exact updateStage_reach hP dir d0 pr _ hls'.1 (hls'.2 hf hst') hr'

theorem headStep_sized {n m : Nat} {P : Problem α} (hP : ProblemSized n m P) (pr : Params α)
    (stop : Nat → Bool) (oot : Bool) (s : St α D) (h : Sized n m s.curr) :
    Sized n m (headStep P pr stop oot s).1.curr := by
  have hy : Sized n m (headEvalYhat P pr s.curr).1 := by
    unfold headEvalYhat
    split_ifs
    · exact ⟨h.x, h.g, h.xhat, h.p, hP.psi_yhat _ h.xhat, h.gh⟩
    · exact h
  rw [(headStep_curr P pr stop oot s).1]
  split_ifs
  · exact sized_evalGradPsiHat hP _ hy
  · exact hy

theorem headStep_d (P : Problem α) (pr : Params α) (stop : Nat → Bool) (oot : Bool) (s : St α D) :
    (headStep P pr stop oot s).1.d = s.d ∧ (headStep P pr stop oot s).1.k = s.k := by
  unfold headStep; simp only []; exact ⟨trivial, trivial⟩

theorem initQub_sized {n m : Nat} {P : Problem α} (hP : ProblemSized n m P) (pr : Params α)
    (stop : Nat → Bool) (f : Nat) (c : Iterate α) (t b : Nat) (h : Sized n m c) :
    Sized n m (initQub P pr stop f c t b).1 := by
  induction f generalizing c t b with
  | zero => simpa [initQub] using h
  | succ f ih =>
    unfold initQub
    split_ifs
    · exact h
    · exact ih _ _ _ (sized_evalStep hP pr _ ⟨h.x, h.g⟩)
    · exact h

theorem initState_sized {n m : Nat} {P : Problem α} (hP : ProblemSized n m P) (d0 : D)
    (pr : Params α) (stop : Nat → Bool) (x0 gV : Vec α) (gS iS : α) (hx0 : x0.length = n) :
    match initState P d0 pr stop x0 gV gS iS with
    | .inl _ => True
    | .inr s => Sized n m s.curr := by
  unfold initState
  simp only []
  split_ifs with h1 h2 h3
  · trivial
  · apply initQub_sized hP
    apply sized_evalStep hP
    exact ⟨hx0, by unfold initialLipschitz; simp only []; exact hP.pgp_grad _ hx0⟩
  · trivial
  · apply initQub_sized hP
    apply sized_evalStep hP
    exact ⟨hx0, by unfold evalPsiGradPsi; simp only []; exact hP.pgp_grad _ hx0⟩

theorem initState_d (P : Problem α) (d0 : D) (pr : Params α) (stop : Nat → Bool) (x0 gV : Vec α)
    (gS iS : α) :
    match initState P d0 pr stop x0 gV gS iS with
    | .inl _ => True
    | .inr s => s.k = 0 ∧ s.d = d0 := by
  unfold initState
  simp only []
  split_ifs <;> first | trivial | exact ⟨rfl, rfl⟩

/-! ### Exit block and the whole solve -/

/-- Sizes of what the caller's buffers hold afterwards. -/
structure OutSized (n m : Nat) (r : Result α D) : Prop where
  x : r.x.length = n
  y : r.y.length = m
  errz : r.errz.length = m

theorem exitBlock_sized {n m : Nat} {P : Problem α} (hP : ProblemSized n m P) (pr : Params α)
    (s : St α D) (eps : α) (status : SolverStatus) (x0 y Sig errz0 : Vec α) (h : Sized n m s.curr)
    (hx0 : x0.length = n) (hy : y.length = m) (hS : Sig.length = m) (he : errz0.length = m) :
    OutSized n m (exitBlock P pr s eps status x0 y Sig errz0) := by
  unfold exitBlock
  simp only []
  cases hw : (status == .Converged || status == .Interrupted || pr.alwaysOverwrite) <;>
  cases hea : s.yhatValid <;>
  simp only [Bool.and_true, Bool.and_false, Bool.false_and, Bool.true_and, if_true, if_false,
    Bool.false_eq_true, Bool.not_true, Bool.not_false]
  · exact ⟨hx0, hy, he⟩
  · exact ⟨hx0, hy, he⟩
  · refine ⟨h.xhat, hP.psi_yhat _ h.xhat, ?_⟩
    split_ifs
    · rw [vdiv_length, vsub_length, hP.psi_yhat _ h.xhat, hy, hS]; simp
    · exact he
  · refine ⟨h.xhat, h.yhat, ?_⟩
    split_ifs
    · rw [vdiv_length, vsub_length, h.yhat, hy, hS]; simp
    · exact he

theorem mainLoop_sized {n m : Nat} {P : Problem α} (hP : ProblemSized n m P) (dir : Direction D α)
    (d0 : D) (hD : DirSized n dir d0) (pr : Params α) (stop : Nat → Bool) (oot : Bool)
    (x0 y Sig errz0 : Vec α) (hx0 : x0.length = n) (hy : y.length = m) (hS : Sig.length = m)
    (he : errz0.length = m) (fuel : Nat) (s : St α D) (h : Sized n m s.curr)
    (hd : DirOK n dir d0 s.k s.d) (hf : s.fuelOut = false)
    (hr : (mainLoop P dir pr stop oot x0 y Sig errz0 fuel s).fuelOut = false) :
    OutSized n m (mainLoop P dir pr stop oot x0 y Sig errz0 fuel s) := by
  induction fuel generalizing s with
  | zero => simp [mainLoop] at hr
  | succ f ih =>
    unfold mainLoop at hr ⊢
    simp only [] at hr ⊢
    have hh := headStep_sized hP pr stop oot s h
    have hfh : (headStep P pr stop oot s).1.fuelOut = false := by rw [headStep_fuelOut]; exact hf
    split_ifs at hr ⊢ with hb
    · exact exitBlock_sized hP pr _ _ _ x0 y Sig errz0 hh hx0 hy hS he
    · have hf2 : (iterBody P dir pr stop (headStep P pr stop oot s).1 (headStep P pr stop oot s).2.1).fuelOut
          = false := by
        rcases Bool.eq_false_or_eq_true
          (iterBody P dir pr stop (headStep P pr stop oot s).1 (headStep P pr stop oot s).2.1).fuelOut
          with hc | hc
        · have := mainLoop_fuelOut_mono P dir pr stop oot x0 y Sig errz0 f _ hc
          rw [this] at hr; exact absurd hr (by decide)
        · exact hc
      have hls : (iterLs P dir pr stop (headStep P pr stop oot s).1).fuelOut = false := by
        rw [iterBody_fuelOut, hfh] at hf2; simpa using hf2
      have hdh : DirOK n dir d0 (headStep P pr stop oot s).1.k (headStep P pr stop oot s).1.d := by
        rw [(headStep_d P pr stop oot s).1, (headStep_d P pr stop oot s).2]; exact hd
      exact ih _ (iterBody_sized hP dir d0 hD pr stop _ _ hh hdh hls).1
        (Or.inr (iterBody_reach hP dir d0 hD pr stop _ _ hh hdh hls)) hf2 hr

/-- **Sizes are preserved by a solve on a well-formed call**: `x`, `y`, `err_z` come back with sizes
    `n`, `m`, `m` whatever the exit path (written or untouched). -/
theorem run_sized {n m : Nat} {P : Problem α} (hP : ProblemSized n m P) (dir : Direction D α)
    (d0 : D) (hD : DirSized n dir d0) (pr : Params α) (stop : Nat → Bool) (oot : Bool)
    (x0 y Sig errz0 gV : Vec α) (gS iS : α) (hx0 : x0.length = n) (hy : y.length = m)
    (hS : Sig.length = m) (he : errz0.length = m)
    (hfuel : (run P dir d0 pr stop oot x0 y Sig errz0 gV gS iS).fuelOut = false) :
    OutSized n m (run P dir d0 pr stop oot x0 y Sig errz0 gV gS iS) := by
  have hi := initState_sized hP d0 pr stop x0 gV gS iS hx0
  have hid := initState_d P d0 pr stop x0 gV gS iS
  unfold run at hfuel ⊢
  cases hs : initState P d0 pr stop x0 gV gS iS with
  | inl t => exact ⟨hx0, hy, he⟩
  | inr s =>
    rw [hs] at hi hid
    simp only [hs] at hfuel ⊢
    have hf0 : s.fuelOut = false := by
      rcases Bool.eq_false_or_eq_true s.fuelOut with hc | hc
      · have := mainLoop_fuelOut_mono P dir pr stop oot x0 y Sig errz0 (pr.maxIter + 2) s hc
        rw [this] at hfuel; exact absurd hfuel (by decide)
      · exact hc
    exact mainLoop_sized hP dir d0 hD pr stop oot x0 y Sig errz0 hx0 hy hS he _ s hi (Or.inl hid) hf0 hfuel

/-! ### every iteration of a run: the loop heads at which `iterBody` runs -/

/-- The direction the direction stage hands to the line search: whenever an accelerated step is on
    offer (`τ_init ≠ 0`) it is what a *successful* `apply` left in `q`, called on the state
    `initialize` returned (iteration 0) or on the current provider state, with the current iterate's
    `γ, x, x̂, p, ∇ψ(x)`. -/
theorem directionStage_offer (dir : Direction D α) (s : St α D)
    (hne : (directionStage dir s).2.2.2.1 ≠ 0) :
    (dir.apply (if s.k == 0 then
        (dir.init s.d s.curr.gamma s.curr.x s.curr.xhat s.curr.p s.curr.gradPsi, s.tick + 1)
        else (s.d, s.tick)).1 s.curr.gamma s.curr.x s.curr.xhat s.curr.p s.curr.gradPsi s.q).2.1 = true ∧
    (directionStage dir s).2.2.1 =
      (dir.apply (if s.k == 0 then
        (dir.init s.d s.curr.gamma s.curr.x s.curr.xhat s.curr.p s.curr.gradPsi, s.tick + 1)
        else (s.d, s.tick)).1 s.curr.gamma s.curr.x s.curr.xhat s.curr.p s.curr.gradPsi s.q).2.2 := by
  revert hne
  unfold directionStage
  simp only []
  split_ifs with h2 h3 h4 h5 <;> simp only [] <;> intro hne
  all_goals first
    | exact absurd rfl hne
    | (refine ⟨?_, rfl⟩
       by_contra hc
       simp_all)
    | simp_all

/-- The loop states on which `iterBody` runs during `mainLoop` (the `Busy` heads, after the head's
    own evaluations), in order. -/
def busyHeads (P : Problem α) (dir : Direction D α) (pr : Params α) (stop : Nat → Bool) (oot : Bool) :
    Nat → St α D → List (St α D)
  | 0, _ => []
  | fuel + 1, s =>
    if (headStep P pr stop oot s).2.2 != .Busy then []
    else (headStep P pr stop oot s).1 ::
      busyHeads P dir pr stop oot fuel
        (iterBody P dir pr stop (headStep P pr stop oot s).1 (headStep P pr stop oot s).2.1)

/-- … of a whole solve. -/
def runHeads (P : Problem α) (dir : Direction D α) (d0 : D) (pr : Params α) (stop : Nat → Bool)
    (oot : Bool) (x0 gV : Vec α) (gS iS : α) : List (St α D) :=
  match initState P d0 pr stop x0 gV gS iS with
  | .inl _ => []
  | .inr s => busyHeads P dir pr stop oot (pr.maxIter + 2) s

/-- **At every iteration of the main loop** the current iterate is well sized and the provider state
    is the initial one (iteration 0 only) or reachable — so every provider call of the run is made
    from a `DirReach` state with `n`-sized vectors (`iterBody_reach`). -/
theorem busyHeads_ok {n m : Nat} {P : Problem α} (hP : ProblemSized n m P) (dir : Direction D α)
    (d0 : D) (hD : DirSized n dir d0) (pr : Params α) (stop : Nat → Bool) (oot : Bool)
    (x0 y Sig errz0 : Vec α) (fuel : Nat) (s : St α D) (h : Sized n m s.curr)
    (hd : DirOK n dir d0 s.k s.d) (hf : s.fuelOut = false)
    (hr : (mainLoop P dir pr stop oot x0 y Sig errz0 fuel s).fuelOut = false) :
    ∀ s' ∈ busyHeads P dir pr stop oot fuel s, Sized n m s'.curr ∧ DirOK n dir d0 s'.k s'.d := by
  induction fuel generalizing s with
  | zero => intro s' hs'; simp [busyHeads] at hs'
  | succ f ih =>
    unfold mainLoop at hr
    unfold busyHeads
    simp only [] at hr ⊢
    have hh := headStep_sized hP pr stop oot s h
    have hfh : (headStep P pr stop oot s).1.fuelOut = false := by rw [headStep_fuelOut]; exact hf
    have hdh : DirOK n dir d0 (headStep P pr stop oot s).1.k (headStep P pr stop oot s).1.d := by
      rw [(headStep_d P pr stop oot s).1, (headStep_d P pr stop oot s).2]; exact hd
    split_ifs at hr ⊢ with hb
    · intro s' hs'; simp at hs'
    · have hf2 : (iterBody P dir pr stop (headStep P pr stop oot s).1 (headStep P pr stop oot s).2.1).fuelOut
          = false := by
        rcases Bool.eq_false_or_eq_true
          (iterBody P dir pr stop (headStep P pr stop oot s).1 (headStep P pr stop oot s).2.1).fuelOut
          with hc | hc
        · have := mainLoop_fuelOut_mono P dir pr stop oot x0 y Sig errz0 f _ hc
          rw [this] at hr; exact absurd hr (by decide)
        · exact hc
      have hls : (iterLs P dir pr stop (headStep P pr stop oot s).1).fuelOut = false := by
        rw [iterBody_fuelOut, hfh] at hf2; simpa using hf2
      intro s' hs'
      rcases List.mem_cons.mp hs' with rfl | hs'
      · exact ⟨hh, hdh⟩
      · exact ih _ (iterBody_sized hP dir d0 hD pr stop _ _ hh hdh hls).1
          (Or.inr (iterBody_reach hP dir d0 hD pr stop _ _ hh hdh hls)) hf2 hr s' hs'

theorem runHeads_ok {n m : Nat} {P : Problem α} (hP : ProblemSized n m P) (dir : Direction D α)
    (d0 : D) (hD : DirSized n dir d0) (pr : Params α) (stop : Nat → Bool) (oot : Bool)
    (x0 y Sig errz0 gV : Vec α) (gS iS : α) (hx0 : x0.length = n)
    (hfuel : (run P dir d0 pr stop oot x0 y Sig errz0 gV gS iS).fuelOut = false) :
    ∀ s' ∈ runHeads P dir d0 pr stop oot x0 gV gS iS,
      Sized n m s'.curr ∧ DirOK n dir d0 s'.k s'.d := by
  have hi := initState_sized hP d0 pr stop x0 gV gS iS hx0
  have hid := initState_d P d0 pr stop x0 gV gS iS
  unfold run at hfuel
  unfold runHeads
  cases hs : initState P d0 pr stop x0 gV gS iS with
  | inl t => intro s' hs'; simp at hs'
  | inr s =>
    rw [hs] at hi hid
    simp only [hs] at hfuel ⊢
    have hf0 : s.fuelOut = false := by
      rcases Bool.eq_false_or_eq_true s.fuelOut with hc | hc
      · have := mainLoop_fuelOut_mono P dir pr stop oot x0 y Sig errz0 (pr.maxIter + 2) s hc
        rw [this] at hfuel; exact absurd hfuel (by decide)
      · exact hc
    exact busyHeads_ok hP dir d0 hD pr stop oot x0 y Sig errz0 _ s hi (Or.inl hid) hf0 hfuel

end Alpaqa.Panoc
