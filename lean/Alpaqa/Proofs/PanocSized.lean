/-
  Size invariant of the PANOC loop model (`Model/Panoc.lean`).

  In the C++ every vector of an `Iterate`, `q`, `x`, `y`, `err_z` is an Eigen vector of fixed size
  (`n` or `m`) that is written in place; the list model only sees sizes through the length lemmas of
  the vector operations and through size contracts of the oracles:

  * `ProblemSized n m P` — the problem oracles return vectors of the right size when called with
    vectors of the right size;
  * `DirSized n dir`     — a *successful* `apply` of the direction provider leaves a `q` of size `n`
    (a failing one may leave anything: `q` is then not used).

  Under these, on a well-formed call (`x₀` of size `n`; `y`, `Σ`, `err_z` of size `m`): the current
  iterate at every loop head has all its vectors of the right size (`Sized`), and the returned
  `x`, `y`, `err_z` have sizes `n`, `m`, `m` (`run_sized`).  Used by `Props/C05` (the prox contract
  is only available on well-sized vectors) and `Props/C01_Alm` (the inner-solver contract is stated
  for well-formed calls).
-/
import Alpaqa.Proofs.PanocDescent

namespace Alpaqa.Panoc
open Alpaqa Alpaqa.Gen
set_option linter.unusedSectionVars false
set_option linter.unusedVariables false

variable {α D : Type} [Field α] [LinearOrder α] [IsStrictOrderedRing α] [RealLike α]

/-- Size contract of the problem oracles (`n` variables, `m` constraints). -/
structure ProblemSized (n m : Nat) (P : Problem α) : Prop where
  pgp_grad : ∀ x, x.length = n → (P.psiGradPsi x).2.1.length = n
  pgp_work : ∀ x, x.length = n → (P.psiGradPsi x).2.2.length = m
  psi_yhat : ∀ x, x.length = n → (P.psi x).2.length = m
  gradPsi : ∀ x, x.length = n → (P.gradPsi x).length = n
  gradL : ∀ x y, x.length = n → y.length = m → (P.gradL x y).length = n
  prox_xhat : ∀ γ x g, x.length = n → g.length = n → (P.prox γ x g).2.1.length = n
  prox_p : ∀ γ x g, x.length = n → g.length = n → (P.prox γ x g).2.2.length = n

/-- Size contract of the direction provider: a successful `apply` on well-sized arguments leaves a
    `q` of size `n`. -/
def DirSized (n : Nat) (dir : Direction D α) : Prop :=
  ∀ d γ x xh p g q, x.length = n → xh.length = n → p.length = n → g.length = n →
    (dir.apply d γ x xh p g q).2.1 = true → (dir.apply d γ x xh p g q).2.2.length = n

/-- `x` and `∇ψ(x)` of an iterate have size `n`. -/
def XG (n : Nat) (i : Iterate α) : Prop := i.x.length = n ∧ i.gradPsi.length = n

/-- All vectors of an iterate that the algorithm reads have the right size. -/
structure Sized (n m : Nat) (i : Iterate α) : Prop where
  x : i.x.length = n
  g : i.gradPsi.length = n
  xhat : i.xhat.length = n
  p : i.p.length = n
  yhat : i.yhat.length = m
  gh : i.haveGradHat = true → i.gradPsiHat.length = n

theorem Sized.xg {n m : Nat} {i : Iterate α} (h : Sized n m i) : XG n i := ⟨h.x, h.g⟩

theorem vadd_length (a b : Vec α) : (vadd a b).length = min a.length b.length := by
  simp [vadd, vzip]
theorem vsub_length (a b : Vec α) : (vsub a b).length = min a.length b.length := by
  simp [vsub, vzip]
theorem vdiv_length (a b : Vec α) : (vdiv a b).length = min a.length b.length := by
  simp [vdiv, vzip]
theorem smul_length (c : α) (a : Vec α) : (smul c a).length = a.length := by
  simp [smul]

theorem sized_evalStep {n m : Nat} {P : Problem α} (hP : ProblemSized n m P) (pr : Params α)
    (i : Iterate α) (h : XG n i) : Sized n m (evalPsiHat P pr (evalProxGradStep P i)) := by
  have hx : (P.prox i.gamma i.x i.gradPsi).2.1.length = n := hP.prox_xhat _ _ _ h.1 h.2
  have hp : (P.prox i.gamma i.x i.gradPsi).2.2.length = n := hP.prox_p _ _ _ h.1 h.2
  unfold evalPsiHat evalProxGradStep
  by_cases he : pr.eagerGradientEval
  · simp only [he, if_true]
    exact ⟨h.1, h.2, hx, hp, hP.pgp_work _ hx, fun _ => hP.pgp_grad _ hx⟩
  · simp only [he, Bool.false_eq_true, if_false]
    exact ⟨h.1, h.2, hx, hp, hP.psi_yhat _ hx, fun hc => by simp at hc⟩

theorem sized_evalGradPsiHat {n m : Nat} {P : Problem α} (hP : ProblemSized n m P) (i : Iterate α)
    (h : Sized n m i) : Sized n m (evalGradPsiHat P i) :=
  ⟨h.x, h.g, h.xhat, h.p, h.yhat, fun _ => hP.gradL _ _ h.xhat h.yhat⟩

theorem sized_of_core {n m : Nat} {a b : Iterate α} (hc : core a = core b) (hb : Sized n m b)
    (hgh : a.haveGradHat = true → a.gradPsiHat.length = n) : Sized n m a :=
  ⟨by rw [x_of_core hc]; exact hb.x, by rw [gradPsi_of_core hc]; exact hb.g,
   by rw [xhat_of_core hc]; exact hb.xhat, by rw [p_of_core hc]; exact hb.p,
   by rw [yhat_of_core hc]; exact hb.yhat, hgh⟩

theorem takeSafeStep_sized {n m : Nat} {P : Problem α} (hP : ProblemSized n m P) (c nx : Iterate α)
    (t : Nat) (h : Sized n m c) :
    Sized n m (takeSafeStep P c nx t).1 ∧ XG n (takeSafeStep P c nx t).2.1 := by
  unfold takeSafeStep
  by_cases hh : c.haveGradHat = true
  · simp only [hh, Bool.not_true, Bool.false_eq_true, if_false]
    exact ⟨⟨h.x, h.g, h.xhat, h.p, h.yhat, fun hc => by simp at hc⟩, h.xhat, h.gh hh⟩
  · have hh' : c.haveGradHat = false := by simpa using hh
    simp only [hh', Bool.not_false, if_true]
    exact ⟨⟨h.x, h.g, h.xhat, h.p, h.yhat, fun hc => by simp at hc⟩, h.xhat,
      hP.gradL _ _ h.xhat h.yhat⟩

theorem takeAcceleratedStep_xg {n m : Nat} {P : Problem α} (hP : ProblemSized n m P)
    (c nx : Iterate α) (q : Vec α) (tau : α) (h : Sized n m c) (hq : q.length = n) :
    XG n (takeAcceleratedStep P c nx q tau) := by
  have hx : (if tau == 1 then vadd c.x q
      else vadd (vadd c.x (smul (1 - tau) c.p)) (smul tau q)).length = n := by
    split_ifs
    · rw [vadd_length, h.x, hq]; exact Nat.min_self n
    · rw [vadd_length, vadd_length, smul_length, smul_length, h.x, h.p, hq]; simp
  unfold takeAcceleratedStep evalPsiGradPsi
  exact ⟨hx, hP.pgp_grad _ hx⟩

/-! ### Line search -/

/-- Size invariant of the line-search state. -/
structure LSSized (n m : Nat) (q : Vec α) (tauInit : α) (s : LS α D) : Prop where
  curr : Sized n m s.curr
  /-- a candidate that will not be recomputed has `x`, `∇ψ(x)` of size `n` -/
  next : s.tau = s.tauPrev → XG n s.next
  /-- without a direction (`τ_init = 0`) `τ` stays `0`: `q` is never read -/
  tau0 : tauInit = 0 → s.tau = 0

theorem lsRecompute_sized {n m : Nat} {P : Problem α} (hP : ProblemSized n m P) (q : Vec α)
    (tauInit : α) (hq : tauInit ≠ 0 → q.length = n) (s : LS α D) (h : LSSized n m q tauInit s) :
    Sized n m (lsRecompute P q s).curr ∧ XG n (lsRecompute P q s).next := by
  unfold lsRecompute
  split_ifs with h1 h2
  · have hτ : s.tau ≠ 0 := by simpa using h2
    exact ⟨h.curr, takeAcceleratedStep_xg hP _ _ _ _ h.curr (hq (fun h0 => hτ (h.tau0 h0)))⟩
  · exact takeSafeStep_sized hP _ _ _ h.curr
  · exact ⟨h.curr, h.next (by simpa using h1)⟩

/-- One pass of the line-search body keeps the invariant; on `break` the candidate is fully sized. -/
theorem lsPass_sized {n m : Nat} {P : Problem α} (hP : ProblemSized n m P) (dir : Direction D α)
    (pr : Params α) (q : Vec α) (tauInit : α) (hq : tauInit ≠ 0 → q.length = n) (s : LS α D)
    (h : LSSized n m q tauInit s) :
    match lsPass P dir pr q tauInit s with
    | .done s' => Sized n m s'.curr ∧ Sized n m s'.next
    | .again s' => LSSized n m q tauInit s' := by
  have h1 := lsRecompute_sized hP q tauInit hq s h
  have hτ1 : (lsRecompute P q s).tau = s.tau := (lsRecompute_prev P q s).2
  have hes := evalStep_fields P pr (lsRecompute P q s).next
  have hs2 : Sized n m (evalPsiHat P pr (evalProxGradStep P (lsRecompute P q s).next)) :=
    sized_evalStep hP pr _ h1.2
  unfold lsPass
  simp only []
  split_ifs with hfail hqub htq hls hmc
  · exact ⟨h1.1, fun _ => h1.2, fun _ => rfl⟩
  · refine ⟨h1.1, fun _ => ⟨hs2.x, hs2.g⟩, fun h0 => h0⟩
  · refine ⟨h1.1, fun _ => ⟨hs2.x, hs2.g⟩, fun h0 => ?_⟩
    show (lsRecompute P q s).tau = 0
    rw [hτ1]; exact h.tau0 h0
  · have hsame := lsUpdateInCandidate_same dir
      { lsRecompute P q s with
        next := evalPsiHat P pr (evalProxGradStep P (lsRecompute P q s).next),
        tick := (lsRecompute P q s).tick + 2 }
    refine ⟨by show Sized n m _; rw [hsame.1]; exact h1.1,
      fun _ => by show XG n _; rw [hsame.2.1]; exact hs2.xg, fun _ => rfl⟩
  · have hsame := lsUpdateInCandidate_same dir
      { lsRecompute P q s with
        next := evalPsiHat P pr (evalProxGradStep P (lsRecompute P q s).next),
        tick := (lsRecompute P q s).tick + 2 }
    have hupd := lsUpdateInCandidate_tau dir
      { lsRecompute P q s with
        next := evalPsiHat P pr (evalProxGradStep P (lsRecompute P q s).next),
        tick := (lsRecompute P q s).tick + 2 }
    refine ⟨by show Sized n m _; rw [hsame.1]; exact h1.1,
      fun _ => by show XG n _; rw [hsame.2.1]; exact hs2.xg, fun h0 => ?_⟩
    simp only []
    rw [hupd.1]
    show (lsRecompute P q s).tau * pr.lsUpdateFactor = 0
    rw [hτ1, h.tau0 h0, zero_mul]
  · have hsame := lsUpdateInCandidate_same dir
      { lsRecompute P q s with
        next := evalPsiHat P pr (evalProxGradStep P (lsRecompute P q s).next),
        tick := (lsRecompute P q s).tick + 2 }
    exact ⟨by rw [hsame.1]; exact h1.1, by rw [hsame.2.1]; exact hs2⟩

/-- The whole line search: `curr` stays sized; if the loop was left through `break` the candidate is
    sized. -/
theorem lineSearch_sized {n m : Nat} {P : Problem α} (hP : ProblemSized n m P) (dir : Direction D α)
    (pr : Params α) (stop : Nat → Bool) (q : Vec α) (tauInit : α) (hq : tauInit ≠ 0 → q.length = n)
    (fuel : Nat) (s : LS α D) (h : LSSized n m q tauInit s) (hf : s.fuelOut = false) :
    Sized n m (lineSearch P dir pr stop q tauInit fuel s).curr ∧
    ((lineSearch P dir pr stop q tauInit fuel s).fuelOut = false →
      stop (lineSearch P dir pr stop q tauInit fuel s).tick = false →
      Sized n m (lineSearch P dir pr stop q tauInit fuel s).next) := by
  induction fuel generalizing s with
  | zero => simp [lineSearch, h.curr]
  | succ f ih =>
    unfold lineSearch
    by_cases hst : stop s.tick
    · simp only [hst, if_true]
      exact ⟨h.curr, fun _ h2 => absurd h2 (by decide)⟩
    · simp only [hst, Bool.false_eq_true, if_false]
      have hp := lsPass_sized hP dir pr q tauInit hq s h
      have hfo := lsPass_fuelOut P dir pr q tauInit s
      cases hpass : lsPass P dir pr q tauInit s with
      | done s' =>
        rw [hpass] at hp
        exact ⟨hp.1, fun _ _ => hp.2⟩
      | again s' =>
        rw [hpass] at hp hfo
        exact ih s' hp (by have : s'.fuelOut = s.fuelOut := hfo
                           rw [this]; exact hf)
where
  lsPass_fuelOut (P : Problem α) (dir : Direction D α) (pr : Params α) (q : Vec α) (tauInit : α)
      (s : LS α D) : (lsPass P dir pr q tauInit s).st.fuelOut = s.fuelOut := by
    have h1 := (lsRecompute_next P q s).2.2.1
    unfold lsPass
    simp only []
    split_ifs <;> simp only [Pass.st] <;>
      first
      | exact h1
      | (rw [(lsUpdateInCandidate_same dir _).2.2]; exact h1)

/-! ### Direction stage, update stage, one pass of the loop body -/

theorem directionStage_q {n m : Nat} (dir : Direction D α) (hD : DirSized n dir) (s : St α D)
    (h : Sized n m s.curr) :
    (directionStage dir s).2.2.2.1 ≠ 0 → (directionStage dir s).2.2.1.length = n := by
  unfold directionStage
  simp only []
  split_ifs with h1 h2 h3 h4 h5 <;> simp only [] <;> intro hne
  all_goals first
    | exact absurd rfl hne
    | (apply hD _ _ _ _ _ _ _ h.x h.xhat h.p h.g
       by_contra hc
       simp_all)
    | simp_all

theorem updateStage_sized {n m : Nat} {P : Problem α} (hP : ProblemSized n m P) (dir : Direction D α)
    (pr : Params α) (ls : LS α D) (h : Sized n m ls.curr) :
    Sized n m (updateStage P dir pr ls).1 := by
  rcases updateStage_curr P dir pr ls with hu | ⟨_, _, hu⟩
  · rw [hu]; exact h
  · rw [hu]
    unfold evalProxGradStep
    exact ⟨h.x, h.g, hP.prox_xhat _ _ _ h.x h.g, hP.prox_p _ _ _ h.x h.g, h.yhat, h.gh⟩

theorem iterLs_init_sized {n m : Nat} (dir : Direction D α) (pr : Params α) (s : St α D)
    (h : Sized n m s.curr) :
    LSSized n m (directionStage dir s).2.2.1 (directionStage dir s).2.2.2.1
      ({ curr := s.curr, next := { s.next with gamma := s.curr.gamma, L := s.curr.L },
         d := (directionStage dir s).1, tick := (directionStage dir s).2.1,
         tau := (directionStage dir s).2.2.2.1, tauPrev := -1, updInLs := pr.updateDirInCandidate,
         updated := false, dirRejected := true, lsBacktracks := 0, stepsizeBacktracks := 0,
         lbfgsRejected := 0 } : LS α D) := by
  refine ⟨h, fun he => ?_, fun h0 => h0⟩
  exfalso
  have he' : (directionStage dir s).2.2.2.1 = (-1 : α) := he
  rcases directionStage_tau dir s with h0 | h0 <;> rw [h0] at he' <;> norm_num at he'

/-- What one pass of the loop body leaves as the current iterate is sized — unless the model's
    line-search fuel ran out. -/
theorem iterBody_sized {n m : Nat} {P : Problem α} (hP : ProblemSized n m P) (dir : Direction D α)
    (hD : DirSized n dir) (pr : Params α) (stop : Nat → Bool) (s : St α D) (eps : α)
    (h : Sized n m s.curr) (hf : (iterLs P dir pr stop s).fuelOut = false) :
    Sized n m (iterBody P dir pr stop s eps).curr ∧
    (stop (iterLs P dir pr stop s).tick = false → Sized n m (iterLs P dir pr stop s).next) := by
  have hls := lineSearch_sized hP dir pr stop (directionStage dir s).2.2.1
    (directionStage dir s).2.2.2.1 (directionStage_q dir hD s h) pr.lsFuel _
    (iterLs_init_sized dir pr s h) rfl
  have hls' : Sized n m (iterLs P dir pr stop s).curr ∧
      ((iterLs P dir pr stop s).fuelOut = false → stop (iterLs P dir pr stop s).tick = false →
        Sized n m (iterLs P dir pr stop s).next) := hls
  refine ⟨?_, fun hst => hls'.2 hf hst⟩
  by_cases hst : stop (iterLs P dir pr stop s).tick = true
  · rw [(iterBody_interrupted P dir pr stop s eps hst).2.2.2.1]; exact hls'.1
  · have hst' : stop (iterLs P dir pr stop s).tick = false := by simpa using hst
    rw [(iterBody_advanced P dir pr stop s eps hst').2.2.1]
    exact hls'.2 hf hst'

theorem headStep_sized {n m : Nat} {P : Problem α} (hP : ProblemSized n m P) (pr : Params α)
    (stop : Nat → Bool) (oot : Bool) (s : St α D) (h : Sized n m s.curr) :
    Sized n m (headStep P pr stop oot s).1.curr := by
  unfold headStep
  simp only []
  split_ifs
  · exact sized_evalGradPsiHat hP _ h
  · exact h

theorem initQub_sized {n m : Nat} {P : Problem α} (hP : ProblemSized n m P) (pr : Params α)
    (stop : Nat → Bool) (f : Nat) (c : Iterate α) (t b : Nat) (h : Sized n m c) :
    Sized n m (initQub P pr stop f c t b).1 := by
  induction f generalizing c t b with
  | zero => simpa [initQub] using h
  | succ f ih =>
    unfold initQub
    split_ifs
    · exact h
    · exact ih _ _ _ (sized_evalStep hP pr _ ⟨h.x, h.g⟩)
    · exact h

theorem initState_sized {n m : Nat} {P : Problem α} (hP : ProblemSized n m P) (d0 : D)
    (pr : Params α) (stop : Nat → Bool) (x0 gV : Vec α) (gS iS : α) (hx0 : x0.length = n) :
    match initState P d0 pr stop x0 gV gS iS with
    | .inl _ => True
    | .inr s => Sized n m s.curr := by
  unfold initState
  simp only []
  split_ifs with h1 h2 h3
  · trivial
  · apply initQub_sized hP
    apply sized_evalStep hP
    exact ⟨hx0, by unfold initialLipschitz; simp only []; exact hP.pgp_grad _ hx0⟩
  · trivial
  · apply initQub_sized hP
    apply sized_evalStep hP
    exact ⟨hx0, by unfold evalPsiGradPsi; simp only []; exact hP.pgp_grad _ hx0⟩

/-! ### Exit block and the whole solve -/

/-- Sizes of what the caller's buffers hold afterwards. -/
structure OutSized (n m : Nat) (r : Result α D) : Prop where
  x : r.x.length = n
  y : r.y.length = m
  errz : r.errz.length = m

theorem exitBlock_sized {n m : Nat} {P : Problem α} (hP : ProblemSized n m P) (pr : Params α)
    (s : St α D) (eps : α) (status : SolverStatus) (x0 y Sig errz0 : Vec α) (h : Sized n m s.curr)
    (hx0 : x0.length = n) (hy : y.length = m) (hS : Sig.length = m) (he : errz0.length = m) :
    OutSized n m (exitBlock P pr s eps status x0 y Sig errz0) := by
  unfold exitBlock
  simp only []
  cases hw : (status == .Converged || status == .Interrupted || pr.alwaysOverwrite) <;>
  cases hea : pr.eagerGradientEval <;>
  simp only [Bool.and_true, Bool.and_false, Bool.false_and, Bool.true_and, if_true, if_false,
    Bool.false_eq_true]
  · exact ⟨hx0, hy, he⟩
  · exact ⟨hx0, hy, he⟩
  · refine ⟨h.xhat, h.yhat, ?_⟩
    split_ifs
    · rw [vdiv_length, vsub_length, h.yhat, hy, hS]; simp
    · exact he
  · refine ⟨h.xhat, hP.psi_yhat _ h.xhat, ?_⟩
    split_ifs
    · rw [vdiv_length, vsub_length, hP.psi_yhat _ h.xhat, hy, hS]; simp
    · exact he

theorem mainLoop_sized {n m : Nat} {P : Problem α} (hP : ProblemSized n m P) (dir : Direction D α)
    (hD : DirSized n dir) (pr : Params α) (stop : Nat → Bool) (oot : Bool)
    (x0 y Sig errz0 : Vec α) (hx0 : x0.length = n) (hy : y.length = m) (hS : Sig.length = m)
    (he : errz0.length = m) (fuel : Nat) (s : St α D) (h : Sized n m s.curr)
    (hf : s.fuelOut = false)
    (hr : (mainLoop P dir pr stop oot x0 y Sig errz0 fuel s).fuelOut = false) :
    OutSized n m (mainLoop P dir pr stop oot x0 y Sig errz0 fuel s) := by
  induction fuel generalizing s with
  | zero => simp [mainLoop] at hr
  | succ f ih =>
    unfold mainLoop at hr ⊢
    simp only [] at hr ⊢
    have hh := headStep_sized hP pr stop oot s h
    have hfh : (headStep P pr stop oot s).1.fuelOut = false := by rw [headStep_fuelOut]; exact hf
    split_ifs at hr ⊢ with hb
    · exact exitBlock_sized hP pr _ _ _ x0 y Sig errz0 hh hx0 hy hS he
    · have hf2 : (iterBody P dir pr stop (headStep P pr stop oot s).1 (headStep P pr stop oot s).2.1).fuelOut
          = false := by
        rcases Bool.eq_false_or_eq_true
          (iterBody P dir pr stop (headStep P pr stop oot s).1 (headStep P pr stop oot s).2.1).fuelOut
          with hc | hc
        · have := mainLoop_fuelOut_mono P dir pr stop oot x0 y Sig errz0 f _ hc
          rw [this] at hr; exact absurd hr (by decide)
        · exact hc
      have hls : (iterLs P dir pr stop (headStep P pr stop oot s).1).fuelOut = false := by
        rw [iterBody_fuelOut, hfh] at hf2; simpa using hf2
      exact ih _ (iterBody_sized hP dir hD pr stop _ _ hh hls).1 hf2 hr

/-- **Sizes are preserved by a solve on a well-formed call**: `x`, `y`, `err_z` come back with sizes
    `n`, `m`, `m` whatever the exit path (written or untouched). -/
theorem run_sized {n m : Nat} {P : Problem α} (hP : ProblemSized n m P) (dir : Direction D α)
    (hD : DirSized n dir) (d0 : D) (pr : Params α) (stop : Nat → Bool) (oot : Bool)
    (x0 y Sig errz0 gV : Vec α) (gS iS : α) (hx0 : x0.length = n) (hy : y.length = m)
    (hS : Sig.length = m) (he : errz0.length = m)
    (hfuel : (run P dir d0 pr stop oot x0 y Sig errz0 gV gS iS).fuelOut = false) :
    OutSized n m (run P dir d0 pr stop oot x0 y Sig errz0 gV gS iS) := by
  have hi := initState_sized hP d0 pr stop x0 gV gS iS hx0
  unfold run at hfuel ⊢
  cases hs : initState P d0 pr stop x0 gV gS iS with
  | inl t => exact ⟨hx0, hy, he⟩
  | inr s =>
    rw [hs] at hi
    simp only [hs] at hfuel ⊢
    have hf0 : s.fuelOut = false := by
      rcases Bool.eq_false_or_eq_true s.fuelOut with hc | hc
      · have := mainLoop_fuelOut_mono P dir pr stop oot x0 y Sig errz0 (pr.maxIter + 2) s hc
        rw [this] at hfuel; exact absurd hfuel (by decide)
      · exact hc
    exact mainLoop_sized hP dir hD pr stop oot x0 y Sig errz0 hx0 hy hS he _ s hi hf0 hfuel

end Alpaqa.Panoc
