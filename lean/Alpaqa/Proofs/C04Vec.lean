/-
  C04 helper lemmas: the list-vector layer and the loop primitive `forRange` over a field
  (componentwise access, sums, the map-accumulate loop).
-/
import Alpaqa.Proofs.Basic
import Alpaqa.Model.C04

namespace Alpaqa.C04
open Alpaqa

section generic
variable {α : Type} [OfNat α 0]

theorem vget_lt (a : Vec α) (i : Nat) (h : i < a.length) : vget a i = a[i] := by
  unfold vget; simp [List.getD, h]

theorem vec_ext (a b : Vec α) (hl : a.length = b.length)
    (h : ∀ i, i < a.length → vget a i = vget b i) : a = b := by
  apply List.ext_getElem hl
  intro i h1 h2
  have := h i h1
  rwa [vget_lt a i h1, vget_lt b i h2] at this

theorem vget_map_range (n : Nat) (f : Nat → α) (i : Nat) (h : i < n) :
    vget ((List.range n).map f) i = f i := by
  rw [vget_lt _ _ (by simpa using h)]; simp

theorem vec_eq_map_range (a : Vec α) : a = (List.range a.length).map (vget a) := by
  apply vec_ext
  · simp
  · intro i h; rw [vget_map_range _ _ _ h]

theorem vget_zipWith (f : α → α → α) (a b : Vec α) (i : Nat) (ha : i < a.length)
    (hb : i < b.length) : vget (List.zipWith f a b) i = f (vget a i) (vget b i) := by
  rw [vget_lt _ _ (by simp; omega), vget_lt a i ha, vget_lt b i hb]; simp

theorem vget_map (f : α → α) (a : Vec α) (i : Nat) (ha : i < a.length) :
    vget (a.map f) i = f (vget a i) := by
  rw [vget_lt _ _ (by simpa using ha), vget_lt a i ha]; simp

end generic

section field
variable {α : Type} [Field α]

@[simp] theorem length_vadd (a b : Vec α) : (vadd a b).length = min a.length b.length := by
  simp [vadd, vzip]
@[simp] theorem length_vdiv (a b : Vec α) : (vdiv a b).length = min a.length b.length := by
  simp [vdiv, vzip]
@[simp] theorem length_vmul (a b : Vec α) : (vmul a b).length = min a.length b.length := by
  simp [vmul, vzip]
@[simp] theorem length_smul (c : α) (a : Vec α) : (smul c a).length = a.length := by
  simp [smul]

theorem vget_vadd (a b : Vec α) (i : Nat) (ha : i < a.length) (hb : i < b.length) :
    vget (vadd a b) i = vget a i + vget b i := vget_zipWith _ a b i ha hb
theorem vget_vdiv (a b : Vec α) (i : Nat) (ha : i < a.length) (hb : i < b.length) :
    vget (vdiv a b) i = vget a i / vget b i := vget_zipWith _ a b i ha hb
theorem vget_vmul (a b : Vec α) (i : Nat) (ha : i < a.length) (hb : i < b.length) :
    vget (vmul a b) i = vget a i * vget b i := vget_zipWith _ a b i ha hb
theorem vget_smul (c : α) (a : Vec α) (i : Nat) (ha : i < a.length) :
    vget (smul c a) i = c * vget a i := vget_map _ a i ha

/-- adding the zero vector of the same length. -/
theorem vadd_replicate_zero (a : Vec α) (n : Nat) (h : a.length = n) :
    vadd a (List.replicate n 0) = a := by
  apply vec_ext
  · simp [h]
  · intro i hi
    have hi' : i < a.length := by simpa [h] using hi
    rw [vget_vadd _ _ _ hi' (by simp; omega)]
    rw [vget_lt (List.replicate n 0) i (by simp; omega)]; simp

/-! ### sums -/

theorem foldl_add_shift (l : List α) (a : α) : l.foldl (· + ·) a = a + l.foldl (· + ·) 0 := by
  induction l generalizing a with
  | nil => simp
  | cons x xs ih => simp only [List.foldl_cons]; rw [ih (a + x), ih (0 + x)]; ring

theorem sumL_nil : sumL ([] : List α) = 0 := rfl

theorem sumL_cons (x : α) (xs : List α) : sumL (x :: xs) = x + sumL xs := by
  unfold sumL; simp only [List.foldl_cons]; rw [foldl_add_shift]; ring

theorem sumL_eq_sum (l : List α) : sumL l = l.sum := by
  induction l with
  | nil => rfl
  | cons x xs ih => rw [sumL_cons, ih, List.sum_cons]

/-- Eigen's redux (fold starting from the first coefficient) is the sum. -/
theorem vsum_eq_sumL (l : List α) : vsum l = sumL l := by
  cases l with
  | nil => rfl
  | cons x xs => unfold vsum redux sumL; simp

theorem mul_sumL_map {β : Type} (c : α) (f : β → α) (l : List β) :
    c * sumL (l.map f) = sumL (l.map fun i => c * f i) := by
  induction l with
  | nil => simp [sumL_nil]
  | cons x xs ih => simp only [List.map_cons, sumL_cons, mul_add, ih]

theorem sumL_map_congr {β : Type} (f g : β → α) (l : List β) (h : ∀ i ∈ l, f i = g i) :
    sumL (l.map f) = sumL (l.map g) := by
  rw [List.map_congr_left h]

theorem foldl_range_eq_sumL (n : Nat) (f : Nat → α) :
    (List.range n).foldl (fun acc i => acc + f i) 0 = sumL ((List.range n).map f) := by
  unfold sumL; rw [List.foldl_map]

/-- `a.dot(a)` under the harness flags. -/
theorem dot_self_eq (d : Vec α) :
    dot d d = sumL ((List.range d.length).map fun i => vget d i * vget d i) := by
  unfold dot; rw [vsum_eq_sumL]
  congr 1
  apply vec_ext
  · simp
  · intro i hi
    have hi' : i < d.length := by simpa using hi
    rw [vget_vmul _ _ _ hi' hi', vget_map_range _ _ _ hi']

end field

/-! ### the map-accumulate loop -/
section loop
variable {α : Type} [OfNat α 0]

theorem forRange_succ {σ : Type} (k : Nat) (body : Nat → σ → σ) (s : σ) :
    forRange (k + 1) body s = body k (forRange k body s) := by
  unfold forRange; rw [List.range_succ, List.foldl_append]; rfl

/-- A loop `for i < m: acc = G(acc, i, v(i)); v(i) = F(i, v(i))` is a fold of `G` over the
    original entries together with a map of `F`. -/
theorem forRange_accum_set (m : Nat) (d : Vec α) (hd : d.length = m) (a0 : α)
    (G : α → Nat → α → α) (F : Nat → α → α) :
    forRange m (fun i (s : α × Vec α) => (G s.1 i (vget s.2 i), vset s.2 i (F i (vget s.2 i))))
        (a0, d)
      = ((List.range m).foldl (fun acc i => G acc i (vget d i)) a0,
         (List.range m).map fun i => F i (vget d i)) := by
  have key : ∀ k, k ≤ m →
      forRange k (fun i (s : α × Vec α) => (G s.1 i (vget s.2 i), vset s.2 i (F i (vget s.2 i))))
          (a0, d)
        = ((List.range k).foldl (fun acc i => G acc i (vget d i)) a0,
           (List.range m).map fun j => if j < k then F j (vget d j) else vget d j) := by
    intro k
    induction k with
    | zero =>
      intro _
      simp only [forRange, List.range_zero, List.foldl_nil, Nat.not_lt_zero, if_false]
      rw [← hd, ← vec_eq_map_range]
    | succ k ih =>
      intro hk
      have hk' : k < m := hk
      rw [forRange_succ, ih (Nat.le_of_lt hk')]
      have hv : vget ((List.range m).map fun j => if j < k then F j (vget d j) else vget d j) k
          = vget d k := by
        rw [vget_map_range _ _ _ hk']; simp
      simp only [hv]
      congr 1
      · rw [List.range_succ, List.foldl_append]; rfl
      · unfold vset
        apply List.ext_getElem
        · simp
        · intro j h1 h2
          have hj : j < m := by simpa using h2
          rw [List.getElem_set]
          simp only [List.getElem_map, List.getElem_range]
          by_cases hjk : k = j
          · subst hjk; simp
          · rw [if_neg hjk]
            by_cases hlt : j < k
            · have : j < k + 1 := by omega
              simp [hlt, this]
            · have : ¬ j < k + 1 := by omega
              simp [hlt, this]
  rw [key m (Nat.le_refl m)]
  congr 1
  apply List.map_congr_left
  intro j hj
  have : j < m := List.mem_range.mp hj
  simp [this]

end loop
end Alpaqa.C04
