/-
  Fuel sufficiency of the FISTA loop model over a linearly ordered field.

  The only loop of fista.tpp without an iteration bound is the quadratic-upper-bound backtracking
  `while (!stop && L < L_max && qub_violated) { γ /= 2; L *= 2; … }`; the model gives it `Params.qubFuel`
  passes.  `L` doubles in every pass and the loop stops at `L ≥ L_max`, so with `L_max ≤ L·2^nL` at most `nL`
  passes happen; `L` never decreases over a solve.  (`mainLoop`'s own fuel is never used up:
  `FistaInv.mainLoop_endsAtHead`.)  `FistaFuelOK pr nL` collects the parameter conditions;
  `run_fuelOut_false` is the result: the hypothesis `fuelOut = false` of the C08 theorems is a theorem.
-/
import Alpaqa.Proofs.FistaInv
import Alpaqa.Proofs.Basic

namespace Alpaqa.Fista
open Alpaqa Alpaqa.Gen
set_option linter.unusedSectionVars false
set_option linter.unusedVariables false

variable {α : Type} [Field α] [LinearOrder α] [IsStrictOrderedRing α] [RealLike α]

/-- `L` is positive and `nL` doublings reach `L_max`. -/
def LBound (pr : Params α) (nL : Nat) (L : α) : Prop := 0 < L ∧ pr.Lmax ≤ L * 2 ^ nL

/-- Parameter conditions under which the backtracking fuel provably suffices. -/
structure FistaFuelOK (pr : Params α) (nL : Nat) : Prop where
  lmin_pos : 0 < pr.Lmin
  lmin_le : pr.Lmin ≤ pr.Lmax
  /-- `nL` doublings take `L_min` (the smallest initial estimate) to `L_max` (`nL = 0` for a fixed step size
      `L_min = L_max`) -/
  lmax_lmin : pr.Lmax ≤ pr.Lmin * 2 ^ nL
  /-- … and a user-supplied `L_0 > 0` too (only read when the step size is not fixed) -/
  lmax_l0 : fixedLip pr = false → 0 < pr.L0 → pr.Lmax ≤ pr.L0 * 2 ^ nL
  fuel : nL + 1 ≤ pr.qubFuel

theorem doubling_step {Lmax L : α} {a : Nat} (hL : 0 < L) (hlt : L < Lmax) (hle : Lmax ≤ L * 2 ^ a) :
    ∃ a', a = a' + 1 ∧ Lmax ≤ (L * 2) * 2 ^ a' := by
  cases a with
  | zero => simp at hle; exact absurd (lt_of_lt_of_le hlt hle) (lt_irrefl _)
  | succ a' =>
    refine ⟨a', rfl, ?_⟩
    rw [pow_succ] at hle
    calc Lmax ≤ L * (2 ^ a' * 2) := hle
      _ = L * 2 * 2 ^ a' := by ring

theorem qubLoop_fuel (P : Problem α) (pr : Params α) (stop : Nat → Bool) (f : Nat)
    (c : Iterate α) (t b a : Nat) (hL : 0 < c.L) (ha : pr.Lmax ≤ c.L * 2 ^ a) (hf : a < f) :
    (qubLoop P pr stop f c t b).2.2.2 = false ∧ 0 < (qubLoop P pr stop f c t b).1.L ∧
    pr.Lmax ≤ (qubLoop P pr stop f c t b).1.L * 2 ^ a := by
  induction f generalizing c t b a with
  | zero => omega
  | succ f ih =>
    unfold qubLoop
    by_cases hst : stop t = true
    · simp only [hst, if_true]; exact ⟨by first | rfl | trivial, hL, ha⟩
    · simp only [hst, Bool.false_eq_true, if_false]
      by_cases hc : (decide (c.L < pr.Lmax) && qubViolated pr c) = true
      · simp only [hc, if_true]
        have hlt : c.L < pr.Lmax := by
          have := (Bool.and_eq_true _ _).mp hc; exact of_decide_eq_true this.1
        obtain ⟨a', rfl, ha'⟩ := doubling_step hL hlt ha
        have := ih (evalPsiHat P (evalProxGradStep P
            { c with gamma := (fista_backtrack c.gamma c.L).1, L := (fista_backtrack c.gamma c.L).2 }))
          (t + 2) (b + 1) a' (by show 0 < c.L * 2; positivity) ha' (by omega)
        refine ⟨this.1, this.2.1, le_trans this.2.2 ?_⟩
        have h0 := this.2.1
        rw [pow_succ]
        have : (0:α) < 2 ^ a' := by positivity
        nlinarith
      · rw [if_neg hc]; exact ⟨by first | rfl | trivial, hL, ha⟩

theorem firstStep_L (P : Problem α) (pr : Params α) (s : St α) : (firstStep P pr s).L = s.curr.L := by
  unfold firstStep; simp only []; split_ifs <;> rfl

theorem withGradHat_L (P : Problem α) (pr : Params α) (c : Iterate α) : (withGradHat P pr c).L = c.L := by
  unfold withGradHat; split_ifs <;> rfl

/-- One pass of the prox / backtracking stage never exhausts the fuel, and keeps the bound on `L`. -/
theorem proxStage_fuel (P : Problem α) (pr : Params α) (stop : Nat → Bool) (nL : Nat)
    (hp : FistaFuelOK pr nL) (s : St α) (hL : LBound pr nL s.curr.L) (hf : s.fuelOut = false) :
    (proxStage P pr stop s).fuelOut = false ∧ LBound pr nL (proxStage P pr stop s).curr.L := by
  have hq := qubLoop_fuel P pr stop pr.qubFuel (firstStep P pr s) (firstTick pr s) s.backtracks nL
    (by rw [firstStep_L]; exact hL.1) (by rw [firstStep_L]; exact hL.2) (by have := hp.fuel; omega)
  unfold proxStage
  simp only []
  refine ⟨by rw [hf, hq.1]; rfl, ?_⟩
  rw [withGradHat_L]
  exact ⟨hq.2.1, hq.2.2⟩

theorem advance_L (P : Problem α) (pr : Params α) (s : St α) (eps : α) :
    (advance P pr s eps).curr.L = s.curr.L ∧ (advance P pr s eps).fuelOut = s.fuelOut := by
  unfold advance
  cases hf : fixedLip pr <;> simp [evalPsiGradPsi, evalGradPsi]

theorem mainLoop_fuel (P : Problem α) (pr : Params α) (stop : Nat → Bool) (oot : Bool)
    (x0 y Sig errz0 : Vec α) (nL : Nat) (hp : FistaFuelOK pr nL) (fuel : Nat) (s : St α)
    (hL : LBound pr nL s.curr.L) (hf : s.fuelOut = false) (hk : s.k ≤ pr.maxIter)
    (hfuel : pr.maxIter + 1 ≤ fuel + s.k) :
    (mainLoop P pr stop oot x0 y Sig errz0 fuel s).fuelOut = false := by
  induction fuel generalizing s with
  | zero => omega
  | succ f ih =>
    unfold mainLoop
    simp only []
    have hps := proxStage_fuel P pr stop nL hp s hL hf
    have hhc := headStep_curr P pr stop oot (proxStage P pr stop s)
    split_ifs with hb
    · rw [(exitBlock_fields P pr _ _ _ x0 y Sig errz0).2.2.2.2.1, hhc.2.2.2.1]; exact hps.1
    · have hbusy : (headStep P pr stop oot (proxStage P pr stop s)).2.2 = .Busy := by simpa using hb
      have hkne := headStep_busy_k P pr stop oot _ hbusy
      rw [(proxStage_k P pr stop s).1] at hkne
      apply ih
      · rw [(advance_L P pr _ _).1, hhc.1]; exact hps.2
      · rw [(advance_L P pr _ _).2, hhc.2.2.2.1]; exact hps.1
      · rw [(advance_k _ _ _ _).1, hhc.2.1, (proxStage_k P pr stop s).1]; omega
      · rw [(advance_k _ _ _ _).1, hhc.2.1, (proxStage_k P pr stop s).1]; omega

theorem eclamp_ge_lo (v lo hi : α) (h : lo ≤ hi) : lo ≤ eclamp v lo hi := by
  unfold eclamp; split_ifs with h1 h2
  · exact le_refl _
  · exact h
  · exact not_lt.mp h1

theorem fixedLip_eq (pr : Params α) (h : fixedLip pr = true) : pr.Lmin = pr.Lmax := by
  unfold fixedLip fista_fixedLipschitz at h
  simpa using h

/-- the Lipschitz estimate the loop starts from is positive and within `nL` doublings of `L_max` -/
theorem initIterate_lbound (P : Problem α) (pr : Params α) (x0 gV : Vec α) (nan : α) (nL : Nat)
    (hp : FistaFuelOK pr nL) : LBound pr nL (initIterate P pr x0 gV nan).1.L := by
  have hLmax : 0 < pr.Lmax := lt_of_lt_of_le hp.lmin_pos hp.lmin_le
  unfold initIterate
  simp only []
  by_cases hfix : fixedLip pr = true
  · rw [if_pos hfix]
    refine ⟨hLmax, ?_⟩
    show pr.Lmax ≤ pr.Lmax * 2 ^ nL
    have : (1 : α) ≤ 2 ^ nL := one_le_pow₀ (by norm_num)
    nlinarith
  · rw [if_neg hfix]
    by_cases h0 : pr.L0 ≤ 0
    · rw [if_pos h0]
      have hge : pr.Lmin ≤ (initialLipschitz P pr x0).1 := by
        unfold initialLipschitz; simp only []; exact eclamp_ge_lo _ _ _ hp.lmin_le
      refine ⟨lt_of_lt_of_le hp.lmin_pos hge, le_trans hp.lmax_lmin ?_⟩
      exact mul_le_mul_of_nonneg_right hge (by positivity)
    · rw [if_neg h0]
      have h0' : 0 < pr.L0 := not_le.mp h0
      exact ⟨h0', hp.lmax_l0 (by simpa using hfix) h0'⟩

/-- **A whole FISTA solve never runs out of model fuel** under `FistaFuelOK` — for all oracles, stop
    schedules, budgets. -/
theorem run_fuelOut_false (P : Problem α) (pr : Params α) (stop : Nat → Bool) (oot : Bool)
    (x0 y Sig errz0 gV : Vec α) (nan inf : α) (nL : Nat) (hp : FistaFuelOK pr nL) :
    (run P pr stop oot x0 y Sig errz0 gV nan inf).fuelOut = false := by
  unfold run
  cases hi : initState P pr x0 gV nan with
  | inl t => rfl
  | inr s =>
    simp only []
    have hk := initState_k P pr x0 gV nan s hi
    have hlb := initIterate_lbound P pr x0 gV nan nL hp
    unfold initState at hi
    simp only [] at hi
    split_ifs at hi
    injection hi with hi
    subst hi
    exact mainLoop_fuel P pr stop oot x0 y Sig errz0 nL hp _ _ hlb rfl (by show 0 ≤ pr.maxIter; omega)
      (by show pr.maxIter + 1 ≤ pr.maxIter + 2 + 0; omega)

end Alpaqa.Fista
