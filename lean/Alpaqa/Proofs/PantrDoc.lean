/-
  PANTR loop model: (a) a generic "invariant of the loop heads" principle — any predicate on the loop
  state that `headStep` and `iterBody` preserve holds at the head the solve exits from, and any
  predicate on iterates it implies for the current iterate holds for every iterate handed to the
  progress callback —, and (b) the gradient-consistency invariant `c.gradPsi = ∇ψ(c.x)` of the
  current iterate, under the oracle-consistency contract `GradOracles`.

  Used by `Props/C06_Pantr.lean` (`pantr_eps_is_documented`: the returned ε is the documented formula
  of the final iterate's `(x, x̂, γ, ∇ψ(x), ∇ψ(x̂), ŷ)`) and by `Proofs/PantrSized.lean`.

  No fuel hypothesis: the main loop's fuel `max_iter + 1` suffices unconditionally (every return of
  `run` is a head exit), and the invariants used here survive a `backtrack_qub` that ran out of model
  fuel.
-/
import Alpaqa.Proofs.PantrChain

namespace Alpaqa.Pantr
open Alpaqa Alpaqa.Gen
set_option linter.unusedSectionVars false
set_option linter.unusedVariables false

variable {α D : Type} [Field α] [LinearOrder α] [IsStrictOrderedRing α] [RealLike α]

/-! ### Invariants of the loop heads -/

/-- `Inv` is preserved by the loop head and by one pass of the loop body. -/
structure HeadInv (Inv : St α D → Prop) (co : Consts α) (P : Problem α) (dir : Direction D α)
    (pr : Params α) (stop : Nat → Bool) (oot : Bool) : Prop where
  head : ∀ s, Inv s → Inv (headStep P pr stop oot s).1
  iter : ∀ s eps, Inv s → Inv (iterBody co P dir pr stop s eps)

/-- **Every return of the main loop is the exit block of a head that satisfies the invariant.** -/
theorem mainLoop_exit_inv (Inv : St α D → Prop) (co : Consts α) (P : Problem α) (dir : Direction D α)
    (pr : Params α) (stop : Nat → Bool) (oot : Bool) (hI : HeadInv Inv co P dir pr stop oot)
    (x0 y Sig errz0 : Vec α) (fuel : Nat) (s : St α D)
    (hk : s.k + fuel = pr.maxIter + 1) (hf : 0 < fuel) (h0 : Inv s) :
    ∃ s' : St α D, Inv s' ∧ s'.k ≤ pr.maxIter ∧ (headStep P pr stop oot s').2.2 ≠ .Busy ∧
      mainLoop co P dir pr stop oot x0 y Sig errz0 fuel s =
        exitBlock co pr (headStep P pr stop oot s').1 (headStep P pr stop oot s').2.1
          (headStep P pr stop oot s').2.2 x0 y Sig errz0 := by
  induction fuel generalizing s with
  | zero => omega
  | succ f ih =>
    unfold mainLoop
    simp only []
    by_cases hb : (headStep P pr stop oot s).2.2 = .Busy
    · simp only [hb, bne_self_eq_false, Bool.false_eq_true, if_false]
      have hh := headStep_same P pr stop oot s
      have hne := headStep_busy_k_ne P pr stop oot s hb
      have hk' := (iterBody_spec co P dir pr stop (headStep P pr stop oot s).1
        (headStep P pr stop oot s).2.1).2.2.1
      exact ih _ (by rw [hk', hh.2.2.1]; omega) (by omega) (hI.iter _ _ (hI.head s h0))
    · refine ⟨s, h0, by omega, hb, ?_⟩
      simp [hb]

/-- … and every iterate handed to the progress callback satisfies what the invariant says about the
    current iterate (any fuel: the model's fuel exit reports the current iterate as well). -/
theorem mainLoop_callbacks_inv (Inv : St α D → Prop) (Q : Iterate α → Prop) (co : Consts α)
    (P : Problem α) (dir : Direction D α) (pr : Params α) (stop : Nat → Bool) (oot : Bool)
    (hI : HeadInv Inv co P dir pr stop oot) (hQ : ∀ s, Inv s → Q s.curr)
    (x0 y Sig errz0 : Vec α) (fuel : Nat) (s : St α D) (h0 : Inv s) (hc : ∀ cb ∈ s.cbs, Q cb.it) :
    ∀ cb ∈ (mainLoop co P dir pr stop oot x0 y Sig errz0 fuel s).callbacks, Q cb.it := by
  have hexit : ∀ (s : St α D) (eps : α) (st : SolverStatus), Inv s → (∀ cb ∈ s.cbs, Q cb.it) →
      ∀ cb ∈ (exitBlock co pr s eps st x0 y Sig errz0).callbacks, Q cb.it := by
    intro s eps st h1 h2 cb hmem
    unfold exitBlock at hmem
    simp only [List.mem_reverse, List.mem_cons] at hmem
    rcases hmem with rfl | hmem
    · exact hQ s h1
    · exact h2 cb hmem
  induction fuel generalizing s with
  | zero => simp only [mainLoop]; exact hexit s _ _ h0 hc
  | succ f ih =>
    unfold mainLoop
    simp only []
    have hcb := (headStep_cbs P pr stop oot s).1
    have hh := hI.head s h0
    split_ifs with hb
    · exact hexit _ _ _ hh (by rw [hcb]; exact hc)
    · obtain ⟨cb0, hcbs, hit, -, -, -⟩ :=
        iterBody_cbs co P dir pr stop (headStep P pr stop oot s).1 (headStep P pr stop oot s).2.1
      refine ih _ (hI.iter _ _ hh) ?_
      intro cb hmem
      rw [hcbs, List.mem_cons] at hmem
      rcases hmem with rfl | hmem
      · rw [hit]; exact hQ _ hh
      · rw [hcb] at hmem; exact hc cb hmem

/-- What `headStep` leaves untouched (besides `curr`, `k`, `cbs`, …: `headStep_same`, `headStep_cbs`). -/
theorem headStep_d (P : Problem α) (pr : Params α) (stop : Nat → Bool) (oot : Bool) (s : St α D) :
    (headStep P pr stop oot s).1.d = s.d ∧ (headStep P pr stop oot s).1.prox = s.prox ∧
    (headStep P pr stop oot s).1.cand = s.cand := by
  unfold headStep; exact ⟨rfl, rfl, rfl⟩

/-- The whole solve: if the initial loop state satisfies `Inv`, the solve returns the exit block of a
    head satisfying `Inv`. -/
theorem run_exit_inv (Inv : St α D → Prop) (co : Consts α) (P : Problem α) (dir : Direction D α)
    (d0 : D) (pr : Params α) (stop : Nat → Bool) (oot : Bool) (hI : HeadInv Inv co P dir pr stop oot)
    (x0 y Sig errz0 gV : Vec α) (s : St α D) (hi : initState co P d0 pr stop x0 gV = .inr s)
    (h0 : Inv s) :
    ∃ s' : St α D, Inv s' ∧ s'.k ≤ pr.maxIter ∧ (headStep P pr stop oot s').2.2 ≠ .Busy ∧
      run co P dir d0 pr stop oot x0 y Sig errz0 gV =
        exitBlock co pr (headStep P pr stop oot s').1 (headStep P pr stop oot s').2.1
          (headStep P pr stop oot s').2.2 x0 y Sig errz0 := by
  have hk := (initState_good co P d0 pr stop x0 gV s hi).2.2.1
  obtain ⟨s', h1, h2, h3, h4⟩ := mainLoop_exit_inv Inv co P dir pr stop oot hI x0 y Sig errz0
    (pr.maxIter + 1) s (by rw [hk]; omega) (by omega) h0
  refine ⟨s', h1, h2, h3, ?_⟩
  unfold run; simp only [hi]; exact h4

theorem run_callbacks_inv (Inv : St α D → Prop) (Q : Iterate α → Prop) (co : Consts α)
    (P : Problem α) (dir : Direction D α) (d0 : D) (pr : Params α) (stop : Nat → Bool) (oot : Bool)
    (hI : HeadInv Inv co P dir pr stop oot) (hQ : ∀ s, Inv s → Q s.curr)
    (x0 y Sig errz0 gV : Vec α)
    (h0 : ∀ s, initState co P d0 pr stop x0 gV = .inr s → Inv s) :
    ∀ cb ∈ (run co P dir d0 pr stop oot x0 y Sig errz0 gV).callbacks, Q cb.it := by
  unfold run
  cases hi : initState co P d0 pr stop x0 gV with
  | inl t => simp
  | inr s =>
    simp only []
    have hc : s.cbs = [] := (initState_good co P d0 pr stop x0 gV s hi).2.2.2
    exact mainLoop_callbacks_inv Inv Q co P dir pr stop oot hI hQ x0 y Sig errz0 _ s (h0 s hi)
      (by rw [hc]; simp)

/-! ### `c.gradPsi = ∇ψ(c.x)` -/

/-- Consistency of the gradient oracles: `eval_ψ_grad_ψ` returns the gradient `eval_grad_ψ` returns,
    and `eval_grad_L(x, ŷ(x))` — how pantr.tpp obtains `∇ψ(x̂)` from `x̂` and the multipliers `ŷ` that
    `eval_ψ` left — is that gradient too. -/
structure GradOracles (P : Problem α) : Prop where
  pgp : ∀ x, (P.psiGradPsi x).2.1 = P.gradPsi x
  gradL : ∀ x, P.gradL x (P.psi x).2 = P.gradPsi x

/-- the iterate's `grad_ψ` is the gradient at the iterate's own `x` -/
def GradCons (P : Problem α) (i : Iterate α) : Prop := i.gradPsi = P.gradPsi i.x

theorem gradCons_evalPsiGradPsi (P : Problem α) (hO : GradOracles P) (i : Iterate α) :
    GradCons P (evalPsiGradPsi P i) := by
  unfold GradCons evalPsiGradPsi; exact hO.pgp _

theorem gradCons_evalProxGradStep (P : Problem α) (i : Iterate α) (h : GradCons P i) :
    GradCons P (evalProxGradStep P i) := h

theorem gradCons_evalPsiHat (P : Problem α) (i : Iterate α) (h : GradCons P i) :
    GradCons P (evalPsiHat P i) := h

theorem gradCons_backtrackQub (P : Problem α) (pr : Params α) (stop : Nat → Bool) (f : Nat)
    (c : Iterate α) (t b : Nat) (h : GradCons P c) : GradCons P (backtrackQub P pr stop f c t b).1 := by
  have hs := backtrackQub_same P pr stop f c t b
  unfold GradCons; rw [hs.1, hs.2.2]; exact h

theorem candidateFbe_gradCons (P : Problem α) (hO : GradOracles P) (pr : Params α)
    (stop : Nat → Bool) (prox cand : Iterate α) (q : Vec α) (t : Nat) :
    GradCons P (candidateFbe P pr stop prox cand q t).1 := by
  have h1 : GradCons P (evalProxGradStep P
      { (evalPsiGradPsi P { cand with x := vadd prox.x q }) with gamma := prox.gamma, L := prox.L }) :=
    gradCons_evalPsiGradPsi P hO _
  unfold candidateFbe
  simp only []
  split_ifs
  · exact gradCons_backtrackQub P pr stop _ _ _ _ (gradCons_evalPsiHat P _ h1)
  · exact h1

theorem trAttempt_cand_gradCons (co : Consts α) (P : Problem α) (hO : GradOracles P)
    (dir : Direction D α) (pr : Params α) (stop : Nat → Bool) (b : Mid α D) (hb : b.accept = false)
    (ha : (trAttempt co P dir pr stop b).accept = true) :
    GradCons P (trAttempt co P dir pr stop b).cand := by
  unfold trAttempt at ha ⊢
  simp only [] at ha ⊢
  split_ifs at ha ⊢
  · exact candidateFbe_gradCons P hO pr stop _ _ _ _
  · exact absurd ha (by simp [hb])

theorem trStage_cand_gradCons (co : Consts α) (P : Problem α) (hO : GradOracles P)
    (dir : Direction D α) (pr : Params α) (stop : Nat → Bool) (s : St α D)
    (ha : (trStage co P dir pr stop s).accept = true) :
    GradCons P (trStage co P dir pr stop s).cand := by
  unfold trStage at ha ⊢
  simp only [] at ha ⊢
  split_ifs at ha ⊢
  exact trAttempt_cand_gradCons co P hO dir pr stop _ rfl ha

/-- Whichever path one pass of the loop body takes, the iterate that is current afterwards went
    through `eval_ψ_grad_ψ` at its own `x` (accepted: the candidate; rejected: `compute_FBS_step`
    re-evaluates at `x̂ₖ`). -/
theorem iterBody_gradCons (co : Consts α) (P : Problem α) (hO : GradOracles P) (dir : Direction D α)
    (pr : Params α) (stop : Nat → Bool) (s : St α D) (eps : α) :
    GradCons P (iterBody co P dir pr stop s eps).curr := by
  have hc := iterBody_curr co P dir pr stop s eps
  by_cases ha : (trStage co P dir pr stop s).accept = true
  · have hs := trStage_cand_gradCons co P hO dir pr stop s ha
    by_cases hr : pr.computeRatioUsingNewStepsize = true
    · rw [hc.1 ha hr]; exact hs
    · rw [hc.2.1 ha (by simpa using hr)]
      exact gradCons_backtrackQub P pr stop _ _ _ _ (gradCons_evalPsiHat P _ hs)
  · rw [hc.2.2 (by simpa using ha)]
    refine gradCons_backtrackQub P pr stop _ _ _ _ (gradCons_evalPsiHat P _ ?_)
    rw [trStage_prox]
    have hf := fbsStep_fields P pr s
    unfold GradCons
    rw [hf.2.2.1, hf.1]; exact hO.pgp _

theorem initState_gradCons (co : Consts α) (P : Problem α) (hO : GradOracles P) (d0 : D)
    (pr : Params α) (stop : Nat → Bool) (x0 gV : Vec α) (s : St α D)
    (hi : initState co P d0 pr stop x0 gV = .inr s) : GradCons P s.curr := by
  have hl : GradCons P (lipschitzStage co P pr x0 gV).1 := by
    unfold lipschitzStage
    simp only []
    split_ifs
    · unfold GradCons initialLipschitz; exact hO.pgp _
    · exact gradCons_evalPsiGradPsi P hO _
  unfold initState at hi
  simp only [] at hi
  split_ifs at hi
  injection hi with hi; subst hi
  exact gradCons_backtrackQub P pr stop _ _ _ _ hl

/-- The invariant behind `pantr_eps_is_documented`: the current iterate carries a consistent prox step
    and ŷ, a positive step size with `γ·L = Lγ_factor`, and its `grad_ψ` is `∇ψ` at its own `x`. -/
def DocInv (P : Problem α) (pr : Params α) (s : St α D) : Prop :=
  Good P s.curr ∧ GammaOK pr s.curr ∧ GradCons P s.curr

theorem docInv_headInv (co : Consts α) (P : Problem α) (hO : GradOracles P) (dir : Direction D α)
    (pr : Params α) (stop : Nat → Bool) (oot : Bool) :
    HeadInv (DocInv P pr) co P dir pr stop oot := by
  constructor
  · intro s h
    unfold DocInv
    rw [(headStep_same P pr stop oot s).1]; exact h
  · intro s eps h
    exact ⟨(iterBody_spec co P dir pr stop s eps).1, h.2.1.of_GL (iterBody_GL co P dir pr stop s eps),
      iterBody_gradCons co P hO dir pr stop s eps⟩

theorem initState_docInv (co : Consts α) (P : Problem α) (hO : GradOracles P) (d0 : D)
    (pr : Params α) (hp : ParamsOK pr) (stop : Nat → Bool) (x0 gV : Vec α) (s : St α D)
    (hi : initState co P d0 pr stop x0 gV = .inr s) : DocInv P pr s :=
  ⟨(initState_good co P d0 pr stop x0 gV s hi).1, initState_gammaOK co P d0 pr stop x0 gV hp s hi,
    initState_gradCons co P hO d0 pr stop x0 gV s hi⟩

end Alpaqa.Pantr
