/-
  C06 helper lemmas.

  1. The left-fold reductions of `Model/Vec.lean` (`normInf`, `norm1`, `norm2`) are the mathematical
     norms `max_i |v_i|`, `Σ|v_i|`, `√(Σ v_i²)` over a linearly ordered field.
  2. Sign discipline of the generated stopping criteria on a carrier with NaN / ±inf: `NN a` =
     "a is NaN or 0 ≤ a".  `SignLaws α` lists what is needed of the carrier's arithmetic; every generated
     criterion is `NN` under these laws (so ε = −inf is unreachable).
  3. `XR β` (`Model/XR.lean`) with IEEE-754 arithmetic on `±inf` / `nan` (no signed zero: the divisor `0`
     stands for `+0`) satisfies the laws.
-/
import Alpaqa.Proofs.VecLemmas
import Alpaqa.Gen.C06
import Alpaqa.Model.XR

namespace Alpaqa.C06Spec
open Alpaqa Alpaqa.Gen
set_option linter.unusedSectionVars false
set_option linter.unusedVariables false

/-! ### 1. Norms as mathematical objects -/
section norms
variable {α : Type} [Field α] [LinearOrder α] [IsStrictOrderedRing α]

/-- `‖v‖∞ = max_i |v_i|` (0 for the empty vector). -/
def maxAbs : List α → α
  | [] => 0
  | x :: xs => max |x| (maxAbs xs)

/-- `‖v‖₁ = Σ_i |v_i|`. -/
def sumAbs (v : List α) : α := (v.map (fun a => |a|)).sum

/-- `Σ_i v_i²`. -/
def sumSq (v : List α) : α := (v.map (fun a => a ^ 2)).sum

theorem maxAbs_nonneg (v : List α) : 0 ≤ maxAbs v := by
  cases v with
  | nil => exact le_refl _
  | cons x xs => exact le_trans (abs_nonneg x) (le_max_left _ _)

theorem sumSq_nonneg (v : List α) : 0 ≤ sumSq v := by
  unfold sumSq
  apply List.sum_nonneg
  intro a ha
  rw [List.mem_map] at ha
  obtain ⟨b, _, rfl⟩ := ha
  exact sq_nonneg b

theorem foldl_emax_vabs (l : List α) (a : α) (ha : 0 ≤ a) :
    (vabs l).foldl emax a = max a (maxAbs l) := by
  induction l generalizing a with
  | nil => simp [vabs, maxAbs, max_eq_left ha]
  | cons y ys ih =>
    have := ih (max a |y|) (le_trans ha (le_max_left _ _))
    simp only [vabs, List.map_cons, List.foldl_cons, maxAbs] at this ⊢
    rw [emax_eq_max, eabs_eq_abs, this, max_assoc]

/-- Eigen's `lpNorm<Infinity>` fold is `max_i |v_i|`. -/
theorem normInf_eq_maxAbs (v : List α) : normInf v = maxAbs v := by
  cases v with
  | nil => rfl
  | cons x xs =>
    unfold normInf redux
    simp only [vabs, List.map_cons]
    have := foldl_emax_vabs xs (eabs x) (by rw [eabs_eq_abs]; exact abs_nonneg x)
    simp only [vabs] at this
    rw [this, eabs_eq_abs]
    rfl

theorem foldl_add_eq (xs : List α) (a : α) : xs.foldl (· + ·) a = a + xs.sum := by
  induction xs generalizing a with
  | nil => simp
  | cons x xs ih => simp [ih, add_assoc]

theorem vsum_eq_sum (l : List α) : vsum l = l.sum := by
  cases l with
  | nil => rfl
  | cons x xs => simp [vsum, redux, foldl_add_eq]

/-- Eigen's `lpNorm<1>` fold is `Σ|v_i|`. -/
theorem norm1_eq_sumAbs (v : List α) : norm1 v = sumAbs v := by
  unfold norm1 sumAbs
  rw [vsum_eq_sum]
  congr 1
  unfold vabs
  apply List.map_congr_left
  intro a _
  exact eabs_eq_abs a

theorem sqNorm_eq_sumSq (v : List α) : sqNorm v = sumSq v := by
  unfold sqNorm sumSq
  rw [vsum_eq_sum]
  congr 1
  apply List.map_congr_left
  intro a _
  ring

/-- Eigen's `norm()` is `√(Σ v_i²)`. -/
theorem norm2_eq_sqrt_sumSq [RealLike α] (v : List α) : norm2 v = RealLike.sqrt (sumSq v) := by
  unfold norm2; rw [sqNorm_eq_sumSq]

theorem maxAbs_congr_abs (v w : List α) (h : v.map (fun a => |a|) = w.map (fun a => |a|)) :
    maxAbs v = maxAbs w := by
  induction v generalizing w with
  | nil =>
    cases w with
    | nil => rfl
    | cons _ _ => simp at h
  | cons x xs ih =>
    cases w with
    | nil => simp at h
    | cons y ys =>
      simp only [List.map_cons, List.cons.injEq] at h
      simp only [maxAbs]
      rw [h.1, ih ys h.2]

theorem sumSq_congr_abs (v w : List α) (h : v.map (fun a => |a|) = w.map (fun a => |a|)) :
    sumSq v = sumSq w := by
  unfold sumSq
  have e : ∀ u : List α, u.map (fun a => a ^ 2) = (u.map (fun a => |a|)).map (fun a => a ^ 2) := by
    intro u
    rw [List.map_map]
    apply List.map_congr_left
    intro a _
    simp
  rw [e v, e w, h]

theorem sumAbs_congr_abs (v w : List α) (h : v.map (fun a => |a|) = w.map (fun a => |a|)) :
    sumAbs v = sumAbs w := by
  unfold sumAbs; rw [h]

/-- `|a − b|` componentwise is symmetric: `‖a − b‖ = ‖b − a‖` for each of the three norms. -/
theorem abs_vsub_comm (a b : List α) :
    (vsub a b).map (fun c => |c|) = (vsub b a).map (fun c => |c|) := by
  unfold vsub vzip
  induction a generalizing b with
  | nil => simp
  | cons x xs ih =>
    cases b with
    | nil => simp
    | cons y ys =>
      simp only [List.zipWith_cons_cons, List.map_cons, List.cons.injEq]
      exact ⟨abs_sub_comm x y, ih ys⟩

theorem smul_one (g : List α) : smul (1 : α) g = g := by
  unfold smul
  induction g with
  | nil => rfl
  | cons x xs ih => rw [List.map_cons, one_mul, ih]

end norms

/-! ### 2. Sign discipline on carriers with NaN / ±inf -/
section sign
variable {α : Type} [Add α] [Sub α] [Mul α] [Div α] [Neg α] [LT α] [LE α] [DecidableLT α]
  [DecidableLE α] [BEq α] [RealLike α] [NatCast α] [OfScientific α]
  [OfNat α 0] [OfNat α 1] [OfNat α 2] [OfNat α 100]

/-- "NaN or nonnegative". -/
def NN (a : α) : Prop := RealLike.isNaN a = true ∨ (0 : α) ≤ a

/-- What the sign argument needs from the carrier's arithmetic. -/
structure SignLaws (α : Type) [Add α] [Mul α] [Div α] [Neg α] [LT α] [LE α] [DecidableLT α]
    [RealLike α] [NatCast α] [OfNat α 0] [OfNat α 1] [OfNat α 100] : Prop where
  zero : NN (0 : α)
  one : NN (1 : α)
  hundred : NN (100 : α)
  natCast : ∀ n : Nat, NN ((n : α))
  eabs : ∀ a : α, NN (eabs a)
  add : ∀ a b : α, NN a → NN b → NN (a + b)
  sq : ∀ a : α, NN (a * a)
  sqrt : ∀ a : α, NN a → NN (RealLike.sqrt a)
  div : ∀ a b : α, NN a → NN b → NN (a / b)

variable (L : SignLaws α)
include L

theorem nn_emax (a b : α) (ha : NN a) (hb : NN b) : NN (emax a b) := by
  unfold emax; split_ifs <;> assumption

theorem nn_fmaxS (a b : α) (ha : NN a) (hb : NN b) : NN (fmaxS a b) := by
  unfold fmaxS; split_ifs <;> assumption

theorem nn_foldl_emax (l : List α) (a : α) (ha : NN a) (hl : ∀ x ∈ l, NN x) : NN (l.foldl emax a) := by
  induction l generalizing a with
  | nil => exact ha
  | cons y ys ih =>
    simp only [List.foldl_cons]
    exact ih _ (nn_emax L a y ha (hl y (List.mem_cons_self ..)))
      (fun x hx => hl x (List.mem_cons_of_mem _ hx))

theorem nn_foldl_add (l : List α) (a : α) (ha : NN a) (hl : ∀ x ∈ l, NN x) :
    NN (l.foldl (· + ·) a) := by
  induction l generalizing a with
  | nil => exact ha
  | cons y ys ih =>
    simp only [List.foldl_cons]
    exact ih _ (L.add a y ha (hl y (List.mem_cons_self ..)))
      (fun x hx => hl x (List.mem_cons_of_mem _ hx))

theorem nn_redux_emax (l : List α) (hl : ∀ x ∈ l, NN x) : NN (redux emax 0 l) := by
  cases l with
  | nil => exact L.zero
  | cons y ys =>
    exact nn_foldl_emax L ys y (hl y (List.mem_cons_self ..)) (fun x hx => hl x (List.mem_cons_of_mem _ hx))

theorem nn_vsum (l : List α) (hl : ∀ x ∈ l, NN x) : NN (vsum l) := by
  cases l with
  | nil => exact L.zero
  | cons y ys =>
    exact nn_foldl_add L ys y (hl y (List.mem_cons_self ..)) (fun x hx => hl x (List.mem_cons_of_mem _ hx))

theorem nn_normInf (v : List α) : NN (normInf v) := by
  unfold normInf
  apply nn_redux_emax L
  intro x hx
  unfold vabs at hx
  rw [List.mem_map] at hx
  obtain ⟨a, _, rfl⟩ := hx
  exact L.eabs a

theorem nn_norm1 (v : List α) : NN (norm1 v) := by
  unfold norm1
  apply nn_vsum L
  intro x hx
  unfold vabs at hx
  rw [List.mem_map] at hx
  obtain ⟨a, _, rfl⟩ := hx
  exact L.eabs a

theorem nn_sqNorm (v : List α) : NN (sqNorm v) := by
  unfold sqNorm
  apply nn_vsum L
  intro x hx
  rw [List.mem_map] at hx
  obtain ⟨a, _, rfl⟩ := hx
  exact L.sq a

theorem nn_norm2 (v : List α) : NN (norm2 v) := L.sqrt _ (nn_sqNorm L v)

/-- **Every generated stopping criterion is NaN or nonnegative** whenever the step size is (`γ` only
    enters as a divisor, in `FPRNorm` / `FPRNorm2`; inside `ApproxKKT` it is under a norm). -/
theorem crit_NN (c : PANOCStopCrit) (prox : α → Vec α → Vec α → Vec α × Vec α) (p : Vec α) (γ : α)
    (x xh yh g gh : Vec α) (hγ : NN γ) : NN (calcErrorStopCrit c prox p γ x xh yh g gh) := by
  cases c <;> simp only [calcErrorStopCrit]
  · exact nn_normInf L _
  · exact nn_norm2 L _
  · exact nn_normInf L _
  · exact nn_norm2 L _
  · exact nn_normInf L _
  · exact nn_norm2 L _
  · exact L.div _ _ (nn_normInf L _) hγ
  · exact L.div _ _ (nn_norm2 L _) hγ
  · unfold stopCrit_Ipopt
    simp only []
    split_ifs
    · exact nn_normInf L _
    · refine L.div _ _ (nn_normInf L _) (L.div _ _ (nn_emax L _ _ L.hundred ?_) L.hundred)
      exact L.div _ _ (L.add _ _ (nn_norm1 L _) (nn_norm1 L _)) (L.natCast _)
  · exact L.div _ _ (nn_normInf L _) (nn_fmaxS L _ _ L.one (nn_norm2 L _))

/-- …and so is every criterion of the PANOC-OCP copy, given that for the stored `‖p‖²`. -/
theorem critOcp_NN (c : PANOCStopCrit) (proxOcp : α → Vec α → Vec α → Vec α × Vec α × α) (γ : α)
    (xu g p : Vec α) (pTp : α) (hγ : NN γ) (hp : NN pTp) (hw : NN (proxOcp 1 xu g).2.2) :
    ∀ e, calcErrorStopCritOcp c proxOcp γ xu g p pTp = some e → NN e := by
  intro e he
  cases c <;> simp only [calcErrorStopCritOcp, Option.some.injEq, reduceCtorEq] at he <;> subst he
  · exact nn_normInf L _
  · exact L.sqrt _ hp
  · exact nn_normInf L _
  · exact L.sqrt _ hw
  · exact L.div _ _ (nn_normInf L _) hγ
  · exact L.div _ _ (L.sqrt _ hp) hγ

end sign

end Alpaqa.C06Spec

/-! ### 3. IEEE-754 arithmetic on `XR β` -/
namespace Alpaqa.XR
open Alpaqa
variable {β : Type} [Field β] [LinearOrder β] [IsStrictOrderedRing β]

/-- IEEE addition: `inf + (−inf) = nan`, NaN propagates. -/
def add : XR β → XR β → XR β
  | fin a, fin b => fin (a + b)
  | nan, _ => nan
  | _, nan => nan
  | pinf, ninf => nan
  | ninf, pinf => nan
  | pinf, _ => pinf
  | _, pinf => pinf
  | ninf, _ => ninf
  | _, ninf => ninf

def neg : XR β → XR β
  | fin a => fin (-a)
  | pinf => ninf
  | ninf => pinf
  | nan => nan

/-- sign of a finite value times `+inf`: `0 · inf = nan`. -/
def sgnInf (a : β) : XR β := if 0 < a then pinf else if a < 0 then ninf else nan

/-- IEEE multiplication. -/
def mul : XR β → XR β → XR β
  | fin a, fin b => fin (a * b)
  | nan, _ => nan
  | _, nan => nan
  | fin a, pinf => sgnInf a
  | pinf, fin a => sgnInf a
  | fin a, ninf => sgnInf (-a)
  | ninf, fin a => sgnInf (-a)
  | pinf, pinf => pinf
  | ninf, ninf => pinf
  | pinf, ninf => ninf
  | ninf, pinf => ninf

/-- IEEE division; a finite divisor `0` stands for `+0` (`a/0 = ±inf` by the sign of `a`, `0/0 = nan`);
    `x/±inf = 0` for finite `x` (the sign of that zero is not represented), `inf/inf = nan`. -/
def div : XR β → XR β → XR β
  | nan, _ => nan
  | _, nan => nan
  | fin a, fin b => if b = 0 then sgnInf a else fin (a / b)
  | fin _, pinf => fin 0
  | fin _, ninf => fin 0
  | pinf, fin b => if b < 0 then ninf else pinf
  | ninf, fin b => if b < 0 then pinf else ninf
  | pinf, pinf => nan
  | pinf, ninf => nan
  | ninf, pinf => nan
  | ninf, ninf => nan

instance : Add (XR β) := ⟨add⟩
instance : Neg (XR β) := ⟨neg⟩
instance : Sub (XR β) := ⟨fun a b => add a (neg b)⟩
instance : Mul (XR β) := ⟨mul⟩
instance : Div (XR β) := ⟨div⟩
instance : NatCast (XR β) := ⟨fun n => fin (n : β)⟩

open C06Spec in
/-- `NN` on `XR β`, spelled out: NaN, `+inf`, or a nonnegative finite value. -/
theorem nn_iff (a : XR β) : NN a ↔ a = nan ∨ a = pinf ∨ ∃ x : β, 0 ≤ x ∧ a = fin x := by
  unfold NN
  cases a with
  | fin x =>
    simp only [RealLike.isNaN, reduceCtorEq, false_or, fin.injEq, exists_eq_right', Bool.false_eq_true]
    show leb (fin (0 : β)) (fin x) = true ↔ _
    simp [leb]
  | pinf =>
    simp only [reduceCtorEq, false_or, true_or, or_true, iff_true]
    show leb (fin (0 : β)) pinf = true
    rfl
  | ninf =>
    simp only [RealLike.isNaN, reduceCtorEq, false_or, exists_false, and_false, Bool.false_eq_true, iff_false]
    show ¬ leb (fin (0 : β)) ninf = true
    simp [leb]
  | nan => simp [RealLike.isNaN]

open C06Spec in
/-- `-inf` is neither NaN nor nonnegative. -/
theorem not_nn_ninf : ¬ NN (ninf : XR β) := by
  rw [nn_iff]; simp

open C06Spec in
/-- **IEEE arithmetic on `XR β` satisfies the sign laws.** -/
theorem signLaws : SignLaws (XR β) where
  zero := (nn_iff _).mpr (Or.inr (Or.inr ⟨0, le_refl _, rfl⟩))
  one := (nn_iff _).mpr (Or.inr (Or.inr ⟨1, zero_le_one, rfl⟩))
  hundred := (nn_iff _).mpr (Or.inr (Or.inr ⟨100, by norm_num, rfl⟩))
  natCast := fun n => (nn_iff _).mpr (Or.inr (Or.inr ⟨(n : β), Nat.cast_nonneg n, rfl⟩))
  eabs := by
    intro a
    rw [nn_iff]
    unfold eabs
    cases a with
    | fin x =>
      by_cases hx : x < 0
      · have : (fin x : XR β) < 0 := by show ltb (fin x) (fin (0 : β)) = true; simpa [ltb] using hx
        rw [if_pos this]
        right; right; exact ⟨-x, by linarith, rfl⟩
      · have : ¬ (fin x : XR β) < 0 := by
          show ¬ ltb (fin x) (fin (0 : β)) = true; simpa [ltb] using hx
        rw [if_neg this]
        right; right; exact ⟨x + 0, by linarith [not_lt.mp hx], rfl⟩
    | pinf =>
      have : ¬ (pinf : XR β) < 0 := by show ¬ ltb pinf (fin (0 : β)) = true; simp [ltb]
      rw [if_neg this]; right; left; rfl
    | ninf =>
      have : (ninf : XR β) < 0 := by show ltb ninf (fin (0 : β)) = true; simp [ltb]
      rw [if_pos this]; right; left; rfl
    | nan =>
      have : ¬ (nan : XR β) < 0 := by show ¬ ltb nan (fin (0 : β)) = true; simp [ltb]
      rw [if_neg this]; left; rfl
  add := by
    intro a b ha hb
    rw [nn_iff] at ha hb ⊢
    rcases ha with rfl | rfl | ⟨x, hx, rfl⟩ <;> rcases hb with rfl | rfl | ⟨y, hy, rfl⟩
    all_goals first
      | (left; rfl)
      | (right; left; rfl)
      | (right; right; exact ⟨x + y, add_nonneg hx hy, rfl⟩)
  sq := by
    intro a
    rw [nn_iff]
    cases a with
    | fin x => right; right; exact ⟨x * x, mul_self_nonneg x, rfl⟩
    | pinf => right; left; rfl
    | ninf => right; left; rfl
    | nan => left; rfl
  sqrt := fun a h => h
  div := by
    intro a b ha hb
    rw [nn_iff] at ha hb ⊢
    rcases ha with rfl | rfl | ⟨x, hx, rfl⟩ <;> rcases hb with rfl | rfl | ⟨y, hy, rfl⟩
    · left; rfl
    · left; rfl
    · left; rfl
    · left; rfl
    · left; rfl
    · right; left
      show div pinf (fin y) = pinf
      simp [div, not_lt.mpr hy]
    · left; rfl
    · right; right; exact ⟨0, le_refl _, rfl⟩
    · show div (fin x) (fin y) = nan ∨ div (fin x) (fin y) = pinf ∨ _
      by_cases hy0 : y = 0
      · simp only [div, hy0, if_true, sgnInf]
        rcases lt_or_eq_of_le hx with h | h
        · right; left; simp [h]
        · left; simp [← h]
      · right; right
        refine ⟨x / y, div_nonneg hx hy, ?_⟩
        show div (fin x) (fin y) = fin (x / y)
        unfold div
        simp only [hy0, if_false]

end Alpaqa.XR
