/-
  Helper lemmas for `Props/C01_Alm.lean` (PANOC satisfies the inner-solver contract of C01):
  * the `∇ψ(x̂)` buffer invariant of the PANOC loop model — with lazy gradient evaluation, whenever
    the buffer is flagged valid it holds `eval_grad_L(x̂, ŷ)` of the iterate's own `x̂`, `ŷ` (the
    proofs mirror the `Good` invariant of `Proofs/PanocInv.lean`; purely structural, any carrier);
  * `mainLoop_exit_inv` / `run_exit_inv`: a solve that reached the main loop returns through the exit
    block at a loop head whose current iterate satisfies the step-size invariant (`Props/C05`
    `LoopInv`), the prox / ŷ consistency (`Good`) and the buffer invariant.
-/
import Alpaqa.Proofs.PanocInv
import Alpaqa.Proofs.PanocLoop
import Alpaqa.Props.C05

namespace Alpaqa.Panoc
open Alpaqa Alpaqa.Gen
set_option linter.unusedSectionVars false

variable {α D : Type} [Add α] [Sub α] [Mul α] [Div α] [Neg α] [LT α] [LE α] [DecidableLT α]
  [DecidableLE α] [BEq α] [RealLike α] [NatCast α] [OfScientific α]
  [OfNat α 0] [OfNat α 1] [OfNat α 2] [OfNat α 100]

/-- Whenever the `∇ψ(x̂)` buffer is flagged valid it holds `eval_grad_L(x̂, ŷ)` of the iterate's own
    `x̂`, `ŷ` — with lazy gradient evaluation, or in eager mode for consistent oracles (`OracleLaw`:
    then `eval_ψ_grad_ψ(x̂)` leaves `ŷ(x̂)` in `ŷx̂` and `∇L(x̂, ŷ(x̂))` in the buffer). -/
def GradHatCons (P : Problem α) (pr : Params α) (i : Iterate α) : Prop :=
  YhatMode P pr → i.haveGradHat = true → i.gradPsiHat = P.gradL i.xhat i.yhat

theorem gh_of_flag_false (P : Problem α) (pr : Params α) (i : Iterate α) (h : i.haveGradHat = false) :
    GradHatCons P pr i := by
  intro _ h2; rw [h] at h2; cases h2

theorem gh_evalStep (P : Problem α) (pr : Params α) (i : Iterate α) :
    GradHatCons P pr (evalPsiHat P pr (evalProxGradStep P i)) := by
  intro hm
  unfold evalPsiHat
  by_cases h : pr.eagerGradientEval
  · simp only [h, if_true]
    rcases hm with hl | hlaw
    · exact absurd hl (by simp [h])
    · intro _
      show (P.psiGradPsi _).2.1 = P.gradL _ (P.psiGradPsi _).2.2
      rw [(hlaw _).1, (hlaw _).2]
  · simp [h]

theorem gh_evalGradPsiHat (P : Problem α) (pr : Params α) (i : Iterate α) :
    GradHatCons P pr (evalGradPsiHat P i) := fun _ _ => rfl

theorem takeSafeStep_curr_gh (P : Problem α) (pr : Params α) (c n : Iterate α) (t : Nat) :
    GradHatCons P pr (takeSafeStep P c n t).1 := by
  apply gh_of_flag_false
  unfold takeSafeStep
  by_cases hh : c.haveGradHat <;> simp

theorem lsRecompute_gh (P : Problem α) (pr : Params α) (q : Vec α) (s : LS α D)
    (h : GradHatCons P pr s.curr) : GradHatCons P pr (lsRecompute P q s).curr := by
  unfold lsRecompute
  split_ifs
  · exact h
  · exact takeSafeStep_curr_gh P pr _ _ _
  · exact h

theorem lsPass_gh (P : Problem α) (dir : Direction D α) (pr : Params α) (q : Vec α) (tauInit : α)
    (s : LS α D) (h : GradHatCons P pr s.curr) :
    match lsPass P dir pr q tauInit s with
    | .done s' => GradHatCons P pr s'.curr ∧ GradHatCons P pr s'.next
    | .again s' => GradHatCons P pr s'.curr := by
  have h1 := lsRecompute_gh P pr q s h
  unfold lsPass
  simp only []
  split_ifs <;>
    first
    | exact h1
    | (rw [(lsUpdateInCandidate_same dir _).1]; exact h1)
    | exact ⟨by rw [(lsUpdateInCandidate_same dir _).1]; exact h1,
             by rw [(lsUpdateInCandidate_same dir _).2.1]; exact gh_evalStep P pr _⟩

theorem lineSearch_gh (P : Problem α) (dir : Direction D α) (pr : Params α) (stop : Nat → Bool)
    (q : Vec α) (tauInit : α) (fuel : Nat) (s : LS α D) (h : GradHatCons P pr s.curr) :
    GradHatCons P pr (lineSearch P dir pr stop q tauInit fuel s).curr ∧
    ((lineSearch P dir pr stop q tauInit fuel s).fuelOut = false →
      stop (lineSearch P dir pr stop q tauInit fuel s).tick = false →
      GradHatCons P pr (lineSearch P dir pr stop q tauInit fuel s).next) := by
  induction fuel generalizing s with
  | zero => simp [lineSearch, h]
  | succ f ih =>
    unfold lineSearch
    by_cases hst : stop s.tick
    · simp only [hst, if_true]
      exact ⟨h, fun _ h2 => absurd h2 (by decide)⟩
    · simp only [hst, Bool.false_eq_true, if_false]
      have hp := lsPass_gh P dir pr q tauInit s h
      cases hpass : lsPass P dir pr q tauInit s with
      | done s' =>
        rw [hpass] at hp
        exact ⟨hp.1, fun _ _ => hp.2⟩
      | again s' =>
        rw [hpass] at hp
        exact ih s' hp

theorem initQub_gh (P : Problem α) (pr : Params α) (stop : Nat → Bool) (f : Nat) (c : Iterate α)
    (t b : Nat) (h : GradHatCons P pr c) : GradHatCons P pr (initQub P pr stop f c t b).1 := by
  induction f generalizing c t b with
  | zero => simpa [initQub] using h
  | succ f ih =>
    unfold initQub
    split_ifs
    · exact h
    · exact ih _ _ _ (gh_evalStep P pr _)
    · exact h

theorem initState_gh (P : Problem α) (d0 : D) (pr : Params α) (stop : Nat → Bool) (x0 gV : Vec α)
    (gS iS : α) (s : St α D) (h : initState P d0 pr stop x0 gV gS iS = .inr s) : GradHatCons P pr s.curr := by
  unfold initState at h
  simp only [] at h
  split_ifs at h
  all_goals first
    | (injection h with h; subst h; exact initQub_gh P pr stop _ _ _ _ (gh_evalStep P pr _))
    | (exact absurd h (by simp))

/-- the head's `ŷ` evaluation (eager mode) keeps the buffer invariant: under `YhatMode` the value written
    is the one `ŷx̂` already held -/
theorem headEvalYhat_gh (P : Problem α) (pr : Params α) (c : Iterate α) (hg : Good P pr c)
    (h : GradHatCons P pr c) : GradHatCons P pr (headEvalYhat P pr c).1 := by
  unfold headEvalYhat
  split_ifs
  · intro hm hh
    show c.gradPsiHat = P.gradL c.xhat (P.psi c.xhat).2
    rw [← hg.2 hm]; exact h hm hh
  · exact h

/-- At a loop head the buffer invariant is kept, and if the criterion reads `∇ψ(x̂)` the buffer is
    valid afterwards. -/
theorem headStep_gh (P : Problem α) (pr : Params α) (stop : Nat → Bool) (oot : Bool) (s : St α D)
    (hg : Good P pr s.curr) (h : GradHatCons P pr s.curr) :
    GradHatCons P pr (headStep P pr stop oot s).1.curr ∧
    (requiresGradHat pr.stopCrit = true → (headStep P pr stop oot s).1.curr.haveGradHat = true) := by
  have hy := headEvalYhat_gh P pr s.curr hg h
  rw [(headStep_curr P pr stop oot s).1]
  by_cases hr : requiresGradHat pr.stopCrit = true
  · by_cases hh : (headEvalYhat P pr s.curr).1.haveGradHat = true
    · simp only [hr, hh, Bool.not_true, Bool.and_false, Bool.false_eq_true, if_false]
      exact ⟨hy, fun _ => by first | exact hh | trivial⟩
    · have hh' : (headEvalYhat P pr s.curr).1.haveGradHat = false := by simpa using hh
      simp only [hr, hh', Bool.not_false, Bool.and_true, if_true]
      exact ⟨gh_evalGradPsiHat P pr _, fun _ => rfl⟩
  · have hr' : requiresGradHat pr.stopCrit = false := by simpa using hr
    simp only [hr', Bool.false_and, Bool.false_eq_true, if_false]
    exact ⟨hy, fun hc => absurd hc (by simp)⟩

theorem iterBody_gh (P : Problem α) (dir : Direction D α) (pr : Params α) (stop : Nat → Bool)
    (s : St α D) (eps : α) (h : GradHatCons P pr s.curr) (hf : s.fuelOut = false)
    (hf' : (iterBody P dir pr stop s eps).fuelOut = false) :
    GradHatCons P pr (iterBody P dir pr stop s eps).curr := by
  unfold iterBody at hf' ⊢
  simp only [] at hf' ⊢
  generalize hls : lineSearch P dir pr stop (directionStage dir s).2.2.1 (directionStage dir s).2.2.2.1
      pr.lsFuel _ = ls at hf' ⊢
  have hgood := lineSearch_gh P dir pr stop (directionStage dir s).2.2.1
      (directionStage dir s).2.2.2.1 pr.lsFuel
      { curr := s.curr, next := { s.next with gamma := s.curr.gamma, L := s.curr.L },
        d := (directionStage dir s).1, tick := (directionStage dir s).2.1,
        tau := (directionStage dir s).2.2.2.1, tauPrev := -1, updInLs := pr.updateDirInCandidate,
        updated := false, dirRejected := true, lsBacktracks := 0, stepsizeBacktracks := 0,
        lbfgsRejected := 0 } h
  rw [hls] at hgood
  by_cases hst : stop ls.tick
  · simp only [hst, if_true] at hf' ⊢
    exact hgood.1
  · simp only [hst, Bool.false_eq_true, if_false] at hf' ⊢
    have hlsf : ls.fuelOut = false := by
      rw [hf] at hf'; simpa using hf'
    exact hgood.2 hlsf (by simpa using hst)

end Alpaqa.Panoc

namespace Alpaqa.Panoc
open Alpaqa Alpaqa.Gen Alpaqa.Props.C05
set_option linter.unusedSectionVars false

variable {α D : Type} [Field α] [LinearOrder α] [IsStrictOrderedRing α] [RealLike α]

/-- What holds at every loop head of a solve (before the head's own `∇ψ(x̂)` evaluation). -/
structure HeadInv (n m : Nat) (P : Problem α) (pr : Params α) (s : St α D) : Prop where
  loop : LoopInv False True P pr s
  good : Good P pr s.curr
  grad : GradHatCons P pr s.curr
  sized : Sized n m s.curr

theorem mainLoop_exit_inv {n m : Nat} (P : Problem α) (hPs : ProblemSized n m P)
    (dir : Direction D α) (d0 : D) (hD : DirSized n dir d0) (pr : Params α)
    (hmin : 0 ≤ pr.minLsCoef) (stop : Nat → Bool) (oot : Bool)
    (x0 y Sig errz0 : Vec α) (fuel : Nat) (s : St α D) (h : HeadInv n m P pr s)
    (hd : DirOK n dir d0 s.k s.d) (hf : s.fuelOut = false)
    (hr : (mainLoop P dir pr stop oot x0 y Sig errz0 fuel s).fuelOut = false) :
    ∃ s', HeadInv n m P pr s' ∧
      mainLoop P dir pr stop oot x0 y Sig errz0 fuel s =
        exitBlock P pr (headStep P pr stop oot s').1 (headStep P pr stop oot s').2.1
          (headStep P pr stop oot s').2.2 x0 y Sig errz0 := by
  induction fuel generalizing s with
  | zero => simp [mainLoop] at hr
  | succ f ih =>
    unfold mainLoop at hr ⊢
    simp only [] at hr ⊢
    have hfh : (headStep P pr stop oot s).1.fuelOut = false := by rw [headStep_fuelOut]; exact hf
    split_ifs at hr ⊢ with hb
    · exact ⟨s, h, rfl⟩
    · have hf2 : (iterBody P dir pr stop (headStep P pr stop oot s).1 (headStep P pr stop oot s).2.1).fuelOut
          = false := by
        rcases Bool.eq_false_or_eq_true
          (iterBody P dir pr stop (headStep P pr stop oot s).1 (headStep P pr stop oot s).2.1).fuelOut
          with hc | hc
        · have := mainLoop_fuelOut_mono P dir pr stop oot x0 y Sig errz0 f _ hc
          rw [this] at hr; exact absurd hr (by decide)
        · exact hc
      have hls : (iterLs P dir pr stop (headStep P pr stop oot s).1).fuelOut = false := by
        rw [iterBody_fuelOut, hfh] at hf2; simpa using hf2
      have hh : HeadInv n m P pr (headStep P pr stop oot s).1 :=
        ⟨headStep_inv False True P pr stop oot s h.loop, (headStep_good P pr stop oot s h.good).1,
          (headStep_gh P pr stop oot s h.good h.grad).1, headStep_sized hPs pr stop oot s h.sized⟩
      have hdh : DirOK n dir d0 (headStep P pr stop oot s).1.k (headStep P pr stop oot s).1.d := by
        rw [(headStep_d P pr stop oot s).1, (headStep_d P pr stop oot s).2]; exact hd
      exact ih _ ⟨iterBody_inv False True 0 0 (fun _ => 0) (fun _ => True) P dir d0 pr (fun hF => hF.elim) stop _ _
          (fun hF => hF.elim) (fun hF => hF.elim) hmin hh.loop hls,
        iterBody_good P dir pr stop _ _ hh.good hfh hf2,
        iterBody_gh P dir pr stop _ _ hh.grad hfh hf2,
        (iterBody_sized hPs dir d0 hD pr stop _ _ hh.sized hdh hls).1⟩
        (Or.inr (iterBody_reach hPs dir d0 hD pr stop _ _ hh.sized hdh hls)) hf2 hr

/-- A solve either returns before the main loop (`NotFinite`, nothing written) or through the exit
    block at a loop head satisfying `HeadInv`. -/
theorem run_exit_inv {n m : Nat} (P : Problem α) (hPs : ProblemSized n m P)
    (dir : Direction D α) (d0 : D) (hD : DirSized n dir d0) (pr : Params α)
    (hp : ParamsOK pr) (stop : Nat → Bool) (oot : Bool) (x0 y Sig errz0 gV : Vec α) (gS iS : α)
    (hx0 : x0.length = n)
    (hfuel : (run P dir d0 pr stop oot x0 y Sig errz0 gV gS iS).fuelOut = false) :
    (run P dir d0 pr stop oot x0 y Sig errz0 gV gS iS).stats.status = .NotFinite ∨
    ∃ s', HeadInv n m P pr s' ∧
      run P dir d0 pr stop oot x0 y Sig errz0 gV gS iS =
        exitBlock P pr (headStep P pr stop oot s').1 (headStep P pr stop oot s').2.1
          (headStep P pr stop oot s').2.2 x0 y Sig errz0 := by
  have hi := initState_inv P d0 pr stop x0 gV gS iS hp
  have hz := initState_sized hPs d0 pr stop x0 gV gS iS hx0
  have hid := initState_d P d0 pr stop x0 gV gS iS
  unfold run at hfuel ⊢
  cases hs : initState P d0 pr stop x0 gV gS iS with
  | inl t => left; rfl
  | inr s =>
    right
    rw [hs] at hi hz hid
    simp only [hs] at hfuel ⊢
    have hf0 : s.fuelOut = false := by
      rcases Bool.eq_false_or_eq_true s.fuelOut with hc | hc
      · have := mainLoop_fuelOut_mono P dir pr stop oot x0 y Sig errz0 (pr.maxIter + 2) s hc
        rw [this] at hfuel; exact absurd hfuel (by decide)
      · exact hc
    exact mainLoop_exit_inv P hPs dir d0 hD pr hp.minLs stop oot x0 y Sig errz0 _ s
      ⟨hi hf0 False True (fun _ => trivial), initState_good P d0 pr stop x0 gV gS iS s hs,
        initState_gh P d0 pr stop x0 gV gS iS s hs, hz⟩ (Or.inl hid) hf0 hfuel

end Alpaqa.Panoc
