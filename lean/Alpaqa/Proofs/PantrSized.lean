/-
  Size invariant of the PANTR loop model (`Model/Pantr.lean`) — the analogue of `Proofs/PanocSized.lean`.

  In the C++ every vector of an `Iterate`, `q`, `x`, `y`, `err_z` is an Eigen vector of fixed size
  (`n` or `m`) written in place; the list model only sees sizes through the length lemmas of the vector
  operations and through size contracts of the oracles:

  * `ProblemSized n m P` — the problem oracles return vectors of the right size when called with vectors
    of the right size (the same seven fields as for PANOC);
  * `DirSized n dir R`   — the direction provider, **in the states `R` the loop actually reaches**:
    `R` is an invariant of the provider state kept by every call PANTR makes with `n`-sized vector
    arguments (`initialize`, `apply`, `update`, `changed_γ`, `reset`), and in an `R`-state an `apply` whose
    model value is negative — the only case in which PANTR reads `q` — leaves a `q` of size `n` (the old
    content of `q` handed in is unconstrained: never-written storage).  The contract is NOT demanded of
    all provider states: the list model truncates (`zipWith`) where the C++ would assert, so a contract
    over all states is false for the shipped providers (audit round 2, #8).

  Under these, on a well-formed call (`x₀` of size `n`; `y`, `Σ`, `err_z` of size `m`; `R d₀`) and with
  `inf ≥ 0`: the current iterate at every loop head, every iterate handed to the progress callback
  (`x`, `∇ψ(x)`, `x̂`, `p`, `ŷ`) and the returned `x`, `y`, `err_z` have the right sizes
  (`run_sized`, `run_callbacks_sized`, `run_exit_sized`).  That the loop only ever calls the provider in
  `R`-states with `n`-sized vectors is part of the proof (`SizedInv` carries `R s.d`).

  No fuel hypothesis and no hypothesis on the stop schedule.
-/
import Alpaqa.Proofs.PantrDoc

namespace Alpaqa.Pantr
open Alpaqa Alpaqa.Gen
set_option linter.unusedSectionVars false
set_option linter.unusedVariables false

variable {α D : Type} [Field α] [LinearOrder α] [IsStrictOrderedRing α] [RealLike α]

local macro "triv" : tactic => `(tactic| first | rfl | trivial)

/-- Size contract of the problem oracles (`n` variables, `m` constraints). -/
structure ProblemSized (n m : Nat) (P : Problem α) : Prop where
  pgp_grad : ∀ x, x.length = n → (P.psiGradPsi x).2.1.length = n
  pgp_work : ∀ x, x.length = n → (P.psiGradPsi x).2.2.length = m
  psi_yhat : ∀ x, x.length = n → (P.psi x).2.length = m
  gradPsi : ∀ x, x.length = n → (P.gradPsi x).length = n
  gradL : ∀ x y, x.length = n → y.length = m → (P.gradL x y).length = n
  prox_xhat : ∀ γ x g, x.length = n → g.length = n → (P.prox γ x g).2.1.length = n
  prox_p : ∀ γ x g, x.length = n → g.length = n → (P.prox γ x g).2.2.length = n

theorem ProblemSized.gradSized {n m : Nat} {P : Problem α} (h : ProblemSized n m P) : GradSized n P :=
  h.pgp_grad

/-- Size contract of the trust-region direction provider over the invariant `R` of its state. -/
structure DirSized (n : Nat) (dir : Direction D α) (R : D → Prop) : Prop where
  init : ∀ d γ x xh p g, R d → x.length = n → xh.length = n → p.length = n → g.length = n →
    R (dir.init d γ x xh p g)
  apply_R : ∀ d γ x xh p g Δ q, R d → x.length = n → xh.length = n → p.length = n → g.length = n →
    R (dir.apply d γ x xh p g Δ q).1
  /-- `q` is read only when the model value the caller sees is negative -/
  apply_q : ∀ d γ x xh p g Δ q, R d → x.length = n → xh.length = n → p.length = n → g.length = n →
    (dir.apply d γ x xh p g Δ q).2.1 < 0 → (dir.apply d γ x xh p g Δ q).2.2.length = n
  update_R : ∀ d γk γn xk xn pk pn gk gn, R d → xk.length = n → xn.length = n → pk.length = n →
    pn.length = n → gk.length = n → gn.length = n → R (dir.update d γk γn xk xn pk pn gk gn).1
  changed_R : ∀ d γ old, R d → R (dir.changedGamma d γ old)
  reset_R : ∀ d, R d → R (dir.reset d)

/-- `x`, `∇ψ(x)`, `x̂`, `p` of an iterate have size `n` (what `eval_ψ_grad_ψ` + `eval_prox_grad_step`
    leave; `ŷ` is written by `eval_ψx̂` only). -/
structure StepSized (n : Nat) (i : Iterate α) : Prop where
  x : i.x.length = n
  g : i.gradPsi.length = n
  xhat : i.xhat.length = n
  p : i.p.length = n

/-- All vectors of an iterate have the right size. -/
structure Sized (n m : Nat) (i : Iterate α) : Prop where
  x : i.x.length = n
  g : i.gradPsi.length = n
  xhat : i.xhat.length = n
  p : i.p.length = n
  yhat : i.yhat.length = m

theorem Sized.step {n m : Nat} {i : Iterate α} (h : Sized n m i) : StepSized n i :=
  ⟨h.x, h.g, h.xhat, h.p⟩

theorem vadd_length (a b : Vec α) : (vadd a b).length = min a.length b.length := by
  simp [vadd, vzip]
theorem vsub_length (a b : Vec α) : (vsub a b).length = min a.length b.length := by
  simp [vsub, vzip]
theorem vdiv_length (a b : Vec α) : (vdiv a b).length = min a.length b.length := by
  simp [vdiv, vzip]

/-! ### Problem evaluations -/

theorem stepSized_evalProxGradStep {n m : Nat} {P : Problem α} (hP : ProblemSized n m P)
    (i : Iterate α) (hx : i.x.length = n) (hg : i.gradPsi.length = n) :
    StepSized n (evalProxGradStep P i) := by
  unfold evalProxGradStep
  exact ⟨hx, hg, hP.prox_xhat _ _ _ hx hg, hP.prox_p _ _ _ hx hg⟩

theorem sized_evalPsiHat {n m : Nat} {P : Problem α} (hP : ProblemSized n m P) (i : Iterate α)
    (h : StepSized n i) : Sized n m (evalPsiHat P i) := by
  unfold evalPsiHat
  exact ⟨h.x, h.g, h.xhat, h.p, hP.psi_yhat _ h.xhat⟩

theorem sized_backtrackStep {n m : Nat} {P : Problem α} (hP : ProblemSized n m P) (i : Iterate α)
    (h : Sized n m i) : Sized n m (backtrackStep P i) := by
  unfold backtrackStep
  exact sized_evalPsiHat hP _ (stepSized_evalProxGradStep hP _ h.x h.g)

theorem backtrackQub_sized {n m : Nat} {P : Problem α} (hP : ProblemSized n m P) (pr : Params α)
    (stop : Nat → Bool) (f : Nat) (c : Iterate α) (t b : Nat) (h : Sized n m c) :
    Sized n m (backtrackQub P pr stop f c t b).1 := by
  induction f generalizing c t b with
  | zero => simpa [backtrackQub] using h
  | succ f ih =>
    unfold backtrackQub
    split_ifs
    · exact h
    · exact ih _ _ _ (sized_backtrackStep hP c h)
    · exact h

theorem initState_sized {n m : Nat} {P : Problem α} (hP : ProblemSized n m P) (co : Consts α) (d0 : D)
    (pr : Params α) (stop : Nat → Bool) (x0 gV : Vec α) (hx0 : x0.length = n) (s : St α D)
    (hi : initState co P d0 pr stop x0 gV = .inr s) : Sized n m s.curr ∧ s.d = d0 := by
  have hl : (lipschitzStage co P pr x0 gV).1.x.length = n ∧
      (lipschitzStage co P pr x0 gV).1.gradPsi.length = n := by
    unfold lipschitzStage
    simp only []
    split_ifs
    · exact ⟨hx0, by unfold initialLipschitz; exact hP.pgp_grad _ hx0⟩
    · unfold evalPsiGradPsi; exact ⟨hx0, hP.pgp_grad _ hx0⟩
  unfold initState at hi
  simp only [] at hi
  split_ifs at hi
  injection hi with hi; subst hi
  refine ⟨backtrackQub_sized hP pr stop _ _ _ _ ?_, rfl⟩
  unfold firstStep
  exact sized_evalPsiHat hP _ (stepSized_evalProxGradStep hP _ hl.1 hl.2)

/-! ### One iteration, stage by stage -/

theorem fbsStep_stepSized {n m : Nat} {P : Problem α} (hP : ProblemSized n m P) (pr : Params α)
    (s : St α D) (h : Sized n m s.curr) : StepSized n (fbsStep P pr s).1 := by
  unfold fbsStep
  simp only []
  apply stepSized_evalProxGradStep hP
  · unfold evalPsiGradPsi; exact h.xhat
  · unfold evalPsiGradPsi; exact hP.pgp_grad _ h.xhat

theorem dirInit_R {n : Nat} {dir : Direction D α} {R : D → Prop} (hD : DirSized n dir R)
    (s : St α D) (prox : Iterate α) (t : Nat) (hR : R s.d) (hp : StepSized n prox) :
    R (dirInit dir s prox t).1 := by
  unfold dirInit
  simp only []
  split_ifs
  · exact hD.init _ _ _ _ _ _ hR hp.x hp.xhat hp.p hp.g
  · exact hR

theorem trustRegionStep_sized {n : Nat} {dir : Direction D α} {R : D → Prop} (hD : DirSized n dir R)
    (co : Consts α) (hinf : ¬ co.inf < 0) (d : D) (t : Nat) (prox : Iterate α) (Delta : α) (q : Vec α)
    (hR : R d) (hp : StepSized n prox) :
    R (trustRegionStep co dir d t prox Delta q).1 ∧
    ((trustRegionStep co dir d t prox Delta q).2.2.2.1 < 0 →
      (trustRegionStep co dir d t prox Delta q).2.2.1.length = n) := by
  have h1 := hD.apply_R d prox.gamma prox.x prox.xhat prox.p prox.gradPsi Delta q hR hp.x hp.xhat hp.p hp.g
  have h2 := hD.apply_q d prox.gamma prox.x prox.xhat prox.p prox.gradPsi Delta q hR hp.x hp.xhat hp.p hp.g
  unfold trustRegionStep
  simp only []
  split_ifs with ha hb
  · exact ⟨hD.reset_R _ h1, fun h => absurd h hinf⟩
  · exact ⟨hD.reset_R _ h1, fun h => absurd h (not_lt.mpr hb)⟩
  · exact ⟨h1, h2⟩

theorem candidateFbe_sized {n m : Nat} {P : Problem α} (hP : ProblemSized n m P) (pr : Params α)
    (stop : Nat → Bool) (prox cand : Iterate α) (q : Vec α) (t : Nat) (hp : StepSized n prox)
    (hq : q.length = n) :
    StepSized n (candidateFbe P pr stop prox cand q t).1 ∧
    (pr.computeRatioUsingNewStepsize = true → Sized n m (candidateFbe P pr stop prox cand q t).1) := by
  have hx : (vadd prox.x q).length = n := by rw [vadd_length, hp.x, hq]; exact Nat.min_self n
  have h2 : StepSized n (evalProxGradStep P
      { (evalPsiGradPsi P { cand with x := vadd prox.x q }) with gamma := prox.gamma, L := prox.L }) := by
    apply stepSized_evalProxGradStep hP
    · unfold evalPsiGradPsi; exact hx
    · unfold evalPsiGradPsi; exact hP.pgp_grad _ hx
  unfold candidateFbe
  simp only []
  split_ifs with hc
  · have := backtrackQub_sized hP pr stop pr.qubFuel _ (t + 3) 0 (sized_evalPsiHat hP _ h2)
    exact ⟨this.step, fun _ => this⟩
  · exact ⟨h2, fun h => absurd h hc⟩

/-- What an accepted candidate is known to carry, size-wise. -/
def CandSized (n m : Nat) (pr : Params α) (cand : Iterate α) : Prop :=
  StepSized n cand ∧ (pr.computeRatioUsingNewStepsize = true → Sized n m cand)

theorem trAttempt_sized {n m : Nat} {P : Problem α} (hP : ProblemSized n m P) {dir : Direction D α}
    {R : D → Prop} (hD : DirSized n dir R) (co : Consts α) (hinf : ¬ co.inf < 0) (pr : Params α)
    (stop : Nat → Bool) (b : Mid α D) (hb : b.accept = false) (hp : StepSized n b.prox) (hR : R b.d) :
    R (trAttempt co P dir pr stop b).d ∧
    ((trAttempt co P dir pr stop b).accept = true → CandSized n m pr (trAttempt co P dir pr stop b).cand) := by
  have htr := trustRegionStep_sized hD co hinf b.d b.tick b.prox b.Delta b.q hR hp
  unfold trAttempt
  simp only []
  split_ifs with hq
  · exact ⟨htr.1, fun _ => candidateFbe_sized hP pr stop _ _ _ _ hp (htr.2 hq)⟩
  · exact ⟨htr.1, fun h => absurd h (by simp [hb])⟩

theorem trStage_sized {n m : Nat} {P : Problem α} (hP : ProblemSized n m P) {dir : Direction D α}
    {R : D → Prop} (hD : DirSized n dir R) (co : Consts α) (hinf : ¬ co.inf < 0) (pr : Params α)
    (stop : Nat → Bool) (s : St α D) (h : Sized n m s.curr) (hR : R s.d) :
    StepSized n (trStage co P dir pr stop s).prox ∧ R (trStage co P dir pr stop s).d ∧
    ((trStage co P dir pr stop s).accept = true → CandSized n m pr (trStage co P dir pr stop s).cand) := by
  have hp := fbsStep_stepSized hP pr s h
  have hd := dirInit_R hD s (fbsStep P pr s).1 (fbsStep P pr s).2.2 hR hp
  refine ⟨by rw [trStage_prox]; exact hp, ?_⟩
  unfold trStage
  simp only []
  split_ifs
  · exact trAttempt_sized hP hD co hinf pr stop _ rfl hp hd
  · exact ⟨hd, fun h => absurd h (by simp)⟩

theorem acceptStage_sized {n m : Nat} {P : Problem α} (hP : ProblemSized n m P) {dir : Direction D α}
    {R : D → Prop} (hD : DirSized n dir R) (pr : Params α) (stop : Nat → Bool) (mid : Mid α D)
    (t0 : Nat) (hp : StepSized n mid.prox) (hR : R mid.d) (hc : CandSized n m pr mid.cand) :
    Sized n m (acceptStage P dir pr stop mid t0).curr ∧ R (acceptStage P dir pr stop mid t0).d := by
  -- the candidate after its (possibly already done) quadratic-upper-bound backtracking
  have hcand : Sized n m (if !pr.computeRatioUsingNewStepsize then
      backtrackQub P pr stop pr.qubFuel (evalPsiHat P mid.cand) (t0 + 1) 0
      else (mid.cand, t0, 0, false)).1 := by
    by_cases hr : pr.computeRatioUsingNewStepsize = true
    · simp only [hr, Bool.not_true, Bool.false_eq_true, if_false]; exact hc.2 hr
    · have hr' : pr.computeRatioUsingNewStepsize = false := by simpa using hr
      simp only [hr', Bool.not_false, if_true]
      exact backtrackQub_sized hP pr stop _ _ _ _ (sized_evalPsiHat hP _ hc.1)
  unfold acceptStage
  simp only []
  generalize (if !pr.computeRatioUsingNewStepsize then
      backtrackQub P pr stop pr.qubFuel (evalPsiHat P mid.cand) (t0 + 1) 0
      else (mid.cand, t0, 0, false)) = cb at hcand ⊢
  refine ⟨hcand, ?_⟩
  split_ifs
  · have hp' : StepSized n (evalProxGradStep P { mid.prox with gamma := cb.1.gamma, L := cb.1.L }) :=
      stepSized_evalProxGradStep hP _ hp.x hp.g
    exact hD.update_R _ _ _ _ _ _ _ _ _ (hD.changed_R _ _ _ hR) hp'.x hcand.x hp'.p hcand.p hp'.g hcand.g
  · exact hD.update_R _ _ _ _ _ _ _ _ _ (hD.changed_R _ _ _ hR) hp.x hcand.x hp.p hcand.p hp.g hcand.g
  · exact hD.update_R _ _ _ _ _ _ _ _ _ hR hp.x hcand.x hp.p hcand.p hp.g hcand.g

theorem rejectStage_sized {n m : Nat} {P : Problem α} (hP : ProblemSized n m P) {dir : Direction D α}
    {R : D → Prop} (hD : DirSized n dir R) (pr : Params α) (stop : Nat → Bool) (mid : Mid α D)
    (t0 : Nat) (hp : StepSized n mid.prox) (hc : Sized n m mid.curr) (hR : R mid.d) :
    Sized n m (rejectStage P dir pr stop mid t0).curr ∧ R (rejectStage P dir pr stop mid t0).d := by
  have hpb : Sized n m (backtrackQub P pr stop pr.qubFuel (evalPsiHat P mid.prox) (t0 + 1) 0).1 :=
    backtrackQub_sized hP pr stop _ _ _ _ (sized_evalPsiHat hP _ hp)
  unfold rejectStage
  simp only []
  generalize backtrackQub P pr stop pr.qubFuel (evalPsiHat P mid.prox) (t0 + 1) 0 = pb at hpb ⊢
  refine ⟨hpb, ?_⟩
  have hc' : StepSized n (evalProxGradStep P { mid.curr with gamma := pb.1.gamma, L := pb.1.L }) :=
    stepSized_evalProxGradStep hP _ hc.x hc.g
  split_ifs <;> first
    | exact hD.update_R _ _ _ _ _ _ _ _ _ (hD.changed_R _ _ _ hR) hc'.x hpb.x hc'.p hpb.p hc'.g hpb.g
    | exact hD.update_R _ _ _ _ _ _ _ _ _ (hD.changed_R _ _ _ hR) hc.x hpb.x hc.p hpb.p hc.g hpb.g
    | exact hD.update_R _ _ _ _ _ _ _ _ _ hR hc.x hpb.x hc.p hpb.p hc.g hpb.g
    | exact hD.changed_R _ _ _ hR
    | exact hR

/-- The size invariant of the loop heads: the current iterate is fully sized and the provider is in
    an `R`-state. -/
def SizedInv (n m : Nat) (R : D → Prop) (s : St α D) : Prop := Sized n m s.curr ∧ R s.d

/-- **One pass of the loop body keeps the size invariant** — whichever path is taken, whatever the
    provider returns; every provider call of the pass is made in an `R`-state with `n`-sized vectors. -/
theorem iterBody_sized {n m : Nat} {P : Problem α} (hP : ProblemSized n m P) {dir : Direction D α}
    {R : D → Prop} (hD : DirSized n dir R) (co : Consts α) (hinf : ¬ co.inf < 0) (pr : Params α)
    (stop : Nat → Bool) (s : St α D) (eps : α) (h : SizedInv n m R s) :
    SizedInv n m R (iterBody co P dir pr stop s eps) := by
  have ht := trStage_sized hP hD co hinf pr stop s h.1 h.2
  have hcur := (trStage_spec co P dir pr stop s).1
  unfold SizedInv iterBody
  simp only []
  by_cases ha : (trStage co P dir pr stop s).accept = true
  · simp only [ha, if_true]
    exact acceptStage_sized hP hD pr stop _ _ ht.1 ht.2.1 (ht.2.2 ha)
  · simp only [ha, Bool.false_eq_true, if_false]
    exact rejectStage_sized hP hD pr stop _ _ ht.1 (by rw [hcur]; exact h.1) ht.2.1

theorem sizedInv_headInv {n m : Nat} {P : Problem α} (hP : ProblemSized n m P) {dir : Direction D α}
    {R : D → Prop} (hD : DirSized n dir R) (co : Consts α) (hinf : ¬ co.inf < 0) (pr : Params α)
    (stop : Nat → Bool) (oot : Bool) : HeadInv (SizedInv n m R) co P dir pr stop oot := by
  constructor
  · intro s h
    unfold SizedInv
    rw [(headStep_same P pr stop oot s).1, (headStep_d P pr stop oot s).1]; exact h
  · intro s eps h
    exact iterBody_sized hP hD co hinf pr stop s eps h

/-! ### The whole solve -/

/-- Sizes of what the caller's buffers hold afterwards. -/
structure OutSized (n m : Nat) (r : Result α D) : Prop where
  x : r.x.length = n
  y : r.y.length = m
  errz : r.errz.length = m

theorem exitBlock_sized {n m : Nat} (co : Consts α) (pr : Params α) (s : St α D) (eps : α)
    (status : SolverStatus) (x0 y Sig errz0 : Vec α) (h : Sized n m s.curr) (hx0 : x0.length = n)
    (hy : y.length = m) (hS : Sig.length = m) (he : errz0.length = m) :
    OutSized n m (exitBlock co pr s eps status x0 y Sig errz0) := by
  unfold exitBlock
  simp only []
  cases hw : (status == .Converged || status == .Interrupted || pr.alwaysOverwrite)
  · simp only [Bool.false_eq_true, if_false]
    exact ⟨hx0, hy, he⟩
  · simp only [if_true]
    refine ⟨h.xhat, h.yhat, ?_⟩
    split_ifs
    · rw [vdiv_length, vsub_length, h.yhat, hy, hS]; simp
    · exact he

/-- **The head a solve exits from is sized**, and the solve is the exit block of that head. -/
theorem run_exit_sized {n m : Nat} {P : Problem α} (hP : ProblemSized n m P) {dir : Direction D α}
    {R : D → Prop} (hD : DirSized n dir R) (co : Consts α) (hinf : ¬ co.inf < 0) (d0 : D) (hR0 : R d0)
    (pr : Params α) (stop : Nat → Bool) (oot : Bool) (x0 y Sig errz0 gV : Vec α)
    (hx0 : x0.length = n) (s : St α D) (hi : initState co P d0 pr stop x0 gV = .inr s) :
    ∃ s' : St α D, Sized n m s'.curr ∧ R s'.d ∧ s'.k ≤ pr.maxIter ∧
      run co P dir d0 pr stop oot x0 y Sig errz0 gV =
        exitBlock co pr (headStep P pr stop oot s').1 (headStep P pr stop oot s').2.1
          (headStep P pr stop oot s').2.2 x0 y Sig errz0 := by
  have h0 := initState_sized hP co d0 pr stop x0 gV hx0 s hi
  obtain ⟨s', h1, h2, -, h4⟩ := run_exit_inv (SizedInv n m R) co P dir d0 pr stop oot
    (sizedInv_headInv hP hD co hinf pr stop oot) x0 y Sig errz0 gV s hi ⟨h0.1, by rw [h0.2]; exact hR0⟩
  exact ⟨s', h1.1, h1.2, h2, h4⟩

/-- **Sizes are preserved by a solve on a well-formed call**: `x`, `y`, `err_z` come back with sizes
    `n`, `m`, `m` whatever the exit path (written, untouched, early return). -/
theorem run_sized {n m : Nat} {P : Problem α} (hP : ProblemSized n m P) {dir : Direction D α}
    {R : D → Prop} (hD : DirSized n dir R) (co : Consts α) (hinf : ¬ co.inf < 0) (d0 : D) (hR0 : R d0)
    (pr : Params α) (stop : Nat → Bool) (oot : Bool) (x0 y Sig errz0 gV : Vec α)
    (hx0 : x0.length = n) (hy : y.length = m) (hS : Sig.length = m) (he : errz0.length = m) :
    OutSized n m (run co P dir d0 pr stop oot x0 y Sig errz0 gV) := by
  cases hi : initState co P d0 pr stop x0 gV with
  | inl t => unfold run; simp only [hi]; exact ⟨hx0, hy, he⟩
  | inr s =>
    obtain ⟨s', h1, -, -, h4⟩ := run_exit_sized hP hD co hinf d0 hR0 pr stop oot x0 y Sig errz0 gV hx0 s hi
    rw [h4]
    exact exitBlock_sized co pr _ _ _ x0 y Sig errz0
      (by rw [(headStep_same P pr stop oot s').1]; exact h1) hx0 hy hS he

/-- **Every iterate handed to the progress callback is sized** (`x`, `∇ψ(x)`, `x̂`, `p` of size `n`, `ŷ` of
    size `m`) — `Busy` callbacks and the final one. -/
theorem run_callbacks_sized {n m : Nat} {P : Problem α} (hP : ProblemSized n m P) {dir : Direction D α}
    {R : D → Prop} (hD : DirSized n dir R) (co : Consts α) (hinf : ¬ co.inf < 0) (d0 : D) (hR0 : R d0)
    (pr : Params α) (stop : Nat → Bool) (oot : Bool) (x0 y Sig errz0 gV : Vec α)
    (hx0 : x0.length = n) :
    ∀ cb ∈ (run co P dir d0 pr stop oot x0 y Sig errz0 gV).callbacks, Sized n m cb.it :=
  run_callbacks_inv (SizedInv n m R) (Sized n m) co P dir d0 pr stop oot
    (sizedInv_headInv hP hD co hinf pr stop oot) (fun _ h => h.1) x0 y Sig errz0 gV
    (fun s hi => by
      have h0 := initState_sized hP co d0 pr stop x0 gV hx0 s hi
      exact ⟨h0.1, by rw [h0.2]; exact hR0⟩)

end Alpaqa.Pantr
