/-
  C11 helper lemmas, part 2: scalar facts — the two roots computed by
  `get_boundaries_intersections`, and the one-dimensional inequalities behind the model decrease
  along a CG direction and the comparison with the Cauchy point.
-/
import Alpaqa.Proofs.C11Vec
import Mathlib.Tactic.FieldSimp
import Mathlib.Tactic.NormNum.OfScientific

namespace Alpaqa.C11
open Alpaqa Alpaqa.Gen.C11
set_option linter.unusedSectionVars false
set_option linter.unusedVariables false

variable {α : Type} [Field α] [LinearOrder α] [IsStrictOrderedRing α] [RealLike α]

/-- What the theorems assume of libm over the carrier: `sqrt` is a square root on non-negatives,
    nothing is NaN / infinite, `copysign x y` is `±|x|` with the sign of `y` when `y ≠ 0`
    (at `y = 0` either sign: IEEE has `±0`). `ℝ` is an instance (`Proofs/C11Real.lean`). -/
structure Lawful (cs : α → α → α) : Prop where
  sqrt_mul_self : ∀ a : α, 0 ≤ a → RealLike.sqrt a * RealLike.sqrt a = a
  sqrt_nonneg   : ∀ a : α, 0 ≤ a → 0 ≤ RealLike.sqrt a
  not_nan       : ∀ a : α, RealLike.isNaN a = false
  finite        : ∀ a : α, RealLike.isFinite a = true
  cs_pos        : ∀ x y : α, 0 < y → cs x y = |x|
  cs_neg        : ∀ x y : α, y < 0 → cs x y = -|x|
  cs_abs        : ∀ x y : α, cs x y = |x| ∨ cs x y = -|x|

variable {cs : α → α → α}

theorem fminS_eq (L : Lawful cs) (x y : α) : fminS x y = if y < x then y else x := by
  unfold fminS; simp [L.not_nan]

theorem fmaxS_eq (L : Lawful cs) (x y : α) : fmaxS x y = if x < y then y else x := by
  unfold fmaxS; simp [L.not_nan]

theorem fminS_eq_min (L : Lawful cs) (x y : α) : fminS x y = min x y := by
  rw [fminS_eq L, min_def]; split_ifs <;> first | rfl | (exfalso; linarith)

theorem sqrt_lt_of (L : Lawful cs) (x D : α) (hx : 0 ≤ x) (h : RealLike.sqrt x < D) : x < D * D := by
  have h0 := L.sqrt_nonneg x hx
  have h1 := L.sqrt_mul_self x hx
  nlinarith

theorem le_of_le_sqrt (L : Lawful cs) (x D : α) (hx : 0 ≤ x) (hD : 0 < D) (h : D ≤ RealLike.sqrt x) :
    D * D ≤ x := by
  have h1 := L.sqrt_mul_self x hx
  nlinarith

theorem sqrt_eq_zero_of (L : Lawful cs) (x : α) (hx : 0 ≤ x) (h : RealLike.sqrt x = 0) : x = 0 := by
  have h1 := L.sqrt_mul_self x hx
  rw [h] at h1; linarith

/-- The scalar part of `get_boundaries_intersections` (the generated function is this one applied
    to `a = ‖d‖²`, `b = 2⟨z,d⟩`, `c = ‖z‖² − Δ²`, by `rfl`). -/
def roots (cs : α → α → α) (a b c : α) : α × α :=
  let sqrt_discriminant := RealLike.sqrt (b * b - 4 * a * c)
  let aux := b + cs sqrt_discriminant b
  let ta := (-aux) / (2 * a)
  let tb := ((-2) * c) / aux
  (fminS ta tb, fmaxS ta tb)

theorem boundaryIntersections_eq (z d : Vec α) (Δ : α) :
    boundaryIntersections cs z d Δ = roots cs (sqNorm d) (2 * dot z d) (sqNorm z - Δ * Δ) := rfl

/-- For `a > 0 > c` both values are roots of `a t² + b t + c`, one negative, one positive. -/
theorem roots_spec (L : Lawful cs) (a b c : α) (ha : 0 < a) (hc : c < 0) :
    a * (roots cs a b c).1 * (roots cs a b c).1 + b * (roots cs a b c).1 + c = 0 ∧
    a * (roots cs a b c).2 * (roots cs a b c).2 + b * (roots cs a b c).2 + c = 0 ∧
    (roots cs a b c).1 < 0 ∧ 0 < (roots cs a b c).2 := by
  have hac : 0 < a * (-c) := mul_pos ha (neg_pos.mpr hc)
  have hdisc : 0 < b * b - 4 * a * c := by nlinarith [mul_self_nonneg b]
  have hsd2 := L.sqrt_mul_self _ hdisc.le
  obtain ⟨e, he, hee⟩ : ∃ e, cs (RealLike.sqrt (b * b - 4 * a * c)) b = e ∧ e * e = b * b - 4 * a * c := by
    rcases L.cs_abs (RealLike.sqrt (b * b - 4 * a * c)) b with h | h
    · exact ⟨_, h, by rw [abs_mul_abs_self]; exact hsd2⟩
    · exact ⟨_, h, by rw [neg_mul_neg, abs_mul_abs_self]; exact hsd2⟩
  have haux : b + e ≠ 0 := by
    intro h
    have : e = -b := by linarith
    rw [this] at hee; nlinarith
  have ha0 : a ≠ 0 := ha.ne'
  have hta : a * ((-(b + e)) / (2 * a)) * ((-(b + e)) / (2 * a)) + b * ((-(b + e)) / (2 * a)) + c = 0 := by
    field_simp
    linear_combination hee
  have htb : a * (((-2) * c) / (b + e)) * (((-2) * c) / (b + e)) + b * (((-2) * c) / (b + e)) + c = 0 := by
    field_simp
    linear_combination c * hee
  have hprod : ((-(b + e)) / (2 * a)) * (((-2) * c) / (b + e)) = c / a := by
    field_simp
  have hneg : ((-(b + e)) / (2 * a)) * (((-2) * c) / (b + e)) < 0 := by
    rw [hprod]; exact div_neg_of_neg_of_pos hc ha
  simp only [roots, he, fminS_eq L, fmaxS_eq L]
  set ta := (-(b + e)) / (2 * a) with hta_def
  set tb := ((-2) * c) / (b + e) with htb_def
  rcases mul_neg_iff.mp hneg with ⟨h1, h2⟩ | ⟨h1, h2⟩
  · have : tb < ta := lt_trans h2 h1
    simp only [this, if_true, not_lt.mpr this.le, if_false]
    exact ⟨htb, hta, h2, h1⟩
  · have : ta < tb := lt_trans h1 h2
    simp only [this, if_true, not_lt.mpr this.le, if_false]
    exact ⟨hta, htb, h1, h2⟩

/-! ### model along a direction: `φ(t) = m − t R + ½ t² κ` -/

/-- Negative curvature: the model does not increase along `d` for `t ≥ 0`. -/
theorem line_negcurv (m R κ t : α) (hR : 0 ≤ R) (hκ : κ ≤ 0) (ht : 0 ≤ t) :
    m - t * R + 1 / 2 * t * t * κ ≤ m := by
  have h1 : 0 ≤ t * R := mul_nonneg ht hR
  have h2 : t * t * κ ≤ 0 := mul_nonpos_of_nonneg_of_nonpos (mul_self_nonneg t) hκ
  linarith

/-- The positive root lies before the unconstrained minimiser when the full step leaves the region. -/
theorem root_le_alpha (a b c lo hi al : α) (ha : 0 < a) (hlo : a * lo * lo + b * lo + c = 0)
    (hhi : a * hi * hi + b * hi + c = 0) (hlo0 : lo < 0) (hhi0 : 0 < hi) (hal : 0 < al)
    (hout : 0 ≤ a * al * al + b * al + c) : hi ≤ al := by
  by_contra hcon
  rw [not_le] at hcon
  have hsum : a * (hi + lo) + b = 0 := by
    have h : (hi - lo) * (a * (hi + lo) + b) = 0 := by linear_combination hhi - hlo
    rcases mul_eq_zero.mp h with h | h
    · exfalso; linarith
    · exact h
  have hfac : a * al * al + b * al + c = (al - hi) * (a * (al - lo)) := by
    linear_combination hhi + (al - hi) * hsum
  have h1 : 0 < a * (al - lo) := mul_pos ha (by linarith)
  have h2 : (al - hi) * (a * (al - lo)) < 0 := mul_neg_of_neg_of_pos (by linarith) h1
  linarith

/-- Over-long step: stopping at `0 ≤ t ≤ α = R/κ` still decreases the model. -/
theorem line_before_alpha (m R κ t : α) (hR : 0 ≤ R) (hκ : 0 < κ) (ht : 0 ≤ t) (hta : t ≤ R / κ) :
    m - t * R + 1 / 2 * t * t * κ ≤ m := by
  have h1 : t * κ ≤ R := by rwa [le_div_iff₀ hκ] at hta
  nlinarith [mul_nonneg ht hR, mul_nonneg ht (sub_nonneg.mpr h1)]

/-- Full CG step `α = R/κ`. -/
theorem line_alpha (m R κ : α) (hκ : 0 < κ) :
    m - R / κ * R + 1 / 2 * (R / κ) * (R / κ) * κ ≤ m := by
  have hk : κ ≠ 0 := hκ.ne'
  have : m - R / κ * R + 1 / 2 * (R / κ) * (R / κ) * κ = m - 1 / 2 * (R * R / κ) := by
    field_simp; ring
  rw [this]
  have : 0 ≤ R * R / κ := div_nonneg (mul_self_nonneg R) hκ.le
  linarith

/-! ### optimality along the ray `t ≥ 0` inside the region -/

/-- A feasible `t ≥ 0` (`a t² + b t + c ≤ 0`) lies before the positive root. -/
theorem feasible_le_root (a b c lo hi t : α) (ha : 0 < a) (hlo : a * lo * lo + b * lo + c = 0)
    (hhi : a * hi * hi + b * hi + c = 0) (hlo0 : lo < 0) (hhi0 : 0 < hi) (ht : 0 ≤ t)
    (hin : a * t * t + b * t + c ≤ 0) : t ≤ hi := by
  by_contra hcon
  rw [not_le] at hcon
  have hsum : a * (hi + lo) + b = 0 := by
    have h : (hi - lo) * (a * (hi + lo) + b) = 0 := by linear_combination hhi - hlo
    rcases mul_eq_zero.mp h with h | h
    · exfalso; linarith
    · exact h
  have hfac : a * t * t + b * t + c = (t - hi) * (a * (t - lo)) := by
    linear_combination hhi + (t - hi) * hsum
  have h1 : 0 < a * (t - lo) := mul_pos ha (by linarith)
  have h2 : 0 < (t - hi) * (a * (t - lo)) := mul_pos (by linarith) h1
  linarith

/-- `κ ≤ 0`: the model is non-increasing along the ray, so the far point `hi` beats `t ≤ hi`. -/
theorem ray_negcurv (m R κ hi t : α) (hR : 0 ≤ R) (hκ : κ ≤ 0) (ht : 0 ≤ t) (hle : t ≤ hi) :
    m - hi * R + 1 / 2 * hi * hi * κ ≤ m - t * R + 1 / 2 * t * t * κ := by
  have : (hi - t) * (-R + 1 / 2 * (hi + t) * κ) ≤ 0 := by
    apply mul_nonpos_of_nonneg_of_nonpos (by linarith)
    have : (hi + t) * κ ≤ 0 := mul_nonpos_of_nonneg_of_nonpos (by linarith) hκ
    linarith
  linarith [this]

/-- `κ > 0`, `t ≤ hi ≤ α = R/κ`: the model is still decreasing up to `hi`. -/
theorem ray_overlong (m R κ hi t : α) (hκ : 0 < κ) (ht : 0 ≤ t) (hle : t ≤ hi) (hha : hi ≤ R / κ) :
    m - hi * R + 1 / 2 * hi * hi * κ ≤ m - t * R + 1 / 2 * t * t * κ := by
  have h1 : hi * κ ≤ R := by rwa [le_div_iff₀ hκ] at hha
  have h2 : t * κ ≤ hi * κ := mul_le_mul_of_nonneg_right hle hκ.le
  have : (hi - t) * (-R + 1 / 2 * (hi + t) * κ) ≤ 0 := by
    apply mul_nonpos_of_nonneg_of_nonpos (by linarith)
    nlinarith
  linarith [this]

/-- `κ > 0`, full step: `α = R/κ` minimises the model over the whole line. -/
theorem ray_alpha (m R κ t : α) (hκ : 0 < κ) :
    m - R / κ * R + 1 / 2 * (R / κ) * (R / κ) * κ ≤ m - t * R + 1 / 2 * t * t * κ := by
  have hk : κ ≠ 0 := hκ.ne'
  have : m - t * R + 1 / 2 * t * t * κ - (m - R / κ * R + 1 / 2 * (R / κ) * (R / κ) * κ)
      = 1 / 2 * κ * ((t - R / κ) * (t - R / κ)) := by
    field_simp; ring
  have h2 : 0 ≤ 1 / 2 * κ * ((t - R / κ) * (t - R / κ)) :=
    mul_nonneg (by linarith) (mul_self_nonneg _)
  linarith

end Alpaqa.C11
