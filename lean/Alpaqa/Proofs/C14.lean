/-
  C14 helper lemmas: the scatter loop of the conversions to dense, column-major index arithmetic,
  the compressed-column walk, the index-generation loops of the conversions from dense.
  Property theorems are in `Alpaqa/Props/C14.lean`.
-/
import Mathlib.Tactic.Ring
import Mathlib.Tactic.Linarith
import Alpaqa.Model.C14

namespace Alpaqa.C14
variable {β : Type}

/-! ### `writeCells` / `scatterGo` -/


theorem writeCells_some {rows cols : Nat} {x : β} :
    ∀ (ws : List (Int × Int)) (T : List β), (∀ w ∈ ws, inBounds rows cols w = true) →
      ∃ T', writeCells rows cols x ws T = some T' := by
  intro ws
  induction ws with
  | nil => intro T _; exact ⟨T, rfl⟩
  | cons w ws ih =>
    intro T h
    have hw := h w (List.mem_cons_self ..)
    simp only [writeCells, hw, if_true]
    exact ih _ (fun w' hw' => h w' (List.mem_cons_of_mem _ hw'))

theorem writeCells_inBounds {rows cols : Nat} {x : β} :
    ∀ (ws : List (Int × Int)) (T T' : List β), writeCells rows cols x ws T = some T' →
      ∀ w ∈ ws, inBounds rows cols w = true := by
  intro ws
  induction ws with
  | nil => intro T T' _ w hw; cases hw
  | cons w ws ih =>
    intro T T' h w' hw'
    simp only [writeCells] at h
    split at h
    · rename_i hb
      rcases List.mem_cons.mp hw' with rfl | hm
      · exact hb
      · exact ih _ _ h w' hm
    · cases h

theorem writeCells_spec {rows cols : Nat} {x : β} (z : β) :
    ∀ (ws : List (Int × Int)) (T T' : List β), writeCells rows cols x ws T = some T' →
      T'.length = T.length ∧
      ∀ k, k < T.length →
        T'.getD k z = if ∃ w ∈ ws, flatIdx rows w.1 w.2 = k then x else T.getD k z := by
  intro ws
  induction ws with
  | nil =>
    intro T T' h
    simp only [writeCells, Option.some.injEq] at h
    subst h
    simp
  | cons w ws ih =>
    intro T T' h
    simp only [writeCells] at h
    split at h
    · obtain ⟨hl, hk⟩ := ih _ _ h
      rw [List.length_set] at hl
      refine ⟨hl, fun k hkT => ?_⟩
      rw [hk k (by rw [List.length_set]; exact hkT)]
      by_cases h1 : ∃ w' ∈ ws, flatIdx rows w'.1 w'.2 = k
      · have : ∃ w' ∈ w :: ws, flatIdx rows w'.1 w'.2 = k := by
          obtain ⟨w', hw', e⟩ := h1; exact ⟨w', List.mem_cons_of_mem _ hw', e⟩
        simp [h1, this]
      · by_cases h2 : flatIdx rows w.1 w.2 = k
        · have : ∃ w' ∈ w :: ws, flatIdx rows w'.1 w'.2 = k := ⟨w, List.mem_cons_self .., h2⟩
          simp only [h1, this, if_true, if_false]
          rw [List.getD_eq_getElem?_getD, List.getElem?_set]
          simp [h2, hkT]
        · have : ¬ ∃ w' ∈ w :: ws, flatIdx rows w'.1 w'.2 = k := by
            rintro ⟨w', hw', e⟩
            rcases List.mem_cons.mp hw' with rfl | hm
            · exact h2 e
            · exact h1 ⟨w', hm, e⟩
          simp only [h1, this, if_false]
          rw [List.getD_eq_getElem?_getD, List.getD_eq_getElem?_getD, List.getElem?_set]
          simp [h2]
    · cases h



theorem scatterGo_spec {throws : Int → Int → Bool} {writes : Int → Int → List (Int × Int)}
    {rows cols : Nat} {work : List β} (z : β) :
    ∀ (es : List (Int × Int)) (l : Nat) (T T' : List β),
      scatterGo throws writes rows cols work z es l T = .ok T' →
      T'.length = T.length ∧
      (∀ e ∈ es, throws e.1 e.2 = false ∧ ∀ w ∈ writes e.1 e.2, inBounds rows cols w = true) ∧
      ∀ k, k < T.length →
        (∃ m e, es[m]? = some e ∧ (∃ w ∈ writes e.1 e.2, flatIdx rows w.1 w.2 = k) ∧
          T'.getD k z = work.getD (l + m) z) ∨
        ((∀ e ∈ es, ∀ w ∈ writes e.1 e.2, flatIdx rows w.1 w.2 ≠ k) ∧ T'.getD k z = T.getD k z) := by
  intro es
  induction es with
  | nil =>
    intro l T T' h
    simp only [scatterGo, Except.ok.injEq] at h
    subst h
    refine ⟨rfl, by simp, fun k _ => Or.inr ⟨by simp, rfl⟩⟩
  | cons e es ih =>
    intro l T T' h
    simp only [scatterGo] at h
    split at h
    · cases h
    · rename_i hthr
      split at h
      · cases h
      · rename_i T1 hw
        obtain ⟨hl1, hk1⟩ := writeCells_spec z _ _ _ hw
        obtain ⟨hl, hall, hk⟩ := ih _ _ _ h
        refine ⟨by rw [hl, hl1], ?_, ?_⟩
        · intro e' he'
          rcases List.mem_cons.mp he' with rfl | hm
          · exact ⟨by simpa using hthr, writeCells_inBounds _ _ _ hw⟩
          · exact hall e' hm
        · intro k hkT
          rcases hk k (by rw [hl1]; exact hkT) with ⟨m, e', hm, hw', hv⟩ | ⟨hno, hv⟩
          · refine Or.inl ⟨m + 1, e', by simpa using hm, hw', ?_⟩
            rw [hv]; congr 1; omega
          · rw [hk1 k hkT] at hv
            by_cases hx : ∃ w ∈ writes e.1 e.2, flatIdx rows w.1 w.2 = k
            · refine Or.inl ⟨0, e, by simp, hx, ?_⟩
              rw [hv, if_pos hx]; rfl
            · refine Or.inr ⟨?_, ?_⟩
              · intro e' he'
                rcases List.mem_cons.mp he' with rfl | hm
                · intro w hw' heq; exact hx ⟨w, hw', heq⟩
                · exact hno e' hm
              · rw [hv, if_neg hx]

theorem scatterGo_ok {throws : Int → Int → Bool} {writes : Int → Int → List (Int × Int)}
    {rows cols : Nat} {work : List β} (z : β) :
    ∀ (es : List (Int × Int)) (l : Nat) (T : List β),
      (∀ e ∈ es, throws e.1 e.2 = false ∧ ∀ w ∈ writes e.1 e.2, inBounds rows cols w = true) →
      ∃ T', scatterGo throws writes rows cols work z es l T = .ok T' := by
  intro es
  induction es with
  | nil => intro l T _; exact ⟨T, rfl⟩
  | cons e es ih =>
    intro l T h
    obtain ⟨ht, hw⟩ := h e (List.mem_cons_self ..)
    obtain ⟨T1, hT1⟩ := writeCells_some (x := work.getD l z) (writes e.1 e.2) T hw
    simp only [scatterGo, ht, hT1]
    exact ih _ _ (fun e' he' => h e' (List.mem_cons_of_mem _ he'))

theorem scatterGo_throws {throws : Int → Int → Bool} {writes : Int → Int → List (Int × Int)}
    {rows cols : Nat} {work : List β} (z : β) :
    ∀ (es : List (Int × Int)) (l : Nat) (T : List β),
      (∀ e ∈ es, ∀ w ∈ writes e.1 e.2, inBounds rows cols w = true) →
      (∃ e ∈ es, throws e.1 e.2 = true) →
      scatterGo throws writes rows cols work z es l T = .error .invalidArgument := by
  intro es
  induction es with
  | nil => intro l T _ h; obtain ⟨e, he, _⟩ := h; cases he
  | cons e es ih =>
    intro l T hb hex
    simp only [scatterGo]
    by_cases ht : throws e.1 e.2 = true
    · simp [ht]
    · obtain ⟨T1, hT1⟩ := writeCells_some (x := work.getD l z) (writes e.1 e.2) T
        (hb e (List.mem_cons_self ..))
      simp only [ht, hT1]
      apply ih _ _ (fun e' he' => hb e' (List.mem_cons_of_mem _ he'))
      obtain ⟨e', he', h'⟩ := hex
      rcases List.mem_cons.mp he' with rfl | hm
      · exact absurd h' ht
      · exact ⟨e', hm, h'⟩


/-! ### Column-major index arithmetic -/


theorem idx_lt {rows cols i j : Nat} (hi : i < rows) (hj : j < cols) : i + j * rows < rows * cols := by
  have h1 : (j + 1) * rows ≤ cols * rows := Nat.mul_le_mul_right _ hj
  have h2 : (j + 1) * rows = j * rows + rows := by ring
  have h3 : cols * rows = rows * cols := Nat.mul_comm ..
  omega

theorem inBounds_iff {rows cols : Nat} {e : Int × Int} :
    inBounds rows cols e = true ↔ 0 ≤ e.1 ∧ e.1 < rows ∧ 0 ≤ e.2 ∧ e.2 < cols := by
  simp [inBounds, and_assoc]

theorem flatIdx_eq_iff {rows cols : Nat} {a b : Int} {i j : Nat}
    (hb : inBounds rows cols (a, b) = true) (hi : i < rows) :
    flatIdx rows a b = i + j * rows ↔ a = i ∧ b = j := by
  obtain ⟨h0, h1, h2, h3⟩ := inBounds_iff.mp hb
  simp only at h0 h1 h2 h3
  obtain ⟨a', rfl⟩ := Int.eq_ofNat_of_zero_le h0
  obtain ⟨b', rfl⟩ := Int.eq_ofNat_of_zero_le h2
  have ha : a' < rows := by exact_mod_cast h1
  have : flatIdx rows (a' : Int) (b' : Int) = a' + b' * rows := by
    unfold flatIdx
    have : ((a' : Int) + (b' : Int) * (rows : Int)) = ((a' + b' * rows : Nat) : Int) := by push_cast; ring
    rw [this, Int.toNat_natCast]
  rw [this]
  constructor
  · intro h
    have hm : (a' + b' * rows) % rows = (i + j * rows) % rows := by rw [h]
    have hd : (a' + b' * rows) / rows = (i + j * rows) / rows := by rw [h]
    rw [Nat.add_mul_mod_self_right, Nat.add_mul_mod_self_right, Nat.mod_eq_of_lt ha, Nat.mod_eq_of_lt hi] at hm
    have hr : 0 < rows := by omega
    rw [Nat.add_mul_div_right _ _ hr, Nat.add_mul_div_right _ _ hr, Nat.div_eq_of_lt ha, Nat.div_eq_of_lt hi] at hd
    constructor
    · exact_mod_cast hm
    · have : b' = j := by omega
      exact_mod_cast this
  · rintro ⟨h1, h2⟩
    have h1' : a' = i := by exact_mod_cast h1
    have h2' : b' = j := by exact_mod_cast h2
    rw [h1', h2']


/-! ### Uniqueness of the entry supplying a cell -/


/-- Two triangle-respecting entries that supply the same cell are equal. -/
theorem hits_unique {sym : Symmetry} {i j : Nat} {e e' : Int × Int}
    (h : hits sym i j e = true) (h' : hits sym i j e' = true)
    (t : triangleOk sym e = true) (t' : triangleOk sym e' = true) : e = e' := by
  obtain ⟨a, b⟩ := e
  obtain ⟨a', b'⟩ := e'
  cases sym <;> simp [hits, triangleOk] at h h' t t' ⊢ <;> omega

theorem findIdx_hits_of_getElem {sym : Symmetry} {es : List (Int × Int)} {i j m : Nat} {e : Int × Int}
    (hn : es.Nodup) (ht : ∀ e ∈ es, triangleOk sym e = true)
    (hm : es[m]? = some e) (hh : hits sym i j e = true) :
    es.findIdx? (hits sym i j) = some m := by
  obtain ⟨hlt, rfl⟩ := List.getElem?_eq_some_iff.mp hm
  rw [List.findIdx?_eq_some_iff_getElem]
  refine ⟨hlt, hh, fun k hk hhk => ?_⟩
  have hklt : k < es.length := by omega
  have heq : es[k] = es[m] :=
    hits_unique hhk hh (ht _ (List.getElem_mem hklt)) (ht _ (List.getElem_mem hlt))
  have := (List.pairwise_iff_getElem.mp hn) k m hklt hlt hk
  exact this heq


/-! ### The scatter loop computes the denoted matrix -/



/-- What the regenerated triangle tests / scatter targets must satisfy for symmetry `sym`. -/
structure ScatterSpec (sym : Symmetry) (throws : Int → Int → Bool)
    (writes : Int → Int → List (Int × Int)) : Prop where
  throws_eq : ∀ r c, throws r c = !triangleOk sym (r, c)
  writes_eq : ∀ r c, writes r c = if sym = .unsym then [(r, c)] else [(r, c), (c, r)]

theorem inBounds_swap {n : Nat} {r c : Int} (h : inBounds n n (r, c) = true) : inBounds n n (c, r) = true := by
  rw [inBounds_iff] at h ⊢; simp only at h ⊢; omega

theorem hits_of_write {sym : Symmetry} {throws writes} (hs : ScatterSpec sym throws writes)
    {rows cols : Nat} {e w : Int × Int} {i j : Nat}
    (hw : w ∈ writes e.1 e.2) (hb : inBounds rows cols w = true) (hi : i < rows)
    (hk : flatIdx rows w.1 w.2 = i + j * rows) : hits sym i j e = true := by
  obtain ⟨r, c⟩ := e
  obtain ⟨a, b⟩ := w
  have := (flatIdx_eq_iff hb hi).mp hk
  rw [hs.writes_eq] at hw
  cases sym <;> simp [hits] at hw ⊢ <;> omega

theorem write_of_hits {sym : Symmetry} {throws writes} (hs : ScatterSpec sym throws writes)
    {e : Int × Int} {i j : Nat} (hh : hits sym i j e = true) :
    ((i : Int), (j : Int)) ∈ writes e.1 e.2 := by
  obtain ⟨r, c⟩ := e
  rw [hs.writes_eq]
  cases sym <;> simp [hits] at hh ⊢ <;> omega

theorem scatter_correct {sym : Symmetry} {throws writes} (hs : ScatterSpec sym throws writes)
    {rows cols : Nat} (hsq : sym ≠ .unsym → rows = cols) (es : List (Int × Int))
    (hb : ∀ e ∈ es, inBounds rows cols e = true) (ht : ∀ e ∈ es, triangleOk sym e = true)
    (hn : es.Nodup) (work : List β) (z : β) :
    ∃ T', scatterGo throws writes rows cols work z es 0 (List.replicate (rows * cols) z) = .ok T' ∧
      T'.length = rows * cols ∧
      ∀ i j, i < rows → j < cols →
        T'.getD (i + j * rows) z =
          lookup z sym es work i j := by
  have hwb : ∀ e ∈ es, throws e.1 e.2 = false ∧ ∀ w ∈ writes e.1 e.2, inBounds rows cols w = true := by
    intro e he
    refine ⟨by rw [hs.throws_eq]; simp [ht e he], ?_⟩
    intro w hw
    rw [hs.writes_eq] at hw
    by_cases hu : sym = .unsym
    · simp only [hu, if_true, List.mem_singleton] at hw
      rw [hw]; exact hb e he
    · simp only [hu, if_false, List.mem_cons, List.not_mem_nil, or_false] at hw
      have := hsq hu; subst this
      rcases hw with hw | hw
      · rw [hw]; exact hb e he
      · rw [hw]; exact inBounds_swap (hb e he)
  obtain ⟨T', hT'⟩ := scatterGo_ok (work := work) z es 0 (List.replicate (rows * cols) z) hwb
  obtain ⟨hl, _, hk⟩ := scatterGo_spec z _ _ _ _ hT'
  rw [List.length_replicate] at hl hk
  refine ⟨T', hT', hl, fun i j hi hj => ?_⟩
  rcases hk _ (idx_lt hi hj) with ⟨m, e, hm, ⟨w, hw, hwk⟩, hv⟩ | ⟨hno, hv⟩
  · have hbw := (hwb e (List.mem_of_getElem? hm)).2 w hw
    have hh := hits_of_write hs hw hbw hi hwk
    unfold lookup
    rw [findIdx_hits_of_getElem hn ht hm hh, hv, Nat.zero_add]
  · have : es.findIdx? (hits sym i j) = none := by
      rw [List.findIdx?_eq_none_iff]
      intro e he
      by_contra hc
      have hh : hits sym i j e = true := by simpa using hc
      have hw := write_of_hits hs hh
      apply hno e he _ hw
      have hbw := (hwb e he).2 _ hw
      exact (flatIdx_eq_iff hbw hi).mpr ⟨rfl, rfl⟩
    unfold lookup
    rw [this, hv]
    simp only [List.getD_eq_getElem?_getD, List.getElem?_replicate]
    split <;> rfl


/-! ### The compressed-column walk visits the slots in storage order -/


/-- Slots `a ≤ i < b` of `inner`. -/
def seg (inner : List Int) (a b : Int) : List Int := (inner.drop a.toNat).take (b - a).toNat

theorem zip_replicate_len {α γ : Type} (l : List α) (c : γ) :
    l.zip (List.replicate l.length c) = l.map fun x => (x, c) := by
  induction l with
  | nil => rfl
  | cons x xs ih => simp [List.replicate_succ, ih]

theorem cscColumn_eq {inner : List Int} {c : Int} :
    ∀ (n a : Nat), a + n ≤ inner.length →
      cscColumn inner c (a : Int) n = some (((inner.drop a).take n).map fun r => (r, c)) := by
  intro n
  induction n with
  | zero => intro a _; simp [cscColumn]
  | succ n ih =>
    intro a h
    have ha : a < inner.length := by omega
    have h0 : (0 : Int) ≤ (a : Int) := Int.natCast_nonneg a
    have hrec := ih (a + 1) (by omega)
    have hcast : ((a : Int) + 1) = ((a + 1 : Nat) : Int) := by push_cast; rfl
    rw [List.drop_eq_getElem_cons ha, List.take_succ_cons, List.map_cons]
    simp only [cscColumn, h0, if_true, Int.toNat_natCast, List.getElem?_eq_getElem ha, hcast, hrec]

theorem monotone_cons {a b : Int} {rest : List Int} :
    monotone (a :: b :: rest) = true ↔ a ≤ b ∧ monotone (b :: rest) = true := by
  simp [monotone]

theorem monotone_head_le_last : ∀ (outer : List Int) (a last : Int), outer.head? = some a →
    outer.getLast? = some last → monotone outer = true → a ≤ last := by
  intro outer
  induction outer with
  | nil => intro a last h; cases h
  | cons x xs ih =>
    intro a last hh hl hm
    simp only [List.head?_cons, Option.some.injEq] at hh
    subst hh
    cases xs with
    | nil => simp at hl; omega
    | cons y ys =>
      obtain ⟨hxy, hm'⟩ := monotone_cons.mp hm
      have := ih y last rfl (by simpa [List.getLast?_cons_cons] using hl) hm'
      omega

theorem seg_append {inner : List Int} {a b last : Int} (h0 : 0 ≤ a) (hab : a ≤ b) (hbl : b ≤ last) :
    seg inner a last = seg inner a b ++ seg inner b last := by
  unfold seg
  obtain ⟨a', rfl⟩ := Int.eq_ofNat_of_zero_le h0
  obtain ⟨b', rfl⟩ := Int.eq_ofNat_of_zero_le (by omega : (0 : Int) ≤ b)
  obtain ⟨l', rfl⟩ := Int.eq_ofNat_of_zero_le (by omega : (0 : Int) ≤ last)
  have e1 : ((l' : Int) - (a' : Int)).toNat = (b' - a') + (l' - b') := by omega
  have e2 : ((b' : Int) - (a' : Int)).toNat = b' - a' := by omega
  have e3 : ((l' : Int) - (b' : Int)).toNat = l' - b' := by omega
  have e4 : b' = a' + (b' - a') := by omega
  simp only [Int.toNat_natCast, e1, e2, e3]
  rw [List.take_add]
  congr 2
  rw [List.drop_drop]
  congr 1
  omega

theorem seg_length {inner : List Int} {a b : Int} (h0 : 0 ≤ a) (hab : a ≤ b) (hb : b ≤ inner.length) :
    (seg inner a b).length = (b - a).toNat := by
  unfold seg
  rw [List.length_take, List.length_drop]
  omega

theorem cscColumns_eq {inner : List Int} :
    ∀ (outer : List Int) (c : Nat) (a last : Int), outer.head? = some a → outer.getLast? = some last →
      0 ≤ a → monotone outer = true → last ≤ inner.length →
      cscColumns inner c outer = some ((seg inner a last).zip (expandOuter c outer)) := by
  intro outer
  induction outer with
  | nil => intro c a last h; cases h
  | cons x xs ih =>
    intro c a last hh hl h0 hm hlast
    simp only [List.head?_cons, Option.some.injEq] at hh
    subst hh
    cases xs with
    | nil =>
      simp only [List.getLast?_singleton, Option.some.injEq] at hl
      subst hl
      simp [cscColumns, expandOuter]
    | cons y ys =>
      obtain ⟨hxy, hm'⟩ := monotone_cons.mp hm
      have hl' : (y :: ys).getLast? = some last := by simpa [List.getLast?_cons_cons] using hl
      have hyl := monotone_head_le_last (y :: ys) y last rfl hl' hm'
      have hrec := ih (c + 1) y last rfl hl' (by omega) hm' hlast
      obtain ⟨x', rfl⟩ := Int.eq_ofNat_of_zero_le h0
      have hcol := cscColumn_eq (inner := inner) (c := (c : Int)) (y - (x' : Int)).toNat x' (by omega)
      simp only [cscColumns, hcol, hrec, expandOuter]
      rw [seg_append h0 hxy hyl]
      have hlen : (seg inner (x' : Int) y).length = (y - (x' : Int)).toNat :=
        seg_length h0 hxy (by omega)
      rw [List.zip_append (by rw [hlen, List.length_replicate])]
      congr 2
      rw [← hlen, zip_replicate_len]
      simp [seg]


/-! ### Specification-level facts: `sparseMat`, `denseMat`, the regenerated scatter kernels -/


theorem Mat.ext' {A B : Mat β} (hr : A.rows = B.rows) (hc : A.cols = B.cols)
    (hg : ∀ i j, A.get i j = B.get i j) : A = B := by
  cases A; cases B
  simp only at hr hc hg
  subst hr; subst hc
  congr
  funext i j
  exact hg i j

/-- A list of entries is a valid symmetric-tagged pattern for an `rows × cols` matrix. -/
structure ValidEntries (rows cols : Nat) (sym : Symmetry) (es : List (Int × Int)) : Prop where
  square : sym ≠ .unsym → rows = cols
  inb : ∀ e ∈ es, inBounds rows cols e = true
  tri : ∀ e ∈ es, triangleOk sym e = true
  nodup : es.Nodup

theorem sparseMat_eq_some {z : β} {rows cols : Nat} {sym : Symmetry} {es : List (Int × Int)}
    {v : List β} {M : Mat β} :
    sparseMat z rows cols sym es v = some M ↔
      ValidEntries rows cols sym es ∧
      M = lookupMat z rows cols sym es v := by
  unfold sparseMat
  constructor
  · intro h
    split at h; · cases h
    rename_i h1
    split at h; · cases h
    rename_i h2
    split at h; · cases h
    rename_i h3
    split at h; · cases h
    rename_i h4
    simp only [Option.some.injEq] at h
    refine ⟨⟨?_, ?_, ?_, ?_⟩, h.symm⟩
    · intro hs; by_contra hc; exact h1 ⟨hs, hc⟩
    · simpa using h2
    · simpa using h3
    · simpa using h4
  · rintro ⟨⟨h1, h2, h3, h4⟩, rfl⟩
    have n1 : ¬ (sym ≠ .unsym ∧ rows ≠ cols) := fun ⟨a, b⟩ => b (h1 a)
    have n2 : ¬ ¬ (es.all (inBounds rows cols) = true) := by simpa using h2
    have n3 : ¬ ¬ (es.all (triangleOk sym) = true) := by simpa using h3
    have n4 : ¬ ¬ es.Nodup := by simpa using h4
    rw [if_neg n1, if_neg n2, if_neg n3, if_neg n4]

theorem sparseMat_eq_none {z : β} {rows cols : Nat} {sym : Symmetry} {es : List (Int × Int)}
    {v : List β} : sparseMat z rows cols sym es v = none ↔ ¬ ValidEntries rows cols sym es := by
  constructor
  · intro h hv
    have := (sparseMat_eq_some (z := z) (v := v) (M := _)).mpr ⟨hv, rfl⟩
    rw [h] at this; cases this
  · intro h
    cases hs : sparseMat z rows cols sym es v with
    | none => rfl
    | some M => exact absurd (sparseMat_eq_some.mp hs).1 h

theorem hits_swap {sym : Symmetry} (hs : sym ≠ .unsym) (i j : Nat) : hits sym i j = hits sym j i := by
  funext e
  cases sym
  · exact absurd rfl hs
  all_goals
    simp only [hits, ne_eq, reduceCtorEq, not_false_eq_true, decide_true, Bool.true_and]
    rw [Bool.or_comm]

theorem lookup_swap {z : β} {sym : Symmetry} (hs : sym ≠ .unsym) (es : List (Int × Int)) (v : List β)
    (i j : Nat) : lookup z sym es v i j = lookup z sym es v j i := by
  unfold lookup; rw [hits_swap hs i j]

/-- A dense buffer that holds `lookup` in every cell denotes the sparse matrix, under either
    reading of the dense storage. -/
theorem dense_of_lookup {z : β} {rows cols : Nat} {sym : Symmetry} {es : List (Int × Int)} {v T : List β}
    (hsq : sym ≠ .unsym → rows = cols)
    (hT : ∀ i j, i < rows → j < cols → T.getD (i + j * rows) z = lookup z sym es v i j) :
    denseRaw z rows cols T = lookupMat z rows cols sym es v ∧
      denseMat z { rows := rows, cols := cols, sym := sym } T = some (lookupMat z rows cols sym es v) := by
  constructor
  · refine Mat.ext' (A := denseRaw z rows cols T) (B := lookupMat z rows cols sym es v) rfl rfl ?_
    intro i j
    simp only [denseRaw, lookupMat]
    split
    · rename_i h; exact hT i j h.1 h.2
    · rfl
  · unfold denseMat
    have n1 : ¬ (sym ≠ .unsym ∧ rows ≠ cols) := fun ⟨a, b⟩ => b (hsq a)
    simp only [n1, if_false, Option.some.injEq]
    refine Mat.ext' (B := lookupMat z rows cols sym es v) rfl rfl ?_
    intro i j
    simp only [lookupMat]
    split
    · rename_i h
      obtain ⟨hi, hj⟩ := h
      cases sym with
      | unsym => exact hT i j hi hj
      | upper =>
        have := hsq (by simp); subst this
        simp only
        rcases Nat.le_total i j with hij | hij
        · rw [Nat.min_eq_left hij, Nat.max_eq_right hij]; exact hT i j hi hj
        · rw [Nat.min_eq_right hij, Nat.max_eq_left hij, hT j i hj hi]
          exact lookup_swap (by simp) _ _ _ _
      | lower =>
        have := hsq (by simp); subst this
        simp only
        rcases Nat.le_total i j with hij | hij
        · rw [Nat.min_eq_left hij, Nat.max_eq_right hij, hT j i hj hi]
          exact lookup_swap (by simp) _ _ _ _
        · rw [Nat.min_eq_right hij, Nat.max_eq_left hij]; exact hT i j hi hj
    · rfl

theorem cscDense_scatterSpec (sym : Symmetry) :
    ScatterSpec sym (Gen.C14.cscDenseThrows sym.code) (Gen.C14.cscDenseWrites sym.code) := by
  cases sym <;> constructor <;> intro r c <;>
    simp [Gen.C14.cscDenseThrows, Gen.C14.cscDenseWrites, Symmetry.code, triangleOk] <;>
    (rw [Bool.eq_iff_iff]; simp only [decide_eq_true_eq, Bool.not_eq_true', decide_eq_false_iff_not]; omega)

theorem cooDense_scatterSpec (sym : Symmetry) :
    ScatterSpec sym (Gen.C14.cooDenseThrows sym.code) (Gen.C14.cooDenseWrites sym.code) := by
  cases sym <;> constructor <;> intro r c <;>
    simp [Gen.C14.cooDenseThrows, Gen.C14.cooDenseWrites, Symmetry.code, triangleOk] <;>
    (rw [Bool.eq_iff_iff]; simp only [decide_eq_true_eq, Bool.not_eq_true', decide_eq_false_iff_not]; omega)


end Alpaqa.C14
