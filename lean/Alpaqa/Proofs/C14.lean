/-
  C14 helper lemmas: the scatter loop of the conversions to dense, column-major index arithmetic,
  the compressed-column walk, the index-generation loops of the conversions from dense.
  Property theorems are in `Alpaqa/Props/C14.lean`.
-/
import Mathlib.Tactic.Ring
import Mathlib.Tactic.Linarith
import Alpaqa.Model.C14

namespace Alpaqa.C14
variable {β : Type}

/-! ### `writeCells` / `scatterGo` -/


theorem writeCells_some {rows cols : Nat} {x : β} :
    ∀ (ws : List (Int × Int)) (T : List β), (∀ w ∈ ws, inBounds rows cols w = true) →
      ∃ T', writeCells rows cols x ws T = some T' := by
  intro ws
  induction ws with
  | nil => intro T _; exact ⟨T, rfl⟩
  | cons w ws ih =>
    intro T h
    have hw := h w (List.mem_cons_self ..)
    simp only [writeCells, hw, if_true]
    exact ih _ (fun w' hw' => h w' (List.mem_cons_of_mem _ hw'))

theorem writeCells_inBounds {rows cols : Nat} {x : β} :
    ∀ (ws : List (Int × Int)) (T T' : List β), writeCells rows cols x ws T = some T' →
      ∀ w ∈ ws, inBounds rows cols w = true := by
  intro ws
  induction ws with
  | nil => intro T T' _ w hw; cases hw
  | cons w ws ih =>
    intro T T' h w' hw'
    simp only [writeCells] at h
    split at h
    · rename_i hb
      rcases List.mem_cons.mp hw' with rfl | hm
      · exact hb
      · exact ih _ _ h w' hm
    · cases h

theorem writeCells_spec {rows cols : Nat} {x : β} (z : β) :
    ∀ (ws : List (Int × Int)) (T T' : List β), writeCells rows cols x ws T = some T' →
      T'.length = T.length ∧
      ∀ k, k < T.length →
        T'.getD k z = if ∃ w ∈ ws, flatIdx rows w.1 w.2 = k then x else T.getD k z := by
  intro ws
  induction ws with
  | nil =>
    intro T T' h
    simp only [writeCells, Option.some.injEq] at h
    subst h
    simp
  | cons w ws ih =>
    intro T T' h
    simp only [writeCells] at h
    split at h
    · obtain ⟨hl, hk⟩ := ih _ _ h
      rw [List.length_set] at hl
      refine ⟨hl, fun k hkT => ?_⟩
      rw [hk k (by rw [List.length_set]; exact hkT)]
      by_cases h1 : ∃ w' ∈ ws, flatIdx rows w'.1 w'.2 = k
      · have : ∃ w' ∈ w :: ws, flatIdx rows w'.1 w'.2 = k := by
          obtain ⟨w', hw', e⟩ := h1; exact ⟨w', List.mem_cons_of_mem _ hw', e⟩
        simp [h1, this]
      · by_cases h2 : flatIdx rows w.1 w.2 = k
        · have : ∃ w' ∈ w :: ws, flatIdx rows w'.1 w'.2 = k := ⟨w, List.mem_cons_self .., h2⟩
          simp only [h1, this, if_true, if_false]
          rw [List.getD_eq_getElem?_getD, List.getElem?_set]
          simp [h2, hkT]
        · have : ¬ ∃ w' ∈ w :: ws, flatIdx rows w'.1 w'.2 = k := by
            rintro ⟨w', hw', e⟩
            rcases List.mem_cons.mp hw' with rfl | hm
            · exact h2 e
            · exact h1 ⟨w', hm, e⟩
          simp only [h1, this, if_false]
          rw [List.getD_eq_getElem?_getD, List.getD_eq_getElem?_getD, List.getElem?_set]
          simp [h2]
    · cases h



theorem scatterGo_spec {throws : Int → Int → Bool} {writes : Int → Int → List (Int × Int)}
    {rows cols : Nat} {work : List β} (z : β) :
    ∀ (es : List (Int × Int)) (l : Nat) (T T' : List β),
      scatterGo throws writes rows cols work z es l T = .ok T' →
      T'.length = T.length ∧
      (∀ e ∈ es, throws e.1 e.2 = false ∧ ∀ w ∈ writes e.1 e.2, inBounds rows cols w = true) ∧
      ∀ k, k < T.length →
        (∃ m e, es[m]? = some e ∧ (∃ w ∈ writes e.1 e.2, flatIdx rows w.1 w.2 = k) ∧
          T'.getD k z = work.getD (l + m) z) ∨
        ((∀ e ∈ es, ∀ w ∈ writes e.1 e.2, flatIdx rows w.1 w.2 ≠ k) ∧ T'.getD k z = T.getD k z) := by
  intro es
  induction es with
  | nil =>
    intro l T T' h
    simp only [scatterGo, Except.ok.injEq] at h
    subst h
    refine ⟨rfl, by simp, fun k _ => Or.inr ⟨by simp, rfl⟩⟩
  | cons e es ih =>
    intro l T T' h
    simp only [scatterGo] at h
    split at h
    · cases h
    · rename_i hthr
      split at h
      · cases h
      · rename_i T1 hw
        obtain ⟨hl1, hk1⟩ := writeCells_spec z _ _ _ hw
        obtain ⟨hl, hall, hk⟩ := ih _ _ _ h
        refine ⟨by rw [hl, hl1], ?_, ?_⟩
        · intro e' he'
          rcases List.mem_cons.mp he' with rfl | hm
          · exact ⟨by simpa using hthr, writeCells_inBounds _ _ _ hw⟩
          · exact hall e' hm
        · intro k hkT
          rcases hk k (by rw [hl1]; exact hkT) with ⟨m, e', hm, hw', hv⟩ | ⟨hno, hv⟩
          · refine Or.inl ⟨m + 1, e', by simpa using hm, hw', ?_⟩
            rw [hv]; congr 1; omega
          · rw [hk1 k hkT] at hv
            by_cases hx : ∃ w ∈ writes e.1 e.2, flatIdx rows w.1 w.2 = k
            · refine Or.inl ⟨0, e, by simp, hx, ?_⟩
              rw [hv, if_pos hx]; rfl
            · refine Or.inr ⟨?_, ?_⟩
              · intro e' he'
                rcases List.mem_cons.mp he' with rfl | hm
                · intro w hw' heq; exact hx ⟨w, hw', heq⟩
                · exact hno e' hm
              · rw [hv, if_neg hx]

theorem scatterGo_ok {throws : Int → Int → Bool} {writes : Int → Int → List (Int × Int)}
    {rows cols : Nat} {work : List β} (z : β) :
    ∀ (es : List (Int × Int)) (l : Nat) (T : List β),
      (∀ e ∈ es, throws e.1 e.2 = false ∧ ∀ w ∈ writes e.1 e.2, inBounds rows cols w = true) →
      ∃ T', scatterGo throws writes rows cols work z es l T = .ok T' := by
  intro es
  induction es with
  | nil => intro l T _; exact ⟨T, rfl⟩
  | cons e es ih =>
    intro l T h
    obtain ⟨ht, hw⟩ := h e (List.mem_cons_self ..)
    obtain ⟨T1, hT1⟩ := writeCells_some (x := work.getD l z) (writes e.1 e.2) T hw
    simp only [scatterGo, ht, hT1]
    exact ih _ _ (fun e' he' => h e' (List.mem_cons_of_mem _ he'))

theorem scatterGo_throws {throws : Int → Int → Bool} {writes : Int → Int → List (Int × Int)}
    {rows cols : Nat} {work : List β} (z : β) :
    ∀ (es : List (Int × Int)) (l : Nat) (T : List β),
      (∀ e ∈ es, ∀ w ∈ writes e.1 e.2, inBounds rows cols w = true) →
      (∃ e ∈ es, throws e.1 e.2 = true) →
      scatterGo throws writes rows cols work z es l T = .error .invalidArgument := by
  intro es
  induction es with
  | nil => intro l T _ h; obtain ⟨e, he, _⟩ := h; cases he
  | cons e es ih =>
    intro l T hb hex
    simp only [scatterGo]
    by_cases ht : throws e.1 e.2 = true
    · simp [ht]
    · obtain ⟨T1, hT1⟩ := writeCells_some (x := work.getD l z) (writes e.1 e.2) T
        (hb e (List.mem_cons_self ..))
      simp only [ht, hT1]
      apply ih _ _ (fun e' he' => hb e' (List.mem_cons_of_mem _ he'))
      obtain ⟨e', he', h'⟩ := hex
      rcases List.mem_cons.mp he' with rfl | hm
      · exact absurd h' ht
      · exact ⟨e', hm, h'⟩


/-! ### Column-major index arithmetic -/


theorem idx_lt {rows cols i j : Nat} (hi : i < rows) (hj : j < cols) : i + j * rows < rows * cols := by
  have h1 : (j + 1) * rows ≤ cols * rows := Nat.mul_le_mul_right _ hj
  have h2 : (j + 1) * rows = j * rows + rows := by ring
  have h3 : cols * rows = rows * cols := Nat.mul_comm ..
  omega

theorem inBounds_iff {rows cols : Nat} {e : Int × Int} :
    inBounds rows cols e = true ↔ 0 ≤ e.1 ∧ e.1 < rows ∧ 0 ≤ e.2 ∧ e.2 < cols := by
  simp [inBounds, and_assoc]

theorem flatIdx_eq_iff {rows cols : Nat} {a b : Int} {i j : Nat}
    (hb : inBounds rows cols (a, b) = true) (hi : i < rows) :
    flatIdx rows a b = i + j * rows ↔ a = i ∧ b = j := by
  obtain ⟨h0, h1, h2, h3⟩ := inBounds_iff.mp hb
  simp only at h0 h1 h2 h3
  obtain ⟨a', rfl⟩ := Int.eq_ofNat_of_zero_le h0
  obtain ⟨b', rfl⟩ := Int.eq_ofNat_of_zero_le h2
  have ha : a' < rows := by exact_mod_cast h1
  have : flatIdx rows (a' : Int) (b' : Int) = a' + b' * rows := by
    unfold flatIdx
    have : ((a' : Int) + (b' : Int) * (rows : Int)) = ((a' + b' * rows : Nat) : Int) := by push_cast; ring
    rw [this, Int.toNat_natCast]
  rw [this]
  constructor
  · intro h
    have hm : (a' + b' * rows) % rows = (i + j * rows) % rows := by rw [h]
    have hd : (a' + b' * rows) / rows = (i + j * rows) / rows := by rw [h]
    rw [Nat.add_mul_mod_self_right, Nat.add_mul_mod_self_right, Nat.mod_eq_of_lt ha, Nat.mod_eq_of_lt hi] at hm
    have hr : 0 < rows := by omega
    rw [Nat.add_mul_div_right _ _ hr, Nat.add_mul_div_right _ _ hr, Nat.div_eq_of_lt ha, Nat.div_eq_of_lt hi] at hd
    constructor
    · exact_mod_cast hm
    · have : b' = j := by omega
      exact_mod_cast this
  · rintro ⟨h1, h2⟩
    have h1' : a' = i := by exact_mod_cast h1
    have h2' : b' = j := by exact_mod_cast h2
    rw [h1', h2']


/-! ### Uniqueness of the entry supplying a cell -/


/-- Two triangle-respecting entries that supply the same cell are equal. -/
theorem hits_unique {sym : Symmetry} {i j : Nat} {e e' : Int × Int}
    (h : hits sym i j e = true) (h' : hits sym i j e' = true)
    (t : triangleOk sym e = true) (t' : triangleOk sym e' = true) : e = e' := by
  obtain ⟨a, b⟩ := e
  obtain ⟨a', b'⟩ := e'
  cases sym <;> simp [hits, triangleOk] at h h' t t' ⊢ <;> omega

theorem findIdx_hits_of_getElem {sym : Symmetry} {es : List (Int × Int)} {i j m : Nat} {e : Int × Int}
    (hn : es.Nodup) (ht : ∀ e ∈ es, triangleOk sym e = true)
    (hm : es[m]? = some e) (hh : hits sym i j e = true) :
    es.findIdx? (hits sym i j) = some m := by
  obtain ⟨hlt, rfl⟩ := List.getElem?_eq_some_iff.mp hm
  rw [List.findIdx?_eq_some_iff_getElem]
  refine ⟨hlt, hh, fun k hk hhk => ?_⟩
  have hklt : k < es.length := by omega
  have heq : es[k] = es[m] :=
    hits_unique hhk hh (ht _ (List.getElem_mem hklt)) (ht _ (List.getElem_mem hlt))
  have := (List.pairwise_iff_getElem.mp hn) k m hklt hlt hk
  exact this heq


/-! ### The scatter loop computes the denoted matrix -/



/-- What the regenerated triangle tests / scatter targets must satisfy for symmetry `sym`. -/
structure ScatterSpec (sym : Symmetry) (throws : Int → Int → Bool)
    (writes : Int → Int → List (Int × Int)) : Prop where
  throws_eq : ∀ r c, throws r c = !triangleOk sym (r, c)
  writes_eq : ∀ r c, writes r c = if sym = .unsym then [(r, c)] else [(r, c), (c, r)]

theorem inBounds_swap {n : Nat} {r c : Int} (h : inBounds n n (r, c) = true) : inBounds n n (c, r) = true := by
  rw [inBounds_iff] at h ⊢; simp only at h ⊢; omega

theorem hits_of_write {sym : Symmetry} {throws writes} (hs : ScatterSpec sym throws writes)
    {rows cols : Nat} {e w : Int × Int} {i j : Nat}
    (hw : w ∈ writes e.1 e.2) (hb : inBounds rows cols w = true) (hi : i < rows)
    (hk : flatIdx rows w.1 w.2 = i + j * rows) : hits sym i j e = true := by
  obtain ⟨r, c⟩ := e
  obtain ⟨a, b⟩ := w
  have := (flatIdx_eq_iff hb hi).mp hk
  rw [hs.writes_eq] at hw
  cases sym <;> simp [hits] at hw ⊢ <;> omega

theorem write_of_hits {sym : Symmetry} {throws writes} (hs : ScatterSpec sym throws writes)
    {e : Int × Int} {i j : Nat} (hh : hits sym i j e = true) :
    ((i : Int), (j : Int)) ∈ writes e.1 e.2 := by
  obtain ⟨r, c⟩ := e
  rw [hs.writes_eq]
  cases sym <;> simp [hits] at hh ⊢ <;> omega

theorem scatter_correct {sym : Symmetry} {throws writes} (hs : ScatterSpec sym throws writes)
    {rows cols : Nat} (hsq : sym ≠ .unsym → rows = cols) (es : List (Int × Int))
    (hb : ∀ e ∈ es, inBounds rows cols e = true) (ht : ∀ e ∈ es, triangleOk sym e = true)
    (hn : es.Nodup) (work : List β) (z : β) :
    ∃ T', scatterGo throws writes rows cols work z es 0 (List.replicate (rows * cols) z) = .ok T' ∧
      T'.length = rows * cols ∧
      ∀ i j, i < rows → j < cols →
        T'.getD (i + j * rows) z =
          lookup z sym es work i j := by
  have hwb : ∀ e ∈ es, throws e.1 e.2 = false ∧ ∀ w ∈ writes e.1 e.2, inBounds rows cols w = true := by
    intro e he
    refine ⟨by rw [hs.throws_eq]; simp [ht e he], ?_⟩
    intro w hw
    rw [hs.writes_eq] at hw
    by_cases hu : sym = .unsym
    · simp only [hu, if_true, List.mem_singleton] at hw
      rw [hw]; exact hb e he
    · simp only [hu, if_false, List.mem_cons, List.not_mem_nil, or_false] at hw
      have := hsq hu; subst this
      rcases hw with hw | hw
      · rw [hw]; exact hb e he
      · rw [hw]; exact inBounds_swap (hb e he)
  obtain ⟨T', hT'⟩ := scatterGo_ok (work := work) z es 0 (List.replicate (rows * cols) z) hwb
  obtain ⟨hl, _, hk⟩ := scatterGo_spec z _ _ _ _ hT'
  rw [List.length_replicate] at hl hk
  refine ⟨T', hT', hl, fun i j hi hj => ?_⟩
  rcases hk _ (idx_lt hi hj) with ⟨m, e, hm, ⟨w, hw, hwk⟩, hv⟩ | ⟨hno, hv⟩
  · have hbw := (hwb e (List.mem_of_getElem? hm)).2 w hw
    have hh := hits_of_write hs hw hbw hi hwk
    unfold lookup
    rw [findIdx_hits_of_getElem hn ht hm hh, hv, Nat.zero_add]
  · have : es.findIdx? (hits sym i j) = none := by
      rw [List.findIdx?_eq_none_iff]
      intro e he
      by_contra hc
      have hh : hits sym i j e = true := by simpa using hc
      have hw := write_of_hits hs hh
      apply hno e he _ hw
      have hbw := (hwb e he).2 _ hw
      exact (flatIdx_eq_iff hbw hi).mpr ⟨rfl, rfl⟩
    unfold lookup
    rw [this, hv]
    simp only [List.getD_eq_getElem?_getD, List.getElem?_replicate]
    split <;> rfl


/-! ### The compressed-column walk visits the slots in storage order -/


/-- Slots `a ≤ i < b` of `inner`. -/
def seg (inner : List Int) (a b : Int) : List Int := (inner.drop a.toNat).take (b - a).toNat

theorem zip_replicate_len {α γ : Type} (l : List α) (c : γ) :
    l.zip (List.replicate l.length c) = l.map fun x => (x, c) := by
  induction l with
  | nil => rfl
  | cons x xs ih => simp [List.replicate_succ, ih]

theorem cscColumn_eq {inner : List Int} {c : Int} :
    ∀ (n a : Nat), a + n ≤ inner.length →
      cscColumn inner c (a : Int) n = some (((inner.drop a).take n).map fun r => (r, c)) := by
  intro n
  induction n with
  | zero => intro a _; simp [cscColumn]
  | succ n ih =>
    intro a h
    have ha : a < inner.length := by omega
    have h0 : (0 : Int) ≤ (a : Int) := Int.natCast_nonneg a
    have hrec := ih (a + 1) (by omega)
    have hcast : ((a : Int) + 1) = ((a + 1 : Nat) : Int) := by push_cast; rfl
    rw [List.drop_eq_getElem_cons ha, List.take_succ_cons, List.map_cons]
    simp only [cscColumn, h0, if_true, Int.toNat_natCast, List.getElem?_eq_getElem ha, hcast, hrec]

theorem monotone_cons {a b : Int} {rest : List Int} :
    monotone (a :: b :: rest) = true ↔ a ≤ b ∧ monotone (b :: rest) = true := by
  simp [monotone]

theorem monotone_head_le_last : ∀ (outer : List Int) (a last : Int), outer.head? = some a →
    outer.getLast? = some last → monotone outer = true → a ≤ last := by
  intro outer
  induction outer with
  | nil => intro a last h; cases h
  | cons x xs ih =>
    intro a last hh hl hm
    simp only [List.head?_cons, Option.some.injEq] at hh
    subst hh
    cases xs with
    | nil => simp at hl; omega
    | cons y ys =>
      obtain ⟨hxy, hm'⟩ := monotone_cons.mp hm
      have := ih y last rfl (by simpa [List.getLast?_cons_cons] using hl) hm'
      omega

theorem seg_append {inner : List Int} {a b last : Int} (h0 : 0 ≤ a) (hab : a ≤ b) (hbl : b ≤ last) :
    seg inner a last = seg inner a b ++ seg inner b last := by
  unfold seg
  obtain ⟨a', rfl⟩ := Int.eq_ofNat_of_zero_le h0
  obtain ⟨b', rfl⟩ := Int.eq_ofNat_of_zero_le (by omega : (0 : Int) ≤ b)
  obtain ⟨l', rfl⟩ := Int.eq_ofNat_of_zero_le (by omega : (0 : Int) ≤ last)
  have e1 : ((l' : Int) - (a' : Int)).toNat = (b' - a') + (l' - b') := by omega
  have e2 : ((b' : Int) - (a' : Int)).toNat = b' - a' := by omega
  have e3 : ((l' : Int) - (b' : Int)).toNat = l' - b' := by omega
  have e4 : b' = a' + (b' - a') := by omega
  simp only [Int.toNat_natCast, e1, e2, e3]
  rw [List.take_add]
  congr 2
  rw [List.drop_drop]
  congr 1
  omega

theorem seg_length {inner : List Int} {a b : Int} (h0 : 0 ≤ a) (hab : a ≤ b) (hb : b ≤ inner.length) :
    (seg inner a b).length = (b - a).toNat := by
  unfold seg
  rw [List.length_take, List.length_drop]
  omega

theorem cscColumns_eq {inner : List Int} :
    ∀ (outer : List Int) (c : Nat) (a last : Int), outer.head? = some a → outer.getLast? = some last →
      0 ≤ a → monotone outer = true → last ≤ inner.length →
      cscColumns inner c outer = some ((seg inner a last).zip (expandOuter c outer)) := by
  intro outer
  induction outer with
  | nil => intro c a last h; cases h
  | cons x xs ih =>
    intro c a last hh hl h0 hm hlast
    simp only [List.head?_cons, Option.some.injEq] at hh
    subst hh
    cases xs with
    | nil =>
      simp only [List.getLast?_singleton, Option.some.injEq] at hl
      subst hl
      simp [cscColumns, expandOuter]
    | cons y ys =>
      obtain ⟨hxy, hm'⟩ := monotone_cons.mp hm
      have hl' : (y :: ys).getLast? = some last := by simpa [List.getLast?_cons_cons] using hl
      have hyl := monotone_head_le_last (y :: ys) y last rfl hl' hm'
      have hrec := ih (c + 1) y last rfl hl' (by omega) hm' hlast
      obtain ⟨x', rfl⟩ := Int.eq_ofNat_of_zero_le h0
      have hcol := cscColumn_eq (inner := inner) (c := (c : Int)) (y - (x' : Int)).toNat x' (by omega)
      simp only [cscColumns, hcol, hrec, expandOuter]
      rw [seg_append h0 hxy hyl]
      have hlen : (seg inner (x' : Int) y).length = (y - (x' : Int)).toNat :=
        seg_length h0 hxy (by omega)
      rw [List.zip_append (by rw [hlen, List.length_replicate])]
      congr 2
      rw [← hlen, zip_replicate_len]
      simp [seg]


/-! ### Specification-level facts: `sparseMat`, `denseMat`, the regenerated scatter kernels -/


theorem Mat.ext' {A B : Mat β} (hr : A.rows = B.rows) (hc : A.cols = B.cols)
    (hg : ∀ i j, A.get i j = B.get i j) : A = B := by
  cases A; cases B
  simp only at hr hc hg
  subst hr; subst hc
  congr
  funext i j
  exact hg i j

/-- A list of entries is a valid symmetric-tagged pattern for an `rows × cols` matrix. -/
structure ValidEntries (rows cols : Nat) (sym : Symmetry) (es : List (Int × Int)) : Prop where
  square : sym ≠ .unsym → rows = cols
  inb : ∀ e ∈ es, inBounds rows cols e = true
  tri : ∀ e ∈ es, triangleOk sym e = true
  nodup : es.Nodup

theorem sparseMat_eq_some {z : β} {rows cols : Nat} {sym : Symmetry} {es : List (Int × Int)}
    {v : List β} {M : Mat β} :
    sparseMat z rows cols sym es v = some M ↔
      ValidEntries rows cols sym es ∧
      M = lookupMat z rows cols sym es v := by
  unfold sparseMat
  constructor
  · intro h
    split at h; · cases h
    rename_i h1
    split at h; · cases h
    rename_i h2
    split at h; · cases h
    rename_i h3
    split at h; · cases h
    rename_i h4
    simp only [Option.some.injEq] at h
    refine ⟨⟨?_, ?_, ?_, ?_⟩, h.symm⟩
    · intro hs; by_contra hc; exact h1 ⟨hs, hc⟩
    · simpa using h2
    · simpa using h3
    · simpa using h4
  · rintro ⟨⟨h1, h2, h3, h4⟩, rfl⟩
    have n1 : ¬ (sym ≠ .unsym ∧ rows ≠ cols) := fun ⟨a, b⟩ => b (h1 a)
    have n2 : ¬ ¬ (es.all (inBounds rows cols) = true) := by simpa using h2
    have n3 : ¬ ¬ (es.all (triangleOk sym) = true) := by simpa using h3
    have n4 : ¬ ¬ es.Nodup := by simpa using h4
    rw [if_neg n1, if_neg n2, if_neg n3, if_neg n4]

theorem sparseMat_eq_none {z : β} {rows cols : Nat} {sym : Symmetry} {es : List (Int × Int)}
    {v : List β} : sparseMat z rows cols sym es v = none ↔ ¬ ValidEntries rows cols sym es := by
  constructor
  · intro h hv
    have := (sparseMat_eq_some (z := z) (v := v) (M := _)).mpr ⟨hv, rfl⟩
    rw [h] at this; cases this
  · intro h
    cases hs : sparseMat z rows cols sym es v with
    | none => rfl
    | some M => exact absurd (sparseMat_eq_some.mp hs).1 h

theorem hits_swap {sym : Symmetry} (hs : sym ≠ .unsym) (i j : Nat) : hits sym i j = hits sym j i := by
  funext e
  cases sym
  · exact absurd rfl hs
  all_goals
    simp only [hits, ne_eq, reduceCtorEq, not_false_eq_true, decide_true, Bool.true_and]
    rw [Bool.or_comm]

theorem lookup_swap {z : β} {sym : Symmetry} (hs : sym ≠ .unsym) (es : List (Int × Int)) (v : List β)
    (i j : Nat) : lookup z sym es v i j = lookup z sym es v j i := by
  unfold lookup; rw [hits_swap hs i j]

/-- A dense buffer that holds `lookup` in every cell denotes the sparse matrix, under either
    reading of the dense storage. -/
theorem dense_of_lookup {z : β} {rows cols : Nat} {sym : Symmetry} {es : List (Int × Int)} {v T : List β}
    (hsq : sym ≠ .unsym → rows = cols)
    (hT : ∀ i j, i < rows → j < cols → T.getD (i + j * rows) z = lookup z sym es v i j) :
    denseRaw z rows cols T = lookupMat z rows cols sym es v ∧
      denseMat z { rows := rows, cols := cols, sym := sym } T = some (lookupMat z rows cols sym es v) := by
  constructor
  · refine Mat.ext' (A := denseRaw z rows cols T) (B := lookupMat z rows cols sym es v) rfl rfl ?_
    intro i j
    simp only [denseRaw, lookupMat]
    split
    · rename_i h; exact hT i j h.1 h.2
    · rfl
  · unfold denseMat
    have n1 : ¬ (sym ≠ .unsym ∧ rows ≠ cols) := fun ⟨a, b⟩ => b (hsq a)
    simp only [n1, if_false, Option.some.injEq]
    refine Mat.ext' (B := lookupMat z rows cols sym es v) rfl rfl ?_
    intro i j
    simp only [lookupMat]
    split
    · rename_i h
      obtain ⟨hi, hj⟩ := h
      cases sym with
      | unsym => exact hT i j hi hj
      | upper =>
        have := hsq (by simp); subst this
        simp only
        rcases Nat.le_total i j with hij | hij
        · rw [Nat.min_eq_left hij, Nat.max_eq_right hij]; exact hT i j hi hj
        · rw [Nat.min_eq_right hij, Nat.max_eq_left hij, hT j i hj hi]
          exact lookup_swap (by simp) _ _ _ _
      | lower =>
        have := hsq (by simp); subst this
        simp only
        rcases Nat.le_total i j with hij | hij
        · rw [Nat.min_eq_left hij, Nat.max_eq_right hij, hT j i hj hi]
          exact lookup_swap (by simp) _ _ _ _
        · rw [Nat.min_eq_right hij, Nat.max_eq_left hij]; exact hT i j hi hj
    · rfl

theorem cscDense_scatterSpec (sym : Symmetry) :
    ScatterSpec sym (Gen.C14.cscDenseThrows sym.code) (Gen.C14.cscDenseWrites sym.code) := by
  cases sym <;> constructor <;> intro r c <;>
    simp [Gen.C14.cscDenseThrows, Gen.C14.cscDenseWrites, Symmetry.code, triangleOk] <;>
    (rw [Bool.eq_iff_iff]; simp only [decide_eq_true_eq, Bool.not_eq_true', decide_eq_false_iff_not]; omega)

theorem cooDense_scatterSpec (sym : Symmetry) :
    ScatterSpec sym (Gen.C14.cooDenseThrows sym.code) (Gen.C14.cooDenseWrites sym.code) := by
  cases sym <;> constructor <;> intro r c <;>
    simp [Gen.C14.cooDenseThrows, Gen.C14.cooDenseWrites, Symmetry.code, triangleOk] <;>
    (rw [Bool.eq_iff_iff]; simp only [decide_eq_true_eq, Bool.not_eq_true', decide_eq_false_iff_not]; omega)


/-! ### Conversions to dense -/


theorem expandOuter_length : ∀ (outer : List Int) (c : Nat) (a last : Int), outer.head? = some a →
    outer.getLast? = some last → monotone outer = true →
    (expandOuter c outer).length = (last - a).toNat := by
  intro outer
  induction outer with
  | nil => intro c a last h; cases h
  | cons x xs ih =>
    intro c a last hh hl hm
    simp only [List.head?_cons, Option.some.injEq] at hh
    subst hh
    cases xs with
    | nil =>
      simp only [List.getLast?_singleton, Option.some.injEq] at hl
      subst hl
      simp [expandOuter]
    | cons y ys =>
      obtain ⟨hxy, hm'⟩ := monotone_cons.mp hm
      have hl' : (y :: ys).getLast? = some last := by simpa [List.getLast?_cons_cons] using hl
      have hyl := monotone_head_le_last (y :: ys) y last rfl hl' hm'
      have := ih (c + 1) y last rfl hl' hm'
      simp only [expandOuter, List.length_append, List.length_replicate, this]
      omega

theorem outerWF_iff {cols : Nat} {outer : List Int} {nnz : Nat} :
    outerWF cols outer nnz = true ↔
      outer.length = cols + 1 ∧ outer.head? = some 0 ∧ outer.getLast? = some (nnz : Int) ∧
        monotone outer = true := by
  simp [outerWF, and_assoc]

theorem cscWalk_of_spec {s : CSC} {es : List (Int × Int)} (h : cscEntriesSpec s = some es) :
    cscWalk s = some es ∧ es.length = s.inner.length := by
  unfold cscEntriesSpec at h
  split at h
  · rename_i hwf
    obtain ⟨h1, h2, h3, h4⟩ := outerWF_iff.mp hwf
    simp only [Option.some.injEq] at h
    subst h
    have hlen := expandOuter_length s.outer 0 0 _ h2 h3 h4
    constructor
    · unfold cscWalk
      rw [if_neg (by simpa using h1)]
      rw [cscColumns_eq s.outer 0 0 _ h2 h3 (le_refl _) h4 (le_refl _)]
      simp [seg]
    · rw [List.length_zip, hlen]; simp
  · cases h

theorem cooWalk_of_spec {s : COO} {es : List (Int × Int)} (h : cooEntriesSpec s = some es) :
    cooWalk s = some es := by
  unfold cooEntriesSpec at h
  split at h
  · rename_i hl
    simp only [Option.some.injEq] at h
    subst h
    unfold cooWalk
    rw [if_neg (by simpa using hl)]
    simp [Gen.C14.cooDenseRow, Gen.C14.cooDenseCol]
  · cases h

theorem rejectsShape_false {sym : Symmetry} {rows cols : Nat} (h : sym ≠ .unsym → rows = cols) :
    (sym.code != (0 : Int) && ((rows : Int) != (cols : Int))) = false := by
  cases sym
  · simp [Symmetry.code]
  all_goals (have := h (by simp); subst this; simp)

theorem rejectsShape_true {sym : Symmetry} {rows cols : Nat} (h1 : sym ≠ .unsym) (h2 : rows ≠ cols) :
    (sym.code != (0 : Int) && ((rows : Int) != (cols : Int))) = true := by
  have : (rows : Int) ≠ (cols : Int) := by exact_mod_cast h2
  cases sym
  · exact absurd rfl h1
  all_goals simp [Symmetry.code, this]

/-- CSC → Dense on a valid pattern: succeeds, and the dense buffer holds the denoted matrix in
    every cell (mirrored cells included). -/
theorem cscToDense_correct (z : β) (s : CSC) (v : List β) {es : List (Int × Int)}
    (hes : cscEntriesSpec s = some es) (hv : ValidEntries s.rows s.cols s.sym es) :
    cscToDense z s = .ok { out := .dense { rows := s.rows, cols := s.cols, sym := s.sym },
                           vals := cscDenseVals z s } ∧
    ∃ v', cscDenseVals z s v = .ok v' ∧ v'.length = s.rows * s.cols ∧
      denseRaw z s.rows s.cols v' = lookupMat z s.rows s.cols s.sym es v ∧
      denseMat z { rows := s.rows, cols := s.cols, sym := s.sym } v' =
        some (lookupMat z s.rows s.cols s.sym es v) := by
  obtain ⟨hwalk, hlen⟩ := cscWalk_of_spec hes
  obtain ⟨T', hT', hl, hget⟩ := scatter_correct (cscDense_scatterSpec s.sym) hv.square es hv.inb hv.tri
    hv.nodup v z
  obtain ⟨hraw, hden⟩ := dense_of_lookup (z := z) (es := es) (v := v) (T := T') hv.square hget
  refine ⟨?_, T', ?_, hl, hraw, hden⟩
  · unfold cscToDense
    rw [Gen.C14.cscDenseRejectsShape, rejectsShape_false hv.square]
    rfl
  · simp only [cscDenseVals, hwalk, hlen, Nat.lt_irrefl, gt_iff_lt, if_false, hT']

/-- COO → Dense on a valid pattern. -/
theorem cooToDense_correct (z : β) (s : COO) (v : List β) {es : List (Int × Int)}
    (hes : cooEntriesSpec s = some es) (hv : ValidEntries s.rows s.cols s.sym es) :
    cooToDense z s = .ok { out := .dense { rows := s.rows, cols := s.cols, sym := s.sym },
                           vals := cooDenseVals z s } ∧
    ∃ v', cooDenseVals z s v = .ok v' ∧ v'.length = s.rows * s.cols ∧
      denseRaw z s.rows s.cols v' = lookupMat z s.rows s.cols s.sym es v ∧
      denseMat z { rows := s.rows, cols := s.cols, sym := s.sym } v' =
        some (lookupMat z s.rows s.cols s.sym es v) := by
  have hwalk := cooWalk_of_spec hes
  obtain ⟨T', hT', hl, hget⟩ := scatter_correct (cooDense_scatterSpec s.sym) hv.square es hv.inb hv.tri
    hv.nodup v z
  obtain ⟨hraw, hden⟩ := dense_of_lookup (z := z) (es := es) (v := v) (T := T') hv.square hget
  refine ⟨?_, T', ?_, hl, hraw, hden⟩
  · unfold cooToDense
    rw [Gen.C14.cooDenseRejectsShape, rejectsShape_false hv.square]
    rfl
  · simp only [cooDenseVals, hwalk, hT']

/-- Cells written for an in-range entry of a (square when symmetric) matrix are in range. -/
theorem writes_inBounds {sym : Symmetry} {throws writes} (hs : ScatterSpec sym throws writes)
    {rows cols : Nat} (hsq : sym ≠ .unsym → rows = cols) {e : Int × Int}
    (hb : inBounds rows cols e = true) : ∀ w ∈ writes e.1 e.2, inBounds rows cols w = true := by
  intro w hw
  rw [hs.writes_eq] at hw
  by_cases hu : sym = .unsym
  · simp only [hu, if_true, List.mem_singleton] at hw
    rw [hw]; exact hb
  · simp only [hu, if_false, List.mem_cons, List.not_mem_nil, or_false] at hw
    have := hsq hu; subst this
    rcases hw with hw | hw
    · rw [hw]; exact hb
    · rw [hw]; exact inBounds_swap hb

/-- The scatter loop throws `invalid_argument` on an entry in the wrong triangle. -/
theorem scatter_rejects_triangle {sym : Symmetry} {throws writes} (hs : ScatterSpec sym throws writes)
    {rows cols : Nat} (hsq : sym ≠ .unsym → rows = cols) (es : List (Int × Int))
    (hb : ∀ e ∈ es, inBounds rows cols e = true) (hbad : ∃ e ∈ es, triangleOk sym e = false)
    (work : List β) (z : β) (l : Nat) (T : List β) :
    scatterGo throws writes rows cols work z es l T = .error .invalidArgument := by
  apply scatterGo_throws
  · intro e he; exact writes_inBounds hs hsq (hb e he)
  · obtain ⟨e, he, ht⟩ := hbad
    exact ⟨e, he, by rw [hs.throws_eq]; simp [ht]⟩

/-- If the scatter loop completes, every entry was in range and in the stored triangle. -/
theorem scatter_ok_valid {sym : Symmetry} {throws writes} (hs : ScatterSpec sym throws writes)
    {rows cols : Nat} {es : List (Int × Int)} {work : List β} {z : β} {l : Nat} {T T' : List β}
    (h : scatterGo throws writes rows cols work z es l T = .ok T') :
    (∀ e ∈ es, inBounds rows cols e = true) ∧ (∀ e ∈ es, triangleOk sym e = true) := by
  obtain ⟨_, hall, _⟩ := scatterGo_spec z _ _ _ _ h
  constructor
  · intro e he
    have := (hall e he).2 e (by rw [hs.writes_eq]; split <;> simp)
    exact this
  · intro e he
    have := (hall e he).1
    rw [hs.throws_eq] at this
    simpa using this


/-! ### Index-generation loops of the conversions from dense -/


theorem takeWhile_range {p : Nat → Bool} {n m : Nat} (hmn : m ≤ n) (hp : ∀ r, r < m → p r = true)
    (hq : m < n → p m = false) : (List.range n).takeWhile p = List.range m := by
  obtain ⟨k, rfl⟩ := Nat.exists_eq_add_of_le hmn
  rw [List.range_add, List.takeWhile_append_of_pos (by intro a ha; exact hp a (List.mem_range.mp ha))]
  cases k with
  | zero => simp
  | succ k =>
    have : p m = false := hq (by omega)
    rw [List.range_succ_eq_map]
    simp [this]

/-- Per-column entry lists with `h c` leading rows in column `c`. -/
def colList (h : Nat → Nat) (cols : Nat) : List (List (Nat × Nat)) :=
  (List.range cols).map fun c => (List.range (h c)).map fun r => (r, c)

theorem loopColumns_eq {cond : Int → Int → Bool} {rows cols : Nat} {h : Nat → Nat}
    (hle : ∀ c, c < cols → h c ≤ rows)
    (hp : ∀ c r, c < cols → r < h c → cond (r : Int) (c : Int) = true)
    (hq : ∀ c, c < cols → h c < rows → cond ((h c : Nat) : Int) (c : Int) = false) :
    loopColumns cond rows cols = colList h cols := by
  unfold loopColumns colList
  apply List.map_congr_left
  intro c hc
  have hc' := List.mem_range.mp hc
  rw [takeWhile_range (hle c hc') (fun r hr => hp c r hc' hr) (fun hlt => hq c hc' hlt)]

theorem mem_colList_flatten {h : Nat → Nat} {cols : Nat} {p : Nat × Nat} :
    p ∈ (colList h cols).flatten ↔ p.2 < cols ∧ p.1 < h p.2 := by
  obtain ⟨r, c⟩ := p
  simp only [colList, List.mem_flatten, List.mem_map, List.mem_range]
  constructor
  · rintro ⟨l, ⟨c', hc', rfl⟩, hm⟩
    simp only [List.mem_map, List.mem_range, Prod.mk.injEq] at hm
    obtain ⟨r', hr', rfl, rfl⟩ := hm
    exact ⟨hc', hr'⟩
  · rintro ⟨hc, hr⟩
    exact ⟨_, ⟨c, hc, rfl⟩, List.mem_map.mpr ⟨r, List.mem_range.mpr hr, rfl⟩⟩

/-- Column-then-row order, strict. -/
def colRowLT (a b : Nat × Nat) : Prop := a.2 < b.2 ∨ (a.2 = b.2 ∧ a.1 < b.1)

theorem colList_sorted (h : Nat → Nat) (cols : Nat) :
    (colList h cols).flatten.Pairwise colRowLT := by
  rw [List.pairwise_flatten]
  constructor
  · intro l hl
    simp only [colList, List.mem_map, List.mem_range] at hl
    obtain ⟨c, _, rfl⟩ := hl
    rw [List.pairwise_map]
    exact List.Pairwise.imp (fun {a b} hab => Or.inr ⟨rfl, hab⟩) List.pairwise_lt_range
  · unfold colList
    rw [List.pairwise_map]
    refine List.Pairwise.imp ?_ List.pairwise_lt_range
    intro c1 c2 hlt x hx y hy
    simp only [List.mem_map, List.mem_range] at hx hy
    obtain ⟨_, _, rfl⟩ := hx
    obtain ⟨_, _, rfl⟩ := hy
    exact Or.inl hlt

theorem colList_nodup (h : Nat → Nat) (cols : Nat) : (colList h cols).flatten.Nodup := by
  refine List.Pairwise.imp ?_ (colList_sorted h cols)
  intro a b hab heq
  subst heq
  rcases hab with h1 | ⟨_, h2⟩ <;> omega

theorem colList_lengths (h : Nat → Nat) (cols : Nat) :
    (colList h cols).map List.length = (List.range cols).map h := by
  simp [colList]


theorem colList_succ (h : Nat → Nat) (cols : Nat) :
    colList h (cols + 1) = colList h cols ++ [(List.range (h cols)).map fun r => (r, cols)] := by
  simp [colList, List.range_succ]

theorem colMajor_index (rows cols : Nat) :
    ((colList (fun _ => rows) cols).flatten.map fun p => p.1 + p.2 * rows) = List.range (rows * cols) := by
  induction cols with
  | zero => simp [colList]
  | succ n ih =>
    rw [colList_succ, List.flatten_append, List.map_append, ih]
    have : rows * (n + 1) = rows * n + rows := by ring
    rw [this, List.range_add]
    congr 1
    simp only [List.flatten_cons, List.flatten_nil, List.append_nil, List.map_map]
    apply List.map_congr_left
    intro r _
    simp only [Function.comp]
    rw [Nat.mul_comm n rows]; omega

theorem colMajor_pos {rows cols l : Nat} {p : Nat × Nat}
    (h : (colList (fun _ => rows) cols).flatten[l]? = some p) : p.1 + p.2 * rows = l := by
  have h1 : ((colList (fun _ => rows) cols).flatten.map fun p => p.1 + p.2 * rows)[l]? =
      some (p.1 + p.2 * rows) := by rw [List.getElem?_map, h]; rfl
  rw [colMajor_index] at h1
  have hl : l < rows * cols := by
    by_contra hc
    rw [List.getElem?_eq_none (by simpa using hc)] at h1
    cases h1
  rw [List.getElem?_range hl] at h1
  exact (Option.some.inj h1).symm

/-- Natural-number index pairs as (zero-based) entries. -/
def castP (p : Nat × Nat) : Int × Int := ((p.1 : Int), (p.2 : Int))

theorem castP_inj {a b : Nat × Nat} (h : castP a = castP b) : a = b := by
  obtain ⟨a1, a2⟩ := a; obtain ⟨b1, b2⟩ := b
  simp only [castP, Prod.mk.injEq] at h
  obtain ⟨h1, h2⟩ := h
  have e1 : a1 = b1 := by exact_mod_cast h1
  have e2 : a2 = b2 := by exact_mod_cast h2
  rw [e1, e2]

theorem nodup_map_castP {ps : List (Nat × Nat)} (h : ps.Nodup) : (ps.map castP).Nodup := by
  unfold List.Nodup
  rw [List.pairwise_map]
  exact List.Pairwise.imp (fun {a b} hab heq => hab (castP_inj heq)) h

/-- Looking up a cell that a listed index pair supplies returns the value gathered for that pair. -/
theorem lookup_of_mem {z : β} {sym : Symmetry} {ps : List (Nat × Nat)} {v v' : List β} {rows : Nat}
    (hv' : ∀ l p, ps[l]? = some p → v'.getD l z = v.getD (p.1 + p.2 * rows) z)
    (hn : ps.Nodup) (ht : ∀ e ∈ ps.map castP, triangleOk sym e = true)
    {p : Nat × Nat} {i j : Nat} (hp : p ∈ ps) (hh : hits sym i j (castP p) = true) :
    lookup z sym (ps.map castP) v' i j = v.getD (p.1 + p.2 * rows) z := by
  obtain ⟨l, hl⟩ := List.mem_iff_getElem?.mp hp
  have hl' : (ps.map castP)[l]? = some (castP p) := by rw [List.getElem?_map, hl]; rfl
  unfold lookup
  rw [findIdx_hits_of_getElem (nodup_map_castP hn) ht hl' hh]
  exact hv' l p hl

theorem hits_castP_self (sym : Symmetry) (i j : Nat) : hits sym i j (castP (i, j)) = true := by
  simp [hits, castP]

theorem hits_castP_swap {sym : Symmetry} (hs : sym ≠ .unsym) (i j : Nat) :
    hits sym i j (castP (j, i)) = true := by
  cases sym
  · exact absurd rfl hs
  all_goals simp [hits, castP]

/-- The entries generated from a dense pattern, with the gathered values, denote the dense matrix. -/
theorem fromDense_denote (z : β) (d : Dense) (hlow : d.sym ≠ .lower) (hsq : d.sym ≠ .unsym → d.rows = d.cols)
    (v v' : List β)
    (hv' : ∀ l p, ((colList (fun c => if d.sym = .unsym then d.rows else c + 1) d.cols).flatten)[l]? = some p →
      v'.getD l z = v.getD (p.1 + p.2 * d.rows) z) :
    sparseMat z d.rows d.cols d.sym
      (((colList (fun c => if d.sym = .unsym then d.rows else c + 1) d.cols).flatten).map castP) v' =
      denseMat z d v := by
  obtain ⟨rows, cols, sym⟩ := d
  simp only at hlow hsq hv' ⊢
  generalize hps : (colList (fun c => if sym = .unsym then rows else c + 1) cols).flatten = ps at hv' ⊢
  have hmem : ∀ p : Nat × Nat, p ∈ ps ↔ p.2 < cols ∧ p.1 < (if sym = .unsym then rows else p.2 + 1) := by
    intro p; rw [← hps]; exact mem_colList_flatten
  have hn : ps.Nodup := by rw [← hps]; exact colList_nodup _ _
  have htri : ∀ e ∈ ps.map castP, triangleOk sym e = true := by
    intro e he
    obtain ⟨p, hp, rfl⟩ := List.mem_map.mp he
    have := (hmem p).mp hp
    cases sym
    · rfl
    · simp only [reduceCtorEq, if_false] at this
      simp only [triangleOk, castP, decide_eq_true_eq, Nat.cast_le]; omega
    · exact absurd rfl hlow
  have hval : ValidEntries rows cols sym (ps.map castP) := by
    refine ⟨hsq, ?_, htri, nodup_map_castP hn⟩
    intro e he
    obtain ⟨p, hp, rfl⟩ := List.mem_map.mp he
    have := (hmem p).mp hp
    rw [inBounds_iff]; simp only [castP]
    by_cases hu : sym = .unsym
    · simp only [hu, if_true] at this; omega
    · simp only [hu, if_false] at this
      have := hsq hu; omega
  rw [(sparseMat_eq_some).mpr ⟨hval, rfl⟩]
  unfold denseMat
  have n1 : ¬ (sym ≠ .unsym ∧ rows ≠ cols) := fun ⟨a, b⟩ => b (hsq a)
  simp only [n1, if_false, Option.some.injEq]
  refine Mat.ext' (A := lookupMat z rows cols sym (ps.map castP) v') rfl rfl ?_
  intro i j
  simp only [lookupMat]
  split
  · rename_i hij
    obtain ⟨hi, hj⟩ := hij
    cases sym with
    | unsym =>
      have hp : (i, j) ∈ ps := (hmem (i, j)).mpr ⟨hj, by simpa using hi⟩
      exact lookup_of_mem hv' hn htri hp (hits_castP_self _ i j)
    | upper =>
      have := hsq (by simp); subst this
      simp only
      rcases Nat.le_total i j with hle | hle
      · rw [Nat.min_eq_left hle, Nat.max_eq_right hle]
        have hp : (i, j) ∈ ps := (hmem (i, j)).mpr ⟨hj, by simp; omega⟩
        exact lookup_of_mem hv' hn htri hp (hits_castP_self _ i j)
      · rw [Nat.min_eq_right hle, Nat.max_eq_left hle]
        have hp : (j, i) ∈ ps := (hmem (j, i)).mpr ⟨hi, by simp; omega⟩
        exact lookup_of_mem hv' hn htri hp (hits_castP_swap (by simp) i j)
    | lower => exact absurd rfl hlow
  · rfl


theorem sum_const_range (rows cols : Nat) : ((List.range cols).map fun _ => rows).sum = rows * cols := by
  induction cols with
  | zero => simp
  | succ n ih => rw [List.range_succ, List.map_append, List.sum_append, ih]; simp; ring

theorem sum_succ_range (n : Nat) : ((List.range n).map fun c => c + 1).sum * 2 = n * (n + 1) := by
  induction n with
  | zero => simp
  | succ n ih =>
    rw [List.range_succ, List.map_append, List.sum_append, Nat.add_mul, ih]; simp; ring

theorem colList_flatten_length (h : Nat → Nat) (cols : Nat) :
    (colList h cols).flatten.length = ((List.range cols).map h).sum := by
  rw [List.length_flatten, colList_lengths]

/-- Rows generated per column by the (regenerated) inner-loop condition. -/
def triH (sym : Symmetry) (rows : Nat) (c : Nat) : Nat := if sym = .unsym then rows else c + 1

theorem triH_length_unsym (rows cols : Nat) :
    ((colList (triH .unsym rows) cols).flatten.length : Int) = (rows : Int) * (cols : Int) := by
  rw [colList_flatten_length]
  have : (List.range cols).map (triH .unsym rows) = (List.range cols).map fun _ => rows := by
    apply List.map_congr_left; intro c _; simp [triH]
  rw [this, sum_const_range]; push_cast; ring

theorem triH_length_upper (n : Nat) :
    ((colList (triH .upper n) n).flatten.length : Int) = ((n : Int) * ((n : Int) + 1)) / 2 := by
  rw [colList_flatten_length]
  have : (List.range n).map (triH .upper n) = (List.range n).map fun c => c + 1 := by
    apply List.map_congr_left; intro c _; simp [triH]
  rw [this]
  have h := sum_succ_range n
  generalize ((List.range n).map fun c => c + 1).sum = S at h ⊢
  have h' : (S : Int) * 2 = (n : Int) * ((n : Int) + 1) := by exact_mod_cast h
  omega


/-! ### The regenerated loop conditions / formulas of the converters from dense -/


theorem triH_le {sym : Symmetry} {rows cols : Nat} (hsq : sym ≠ .unsym → rows = cols) {c : Nat}
    (hc : c < cols) : triH sym rows c ≤ rows := by
  unfold triH
  split
  · exact le_refl _
  · rename_i hu; have := hsq hu; omega

theorem denseCoo_loop (d : Dense) (hlow : d.sym ≠ .lower) (hsq : d.sym ≠ .unsym → d.rows = d.cols) :
    loopColumns (Gen.C14.denseCooRowCond d.sym.code d.rows d.cols) d.rows d.cols =
      colList (triH d.sym d.rows) d.cols := by
  obtain ⟨rows, cols, sym⟩ := d
  simp only at hlow hsq ⊢
  apply loopColumns_eq (fun c hc => triH_le hsq hc)
  · intro c r hc hr
    cases sym
    · simp only [triH, if_true] at hr
      simp [Gen.C14.denseCooRowCond, Symmetry.code, hr]
    · simp only [triH, reduceCtorEq, if_false] at hr
      simp [Gen.C14.denseCooRowCond, Symmetry.code]; omega
    · exact absurd rfl hlow
  · intro c hc hlt
    cases sym
    · simp [triH] at hlt
    · simp [Gen.C14.denseCooRowCond, Symmetry.code, triH]
    · exact absurd rfl hlow

theorem denseCsc_loop (d : Dense) (hlow : d.sym ≠ .lower) (hsq : d.sym ≠ .unsym → d.rows = d.cols) :
    loopColumns (Gen.C14.denseCscRowCond d.sym.code d.rows d.cols) d.rows d.cols =
      colList (triH d.sym d.rows) d.cols := by
  obtain ⟨rows, cols, sym⟩ := d
  simp only at hlow hsq ⊢
  apply loopColumns_eq (fun c hc => triH_le hsq hc)
  · intro c r hc hr
    cases sym
    · simp only [triH, if_true] at hr
      simp [Gen.C14.denseCscRowCond, Symmetry.code, hr]
    · simp only [triH, reduceCtorEq, if_false] at hr
      simp [Gen.C14.denseCscRowCond, Symmetry.code]; omega
    · exact absurd rfl hlow
  · intro c hc hlt
    cases sym
    · simp [triH] at hlt
    · simp [Gen.C14.denseCscRowCond, Symmetry.code, triH]
    · exact absurd rfl hlow

theorem triH_nnz (d : Dense) (hlow : d.sym ≠ .lower) (hsq : d.sym ≠ .unsym → d.rows = d.cols) :
    ((colList (triH d.sym d.rows) d.cols).flatten.length : Int) =
      (if d.sym.code == 0 then (d.rows : Int) * (d.cols : Int)
       else if d.sym.code == 1 then ((d.rows : Int) * ((d.rows : Int) + 1)) / 2 else 0) := by
  obtain ⟨rows, cols, sym⟩ := d
  simp only at hlow hsq ⊢
  cases sym
  · simpa [Symmetry.code] using triH_length_unsym rows cols
  · have := hsq (by simp); subst this
    simpa [Symmetry.code] using triH_length_upper rows
  · exact absurd rfl hlow

theorem denseRejects_false (d : Dense) (hlow : d.sym ≠ .lower) (hsq : d.sym ≠ .unsym → d.rows = d.cols) :
    Gen.C14.denseCooRejects d.sym.code d.rows d.cols = false ∧
    Gen.C14.denseCscRejects d.sym.code d.rows d.cols = false := by
  obtain ⟨rows, cols, sym⟩ := d
  simp only at hlow hsq ⊢
  cases sym
  · simp [Gen.C14.denseCooRejects, Gen.C14.denseCscRejects, Symmetry.code]
  · have := hsq (by simp); subst this
    simp [Gen.C14.denseCooRejects, Gen.C14.denseCscRejects, Symmetry.code]
  · exact absurd rfl hlow

theorem denseRejects_true (d : Dense) (h : d.sym = .lower ∨ (d.sym = .upper ∧ d.rows ≠ d.cols)) :
    Gen.C14.denseCooRejects d.sym.code d.rows d.cols = true ∧
    Gen.C14.denseCscRejects d.sym.code d.rows d.cols = true := by
  obtain ⟨rows, cols, sym⟩ := d
  simp only at h ⊢
  rcases h with rfl | ⟨rfl, hne⟩
  · simp [Gen.C14.denseCooRejects, Gen.C14.denseCscRejects, Symmetry.code]
  · have : (rows : Int) ≠ (cols : Int) := by exact_mod_cast hne
    simp [Gen.C14.denseCooRejects, Gen.C14.denseCscRejects, Symmetry.code, this]

/-- `convert_values` of the converters from dense gathers, for every generated index pair
    `(r, c)`, the dense element `r + c * rows`. -/
theorem denseValues_gather (z : β) (d : Dense) (hlow : d.sym ≠ .lower)
    (hsq : d.sym ≠ .unsym → d.rows = d.cols) (copy tri : Int → Bool) (top adv : Int → Int)
    (hcopy : copy d.sym.code = decide (d.sym = .unsym)) (htri : tri d.sym.code = decide (d.sym = .upper))
    (htop : ∀ c, top c = c + 1) (hadv : ∀ c, adv c = c + 1) (n : Nat) (v : List β) :
    ∃ v', denseValues z (copy d.sym.code) (tri d.sym.code) top adv d.rows d.cols n v = .ok v' ∧
      ∀ l p, ((colList (triH d.sym d.rows) d.cols).flatten)[l]? = some p →
        v'.getD l z = v.getD (p.1 + p.2 * d.rows) z := by
  obtain ⟨rows, cols, sym⟩ := d
  simp only at hlow hsq hcopy htri ⊢
  cases sym
  · refine ⟨v, by simp [denseValues, hcopy], ?_⟩
    intro l p hl
    have : triH .unsym rows = fun _ => rows := by funext c; simp [triH]
    rw [this] at hl
    rw [colMajor_pos hl]
  · have := hsq (by simp); subst this
    refine ⟨((colList (triH .upper rows) rows).flatten).map fun p => v.getD (p.1 + p.2 * rows) z, ?_, ?_⟩
    · have hall : ((List.range rows).all fun (c : Nat) =>
          top (c : Int) == adv (c : Int) && decide (0 ≤ top (c : Int)) &&
            decide (top (c : Int) ≤ (rows : Int))) = true := by
        rw [List.all_eq_true]
        intro c hc
        have := List.mem_range.mp hc
        simp only [htop, hadv, Bool.and_eq_true, beq_self_eq_true, decide_eq_true_eq, true_and]
        omega
      simp only [denseValues, hcopy, htri, hall, reduceCtorEq, decide_false, decide_true, if_true,
        Bool.false_eq_true, if_false]
      congr 1
      simp only [colList, triH, reduceCtorEq, if_false, List.flatMap_def, List.map_flatten, List.map_map]
      congr 1
      apply List.map_congr_left
      intro c _
      simp only [Function.comp, htop]
      have : ((c : Int) + 1).toNat = c + 1 := by omega
      rw [this, List.map_map]
      rfl
    · intro l p hl
      rw [List.getD_eq_getElem?_getD, List.getElem?_map, hl]
      rfl
  · exact absurd rfl hlow


/-! ### Outer pointers generated by Dense → CSC -/


theorem prefixCounts_head (l : Int) (ns : List Nat) : ∃ t, prefixCounts l ns = l :: t := by
  cases ns with
  | nil => exact ⟨[], rfl⟩
  | cons n ns => exact ⟨_, rfl⟩

theorem prefixCounts_length (l : Int) (ns : List Nat) : (prefixCounts l ns).length = ns.length + 1 := by
  induction ns generalizing l with
  | nil => rfl
  | cons n ns ih => simp [prefixCounts, ih]

theorem prefixCounts_last (l : Int) (ns : List Nat) :
    (prefixCounts l ns).getLast? = some (l + (ns.sum : Int)) := by
  induction ns generalizing l with
  | nil => simp [prefixCounts]
  | cons n ns ih =>
    obtain ⟨t, ht⟩ := prefixCounts_head (l + n) ns
    have := ih (l + n)
    rw [ht] at this
    simp only [prefixCounts, ht, List.getLast?_cons_cons, this, List.sum_cons]
    push_cast; congr 1; ring

theorem prefixCounts_monotone (l : Int) (ns : List Nat) : monotone (prefixCounts l ns) = true := by
  induction ns generalizing l with
  | nil => rfl
  | cons n ns ih =>
    obtain ⟨t, ht⟩ := prefixCounts_head (l + n) ns
    have := ih (l + n)
    rw [ht] at this
    simp only [prefixCounts, ht]
    rw [monotone_cons]
    exact ⟨by omega, this⟩

theorem zip_replicate_col {col : List (Nat × Nat)} {c : Nat} (h : ∀ p ∈ col, p.2 = c) :
    (col.map fun p => (p.1 : Int)).zip (List.replicate col.length (c : Int)) = col.map castP := by
  induction col with
  | nil => rfl
  | cons p ps ih =>
    have hp := h p (List.mem_cons_self ..)
    simp only [List.map_cons, List.length_cons, List.replicate_succ, List.zip_cons_cons]
    rw [ih (fun q hq => h q (List.mem_cons_of_mem _ hq))]
    simp [castP, hp]

/-- Row indices paired with the column index recovered from the running counts give back the
    generated index pairs. -/
theorem zip_expand_prefixCounts :
    ∀ (colsL : List (List (Nat × Nat))) (c : Nat) (l : Int),
      (∀ k col, colsL[k]? = some col → ∀ p ∈ col, p.2 = c + k) →
      (colsL.flatten.map fun p => (p.1 : Int)).zip
        (expandOuter c (prefixCounts l (colsL.map List.length))) = colsL.flatten.map castP := by
  intro colsL
  induction colsL with
  | nil => intro c l _; simp [prefixCounts, expandOuter]
  | cons col rest ih =>
    intro c l h
    obtain ⟨t, ht⟩ := prefixCounts_head (l + (col.length : Int)) (rest.map List.length)
    have hrec := ih (c + 1) (l + (col.length : Int)) (by
      intro k col' hk p hp
      have := h (k + 1) col' (by simpa using hk) p hp
      omega)
    rw [ht] at hrec
    simp only [List.map_cons, prefixCounts, ht, expandOuter, List.flatten_cons, List.map_append]
    have hlen : (l + (col.length : Int) - l).toNat = col.length := by omega
    rw [hlen, List.zip_append (by simp), hrec]
    congr 1
    exact zip_replicate_col (fun p hp => by simpa using h 0 col (by simp) p hp)

theorem colList_col {h : Nat → Nat} {cols k : Nat} {col : List (Nat × Nat)}
    (hk : (colList h cols)[k]? = some col) : ∀ p ∈ col, p.2 = 0 + k := by
  unfold colList at hk
  rw [List.getElem?_map] at hk
  cases hr : (List.range cols)[k]? with
  | none => rw [hr] at hk; cases hk
  | some c =>
    rw [hr] at hk
    simp only [Option.map_some, Option.some.injEq] at hk
    have hlt : k < cols := by
      by_contra hc
      rw [List.getElem?_eq_none (by simpa using hc)] at hr; cases hr
    rw [List.getElem?_range hlt] at hr
    cases hr
    subst hk
    intro p hp
    simp only [List.mem_map, List.mem_range] at hp
    obtain ⟨r, _, rfl⟩ := hp
    simp




/-! ### Order tags -/

/-- Column-then-row order on zero-based entries `(row, col)`. -/
def colRowLE (a b : Int × Int) : Prop := a.2 < b.2 ∨ (a.2 = b.2 ∧ a.1 ≤ b.1)
/-- Row-then-column order. -/
def rowColLE (a b : Int × Int) : Prop := a.1 < b.1 ∨ (a.1 = b.1 ∧ a.2 ≤ b.2)

/-- What a `SparseCOO::Order` tag promises about the entry sequence. -/
def CooSorted : CooOrder → List (Int × Int) → Prop
  | .unsorted, _ => True
  | .colsAndRows, es => es.Pairwise colRowLE
  | .colsOnly, es => es.Pairwise fun a b => a.2 ≤ b.2
  | .rowsAndCols, es => es.Pairwise rowColLE
  | .rowsOnly, es => es.Pairwise fun a b => a.1 ≤ b.1

/-- What a `SparseCSC::Order` tag promises: rows ascending inside every column. -/
def CscSorted : CscOrder → List (Int × Int) → Prop
  | .unsorted, _ => True
  | .sortedRows, es => es.Pairwise fun a b => a.2 = b.2 → a.1 ≤ b.1

/-- The order tag of a representation is truthful. -/
def OrderTruthful : Sparsity → Prop
  | .dense _ => True
  | .csc s => ∀ es, cscEntriesSpec s = some es → CscSorted s.order es
  | .coo s => ∀ es, cooEntriesSpec s = some es → CooSorted s.order es

theorem castP_sorted {ps : List (Nat × Nat)} (h : ps.Pairwise colRowLT) :
    (ps.map castP).Pairwise colRowLE ∧ (ps.map castP).Pairwise (fun a b => a.2 = b.2 → a.1 ≤ b.1) := by
  constructor <;> rw [List.pairwise_map] <;> refine List.Pairwise.imp ?_ h <;> intro a b hab
  · rcases hab with h1 | ⟨h1, h2⟩
    · left; simp only [castP]; omega
    · right; simp only [castP]; omega
  · intro _
    rcases hab with h1 | ⟨h1, h2⟩
    · simp only [castP] at *; omega
    · simp only [castP]; omega

/-! ### Dense → COO -/

theorem zip_shift (es : List (Int × Int)) (f g : Int → Int → Int) (fi : Int)
    (hf : ∀ r c, f r c - fi = r) (hg : ∀ r c, g r c - fi = c) :
    ((es.map fun e => f e.1 e.2).map (· - fi)).zip ((es.map fun e => g e.1 e.2).map (· - fi)) = es := by
  rw [List.map_map, List.map_map, List.zip_map']
  conv_rhs => rw [← List.map_id es]
  apply List.map_congr_left
  intro e _
  simp [hf, hg]

theorem denseToCoo_correct (z : β) (d : Dense) (ity : IdxTy) (req : Request) (v : List β)
    (hlow : d.sym ≠ .lower) (hsq : d.sym ≠ .unsym → d.rows = d.cols) :
    ∃ (s' : COO) (f : List β → Except Err (List β)) (v' : List β),
      denseToCoo z d ity req = .ok { out := .coo s', vals := f } ∧ f v = .ok v' ∧
      denote z (.coo s') v' = denseMat z d v ∧
      s'.rows = d.rows ∧ s'.cols = d.cols ∧ s'.sym = d.sym ∧ s'.ity = ity ∧
      s'.firstIndex = req.firstIndex.getD 0 ∧ s'.order = .colsAndRows ∧
      OrderTruthful (.coo s') := by
  obtain ⟨hrej, _⟩ := denseRejects_false d hlow hsq
  have hloop := denseCoo_loop d hlow hsq
  have hnnz := triH_nnz d hlow hsq
  obtain ⟨v', hv', hget⟩ := denseValues_gather z d hlow hsq Gen.C14.denseCooValuesCopy
    Gen.C14.denseCooValuesTriangle Gen.C14.denseCooTopRows Gen.C14.denseCooAdvance
    (by cases d.sym <;> simp [Gen.C14.denseCooValuesCopy, Symmetry.code])
    (by cases d.sym <;> simp [Gen.C14.denseCooValuesTriangle, Symmetry.code])
    (fun c => rfl) (fun c => rfl) (colList (triH d.sym d.rows) d.cols).flatten.length v
  let Δ : Int := req.firstIndex.getD 0
  have hΔ : Gen.C14.denseCooDelta req.firstIndex.isSome (req.firstIndex.getD 0) = Δ := by
    cases h : req.firstIndex <;> simp [Gen.C14.denseCooDelta, Δ, h]
  have hfi : Gen.C14.denseCooFirstIndex req.firstIndex.isSome (req.firstIndex.getD 0) = Δ := by
    cases h : req.firstIndex <;> simp [Gen.C14.denseCooFirstIndex, Δ, h]
  have hrow : ∀ r c : Int, Gen.C14.denseCooRowIndex d.sym.code r c Δ = r + Δ := by
    intro r c; cases hs : d.sym
    · simp [Gen.C14.denseCooRowIndex, Symmetry.code]
    · simp [Gen.C14.denseCooRowIndex, Symmetry.code]
    · exact absurd hs hlow
  have hcol : ∀ r c : Int, Gen.C14.denseCooColIndex d.sym.code r c Δ = c + Δ := by
    intro r c; cases hs : d.sym
    · simp [Gen.C14.denseCooColIndex, Symmetry.code]
    · simp [Gen.C14.denseCooColIndex, Symmetry.code]
    · exact absurd hs hlow
  have hnnz' : ((colList (triH d.sym d.rows) d.cols).flatten.length : Int) =
      Gen.C14.denseCooNnz d.sym.code d.rows d.cols := by
    rw [hnnz]; unfold Gen.C14.denseCooNnz
    cases hs : d.sym
    · simp [Symmetry.code]
    · simp [Symmetry.code]
    · exact absurd hs hlow
  obtain ⟨s', hs'⟩ : ∃ s' : COO, s' =
      { rows := d.rows, cols := d.cols, sym := d.sym,
        rowIdx := (colList (triH d.sym d.rows) d.cols).flatten.map fun p =>
          Gen.C14.denseCooRowIndex d.sym.code p.1 p.2 Δ,
        colIdx := (colList (triH d.sym d.rows) d.cols).flatten.map fun p =>
          Gen.C14.denseCooColIndex d.sym.code p.1 p.2 Δ,
        order := CooOrder.ofCode Gen.C14.denseCooOrder, firstIndex := Δ, ity := ity } := ⟨_, rfl⟩
  have hent : cooEntriesSpec s' = some ((colList (triH d.sym d.rows) d.cols).flatten.map castP) := by
    rw [hs']
    unfold cooEntriesSpec
    simp only [List.length_map, if_true, Option.some.injEq, List.map_map, List.zip_map']
    apply List.map_congr_left
    intro p _
    simp [Function.comp, hrow, hcol, castP]
  refine ⟨s', _, v', ?_, hv', ?_, by rw [hs'], by rw [hs'], by rw [hs'], by rw [hs'], by rw [hs'],
    by rw [hs']; rfl, ?_⟩
  · unfold denseToCoo
    simp only [hrej, hloop, hnnz', hΔ, hfi, ne_eq, not_true_eq_false, if_false, Bool.false_eq_true, hs']
  · have hd : s'.rows = d.rows ∧ s'.cols = d.cols ∧ s'.sym = d.sym := by rw [hs']; exact ⟨rfl, rfl, rfl⟩
    simp only [denote, hent, Option.bind_some, hd.1, hd.2.1, hd.2.2]
    have : triH d.sym d.rows = fun c => if d.sym = .unsym then d.rows else c + 1 := by
      funext c; rfl
    rw [this] at hget ⊢
    exact fromDense_denote z d hlow hsq v v' hget
  · intro es hes
    rw [hent] at hes
    cases hes
    have : s'.order = .colsAndRows := by rw [hs']; rfl
    rw [this]
    exact (castP_sorted (colList_sorted _ _)).1

/-! ### Dense → CSC -/

theorem colList_length (h : Nat → Nat) (cols : Nat) : (colList h cols).length = cols := by
  simp [colList]

theorem denseToCsc_correct (z : β) (d : Dense) (ity : IdxTy) (v : List β)
    (hlow : d.sym ≠ .lower) (hsq : d.sym ≠ .unsym → d.rows = d.cols) :
    ∃ (s' : CSC) (f : List β → Except Err (List β)) (v' : List β),
      denseToCsc z d ity = .ok { out := .csc s', vals := f } ∧ f v = .ok v' ∧
      denote z (.csc s') v' = denseMat z d v ∧
      s'.rows = d.rows ∧ s'.cols = d.cols ∧ s'.sym = d.sym ∧ s'.ity = ity ∧
      s'.order = .sortedRows ∧ OrderTruthful (.csc s') := by
  obtain ⟨_, hrej⟩ := denseRejects_false d hlow hsq
  have hloop := denseCsc_loop d hlow hsq
  have hnnz := triH_nnz d hlow hsq
  obtain ⟨v', hv', hget⟩ := denseValues_gather z d hlow hsq Gen.C14.denseCscValuesCopy
    Gen.C14.denseCscValuesTriangle Gen.C14.denseCscTopRows Gen.C14.denseCscAdvance
    (by cases d.sym <;> simp [Gen.C14.denseCscValuesCopy, Symmetry.code])
    (by cases d.sym <;> simp [Gen.C14.denseCscValuesTriangle, Symmetry.code])
    (fun c => rfl) (fun c => rfl) (colList (triH d.sym d.rows) d.cols).flatten.length v
  have hinner : ∀ r c : Int, Gen.C14.denseCscInnerIdx d.sym.code r c = r := by
    intro r c; cases hs : d.sym
    · simp [Gen.C14.denseCscInnerIdx, Symmetry.code]
    · simp [Gen.C14.denseCscInnerIdx, Symmetry.code]
    · exact absurd hs hlow
  have houter : ∀ l : Int, Gen.C14.denseCscOuterPtr d.sym.code l = l := by
    intro l; cases hs : d.sym
    · simp [Gen.C14.denseCscOuterPtr, Symmetry.code]
    · simp [Gen.C14.denseCscOuterPtr, Symmetry.code]
    · exact absurd hs hlow
  have hnnz' : ((colList (triH d.sym d.rows) d.cols).flatten.length : Int) =
      Gen.C14.denseCscNnz d.sym.code d.rows d.cols := by
    rw [hnnz]; unfold Gen.C14.denseCscNnz
    cases hs : d.sym
    · simp [Symmetry.code]
    · simp [Symmetry.code]
    · exact absurd hs hlow
  obtain ⟨s', hs'⟩ : ∃ s' : CSC, s' =
      { rows := d.rows, cols := d.cols, sym := d.sym,
        inner := (colList (triH d.sym d.rows) d.cols).flatten.map fun p =>
          Gen.C14.denseCscInnerIdx d.sym.code p.1 p.2,
        outer := (prefixCounts 0 ((colList (triH d.sym d.rows) d.cols).map List.length)).map fun l =>
          Gen.C14.denseCscOuterPtr d.sym.code l,
        order := CscOrder.ofCode Gen.C14.denseCscOrder, ity := ity } := ⟨_, rfl⟩
  have hent : cscEntriesSpec s' = some ((colList (triH d.sym d.rows) d.cols).flatten.map castP) := by
    rw [hs']
    unfold cscEntriesSpec
    have ho : ((prefixCounts 0 ((colList (triH d.sym d.rows) d.cols).map List.length)).map fun l =>
        Gen.C14.denseCscOuterPtr d.sym.code l) =
        prefixCounts 0 ((colList (triH d.sym d.rows) d.cols).map List.length) := by
      conv_rhs => rw [← List.map_id (prefixCounts 0 _)]
      apply List.map_congr_left; intro l _; simp [houter]
    have hi : ((colList (triH d.sym d.rows) d.cols).flatten.map fun p =>
        Gen.C14.denseCscInnerIdx d.sym.code (p.1 : Int) (p.2 : Int)) =
        (colList (triH d.sym d.rows) d.cols).flatten.map fun p => (p.1 : Int) := by
      apply List.map_congr_left; intro p _; exact hinner _ _
    simp only [ho, hi]
    have hwf : outerWF d.cols (prefixCounts 0 ((colList (triH d.sym d.rows) d.cols).map List.length))
        ((colList (triH d.sym d.rows) d.cols).flatten.map fun p => (p.1 : Int)).length = true := by
      rw [outerWF_iff]
      refine ⟨?_, ?_, ?_, prefixCounts_monotone _ _⟩
      · rw [prefixCounts_length, List.length_map, colList_length]
      · obtain ⟨t, ht⟩ := prefixCounts_head 0 ((colList (triH d.sym d.rows) d.cols).map List.length)
        rw [ht]; rfl
      · rw [prefixCounts_last, List.length_map, List.length_flatten]; simp
    rw [if_pos hwf]
    congr 1
    exact zip_expand_prefixCounts _ 0 0 (fun k col hk => colList_col hk)
  refine ⟨s', _, v', ?_, hv', ?_, by rw [hs'], by rw [hs'], by rw [hs'], by rw [hs'],
    by rw [hs']; rfl, ?_⟩
  · unfold denseToCsc
    simp only [hrej, hloop, hnnz', ne_eq, not_true_eq_false, if_false, Bool.false_eq_true, hs']
  · have hd : s'.rows = d.rows ∧ s'.cols = d.cols ∧ s'.sym = d.sym := by rw [hs']; exact ⟨rfl, rfl, rfl⟩
    simp only [denote, hent, Option.bind_some, hd.1, hd.2.1, hd.2.2]
    have : triH d.sym d.rows = fun c => if d.sym = .unsym then d.rows else c + 1 := by
      funext c; rfl
    rw [this] at hget ⊢
    exact fromDense_denote z d hlow hsq v v' hget
  · intro es hes
    rw [hent] at hes
    cases hes
    have : s'.order = .sortedRows := by rw [hs']; rfl
    rw [this]
    exact (castP_sorted (colList_sorted _ _)).2




/-! ### Sparse → sparse -/

theorem expandOuter_ge : ∀ (outer : List Int) (c : Nat), ∀ x ∈ expandOuter c outer, (c : Int) ≤ x := by
  intro outer
  induction outer with
  | nil => intro c x hx; simp [expandOuter] at hx
  | cons a rest ih =>
    intro c x hx
    cases rest with
    | nil => simp [expandOuter] at hx
    | cons b rest' =>
      simp only [expandOuter, List.mem_append, List.mem_replicate] at hx
      rcases hx with ⟨_, rfl⟩ | hx
      · exact le_refl _
      · have := ih (c + 1) x hx
        push_cast at this; omega

theorem expandOuter_sorted : ∀ (outer : List Int) (c : Nat), (expandOuter c outer).Pairwise (· ≤ ·) := by
  intro outer
  induction outer with
  | nil => intro c; simp [expandOuter]
  | cons a rest ih =>
    intro c
    cases rest with
    | nil => simp [expandOuter]
    | cons b rest' =>
      simp only [expandOuter]
      rw [List.pairwise_append]
      refine ⟨?_, ih (c + 1), ?_⟩
      · rw [List.pairwise_replicate]; right; exact le_refl _
      · intro x hx y hy
        rw [List.mem_replicate] at hx
        have := expandOuter_ge (b :: rest') (c + 1) y hy
        push_cast at this; omega

/-- Entries of a well-formed compressed-column structure are sorted by column. -/
theorem csc_cols_sorted {s : CSC} {es : List (Int × Int)} (h : cscEntriesSpec s = some es) :
    es.Pairwise fun a b => a.2 ≤ b.2 := by
  unfold cscEntriesSpec at h
  split at h
  · rename_i hwf
    obtain ⟨_, h2, h3, h4⟩ := outerWF_iff.mp hwf
    simp only [Option.some.injEq] at h
    subst h
    have hl : (expandOuter 0 s.outer).length ≤ s.inner.length := by
      rw [expandOuter_length s.outer 0 0 _ h2 h3 h4]; omega
    have := expandOuter_sorted s.outer 0
    rw [← List.map_snd_zip (l₁ := s.inner) hl, List.pairwise_map] at this
    exact this
  · cases h

theorem cscToCoo_correct (s : CSC) (ity : IdxTy) (req : Request) {es : List (Int × Int)}
    (hes : cscEntriesSpec s = some es) :
    ∃ s' : COO, cscToCoo (β := β) s ity req = .ok { out := .coo s', vals := copyVals } ∧
      cooEntriesSpec s' = some es ∧
      s'.rows = s.rows ∧ s'.cols = s.cols ∧ s'.sym = s.sym ∧ s'.ity = ity ∧
      s'.firstIndex = req.firstIndex.getD 0 ∧
      s'.order = (if s.order = .sortedRows then .colsAndRows else .colsOnly) ∧
      (OrderTruthful (.csc s) → OrderTruthful (.coo s')) := by
  obtain ⟨hwalk, hlen⟩ := cscWalk_of_spec hes
  let Δ : Int := req.firstIndex.getD 0
  have hΔ : Gen.C14.cscCooDelta req.firstIndex.isSome (req.firstIndex.getD 0) = Δ := by
    cases h : req.firstIndex <;> simp [Gen.C14.cscCooDelta, Δ, h]
  have hfi : Gen.C14.cscCooFirstIndex req.firstIndex.isSome (req.firstIndex.getD 0) = Δ := by
    cases h : req.firstIndex <;> simp [Gen.C14.cscCooFirstIndex, Δ, h]
  obtain ⟨s', hs'⟩ : ∃ s' : COO, s' =
      { rows := s.rows, cols := s.cols, sym := s.sym,
        rowIdx := es.map fun e => Gen.C14.cscCooRowIndex e.1 e.2 Δ,
        colIdx := es.map fun e => Gen.C14.cscCooColIndex e.1 e.2 Δ,
        order := CooOrder.ofCode (Gen.C14.cscCooOrder s.order.code), firstIndex := Δ, ity := ity } :=
    ⟨_, rfl⟩
  have hent : cooEntriesSpec s' = some es := by
    rw [hs']
    unfold cooEntriesSpec
    simp only [List.length_map, if_true, Option.some.injEq]
    exact zip_shift es (fun r c => Gen.C14.cscCooRowIndex r c Δ) (fun r c => Gen.C14.cscCooColIndex r c Δ) Δ
      (fun r c => by simp [Gen.C14.cscCooRowIndex]) (fun r c => by simp [Gen.C14.cscCooColIndex])
  have hord : s'.order = (if s.order = .sortedRows then .colsAndRows else .colsOnly) := by
    rw [hs']; cases s.order <;> simp [Gen.C14.cscCooOrder, CscOrder.code, CooOrder.ofCode]
  refine ⟨s', ?_, hent, by rw [hs'], by rw [hs'], by rw [hs'], by rw [hs'], by rw [hs'], hord, ?_⟩
  · unfold cscToCoo
    simp only [hwalk, hlen, ne_eq, not_true_eq_false, if_false, hΔ, hfi, hs']
  · intro htr es' hes'
    rw [hent] at hes'
    cases hes'
    have hcols := csc_cols_sorted hes
    rw [hord]
    have hsrc := htr es hes
    cases ho : s.order
    · simp only [reduceCtorEq, if_false]; exact hcols
    · rw [ho] at hsrc
      simp only [if_true]
      show es.Pairwise colRowLE
      have : es.Pairwise fun a b => a.2 ≤ b.2 ∧ (a.2 = b.2 → a.1 ≤ b.1) := hcols.and hsrc
      refine List.Pairwise.imp ?_ this
      intro a b ⟨h1, h2⟩
      rcases Int.lt_or_eq_of_le h1 with hlt | heq
      · exact Or.inl hlt
      · exact Or.inr ⟨heq, h2 heq⟩

theorem cooToCoo_correct (s : COO) (ity : IdxTy) (req : Request) {cv : Conv β}
    (h : cooToCoo s ity req = .ok cv) :
    ∃ s' : COO, cv.out = .coo s' ∧ cv.vals = copyVals ∧
      cooEntriesSpec s' = cooEntriesSpec s ∧
      s'.rows = s.rows ∧ s'.cols = s.cols ∧ s'.sym = s.sym ∧ s'.ity = ity ∧
      s'.firstIndex = req.firstIndex.getD s.firstIndex ∧ s'.order = s.order := by
  have hΔ : Gen.C14.cooCooDelta req.firstIndex.isSome (req.firstIndex.getD 0) s.firstIndex =
      (req.firstIndex.getD s.firstIndex) - s.firstIndex := by
    cases hr : req.firstIndex <;> simp [Gen.C14.cooCooDelta]
  have hfi : Gen.C14.cooCooFirstIndex req.firstIndex.isSome (req.firstIndex.getD 0) s.firstIndex =
      req.firstIndex.getD s.firstIndex := by
    cases hr : req.firstIndex <;> simp [Gen.C14.cooCooFirstIndex]
  unfold cooToCoo at h
  dsimp only at h
  rw [hΔ, hfi] at h
  generalize hΔ' : req.firstIndex.getD s.firstIndex - s.firstIndex = Δ at h
  by_cases hreuse : Gen.C14.cooCooReuse (decide (s.ity = ity)) Δ = true
  · rw [if_pos hreuse] at h
    simp only [Except.ok.injEq] at h
    subst h
    simp only [Gen.C14.cooCooReuse, Bool.and_eq_true, decide_eq_true_eq, beq_iff_eq] at hreuse
    obtain ⟨hity, hd0⟩ := hreuse
    refine ⟨s, rfl, rfl, rfl, rfl, rfl, rfl, hity, ?_, rfl⟩
    omega
  · rw [if_neg hreuse] at h
    by_cases hlen : s.rowIdx.length ≠ s.colIdx.length
    · rw [if_pos hlen] at h; cases h
    · rw [if_neg hlen] at h
      simp only [Except.ok.injEq] at h
      subst h
      refine ⟨_, rfl, rfl, ?_, rfl, rfl, rfl, rfl, rfl, ?_⟩
      · have hlen' : s.rowIdx.length = s.colIdx.length := by simpa using hlen
        unfold cooEntriesSpec
        simp only [List.length_map, hlen', if_true, Option.some.injEq, List.map_map]
        congr 1 <;> apply List.map_congr_left <;> intro x _ <;>
          simp only [Function.comp, Gen.C14.cooCooIndex] <;> omega
      · cases s.order <;> simp [Gen.C14.cooCooOrder, CooOrder.code, CooOrder.ofCode]

theorem cscToCsc_correct (s : CSC) (ity : IdxTy) (req : Request) {cv : Conv β}
    (h : cscToCsc s ity req = .ok cv) :
    ∃ s' : CSC, cv.out = .csc s' ∧ cv.vals = copyVals ∧
      cscEntriesSpec s' = cscEntriesSpec s ∧
      s'.rows = s.rows ∧ s'.cols = s.cols ∧ s'.sym = s.sym ∧ s'.ity = ity ∧
      (req.order = some .sortedRows → s'.order = .sortedRows ∧ s.order = .sortedRows) ∧
      (req.order ≠ some .sortedRows → s'.order = s.order) := by
  unfold cscToCsc at h
  simp only at h
  split at h
  · split at h <;> cases h
  · rename_i hns
    simp only [Except.ok.injEq] at h
    subst h
    refine ⟨_, rfl, rfl, rfl, rfl, rfl, rfl, rfl, ?_, ?_⟩
    · intro hr
      simp only [hr, beq_self_eq_true, Bool.true_and, beq_iff_eq, if_true] at hns ⊢
      refine ⟨trivial, ?_⟩
      cases ho : s.order
      · exact absurd ho hns
      · rfl
    · intro hr
      have : (req.order == some CscOrder.sortedRows) = false := by simpa using hr
      simp [this]


/-! ### Helpers: reading a denotation / a successful conversion back -/

theorem denote_csc {z : β} {s : CSC} {v : List β} {M : Mat β} (h : denote z (.csc s) v = some M) :
    ∃ es, cscEntriesSpec s = some es ∧ ValidEntries s.rows s.cols s.sym es ∧
      M = lookupMat z s.rows s.cols s.sym es v := by
  simp only [denote] at h
  cases hes : cscEntriesSpec s with
  | none => rw [hes] at h; cases h
  | some es =>
    rw [hes] at h
    exact ⟨es, rfl, (sparseMat_eq_some.mp h).1, (sparseMat_eq_some.mp h).2⟩

theorem denote_coo {z : β} {s : COO} {v : List β} {M : Mat β} (h : denote z (.coo s) v = some M) :
    ∃ es, cooEntriesSpec s = some es ∧ ValidEntries s.rows s.cols s.sym es ∧
      M = lookupMat z s.rows s.cols s.sym es v := by
  simp only [denote] at h
  cases hes : cooEntriesSpec s with
  | none => rw [hes] at h; cases h
  | some es =>
    rw [hes] at h
    exact ⟨es, rfl, (sparseMat_eq_some.mp h).1, (sparseMat_eq_some.mp h).2⟩

theorem dense_accepts {z : β} {d : Dense} {t : Target} {req : Request} {cv : Conv β}
    (ht : t ≠ .dense) (hc : convert z (.dense d) t req = .ok cv) :
    d.sym ≠ .lower ∧ (d.sym ≠ .unsym → d.rows = d.cols) := by
  by_contra hcon
  have hbad : d.sym = .lower ∨ (d.sym = .upper ∧ d.rows ≠ d.cols) := by
    by_cases hl : d.sym = .lower
    · exact Or.inl hl
    · right
      have : ¬ (d.sym ≠ .unsym → d.rows = d.cols) := fun h => hcon ⟨hl, h⟩
      have hne : d.sym ≠ .unsym ∧ d.rows ≠ d.cols := by
        constructor
        · intro hu; exact this (fun h => absurd hu h)
        · intro he; exact this (fun _ => he)
      refine ⟨?_, hne.2⟩
      cases hs : d.sym
      · exact absurd hs hne.1
      · rfl
      · exact absurd hs hl
  obtain ⟨h1, h2⟩ := denseRejects_true d hbad
  cases t with
  | dense => exact ht rfl
  | csc ity => simp [convert, denseToCsc, h2] at hc
  | coo ity => simp [convert, denseToCoo, h1] at hc

theorem cooToCsc_never_ok {s : COO} {ity : IdxTy} {req : Request} {cv : Conv β} :
    cooToCsc s ity req ≠ .ok cv := by
  unfold cooToCsc; split <;> intro h <;> cases h

theorem cscToCoo_flags {s : CSC} {ity : IdxTy} {req : Request} {cv : Conv β}
    (h : cscToCoo s ity req = .ok cv) :
    ∃ s' : COO, cv.out = .coo s' ∧ s'.rows = s.rows ∧ s'.cols = s.cols ∧ s'.sym = s.sym ∧
      s'.ity = ity ∧ s'.firstIndex = req.firstIndex.getD 0 := by
  unfold cscToCoo at h
  split at h
  · cases h
  · split at h
    · cases h
    · cases h
      refine ⟨_, rfl, rfl, rfl, rfl, rfl, ?_⟩
      cases hr : req.firstIndex <;> simp [Gen.C14.cscCooFirstIndex]


end Alpaqa.C14
