/-
  C11 helper lemmas, part 3: one pass through the CG loop body (`cgStep`) preserves the invariants
  and every `return` satisfies the exit specification.
-/
import Alpaqa.Proofs.C11Scalar

namespace Alpaqa.C11
open Alpaqa Alpaqa.Gen.C11
set_option linter.unusedSectionVars false
set_option linter.unusedVariables false

variable {α : Type} [Field α] [LinearOrder α] [IsStrictOrderedRing α] [RealLike α]

/-- The Hessian oracle is linear and symmetric on vectors of dimension `n`. -/
structure SymLin (n : Nat) (B : Vec α → Vec α) : Prop where
  len  : ∀ v, v.length = n → (B v).length = n
  add  : ∀ u v, u.length = n → v.length = n → B (vadd u v) = vadd (B u) (B v)
  smul : ∀ (c : α) v, v.length = n → B (smul c v) = smul c (B v)
  sym  : ∀ u v, u.length = n → v.length = n → dot u (B v) = dot (B u) v

/-- The quadratic model `m(s) = gᵀs + ½ sᵀBs`. -/
def model (B : Vec α → Vec α) (g s : Vec α) : α := dot g s + 1 / 2 * dot s (B s)

theorem cgEval_eq_model (B : Vec α → Vec α) (g s : Vec α) : cgEval B g s = model B g s := by
  unfold cgEval model
  rw [dot_comm s g]
  norm_num

/-! ### the generated kernels over a field -/
variable {cs : α → α → α}

theorem cgNegCurv_iff (x : α) : cgNegCurv x = true ↔ x ≤ 0 := by simp [cgNegCurv]
theorem cgAlphaBad_false (L : Lawful cs) (x : α) : cgAlphaBad x = false := by
  simp [cgAlphaBad, L.finite]
theorem cgOverLong_iff (s : Vec α) (Δ : α) : cgOverLong s Δ = true ↔ Δ ≤ norm2 s := by
  simp [cgOverLong]
theorem cgInteriorExit_iff (rn tol : α) (i : Nat) (mi : Int) :
    cgInteriorExit rn tol i mi = true ↔ (rn < tol ∨ rn = 0 ∨ Int.ofNat i > mi) := by
  simp [cgInteriorExit, or_assoc]
theorem cgPickA_le (L : Lawful cs) (qa qb : α) (h : cgPickA qa qb = true) : qa ≤ qb := by
  simp only [cgPickA, beq_iff_eq] at h
  rw [h, fminS_eq_min L]; exact min_le_right _ _

/-! ### the model and the norm along a line -/

theorem model_line {n : Nat} {B : Vec α → Vec α} (hB : SymLin n B) {g z d : Vec α}
    (hg : g.length = n) (hz : z.length = n) (hd : d.length = n) (t : α) :
    model B g (vadd z (smul t d)) =
      model B g z + t * dot (vadd g (B z)) d + 1 / 2 * t * t * dot d (B d) := by
  have hBz := hB.len z hz
  have hBd := hB.len d hd
  unfold model
  rw [hB.add z (smul t d) hz (by simp [hd]), hB.smul t d hd,
      dot_vadd_right g z (smul t d) (by simp [hz, hd]), dot_smul_right,
      dot_vadd_left z (smul t d) _ (by simp [hz, hd]),
      dot_vadd_right z (B z) (smul t (B d)) (by simp [hBz, hBd]),
      dot_vadd_right (smul t d) (B z) (smul t (B d)) (by simp [hBz, hBd]),
      dot_smul_right, dot_smul_left, dot_smul_left, dot_smul_right,
      dot_vadd_left g (B z) d (by simp [hg, hBz]),
      hB.sym z d hz hd, dot_comm d (B z)]
  ring

theorem model_zeros {n : Nat} (B : Vec α → Vec α) (g : Vec α) : model B g (zeros n) = 0 := by
  unfold model; simp

theorem sqNorm_vneg (g : Vec α) : sqNorm (vneg g) = sqNorm g := by
  rw [vneg_eq_smul, sqNorm_eq_dot, sqNorm_eq_dot, dot_smul_left, dot_smul_right]; ring

theorem sqNorm_zeros (n : Nat) : sqNorm (zeros n : Vec α) = 0 := by
  rw [sqNorm_eq_dot]; simp

/-- The point `−t g` on the steepest-descent ray, as the first CG iteration parametrises it. -/
theorem ray_start (g : Vec α) (t : α) :
    vadd (zeros g.length) (smul t (vneg g)) = smul (-t) g := by
  rw [vneg_eq_smul, smul_smul]
  have h := vadd_zeros_left (smul (t * -1) g)
  rw [length_smul] at h
  rw [h, show t * -1 = -t by ring]

/-! ### loop invariant -/

/-- What holds between two iterations: `r = g + B z`, `r_sq = ‖r‖²`, `⟨r,d⟩ = −‖r‖²`, the iterate
    is strictly inside the region, the residual is non-zero. -/
structure Inv (n : Nat) (B : Vec α → Vec α) (g : Vec α) (Δ : α) (st : St α) : Prop where
  hz     : st.z.length = n
  hr     : st.r.length = n
  hd     : st.d.length = n
  r_eq   : st.r = vadd g (B st.z)
  rsq_eq : st.rsq = sqNorm st.r
  rd     : dot st.r st.d = -sqNorm st.r
  inside : sqNorm st.z < Δ * Δ
  r_pos  : 0 < sqNorm st.r

/-- Specification of a `return` taken from state `st`. -/
structure ExitOK (n : Nat) (B : Vec α → Vec α) (g : Vec α) (Δ tol : α) (maxIter : Int)
    (st : St α) (res : Res α) : Prop where
  len      : res.s.length = n
  val      : res.q = model B g res.s
  ray      : ∀ t : α, 0 ≤ t → sqNorm (vadd st.z (smul t st.d)) ≤ Δ * Δ →
               res.q ≤ model B g (vadd st.z (smul t st.d))
  le_prev  : res.q ≤ model B g st.z
  not_fuel : res.exit ≠ .fuel
  not_nan  : res.exit ≠ .alphaNaN
  not_zero : res.exit ≠ .zeroGrad
  bdry     : res.exit.isBoundary = true → sqNorm res.s = Δ * Δ
  inter    : res.exit = .interior →
               sqNorm res.s < Δ * Δ ∧ res.st.r = vadd g (B res.s) ∧
               (norm2 res.st.r < tol ∨ norm2 res.st.r = 0 ∨ Int.ofNat st.i > maxIter)
  neg      : (res.exit = .negCurvA ∨ res.exit = .negCurvB) → dot st.d (B st.d) ≤ 0
  pos      : (res.exit = .overLong ∨ res.exit = .interior) → 0 < dot st.d (B st.d)
  over     : res.exit = .overLong →
               Δ * Δ ≤ sqNorm (vadd st.z (smul (sqNorm st.r / dot st.d (B st.d)) st.d))
  iters    : res.st.i = st.i

/-- Specification of `continue` from `st` to `st'`. -/
structure ContOK (n : Nat) (B : Vec α → Vec α) (g : Vec α) (Δ tol : α) (maxIter : Int)
    (st st' : St α) : Prop where
  inv      : Inv n B g Δ st'
  iters    : st'.i = st.i + 1
  z_eq     : st'.z = vadd st.z (smul (sqNorm st.r / dot st.d (B st.d)) st.d)
  ray      : ∀ t : α, model B g st'.z ≤ model B g (vadd st.z (smul t st.d))
  le_prev  : model B g st'.z ≤ model B g st.z
  pos      : 0 < dot st.d (B st.d)
  orth     : dot st'.r st.d = 0
  no_exit  : ¬ (norm2 st'.r < tol ∨ norm2 st'.r = 0 ∨ Int.ofNat st.i > maxIter)

section step
variable {n : Nat} {B : Vec α → Vec α} {g : Vec α} {Δ tol : α} {maxIter : Int} {st : St α}

theorem Inv.sqd_pos (I : Inv n B g Δ st) : 0 < sqNorm st.d := by
  rcases (sqNorm_nonneg st.d).lt_or_eq with h | h
  · exact h
  · exfalso
    have h0 := dot_eq_zero_of_sqNorm_eq_zero st.d st.r h.symm
    have := I.rd; have := I.r_pos
    linarith

theorem Inv.nrm (I : Inv n B g Δ st) (t : α) :
    sqNorm (vadd st.z (smul t st.d)) - Δ * Δ =
      sqNorm st.d * t * t + 2 * dot st.z st.d * t + (sqNorm st.z - Δ * Δ) := by
  rw [sqNorm_line st.z st.d t (by rw [I.hz, I.hd])]; ring

theorem Inv.mdl (hB : SymLin n B) (hg : g.length = n) (I : Inv n B g Δ st) (t : α) :
    model B g (vadd st.z (smul t st.d)) =
      model B g st.z - t * sqNorm st.r + 1 / 2 * t * t * dot st.d (B st.d) := by
  rw [model_line hB hg I.hz I.hd t, ← I.r_eq, I.rd]; ring

theorem Inv.len_line (I : Inv n B g Δ st) (t : α) : (vadd st.z (smul t st.d)).length = n := by
  simp [I.hz, I.hd]

/-- Roots of `‖z + t d‖² = Δ²` as the code computes them: both on the boundary, `lo < 0 < hi`. -/
theorem Inv.bdry (L : Lawful cs) (I : Inv n B g Δ st) :
    sqNorm (vadd st.z (smul (boundaryIntersections cs st.z st.d Δ).1 st.d)) = Δ * Δ ∧
    sqNorm (vadd st.z (smul (boundaryIntersections cs st.z st.d Δ).2 st.d)) = Δ * Δ ∧
    (boundaryIntersections cs st.z st.d Δ).1 < 0 ∧ 0 < (boundaryIntersections cs st.z st.d Δ).2 ∧
    (∀ t : α, 0 ≤ t → sqNorm (vadd st.z (smul t st.d)) ≤ Δ * Δ →
        t ≤ (boundaryIntersections cs st.z st.d Δ).2) ∧
    (∀ al : α, 0 < al → Δ * Δ ≤ sqNorm (vadd st.z (smul al st.d)) →
        (boundaryIntersections cs st.z st.d Δ).2 ≤ al) := by
  rw [boundaryIntersections_eq]
  have ha := I.sqd_pos
  have hc : sqNorm st.z - Δ * Δ < 0 := by linarith [I.inside]
  obtain ⟨h1, h2, h3, h4⟩ := roots_spec L (sqNorm st.d) (2 * dot st.z st.d) (sqNorm st.z - Δ * Δ) ha hc
  refine ⟨?_, ?_, h3, h4, ?_, ?_⟩
  · have := I.nrm (Δ := Δ) (roots cs (sqNorm st.d) (2 * dot st.z st.d) (sqNorm st.z - Δ * Δ)).1
    linarith
  · have := I.nrm (Δ := Δ) (roots cs (sqNorm st.d) (2 * dot st.z st.d) (sqNorm st.z - Δ * Δ)).2
    linarith
  · intro t ht hin
    have := I.nrm (Δ := Δ) t
    exact feasible_le_root _ _ _ _ _ t ha h1 h2 h3 h4 ht (by linarith)
  · intro al hal hout
    have := I.nrm (Δ := Δ) al
    exact root_le_alpha _ _ _ _ _ al ha h1 h2 h3 h4 hal (by linarith)

theorem Inv.resid (hB : SymLin n B) (I : Inv n B g Δ st) (al : α) :
    vadd st.r (smul al (B st.d)) = vadd g (B (vadd st.z (smul al st.d))) := by
  rw [I.r_eq, hB.add st.z (smul al st.d) I.hz (by simp [I.hd]), hB.smul al st.d I.hd, vadd_assoc]

theorem Inv.orth (hB : SymLin n B) (I : Inv n B g Δ st) (hκ : 0 < dot st.d (B st.d)) :
    dot (vadd st.r (smul (sqNorm st.r / dot st.d (B st.d)) (B st.d))) st.d = 0 := by
  rw [dot_vadd_left _ _ _ (by simp [I.hr, hB.len _ I.hd]), dot_smul_left, I.rd, dot_comm (B st.d) st.d]
  field_simp
  ring

theorem sqrt_zero_of (L : Lawful cs) : RealLike.sqrt (0 : α) = 0 := by
  have := L.sqrt_mul_self 0 le_rfl
  exact mul_self_eq_zero.mp this

theorem cgStep_spec (L : Lawful cs) (hB : SymLin n B) (hg : g.length = n) (hΔ : 0 < Δ)
    (I : Inv n B g Δ st) :
    match cgStep cs B g Δ tol maxIter st with
    | .inl res => ExitOK n B g Δ tol maxIter st res
    | .inr st' => ContOK n B g Δ tol maxIter st st' := by
  obtain ⟨hlo, hhi, hlo0, hhi0, hfeas, hout⟩ := I.bdry L
  have hR := I.r_pos
  unfold cgStep
  simp only [cgCurvature, cgAlpha, cgTrial, cgPointA, cgPointB, cgBoundary, cgResidual, cgNext,
    cgEval_eq_model, cgAlphaBad_false L, cgNegCurv_iff, cgOverLong_iff, cgInteriorExit_iff, I.rsq_eq]
  generalize boundaryIntersections cs st.z st.d Δ = tt at *
  obtain ⟨lo, hi⟩ := tt
  simp only at hlo hhi hlo0 hhi0 hfeas hout ⊢
  have mdl := I.mdl hB hg
  split_ifs with h1 h2 h3 h4 h5
  · -- negative curvature, lower root returned
    have hab := cgPickA_le L _ _ h2
    exact
      { len := I.len_line _, val := rfl
        ray := by
          intro t ht hin
          have := ray_negcurv (model B g st.z) (sqNorm st.r) _ hi t hR.le h1 ht (hfeas t ht hin)
          rw [mdl hi] at hab; rw [mdl t]; linarith
        le_prev := by
          have := line_negcurv (model B g st.z) (sqNorm st.r) _ hi hR.le h1 hhi0.le
          rw [mdl hi] at hab; linarith
        not_fuel := by simp, not_nan := by simp, not_zero := by simp
        bdry := fun _ => hlo
        inter := by intro h; cases h
        neg := fun _ => h1
        pos := by rintro (h | h) <;> cases h
        over := by intro h; cases h
        iters := rfl }
  · -- negative curvature, upper root returned
    exact
      { len := I.len_line _, val := rfl
        ray := by
          intro t ht hin
          have := ray_negcurv (model B g st.z) (sqNorm st.r) _ hi t hR.le h1 ht (hfeas t ht hin)
          rw [mdl hi, mdl t]; linarith
        le_prev := by
          have := line_negcurv (model B g st.z) (sqNorm st.r) _ hi hR.le h1 hhi0.le
          rw [mdl hi]; linarith
        not_fuel := by simp, not_nan := by simp, not_zero := by simp
        bdry := fun _ => hhi
        inter := by intro h; cases h
        neg := fun _ => h1
        pos := by rintro (h | h) <;> cases h
        over := by intro h; cases h
        iters := rfl }
  · exact h3.elim
  · -- over-long step: boundary point at the positive root
    rw [not_le] at h1
    have hal : 0 < sqNorm st.r / dot st.d (B st.d) := div_pos hR h1
    have hsq : Δ * Δ ≤ sqNorm (vadd st.z (smul (sqNorm st.r / dot st.d (B st.d)) st.d)) :=
      le_of_le_sqrt L _ Δ (sqNorm_nonneg _) hΔ h4
    have hha := hout _ hal hsq
    exact
      { len := I.len_line _, val := rfl
        ray := by
          intro t ht hin
          have := ray_overlong (model B g st.z) (sqNorm st.r) _ hi t h1 ht (hfeas t ht hin) hha
          rw [mdl hi, mdl t]; linarith
        le_prev := by
          have := line_before_alpha (model B g st.z) (sqNorm st.r) _ hi hR.le h1 hhi0.le hha
          rw [mdl hi]; linarith
        not_fuel := by simp, not_nan := by simp, not_zero := by simp
        bdry := fun _ => hhi
        inter := by intro h; cases h
        neg := by rintro (h | h) <;> cases h
        pos := fun _ => h1
        over := fun _ => hsq
        iters := rfl }
  · -- interior exit
    rw [not_le] at h1 h4
    have hsq : sqNorm (vadd st.z (smul (sqNorm st.r / dot st.d (B st.d)) st.d)) < Δ * Δ :=
      sqrt_lt_of L _ Δ (sqNorm_nonneg _) h4
    exact
      { len := I.len_line _, val := rfl
        ray := by
          intro t ht hin
          have := ray_alpha (model B g st.z) (sqNorm st.r) (dot st.d (B st.d)) t h1
          rw [mdl _, mdl t]; linarith
        le_prev := by
          have := line_alpha (model B g st.z) (sqNorm st.r) (dot st.d (B st.d)) h1
          rw [mdl _]; linarith
        not_fuel := by simp, not_nan := by simp, not_zero := by simp
        bdry := by intro h; simp [Exit.isBoundary] at h
        inter := fun _ => ⟨hsq, I.resid hB _, h5⟩
        neg := by rintro (h | h) <;> cases h
        pos := fun _ => h1
        over := by intro h; cases h
        iters := rfl }
  · -- next iteration
    rw [not_le] at h1 h4
    have hsq : sqNorm (vadd st.z (smul (sqNorm st.r / dot st.d (B st.d)) st.d)) < Δ * Δ :=
      sqrt_lt_of L _ Δ (sqNorm_nonneg _) h4
    have horth := I.orth hB h1
    have hBd := hB.len _ I.hd
    have hr'len : (vadd st.r (smul (sqNorm st.r / dot st.d (B st.d)) (B st.d))).length = n := by
      simp [I.hr, hBd]
    have hpos : 0 < sqNorm (vadd st.r (smul (sqNorm st.r / dot st.d (B st.d)) (B st.d))) := by
      rcases (sqNorm_nonneg (vadd st.r (smul (sqNorm st.r / dot st.d (B st.d)) (B st.d)))).lt_or_eq with h | h
      · exact h
      · exfalso; apply h5; right; left
        show RealLike.sqrt (sqNorm _) = 0
        rw [← h]; exact sqrt_zero_of L
    exact
      { inv :=
          { hz := I.len_line _, hr := hr'len
            hd := by simp [I.hd, hr'len]
            r_eq := I.resid hB _
            rsq_eq := rfl
            rd := by
              show dot _ (vsub _ _) = _
              rw [vsub_eq_vadd_smul, dot_vadd_right _ _ _ (by simp [I.hd, hr'len]), dot_smul_right,
                dot_smul_right, horth, ← sqNorm_eq_dot]; ring
            inside := hsq
            r_pos := hpos }
        iters := rfl
        z_eq := rfl
        ray := by
          intro t
          have := ray_alpha (model B g st.z) (sqNorm st.r) (dot st.d (B st.d)) t h1
          show model B g (vadd _ _) ≤ _
          rw [mdl _, mdl t]; linarith
        le_prev := by
          have := line_alpha (model B g st.z) (sqNorm st.r) (dot st.d (B st.d)) h1
          show model B g (vadd _ _) ≤ _
          rw [mdl _]; linarith
        pos := h1
        orth := horth
        no_exit := h5 }

end step
end Alpaqa.C11
