/-
  Helper lemmas for `Props/Directions.lean`:

  * list-vector algebra that C09's lemma file does not have (`smul_smul'`, `smul_vadd`) and the
    scaling law of the dense BFGS operator `Hrev_scale` (what `scale_y` does to the operator);
  * `setJ` (the indexed assignments `qₖ(J) = …` of the structured provider) as C09's `updJ`;
  * the PANOC line search with `τ_init = 0` keeps `τ = 0`, and the bookkeeping of one loop pass
    for the `τ` statistics (used for "PANOC with NoopDirection is the proximal-gradient method").
-/
import Alpaqa.Props.C09
import Alpaqa.Proofs.PanocDescent
import Alpaqa.Model.DirectionsPanoc
import Mathlib.Tactic.FieldSimp
import Mathlib.Tactic.NormNum

namespace Alpaqa.C09
open Alpaqa
set_option linter.unusedSectionVars false

section field
variable {α : Type} [Field α]

theorem smul_smul' (a b : α) (v : List α) : smul a (smul b v) = smul (a * b) v := by
  induction v with
  | nil => rfl
  | cons x v ih => simp [ih, mul_assoc]

theorem smul_vadd (k : α) (a b : List α) : smul k (vadd a b) = vadd (smul k a) (smul k b) := by
  induction a generalizing b with
  | nil => simp
  | cons x a ih => cases b with
    | nil => simp
    | cons y b => simp [ih b, mul_add]

/-- Scaling every stored `y` by `f ≠ 0` divides the dense operator by `f` and multiplies its
    initial scaling by `f`. -/
theorem Hrev_scale (f : α) (hf : f ≠ 0) (γ0 : α) (h : List (Vec α × Vec α)) (q : Vec α) :
    Hrev γ0 (h.map fun sy => (sy.1, smul f sy.2)) q = smul (1 / f) (Hrev (f * γ0) h q) := by
  induction h generalizing q with
  | nil =>
    simp only [List.map_nil, Hrev, smul_smul']
    congr 1; field_simp
  | cons sy older ih =>
    obtain ⟨s, y⟩ := sy
    simp only [List.map_cons, Hrev]
    have e1 : smul (1 / dot (smul f y) s * dot s q) (smul f y) = smul (1 / dot y s * dot s q) y := by
      rw [smul_smul', dot_smul_left]
      congr 1
      by_cases hys : dot y s = 0
      · simp [hys]
      · field_simp
    rw [e1, ih, dot_smul_left, dot_smul_left, dot_smul_right, smul_vadd, smul_smul']
    congr 2
    by_cases hys : dot y s = 0
    · simp [hys]
    · field_simp

end field
end Alpaqa.C09

namespace Alpaqa.Directions
open Alpaqa Alpaqa.Gen Alpaqa.C09
set_option linter.unusedSectionVars false

section
variable {α : Type} [Field α] [LinearOrder α] [IsStrictOrderedRing α]
  [RealLike α] [PowLike α] [HasNaN α]

/-- The indexed assignment of the structured provider is C09's in-place update on `J`. -/
theorem setJ_eq_updJ (J : List Nat) (f : Nat → α) (q : Vec α) :
    SLbfgs.setJ J f q = updJ J (fun j _ => f j) q := rfl

theorem setJ_length (J : List Nat) (f : Nat → α) (q : Vec α) : (SLbfgs.setJ J f q).length = q.length := by
  rw [setJ_eq_updJ]; exact updJ_length _ _ _

/-- outside `J` nothing is written -/
theorem setJ_frame (J : List Nat) (f : Nat → α) (q : Vec α) (j : Nat) (hj : j ∉ J) :
    vget (SLbfgs.setJ J f q) j = vget q j := by
  rw [setJ_eq_updJ]; exact updJ_frame _ _ _ _ hj

/-- on `J` (distinct, in range) the assigned value is read back -/
theorem setJ_hit (J : List Nat) (f : Nat → α) (q : Vec α) (hnd : J.Nodup)
    (hlt : ∀ j ∈ J, j < q.length) (j : Nat) (hj : j ∈ J) : vget (SLbfgs.setJ J f q) j = f j := by
  rw [setJ_eq_updJ]; exact updJ_hit _ _ _ hnd hlt j hj

end
end Alpaqa.Directions

namespace Alpaqa.Panoc
open Alpaqa Alpaqa.Gen
set_option linter.unusedSectionVars false
set_option linter.unusedVariables false

variable {α D : Type} [Field α] [LinearOrder α] [IsStrictOrderedRing α] [RealLike α]

theorem lsUIC_tau (dir : Direction D α) (s : LS α D) : (lsUpdateInCandidate dir s).tau = s.tau :=
  (lsUpdateInCandidate_tau dir s).1

/-- A line-search pass started with `τ = 0` (and `τ_init = 0`) keeps `τ = 0`. -/
theorem lsPass_tau_zero (P : Problem α) (dir : Direction D α) (pr : Params α) (q : Vec α)
    (s : LS α D) (h : s.tau = 0) : (Pass.st (lsPass P dir pr q 0 s)).tau = 0 := by
  have h1 : (lsRecompute P q s).tau = 0 := by rw [(lsRecompute_prev P q s).2, h]
  unfold lsPass
  simp only [h1, gt_iff_lt, lt_self_iff_false, decide_false, Bool.false_and, Bool.false_eq_true,
    if_false]
  split_ifs <;> simp_all [Pass.st, lsUIC_tau]

/-- … so the whole line search does: with no accelerated step on offer the accepted step is the
    proximal-gradient step. -/
theorem lineSearch_tau_zero (P : Problem α) (dir : Direction D α) (pr : Params α)
    (stop : Nat → Bool) (q : Vec α) (f : Nat) (s : LS α D) (h : s.tau = 0) :
    (lineSearch P dir pr stop q 0 f s).tau = 0 := by
  induction f generalizing s with
  | zero => simpa [lineSearch] using h
  | succ f ih =>
    unfold lineSearch
    split_ifs
    · exact h
    · have hp := lsPass_tau_zero P dir pr q s h
      cases hpass : lsPass P dir pr q 0 s with
      | done s' => rw [hpass] at hp; exact hp
      | again s' => rw [hpass] at hp; exact ih s' hp

/-- If the direction stage offers no accelerated step, the line search of that iteration ends with
    `τ = 0`. -/
theorem iterLs_tau_zero (P : Problem α) (dir : Direction D α) (pr : Params α) (stop : Nat → Bool)
    (s : St α D) (h : (directionStage dir s).2.2.2.1 = 0) : (iterLs P dir pr stop s).tau = 0 := by
  unfold iterLs
  rw [h]
  exact lineSearch_tau_zero P dir pr stop _ _ _ rfl

/-- The `τ` statistics of one pass of the loop body. -/
theorem iterBody_tau_stats (P : Problem α) (dir : Direction D α) (pr : Params α)
    (stop : Nat → Bool) (s : St α D) (eps : α) :
    (stop (iterLs P dir pr stop s).tick = true →
      (iterBody P dir pr stop s eps).stats.countTau = s.stats.countTau ∧
      (iterBody P dir pr stop s eps).stats.sumTau = s.stats.sumTau ∧
      (iterBody P dir pr stop s eps).stats.tau1Accepted = s.stats.tau1Accepted) ∧
    (stop (iterLs P dir pr stop s).tick = false →
      (iterBody P dir pr stop s eps).stats.countTau =
        s.stats.countTau + (if (directionStage dir s).2.2.2.1 > 0 then 1 else 0) ∧
      (iterBody P dir pr stop s eps).stats.sumTau = s.stats.sumTau + (iterLs P dir pr stop s).tau ∧
      (iterBody P dir pr stop s eps).stats.tau1Accepted =
        s.stats.tau1Accepted + (if (iterLs P dir pr stop s).tau == 1 then 1 else 0)) := by
  constructor
  · intro h
    unfold iterLs at h
    unfold iterBody
    simp only []
    rw [if_pos h]
    exact ⟨rfl, rfl, rfl⟩
  · intro h
    unfold iterLs at h
    unfold iterBody iterLs
    simp only []
    rw [if_neg (by rw [h]; decide)]
    exact ⟨rfl, rfl, rfl⟩

theorem headStep_stats (P : Problem α) (pr : Params α) (stop : Nat → Bool) (oot : Bool)
    (s : St α D) : (headStep P pr stop oot s).1.stats = s.stats := by
  unfold headStep; simp only []

theorem exitBlock_tau_stats (P : Problem α) (pr : Params α) (s : St α D) (eps : α)
    (status : SolverStatus) (x0 y Sig errz0 : Vec α) :
    (exitBlock P pr s eps status x0 y Sig errz0).stats.countTau = s.stats.countTau ∧
    (exitBlock P pr s eps status x0 y Sig errz0).stats.sumTau = s.stats.sumTau ∧
    (exitBlock P pr s eps status x0 y Sig errz0).stats.tau1Accepted = s.stats.tau1Accepted := by
  unfold exitBlock
  simp only []
  refine ⟨?_, ?_, ?_⟩ <;> first | rfl | trivial

end Alpaqa.Panoc
