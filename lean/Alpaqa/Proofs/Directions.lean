/-
  Helper lemmas for `Props/Directions.lean`:

  * list-vector algebra that C09's lemma file does not have (`smul_smul'`, `smul_vadd`) and the
    scaling law of the dense BFGS operator `Hrev_scale` (what `scale_y` does to the operator);
  * `setJ` (the indexed assignments `qₖ(J) = …` of the structured provider) as C09's `updJ`;
  * the PANOC line search with `τ_init = 0` keeps `τ = 0`, and the bookkeeping of one loop pass
    for the `τ` statistics (used for "PANOC with NoopDirection is the proximal-gradient method").
-/
import Alpaqa.Props.C09
import Alpaqa.Proofs.PanocSized
import Alpaqa.Model.DirectionsPanoc
import Mathlib.Tactic.FieldSimp
import Mathlib.Tactic.NormNum

namespace Alpaqa.C09
open Alpaqa
set_option linter.unusedSectionVars false

section field
variable {α : Type} [Field α]

theorem smul_smul' (a b : α) (v : List α) : smul a (smul b v) = smul (a * b) v := by
  induction v with
  | nil => rfl
  | cons x v ih => simp [ih, mul_assoc]

theorem smul_vadd (k : α) (a b : List α) : smul k (vadd a b) = vadd (smul k a) (smul k b) := by
  induction a generalizing b with
  | nil => simp
  | cons x a ih => cases b with
    | nil => simp
    | cons y b => simp [ih b, mul_add]

/-- Scaling every stored `y` by `f ≠ 0` divides the dense operator by `f` and multiplies its
    initial scaling by `f`. -/
theorem Hrev_scale (f : α) (hf : f ≠ 0) (γ0 : α) (h : List (Vec α × Vec α)) (q : Vec α) :
    Hrev γ0 (h.map fun sy => (sy.1, smul f sy.2)) q = smul (1 / f) (Hrev (f * γ0) h q) := by
  induction h generalizing q with
  | nil =>
    simp only [List.map_nil, Hrev, smul_smul']
    congr 1; field_simp
  | cons sy older ih =>
    obtain ⟨s, y⟩ := sy
    simp only [List.map_cons, Hrev]
    have e1 : smul (1 / dot (smul f y) s * dot s q) (smul f y) = smul (1 / dot y s * dot s q) y := by
      rw [smul_smul', dot_smul_left]
      congr 1
      by_cases hys : dot y s = 0
      · simp [hys]
      · field_simp
    rw [e1, ih, dot_smul_left, dot_smul_left, dot_smul_right, smul_vadd, smul_smul']
    congr 2
    by_cases hys : dot y s = 0
    · simp [hys]
    · field_simp

end field
end Alpaqa.C09

namespace Alpaqa.Directions
open Alpaqa Alpaqa.Gen Alpaqa.C09
set_option linter.unusedSectionVars false

section
variable {α : Type} [Field α] [LinearOrder α] [IsStrictOrderedRing α]
  [RealLike α] [PowLike α] [HasNaN α]

/-- The indexed assignment of the structured provider is C09's in-place update on `J`. -/
theorem setJ_eq_updJ (J : List Nat) (f : Nat → α) (q : Vec α) :
    SLbfgs.setJ J f q = updJ J (fun j _ => f j) q := rfl

theorem setJ_length (J : List Nat) (f : Nat → α) (q : Vec α) : (SLbfgs.setJ J f q).length = q.length := by
  rw [setJ_eq_updJ]; exact updJ_length _ _ _

/-- outside `J` nothing is written -/
theorem setJ_frame (J : List Nat) (f : Nat → α) (q : Vec α) (j : Nat) (hj : j ∉ J) :
    vget (SLbfgs.setJ J f q) j = vget q j := by
  rw [setJ_eq_updJ]; exact updJ_frame _ _ _ _ hj

/-- on `J` (distinct, in range) the assigned value is read back -/
theorem setJ_hit (J : List Nat) (f : Nat → α) (q : Vec α) (hnd : J.Nodup)
    (hlt : ∀ j ∈ J, j < q.length) (j : Nat) (hj : j ∈ J) : vget (SLbfgs.setJ J f q) j = f j := by
  rw [setJ_eq_updJ]; exact updJ_hit _ _ _ hnd hlt j hj

end
end Alpaqa.Directions

/-! ### sizes along the operations of the L-BFGS buffer (no curvature assumption) -/

namespace Alpaqa.C09
open Alpaqa Alpaqa.Props.C09
set_option linter.unusedSectionVars false

section sized
variable {α : Type} [Field α] [LinearOrder α] [IsStrictOrderedRing α]
  [RealLike α] [PowLike α] [HasNaN α]

/-- What the buffer inside a provider satisfies after `resize n` and any sequence of `n`-sized
    operations — with or without zero-curvature pairs: ring invariant, consistent `ρ`, every stored
    vector of size `n`. -/
def SizedSt (p : Params α) (n : Nat) (st : State α) : Prop := Good p st ∧ DimOK st ∧ st.n = n

/-- the vector arguments of an operation have size `n` (a `resize` is to `n`) -/
def OpDim (n : Nat) : Op α → Prop
  | .updateSy s y _ _ => s.length = n ∧ y.length = n
  | .update xk xn pk pn _ _ => xk.length = n ∧ xn.length = n ∧ pk.length = n ∧ pn.length = n
  | .resize k => k = n
  | _ => True

theorem resize_sizedSt (p : Params α) (n : Nat) (st : State α) (h : resize p n = some st) :
    SizedSt p n st := by
  obtain ⟨hG, _, hn⟩ := resize_goodC p n st h
  exact ⟨hG.1, hG.2.2, hn⟩

theorem step_sizedSt (p : Params α) (hm : 1 ≤ p.memory) (n : Nat) (st : State α)
    (h : SizedSt p n st) (op : Op α) (hop : OpDim n op) : SizedSt p n (step p st op) := by
  obtain ⟨hG, hd, hn⟩ := h
  have hgood := (step_refines p hm st hG op).1
  cases op with
  | updateSy s y pTp forced =>
    refine ⟨hgood, ?_, by simp only [step, updateSy_n]; exact hn⟩
    simp only [step]
    unfold DimOK; rw [updateSy_n]
    exact allPairs_updateSy _ p st hG.1 s y pTp forced hd (fun _ => by rw [hn]; exact hop)
  | update xk xn pk pn pos forced =>
    obtain ⟨h1, h2, h3, h4⟩ := hop
    refine ⟨hgood, ?_, by simp only [step, update_eq_updateSy, updateSy_n]; exact hn⟩
    simp only [step, update_eq_updateSy]
    unfold DimOK; rw [updateSy_n]
    refine allPairs_updateSy _ p st hG.1 _ _ _ forced hd (fun _ => ⟨?_, ?_⟩)
    · rw [hn]; exact length_vsub_eq _ _ n h2 h1
    · rw [hn]; cases pos
      · exact length_vsub_eq _ _ n h3 h4
      · exact length_vsub_eq _ _ n h4 h3
  | apply q γ =>
    refine ⟨hgood, ?_, by simp only [step, apply_n]; exact hn⟩
    simp only [step]; unfold DimOK; rw [apply_n]; exact allPairs_apply _ p st q γ hd
  | applyMasked q γ J =>
    refine ⟨hgood, ?_, by simp only [step, applyMasked_n]; exact hn⟩
    simp only [step]; unfold DimOK; rw [applyMasked_n]; exact allPairs_applyMasked _ p st q γ J hd
  | reset => exact ⟨hgood, allPairs_reset _ st, hn⟩
  | resize k =>
    have hk : k = n := hop
    subst hk
    obtain ⟨st', h1, _⟩ := (resize_spec p k).2 hm
    simp only [step, h1, Option.getD_some]
    exact resize_sizedSt p k st' h1
  | scaleY f =>
    refine ⟨hgood, ?_, hn⟩
    simp only [step]; unfold DimOK; rw [scaleY_n]
    exact allPairs_scaleY _ st hG.1 f hd (fun c hc => ⟨hc.1, by rw [length_smul]; exact hc.2⟩)

theorem run_sizedSt (p : Params α) (hm : 1 ≤ p.memory) (n : Nat) (ops : List (Op α)) (st : State α)
    (h : SizedSt p n st) (hops : ∀ op ∈ ops, OpDim n op) : SizedSt p n (ops.foldl (step p) st) := by
  induction ops generalizing st with
  | nil => exact h
  | cons op ops ih =>
    exact ih _ (step_sizedSt p hm n st h op (hops op (List.mem_cons_self)))
      (fun o ho => hops o (List.mem_cons_of_mem _ ho))

/-- `apply` on a sized buffer with an `n`-sized vector leaves an `n`-sized vector (whether it
    succeeds or not, whatever the curvatures). -/
theorem apply_length (p : Params α) (n : Nat) (st : State α) (h : SizedSt p n st) (q : Vec α)
    (hq : q.length = n) (γ : α) : (apply p st q γ).2.1.length = n := by
  obtain ⟨⟨hI, _, hρ⟩, hd, hn⟩ := h
  rcases Bool.eq_false_or_eq_true st.isEmpty with he | he
  · rw [apply_empty p st q γ he]; exact hq
  · rw [(apply_eq_dense p st hI hρ q γ he).1]
    exact H_length _ _ (hn ▸ (dimOK_abs st).mp hd) q hq

/-! the masked variant writes only the entries of `J` (when `J` is not the full index set) -/

theorem maskedRevStep_q_length (p : Params α) (J : List Nat) (slots : List (Slot α)) (a : MaskAcc α)
    (i : Nat) : (maskedRevStep p false J slots a i).q.length = a.q.length := by
  unfold maskedRevStep
  simp only []
  split_ifs <;> first | rfl | exact axmyJ_length _ _ _ _

theorem mrev_q_length (p : Params α) (J : List Nat) (slots : List (Slot α)) (is : List Nat)
    (a : MaskAcc α) : (is.foldl (maskedRevStep p false J slots) a).q.length = a.q.length := by
  induction is generalizing a with
  | nil => rfl
  | cons i is ih => rw [List.foldl_cons, ih, maskedRevStep_q_length]

theorem mfwd_length (J : List Nat) (slots : List (Slot α)) (al : List α) (skip : List Bool)
    (is : List Nat) (q : Vec α) :
    (is.foldl (maskedFwdStep false J slots al skip) q).length = q.length := by
  induction is generalizing q with
  | nil => rfl
  | cons i is ih =>
    rw [List.foldl_cons, ih]
    unfold maskedFwdStep
    simp only []
    split_ifs
    · rfl
    · exact axmyJ_length _ _ _ _

theorem applyMasked_length (p : Params α) (st : State α) (q : Vec α) (γ : α) (J : List Nat)
    (hf : (q.length == J.length) = false) (st' : State α) (q' : Vec α) (ok : Bool)
    (h : applyMasked p st q γ J = .done st' q' ok) : q'.length = q.length := by
  unfold applyMasked at h
  simp only [hf] at h
  split_ifs at h <;> cases h <;> first
    | rfl
    | exact mrev_q_length _ _ _ _ _
    | (rw [mfwd_length, scalJ_length, mrev_q_length])

end sized
end Alpaqa.C09

namespace Alpaqa.Panoc
open Alpaqa Alpaqa.Gen
set_option linter.unusedSectionVars false
set_option linter.unusedVariables false

variable {α D : Type} [Field α] [LinearOrder α] [IsStrictOrderedRing α] [RealLike α]

theorem lsUIC_tau (dir : Direction D α) (s : LS α D) : (lsUpdateInCandidate dir s).tau = s.tau :=
  (lsUpdateInCandidate_tau dir s).1

/-- A line-search pass started with `τ = 0` (and `τ_init = 0`) keeps `τ = 0`. -/
theorem lsPass_tau_zero (P : Problem α) (dir : Direction D α) (pr : Params α) (q : Vec α)
    (s : LS α D) (h : s.tau = 0) : (Pass.st (lsPass P dir pr q 0 s)).tau = 0 := by
  have h1 : (lsRecompute P q s).tau = 0 := by rw [(lsRecompute_prev P q s).2, h]
  unfold lsPass
  simp only [h1, gt_iff_lt, lt_self_iff_false, decide_false, Bool.false_and, Bool.false_eq_true,
    if_false]
  split_ifs <;> simp_all [Pass.st, lsUIC_tau]

/-- … so the whole line search does: with no accelerated step on offer the accepted step is the
    proximal-gradient step. -/
theorem lineSearch_tau_zero (P : Problem α) (dir : Direction D α) (pr : Params α)
    (stop : Nat → Bool) (q : Vec α) (f : Nat) (s : LS α D) (h : s.tau = 0) :
    (lineSearch P dir pr stop q 0 f s).tau = 0 := by
  induction f generalizing s with
  | zero => simpa [lineSearch] using h
  | succ f ih =>
    unfold lineSearch
    split_ifs
    · exact h
    · have hp := lsPass_tau_zero P dir pr q s h
      cases hpass : lsPass P dir pr q 0 s with
      | done s' => rw [hpass] at hp; exact hp
      | again s' => rw [hpass] at hp; exact ih s' hp

/-- If the direction stage offers no accelerated step, the line search of that iteration ends with
    `τ = 0`. -/
theorem iterLs_tau_zero (P : Problem α) (dir : Direction D α) (pr : Params α) (stop : Nat → Bool)
    (s : St α D) (h : (directionStage dir s).2.2.2.1 = 0) : (iterLs P dir pr stop s).tau = 0 := by
  unfold iterLs
  rw [h]
  exact lineSearch_tau_zero P dir pr stop _ _ _ rfl

/-- The `τ` statistics of one pass of the loop body. -/
theorem iterBody_tau_stats (P : Problem α) (dir : Direction D α) (pr : Params α)
    (stop : Nat → Bool) (s : St α D) (eps : α) :
    (stop (iterLs P dir pr stop s).tick = true →
      (iterBody P dir pr stop s eps).stats.countTau = s.stats.countTau ∧
      (iterBody P dir pr stop s eps).stats.sumTau = s.stats.sumTau ∧
      (iterBody P dir pr stop s eps).stats.tau1Accepted = s.stats.tau1Accepted) ∧
    (stop (iterLs P dir pr stop s).tick = false →
      (iterBody P dir pr stop s eps).stats.countTau =
        s.stats.countTau + (if (directionStage dir s).2.2.2.1 > 0 then 1 else 0) ∧
      (iterBody P dir pr stop s eps).stats.sumTau = s.stats.sumTau + (iterLs P dir pr stop s).tau ∧
      (iterBody P dir pr stop s eps).stats.tau1Accepted =
        s.stats.tau1Accepted + (if (iterLs P dir pr stop s).tau == 1 then 1 else 0)) := by
  constructor
  · intro h
    unfold iterLs at h
    unfold iterBody
    simp only []
    rw [if_pos h]
    exact ⟨rfl, rfl, rfl⟩
  · intro h
    unfold iterLs at h
    unfold iterBody iterLs
    simp only []
    rw [if_neg (by rw [h]; decide)]
    exact ⟨rfl, rfl, rfl⟩

theorem headStep_stats (P : Problem α) (pr : Params α) (stop : Nat → Bool) (oot : Bool)
    (s : St α D) : (headStep P pr stop oot s).1.stats = s.stats := by
  unfold headStep; simp only []

theorem exitBlock_tau_stats (P : Problem α) (pr : Params α) (s : St α D) (eps : α)
    (status : SolverStatus) (x0 y Sig errz0 : Vec α) :
    (exitBlock P pr s eps status x0 y Sig errz0).stats.countTau = s.stats.countTau ∧
    (exitBlock P pr s eps status x0 y Sig errz0).stats.sumTau = s.stats.sumTau ∧
    (exitBlock P pr s eps status x0 y Sig errz0).stats.tau1Accepted = s.stats.tau1Accepted := by
  unfold exitBlock
  simp only []
  refine ⟨?_, ?_, ?_⟩ <;> first | rfl | trivial

end Alpaqa.Panoc
