/-
  Structural lemmas about the PANOC loop model (`Alpaqa/Model/Panoc.lean`) used by the loop-level
  theorems of C05 / C06 / C19: what each stage does to the iteration counter, the no-progress
  counter, the callback list, the tick counter and to the "core" of the current iterate
  (everything but the `∇ψ(x̂)` buffer and its validity flag).

  Everything here holds over any carrier (IEEE doubles included), for arbitrary oracles, stop
  schedules and budgets: the lemmas are about which record field is written where.
-/
import Mathlib.Tactic.SplitIfs
import Mathlib.Tactic.Basic
import Alpaqa.Proofs.PanocInv

namespace Alpaqa.Panoc
open Alpaqa Alpaqa.Gen
set_option linter.unusedSectionVars false
set_option linter.unusedVariables false

variable {α D : Type} [Add α] [Sub α] [Mul α] [Div α] [Neg α] [LT α] [LE α] [DecidableLT α]
  [DecidableLE α] [BEq α] [RealLike α] [NatCast α] [OfScientific α]
  [OfNat α 0] [OfNat α 1] [OfNat α 2] [OfNat α 100]

/-! ### The core of an iterate -/

/-- Everything of an iterate except the `∇ψ(x̂)` buffer, its validity flag (the only fields the
    line search may touch on the *current* iterate) and `ŷx̂` (with eager evaluation the loop head
    evaluates it when it is read). -/
def core (i : Iterate α) : Iterate α := { i with gradPsiHat := [], haveGradHat := false, yhat := [] }

theorem core_evalGradPsiHat (P : Problem α) (i : Iterate α) : core (evalGradPsiHat P i) = core i := rfl

theorem core_takeSafeStep_curr (P : Problem α) (c n : Iterate α) (t : Nat) :
    core (takeSafeStep P c n t).1 = core c := by
  unfold takeSafeStep
  by_cases hh : c.haveGradHat <;> simp [hh, core, evalGradPsiHat]

theorem fbe_core (i : Iterate α) : (core i).fbe = i.fbe := rfl

theorem fbe_of_core {a b : Iterate α} (h : core a = core b) : a.fbe = b.fbe := by
  rw [← fbe_core a, ← fbe_core b, h]

theorem x_of_core {a b : Iterate α} (h : core a = core b) : a.x = b.x := by
  have := congrArg Iterate.x h; exact this
theorem xhat_of_core {a b : Iterate α} (h : core a = core b) : a.xhat = b.xhat := by
  have := congrArg Iterate.xhat h; exact this
theorem gamma_of_core {a b : Iterate α} (h : core a = core b) : a.gamma = b.gamma := by
  have := congrArg Iterate.gamma h; exact this
theorem L_of_core {a b : Iterate α} (h : core a = core b) : a.L = b.L := by
  have := congrArg Iterate.L h; exact this
theorem psix_of_core {a b : Iterate α} (h : core a = core b) : a.psix = b.psix := by
  have := congrArg Iterate.psix h; exact this
theorem psixhat_of_core {a b : Iterate α} (h : core a = core b) : a.psixhat = b.psixhat := by
  have := congrArg Iterate.psixhat h; exact this
theorem hxhat_of_core {a b : Iterate α} (h : core a = core b) : a.hxhat = b.hxhat := by
  have := congrArg Iterate.hxhat h; exact this
theorem pTp_of_core {a b : Iterate α} (h : core a = core b) : a.pTp = b.pTp := by
  have := congrArg Iterate.pTp h; exact this
theorem gradPsiTp_of_core {a b : Iterate α} (h : core a = core b) : a.gradPsiTp = b.gradPsiTp := by
  have := congrArg Iterate.gradPsiTp h; exact this
theorem p_of_core {a b : Iterate α} (h : core a = core b) : a.p = b.p := by
  have := congrArg Iterate.p h; exact this
theorem gradPsi_of_core {a b : Iterate α} (h : core a = core b) : a.gradPsi = b.gradPsi := by
  have := congrArg Iterate.gradPsi h; exact this

theorem qubViolated_of_core (pr : Params α) {a b : Iterate α} (h : core a = core b) :
    qubViolated pr a = qubViolated pr b := by
  unfold qubViolated
  rw [psix_of_core h, psixhat_of_core h, gradPsiTp_of_core h, L_of_core h, pTp_of_core h]

/-! ### Line search: the current iterate keeps its core; tick accounting -/

theorem lsRecompute_core (P : Problem α) (q : Vec α) (s : LS α D) :
    core (lsRecompute P q s).curr = core s.curr := by
  unfold lsRecompute
  split_ifs
  · rfl
  · exact core_takeSafeStep_curr P _ _ _
  · rfl

theorem takeSafeStep_tick (P : Problem α) (c n : Iterate α) (t : Nat) :
    t ≤ (takeSafeStep P c n t).2.2 ∧ (takeSafeStep P c n t).2.2 ≤ t + 1 := by
  unfold takeSafeStep
  by_cases hh : c.haveGradHat <;> simp [hh]

theorem lsRecompute_tick (P : Problem α) (q : Vec α) (s : LS α D) :
    s.tick ≤ (lsRecompute P q s).tick ∧ (lsRecompute P q s).tick ≤ s.tick + 1 := by
  unfold lsRecompute
  split_ifs
  · exact ⟨Nat.le_succ _, Nat.le_refl _⟩
  · exact takeSafeStep_tick P s.curr s.next s.tick
  · exact ⟨Nat.le_refl _, Nat.le_succ _⟩

theorem lsUpdateInCandidate_tick (dir : Direction D α) (s : LS α D) :
    s.tick ≤ (lsUpdateInCandidate dir s).tick ∧ (lsUpdateInCandidate dir s).tick ≤ s.tick + 1 := by
  unfold lsUpdateInCandidate
  split_ifs
  · exact ⟨Nat.le_succ _, Nat.le_refl _⟩
  · exact ⟨Nat.le_refl _, Nat.le_succ _⟩

/-- The state a pass of the line-search body ends in. -/
def Pass.st : Pass α D → LS α D
  | .done s => s
  | .again s => s

/-- One pass of the line-search body makes at most 4 oracle calls (step recomputation, prox step,
    ψ(x̂), direction update in the candidate) and leaves the core of `curr` alone. -/
theorem lsPass_core_tick (P : Problem α) (dir : Direction D α) (pr : Params α) (q : Vec α)
    (tauInit : α) (s : LS α D) :
    core (lsPass P dir pr q tauInit s).st.curr = core s.curr ∧
    s.tick ≤ (lsPass P dir pr q tauInit s).st.tick ∧
    (lsPass P dir pr q tauInit s).st.tick ≤ s.tick + 4 := by
  have h1 := lsRecompute_core P q s
  have h2 := lsRecompute_tick P q s
  unfold lsPass
  simp only []
  split_ifs <;> refine ⟨?_, ?_, ?_⟩ <;> simp only [Pass.st] <;>
    first
    | exact h1
    | (rw [(lsUpdateInCandidate_same dir _).1]; exact h1)
    | omega
    | (refine Nat.le_trans ?_ (lsUpdateInCandidate_tick dir _).1; simp only []; omega)
    | (refine Nat.le_trans (lsUpdateInCandidate_tick dir _).2 ?_; simp only []; omega)

/-- **No evaluation once the flag is visible**: if the stop flag is visible when the line-search
    loop tests its condition, the loop is left without touching anything. -/
theorem lineSearch_stop_id (P : Problem α) (dir : Direction D α) (pr : Params α) (stop : Nat → Bool)
    (q : Vec α) (tauInit : α) (f : Nat) (s : LS α D) (h : stop s.tick = true) :
    lineSearch P dir pr stop q tauInit (f + 1) s = s := by
  unfold lineSearch; simp [h]

theorem lineSearch_core (P : Problem α) (dir : Direction D α) (pr : Params α) (stop : Nat → Bool)
    (q : Vec α) (tauInit : α) (f : Nat) (s : LS α D) :
    core (lineSearch P dir pr stop q tauInit f s).curr = core s.curr ∧
    s.tick ≤ (lineSearch P dir pr stop q tauInit f s).tick := by
  induction f generalizing s with
  | zero => simp [lineSearch]
  | succ f ih =>
    unfold lineSearch
    by_cases hst : stop s.tick
    · simp [hst]
    · simp only [hst, Bool.false_eq_true, if_false]
      have hp := lsPass_core_tick P dir pr q tauInit s
      cases hpass : lsPass P dir pr q tauInit s with
      | done s' => rw [hpass] at hp; exact ⟨hp.1, hp.2.1⟩
      | again s' =>
        rw [hpass] at hp
        simp only [Pass.st] at hp
        have := ih s'
        exact ⟨this.1.trans hp.1, Nat.le_trans hp.2.1 this.2⟩

/-- `stop` is monotone in the tick (the flag is never cleared, `Gen.C19`). -/
def StopMono (stop : Nat → Bool) : Prop := ∀ s t, s ≤ t → stop s = true → stop t = true

theorem lt_of_not_stop {stop : Nat → Bool} (hm : StopMono stop) {t t0 : Nat} (h0 : stop t0 = true)
    (h : stop t = false) : t < t0 := by
  apply Nat.lt_of_not_le
  intro hc
  have := hm t0 t hc h0
  rw [h] at this; exact absurd this (by decide)

/-- With a monotone flag that is visible from tick `t₀` on, the line search never runs past
    `t₀ + 3`: a pass is only started while the flag is invisible (tick `< t₀`) and makes at most 4
    calls. -/
theorem lineSearch_tick_bound (P : Problem α) (dir : Direction D α) (pr : Params α)
    (stop : Nat → Bool) (hm : StopMono stop) (t0 : Nat) (h0 : stop t0 = true)
    (q : Vec α) (tauInit : α) (f : Nat) (s : LS α D) (hs : s.tick ≤ t0 + 3) :
    (lineSearch P dir pr stop q tauInit f s).tick ≤ t0 + 3 := by
  induction f generalizing s with
  | zero => simpa [lineSearch] using hs
  | succ f ih =>
    unfold lineSearch
    by_cases hst : stop s.tick
    · simpa [hst] using hs
    · simp only [hst, Bool.false_eq_true, if_false]
      have hlt := lt_of_not_stop hm h0 (by simpa using hst)
      have hp := lsPass_core_tick P dir pr q tauInit s
      cases hpass : lsPass P dir pr q tauInit s with
      | done s' => rw [hpass] at hp; simp only [Pass.st] at hp; simp only []; omega
      | again s' =>
        rw [hpass] at hp; simp only [Pass.st] at hp
        exact ih s' (by omega)

/-! ### Head of the loop -/

theorem epsTicks_le (c : PANOCStopCrit) : epsTicks c ≤ 1 := by cases c <;> simp [epsTicks]

theorem core_headEvalYhat (P : Problem α) (pr : Params α) (c : Iterate α) :
    core (headEvalYhat P pr c).1 = core c := by
  unfold headEvalYhat
  split_ifs <;> rfl

theorem headStep_fields (P : Problem α) (pr : Params α) (stop : Nat → Bool) (oot : Bool)
    (s : St α D) :
    (headStep P pr stop oot s).1.k = s.k ∧ (headStep P pr stop oot s).1.noProgress = s.noProgress ∧
    (headStep P pr stop oot s).1.cbs = s.cbs ∧ (headStep P pr stop oot s).1.next = s.next ∧
    core (headStep P pr stop oot s).1.curr = core s.curr ∧
    s.tick ≤ (headStep P pr stop oot s).1.tick ∧ (headStep P pr stop oot s).1.tick ≤ s.tick + 3 := by
  have he := epsTicks_le pr.stopCrit
  have hy := (headEvalYhat_fields P pr s.curr).2.2.2.2.2.2.2.2
  have hcy := core_headEvalYhat P pr s.curr
  unfold headStep
  simp only []
  split_ifs <;> refine ⟨?_, ?_, ?_, ?_, ?_, ?_, ?_⟩ <;>
    first | rfl | trivial | exact hcy | (exact (core_evalGradPsiHat P _).trans hcy) | omega

theorem headStep_fuelOut (P : Problem α) (pr : Params α) (stop : Nat → Bool) (oot : Bool)
    (s : St α D) : (headStep P pr stop oot s).1.fuelOut = s.fuelOut := by
  unfold headStep; simp only []

/-- The status computed at a loop head is the generated chain on the head state, and `ε` is the
    generated criterion of the head's current iterate. -/
theorem headStep_status (P : Problem α) (pr : Params α) (stop : Nat → Bool) (oot : Bool)
    (s : St α D) :
    (headStep P pr stop oot s).2.1 = epsOf P pr (headStep P pr stop oot s).1.curr ∧
    (headStep P pr stop oot s).2.2 =
      statusOf pr (headStep P pr stop oot s).1.k (headStep P pr stop oot s).2.1
        (headStep P pr stop oot s).1.noProgress oot (stop (headStep P pr stop oot s).1.tick) :=
  ⟨rfl, rfl⟩

/-! ### Exit block -/

theorem exitBlock_fields (P : Problem α) (pr : Params α) (s : St α D) (eps : α)
    (status : SolverStatus) (x0 y Sig errz0 : Vec α) :
    (exitBlock P pr s eps status x0 y Sig errz0).stats.status = status ∧
    (exitBlock P pr s eps status x0 y Sig errz0).stats.eps = eps ∧
    (exitBlock P pr s eps status x0 y Sig errz0).stats.iterations = s.k ∧
    (exitBlock P pr s eps status x0 y Sig errz0).fuelOut = s.fuelOut ∧
    s.tick + 1 ≤ (exitBlock P pr s eps status x0 y Sig errz0).ticks ∧
    (exitBlock P pr s eps status x0 y Sig errz0).ticks ≤ s.tick + 2 := by
  unfold exitBlock
  simp only []
  refine ⟨?_, ?_, ?_, ?_, ?_, ?_⟩ <;> first | rfl | trivial | (split_ifs <;> simp)

/-- The callbacks of an exit: everything recorded so far, then the final one, which reports the
    head's current iterate, the head's `ε` and the exit status. -/
theorem exitBlock_callbacks (P : Problem α) (pr : Params α) (s : St α D) (eps : α)
    (status : SolverStatus) (x0 y Sig errz0 : Vec α) :
    (exitBlock P pr s eps status x0 y Sig errz0).callbacks =
      s.cbs.reverse ++ [{ k := s.k, status := status, it := s.curr, fbe := s.curr.fbe, q := [],
                          tau := -1, eps := eps }] := by
  unfold exitBlock
  simp only [List.reverse_cons]

/-- The iterate written back is the head's current iterate; only when results are written and `ŷ(x̂)` has
    not been evaluated yet (eager evaluation, `have_ŷx̂ = false`) are `ψ(x̂)` and `ŷ` re-evaluated (at the
    same `x̂`). -/
theorem exitBlock_final (P : Problem α) (pr : Params α) (s : St α D) (eps : α)
    (status : SolverStatus) (x0 y Sig errz0 : Vec α) :
    ∃ c, (exitBlock P pr s eps status x0 y Sig errz0).final = some c ∧
      c.x = s.curr.x ∧ c.xhat = s.curr.xhat ∧ c.p = s.curr.p ∧ c.gamma = s.curr.gamma ∧
      c.gradPsi = s.curr.gradPsi ∧ c.gradPsiHat = s.curr.gradPsiHat ∧ c.L = s.curr.L ∧
      (((exitBlock P pr s eps status x0 y Sig errz0).wrote && !s.yhatValid) = false →
        c = s.curr) ∧
      ((exitBlock P pr s eps status x0 y Sig errz0).wrote = true →
        (exitBlock P pr s eps status x0 y Sig errz0).x = c.xhat ∧
        (exitBlock P pr s eps status x0 y Sig errz0).y = c.yhat) := by
  unfold exitBlock
  simp only []
  cases hw : (status == .Converged || status == .Interrupted || pr.alwaysOverwrite) <;>
  cases he : s.yhatValid <;>
  simp only [Bool.and_true, Bool.and_false, Bool.false_and, Bool.true_and, if_true, if_false,
    Bool.false_eq_true, Bool.not_true, Bool.not_false] <;>
  exact ⟨_, rfl, rfl, rfl, rfl, rfl, rfl, rfl, rfl, fun h => by first | rfl | exact absurd h (by decide),
    fun h => by first | exact ⟨rfl, rfl⟩ | exact absurd h (by simp)⟩

/-- `ŷ` of the iterate written back: the re-evaluated `ŷ(x̂)` when results are written without a valid
    `ŷ`, else the head's `ŷ`. -/
theorem exitBlock_final_yhat (P : Problem α) (pr : Params α) (s : St α D) (eps : α)
    (status : SolverStatus) (x0 y Sig errz0 : Vec α) :
    ∀ c, (exitBlock P pr s eps status x0 y Sig errz0).final = some c →
      (((exitBlock P pr s eps status x0 y Sig errz0).wrote && !s.yhatValid) = true →
        c.yhat = (P.psi s.curr.xhat).2) ∧
      (((exitBlock P pr s eps status x0 y Sig errz0).wrote && !s.yhatValid) = false →
        c.yhat = s.curr.yhat) := by
  unfold exitBlock
  simp only []
  cases hw : (status == .Converged || status == .Interrupted || pr.alwaysOverwrite) <;>
  cases he : s.yhatValid <;>
  simp only [Bool.and_true, Bool.and_false, Bool.false_and, Bool.true_and, if_true, if_false,
    Bool.false_eq_true, Bool.not_true, Bool.not_false] <;>
  intro c hc <;> injection hc with hc <;> subst hc <;>
  exact ⟨fun h => by first | rfl | exact absurd h (by decide), fun h => by first | rfl | exact absurd h (by decide)⟩

/-- Calls of a loop head together with its exit block: at most 4 — `ŷ(x̂)` is evaluated by the head or by
    the exit block, never by both. -/
theorem head_exit_ticks (P : Problem α) (pr : Params α) (stop : Nat → Bool) (oot : Bool) (s : St α D)
    (eps : α) (status : SolverStatus) (x0 y Sig errz0 : Vec α) :
    (exitBlock P pr (headStep P pr stop oot s).1 eps status x0 y Sig errz0).ticks ≤ s.tick + 4 := by
  have he := epsTicks_le pr.stopCrit
  unfold exitBlock headStep headYhatValid headEvalYhat
  simp only []
  cases hw : (status == .Converged || status == .Interrupted || pr.alwaysOverwrite) <;>
  cases hea : pr.eagerGradientEval <;> cases hr : headReadsYhat pr s.curr <;>
  simp only [Bool.and_true, Bool.and_false, Bool.false_and, Bool.true_and, if_true, if_false,
    Bool.false_eq_true, Bool.not_true, Bool.not_false, Bool.or_true, Bool.or_false, Bool.true_or,
    Bool.false_or] <;>
  split_ifs <;> simp only [] <;> omega

/-! ### One pass of the loop body -/

/-- The line search performed by `iterBody` (named so that statements can refer to its result). -/
def iterLs (P : Problem α) (dir : Direction D α) (pr : Params α) (stop : Nat → Bool) (s : St α D) :
    LS α D :=
  lineSearch P dir pr stop (directionStage dir s).2.2.1 (directionStage dir s).2.2.2.1 pr.lsFuel
    { curr := s.curr, next := { s.next with gamma := s.curr.gamma, L := s.curr.L },
      d := (directionStage dir s).1, tick := (directionStage dir s).2.1,
      tau := (directionStage dir s).2.2.2.1, tauPrev := -1, updInLs := pr.updateDirInCandidate,
      updated := false, dirRejected := true, lsBacktracks := 0, stepsizeBacktracks := 0,
      lbfgsRejected := 0 }

theorem directionStage_tick (dir : Direction D α) (s : St α D) :
    s.tick ≤ (directionStage dir s).2.1 ∧ (directionStage dir s).2.1 ≤ s.tick + 4 := by
  unfold directionStage
  simp only []
  split_ifs <;> constructor <;> simp only [] <;> omega

theorem updateStage_fields (P : Problem α) (dir : Direction D α) (pr : Params α) (ls : LS α D) :
    (updateStage P dir pr ls).1.x = ls.curr.x ∧ (updateStage P dir pr ls).1.psix = ls.curr.psix ∧
    (updateStage P dir pr ls).1.gradPsi = ls.curr.gradPsi ∧
    ls.tick ≤ (updateStage P dir pr ls).2.2.1 ∧ (updateStage P dir pr ls).2.2.1 ≤ ls.tick + 3 := by
  unfold updateStage
  simp only []
  split_ifs <;> refine ⟨rfl, rfl, rfl, ?_, ?_⟩ <;> simp only [] <;> omega

/-- Interrupted line search: `continue` — nothing of the iteration survives except the calls that
    were made; in particular `k`, the no-progress counter and the callback list are unchanged and
    the current iterate keeps its core (the candidate is discarded). -/
theorem iterBody_interrupted (P : Problem α) (dir : Direction D α) (pr : Params α)
    (stop : Nat → Bool) (s : St α D) (eps : α) (h : stop (iterLs P dir pr stop s).tick = true) :
    (iterBody P dir pr stop s eps).k = s.k ∧
    (iterBody P dir pr stop s eps).noProgress = s.noProgress ∧
    (iterBody P dir pr stop s eps).cbs = s.cbs ∧
    (iterBody P dir pr stop s eps).curr = (iterLs P dir pr stop s).curr ∧
    core (iterBody P dir pr stop s eps).curr = core s.curr ∧
    (iterBody P dir pr stop s eps).tick = (iterLs P dir pr stop s).tick := by
  have hc := (lineSearch_core P dir pr stop (directionStage dir s).2.2.1
    (directionStage dir s).2.2.2.1 pr.lsFuel
    { curr := s.curr, next := { s.next with gamma := s.curr.gamma, L := s.curr.L },
      d := (directionStage dir s).1, tick := (directionStage dir s).2.1,
      tau := (directionStage dir s).2.2.2.1, tauPrev := -1, updInLs := pr.updateDirInCandidate,
      updated := false, dirRejected := true, lsBacktracks := 0, stepsizeBacktracks := 0,
      lbfgsRejected := 0 }).1
  unfold iterLs at h
  unfold iterBody iterLs
  simp only []
  rw [if_pos h]
  exact ⟨rfl, rfl, rfl, rfl, hc, rfl⟩

/-- Completed iteration: `k` advances by one, the no-progress counter is updated with the
    "iterate unchanged" flag `xₖ == xₖ₊₁`, one callback is appended, the accepted candidate becomes
    the current iterate. -/
theorem iterBody_advanced (P : Problem α) (dir : Direction D α) (pr : Params α)
    (stop : Nat → Bool) (s : St α D) (eps : α) (h : stop (iterLs P dir pr stop s).tick = false) :
    (iterBody P dir pr stop s eps).k = s.k + 1 ∧
    (iterBody P dir pr stop s eps).noProgress =
      noProgressUpdate s.noProgress s.k pr.maxNoProgress
        ((iterLs P dir pr stop s).curr.x == (iterLs P dir pr stop s).next.x) ∧
    (iterBody P dir pr stop s eps).curr = (iterLs P dir pr stop s).next ∧
    (iterBody P dir pr stop s eps).next = (updateStage P dir pr (iterLs P dir pr stop s)).1 ∧
    (∃ cb : Callback α, (iterBody P dir pr stop s eps).cbs = cb :: s.cbs ∧ cb.k = s.k ∧
      cb.status = .Busy ∧ cb.it = (updateStage P dir pr (iterLs P dir pr stop s)).1 ∧
      cb.fbe = cb.it.fbe ∧ cb.tau = (iterLs P dir pr stop s).tau ∧ cb.eps = eps) ∧
    (iterBody P dir pr stop s eps).tick = (updateStage P dir pr (iterLs P dir pr stop s)).2.2.1 + 1 := by
  unfold iterLs at h
  unfold iterBody iterLs
  simp only []
  rw [if_neg (by rw [h]; decide)]
  exact ⟨rfl, rfl, rfl, rfl, ⟨_, rfl, rfl, rfl, rfl, rfl, rfl, rfl⟩, rfl⟩

/-- In a completed iteration the flag fed to the no-progress counter compares the `x` reported by
    this iteration's callback with the `x` of the new current iterate. -/
theorem iterBody_flag (P : Problem α) (dir : Direction D α) (pr : Params α)
    (stop : Nat → Bool) (s : St α D) (eps : α) (h : stop (iterLs P dir pr stop s).tick = false) :
    ((iterLs P dir pr stop s).curr.x == (iterLs P dir pr stop s).next.x) =
      ((iterBody P dir pr stop s eps).next.x == (iterBody P dir pr stop s eps).curr.x) ∧
    (iterBody P dir pr stop s eps).next.x = s.curr.x := by
  have ha := iterBody_advanced P dir pr stop s eps h
  have hu := updateStage_fields P dir pr (iterLs P dir pr stop s)
  have hc := (lineSearch_core P dir pr stop (directionStage dir s).2.2.1
    (directionStage dir s).2.2.2.1 pr.lsFuel
    { curr := s.curr, next := { s.next with gamma := s.curr.gamma, L := s.curr.L },
      d := (directionStage dir s).1, tick := (directionStage dir s).2.1,
      tau := (directionStage dir s).2.2.2.1, tauPrev := -1, updInLs := pr.updateDirInCandidate,
      updated := false, dirRejected := true, lsBacktracks := 0, stepsizeBacktracks := 0,
      lbfgsRejected := 0 }).1
  rw [ha.2.2.1, ha.2.2.2.1, hu.1]
  exact ⟨rfl, x_of_core hc⟩

/-- Tick bound for one pass of the body when the (monotone) flag becomes visible at `t₀`. -/
theorem iterBody_tick_bound (P : Problem α) (dir : Direction D α) (pr : Params α)
    (stop : Nat → Bool) (hm : StopMono stop) (t0 : Nat) (h0 : stop t0 = true)
    (s : St α D) (eps : α) (hs : s.tick < t0) :
    (iterBody P dir pr stop s eps).tick ≤ t0 + 3 := by
  have hd := directionStage_tick dir s
  have hl : (iterLs P dir pr stop s).tick ≤ t0 + 3 :=
    lineSearch_tick_bound P dir pr stop hm t0 h0 _ _ _ _ (by simp only []; omega)
  by_cases hst : stop (iterLs P dir pr stop s).tick = true
  · rw [(iterBody_interrupted P dir pr stop s eps hst).2.2.2.2.2]; exact hl
  · have hst' : stop (iterLs P dir pr stop s).tick = false := by simpa using hst
    have hlt := lt_of_not_stop hm h0 hst'
    have hu := updateStage_fields P dir pr (iterLs P dir pr stop s)
    rw [(iterBody_advanced P dir pr stop s eps hst').2.2.2.2.2]
    omega

theorem iterBody_tick_mono (P : Problem α) (dir : Direction D α) (pr : Params α)
    (stop : Nat → Bool) (s : St α D) (eps : α) : s.tick ≤ (iterBody P dir pr stop s eps).tick := by
  have hd := directionStage_tick dir s
  have hl := (lineSearch_core P dir pr stop (directionStage dir s).2.2.1
    (directionStage dir s).2.2.2.1 pr.lsFuel
    { curr := s.curr, next := { s.next with gamma := s.curr.gamma, L := s.curr.L },
      d := (directionStage dir s).1, tick := (directionStage dir s).2.1,
      tau := (directionStage dir s).2.2.2.1, tauPrev := -1, updInLs := pr.updateDirInCandidate,
      updated := false, dirRejected := true, lsBacktracks := 0, stepsizeBacktracks := 0,
      lbfgsRejected := 0 }).2
  have hl' : (directionStage dir s).2.1 ≤ (iterLs P dir pr stop s).tick := hl
  by_cases hst : stop (iterLs P dir pr stop s).tick = true
  · rw [(iterBody_interrupted P dir pr stop s eps hst).2.2.2.2.2]; omega
  · have hst' : stop (iterLs P dir pr stop s).tick = false := by simpa using hst
    have hu := updateStage_fields P dir pr (iterLs P dir pr stop s)
    rw [(iterBody_advanced P dir pr stop s eps hst').2.2.2.2.2]
    omega

/-! ### Initialisation -/

theorem initQub_ticks (P : Problem α) (pr : Params α) (stop : Nat → Bool) (f : Nat) (c : Iterate α)
    (t b : Nat) :
    (initQub P pr stop f c t b).2.1 + 2 * b = t + 2 * (initQub P pr stop f c t b).2.2.1 := by
  induction f generalizing c t b with
  | zero => simp [initQub]
  | succ f ih =>
    unfold initQub
    split_ifs
    · simp
    · have := ih (evalPsiHat P pr (evalProxGradStep P { c with gamma := c.gamma / 2, L := c.L * 2 }))
        (t + 2) (b + 1)
      omega
    · simp

theorem initQub_ticks0 (P : Problem α) (pr : Params α) (stop : Nat → Bool) (f : Nat) (c : Iterate α)
    (t : Nat) :
    (initQub P pr stop f c t 0).2.1 = t + 2 * (initQub P pr stop f c t 0).2.2.1 := by
  have := initQub_ticks P pr stop f c t 0; omega

/-- **Once the flag is visible the initial step-size loop makes no further call**: if the stop
    flag is visible when the loop tests its condition, the loop is left without touching anything. -/
theorem initQub_stop_id (P : Problem α) (pr : Params α) (stop : Nat → Bool) (f : Nat) (c : Iterate α)
    (t b : Nat) (h : stop t = true) : initQub P pr stop (f + 1) c t b = (c, t, b, false) := by
  unfold initQub; simp [h]

/-- With a monotone flag that is visible from tick `t₀` on, the initial step-size loop entered at
    tick `t` is left at tick `≤ max t (t₀ + 1)`: a pass (2 calls) is only started while the flag is
    invisible (tick `< t₀`). -/
theorem initQub_tick_bound (P : Problem α) (pr : Params α) (stop : Nat → Bool) (hm : StopMono stop)
    (t0 : Nat) (h0 : stop t0 = true) (f : Nat) (c : Iterate α) (t b : Nat) :
    (initQub P pr stop f c t b).2.1 ≤ max t (t0 + 1) := by
  induction f generalizing c t b with
  | zero => simp only [initQub]; omega
  | succ f ih =>
    unfold initQub
    by_cases hst : stop t
    · simp only [hst, if_true]; omega
    · simp only [hst, Bool.false_eq_true, if_false]
      have hlt := lt_of_not_stop hm h0 (by simpa using hst)
      split_ifs
      · have := ih (evalPsiHat P pr (evalProxGradStep P { c with gamma := c.gamma / 2, L := c.L * 2 }))
          (t + 2) (b + 1)
        omega
      · simp only []; omega

/-- The initial step-size loop is left either because the flag is visible at that tick or because
    its own condition is false. -/
theorem initQub_exit (P : Problem α) (pr : Params α) (stop : Nat → Bool) (f : Nat) (c : Iterate α)
    (t b : Nat) (hf : (initQub P pr stop f c t b).2.2.2 = false)
    (hs : stop (initQub P pr stop f c t b).2.1 = false) :
    (decide ((initQub P pr stop f c t b).1.L < pr.Lmax) &&
      qubViolated pr (initQub P pr stop f c t b).1) = false := by
  induction f generalizing c t b with
  | zero => simp [initQub] at hf
  | succ f ih =>
    unfold initQub at hf hs ⊢
    split_ifs at hf hs ⊢ with h1 h2
    · simp only [] at hs; rw [h1] at hs; exact absurd hs (by decide)
    · exact ih _ _ _ hf hs
    · simpa using h2

/-- Calls made before the main loop: `2` (finite-difference Lipschitz estimate) or `1`
    (`ψ, ∇ψ` at `x₀`), `2` for the first proximal-gradient step, `2` per initial step-size backtrack. -/
theorem initState_ticks (P : Problem α) (d0 : D) (pr : Params α) (stop : Nat → Bool) (x0 gV : Vec α)
    (gS iS : α) :
    match initState P d0 pr stop x0 gV gS iS with
    | .inl t => t ≤ 2
    | .inr s => s.tick = (if pr.L0 ≤ 0 then 2 else 1) + 2 + 2 * s.stats.stepsizeBacktracks := by
  unfold initState
  simp only []
  split_ifs with h1 h2 h3 <;> simp only [stats0] <;>
    first
    | omega
    | (rw [initQub_ticks0])

/-! ### The run as a sequence of loop heads -/

/-- The state in front of the loop head at which the main loop exits (the argument itself if the
    model's fuel runs out first). -/
def lastHead (P : Problem α) (dir : Direction D α) (pr : Params α) (stop : Nat → Bool) (oot : Bool) :
    Nat → St α D → St α D
  | 0, s => s
  | fuel + 1, s =>
    if (headStep P pr stop oot s).2.2 != .Busy then s
    else lastHead P dir pr stop oot fuel
      (iterBody P dir pr stop (headStep P pr stop oot s).1 (headStep P pr stop oot s).2.1)

/-- The "iterate unchanged" flags `xₖ == xₖ₊₁` of the completed iterations of a run, in order. -/
def stepFlags (P : Problem α) (dir : Direction D α) (pr : Params α) (stop : Nat → Bool) (oot : Bool) :
    Nat → St α D → List Bool
  | 0, _ => []
  | fuel + 1, s =>
    if (headStep P pr stop oot s).2.2 != .Busy then []
    else
      let s' := iterBody P dir pr stop (headStep P pr stop oot s).1 (headStep P pr stop oot s).2.1
      (if s'.k = s.k + 1 then [s'.next.x == s'.curr.x] else []) ++
        stepFlags P dir pr stop oot fuel s'

/-- **The main loop returns through the exit block at its last head**, with the status and `ε`
    computed there. -/
theorem mainLoop_eq_exit (P : Problem α) (dir : Direction D α) (pr : Params α) (stop : Nat → Bool)
    (oot : Bool) (x0 y Sig errz0 : Vec α) (fuel : Nat) (s : St α D)
    (hr : (mainLoop P dir pr stop oot x0 y Sig errz0 fuel s).fuelOut = false) :
    (headStep P pr stop oot (lastHead P dir pr stop oot fuel s)).2.2 ≠ .Busy ∧
    mainLoop P dir pr stop oot x0 y Sig errz0 fuel s =
      exitBlock P pr (headStep P pr stop oot (lastHead P dir pr stop oot fuel s)).1
        (headStep P pr stop oot (lastHead P dir pr stop oot fuel s)).2.1
        (headStep P pr stop oot (lastHead P dir pr stop oot fuel s)).2.2 x0 y Sig errz0 := by
  induction fuel generalizing s with
  | zero => simp [mainLoop] at hr
  | succ f ih =>
    unfold mainLoop at hr ⊢
    unfold lastHead
    simp only [] at hr ⊢
    split_ifs at hr ⊢ with hb
    · exact ⟨by simpa using hb, rfl⟩
    · exact ih _ hr

end Alpaqa.Panoc
