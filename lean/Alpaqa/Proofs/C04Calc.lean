/-
  C04 helper lemmas: the generated `calc_ŷ_dᵀŷ` equals the closed forms, on both branches.
-/
import Alpaqa.Proofs.C04Vec

namespace Alpaqa.C04
open Alpaqa Alpaqa.Gen.C04
set_option linter.unusedSectionVars false

variable {α : Type} [Field α] [LinearOrder α] [IsStrictOrderedRing α]

theorem length_zetaV (g y Sig : Vec α) : (zetaV g y Sig).length = y.length := by simp [zetaV]

theorem length_yhatSpec (pd : Vec α → Vec α) (g y Sig : Vec α) :
    (yhatSpec pd g y Sig).length = y.length := by simp [yhatSpec]

/-- scalar branch: `g + (1/σ)·y` is `ζ`. -/
theorem zeta_scalar (g y Sig : Vec α) (m : Nat) (hg : g.length = m) (hy : y.length = m)
    (hS : Sig.length = 1) :
    vadd g (smul ((1 : α) / vget Sig 0) y) = zetaV g y Sig := by
  apply vec_ext
  · simp [zetaV, hg, hy]
  · intro i hi
    have hi' : i < m := by simpa [hg, hy] using hi
    rw [vget_vadd _ _ _ (by omega) (by simp; omega), vget_smul _ _ _ (by omega)]
    unfold zetaV
    rw [vget_map_range _ _ _ (by omega)]
    unfold zetaAt sigmaAt
    simp only [hS, beq_self_eq_true, if_true]
    rw [one_div, div_eq_inv_mul]

/-- vector branch: `g + y ⊘ Σ` is `ζ`. -/
theorem zeta_vector (g y Sig : Vec α) (m : Nat) (hg : g.length = m) (hy : y.length = m)
    (hS : Sig.length = m) (h1 : Sig.length ≠ 1) :
    vadd g (vdiv y Sig) = zetaV g y Sig := by
  apply vec_ext
  · simp [zetaV, hg, hy, hS]
  · intro i hi
    have hi' : i < m := by simpa [hg, hy, hS] using hi
    rw [vget_vadd _ _ _ (by omega) (by simp; omega), vget_vdiv _ _ _ (by omega) (by omega)]
    unfold zetaV
    rw [vget_map_range _ _ _ (by omega)]
    unfold zetaAt sigmaAt
    have : (Sig.length == 1) = false := by simpa using h1
    simp only [this, Bool.false_eq_true, if_false]

/-- `calc_ŷ_dᵀŷ` returns `(dᵀŷ, ŷ) = (Σ_i d_i Σ_i d_i, Σ ⊙ d)`, `d = pd(g + Σ⁻¹y)`, on both
    branches (`Σ.size() == 1` and the vector branch), for every projection-difference oracle that
    preserves the length. -/
theorem calc_closed (vt : VTable α) (g y Sig : Vec α) (m : Nat) (hg : g.length = m)
    (hy : y.length = m) (hS : Sig.length = 1 ∨ Sig.length = m)
    (hpd : ∀ z : Vec α, z.length = m → (vt.eval_proj_diff_g z).length = m) :
    calc_yhat_dTyhat vt g y Sig
      = (dsqSpec vt.eval_proj_diff_g g y Sig, yhatSpec vt.eval_proj_diff_g g y Sig) := by
  unfold calc_yhat_dTyhat
  by_cases h1 : Sig.length = 1
  · -- `Σ.size() == 1`
    have hb : (Sig.length == 1) = true := by simpa using h1
    simp only [hb, if_true]
    rw [zeta_scalar g y Sig m hg hy h1]
    have hd : (vt.eval_proj_diff_g (zetaV g y Sig)).length = m :=
      hpd _ (by rw [length_zetaV, hy])
    have hsig : ∀ i, sigmaAt Sig i = vget Sig 0 := by
      intro i; unfold sigmaAt; simp [hb]
    congr 1
    · unfold dsqSpec
      simp only []
      rw [dot_self_eq, mul_sumL_map, hd, hy]
      apply sumL_map_congr
      intro i _; rw [hsig]; ring
    · unfold yhatSpec
      simp only []
      apply vec_ext
      · simp [hd, hy]
      · intro i hi
        have hi' : i < m := by simpa [hd] using hi
        rw [vget_smul _ _ _ (by omega), vget_map_range _ _ _ (by omega), hsig]
  · -- vector branch
    have hSm : Sig.length = m := by rcases hS with h | h; exact absurd h h1; exact h
    have hb : (Sig.length == 1) = false := by simpa using h1
    simp only [hb, Bool.false_eq_true, if_false]
    rw [zeta_vector g y Sig m hg hy hSm h1]
    have hd : (vt.eval_proj_diff_g (zetaV g y Sig)).length = m :=
      hpd _ (by rw [length_zetaV, hy])
    have hsig : ∀ i, sigmaAt Sig i = vget Sig i := by
      intro i; unfold sigmaAt; simp [hb]
    have hloop := forRange_accum_set m (vt.eval_proj_diff_g (zetaV g y Sig)) hd (0 : α)
      (fun acc i t => acc + t * vget Sig i * t) (fun i t => vget Sig i * t)
    rw [hy]
    rw [hloop]
    congr 1
    · unfold dsqSpec
      simp only []
      rw [foldl_range_eq_sumL, hy]
      apply sumL_map_congr
      intro i _; rw [hsig]
    · unfold yhatSpec
      simp only []
      rw [hy]
      apply List.map_congr_left
      intro i _; rw [hsig]

/-- the scalar-penalty shortcut agrees with the vector code at constant `Σ`. -/
theorem calc_scalar_eq_vector (vt : VTable α) (g y : Vec α) (σ : α) (hg : g.length = y.length)
    (hpd : ∀ z : Vec α, z.length = y.length → (vt.eval_proj_diff_g z).length = y.length) :
    calc_yhat_dTyhat vt g y [σ] = calc_yhat_dTyhat vt g y (List.replicate y.length σ) := by
  rw [calc_closed vt g y [σ] y.length hg rfl (Or.inl rfl) hpd,
      calc_closed vt g y (List.replicate y.length σ) y.length hg rfl (Or.inr (by simp)) hpd]
  have hsig : ∀ i, i < y.length → sigmaAt [σ] i = sigmaAt (List.replicate y.length σ) i := by
    intro i hi
    unfold sigmaAt
    simp only [List.length_cons, List.length_nil, List.length_replicate]
    have h0 : vget [σ] 0 = σ := rfl
    have hr : vget (List.replicate y.length σ) i = σ := by
      rw [vget_lt _ _ (by simpa using hi)]; simp
    have hr0 : vget (List.replicate y.length σ) 0 = σ := by
      rw [vget_lt _ _ (by simp; omega)]; simp
    by_cases h1 : y.length = 1
    · simp [h1, h0]
    · have : (y.length == 1) = false := by simpa using h1
      simp [this, h0, hr]
  have hz : zetaV g y [σ] = zetaV g y (List.replicate y.length σ) := by
    unfold zetaV
    apply List.map_congr_left
    intro i hi
    unfold zetaAt
    rw [hsig i (List.mem_range.mp hi)]
  congr 1
  · unfold dsqSpec
    simp only []
    rw [hz]
    apply sumL_map_congr
    intro i hi; rw [hsig i (List.mem_range.mp hi)]
  · unfold yhatSpec
    simp only []
    rw [hz]
    apply List.map_congr_left
    intro i hi; rw [hsig i (List.mem_range.mp hi)]

end Alpaqa.C04
