/-
  Size and step-size invariant of the FISTA loop model (`Model/Fista.lean`), in the form the C01 inner
  contract needs (`Props/C01_Fista.lean`).

  In the C++ every vector of an `Iterate`, `prev_x̂`, `x`, `y`, `err_z` is an Eigen vector of fixed size
  (`n` or `m`) written in place; the list model sees sizes only through the length lemmas of the vector
  operations and a size contract of the oracles (`FistaProblemSized n m P`: called with `n`-vectors, the
  gradient oracles and the prox step return `n`-vectors, `eval_ψ` an `m`-vector `ŷ`).

  * `StSized n` — invariant at the top of every pass: `curr->x`, `curr->∇ψ`, `curr->x̂` have size `n`
    (`curr->x̂` because it is swapped into `prev_x̂`, which the extrapolation step reads: with the
    finite-difference Lipschitz estimate it holds the work vector `x₀ − h`, also of size `n`);
  * `run_exit_inv` — a solve either returns early (`NotFinite`, nothing written) or is the exit block at the
    loop head of a state satisfying `StSized n` with `γ > 0` (under `0 < Lγ_factor` and `FistaFuelOK`,
    which give `L > 0`); the FISTA model only ever calls its oracles at vectors of size `n`;
  * `run_sized` — the returned `x`, `y`, `err_z` have sizes `n`, `m`, `m` on a well-formed call, on every
    exit and in both step-size modes (for `y` through the exit contract `y = ŷ(x_out)` of
    `Props/C03_Fista`, which covers the late `eval_ψx̂` of the fixed-step mode).
  Nothing is assumed about the run.
-/
import Alpaqa.Props.C06_Fista

namespace Alpaqa.Fista
open Alpaqa Alpaqa.Gen Alpaqa.Props.C03_Fista Alpaqa.Props.C06_Fista
set_option linter.unusedSectionVars false
set_option linter.unusedVariables false

variable {α : Type} [Field α] [LinearOrder α] [IsStrictOrderedRing α] [RealLike α]

/-- Size contract of FISTA's problem oracles (`n` variables, `m` constraints). -/
structure FistaProblemSized (n m : Nat) (P : Problem α) : Prop where
  pgp_grad : ∀ x, x.length = n → (P.psiGradPsi x).2.1.length = n
  psi_yhat : ∀ x, x.length = n → (P.psi x).2.length = m
  gradPsi : ∀ x, x.length = n → (P.gradPsi x).length = n
  prox_xhat : ∀ γ x g, x.length = n → g.length = n → (P.prox γ x g).2.1.length = n
  prox_p : ∀ γ x g, x.length = n → g.length = n → (P.prox γ x g).2.2.length = n

/-- invariant at the top of a pass of the loop body -/
structure StSized (n : Nat) (s : St α) : Prop where
  x : s.curr.x.length = n
  g : s.curr.gradPsi.length = n
  xhat : s.curr.xhat.length = n

theorem fvadd_length (a b : Vec α) : (vadd a b).length = min a.length b.length := by simp [vadd, vzip]
theorem fvsub_length (a b : Vec α) : (vsub a b).length = min a.length b.length := by simp [vsub, vzip]
theorem fvdiv_length (a b : Vec α) : (vdiv a b).length = min a.length b.length := by simp [vdiv, vzip]
theorem fsmul_length (c : α) (a : Vec α) : (smul c a).length = a.length := by simp [smul]

/-- sizes after the prox / backtracking stage: the iterate the head reads, and `prev_x̂` -/
structure HeadSized (n : Nat) (s : St α) : Prop where
  x : s.curr.x.length = n
  g : s.curr.gradPsi.length = n
  xhat : s.curr.xhat.length = n
  p : s.curr.p.length = n
  prev : s.prev.length = n

theorem proxStage_sized {n m : Nat} {P : Problem α} (hP : FistaProblemSized n m P) (pr : Params α)
    (stop : Nat → Bool) (s : St α) (h : StSized n s) : HeadSized n (proxStage P pr stop s) := by
  have hk := proxStage_keeps P pr stop s
  have hg := (proxStage_good P pr stop s).1
  have hx : (proxStage P pr stop s).curr.x.length = n := by rw [hk.1]; exact h.x
  have hgr : (proxStage P pr stop s).curr.gradPsi.length = n := by rw [hk.2]; exact h.g
  refine ⟨hx, hgr, ?_, ?_, h.xhat⟩
  · rw [hg.2.1]; exact hP.prox_xhat _ _ _ hx hgr
  · rw [hg.2.2]; exact hP.prox_p _ _ _ hx hgr

theorem nextX_length (da : Bool) (tp t : α) (x xh pv : Vec α) (n : Nat) (hxh : xh.length = n)
    (hpv : pv.length = n) : (fista_nextX da tp t x xh pv).length = n := by
  unfold fista_nextX
  simp only []
  split_ifs
  · exact hxh
  · rw [fvadd_length, fsmul_length, fvsub_length, hxh, hpv]; simp

theorem advance_sized {n m : Nat} {P : Problem α} (hP : FistaProblemSized n m P) (pr : Params α)
    (s : St α) (eps : α) (hxh : s.curr.xhat.length = n) (hprev : s.prev.length = n) :
    StSized n (advance P pr s eps) := by
  have hx := nextX_length pr.disableAcceleration s.t (fista_tNext s.t) s.curr.x s.curr.xhat s.prev n hxh hprev
  unfold advance
  simp only []
  by_cases hf : fixedLip pr = true
  · rw [if_pos hf]; exact ⟨hx, hP.gradPsi _ hx, hxh⟩
  · rw [if_neg hf]; exact ⟨hx, hP.pgp_grad _ hx, hxh⟩

theorem initState_sized {n m : Nat} {P : Problem α} (hP : FistaProblemSized n m P) (pr : Params α)
    (x0 gV : Vec α) (nan : α) (hx0 : x0.length = n) (s : St α) (h : initState P pr x0 gV nan = .inr s) :
    StSized n s := by
  unfold initState at h
  simp only [] at h
  split_ifs at h
  injection h with h
  subst h
  unfold initIterate
  simp only []
  by_cases hf : fixedLip pr = true
  · rw [if_pos hf]; exact ⟨hx0, hP.gradPsi _ hx0, hx0⟩
  · rw [if_neg hf]
    by_cases h0 : pr.L0 ≤ 0
    · rw [if_pos h0]
      refine ⟨hx0, hP.pgp_grad _ hx0, ?_⟩
      show (initialLipschitz P pr x0).2.2.2.length = n
      unfold initialLipschitz
      simp only []
      rw [fvsub_length, List.length_map, hP.pgp_grad _ hx0, hx0]; simp
    · rw [if_neg h0]; exact ⟨hx0, hP.pgp_grad _ hx0, hx0⟩

theorem advance_gamma (P : Problem α) (pr : Params α) (s : St α) (eps : α) :
    (advance P pr s eps).curr.gamma = s.curr.gamma := by
  unfold advance; cases hf : fixedLip pr <;> simp [evalPsiGradPsi, evalGradPsi]

theorem initState_gamma_pos (P : Problem α) (pr : Params α) (hpos : 0 < pr.LgammaFactor) (nL : Nat)
    (hF : FistaFuelOK pr nL) (x0 gV : Vec α) (nan : α) (s : St α)
    (h : initState P pr x0 gV nan = .inr s) : 0 < s.curr.gamma := by
  have hlb := initIterate_lbound P pr x0 gV nan nL hF
  unfold initState at h
  simp only [] at h
  split_ifs at h
  injection h with h
  subst h
  show 0 < fista_gammaInit pr.LgammaFactor _
  unfold fista_gammaInit
  exact div_pos hpos hlb.1

/-- the written-back `x` is the `x̂` of the iterate at the last loop head (both step-size modes) -/
theorem exitBlock_x (P : Problem α) (pr : Params α) (s : St α) (eps : α) (status : SolverStatus)
    (x0 y Sig errz0 : Vec α) (hw : (exitBlock P pr s eps status x0 y Sig errz0).wrote = true) :
    (exitBlock P pr s eps status x0 y Sig errz0).x = s.curr.xhat := by
  unfold exitBlock at hw ⊢
  simp only [] at hw ⊢
  rw [if_pos hw]
  split_ifs <;> rfl

/-- **How a FISTA solve on an `n`-vector ends**: either with the early `NotFinite` return (nothing written),
    or with the exit block at the loop head of a state whose iterate is well-sized and has `γ > 0`. -/
theorem run_exit_inv {n m : Nat} {P : Problem α} (hP : FistaProblemSized n m P) (pr : Params α)
    (hpos : 0 < pr.LgammaFactor) (nL : Nat) (hF : FistaFuelOK pr nL) (stop : Nat → Bool) (oot : Bool)
    (x0 y Sig errz0 gV : Vec α) (nan inf : α) (hx0 : x0.length = n) :
    ((run P pr stop oot x0 y Sig errz0 gV nan inf).stats.status = .NotFinite ∧
      (run P pr stop oot x0 y Sig errz0 gV nan inf).wrote = false ∧
      (run P pr stop oot x0 y Sig errz0 gV nan inf).x = x0 ∧
      (run P pr stop oot x0 y Sig errz0 gV nan inf).y = y ∧
      (run P pr stop oot x0 y Sig errz0 gV nan inf).errz = errz0) ∨
    ∃ s : St α, StSized n s ∧ 0 < s.curr.gamma ∧
      run P pr stop oot x0 y Sig errz0 gV nan inf =
        exitBlock P pr (headStep P pr stop oot (proxStage P pr stop s)).1
          (headStep P pr stop oot (proxStage P pr stop s)).2.1
          (headStep P pr stop oot (proxStage P pr stop s)).2.2 x0 y Sig errz0 := by
  unfold run
  cases hi : initState P pr x0 gV nan with
  | inl t => left; exact ⟨rfl, rfl, rfl, rfl, rfl⟩
  | inr s0 =>
    right
    simp only []
    have hk := initState_k P pr x0 gV nan s0 hi
    obtain ⟨s, ⟨hs, hγ⟩, hr⟩ := mainLoop_endsAt_inv P pr stop oot x0 y Sig errz0
      (fun s => StSized n s ∧ 0 < s.curr.gamma)
      (fun s hs => by
        have hh := proxStage_sized hP pr stop s hs.1
        have hhc := headStep_curr P pr stop oot (proxStage P pr stop s)
        refine ⟨advance_sized hP pr _ _ (by rw [hhc.1]; exact hh.xhat)
          (by rw [hhc.2.2.2.2.2]; exact hh.prev), ?_⟩
        rw [advance_gamma, hhc.1]
        exact proxStage_gamma_pos P pr stop s hs.2)
      (pr.maxIter + 2) s0
      ⟨initState_sized hP pr x0 gV nan hx0 s0 hi, initState_gamma_pos P pr hpos nL hF x0 gV nan s0 hi⟩
      (by rw [hk.1]; omega) (by omega)
    exact ⟨s, hs, hγ, hr⟩

/-- **Sizes of what a FISTA solve returns** on a well-formed call: `x` of size `n`, `y` and `err_z` of size
    `m` — every exit, both step-size modes, both values of `always_overwrite_results`. -/
theorem run_sized {n m : Nat} {P : Problem α} (hP : FistaProblemSized n m P) (pr : Params α)
    (hpos : 0 < pr.LgammaFactor) (nL : Nat) (hF : FistaFuelOK pr nL) (stop : Nat → Bool) (oot : Bool)
    (x0 y Sig errz0 gV : Vec α) (nan inf : α) (hx0 : x0.length = n) (hy : y.length = m)
    (hS : Sig.length = m) (he : errz0.length = m) :
    (run P pr stop oot x0 y Sig errz0 gV nan inf).x.length = n ∧
    (run P pr stop oot x0 y Sig errz0 gV nan inf).y.length = m ∧
    (run P pr stop oot x0 y Sig errz0 gV nan inf).errz.length = m := by
  have hok := fista_exit_contract P pr stop oot x0 y Sig errz0 gV nan inf
  rcases run_exit_inv hP pr hpos nL hF stop oot x0 y Sig errz0 gV nan inf hx0 with h | ⟨s, hs, _, hr⟩
  · rw [h.2.2.1, h.2.2.2.1, h.2.2.2.2]; exact ⟨hx0, hy, he⟩
  · cases hw : (run P pr stop oot x0 y Sig errz0 gV nan inf).wrote
    · obtain ⟨h1, h2, h3⟩ := hok.2 hw
      rw [h1, h2, h3]; exact ⟨hx0, hy, he⟩
    · obtain ⟨_, h2, h3⟩ := hok.1 hw
      have hx : (run P pr stop oot x0 y Sig errz0 gV nan inf).x.length = n := by
        have hw' := hw
        rw [hr] at hw' ⊢
        rw [exitBlock_x P pr _ _ _ x0 y Sig errz0 hw', (headStep_curr P pr stop oot _).1]
        exact (proxStage_sized hP pr stop s hs).xhat
      have hyl : (run P pr stop oot x0 y Sig errz0 gV nan inf).y.length = m := by
        rw [h2]; exact hP.psi_yhat _ hx
      refine ⟨hx, hyl, ?_⟩
      rw [h3]
      split_ifs
      · rw [fvdiv_length, fvsub_length, hyl, hy, hS]; simp
      · exact he

end Alpaqa.Fista
