/-
  C18 helper lemmas (no property statements here; those are in `Props/C18.lean`):
  string splitting, recursion budgets of `addressed` / `setParam` / `parseDuration`.
-/
import Alpaqa.Model.C18

namespace Alpaqa.Proofs.C18
open Alpaqa.C18
set_option linter.unusedSectionVars false
set_option linter.unusedVariables false
set_option linter.unusedSimpArgs false

/-! ### Lists of characters -/

theorem length_dropWhile_le {α} (p : α → Bool) (l : List α) : (l.dropWhile p).length ≤ l.length := by
  induction l with
  | nil => simp
  | cons a l ih =>
    simp only [List.dropWhile_cons]
    split
    · simp only [List.length_cons]; omega
    · simp

theorem length_takeWhile_le {α} (p : α → Bool) (l : List α) : (l.takeWhile p).length ≤ l.length := by
  induction l with
  | nil => simp
  | cons a l ih =>
    simp only [List.takeWhile_cons]
    split
    · simp only [List.length_cons]; omega
    · simp

/-- `takeWhile` took something: `dropWhile` is strictly shorter. -/
theorem length_dropWhile_lt {α} (p : α → Bool) (l : List α) (h : (l.takeWhile p).isEmpty = false) :
    (l.dropWhile p).length < l.length := by
  cases l with
  | nil => simp at h
  | cons a l =>
    simp only [List.takeWhile_cons, List.dropWhile_cons] at h ⊢
    split
    · have := length_dropWhile_le p l
      simp only [List.length_cons]; omega
    · rename_i hp; simp [hp] at h

/-- If `takeWhile p` of `a ++ c :: rest` is exactly `a`, the next character `c` fails `p`. -/
theorem takeWhile_append_cons_eq {α} (p : α → Bool) (a : List α) (c : α) (rest : List α)
    (h : (a ++ c :: rest).takeWhile p = a) : p c = false := by
  induction a with
  | nil =>
    simp only [List.nil_append, List.takeWhile_cons] at h
    cases hp : p c with
    | false => rfl
    | true => simp [hp] at h
  | cons x a ih =>
    simp only [List.cons_append, List.takeWhile_cons] at h
    cases hp : p x with
    | false => simp [hp] at h
    | true =>
      simp only [hp, ↓reduceIte, List.cons.injEq, true_and] at h
      exact ih h

theorem takeWhile_takeWhile' {α} (p q : α → Bool) (l : List α) :
    (l.takeWhile p).takeWhile q = l.takeWhile (fun c => p c && q c) := by
  induction l with
  | nil => simp
  | cons a l ih =>
    simp only [List.takeWhile_cons]
    cases hp : p a <;> cases hq : q a <;> simp [hp, hq, ih]

/-- All elements satisfy `p`: `takeWhile` takes everything up to the first failing element. -/
theorem takeWhile_append_of_all {α} (p : α → Bool) (a b : List α) (h : ∀ x ∈ a, p x = true) :
    (a ++ b).takeWhile p = a ++ b.takeWhile p := by
  induction a with
  | nil => simp
  | cons x a ih =>
    have hx : p x = true := h x (by simp)
    simp only [List.cons_append, List.takeWhile_cons, hx, ↓reduceIte, List.cons.injEq, true_and]
    exact ih (fun y hy => h y (by simp [hy]))

theorem dropWhile_append_of_all {α} (p : α → Bool) (a b : List α) (h : ∀ x ∈ a, p x = true) :
    (a ++ b).dropWhile p = b.dropWhile p := by
  induction a with
  | nil => simp
  | cons x a ih =>
    have hx : p x = true := h x (by simp)
    simp only [List.cons_append, List.dropWhile_cons, hx, ↓reduceIte]
    exact ih (fun y hy => h y (by simp [hy]))

/-! ### `split_key` -/

theorem splitKey_nil (tok : Char) : splitKey [] tok = ([], []) := by simp [splitKey]

/-- The remainder of a non-empty key is strictly shorter than the key. -/
theorem splitKey_snd_length_lt (key : Str) (tok : Char) (h : key ≠ []) :
    (splitKey key tok).2.length < key.length := by
  cases key with
  | nil => exact absurd rfl h
  | cons c cs =>
    simp only [splitKey, List.dropWhile_cons]
    split
    · have := length_dropWhile_le (fun x => x != tok) cs
      simp only [List.length_drop, List.length_cons]; omega
    · simp

theorem splitKey_snd_length_le (key : Str) (tok : Char) :
    (splitKey key tok).2.length ≤ key.length := by
  have := length_dropWhile_le (fun x => x != tok) key
  simp only [splitKey, List.length_drop]; omega

/-- A key without the delimiter is its own first component. -/
theorem splitKey_of_not_mem (key : Str) (tok : Char) (h : tok ∉ key) : splitKey key tok = (key, []) := by
  have hall : ∀ x ∈ key, (x != tok) = true := by
    intro x hx
    simp only [bne_iff_ne, ne_eq]
    rintro rfl
    exact h hx
  have h1 := takeWhile_append_of_all (fun x => x != tok) key [] hall
  have h2 := dropWhile_append_of_all (fun x => x != tok) key [] hall
  simp only [List.append_nil, List.takeWhile_nil, List.dropWhile_nil] at h1 h2
  simp [splitKey, h1, h2]

/-- `a.b…`: the first component is `a` (no delimiter inside), the remainder is what follows. -/
theorem splitKey_append (a rest : Str) (tok : Char) (h : tok ∉ a) :
    splitKey (a ++ tok :: rest) tok = (a, rest) := by
  have hall : ∀ x ∈ a, (x != tok) = true := by
    intro x hx
    simp only [bne_iff_ne, ne_eq]
    rintro rfl
    exact h hx
  simp [splitKey, takeWhile_append_of_all _ a _ hall, dropWhile_append_of_all _ a _ hall]

/-! ### `vec` values: the `count(',') + 1` pieces -/

theorem count_eq_zero_of_takeWhile (s : Str) (tok : Char) (h : s.dropWhile (· != tok) = []) : tok ∉ s := by
  induction s with
  | nil => simp
  | cons c cs ih =>
    simp only [List.dropWhile_cons] at h
    split at h
    · rename_i hc
      simp only [bne_iff_ne, ne_eq] at hc
      simp only [List.mem_cons, not_or]
      exact ⟨fun e => hc e.symm, ih h⟩
    · simp at h

theorem dropWhile_ne_head (s : Str) (tok c : Char) (t : Str) (h : s.dropWhile (· != tok) = c :: t) : c = tok := by
  induction s with
  | nil => simp at h
  | cons x xs ih =>
    simp only [List.dropWhile_cons] at h
    split at h
    · exact ih h
    · rename_i hx
      simp only [List.cons.injEq] at h
      simp only [bne_iff_ne, ne_eq, Decidable.not_not] at hx
      rw [← h.1, hx]

theorem count_takeWhile_ne (s : Str) (tok : Char) : (s.takeWhile (· != tok)).count tok = 0 := by
  induction s with
  | nil => simp
  | cons x xs ih =>
    simp only [List.takeWhile_cons]
    split
    · rename_i hx
      simp only [bne_iff_ne, ne_eq] at hx
      rw [List.count_cons, ih]
      simp [hx]
    · simp

/-- `count(',') + 1` applications of `split_key(·, ',')` use up the whole value: joining the pieces
    with `,` gives the value back, and no piece contains a `,`. -/
theorem pieces_complete (n : Nat) : ∀ (s : Str), s.count ',' = n →
    List.intercalate [','] (pieces (n + 1) s) = s ∧ ∀ p ∈ pieces (n + 1) s, ',' ∉ p := by
  induction n with
  | zero =>
    intro s hs
    have hnot : ',' ∉ s := List.count_eq_zero.mp hs
    simp only [pieces, splitKey_of_not_mem s ',' hnot]
    simp [List.intercalate, hnot]
  | succ n ih =>
    intro s hs
    have hsplit := List.takeWhile_append_dropWhile (p := (· != ',')) (l := s)
    cases hd : s.dropWhile (· != ',') with
    | nil =>
      have := count_eq_zero_of_takeWhile s ',' hd
      rw [List.count_eq_zero.mpr this] at hs
      omega
    | cons c t =>
      have hc := dropWhile_ne_head s ',' c t hd
      subst hc
      rw [hd] at hsplit
      have hcnt : t.count ',' = n := by
        have := congrArg (List.count ',') hsplit
        rw [List.count_append, count_takeWhile_ne, List.count_cons_self, hs] at this
        omega
      obtain ⟨ih1, ih2⟩ := ih t hcnt
      have hp : pieces (n + 1 + 1) s = s.takeWhile (· != ',') :: pieces (n + 1) t := by
        simp only [pieces, splitKey, hd, List.drop_one, List.tail_cons]
      rw [hp]
      constructor
      · have : pieces (n + 1) t ≠ [] := by simp [pieces]
        cases hq : pieces (n + 1) t with
        | nil => exact absurd hq this
        | cons q qs =>
          rw [hq] at ih1
          simp only [List.intercalate, List.intersperse_cons_cons, List.flatten_cons] at ih1 ⊢
          rw [ih1]
          simpa using hsplit
      · intro p hp'
        simp only [List.mem_cons] at hp'
        rcases hp' with rfl | hp'
        · intro hmem
          have := count_takeWhile_ne s ','
          rw [List.count_eq_zero] at this
          exact this hmem
        · exact ih2 p hp'

/-! ### Recursion budget of the table dispatch -/

/-- No `PARAMS_TABLE` has the empty string as a key (a `PARAMS_MEMBER` needs an identifier). -/
def NoEmptyKey (env : Env) : Prop := ∀ name, env.find name [] = none

section dispatch
variable {R : Type} [Sub R] [Mul R] [Div R] [LT R] [DecidableLT R] [BEq R] [DurScalar R]
variable (env : Env) (cfg : DurCfg) (pr : Str → NumRes R)

theorem find_some_key_ne_nil (hne : NoEmptyKey env) (name : String) (key : Str) (e : Entry)
    (h : env.find name (splitKey key).1 = some e) : key ≠ [] := by
  rintro rfl
  rw [splitKey_nil, hne name] at h
  exact absurd h (by simp)

theorem addressed_fuel_aux (hne : NoEmptyKey env) (n : Nat) :
    ∀ (fuel : Nat) (k : Kind) (path : Path) (key : Str), key.length ≤ n → key.length < fuel →
      addressed env fuel k path key = addressed env (key.length + 1) k path key := by
  induction n with
  | zero =>
    intro fuel k path key hn hf
    cases fuel with
    | zero => omega
    | succ f =>
      have hk : key = [] := List.eq_nil_of_length_eq_zero (by omega)
      subst hk
      cases k <;> simp [addressed, splitKey_nil, hne _]
  | succ n ih =>
    intro fuel k path key hn hf
    cases fuel with
    | zero => omega
    | succ f =>
      cases k with
      | struct name =>
        simp only [addressed]
        cases hfind : env.find name (splitKey key).1 with
        | none => rfl
        | some e =>
          have hk := find_some_key_ne_nil env hne name key e hfind
          have hlt := splitKey_snd_length_lt key '.' hk
          simp only
          rw [ih f e.kind _ (splitKey key).2 (by omega) (by omega),
            ih key.length e.kind _ (splitKey key).2 (by omega) hlt]
      | _ => simp [addressed]

/-- Any budget above the key length gives the same dispatch. -/
theorem addressed_fuel (hne : NoEmptyKey env) (fuel : Nat) (k : Kind) (path : Path) (key : Str)
    (hf : key.length < fuel) :
    addressed env fuel k path key = addressed env (key.length + 1) k path key :=
  addressed_fuel_aux env hne key.length fuel k path key (Nat.le_refl _) hf

/-- Key that resolves to nothing: nothing written (any budget). -/
theorem setParam_unaddressed_store (fuel : Nat) (k : Kind) (path : Path) (key value : Str) (st : Store R)
    (h : addressed env fuel k path key = none) :
    (setParam env cfg pr fuel k path key value st).1 = st ∧
    (setParam env cfg pr fuel k path key value st).2 ≠ none := by
  induction fuel generalizing k path key with
  | zero => simp [setParam]
  | succ n ih =>
    cases k with
    | struct name =>
      simp only [addressed] at h
      simp only [setParam]
      cases hf : env.find name (splitKey key).1 with
      | none => simp
      | some e =>
        simp only [hf] at h ⊢
        exact ih _ _ _ h
    | _ => simp [addressed] at h

/-- Key that resolves to nothing, budget above the key length: `Invalid key`, nothing written. -/
theorem setParam_unaddressed (hne : NoEmptyKey env) (fuel : Nat) (k : Kind) (path : Path) (key value : Str)
    (st : Store R) (hf : key.length < fuel) (h : addressed env fuel k path key = none) :
    setParam env cfg pr fuel k path key value st = (st, some .invalidKey) := by
  induction fuel generalizing k path key with
  | zero => omega
  | succ n ih =>
    cases k with
    | struct name =>
      simp only [addressed] at h
      simp only [setParam]
      cases hfind : env.find name (splitKey key).1 with
      | none => rfl
      | some e =>
        simp only [hfind] at h ⊢
        have hk := find_some_key_ne_nil env hne name key e hfind
        have hlt := splitKey_snd_length_lt key '.' hk
        exact ih _ _ _ (by omega) h
    | _ => simp [addressed] at h

/-- When the key resolves through the tables to a leaf `p` of kind `lk` (remaining key `rem`),
    `set_param` is exactly the leaf setter applied at `p`. -/
theorem setParam_addressed (fuel : Nat) (k : Kind) (path : Path) (key value : Str) (st : Store R)
    (p : Path) (lk : Kind) (rem : Str) (h : addressed env fuel k path key = some (p, lk, rem)) :
    setParam env cfg pr fuel k path key value st = applyLeaf st p (setLeaf env cfg pr lk rem value) := by
  induction fuel generalizing k path key with
  | zero => simp [addressed] at h
  | succ n ih =>
    cases k with
    | struct name =>
      simp only [addressed] at h
      simp only [setParam]
      cases hf : env.find name (splitKey key).1 with
      | none => simp [hf] at h
      | some e =>
        simp only [hf] at h ⊢
        exact ih _ _ _ h
    | _ =>
      simp only [addressed, Option.some.injEq, Prod.mk.injEq] at h
      obtain ⟨rfl, rfl, rfl⟩ := h
      simp only [setParam]

theorem applyLeaf_err (st : Store R) (p : Path) (w : Option (Leaf R) × Option Err) :
    (applyLeaf st p w).2 = w.2 := by
  rcases w with ⟨_ | l, e⟩ <;> rfl

end dispatch

/-! ### Recursion budget of `parse_duration` -/

/-- Contract of `std::from_chars` ([charconv.from.chars]): on success the pattern matched is
    non-empty and `ptr` points just past it, so the unconsumed rest is strictly shorter than the
    input. -/
def FromCharsConsumes {R : Type} (pr : Str → NumRes R) : Prop :=
  ∀ s v rest, pr s = .ok v rest → rest.length < s.length

section dur
variable {R : Type} [Sub R] [Mul R] [Div R] [LT R] [DecidableLT R] [BEq R] [DurScalar R]
variable (env : Env) (cfg : DurCfg) (pr : Str → NumRes R)

theorem parseSingle_err (res : Nat) (acc : Int) (s : Str) (e : Err)
    (h : parseSingle cfg res pr acc s = .error e) : e = .durValue ∨ e = .durUnits := by
  unfold parseSingle at h
  simp only at h
  repeat' split at h
  all_goals first
    | (simp at h; done)
    | (simp only [Except.error.injEq] at h; subst h; simp)

/-- One `parse_single_duration` call on a non-empty string returns a strictly shorter string. -/
theorem parseSingle_rest_lt (hpr : FromCharsConsumes pr) (res : Nat) (acc a : Int) (s rest : Str)
    (hs : s ≠ []) (h : parseSingle cfg res pr acc s = .ok (a, rest)) : rest.length < s.length := by
  unfold parseSingle at h
  simp only at h
  split at h
  · simp only [Except.ok.injEq, Prod.mk.injEq] at h
    rw [← h.2]
    cases s with
    | nil => exact absurd rfl hs
    | cons c cs => simp
  · split at h
    · simp at h
    · simp at h
    · rename_i v r hv
      have h1 := hpr _ v r hv
      have h2 := length_dropWhile_le (fun c => cfg.trim.contains c) s
      split at h
      · simp at h
      · split at h
        · simp at h
        · simp only [Except.ok.injEq, Prod.mk.injEq] at h
          rw [← h.2]
          have h3 := length_dropWhile_le (fun c => !cfg.stop.contains c) r
          omega

theorem parseDuration_nil (res fuel : Nat) (acc : Int) :
    parseDuration cfg res pr fuel acc [] = (acc, none) := by
  cases fuel <;> rfl

theorem parseDuration_fuel_aux (hpr : FromCharsConsumes pr) (res : Nat) (n : Nat) :
    ∀ (fuel : Nat) (acc : Int) (s : Str), s.length ≤ n → s.length ≤ fuel →
      parseDuration cfg res pr fuel acc s = parseDuration cfg res pr s.length acc s := by
  induction n with
  | zero =>
    intro fuel acc s hn hf
    have hs : s = [] := List.eq_nil_of_length_eq_zero (by omega)
    subst hs
    simp [parseDuration_nil]
  | succ n ih =>
    intro fuel acc s hn hf
    cases s with
    | nil => simp [parseDuration_nil]
    | cons c cs =>
      cases fuel with
      | zero => simp at hf
      | succ f =>
        simp only [List.length_cons, parseDuration]
        cases hps : parseSingle cfg res pr acc (c :: cs) with
        | error e => rfl
        | ok r =>
          obtain ⟨a, rest⟩ := r
          have hlt := parseSingle_rest_lt cfg pr hpr res acc a (c :: cs) rest (by simp) hps
          simp only [List.length_cons] at hlt hn hf
          simp only
          rw [ih f a rest (by omega) (by omega), ih cs.length a rest (by omega) (by omega)]

/-- Any budget ≥ the string length gives the same `parse_duration` result. -/
theorem parseDuration_fuel (hpr : FromCharsConsumes pr) (res fuel : Nat) (acc : Int) (s : Str)
    (hf : s.length ≤ fuel) :
    parseDuration cfg res pr fuel acc s = parseDuration cfg res pr s.length acc s :=
  parseDuration_fuel_aux cfg pr hpr res s.length fuel acc s (Nat.le_refl _) hf

/-- Errors of `parse_duration` under a sufficient budget: never `fuel`. -/
theorem parseDuration_err_aux (hpr : FromCharsConsumes pr) (res fuel : Nat) (acc : Int) (s : Str) (e : Err)
    (hf : s.length ≤ fuel) (h : (parseDuration cfg res pr fuel acc s).2 = some e) :
    e = .durValue ∨ e = .durUnits := by
  induction fuel generalizing acc s with
  | zero =>
    have hs : s = [] := List.eq_nil_of_length_eq_zero (by omega)
    subst hs
    simp [parseDuration] at h
  | succ n ih =>
    cases s with
    | nil => simp [parseDuration] at h
    | cons c cs =>
      simp only [parseDuration] at h
      cases hs : parseSingle cfg res pr acc (c :: cs) with
      | error e' =>
        simp only [hs, Option.some.injEq] at h
        subst h
        exact parseSingle_err cfg pr res acc _ _ hs
      | ok r =>
        obtain ⟨a, rest⟩ := r
        simp only [hs] at h
        have hlt := parseSingle_rest_lt cfg pr hpr res acc a (c :: cs) rest (by simp) hs
        simp only [List.length_cons] at hlt hf
        exact ih a rest (by omega) h

end dur

end Alpaqa.Proofs.C18
