/-
  Invariants of the PANOC line search over a linearly ordered field (real-number semantics of
  the program text), used by `Props/C05.lean`:

  * the step size of the candidate is positive, never larger than the current one and keeps
    `γ·L = Lγ_factor` (every update is `γ/2, L·2`);
  * a candidate produced by the safeguarded step (`τ = 0`) sits at `x̂ₖ` with `ψ = ψ(x̂ₖ)`;
  * a line search that ends through `break` leaves a candidate that passed the generated
    acceptance tests (`panoc_linesearchViolated`, `panoc_qubViolated`) and carries a consistent
    proximal-gradient step.

  All for arbitrary problem oracles, direction providers and stop schedules.
-/
import Mathlib.Tactic.NormNum.OfScientific
import Alpaqa.Proofs.Basic
import Alpaqa.Proofs.PanocLoop

namespace Alpaqa.Panoc
open Alpaqa Alpaqa.Gen
set_option linter.unusedSectionVars false
set_option linter.unusedVariables false

variable {α D : Type} [Field α] [LinearOrder α] [IsStrictOrderedRing α] [RealLike α]

/-- `γ > 0`, `L > 0`, `γ·L = Lγ_factor`. -/
def GammaOK (pr : Params α) (i : Iterate α) : Prop :=
  0 < i.gamma ∧ 0 < i.L ∧ i.gamma * i.L = pr.LgammaFactor

/-- The iterate passed the quadratic upper bound test, or its `L` reached `L_max`. -/
def QubOK (pr : Params α) (i : Iterate α) : Prop := qubViolated pr i = false ∨ pr.Lmax ≤ i.L

/-- The iterate carries the prox oracle's answer at its own `(γ, x, ∇ψ)` together with the two
    inner products computed from it. -/
def StepCons (P : Problem α) (i : Iterate α) : Prop :=
  ProxCons P i ∧ i.pTp = sqNorm i.p ∧ i.gradPsiTp = dot i.p i.gradPsi

theorem GammaOK_of_core (pr : Params α) {a b : Iterate α} (h : core a = core b) (hb : GammaOK pr b) :
    GammaOK pr a := by
  unfold GammaOK at *; rw [gamma_of_core h, L_of_core h]; exact hb

theorem QubOK_of_core (pr : Params α) {a b : Iterate α} (h : core a = core b) (hb : QubOK pr b) :
    QubOK pr a := by
  unfold QubOK at *; rw [qubViolated_of_core pr h, L_of_core h]; exact hb

theorem StepCons_of_core (P : Problem α) {a b : Iterate α} (h : core a = core b) (hb : StepCons P b) :
    StepCons P a := by
  unfold StepCons ProxCons at *
  rw [hxhat_of_core h, xhat_of_core h, p_of_core h, gamma_of_core h, x_of_core h, gradPsi_of_core h,
    pTp_of_core h, gradPsiTp_of_core h]
  exact hb

theorem stepCons_evalStep (P : Problem α) (pr : Params α) (i : Iterate α) :
    StepCons P (evalPsiHat P pr (evalProxGradStep P i)) := by
  unfold StepCons ProxCons evalPsiHat evalProxGradStep
  by_cases h : pr.eagerGradientEval <;> simp [h]

theorem evalStep_fields (P : Problem α) (pr : Params α) (i : Iterate α) :
    (evalPsiHat P pr (evalProxGradStep P i)).gamma = i.gamma ∧
    (evalPsiHat P pr (evalProxGradStep P i)).L = i.L ∧
    (evalPsiHat P pr (evalProxGradStep P i)).x = i.x ∧
    (evalPsiHat P pr (evalProxGradStep P i)).psix = i.psix := by
  unfold evalPsiHat evalProxGradStep
  by_cases h : pr.eagerGradientEval <;> simp [h]

theorem evalProx_fields (P : Problem α) (i : Iterate α) :
    (evalProxGradStep P i).gamma = i.gamma ∧ (evalProxGradStep P i).L = i.L ∧
    (evalProxGradStep P i).x = i.x ∧ (evalProxGradStep P i).psix = i.psix ∧
    (evalProxGradStep P i).psixhat = i.psixhat ∧ (evalProxGradStep P i).gradPsi = i.gradPsi :=
  ⟨rfl, rfl, rfl, rfl, rfl, rfl⟩

/-! ### Line-search invariant -/

/-- Invariant of the line-search state relative to the iterate `c0` that was current when the
    line search started. -/
structure LSInv (pr : Params α) (c0 : Iterate α) (s : LS α D) : Prop where
  core_eq : core s.curr = core c0
  gok : GammaOK pr s.next
  gle : s.next.gamma ≤ c0.gamma
  safe : s.tauPrev = 0 → s.next.x = c0.xhat ∧ s.next.psix = c0.psixhat
  tau_nonneg : 0 ≤ s.tau
  fuel : s.fuelOut = false

/-- What a line search that ended through `break` guarantees. -/
structure LSDone (P : Problem α) (pr : Params α) (c0 : Iterate α) (s : LS α D) : Prop where
  inv : LSInv pr c0 s
  prev : s.tauPrev = s.tau
  ls_ok : ¬ (0 < s.tau ∧ linesearchViolated pr s.curr s.next = true)
  qub_ok : QubOK pr s.next
  step : StepCons P s.next
  good : Good P pr s.next

theorem lsRecompute_prev (P : Problem α) (q : Vec α) (s : LS α D) :
    (lsRecompute P q s).tauPrev = (lsRecompute P q s).tau ∧ (lsRecompute P q s).tau = s.tau := by
  unfold lsRecompute
  split_ifs with h1 h2
  · exact ⟨rfl, rfl⟩
  · exact ⟨rfl, rfl⟩
  · have : s.tau = s.tauPrev := by simpa using h1
    exact ⟨this.symm, rfl⟩

theorem lsRecompute_next (P : Problem α) (q : Vec α) (s : LS α D) :
    (lsRecompute P q s).next.gamma = s.next.gamma ∧ (lsRecompute P q s).next.L = s.next.L ∧
    (lsRecompute P q s).fuelOut = s.fuelOut ∧
    ((lsRecompute P q s).tau = 0 →
      ((s.tauPrev = 0 → s.next.x = s.curr.xhat ∧ s.next.psix = s.curr.psixhat) →
        (lsRecompute P q s).next.x = s.curr.xhat ∧ (lsRecompute P q s).next.psix = s.curr.psixhat)) := by
  unfold lsRecompute
  split_ifs with h1 h2
  · refine ⟨rfl, rfl, rfl, fun h0 => ?_⟩
    exact absurd h0 (by simpa using h2)
  · refine ⟨?_, ?_, rfl, fun _ _ => ?_⟩
    · unfold takeSafeStep; split_ifs <;> rfl
    · unfold takeSafeStep; split_ifs <;> rfl
    · unfold takeSafeStep; split_ifs <;> exact ⟨rfl, rfl⟩
  · have e : s.tau = s.tauPrev := by simpa using h1
    exact ⟨rfl, rfl, rfl, fun h0 hs => hs (by rw [← e]; exact h0)⟩

theorem lsUpdateInCandidate_tau (dir : Direction D α) (s : LS α D) :
    (lsUpdateInCandidate dir s).tau = s.tau ∧ (lsUpdateInCandidate dir s).tauPrev = s.tauPrev := by
  unfold lsUpdateInCandidate
  split_ifs <;> exact ⟨rfl, rfl⟩

theorem half_pos_mul {γ L F : α} (hγ : 0 < γ) (hL : 0 < L) (h : γ * L = F) :
    0 < γ / 2 ∧ 0 < L * 2 ∧ γ / 2 * (L * 2) = F ∧ γ / 2 ≤ γ := by
  refine ⟨by positivity, by positivity, ?_, by linarith⟩
  rw [← h]; ring

/-- One pass of the line-search body preserves the invariant; a `break` gives `LSDone`. -/
theorem lsPass_inv (P : Problem α) (dir : Direction D α) (pr : Params α) (q : Vec α) (tauInit : α)
    (c0 : Iterate α) (hc0 : GammaOK pr c0) (hti : 0 ≤ tauInit) (hmin : 0 ≤ pr.minLsCoef)
    (s : LS α D) (h : LSInv pr c0 s) :
    match lsPass P dir pr q tauInit s with
    | .done s' => LSDone P pr c0 s'
    | .again s' => LSInv pr c0 s' := by
  have hcore := lsRecompute_core P q s
  have hprev := lsRecompute_prev P q s
  have hnext := lsRecompute_next P q s
  have hcx : s.curr.xhat = c0.xhat := xhat_of_core h.core_eq
  have hcp : s.curr.psixhat = c0.psixhat := psixhat_of_core h.core_eq
  have hsafe1 : (lsRecompute P q s).tauPrev = 0 →
      (lsRecompute P q s).next.x = c0.xhat ∧ (lsRecompute P q s).next.psix = c0.psixhat := by
    intro h0
    rw [← hcx, ← hcp]
    exact hnext.2.2.2 (by rw [← hprev.1]; exact h0) (by rw [hcx, hcp]; exact h.safe)
  have hg1 : GammaOK pr (lsRecompute P q s).next := by
    unfold GammaOK; rw [hnext.1, hnext.2.1]; exact h.gok
  have hgle1 : (lsRecompute P q s).next.gamma ≤ c0.gamma := by rw [hnext.1]; exact h.gle
  have htau1 : 0 ≤ (lsRecompute P q s).tau := by rw [hprev.2]; exact h.tau_nonneg
  have hfuel1 : (lsRecompute P q s).fuelOut = false := by rw [hnext.2.2.1]; exact h.fuel
  have hcc : core (lsRecompute P q s).curr = core c0 := hcore.trans h.core_eq
  have hes := evalStep_fields P pr (lsRecompute P q s).next
  have hg2 : GammaOK pr (evalPsiHat P pr (evalProxGradStep P (lsRecompute P q s).next)) := by
    unfold GammaOK; rw [hes.1, hes.2.1]; exact hg1
  have hhalf := half_pos_mul hg1.1 hg1.2.1 hg1.2.2
  unfold lsPass
  simp only []
  split_ifs with hfail hqub htq hls hmc
  · -- direction abandoned: τ := 0, next takes curr's step size
    have htpos : 0 < (lsRecompute P q s).tau := by
      simp only [Bool.and_eq_true, decide_eq_true_eq] at hfail; exact hfail.1
    refine ⟨hcc, ?_, ?_, ?_, le_refl _, hfuel1⟩
    · show GammaOK pr _
      unfold GammaOK
      simp only []
      rw [gamma_of_core hcc, L_of_core hcc]; exact hc0
    · show (lsRecompute P q s).curr.gamma ≤ c0.gamma
      rw [gamma_of_core hcc]
    · intro h0
      have : (lsRecompute P q s).tauPrev = 0 := h0
      rw [hprev.1] at this; exact absurd this (ne_of_gt htpos)
  · -- step size halved, τ reset to τ_init
    refine ⟨hcc, ?_, ?_, ?_, ?_, hfuel1⟩
    · show GammaOK pr _
      unfold GammaOK; simp only []
      rw [hes.1, hes.2.1]; exact ⟨hhalf.1, hhalf.2.1, hhalf.2.2.1⟩
    · show _ / 2 ≤ c0.gamma
      rw [hes.1]; exact le_trans hhalf.2.2.2 hgle1
    · intro h0
      show _ = c0.xhat ∧ _ = c0.psixhat
      simp only []
      rw [hes.2.2.1, hes.2.2.2]; exact hsafe1 h0
    · exact hti
  · refine ⟨hcc, ?_, ?_, ?_, ?_, hfuel1⟩
    · show GammaOK pr _
      unfold GammaOK; simp only []
      rw [hes.1, hes.2.1]; exact ⟨hhalf.1, hhalf.2.1, hhalf.2.2.1⟩
    · show _ / 2 ≤ c0.gamma
      rw [hes.1]; exact le_trans hhalf.2.2.2 hgle1
    · intro h0
      show _ = c0.xhat ∧ _ = c0.psixhat
      simp only []
      rw [hes.2.2.1, hes.2.2.2]; exact hsafe1 h0
    · exact htau1
  · -- line-search condition violated, τ := 0 (below the minimum coefficient)
    have hsame := lsUpdateInCandidate_same dir
      { lsRecompute P q s with
        next := evalPsiHat P pr (evalProxGradStep P (lsRecompute P q s).next),
        tick := (lsRecompute P q s).tick + 2 }
    have hupd := lsUpdateInCandidate_tau dir
      { lsRecompute P q s with
        next := evalPsiHat P pr (evalProxGradStep P (lsRecompute P q s).next),
        tick := (lsRecompute P q s).tick + 2 }
    have htpos : 0 < (lsRecompute P q s).tau := by
      simp only [Bool.and_eq_true, decide_eq_true_eq] at hls; rw [hupd.1] at hls; exact hls.1
    refine ⟨by rw [show _ = core _ from congrArg core hsame.1]; exact hcc, ?_, ?_, ?_, le_refl _,
      by show _ = false; rw [hsame.2.2]; exact hfuel1⟩
    · show GammaOK pr _
      simp only []; rw [hsame.2.1]; exact hg2
    · show _ ≤ c0.gamma
      simp only []; rw [hsame.2.1, hes.1]; exact hgle1
    · intro h0
      have : (lsRecompute P q s).tauPrev = 0 := by rw [← hupd.2]; exact h0
      rw [hprev.1] at this; exact absurd this (ne_of_gt htpos)
  · -- line-search condition violated, τ := τ · factor
    have hsame := lsUpdateInCandidate_same dir
      { lsRecompute P q s with
        next := evalPsiHat P pr (evalProxGradStep P (lsRecompute P q s).next),
        tick := (lsRecompute P q s).tick + 2 }
    have hupd := lsUpdateInCandidate_tau dir
      { lsRecompute P q s with
        next := evalPsiHat P pr (evalProxGradStep P (lsRecompute P q s).next),
        tick := (lsRecompute P q s).tick + 2 }
    have htpos : 0 < (lsRecompute P q s).tau := by
      simp only [Bool.and_eq_true, decide_eq_true_eq] at hls; rw [hupd.1] at hls; exact hls.1
    refine ⟨by rw [show _ = core _ from congrArg core hsame.1]; exact hcc, ?_, ?_, ?_, ?_,
      by show _ = false; rw [hsame.2.2]; exact hfuel1⟩
    · show GammaOK pr _
      simp only []; rw [hsame.2.1]; exact hg2
    · show _ ≤ c0.gamma
      simp only []; rw [hsame.2.1, hes.1]; exact hgle1
    · intro h0
      have : (lsRecompute P q s).tauPrev = 0 := by rw [← hupd.2]; exact h0
      rw [hprev.1] at this; exact absurd this (ne_of_gt htpos)
    · show 0 ≤ _
      exact le_trans hmin (not_lt.mp hmc)
  · -- break
    have hsame := lsUpdateInCandidate_same dir
      { lsRecompute P q s with
        next := evalPsiHat P pr (evalProxGradStep P (lsRecompute P q s).next),
        tick := (lsRecompute P q s).tick + 2 }
    have hupd := lsUpdateInCandidate_tau dir
      { lsRecompute P q s with
        next := evalPsiHat P pr (evalProxGradStep P (lsRecompute P q s).next),
        tick := (lsRecompute P q s).tick + 2 }
    refine ⟨⟨by rw [show _ = core _ from congrArg core hsame.1]; exact hcc, ?_, ?_, ?_, ?_,
      by rw [hsame.2.2]; exact hfuel1⟩, ?_, ?_, ?_, ?_, ?_⟩
    · rw [hsame.2.1]; exact hg2
    · rw [hsame.2.1, hes.1]; exact hgle1
    · intro h0
      rw [hsame.2.1, hes.2.2.1, hes.2.2.2]
      exact hsafe1 (by rw [← hupd.2]; exact h0)
    · rw [hupd.1]; exact htau1
    · rw [hupd.1, hupd.2]; exact hprev.1
    · intro hh
      apply hls
      simp only [Bool.and_eq_true, decide_eq_true_eq]
      exact hh
    · unfold QubOK
      rw [hsame.2.1]
      by_cases hq : qubViolated pr (evalPsiHat P pr (evalProxGradStep P (lsRecompute P q s).next)) = true
      · right
        by_contra hlt
        apply hqub
        simp only [Bool.and_eq_true, decide_eq_true_eq]
        exact ⟨not_le.mp hlt, hq⟩
      · left; simpa using hq
    · rw [hsame.2.1]; exact stepCons_evalStep P pr _
    · rw [hsame.2.1]; exact good_evalStep P pr _

/-- The whole line search: if it was neither interrupted nor ran out of model fuel it ended through
    `break`. -/
theorem lineSearch_done (P : Problem α) (dir : Direction D α) (pr : Params α) (stop : Nat → Bool)
    (q : Vec α) (tauInit : α) (c0 : Iterate α) (hc0 : GammaOK pr c0) (hti : 0 ≤ tauInit)
    (hmin : 0 ≤ pr.minLsCoef) (f : Nat) (s : LS α D) (h : LSInv pr c0 s)
    (hf : (lineSearch P dir pr stop q tauInit f s).fuelOut = false)
    (hs : stop (lineSearch P dir pr stop q tauInit f s).tick = false) :
    LSDone P pr c0 (lineSearch P dir pr stop q tauInit f s) := by
  induction f generalizing s with
  | zero => simp [lineSearch] at hf
  | succ f ih =>
    unfold lineSearch at hf hs ⊢
    by_cases hst : stop s.tick
    · simp only [hst, if_true] at hs
      exact absurd hs (by decide)
    · simp only [hst, Bool.false_eq_true, if_false] at hf hs ⊢
      have hp := lsPass_inv P dir pr q tauInit c0 hc0 hti hmin s h
      cases hpass : lsPass P dir pr q tauInit s with
      | done s' => rw [hpass] at hp; exact hp
      | again s' =>
        rw [hpass] at hp hf hs
        exact ih s' hp hf hs

/-- Whatever way the line search ends, the candidate's step size is positive, at most the current
    one, and `γ·L = Lγ_factor`. -/
theorem lineSearch_inv (P : Problem α) (dir : Direction D α) (pr : Params α) (stop : Nat → Bool)
    (q : Vec α) (tauInit : α) (c0 : Iterate α) (hc0 : GammaOK pr c0) (hti : 0 ≤ tauInit)
    (hmin : 0 ≤ pr.minLsCoef) (f : Nat) (s : LS α D) (h : LSInv pr c0 s)
    (hf : (lineSearch P dir pr stop q tauInit f s).fuelOut = false) :
    LSInv pr c0 (lineSearch P dir pr stop q tauInit f s) := by
  induction f generalizing s with
  | zero => simp [lineSearch] at hf
  | succ f ih =>
    unfold lineSearch at hf ⊢
    by_cases hst : stop s.tick
    · simp only [hst, if_true]; exact h
    · simp only [hst, Bool.false_eq_true, if_false] at hf ⊢
      have hp := lsPass_inv P dir pr q tauInit c0 hc0 hti hmin s h
      cases hpass : lsPass P dir pr q tauInit s with
      | done s' => rw [hpass] at hp; exact hp.inv
      | again s' =>
        rw [hpass] at hp hf
        exact ih s' hp hf

/-! ### Direction stage: `τ_init ∈ {0, 1}` -/

theorem directionStage_tau (dir : Direction D α) (s : St α D) :
    (directionStage dir s).2.2.2.1 = 0 ∨ (directionStage dir s).2.2.2.1 = 1 := by
  unfold directionStage
  simp only []
  split_ifs <;> simp_all


/-! ### The line search inside one pass of the loop body -/

theorem iterLs_init_inv (dir : Direction D α) (pr : Params α) (s : St α D) (hg : GammaOK pr s.curr) :
    LSInv pr s.curr
      ({ curr := s.curr, next := { s.next with gamma := s.curr.gamma, L := s.curr.L },
         d := (directionStage dir s).1, tick := (directionStage dir s).2.1,
         tau := (directionStage dir s).2.2.2.1, tauPrev := -1, updInLs := pr.updateDirInCandidate,
         updated := false, dirRejected := true, lsBacktracks := 0, stepsizeBacktracks := 0,
         lbfgsRejected := 0 } : LS α D) := by
  refine ⟨rfl, hg, le_refl _, ?_, ?_, rfl⟩
  · intro h0
    have : (-1 : α) = 0 := h0
    exact absurd this (by norm_num)
  · show (0 : α) ≤ (directionStage dir s).2.2.2.1
    rcases directionStage_tau dir s with h | h <;> rw [h] <;> norm_num

theorem directionStage_tau_nonneg (dir : Direction D α) (s : St α D) :
    (0 : α) ≤ (directionStage dir s).2.2.2.1 := by
  rcases directionStage_tau dir s with h | h <;> rw [h] <;> norm_num

theorem iterLs_inv (P : Problem α) (dir : Direction D α) (pr : Params α) (stop : Nat → Bool)
    (s : St α D) (hg : GammaOK pr s.curr) (hmin : 0 ≤ pr.minLsCoef)
    (hf : (iterLs P dir pr stop s).fuelOut = false) : LSInv pr s.curr (iterLs P dir pr stop s) :=
  lineSearch_inv P dir pr stop _ _ s.curr hg (directionStage_tau_nonneg dir s) hmin _ _
    (iterLs_init_inv dir pr s hg) hf

theorem iterLs_done (P : Problem α) (dir : Direction D α) (pr : Params α) (stop : Nat → Bool)
    (s : St α D) (hg : GammaOK pr s.curr) (hmin : 0 ≤ pr.minLsCoef)
    (hf : (iterLs P dir pr stop s).fuelOut = false)
    (hs : stop (iterLs P dir pr stop s).tick = false) : LSDone P pr s.curr (iterLs P dir pr stop s) :=
  lineSearch_done P dir pr stop _ _ s.curr hg (directionStage_tau_nonneg dir s) hmin _ _
    (iterLs_init_inv dir pr s hg) hf hs

theorem iterBody_fuelOut (P : Problem α) (dir : Direction D α) (pr : Params α) (stop : Nat → Bool)
    (s : St α D) (eps : α) :
    (iterBody P dir pr stop s eps).fuelOut = (s.fuelOut || (iterLs P dir pr stop s).fuelOut) := by
  unfold iterBody iterLs
  simp only []
  split_ifs <;> rfl

/-- What the "Update L-BFGS" stage leaves as the iterate handed to the callback: the current
    iterate itself, or — only with `recompute_last_prox_step_after_stepsize_change` and a step size
    that changed during the line search — the current iterate with the candidate's `γ`, `L` and a
    re-evaluated proximal-gradient step (`ψ(x̂)` is *not* re-evaluated). -/
theorem updateStage_curr (P : Problem α) (dir : Direction D α) (pr : Params α) (ls : LS α D) :
    (updateStage P dir pr ls).1 = ls.curr ∨
    (pr.recomputeLastProx = true ∧ ls.curr.gamma ≠ ls.next.gamma ∧
      (updateStage P dir pr ls).1 =
        evalProxGradStep P { ls.curr with gamma := ls.next.gamma, L := ls.next.L }) := by
  cases hu : ls.updated
  · by_cases hg : ls.curr.gamma = ls.next.gamma
    · left; simp [updateStage, hu, hg]
    · cases hr : pr.recomputeLastProx
      · left; simp [updateStage, hu, hg, hr]
      · right; exact ⟨rfl, hg, by simp [updateStage, hu, hg, hr]⟩
  · left; simp [updateStage, hu]

/-! ### Vector identities used by the envelope inequality -/

theorem vsum_eq_sum' (l : List α) : vsum l = l.sum := by
  unfold vsum redux
  cases l with
  | nil => rfl
  | cons x xs =>
    have : ∀ (ys : List α) (a : α), ys.foldl (· + ·) a = a + ys.sum := by
      intro ys
      induction ys with
      | nil => intro a; simp
      | cons y ys ih => intro a; rw [List.foldl_cons, ih, List.sum_cons]; ring
    show List.foldl (· + ·) x xs = (x :: xs).sum
    rw [this, List.sum_cons]

theorem sqNorm_vsub_self (x : List α) : sqNorm (vsub x x) = 0 := by
  unfold sqNorm vsub vzip
  rw [vsum_eq_sum']
  induction x with
  | nil => simp
  | cons a as ih => simp_all

theorem dot_vsub_self (x g : List α) : dot (vsub x x) g = 0 := by
  unfold dot vmul vsub vzip
  rw [vsum_eq_sum']
  induction x generalizing g with
  | nil => simp
  | cons a as ih =>
    cases g with
    | nil => simp
    | cons b bs =>
      simp only [List.zipWith_cons_cons, List.sum_cons, sub_self, zero_mul, zero_add]
      exact ih bs

theorem sqNorm_nonneg' (x : List α) : 0 ≤ sqNorm x := by
  unfold sqNorm
  rw [vsum_eq_sum']
  induction x with
  | nil => simp
  | cons a as ih => simp only [List.map_cons, List.sum_cons]; nlinarith [mul_self_nonneg a]

end Alpaqa.Panoc
