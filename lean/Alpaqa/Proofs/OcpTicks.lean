/-
  PANOC-OCP loop model: an oracle-event bound after `stop()`.

  Ticks are the model's own units: one tick per problem call made by `forward` / `forward_simulate` /
  `backward` / the Gauss-Newton block (`Prob.fwdTicks`, `fsimTicks`, `bwdTicks`, `gnTicks` — the per-stage
  calls of ocp-vars / lqr), per masked-L-BFGS call (`apply_masked`, `update`, `reset`) and per progress
  callback.  The stop flag is polled at every loop head, before every pass of the line search, right after
  the line search, and before every pass of the initial step-size loop.  `Prob.pollGap` bounds the number
  of ticks between two consecutive polls:
    * head → first line-search poll: the direction, `≤ max gnTicks 2` (Gauss-Newton block, or
      `apply_masked` + `reset`);
    * one line-search pass: `≤ 2·fwdTicks + bwdTicks` (candidate roll-out + gradient, then ψ(û));
    * after the line search → next head: `≤ 3` (L-BFGS `reset`, `update`, progress callback).
  With a flag that is never lowered and visible from tick `t₀` on, the first poll that sees it happens at a
  tick `≤ t₀ − 1 + pollGap`; from there the solve makes exactly one more call (the final callback).
-/
import Alpaqa.Proofs.OcpLs
import Alpaqa.Proofs.OcpLoop

namespace Alpaqa.Ocp
open Alpaqa Alpaqa.Gen
set_option linter.unusedSectionVars false
set_option linter.unusedVariables false

variable {α D : Type} [Add α] [Sub α] [Mul α] [Div α] [Neg α] [LT α] [LE α] [DecidableLT α]
  [DecidableLE α] [BEq α] [RealLike α] [NatCast α] [OfScientific α]
  [OfNat α 0] [OfNat α 1] [OfNat α 2] [OfNat α 100]

/-- The stop flag is never lowered during a solve. -/
def StopMono (stop : Nat → Bool) : Prop := ∀ a b, a ≤ b → stop a = true → stop b = true

/-- ticks of one line-search pass, at most -/
def Prob.lsGap (P : Prob α) : Nat := 2 * P.fwdTicks + P.bwdTicks
/-- ticks between two consecutive polls of the stop flag, at most -/
def Prob.pollGap (P : Prob α) : Nat := max (max P.gnTicks 3) P.lsGap
/-- ticks before the first poll (initialisation with the finite-difference Lipschitz estimate, then
    `eval_prox` / `eval_forward_hat` of the initial iterate) -/
def Prob.initTicks (P : Prob α) : Nat := 4 + 2 * P.fwdTicks + 2 * P.bwdTicks + P.fsimTicks

theorem Prob.fwdTicks_pos (P : Prob α) : 1 ≤ P.fwdTicks := by unfold Prob.fwdTicks; omega

theorem lsRecompute_tick (O : Oracles α) (P : Prob α) (c : Iterate α) (q : Vec α) (dn : Bool)
    (s : LS α D) : (lsRecompute O P c q dn s).tick ≤ s.tick + P.fwdTicks + P.bwdTicks := by
  unfold lsRecompute
  split_ifs <;> (try simp only []) <;> omega

theorem lsPass_tick (O : Oracles α) (dir : Dir D α) (P : Prob α) (pr : Params α) (c : Iterate α)
    (q : Vec α) (tauInit : α) (dn : Bool) (s : LS α D) :
    match lsPass O dir P pr c q tauInit dn s with
    | .done s' => s'.tick ≤ s.tick + P.lsGap
    | .again s' => s'.tick ≤ s.tick + P.lsGap := by
  have h := lsRecompute_tick O P c q dn s
  have hf := P.fwdTicks_pos
  unfold lsPass Prob.lsGap
  simp only []
  split_ifs <;> (try simp only []) <;> omega

/-- With a flag that is never lowered and visible from tick `t₀` on, the line search entered at tick `t`
    is left at tick `≤ max t (t₀ + lsGap − 1)`: a pass is only started while the flag is invisible. -/
theorem lineSearch_tick_bound (O : Oracles α) (dir : Dir D α) (P : Prob α) (pr : Params α)
    (stop : Nat → Bool) (hm : StopMono stop) (t0 : Nat) (h0 : stop t0 = true)
    (c : Iterate α) (q : Vec α) (tauInit : α) (dn : Bool) (fuel : Nat) (s : LS α D) :
    (lineSearch O dir P pr stop c q tauInit dn fuel s).tick ≤ max s.tick (t0 + P.lsGap - 1) := by
  induction fuel generalizing s with
  | zero => simp only [lineSearch]; omega
  | succ f ih =>
    unfold lineSearch
    by_cases hst : stop s.tick = true
    · simp only [hst, if_true]; omega
    · simp only [hst, Bool.false_eq_true, if_false]
      have hlt : s.tick < t0 := by
        apply Nat.lt_of_not_le
        intro hc
        exact hst (hm t0 s.tick hc h0)
      have hp := lsPass_tick O dir P pr c q tauInit dn s
      cases hpass : lsPass O dir P pr c q tauInit dn s with
      | done s' => rw [hpass] at hp; simp only []; omega
      | again s' =>
        rw [hpass] at hp
        have := ih s'
        simp only []
        omega

theorem directionStage_tick (dir : Dir D α) (P : Prob α) (pr : Params α) (s : St α D) :
    (directionStage dir P pr s).tick ≤ s.tick + max P.gnTicks 2 := by
  unfold directionStage directionRaw
  simp only []
  split_ifs <;> (try simp only []) <;> (try omega) <;> simp_all

theorem updateStage_tick (dir : Dir D α) (pr : Params α) (c n : Iterate α) (d : D) (t : Nat) (g : Bool) :
    (updateStage dir pr c n d t g).2.2.1 ≤ t + 2 := by
  unfold updateStage
  simp only []
  split_ifs <;> (try simp only []) <;> omega

/-- One pass of the loop body that starts (head poll) with the flag still invisible ends at a tick
    `≤ t₀ + pollGap − 1`. -/
theorem iterBody_tick (O : Oracles α) (dir : Dir D α) (P : Prob α) (pr : Params α) (stop : Nat → Bool)
    (hm : StopMono stop) (t0 : Nat) (h0 : stop t0 = true) (s : St α D) (eps : α)
    (hs : stop s.tick = false) :
    (iterBody O dir P pr stop s eps).1.tick ≤ t0 + P.pollGap - 1 := by
  have hlt : s.tick < t0 := by
    apply Nat.lt_of_not_le
    intro hc
    have := hm t0 s.tick hc h0
    rw [hs] at this; exact absurd this (by decide)
  have hd := directionStage_tick dir P pr s
  have hg : max P.gnTicks 2 ≤ P.pollGap ∧ P.lsGap ≤ P.pollGap ∧ 3 ≤ P.pollGap := by
    unfold Prob.pollGap; omega
  unfold iterBody
  simp only []
  split_ifs with hex hst
  · simp only []; omega
  · have := lineSearch_tick_bound O dir P pr stop hm t0 h0 s.curr (directionStage dir P pr s).q
      (directionStage dir P pr s).tauInit
      (decide (pr.gnInterval > 0) && ((s.k + 1) % pr.gnInterval == 0) && !pr.disableAccel) pr.lsFuel
      { next := { s.next with gamma := s.curr.gamma, L := s.curr.L }, d := (directionStage dir P pr s).d,
        tick := (directionStage dir P pr s).tick, tau := (directionStage dir P pr s).tauInit,
        tauPrev := -1,
        doGnStep := (decide (pr.gnInterval > 0) && ((s.k + 1) % pr.gnInterval == 0) && !pr.disableAccel)
          || (s.doGnStep && pr.gnSticky),
        lsBacktracks := 0, stepsizeBacktracks := 0 }
    simp only [] at this ⊢
    omega
  · -- accepted: the flag was still invisible after the line search
    generalize hls : lineSearch O dir P pr stop s.curr (directionStage dir P pr s).q
      (directionStage dir P pr s).tauInit _ pr.lsFuel _ = ls at hst ⊢
    have hlt2 : ls.tick < t0 := by
      apply Nat.lt_of_not_le
      intro hc
      exact hst (hm t0 ls.tick hc h0)
    have hu := updateStage_tick dir pr s.curr ls.next ls.d ls.tick (directionStage dir P pr s).didGn
    unfold acceptStep
    simp only []
    omega

theorem headStep_tick (P : Prob α) (pr : Params α) (stop : Nat → Bool) (oot : Bool) (s : St α D) :
    (headStep P pr stop oot s).1.tick = s.tick := (headStep_curr P pr stop oot s).2.2.2.1

/-- Tick bound for the main loop: from a loop head at tick `≤ B`, where `B ≥ t₀ + pollGap − 1`, the solve
    ends at tick `≤ B + 1`. -/
theorem mainLoop_ticks (O : Oracles α) (dir : Dir D α) (P : Prob α) (pr : Params α) (stop : Nat → Bool)
    (hm : StopMono stop) (t0 : Nat) (h0 : stop t0 = true) (oot : Bool) (u0 y mu errz0 : Vec α)
    (B : Nat) (hB : t0 + P.pollGap - 1 ≤ B) (fuel : Nat) (s : St α D) (hs : s.tick ≤ B) :
    (mainLoop O dir P pr stop oot u0 y mu errz0 fuel s).ticks ≤ B + 1 := by
  induction fuel generalizing s with
  | zero => simp only [mainLoop, excResult]; omega
  | succ f ih =>
    unfold mainLoop
    have ht := headStep_tick P pr stop oot s
    have hsnd := headStep_snd P pr stop oot s
    cases hes : (headStep P pr stop oot s).2 with
    | none => simp only [excResult]; omega
    | some es =>
      simp only []
      rw [hes] at hsnd
      cases hep : epsOf P pr s.curr with
      | none => rw [hep] at hsnd; simp at hsnd
      | some e0 =>
        rw [hep] at hsnd
        simp only [Option.map_some, Option.some.injEq] at hsnd
        split_ifs with hb hx
        · simp only [exitBlock]; omega
        · have hbusy : es.2 = .Busy := by simpa using hb
          have hns : stop (headStep P pr stop oot s).1.tick = false := by
            rw [ht]
            cases hst : stop s.tick
            · rfl
            · have : statusOf pr s.k e0 s.noProgress oot (stop s.tick) = .Busy := by rw [← hbusy, hsnd]
              rw [hst] at this
              exact absurd this (statusOf_stop_not_busy pr s.k e0 s.noProgress oot)
          have := iterBody_tick O dir P pr stop hm t0 h0 (headStep P pr stop oot s).1 es.1 hns
          simp only [excResult]; omega
        · have hbusy : es.2 = .Busy := by simpa using hb
          have hns : stop (headStep P pr stop oot s).1.tick = false := by
            rw [ht]
            cases hst : stop s.tick
            · rfl
            · have : statusOf pr s.k e0 s.noProgress oot (stop s.tick) = .Busy := by rw [← hbusy, hsnd]
              rw [hst] at this
              exact absurd this (statusOf_stop_not_busy pr s.k e0 s.noProgress oot)
          have := iterBody_tick O dir P pr stop hm t0 h0 (headStep P pr stop oot s).1 es.1 hns
          exact ih _ (by omega)

theorem initIterates_ticks (O : Oracles α) (P : Prob α) (pr : Params α) (u0 gV : Vec α) (gS : α) :
    (initIterates O P pr u0 gV gS).2.2 + P.fwdTicks ≤ P.initTicks := by
  unfold initIterates Prob.initTicks
  simp only []
  split_ifs <;> (try simp only []) <;> omega

/-- **Oracle-event bound after `stop()`** for a whole solve: if the flag, never lowered, is visible
    from tick `t₀` on, then `ticks ≤ max (initTicks + 1) (t₀ + pollGap)`. -/
theorem run_ticks_after_stop (O : Oracles α) (dir : Dir D α) (P : Prob α) (d0 : D) (pr : Params α)
    (stop : Nat → Bool) (hm : StopMono stop) (t0 : Nat) (h0 : stop t0 = true) (oot : Bool)
    (u0 y mu errz0 gV gQ : Vec α) (gS e0 : α) :
    (run O dir P d0 pr stop oot u0 y mu errz0 gV gQ gS e0).ticks ≤
      max (P.initTicks + 1) (t0 + P.pollGap) := by
  have hi0 := initIterates_ticks O P pr u0 gV gS
  have hgap : P.fwdTicks ≤ P.pollGap ∧ 3 ≤ P.pollGap := by
    unfold Prob.pollGap Prob.lsGap; omega
  unfold run
  cases hi : initState O P d0 pr stop u0 gV gQ gS e0 with
  | inl t =>
    simp only []
    unfold initState at hi
    simp only [] at hi
    split_ifs at hi
    injection hi with hi
    omega
  | inr s =>
    simp only []
    have hs : s.tick ≤ max P.initTicks (t0 + P.pollGap - 1) := by
      unfold initState at hi
      simp only [] at hi
      split_ifs at hi
      injection hi with hi
      subst hi
      have := initQub_tick_bound O P pr stop hm t0 h0 pr.lsFuel
        (evalStep O P { (initIterates O P pr u0 gV gS).1 with
          gamma := pr.LgammaFactor / (initIterates O P pr u0 gV gS).1.L })
        ((initIterates O P pr u0 gV gS).2.2 + P.fwdTicks) 0
      simp only [] at this ⊢
      omega
    have := mainLoop_ticks O dir P pr stop hm t0 h0 oot u0 y mu errz0
      (max P.initTicks (t0 + P.pollGap - 1)) (by omega) (pr.maxIter + 2) s hs
    omega

end Alpaqa.Ocp
