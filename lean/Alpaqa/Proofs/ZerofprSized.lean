/-
  Size invariant of the ZeroFPR loop model (`Model/Zerofpr.lean`).

  In the C++ every vector of an `Iterate` / `ProxIterate`, `q`, `x`, `y`, `err_z` is an Eigen vector of
  fixed size (`n` or `m`) written in place; the list model sees sizes only through the length lemmas of
  the vector operations and through size contracts of the oracles:

  * `ProblemSized n m P` — the problem oracles return vectors of the right size when called with
    vectors of the right size;
  * `DirSized n dir R`   — the direction provider, *on the states the loop actually reaches*: `R` is an
    invariant of the provider's state (chosen by whoever instantiates the hypothesis, e.g. "every
    stored pair has size `n`" for L-BFGS) that holds initially, is kept by every call made with
    well-sized arguments, and under which a *successful* `apply` leaves a `q` of size `n` (a failing
    one may leave anything: `q` is then not read).  Nothing is demanded of states outside `R` (the
    hypothesis "for all provider states" is false for the shipped L-BFGS, audit round 2 #8).

  Under these, on a well-formed call (`x₀` of size `n`; `y`, `Σ`, `err_z` of size `m`): the current
  iterate at every loop head, every iterate handed to the progress callback with its `∇ψ(x̂)`, and the
  returned `x`, `y`, `err_z` have the right sizes (`run_sized`).  Used by `Props/C05_Zerofpr` to remove
  the size premises of the descent chain.
-/
import Alpaqa.Proofs.ZerofprChain

namespace Alpaqa.Zerofpr
open Alpaqa Alpaqa.Gen
set_option linter.unusedSectionVars false
set_option linter.unusedVariables false

variable {α D : Type} [Field α] [LinearOrder α] [IsStrictOrderedRing α] [RealLike α]

/-- Size contract of the problem oracles (`n` variables, `m` constraints). -/
structure ProblemSized (n m : Nat) (P : Problem α) : Prop where
  pgp_grad : ∀ x, x.length = n → (P.psiGradPsi x).2.1.length = n
  psi_yhat : ∀ x, x.length = n → (P.psi x).2.length = m
  gradPsi : ∀ x, x.length = n → (P.gradPsi x).length = n
  gradL : ∀ x y, x.length = n → y.length = m → (P.gradL x y).length = n
  prox_xhat : ∀ γ x g, x.length = n → g.length = n → (P.prox γ x g).2.1.length = n
  prox_p : ∀ γ x g, x.length = n → g.length = n → (P.prox γ x g).2.2.length = n

/-- Size contract of the direction provider over the states the loop reaches: `R` is kept by every
    call with well-sized arguments, and a successful `apply` from a state in `R` leaves a `q` of size
    `n` (the previous content of `q` is unconstrained). -/
structure DirSized (n : Nat) (dir : Direction D α) (R : D → Prop) : Prop where
  init : ∀ d γ x xh p g, R d → x.length = n → xh.length = n → p.length = n → g.length = n →
    R (dir.init d γ x xh p g)
  apply_R : ∀ d γ x xh p g q, R d → x.length = n → xh.length = n → p.length = n → g.length = n →
    R (dir.apply d γ x xh p g q).1
  apply_q : ∀ d γ x xh p g q, R d → x.length = n → xh.length = n → p.length = n → g.length = n →
    (dir.apply d γ x xh p g q).2.1 = true → (dir.apply d γ x xh p g q).2.2.length = n
  update_R : ∀ d γk γn xk xn pk pn gk gn, R d → xk.length = n → xn.length = n → pk.length = n →
    pn.length = n → gk.length = n → gn.length = n → R (dir.update d γk γn xk xn pk pn gk gn).1
  changed_R : ∀ d γ γ', R d → R (dir.changedGamma d γ γ')
  reset_R : ∀ d, R d → R (dir.reset d)

/-- `x` and `∇ψ(x)` of an iterate have size `n`. -/
def XG (n : Nat) (i : Iterate α) : Prop := i.x.length = n ∧ i.gradPsi.length = n

/-- All vectors of an iterate have the right size. -/
structure Sized (n m : Nat) (i : Iterate α) : Prop where
  x : i.x.length = n
  g : i.gradPsi.length = n
  xhat : i.xhat.length = n
  p : i.p.length = n
  yhat : i.yhat.length = m

/-- All vectors of `*prox` (the ones the C++ writes) have size `n`. -/
structure PxSized (n : Nat) (px : ProxIterate α) : Prop where
  xhat : px.xhat.length = n
  g : px.gradPsi.length = n
  p : px.p.length = n

theorem vadd_length (a b : Vec α) : (vadd a b).length = min a.length b.length := by
  simp [vadd, vzip]
theorem vsub_length (a b : Vec α) : (vsub a b).length = min a.length b.length := by
  simp [vsub, vzip]
theorem vdiv_length (a b : Vec α) : (vdiv a b).length = min a.length b.length := by
  simp [vdiv, vzip]
theorem smul_length (c : α) (a : Vec α) : (smul c a).length = a.length := by
  simp [smul]

theorem sized_evalStep {n m : Nat} {P : Problem α} (hP : ProblemSized n m P) (i : Iterate α)
    (h : XG n i) : Sized n m (evalCostInProx P (evalProxGradStep P i)) := by
  have hx : (P.prox i.gamma i.x i.gradPsi).2.1.length = n := hP.prox_xhat _ _ _ h.1 h.2
  have hp : (P.prox i.gamma i.x i.gradPsi).2.2.length = n := hP.prox_p _ _ _ h.1 h.2
  unfold evalCostInProx evalProxGradStep
  exact ⟨h.1, h.2, hx, hp, hP.psi_yhat _ hx⟩

theorem sized_gammaL {n m : Nat} (i : Iterate α) (γ L : α) (h : Sized n m i) :
    Sized n m { i with gamma := γ, L := L } := ⟨h.x, h.g, h.xhat, h.p, h.yhat⟩

theorem pxSized_evalInProx {n m : Nat} {P : Problem α} (hP : ProblemSized n m P) (i : Iterate α)
    (px : ProxIterate α) (hx : i.xhat.length = n) (hg : px.gradPsi.length = n) :
    PxSized n (evalProxGradStepInProx P i px) := by
  unfold evalProxGradStepInProx
  exact ⟨hP.prox_xhat _ _ _ hx hg, hg, hP.prox_p _ _ _ hx hg⟩

/-- The loop head leaves `*prox` sized. -/
theorem headStep_sized {n m : Nat} {P : Problem α} (hP : ProblemSized n m P) (pr : Params α)
    (stop : Nat → Bool) (oot : Bool) (s : St α D) (h : Sized n m s.curr) :
    PxSized n (headStep P pr stop oot s).1.prox := by
  unfold headStep
  simp only []
  apply pxSized_evalInProx hP _ _ h.xhat
  unfold evalGradInProx
  exact hP.gradL _ _ h.xhat h.yhat

/-! ### Line search -/

/-- Size invariant of the line-search state (the current iterate `c`, `*prox` and `q` are read-only
    parameters of the line search). -/
structure LSSized (n : Nat) (R : D → Prop) (tauInit : α) (s : LS α D) : Prop where
  /-- a candidate that will not be recomputed has `x`, `∇ψ(x)` of size `n` -/
  next : s.tau = s.tauPrev → XG n s.next
  /-- without a direction (`τ_init = 0`) `τ` stays `0`: `q` is never read -/
  tau0 : tauInit = 0 → s.tau = 0
  d : R s.d

theorem lsRecompute_d (P : Problem α) (c : Iterate α) (px : ProxIterate α) (q : Vec α) (s : LS α D) :
    (lsRecompute P c px q s).d = s.d := by
  unfold lsRecompute
  split_ifs <;> rfl

theorem lsRecompute_sized {n m : Nat} {P : Problem α} (hP : ProblemSized n m P) (R : D → Prop)
    (c : Iterate α) (px : ProxIterate α) (q : Vec α) (tauInit : α) (hc : Sized n m c)
    (hpx : PxSized n px) (hq : tauInit ≠ 0 → q.length = n) (s : LS α D)
    (h : LSSized n R tauInit s) : XG n (lsRecompute P c px q s).next := by
  unfold lsRecompute
  split_ifs with h1 h2
  · have hτ : s.tau ≠ 0 := by simpa using h2
    have hql := hq (fun h0 => hτ (h.tau0 h0))
    have hx : (if s.tau == 1 then vadd c.xhat q else vadd c.xhat (smul s.tau q)).length = n := by
      split_ifs
      · rw [vadd_length, hc.xhat, hql]; exact Nat.min_self n
      · rw [vadd_length, smul_length, hc.xhat, hql]; exact Nat.min_self n
    unfold takeAcceleratedStep evalPsiGradPsi
    exact ⟨hx, hP.pgp_grad _ hx⟩
  · exact ⟨hc.xhat, hpx.g⟩
  · exact h.next (by simpa using h1)

theorem lsUpdateInCandidate_R {n m : Nat} (dir : Direction D α) (R : D → Prop)
    (hD : DirSized n dir R) (pr : Params α) (c : Iterate α) (px : ProxIterate α) (s : LS α D)
    (hc : Sized n m c) (hpx : PxSized n px) (hn : Sized n m s.next) (hd : R s.d) :
    R (lsUpdateInCandidate dir pr c px s).d := by
  unfold lsUpdateInCandidate dirUpdate
  split_ifs
  · exact hD.update_R _ _ _ _ _ _ _ _ _ hd hc.xhat hn.x hpx.p hn.p hpx.g hn.g
  · exact hD.update_R _ _ _ _ _ _ _ _ _ hd hc.x hn.x hc.p hn.p hc.g hn.g
  · exact hd

/-- One pass of the line-search body keeps the invariant; on `break` the candidate is fully sized. -/
theorem lsPass_sized {n m : Nat} {P : Problem α} (hP : ProblemSized n m P) (dir : Direction D α)
    (R : D → Prop) (hD : DirSized n dir R) (pr : Params α) (c : Iterate α) (px : ProxIterate α)
    (q : Vec α) (tauInit : α) (hc : Sized n m c) (hpx : PxSized n px)
    (hq : tauInit ≠ 0 → q.length = n) (s : LS α D) (h : LSSized n R tauInit s) :
    LSSized n R tauInit (lsPass P dir pr c px q tauInit s).st ∧
    (∀ s', lsPass P dir pr c px q tauInit s = .done s' → Sized n m s'.next) := by
  have h1 := lsRecompute_sized hP R c px q tauInit hc hpx hq s h
  have hd1 : R (lsRecompute P c px q s).d := by rw [lsRecompute_d]; exact h.d
  have hτ1 : (lsRecompute P c px q s).tau = s.tau := (lsRecompute_same P c px q s).2.2.2
  have hs2 : Sized n m (evalCostInProx P (evalProxGradStep P (lsRecompute P c px q s).next)) :=
    sized_evalStep hP _ h1
  obtain ⟨hx, _, hg, _, htau, hdone⟩ := lsPass_shape P dir pr c px q tauInit s
  have hnext : XG n (lsPass P dir pr c px q tauInit s).st.next := ⟨by rw [hx]; exact h1.1,
    by rw [hg]; exact h1.2⟩
  have htau0 : tauInit = 0 → (lsPass P dir pr c px q tauInit s).st.tau = 0 := by
    intro h0
    have hs0 : (lsRecompute P c px q s).tau = 0 := by rw [hτ1]; exact h.tau0 h0
    rcases htau with e | e | e | ⟨hpos, _⟩
    · rw [e]; exact hs0
    · exact e
    · rw [e]; exact h0
    · rw [hs0] at hpos; exact absurd hpos (lt_irrefl _)
  have hd : R (lsPass P dir pr c px q tauInit s).st.d := by
    have hu := lsUpdateInCandidate_R (n := n) (m := m) dir R hD pr c px
      { lsRecompute P c px q s with
        next := evalCostInProx P (evalProxGradStep P (lsRecompute P c px q s).next),
        tick := (lsRecompute P c px q s).tick + 2 } hc hpx hs2 hd1
    unfold lsPass
    simp only []
    split_ifs <;> simp only [Pass.st]
    · exact hD.reset_R _ hd1
    · exact hd1
    · exact hd1
    · exact hu
    · exact hu
    · exact hu
  refine ⟨⟨fun _ => hnext, htau0, hd⟩, fun s' hpass => ?_⟩
  rw [(hdone s' hpass).2]; exact hs2

/-- The whole line search keeps the invariant; if the loop was left through `break` the candidate is
    fully sized. -/
theorem lineSearch_sized {n m : Nat} {P : Problem α} (hP : ProblemSized n m P) (dir : Direction D α)
    (R : D → Prop) (hD : DirSized n dir R) (pr : Params α) (stop : Nat → Bool) (c : Iterate α)
    (px : ProxIterate α) (q : Vec α) (tauInit : α) (hc : Sized n m c) (hpx : PxSized n px)
    (hq : tauInit ≠ 0 → q.length = n) (fuel : Nat) (s : LS α D) (h : LSSized n R tauInit s)
    (hf : s.fuelOut = false) :
    LSSized n R tauInit (lineSearch P dir pr stop c px q tauInit fuel s) ∧
    ((lineSearch P dir pr stop c px q tauInit fuel s).fuelOut = false →
      stop (lineSearch P dir pr stop c px q tauInit fuel s).tick = false →
      Sized n m (lineSearch P dir pr stop c px q tauInit fuel s).next) := by
  induction fuel generalizing s with
  | zero =>
    simp only [lineSearch]
    exact ⟨⟨h.next, h.tau0, h.d⟩, fun hc' => absurd hc' (by simp)⟩
  | succ f ih =>
    unfold lineSearch
    by_cases hst : stop s.tick
    · simp only [hst, if_true]
      exact ⟨h, fun _ h2 => absurd h2 (by simp)⟩
    · simp only [hst, Bool.false_eq_true, if_false]
      have hp := lsPass_sized hP dir R hD pr c px q tauInit hc hpx hq s h
      cases hpass : lsPass P dir pr c px q tauInit s with
      | done s' =>
        have h1 := hp.1
        rw [hpass] at h1
        exact ⟨h1, fun _ _ => hp.2 s' hpass⟩
      | again s' =>
        have h1 := hp.1
        rw [hpass] at h1
        exact ih s' h1 (by rw [lsPass_again P dir pr c px q tauInit s s' hpass]; exact hf)

/-! ### Direction stage, update stage, one pass of the loop body -/

/-- The direction stage keeps the provider's invariant, and hands on a `q` of size `n` whenever
    `τ_init ≠ 0` (i.e. `apply` succeeded with a finite `q`). -/
theorem directionStage_sized {n m : Nat} (dir : Direction D α) (R : D → Prop) (hD : DirSized n dir R)
    (s : St α D) (hc : Sized n m s.curr) (hpx : PxSized n s.prox) (hd : R s.d) :
    R (directionStage dir s).1 ∧
    ((directionStage dir s).2.2.2.1 ≠ 0 → (directionStage dir s).2.2.1.length = n) := by
  have hdt : R (if s.k == 0 then
      (dir.init s.d s.curr.gamma s.curr.xhat s.prox.xhat s.prox.p s.prox.gradPsi, s.tick + 1)
      else (s.d, s.tick)).1 := by
    split_ifs
    · exact hD.init _ _ _ _ _ _ hd hc.xhat hpx.xhat hpx.p hpx.g
    · exact hd
  unfold directionStage
  simp only []
  generalize (if s.k == 0 then
      (dir.init s.d s.curr.gamma s.curr.xhat s.prox.xhat s.prox.p s.prox.gradPsi, s.tick + 1)
      else (s.d, s.tick)) = dt at hdt
  have hR := hD.apply_R dt.1 s.curr.gamma s.curr.xhat s.prox.xhat s.prox.p s.prox.gradPsi s.q hdt
    hc.xhat hpx.xhat hpx.p hpx.g
  have hQ := hD.apply_q dt.1 s.curr.gamma s.curr.xhat s.prox.xhat s.prox.p s.prox.gradPsi s.q hdt
    hc.xhat hpx.xhat hpx.p hpx.g
  split_ifs with h1 h2 h3 h4
  all_goals first
    | exact ⟨hD.reset_R _ hR, fun hne => by simp_all⟩
    | exact ⟨hR, fun _ => hQ (by by_contra hcn; simp_all)⟩
    | exact ⟨hdt, fun hne => absurd rfl hne⟩

/-- The update stage keeps everything sized. -/
theorem updateStage_sized {n m : Nat} {P : Problem α} (hP : ProblemSized n m P) (dir : Direction D α)
    (R : D → Prop) (hD : DirSized n dir R) (pr : Params α) (c : Iterate α) (px : ProxIterate α)
    (ls : LS α D) (hc : Sized n m c) (hpx : PxSized n px) (hn : Sized n m ls.next) (hd : R ls.d) :
    Sized n m (updateStage P dir pr c px ls).1 ∧ PxSized n (updateStage P dir pr c px ls).2.1 ∧
    R (updateStage P dir pr c px ls).2.2.1 := by
  have hpx' : ∀ γ L, PxSized n (evalProxGradStepInProx P { c with gamma := γ, L := L } px) :=
    fun γ L => pxSized_evalInProx hP _ _ hc.xhat hpx.g
  have hc' : ∀ γ L, Sized n m { c with gamma := γ, L := L } := fun γ L => sized_gammaL c γ L hc
  have hch : ∀ a b, R (dir.changedGamma ls.d a b) := fun a b => hD.changed_R _ _ _ hd
  unfold updateStage dirUpdate
  split_ifs
  all_goals simp only []
  all_goals first
    | exact ⟨hc, hpx, hd⟩
    | exact ⟨hc' _ _, hpx' _ _, hD.update_R _ _ _ _ _ _ _ _ _ (hch _ _) hc.xhat hn.x (hpx' _ _).p hn.p
        (hpx' _ _).g hn.g⟩
    | exact ⟨hc' _ _, hpx' _ _, hD.update_R _ _ _ _ _ _ _ _ _ (hch _ _) hc.x hn.x hc.p hn.p hc.g hn.g⟩
    | exact ⟨hc, hpx, hD.update_R _ _ _ _ _ _ _ _ _ (hch _ _) hc.xhat hn.x hpx.p hn.p hpx.g hn.g⟩
    | exact ⟨hc, hpx, hD.update_R _ _ _ _ _ _ _ _ _ (hch _ _) hc.x hn.x hc.p hn.p hc.g hn.g⟩
    | exact ⟨hc, hpx, hD.update_R _ _ _ _ _ _ _ _ _ hd hc.xhat hn.x hpx.p hn.p hpx.g hn.g⟩
    | exact ⟨hc, hpx, hD.update_R _ _ _ _ _ _ _ _ _ hd hc.x hn.x hc.p hn.p hc.g hn.g⟩

/-- A progress callback whose iterate and `∇ψ(x̂)` have the right sizes. -/
structure CbSized (n m : Nat) (cb : Callback α) : Prop where
  it : Sized n m cb.it
  gh : cb.gradPsiHat.length = n

/-- Size invariant of the solver state at a loop head. -/
structure SzInv (n m : Nat) (R : D → Prop) (s : St α D) : Prop where
  curr : Sized n m s.curr
  d : R s.d
  cbs : ∀ cb ∈ s.cbs, CbSized n m cb

theorem iterBody_d (P : Problem α) (dir : Direction D α) (pr : Params α) (stop : Nat → Bool)
    (s : St α D) (eps : α) :
    (stop (lsOf P dir pr stop s).tick = true → (iterBody P dir pr stop s eps).d = (lsOf P dir pr stop s).d) ∧
    (stop (lsOf P dir pr stop s).tick = false →
      (iterBody P dir pr stop s eps).d = (updateStage P dir pr s.curr s.prox (lsOf P dir pr stop s)).2.2.1) := by
  unfold iterBody
  simp only []
  constructor <;> intro h <;> simp only [h, if_true, Bool.false_eq_true, if_false]

theorem lsOf_sized {n m : Nat} {P : Problem α} (hP : ProblemSized n m P) (dir : Direction D α)
    (R : D → Prop) (hD : DirSized n dir R) (pr : Params α) (stop : Nat → Bool) (s : St α D)
    (hc : Sized n m s.curr) (hpx : PxSized n s.prox) (hd : R s.d) :
    R (lsOf P dir pr stop s).d ∧
    ((lsOf P dir pr stop s).fuelOut = false → stop (lsOf P dir pr stop s).tick = false →
      Sized n m (lsOf P dir pr stop s).next) := by
  have hds := directionStage_sized (m := m) dir R hD s hc hpx hd
  have hinit : LSSized n R (directionStage dir s).2.2.2.1
      (lsInit pr s (directionStage dir s).1 (directionStage dir s).2.1 (directionStage dir s).2.2.2.1) := by
    refine ⟨fun he => ?_, fun h0 => h0, hds.1⟩
    exfalso
    have he' : (directionStage dir s).2.2.2.1 = (-1 : α) := he
    rcases directionStage_tau dir s with h0 | h0 <;> rw [h0] at he' <;> norm_num at he'
  have := lineSearch_sized hP dir R hD pr stop s.curr s.prox (directionStage dir s).2.2.1
    (directionStage dir s).2.2.2.1 hc hpx hds.2 pr.lsFuel _ hinit (lsInit_fuelOut _ _ _ _ _)
  unfold lsOf
  exact ⟨this.1.d, this.2⟩

/-- One pass of the loop body (from the state after the loop head) keeps the size invariant — unless
    the model's line-search fuel ran out. -/
theorem iterBody_sized {n m : Nat} {P : Problem α} (hP : ProblemSized n m P) (dir : Direction D α)
    (R : D → Prop) (hD : DirSized n dir R) (pr : Params α) (stop : Nat → Bool) (s : St α D) (eps : α)
    (h : SzInv n m R s) (hpx : PxSized n s.prox) (hf : (lsOf P dir pr stop s).fuelOut = false) :
    SzInv n m R (iterBody P dir pr stop s eps) := by
  have hls := lsOf_sized hP dir R hD pr stop s h.curr hpx h.d
  have hd := iterBody_d P dir pr stop s eps
  by_cases hst : stop (lsOf P dir pr stop s).tick = true
  · have hi := iterBody_interrupted P dir pr stop s eps hst
    exact ⟨by rw [hi.1]; exact h.curr, by rw [hd.1 hst]; exact hls.1, by rw [hi.2.2.2.2.1]; exact h.cbs⟩
  · have hst' : stop (lsOf P dir pr stop s).tick = false := by simpa using hst
    have hc := iterBody_completed P dir pr stop s eps hst'
    have hn := hls.2 hf hst'
    have hu := updateStage_sized hP dir R hD pr s.curr s.prox (lsOf P dir pr stop s) h.curr hpx hn hls.1
    obtain ⟨cb, hcbs, _, _, _, _, hit, _, hgh⟩ := iterBody_callback P dir pr stop s eps hst'
    refine ⟨by rw [hc.1]; exact hn, by rw [hd.2 hst']; exact hu.2.2, ?_⟩
    intro c hcm
    rw [hcbs] at hcm
    rcases List.mem_cons.mp hcm with hcm | hcm
    · rw [hcm]; exact ⟨by rw [hit]; exact hu.1, by rw [hgh]; exact hu.2.1.g⟩
    · exact h.cbs c hcm

theorem initQub_sized {n m : Nat} {P : Problem α} (hP : ProblemSized n m P) (pr : Params α)
    (stop : Nat → Bool) (f : Nat) (c : Iterate α) (t b : Nat) (h : Sized n m c) :
    Sized n m (initQub P pr stop f c t b).1 := by
  induction f generalizing c t b with
  | zero => simpa [initQub] using h
  | succ f ih =>
    unfold initQub
    split_ifs
    · exact h
    · exact ih _ _ _ (sized_evalStep hP _ ⟨h.x, h.g⟩)
    · exact h

theorem initState_sized {n m : Nat} {P : Problem α} (hP : ProblemSized n m P) (d0 : D)
    (pr : Params α) (stop : Nat → Bool) (x0 gV : Vec α) (gS : α) (hx0 : x0.length = n) (s : St α D)
    (hi : initState P d0 pr stop x0 gV gS = .inr s) : Sized n m s.curr ∧ s.d = d0 ∧ s.cbs = [] := by
  have hxg : XG n (initLipschitz P pr x0 gV gS).1 := by
    unfold initLipschitz
    simp only []
    split_ifs
    · exact ⟨hx0, by unfold initialLipschitz; simp only []; exact hP.pgp_grad _ hx0⟩
    · exact ⟨hx0, by unfold evalPsiGradPsi; simp only []; exact hP.pgp_grad _ hx0⟩
  unfold initState at hi
  simp only [] at hi
  split_ifs at hi
  injection hi with hi; subst hi
  exact ⟨initQub_sized hP pr stop _ _ _ _ (sized_evalStep hP _ hxg), rfl, rfl⟩

/-- Sizes of what the caller's buffers hold afterwards. -/
structure OutSized (n m : Nat) (r : Result α D) : Prop where
  x : r.x.length = n
  y : r.y.length = m
  errz : r.errz.length = m

theorem exitBlock_sized {n m : Nat} (pr : Params α) (s : St α D) (eps : α) (status : SolverStatus)
    (x0 y Sig errz0 : Vec α) (h : Sized n m s.curr) (hx0 : x0.length = n) (hy : y.length = m)
    (hS : Sig.length = m) (he : errz0.length = m) :
    OutSized n m (exitBlock pr s eps status x0 y Sig errz0) := by
  unfold exitBlock
  simp only []
  cases hw : (status == .Converged || status == .Interrupted || pr.alwaysOverwrite) <;>
    simp only [if_true, if_false, Bool.false_eq_true]
  · exact ⟨hx0, hy, he⟩
  · refine ⟨h.xhat, h.yhat, ?_⟩
    split_ifs
    · rw [vdiv_length, vsub_length, h.yhat, hy, hS]; simp
    · exact he

/-- **Sizes are preserved by a solve on a well-formed call**: every iterate handed to the progress
    callback has `x`, `∇ψ(x)`, `x̂`, `p` of size `n` and `ŷ` of size `m`, the `∇ψ(x̂)` handed with it
    has size `n`, and `x`, `y`, `err_z` come back with sizes `n`, `m`, `m` whatever the exit path
    (model fuel not exhausted). -/
theorem run_sized_fuel {n m : Nat} {P : Problem α} (hP : ProblemSized n m P) (dir : Direction D α)
    (R : D → Prop) (hD : DirSized n dir R) (d0 : D) (hd0 : R d0) (pr : Params α) (stop : Nat → Bool)
    (oot : Bool) (x0 y Sig errz0 gV : Vec α) (gS iS : α) (hx0 : x0.length = n) (hy : y.length = m)
    (hS : Sig.length = m) (he : errz0.length = m)
    (hfuel : (run P dir d0 pr stop oot x0 y Sig errz0 gV gS iS).fuelOut = false) :
    (∀ cb ∈ (run P dir d0 pr stop oot x0 y Sig errz0 gV gS iS).callbacks, CbSized n m cb) ∧
    OutSized n m (run P dir d0 pr stop oot x0 y Sig errz0 gV gS iS) := by
  rcases run_cases P dir d0 pr stop oot x0 y Sig errz0 gV gS iS
    (fun s => s.fuelOut = true ∨ SzInv n m R s)
    (fun s hi => by
      have h := initState_sized hP d0 pr stop x0 gV gS hx0 s hi
      exact .inr ⟨h.1, by rw [h.2.1]; exact hd0, by rw [h.2.2]; simp⟩)
    (fun s hI _ => by
      have hs := headStep_same P pr stop oot s
      rcases hI with hI | hI
      · left; rw [iterBody_fuelOut, hs.2.2.2.2.1, hI]; rfl
      · cases hfo : (iterBody P dir pr stop (headStep P pr stop oot s).1
            (headStep P pr stop oot s).2.1).fuelOut
        · right
          rw [iterBody_fuelOut] at hfo
          have hlsf : (lsOf P dir pr stop (headStep P pr stop oot s).1).fuelOut = false := by
            cases hx : (lsOf P dir pr stop (headStep P pr stop oot s).1).fuelOut
            · rfl
            · rw [hx] at hfo; simp at hfo
          have hd : (headStep P pr stop oot s).1.d = s.d := by unfold headStep; rfl
          exact iterBody_sized hP dir R hD pr stop _ _
            ⟨by rw [hs.1]; exact hI.curr, by rw [hd]; exact hI.d, by rw [hs.2.2.2.1]; exact hI.cbs⟩
            (headStep_sized hP pr stop oot s hI.curr) hlsf
        · left; rfl)
    hfuel with ⟨t, ht⟩ | ⟨s', hI, _, hex⟩
  · unfold run; rw [ht]
    exact ⟨by simp, ⟨hx0, hy, he⟩⟩
  · rw [hex] at hfuel ⊢
    have hs := headStep_same P pr stop oot s'
    rw [(exitBlock_spec pr _ _ _ x0 y Sig errz0).2.2.2.2.2.1, hs.2.2.2.2.1] at hfuel
    rcases hI with hI | hI
    · rw [hI] at hfuel; exact absurd hfuel (by decide)
    · refine ⟨?_, exitBlock_sized pr _ _ _ x0 y Sig errz0 (by rw [hs.1]; exact hI.curr) hx0 hy hS he⟩
      intro cb hcb
      rw [exitBlock_callbacks, hs.2.2.2.1, hs.1] at hcb
      rcases List.mem_append.mp hcb with hcb | hcb
      · exact hI.cbs cb (List.mem_reverse.mp hcb)
      · rw [List.mem_singleton] at hcb
        rw [hcb]
        exact ⟨hI.curr, (headStep_sized hP pr stop oot s' hI.curr).g⟩

/-- `run_sized_fuel` with the fuel hypothesis discharged (`FuelOK`, stop flag never lowered). -/
theorem run_sized {n m : Nat} {P : Problem α} (hP : ProblemSized n m P) (dir : Direction D α)
    (R : D → Prop) (hD : DirSized n dir R) (d0 : D) (hd0 : R d0) (pr : Params α) (stop : Nat → Bool)
    (hm : StopMono stop) (N M : Nat) (hF : FuelOK pr N M)
    (oot : Bool) (x0 y Sig errz0 gV : Vec α) (gS iS : α) (hx0 : x0.length = n) (hy : y.length = m)
    (hS : Sig.length = m) (he : errz0.length = m) :
    (∀ cb ∈ (run P dir d0 pr stop oot x0 y Sig errz0 gV gS iS).callbacks, CbSized n m cb) ∧
    OutSized n m (run P dir d0 pr stop oot x0 y Sig errz0 gV gS iS) :=
  run_sized_fuel hP dir R hD d0 hd0 pr stop oot x0 y Sig errz0 gV gS iS hx0 hy hS he
    (run_fuel P dir d0 pr stop hm N M hF oot x0 y Sig errz0 gV gS iS)

end Alpaqa.Zerofpr
