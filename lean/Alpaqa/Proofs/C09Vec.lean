/-
  C09 helper lemmas, part 1: the executable list-vector layer (`dot`, `vsub`, `vadd`, `smul`,
  `sqNorm` of `Model/Vec.lean`, i.e. the Eigen left folds) as an inner-product space on lists of a
  common length, and the algebra of the dense BFGS operator `Hrev`.
-/
import Alpaqa.Proofs.Basic
import Mathlib.Tactic.LinearCombination
import Mathlib.Tactic.Set
import Alpaqa.Model.C09

namespace Alpaqa.C09
open Alpaqa
set_option linter.unusedSectionVars false

section field
variable {α : Type} [Field α]

theorem foldl_add_eq (x : α) (xs : List α) : xs.foldl (· + ·) x = x + xs.sum := by
  induction xs generalizing x with
  | nil => simp
  | cons y ys ih => simp [List.foldl_cons, ih, add_assoc]

theorem vsum_eq_sum (l : List α) : vsum l = l.sum := by
  cases l with
  | nil => simp [vsum, redux]
  | cons x xs => simp [vsum, redux, foldl_add_eq]

@[simp] theorem dot_nil_left (b : List α) : dot ([] : List α) b = 0 := by
  simp [dot, vmul, vzip, vsum_eq_sum]
@[simp] theorem dot_nil_right (a : List α) : dot a ([] : List α) = 0 := by
  simp [dot, vmul, vzip, vsum_eq_sum]
@[simp] theorem dot_cons (x y : α) (a b : List α) : dot (x :: a) (y :: b) = x * y + dot a b := by
  simp [dot, vmul, vzip, vsum_eq_sum]

@[simp] theorem vsub_cons (x y : α) (a b : List α) : vsub (x :: a) (y :: b) = (x - y) :: vsub a b := rfl
@[simp] theorem vadd_cons (x y : α) (a b : List α) : vadd (x :: a) (y :: b) = (x + y) :: vadd a b := rfl
@[simp] theorem smul_cons (k x : α) (a : List α) : smul k (x :: a) = (k * x) :: smul k a := rfl
@[simp] theorem smul_nil (k : α) : smul k ([] : List α) = [] := rfl
@[simp] theorem vsub_nil_left (b : List α) : vsub ([] : List α) b = [] := by simp [vsub, vzip]
@[simp] theorem vsub_nil_right (a : List α) : vsub a ([] : List α) = [] := by simp [vsub, vzip]
@[simp] theorem vadd_nil_left (b : List α) : vadd ([] : List α) b = [] := by simp [vadd, vzip]
@[simp] theorem vadd_nil_right (a : List α) : vadd a ([] : List α) = [] := by simp [vadd, vzip]

@[simp] theorem length_smul (k : α) (a : List α) : (smul k a).length = a.length := by simp [smul]
theorem length_vsub (a b : List α) (h : a.length = b.length) : (vsub a b).length = a.length := by
  simp [vsub, vzip, List.length_zipWith, h]
theorem length_vadd (a b : List α) (h : a.length = b.length) : (vadd a b).length = a.length := by
  simp [vadd, vzip, List.length_zipWith, h]

theorem dot_comm (a b : List α) : dot a b = dot b a := by
  induction a generalizing b with
  | nil => simp
  | cons x a ih => cases b with
    | nil => simp
    | cons y b => simp [ih b, mul_comm]

theorem dot_smul_left (k : α) (a b : List α) : dot (smul k a) b = k * dot a b := by
  induction a generalizing b with
  | nil => simp
  | cons x a ih => cases b with
    | nil => simp
    | cons y b => simp [ih b]; ring

theorem dot_smul_right (k : α) (a b : List α) : dot a (smul k b) = k * dot a b := by
  rw [dot_comm, dot_smul_left, dot_comm]

theorem dot_vsub_left (a b c : List α) (h : a.length = b.length) :
    dot (vsub a b) c = dot a c - dot b c := by
  induction a generalizing b c with
  | nil => cases b with
    | nil => simp
    | cons _ _ => simp at h
  | cons x a ih => cases b with
    | nil => simp at h
    | cons y b => cases c with
      | nil => simp
      | cons z c => simp [ih b c (by simpa using h)]; ring

theorem dot_vadd_left (a b c : List α) (h : a.length = b.length) :
    dot (vadd a b) c = dot a c + dot b c := by
  induction a generalizing b c with
  | nil => cases b with
    | nil => simp
    | cons _ _ => simp at h
  | cons x a ih => cases b with
    | nil => simp at h
    | cons y b => cases c with
      | nil => simp
      | cons z c => simp [ih b c (by simpa using h)]; ring

theorem dot_vsub_right (a b c : List α) (h : b.length = c.length) :
    dot a (vsub b c) = dot a b - dot a c := by
  rw [dot_comm, dot_vsub_left _ _ _ h, dot_comm b, dot_comm c]

theorem dot_vadd_right (a b c : List α) (h : b.length = c.length) :
    dot a (vadd b c) = dot a b + dot a c := by
  rw [dot_comm, dot_vadd_left _ _ _ h, dot_comm b, dot_comm c]

theorem sqNorm_eq_dot (a : List α) : sqNorm a = dot a a := by
  unfold sqNorm dot vmul vzip
  rw [List.zipWith_self]

/-- The code's `q -= (β − α)·s` is the spec's `r + (α − β)·s`. -/
theorem vsub_smul_eq_vadd (r s : List α) (a b : α) :
    vsub r (smul (b - a) s) = vadd r (smul (a - b) s) := by
  induction r generalizing s with
  | nil => simp
  | cons x r ih => cases s with
    | nil => simp
    | cons y s => simp [ih s]; ring

/-! ### the zero vector -/

@[simp] theorem dot_zeros_right (a : List α) (n : Nat) : dot a (List.replicate n (0 : α)) = 0 := by
  induction a generalizing n with
  | nil => simp
  | cons x a ih => cases n with
    | zero => simp
    | succ n => simp [List.replicate_succ, ih n]

@[simp] theorem dot_zeros_left (a : List α) (n : Nat) : dot (List.replicate n (0 : α)) a = 0 := by
  rw [dot_comm]; simp

theorem smul_zero_left (a : List α) : smul (0 : α) a = List.replicate a.length 0 := by
  induction a with
  | nil => rfl
  | cons x a ih => simp [ih, List.replicate_succ]

@[simp] theorem smul_zeros (k : α) (n : Nat) : smul k (List.replicate n (0 : α)) = List.replicate n 0 := by
  induction n with
  | zero => rfl
  | succ n ih => simp [List.replicate_succ, ih]

theorem smul_one_left (a : List α) : smul (1 : α) a = a := by
  induction a with
  | nil => rfl
  | cons x a ih => simp [ih]

theorem vsub_self (a : List α) : vsub a a = List.replicate a.length 0 := by
  induction a with
  | nil => rfl
  | cons x a ih => simp [ih, List.replicate_succ]

theorem vsub_zeros_right (a : List α) : vsub a (List.replicate a.length 0) = a := by
  induction a with
  | nil => rfl
  | cons x a ih => simp [ih, List.replicate_succ]

theorem vsub_zeros_zeros (n : Nat) :
    vsub (List.replicate n (0 : α)) (List.replicate n 0) = List.replicate n 0 := by
  induction n with
  | zero => rfl
  | succ n ih => simp [ih, List.replicate_succ]

theorem vadd_zeros_left (a : List α) : vadd (List.replicate a.length 0) a = a := by
  induction a with
  | nil => rfl
  | cons x a ih => simp [ih, List.replicate_succ]

theorem vadd_zeros_zeros (n : Nat) :
    vadd (List.replicate n (0 : α)) (List.replicate n 0) = List.replicate n 0 := by
  induction n with
  | zero => rfl
  | succ n ih => simp [ih, List.replicate_succ]

/-! ### histories of a common dimension and the dense operator -/

/-- All stored vectors have dimension `n`. -/
def WF (n : Nat) (h : List (Vec α × Vec α)) : Prop := ∀ p ∈ h, p.1.length = n ∧ p.2.length = n

theorem WF_nil (n : Nat) : WF n ([] : List (Vec α × Vec α)) := by intro p hp; simp at hp

theorem WF_cons {n : Nat} {s y : Vec α} {h : List (Vec α × Vec α)} :
    WF n ((s, y) :: h) ↔ (s.length = n ∧ y.length = n) ∧ WF n h := by
  simp [WF]

theorem WF_append {n : Nat} {h1 h2 : List (Vec α × Vec α)} :
    WF n (h1 ++ h2) ↔ WF n h1 ∧ WF n h2 := by
  simp only [WF, List.mem_append]
  constructor
  · intro h; exact ⟨fun p hp => h p (Or.inl hp), fun p hp => h p (Or.inr hp)⟩
  · rintro ⟨a, b⟩ p (hp | hp); exacts [a p hp, b p hp]

theorem WF_reverse {n : Nat} {h : List (Vec α × Vec α)} : WF n h.reverse ↔ WF n h := by
  simp [WF]

theorem Hrev_length {n : Nat} (γ : α) (h : List (Vec α × Vec α)) (hw : WF n h) (q : Vec α)
    (hq : q.length = n) : (Hrev γ h q).length = n := by
  induction h generalizing q with
  | nil => simp [Hrev, hq]
  | cons p older ih =>
    obtain ⟨s, y⟩ := p
    obtain ⟨⟨hs, hy⟩, hw'⟩ := WF_cons.mp hw
    simp only [Hrev]
    have h1 : (vsub q (smul (1 / dot y s * dot s q) y)).length = n := by
      rw [length_vsub _ _ (by simp [hq, hy]), hq]
    rw [length_vadd _ _ (by rw [length_smul, ih hw' _ h1, hs]), ih hw' _ h1]

/-- `⟨u, H v⟩ = ⟨H u, v⟩` (newest-first form). -/
theorem Hrev_symm {n : Nat} (γ : α) (h : List (Vec α × Vec α)) (hw : WF n h) (u v : Vec α)
    (hu : u.length = n) (hv : v.length = n) :
    dot u (Hrev γ h v) = dot (Hrev γ h u) v := by
  induction h generalizing u v with
  | nil => simp [Hrev, dot_smul_left, dot_smul_right]
  | cons p older ih =>
    obtain ⟨s, y⟩ := p
    obtain ⟨⟨hs, hy⟩, hw'⟩ := WF_cons.mp hw
    simp only [Hrev]
    set ρ := 1 / dot y s with hρ
    set Vu := vsub u (smul (ρ * dot s u) y) with hVu
    set Vv := vsub v (smul (ρ * dot s v) y) with hVv
    have lVu : Vu.length = n := by rw [hVu, length_vsub _ _ (by simp [hu, hy]), hu]
    have lVv : Vv.length = n := by rw [hVv, length_vsub _ _ (by simp [hv, hy]), hv]
    set ru := Hrev γ older Vu with hru
    set rv := Hrev γ older Vv with hrv
    have lru : ru.length = n := Hrev_length γ older hw' _ lVu
    have lrv : rv.length = n := Hrev_length γ older hw' _ lVv
    have key : dot Vu rv = dot ru Vv := ih hw' Vu Vv lVu lVv
    have e1 : dot Vu rv = dot u rv - ρ * dot s u * dot y rv := by
      rw [hVu, dot_vsub_left _ _ _ (by simp [hu, hy]), dot_smul_left]
    have e2 : dot ru Vv = dot ru v - ρ * dot s v * dot ru y := by
      rw [hVv, dot_vsub_right _ _ _ (by simp [hv, hy]), dot_smul_right]
    rw [e1, e2] at key
    rw [dot_vadd_right _ _ _ (by simp [lrv, hs]), dot_smul_right,
        dot_vadd_left _ _ _ (by simp [lru, hs]), dot_smul_left,
        dot_comm u s, dot_comm ru y] at *
    linear_combination key

/-- `H 0 = 0`. -/
theorem Hrev_zeros {n : Nat} (γ : α) (h : List (Vec α × Vec α)) (hw : WF n h) :
    Hrev γ h (List.replicate n 0) = List.replicate n 0 := by
  induction h with
  | nil => simp [Hrev]
  | cons p older ih =>
    obtain ⟨s, y⟩ := p
    obtain ⟨⟨hs, hy⟩, hw'⟩ := WF_cons.mp hw
    simp only [Hrev, dot_zeros_right, mul_zero]
    rw [smul_zero_left, hy, vsub_zeros_zeros, ih hw', dot_zeros_right, mul_zero, sub_self, smul_zero_left, hs,
        vadd_zeros_zeros]

/-- Secant equation: the operator maps the newest `y` to the newest `s`. -/
theorem Hrev_secant {n : Nat} (γ : α) (s y : Vec α) (older : List (Vec α × Vec α))
    (hw : WF n ((s, y) :: older)) (hys : dot y s ≠ 0) :
    Hrev γ ((s, y) :: older) y = s := by
  obtain ⟨⟨hs, hy⟩, hw'⟩ := WF_cons.mp hw
  simp only [Hrev]
  have h1 : 1 / dot y s * dot s y = 1 := by rw [dot_comm s y]; field_simp
  rw [h1, smul_one_left, vsub_self, hy, Hrev_zeros γ older hw', dot_zeros_right, mul_zero, sub_zero,
      smul_one_left]
  have := vadd_zeros_left s
  rwa [hs] at this

end field

section ordered
variable {α : Type} [Field α] [LinearOrder α] [IsStrictOrderedRing α]

theorem dot_self_nonneg (q : List α) : 0 ≤ dot q q := by
  induction q with
  | nil => simp
  | cons x q ih => simp only [dot_cons]; nlinarith [mul_self_nonneg x]

theorem dot_self_pos (q : List α) (hq : q ≠ List.replicate q.length 0) : 0 < dot q q := by
  induction q with
  | nil => simp at hq
  | cons x q ih =>
    simp only [dot_cons]
    by_cases hx : x = 0
    · subst hx
      have : q ≠ List.replicate q.length 0 := by
        intro h; apply hq; simp [List.replicate_succ]; exact h
      have := ih this
      linarith
    · have : 0 < x * x := mul_self_pos.mpr hx
      linarith [dot_self_nonneg q]

/-- Positive definiteness: all curvatures `⟨y,s⟩ > 0`, `γ₀ > 0`, `q ≠ 0` ⟹ `⟨q, H q⟩ > 0`. -/
theorem Hrev_posdef {n : Nat} (γ : α) (hγ : 0 < γ) (h : List (Vec α × Vec α)) (hw : WF n h)
    (hc : ∀ p ∈ h, 0 < dot p.2 p.1) (q : Vec α) (hq : q.length = n)
    (hq0 : q ≠ List.replicate n 0) : 0 < dot q (Hrev γ h q) := by
  induction h generalizing q with
  | nil =>
    simp only [Hrev, dot_smul_right]
    have := dot_self_pos q (by rwa [hq])
    exact mul_pos hγ this
  | cons p older ih =>
    obtain ⟨s, y⟩ := p
    obtain ⟨⟨hs, hy⟩, hw'⟩ := WF_cons.mp hw
    have hys : 0 < dot y s := hc (s, y) (by simp)
    have hc' : ∀ p ∈ older, 0 < dot p.2 p.1 := fun p hp => hc p (by simp [hp])
    simp only [Hrev]
    set ρ := 1 / dot y s with hρ
    have hρpos : 0 < ρ := one_div_pos.mpr hys
    set Vq := vsub q (smul (ρ * dot s q) y) with hVq
    have lVq : Vq.length = n := by rw [hVq, length_vsub _ _ (by simp [hq, hy]), hq]
    set r := Hrev γ older Vq with hr
    have lr : r.length = n := Hrev_length γ older hw' _ lVq
    have e1 : dot Vq r = dot q r - ρ * dot s q * dot y r := by
      rw [hVq, dot_vsub_left _ _ _ (by simp [hq, hy]), dot_smul_left]
    rw [dot_vadd_right _ _ _ (by simp [lr, hs]), dot_smul_right, dot_comm q s]
    have quad : dot q r + (ρ * dot s q - ρ * dot y r) * dot s q
        = dot Vq r + ρ * (dot s q * dot s q) := by rw [e1]; ring
    rw [quad]
    by_cases hV : Vq = List.replicate n 0
    · have hsq : dot s q ≠ 0 := by
        intro h0
        apply hq0
        have : Vq = q := by
          rw [hVq, h0, mul_zero, smul_zero_left, hy, ← hq, vsub_zeros_right]
        rw [← this, hV]
      have : 0 < dot s q * dot s q := mul_self_pos.mpr hsq
      rw [hV, dot_zeros_left]
      have := mul_pos hρpos this
      linarith
    · have := ih hw' hc' Vq lVq hV
      have h2 : 0 ≤ ρ * (dot s q * dot s q) := mul_nonneg hρpos.le (mul_self_nonneg _)
      linarith

end ordered
end Alpaqa.C09
