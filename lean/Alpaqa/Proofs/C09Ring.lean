/-
  C09 helper lemmas, part 2: the ring buffer.  Closed forms of the *generated* index functions
  (`lbfgsSucc`, `lbfgsPred`, `lbfgsForeachFwd`, `lbfgsForeachRev` — these lemmas stop compiling when
  the C++ loops / index formulas change), the ring-to-list refinement, and the two passes of
  `apply` as a structural recursion (`twoLoop`).
-/
import Alpaqa.Proofs.C09Vec
import Mathlib.Tactic.Ring

namespace Alpaqa.C09
open Alpaqa
set_option linter.unusedSectionVars false

/-! ### `for` loops -/

theorem forIdx_up (hi : Nat) : ∀ (fuel lo : Nat), hi - lo < fuel →
    forIdx (fun i => (decide (i < hi), i)) (fun i => i + 1) fuel lo = List.range' lo (hi - lo) := by
  intro fuel
  induction fuel with
  | zero => intro lo h; omega
  | succ fuel ih =>
    intro lo h
    simp only [forIdx]
    by_cases hlt : lo < hi
    · simp only [hlt, decide_true, if_true]
      rw [ih (lo + 1) (by omega)]
      have : hi - lo = (hi - (lo + 1)) + 1 := by omega
      rw [this, List.range'_succ]
    · have : hi - lo = 0 := by omega
      simp [hlt, this]

theorem forIdx_down (lo : Nat) : ∀ (fuel hi : Nat), hi - lo < fuel →
    forIdx (fun i => (decide (i > lo), i - 1)) (fun i => i) fuel hi
      = (List.range' lo (hi - lo)).reverse := by
  intro fuel
  induction fuel with
  | zero => intro hi h; omega
  | succ fuel ih =>
    intro hi h
    simp only [forIdx]
    by_cases hlt : hi > lo
    · simp only [hlt, decide_true, if_true]
      rw [ih (hi - 1) (by omega)]
      have : hi - lo = (hi - 1 - lo) + 1 := by omega
      rw [this, List.range'_concat, List.reverse_append]
      have : lo + 1 * (hi - 1 - lo) = hi - 1 := by omega
      rw [this]; simp
    · have : hi - lo = 0 := by omega
      simp [hlt, this]

/-! ### closed forms of the generated ring index functions -/

theorem succ_eq (m i : Nat) : Gen.lbfgsSucc m i = if i + 1 < m then i + 1 else 0 := by
  simp [Gen.lbfgsSucc]

theorem pred_eq (m i : Nat) : Gen.lbfgsPred m i = if 0 < i then i - 1 else m - 1 := by
  simp [Gen.lbfgsPred]

theorem currentHistory_eq (m idx : Nat) (full : Bool) :
    Gen.lbfgsCurrentHistory m idx full = if full then m else idx := by
  simp [Gen.lbfgsCurrentHistory]

/-- `foreach_fwd` visits `idx, …, m−1` (when full) then `0, …, idx−1`. -/
theorem foreachFwd_eq (m idx : Nat) (full : Bool) (h : idx < m) :
    Gen.lbfgsForeachFwd m idx full
      = (if full then List.range' idx (m - idx) else []) ++ List.range' 0 idx := by
  unfold Gen.lbfgsForeachFwd
  rw [forIdx_up m (m + 2) idx (by omega), forIdx_up idx (m + 2) 0 (by omega)]
  by_cases h0 : idx = 0
  · subst h0; simp
  · have : (idx != 0) = true := by simpa using h0
    simp [this]

/-- `foreach_rev` visits `idx−1, …, 0` then (when full) `m−1, …, idx`. -/
theorem foreachRev_eq (m idx : Nat) (full : Bool) (h : idx < m) :
    Gen.lbfgsForeachRev m idx full
      = (List.range' 0 idx).reverse ++ (if full then (List.range' idx (m - idx)).reverse else []) := by
  unfold Gen.lbfgsForeachRev
  rw [forIdx_down 0 (m + 2) idx (by omega), forIdx_down idx (m + 2) m (by omega)]
  by_cases h0 : idx = 0
  · subst h0; simp
  · have : (idx != 0) = true := by simpa using h0
    simp [this]

theorem foreachRev_eq_reverse (m idx : Nat) (full : Bool) (h : idx < m) :
    Gen.lbfgsForeachRev m idx full = (Gen.lbfgsForeachFwd m idx full).reverse := by
  rw [foreachRev_eq m idx full h, foreachFwd_eq m idx full h]
  cases full <;> simp

theorem foreachFwd_nodup (m idx : Nat) (full : Bool) (h : idx < m) :
    (Gen.lbfgsForeachFwd m idx full).Nodup := by
  rw [foreachFwd_eq m idx full h, List.nodup_append]
  refine ⟨?_, List.nodup_range' 1, ?_⟩
  · cases full
    · simp
    · simpa using List.nodup_range' (s := idx) (n := m - idx) 1
  · intro a ha b hb
    cases full
    · simp at ha
    · simp only [if_true, List.mem_range'_1] at ha hb
      omega

theorem foreachFwd_lt (m idx : Nat) (full : Bool) (h : idx < m) :
    ∀ i ∈ Gen.lbfgsForeachFwd m idx full, i < m := by
  rw [foreachFwd_eq m idx full h]
  intro i hi
  rw [List.mem_append] at hi
  rcases hi with hi | hi
  · cases full
    · simp at hi
    · simp only [if_true, List.mem_range'_1] at hi; omega
  · simp only [List.mem_range'_1] at hi; omega

/-! ### reading a list through an index range -/

theorem map_getD_range' {β : Type} (l : List β) (d : β) : ∀ (k a : Nat), a + k ≤ l.length →
    (List.range' a k).map (fun i => l.getD i d) = (l.drop a).take k := by
  intro k
  induction k with
  | zero => intro a _; simp
  | succ k ih =>
    intro a h
    have ha : a < l.length := by omega
    rw [List.range'_succ, List.map_cons, ih (a + 1) (by omega), List.drop_eq_getElem_cons ha,
        List.take_succ_cons]
    simp [List.getD_eq_getElem?_getD, ha]

section model
variable {α : Type} [Field α] [LinearOrder α] [IsStrictOrderedRing α]
  [RealLike α] [PowLike α] [HasNaN α]

/-- Ring invariant: at least one slot, `idx` in range, the `α` row as long as the ring. -/
structure Inv (st : State α) : Prop where
  pos : 0 < st.slots.length
  idx_lt : st.idx < st.slots.length
  al_len : st.al.length = st.slots.length

/-- `foreach_fwd` enumerates the stored slots oldest first. -/
theorem fwdIdx_map_slot (st : State α) (hI : Inv st) : st.fwdIdx.map st.slot = st.pairs := by
  unfold State.fwdIdx State.history State.pairs
  rw [foreachFwd_eq _ _ _ hI.idx_lt, List.map_append]
  have h2 : (List.range' 0 st.idx).map st.slot = st.slots.take st.idx := by
    have := map_getD_range' st.slots default st.idx 0 (by have := hI.idx_lt; omega)
    rw [List.drop_zero] at this
    exact this
  rw [h2]
  cases st.full
  · simp
  · have := map_getD_range' st.slots default (st.slots.length - st.idx) st.idx
      (by have := hI.idx_lt; omega)
    simp only [if_true]
    have h3 : (List.range' st.idx (st.slots.length - st.idx)).map st.slot
        = st.slots.drop st.idx := by
      unfold State.slot
      rw [this, List.take_of_length_le (by simp)]
    rw [h3]

theorem revIdx_map_slot (st : State α) (hI : Inv st) :
    st.revIdx.map st.slot = st.pairs.reverse := by
  unfold State.revIdx State.history
  rw [foreachRev_eq_reverse _ _ _ hI.idx_lt, List.map_reverse]
  exact congrArg _ (fwdIdx_map_slot st hI)

theorem pairs_length (st : State α) (hI : Inv st) :
    st.pairs.length = if st.full then st.slots.length else st.idx := by
  unfold State.pairs
  have := hI.idx_lt
  cases st.full <;> simp <;> omega

/-- Decomposition of the ring at the write position. -/
theorem ring_decomp {β : Type} (l : List β) (i : Nat) (h : i < l.length) :
    ∃ A b B, l = A ++ b :: B ∧ A.length = i :=
  ⟨l.take i, l[i], l.drop (i + 1), by
    rw [← List.drop_eq_getElem_cons h, List.take_append_drop], by simp; omega⟩

/-- Storing at `idx` and advancing: the age-ordered content becomes the old one with the new
    pair appended, truncated to the last `memory` entries. -/
theorem pairs_push (st : State α) (hI : Inv st) (c : Slot α) :
    let idx' := Gen.lbfgsSucc st.history st.idx
    let st' : State α := { st with slots := st.slots.set st.idx c, idx := idx',
                                    full := st.full || idx' == 0 }
    st'.pairs = (st.pairs ++ [c]).drop ((st.pairs ++ [c]).length - st.slots.length) := by
  intro idx' st'
  obtain ⟨A, b, B, hL, hA⟩ := ring_decomp st.slots st.idx hI.idx_lt
  have hlen := pairs_length st hI
  show (if (st.full || idx' == 0) then (st.slots.set st.idx c).drop idx' ++ (st.slots.set st.idx c).take idx'
        else (st.slots.set st.idx c).take idx') = _
  have hidx' : idx' = if st.idx + 1 < st.slots.length then st.idx + 1 else 0 := succ_eq _ _
  have hset : st.slots.set st.idx c = A ++ c :: B := by rw [hL, ← hA]; simp
  have hp : st.pairs = if st.full then (b :: B) ++ A else A := by
    unfold State.pairs; rw [hL, ← hA]; cases st.full <;> simp
  rw [hset, hp, hL]
  have hAl : A.length = st.idx := hA
  by_cases hlt : st.idx + 1 < st.slots.length
  · have hi : idx' = A.length + 1 := by rw [hidx', if_pos hlt, hA]
    have hne : (idx' == 0) = false := by rw [hi]; simp
    rw [hne, Bool.or_false, hi]
    cases hf : st.full
    · simp [List.take_append]
    · simp only [if_true, List.length_append, List.length_cons, List.length_nil]
      have : B.length + 1 + A.length + (0 + 1) - (A.length + (B.length + 1)) = 1 := by omega
      rw [this]
      simp [List.take_append]
  · have hB : B = [] := by
      have : st.slots.length = A.length + (B.length + 1) := by rw [hL]; simp
      have : B.length = 0 := by omega
      exact List.eq_nil_of_length_eq_zero this
    subst hB
    have hi : idx' = 0 := by rw [hidx', if_neg hlt]
    rw [hi]
    cases hf : st.full <;> simp

/-! ### the two passes of `apply` -/

theorem revPass_cons (slots : List (Slot α)) (i : Nat) (is : List Nat) (al : List α) (q : Vec α) :
    revPass slots (i :: is) al q
      = revPass slots is (al.set i ((slots.getD i default).rho * dot (slots.getD i default).s q))
          (vsub q (smul ((slots.getD i default).rho * dot (slots.getD i default).s q)
            (slots.getD i default).y)) := by
  simp [revPass]

theorem revPass_length (slots : List (Slot α)) (is : List Nat) (al : List α) (q : Vec α) :
    (revPass slots is al q).1.length = al.length := by
  induction is generalizing al q with
  | nil => simp [revPass]
  | cons i is ih => rw [revPass_cons, ih]; simp

theorem revPass_frame (slots : List (Slot α)) (is : List Nat) (al : List α) (q : Vec α) (j : Nat)
    (hj : j ∉ is) : (revPass slots is al q).1.getD j 0 = al.getD j 0 := by
  induction is generalizing al q with
  | nil => simp [revPass]
  | cons i is ih =>
    rw [revPass_cons, ih _ _ (fun h => hj (List.mem_cons_of_mem _ h))]
    have hne : i ≠ j := fun h => hj (by simp [h])
    simp [List.getD_eq_getElem?_getD, List.getElem?_set_ne hne]

theorem fwdPass_append (slots : List (Slot α)) (al : List α) (xs : List Nat) (i : Nat) (q : Vec α) :
    fwdPass slots al (xs ++ [i]) q
      = vsub (fwdPass slots al xs q)
          (smul ((slots.getD i default).rho * dot (slots.getD i default).y (fwdPass slots al xs q)
                  - al.getD i 0) (slots.getD i default).s) := by
  simp [fwdPass, List.foldl_append]

/-- The two loops of `apply` over a duplicate-free index list compute the structural two-loop
    recursion over the visited slots. -/
theorem passes_eq_twoLoop (slots : List (Slot α)) (γ : α) (is : List Nat) (al : List α) (q : Vec α)
    (hnd : is.Nodup) (hlt : ∀ i ∈ is, i < al.length) :
    fwdPass slots (revPass slots is al q).1 is.reverse (smul γ (revPass slots is al q).2)
      = twoLoop γ (is.map fun i => slots.getD i default) q := by
  induction is generalizing al q with
  | nil => simp [revPass, fwdPass, twoLoop]
  | cons i is ih =>
    obtain ⟨hi, hnd'⟩ := List.nodup_cons.mp hnd
    rw [revPass_cons, List.reverse_cons, fwdPass_append, List.map_cons, twoLoop]
    set c := slots.getD i default
    set a := c.rho * dot c.s q
    have hlt' : ∀ j ∈ is, j < (al.set i a).length := by
      intro j hj; rw [List.length_set]; exact hlt j (List.mem_cons_of_mem _ hj)
    rw [ih (al.set i a) (vsub q (smul a c.y)) hnd' hlt', revPass_frame _ _ _ _ _ hi]
    have : (al.set i a).getD i 0 = a := by
      have := hlt i (by simp)
      simp [List.getD_eq_getElem?_getD, this]
    rw [this]

/-- With the stored `ρ = 1/⟨y,s⟩`, the two-loop recursion is the dense operator. -/
theorem twoLoop_eq_Hrev (γ : α) (cs : List (Slot α)) (q : Vec α)
    (hρ : ∀ c ∈ cs, c.rho = 1 / dot c.y c.s) :
    twoLoop γ cs q = Hrev γ (cs.map fun c => (c.s, c.y)) q := by
  induction cs generalizing q with
  | nil => rfl
  | cons c cs ih =>
    have hc := hρ c (by simp)
    have ih' := fun q => ih q (fun c' h => hρ c' (by simp [h]))
    simp only [twoLoop, List.map_cons, Hrev]
    rw [← hc, ih', vsub_smul_eq_vadd]

end model
end Alpaqa.C09
