/-
  C08: the FISTA loop model (`Alpaqa/Model/Fista.lean`) under oracle contracts.

  `Spec` states what the problem oracles are assumed to compute (ψ, ∇ψ consistent across the
  four evaluation entry points; the prox step returns `x̂`, `p = x̂ − x`, `h(x̂)`, lands in `dom h`
  and satisfies the optimality inequality of a prox of a convex `h`; ψ is convex).  Under `Spec`
  every pass of the model's prox / backtracking stage yields Beck–Teboulle's three-point
  inequality *at the accepted step size* (`proxStage_three_point`): the quadratic upper bound is
  the one the loop checks through the generated `fista_qubViolated` (or the assumed one for
  `L = L_max`), and `γ·L = Lγ_factor ≤ 1` turns it into the `1/γ` bound.
-/
import Alpaqa.Proofs.C08Scalar
import Alpaqa.Proofs.C08Vec
import Alpaqa.Proofs.FistaInv

namespace Alpaqa.C08
open Alpaqa Alpaqa.Fista Alpaqa.Gen
set_option linter.unusedSectionVars false

variable {α : Type} [Field α] [LinearOrder α] [IsStrictOrderedRing α] [RealLike α]

/-- Oracle contract for vectors of length `n`. -/
structure Spec (n : ℕ) (P : Problem α) (ψ : List α → α) (grad : List α → List α)
    (h : List α → α) (dom : List α → Prop) : Prop where
  grad_len : ∀ x, x.length = n → (grad x).length = n
  gradPsi_eq : ∀ x, P.gradPsi x = grad x
  psiGrad_eq : ∀ x, (P.psiGradPsi x).1 = ψ x ∧ (P.psiGradPsi x).2.1 = grad x
  psi_eq : ∀ x, (P.psi x).1 = ψ x
  prox_len : ∀ γ x g, x.length = n → g.length = n → (P.prox γ x g).2.1.length = n
  prox_p : ∀ γ x g, (P.prox γ x g).2.2 = vsub (P.prox γ x g).2.1 x
  prox_h : ∀ γ x g, (P.prox γ x g).1 = h (P.prox γ x g).2.1
  prox_dom : ∀ γ x g, x.length = n → g.length = n → dom (P.prox γ x g).2.1
  /-- optimality of the prox step (subgradient form; follows from the minimiser form
      `ProxContract` for convex `h`, see `prox_sub_of_min`) -/
  prox_sub : ∀ γ x g z, 0 < γ → x.length = n → g.length = n → dom z → z.length = n →
    γ * h (P.prox γ x g).2.1 +
        ipN n (toFn x - γ • toFn g - toFn (P.prox γ x g).2.1) (toFn z - toFn (P.prox γ x g).2.1)
      ≤ γ * h z
  /-- convexity of ψ (first-order form) -/
  convex : ∀ x z, x.length = n → z.length = n →
    ψ x + ipN n (toFn (grad x)) (toFn z - toFn x) ≤ ψ z

/-- `L_max` is a valid constant for the quadratic upper bound (used when the step size is fixed,
    `L = L_max`, and as the fallback when backtracking stops at `L ≥ L_max`). -/
def QubMax (n : ℕ) (ψ : List α → α) (grad : List α → List α) (Lmax : α) : Prop :=
  ∀ x z, x.length = n → z.length = n →
    ψ z ≤ ψ x + ipN n (toFn (grad x)) (toFn z - toFn x)
      + Lmax / 2 * ipN n (toFn z - toFn x) (toFn z - toFn x)

/-- Parameter validity used by the theorems. -/
structure ParamOK (pr : Params α) : Prop where
  lgf_pos : 0 < pr.LgammaFactor
  lgf_le : pr.LgammaFactor ≤ 1
  tol_nonneg : 0 ≤ pr.qubTol
  lmin_pos : 0 < pr.Lmin
  lmin_le : pr.Lmin ≤ pr.Lmax

/-- rounding margin of the accepted quadratic upper bound -/
def marginQ (pr : Params α) (ψx : α) : α :=
  if fixedLip pr then 0 else (1 + |ψx|) * pr.qubTol

theorem marginQ_nonneg (pr : Params α) (hp : ParamOK pr) (ψx : α) : 0 ≤ marginQ pr ψx := by
  unfold marginQ; split_ifs
  · exact le_refl _
  · exact mul_nonneg (by positivity) hp.tol_nonneg

/-- `c` is a consistent forward-backward step from `(x, g)` with `g = ∇ψ(x)`. -/
structure Stepped (n : ℕ) (P : Problem α) (pr : Params α) (ψ : List α → α) (h : List α → α)
    (x g : List α) (c : Iterate α) : Prop where
  hx : c.x = x
  hg : c.gradPsi = g
  hpsix : fixedLip pr = false → c.psix = ψ x
  hγ : 0 < c.gamma
  hγL : c.gamma * c.L = pr.LgammaFactor
  hLfix : fixedLip pr = true → c.L = pr.Lmax
  hxhat : c.xhat = (P.prox c.gamma x g).2.1
  hp : c.p = vsub c.xhat x
  hh : c.hxhat = h c.xhat
  hpTp : c.pTp = sqNorm c.p
  hgTp : c.gradPsiTp = dot c.p g
  hpsih : fixedLip pr = false → c.psixhat = ψ c.xhat

theorem stepped_evalStep {n : ℕ} {P : Problem α} {pr : Params α} {ψ : List α → α}
    {grad : List α → List α} {h : List α → α} {dom : List α → Prop} (S : Spec n P ψ grad h dom)
    (i : Iterate α) (hγ : 0 < i.gamma) (hγL : i.gamma * i.L = pr.LgammaFactor)
    (hLfix : fixedLip pr = true → i.L = pr.Lmax) (hpsix : fixedLip pr = false → i.psix = ψ i.x) :
    Stepped n P pr ψ h i.x i.gradPsi (evalPsiHat P (evalProxGradStep P i)) := by
  unfold evalPsiHat evalProxGradStep
  exact { hx := rfl, hg := rfl, hpsix := hpsix, hγ := hγ, hγL := hγL, hLfix := hLfix, hxhat := rfl,
          hp := S.prox_p _ _ _, hh := S.prox_h _ _ _, hpTp := rfl, hgTp := rfl,
          hpsih := fun _ => S.psi_eq _ }


section
variable {n : ℕ} {P : Problem α} {pr : Params α} {ψ : List α → α} {grad : List α → List α}
  {h : List α → α} {dom : List α → Prop}

/-- The backtracking loop keeps the step consistent, never increases `γ`, and — unless the model
    fuel ran out or the loop was left through its stop poll (the flag is visible at the tick it ends
    at) — ends with `L ≥ L_max` or the generated QUB test passed. -/
theorem qubLoop_stepped (S : Spec n P ψ grad h dom) (stop : ℕ → Bool) (f : ℕ) (c : Iterate α)
    (t b : ℕ) (x g : List α) (hc : Stepped n P pr ψ h x g c) :
    Stepped n P pr ψ h x g (qubLoop P pr stop f c t b).1 ∧
    (qubLoop P pr stop f c t b).1.gamma ≤ c.gamma ∧
    ((qubLoop P pr stop f c t b).2.2.2 = false → stop (qubLoop P pr stop f c t b).2.1 = false →
      (decide ((qubLoop P pr stop f c t b).1.L < pr.Lmax) && qubViolated pr (qubLoop P pr stop f c t b).1) = false) := by
  induction f generalizing c t b with
  | zero => exact ⟨hc, le_refl _, fun hf => by simp [qubLoop] at hf⟩
  | succ f ih =>
    unfold qubLoop
    by_cases hstop : stop t = true
    · simp only [hstop, if_true]
      exact ⟨hc, le_refl _, fun _ hs => absurd hs (by decide)⟩
    simp only [hstop, Bool.false_eq_true, if_false]
    by_cases hcond : (decide (c.L < pr.Lmax) && qubViolated pr c) = true
    · simp only [hcond, if_true]
      have hlt : c.L < pr.Lmax := by
        have := (Bool.and_eq_true _ _).mp hcond
        exact of_decide_eq_true this.1
      have hnf : fixedLip pr = false := by
        cases hfx : fixedLip pr
        · rfl
        · have := hc.hLfix hfx; rw [this] at hlt; exact absurd hlt (lt_irrefl _)
      have hγ2 : 0 < c.gamma / 2 := by have := hc.hγ; positivity
      have hst := stepped_evalStep (pr := pr) S
        { c with gamma := (fista_backtrack c.gamma c.L).1, L := (fista_backtrack c.gamma c.L).2 }
        (by simpa [fista_backtrack] using hγ2)
        (by simp only [fista_backtrack]; rw [← hc.hγL]; ring)
        (fun hfx => by rw [hnf] at hfx; exact absurd hfx (by decide))
        (by intro _; simpa [hc.hx] using hc.hpsix hnf)
      have hst' : Stepped n P pr ψ h x g (evalPsiHat P (evalProxGradStep P
          { c with gamma := (fista_backtrack c.gamma c.L).1, L := (fista_backtrack c.gamma c.L).2 })) := by
        have e1 := hc.hx; have e2 := hc.hg
        subst e1; subst e2; exact hst
      obtain ⟨h1, h2, h3⟩ := ih _ (t + 2) (b + 1) hst'
      refine ⟨h1, le_trans h2 ?_, h3⟩
      simp only [evalPsiHat, evalProxGradStep, fista_backtrack]
      linarith [hc.hγ]
    · have hcf : (decide (c.L < pr.Lmax) && qubViolated pr c) = false := by
        simpa using hcond
      rw [if_neg (by rw [hcf]; decide)]
      exact ⟨hc, le_refl _, fun _ _ => hcf⟩


theorem stepped_xhat_len (S : Spec n P ψ grad h dom) {x : List α} (hx : x.length = n)
    {c : Iterate α} (hc : Stepped n P pr ψ h x (grad x) c) : c.xhat.length = n := by
  rw [hc.hxhat]; exact S.prox_len _ _ _ hx (S.grad_len x hx)

/-- The accepted step satisfies the quadratic upper bound with constant `1/γ` (up to the
    documented rounding margin of the generated test). -/
theorem stepped_qub (S : Spec n P ψ grad h dom) (hp : ParamOK pr) (hQ : QubMax n ψ grad pr.Lmax)
    {x : List α} (hx : x.length = n) {c : Iterate α} (hc : Stepped n P pr ψ h x (grad x) c)
    (hacc : (decide (c.L < pr.Lmax) && qubViolated pr c) = false) :
    2 * c.gamma * ψ c.xhat ≤
      2 * c.gamma * (ψ x + ipN n (toFn (grad x)) (toFn c.xhat - toFn x) + marginQ pr (ψ x))
        + ipN n (toFn c.xhat - toFn x) (toFn c.xhat - toFn x) := by
  have hxh := stepped_xhat_len S hx hc
  have hA := (isIP_ipN (α := α) n).nonneg (toFn c.xhat - toFn x)
  have hm := marginQ_nonneg pr hp (ψ x)
  have hγ := hc.hγ
  have hγL : c.gamma * c.L ≤ 1 := by rw [hc.hγL]; exact hp.lgf_le
  by_cases hlt : c.L < pr.Lmax
  · -- the generated test passed
    have hnf : fixedLip pr = false := by
      cases hfx : fixedLip pr
      · rfl
      · have := hc.hLfix hfx; rw [this] at hlt; exact absurd hlt (lt_irrefl _)
    have hv : qubViolated pr c = false := by
      simpa [hlt] using hacc
    unfold qubViolated fista_qubViolated at hv
    simp only [Bool.not_eq_false', decide_eq_true_eq, eabs_eq_abs] at hv
    have hplen : c.p.length = n := by rw [hc.hp, length_vsub _ _ (by rw [hxh, hx]), hxh]
    have hpfn : toFn c.p = toFn c.xhat - toFn x := by rw [hc.hp, toFn_vsub _ _ (by rw [hxh, hx])]
    rw [hc.hpsih hnf, hc.hpsix hnf, hc.hgTp, hc.hpTp, sqNorm_eq_ipN,
      dot_eq_ipN _ _ (by rw [hplen, S.grad_len x hx]), hplen, hpfn,
      (isIP_ipN (α := α) n).comm (toFn c.xhat - toFn x) (toFn (grad x))] at hv
    have hmq : marginQ pr (ψ x) = (1 + |ψ x|) * pr.qubTol := by simp [marginQ, hnf]
    rw [hmq]
    have h05 : (0.5 : α) = 1 / 2 := by norm_num
    rw [h05] at hv
    generalize ipN n (toFn c.xhat - toFn x) (toFn c.xhat - toFn x) = A at *
    generalize ipN n (toFn (grad x)) (toFn c.xhat - toFn x) = G at *
    nlinarith [mul_le_mul_of_nonneg_left hv hγ.le, mul_le_mul_of_nonneg_right hγL hA]
  · -- `L ≥ L_max`: the assumed bound
    have hq := hQ x c.xhat hx hxh
    have hL : pr.Lmax ≤ c.L := not_lt.mp hlt
    generalize ipN n (toFn c.xhat - toFn x) (toFn c.xhat - toFn x) = A at *
    generalize ipN n (toFn (grad x)) (toFn c.xhat - toFn x) = G at *
    nlinarith [mul_le_mul_of_nonneg_left hq hγ.le, mul_le_mul_of_nonneg_right hγL hA,
      mul_le_mul_of_nonneg_right hL hA, mul_nonneg hγ.le hm,
      mul_le_mul_of_nonneg_left (mul_le_mul_of_nonneg_right hL hA) hγ.le]

/-- **Three-point inequality of an accepted model step**, towards any `z ∈ dom h`. -/
theorem stepped_three_point (S : Spec n P ψ grad h dom) (hp : ParamOK pr)
    (hQ : QubMax n ψ grad pr.Lmax) {x : List α} (hx : x.length = n) {c : Iterate α}
    (hc : Stepped n P pr ψ h x (grad x) c)
    (hacc : (decide (c.L < pr.Lmax) && qubViolated pr c) = false)
    (z : List α) (hz : dom z) (hzl : z.length = n) :
    ipN n (toFn c.xhat - toFn x) (toFn c.xhat - toFn x)
        + 2 * ipN n (toFn x - toFn z) (toFn c.xhat - toFn x) - 2 * c.gamma * marginQ pr (ψ x)
      ≤ 2 * c.gamma * ((ψ z + h z) - (ψ c.xhat + h c.xhat)) := by
  have hq := stepped_qub S hp hQ hx hc hacc
  have hconv := S.convex x z hx hzl
  have hprox := S.prox_sub c.gamma x (grad x) z hc.hγ hx (S.grad_len x hx) hz hzl
  rw [← hc.hxhat] at hprox
  exact fb_three_point (isIP_ipN n) hc.hγ hconv hq hprox


/-! ### One pass of the loop body -/

/-- state consistency at the top of the loop body -/
structure TopCons (n : ℕ) (pr : Params α) (ψ : List α → α) (grad : List α → List α) (s : St α) :
    Prop where
  xlen : s.curr.x.length = n
  xhlen : s.curr.xhat.length = n
  hg : s.curr.gradPsi = grad s.curr.x
  hpsix : fixedLip pr = false → s.curr.psix = ψ s.curr.x
  hγ : 0 < s.curr.gamma
  hγL : s.curr.gamma * s.curr.L = pr.LgammaFactor
  hLfix : fixedLip pr = true → s.curr.L = pr.Lmax

theorem stepped_evalProx (S : Spec n P ψ grad h dom)
    (i : Iterate α) (hγ : 0 < i.gamma) (hγL : i.gamma * i.L = pr.LgammaFactor)
    (hLfix : fixedLip pr = true → i.L = pr.Lmax) (hfix : fixedLip pr = true) :
    Stepped n P pr ψ h i.x i.gradPsi (evalProxGradStep P i) := by
  unfold evalProxGradStep
  exact { hx := rfl, hg := rfl, hpsix := fun hc => by rw [hfix] at hc; exact absurd hc (by decide),
          hγ := hγ, hγL := hγL, hLfix := hLfix, hxhat := rfl,
          hp := S.prox_p _ _ _, hh := S.prox_h _ _ _, hpTp := rfl, hgTp := rfl,
          hpsih := fun hc => by rw [hfix] at hc; exact absurd hc (by decide) }

theorem stepped_evalGradPsiHat {x g : List α} {c : Iterate α} (hc : Stepped n P pr ψ h x g c) :
    Stepped n P pr ψ h x g (evalGradPsiHat P c) := by
  unfold evalGradPsiHat
  exact { hx := hc.hx, hg := hc.hg, hpsix := hc.hpsix, hγ := hc.hγ, hγL := hc.hγL, hLfix := hc.hLfix,
          hxhat := hc.hxhat, hp := hc.hp, hh := hc.hh, hpTp := hc.hpTp, hgTp := hc.hgTp,
          hpsih := hc.hpsih }

theorem firstStep_stepped (S : Spec n P ψ grad h dom) (s : St α) (hs : TopCons n pr ψ grad s) :
    Stepped n P pr ψ h s.curr.x (grad s.curr.x) (firstStep P pr s) := by
  have h3g : ∀ g, s.curr.gradPsi = g → Stepped n P pr ψ h s.curr.x g (firstStep P pr s) := by
    intro g hg
    subst hg
    have hA := stepped_evalStep (pr := pr) S { s.curr with xhat := s.prev } hs.hγ hs.hγL hs.hLfix hs.hpsix
    unfold firstStep
    simp only []
    cases hf : fixedLip pr <;> cases hn : needGradHat pr <;>
      simp only [Bool.not_true, Bool.not_false, Bool.or_true, Bool.or_false,
        if_true, if_false, Bool.false_eq_true]
    · exact hA
    · exact hA
    · exact stepped_evalProx (pr := pr) S { s.curr with xhat := s.prev } hs.hγ hs.hγL hs.hLfix hf
    · exact hA
  exact h3g _ hs.hg

theorem withGradHat_fields (c : Iterate α) :
    (withGradHat P pr c).gamma = c.gamma ∧ (withGradHat P pr c).L = c.L ∧
    qubViolated pr (withGradHat P pr c) = qubViolated pr c := by
  unfold withGradHat; split_ifs
  · exact ⟨rfl, rfl, rfl⟩
  · exact ⟨rfl, rfl, rfl⟩

theorem withGradHat_stepped {x g : List α} {c : Iterate α} (hc : Stepped n P pr ψ h x g c) :
    Stepped n P pr ψ h x g (withGradHat P pr c) := by
  unfold withGradHat; split_ifs
  · exact stepped_evalGradPsiHat hc
  · exact hc

/-- The tick at which the backtracking loop of the pass starting in `s` ends (= the tick of its last
    stop poll). -/
def qubEndTick (P : Problem α) (pr : Params α) (stop : ℕ → Bool) (s : St α) : ℕ :=
  (qubLoop P pr stop pr.qubFuel (firstStep P pr s) (firstTick pr s) s.backtracks).2.1

theorem qubEndTick_le (P : Problem α) (pr : Params α) (stop : ℕ → Bool) (s : St α) :
    qubEndTick P pr stop s ≤ (proxStage P pr stop s).tick := by
  unfold qubEndTick proxStage; simp only []; omega

/-- The prox / backtracking stage: consistent accepted step from `(xₖ, ∇ψ(xₖ))`, `γ` not
    increased, `prev_x̂` = the previous `x̂`; the step is *accepted* (generated QUB test passed or
    `L ≥ L_max`) unless the backtracking loop was left through its stop poll. -/
theorem proxStage_stepped (S : Spec n P ψ grad h dom) (stop : ℕ → Bool) (s : St α)
    (hs : TopCons n pr ψ grad s) :
    Stepped n P pr ψ h s.curr.x (grad s.curr.x) (proxStage P pr stop s).curr ∧
    (proxStage P pr stop s).curr.gamma ≤ s.curr.gamma ∧
    ((proxStage P pr stop s).fuelOut = false → stop (qubEndTick P pr stop s) = false →
      (decide ((proxStage P pr stop s).curr.L < pr.Lmax) && qubViolated pr (proxStage P pr stop s).curr) = false) ∧
    (proxStage P pr stop s).prev = s.curr.xhat ∧ (proxStage P pr stop s).t = s.t ∧ (proxStage P pr stop s).k = s.k := by
  have h3 := firstStep_stepped S s hs
  have hq := qubLoop_stepped (pr := pr) S stop pr.qubFuel _ (firstTick pr s) s.backtracks _ _ h3
  have hγ1 : (firstStep P pr s).gamma = s.curr.gamma := by
    unfold firstStep; simp only []; split_ifs <;> rfl
  unfold proxStage
  simp only []
  refine ⟨withGradHat_stepped hq.1, ?_, ?_, by first | rfl | trivial, by first | rfl | trivial,
    by first | rfl | trivial⟩
  · rw [(withGradHat_fields _).1, ← hγ1]; exact hq.2.1
  · intro hfo hns
    have hb : (qubLoop P pr stop pr.qubFuel (firstStep P pr s) (firstTick pr s) s.backtracks).2.2.2 = false := by
      cases hb : (qubLoop P pr stop pr.qubFuel (firstStep P pr s) (firstTick pr s) s.backtracks).2.2.2
      · rfl
      · rw [hb] at hfo; simp at hfo
    rw [(withGradHat_fields _).2.1, (withGradHat_fields _).2.2]
    exact hq.2.2 hb hns

end

section
variable {n : ℕ} {P : Problem α} {pr : Params α} {ψ : List α → α} {grad : List α → List α}
  {h : List α → α} {dom : List α → Prop}

/-! ### Lyapunov invariant of the accelerated loop -/

/-- the comparison point `x⋆` (a minimiser of `F = ψ + h` over `dom h`) -/
structure Target (n : ℕ) (ψ h : List α → α) (dom : List α → Prop) (xs : List α) (Fs : α) : Prop where
  xs_len : xs.length = n
  xs_dom : dom xs
  Fs_eq : Fs = ψ xs + h xs
  Fs_min : ∀ z, dom z → z.length = n → Fs ≤ ψ z + h z

/-- `2γ(t²−t)(F(x̂ₖ₋₁) − F⋆) + ‖t xₖ − (t−1) x̂ₖ₋₁ − x⋆‖²` at the top of pass `k` -/
def preQ (n : ℕ) (ψ h : List α → α) (xs : List α) (Fs : α) (s : St α) : α :=
  2 * s.curr.gamma * (s.t ^ 2 - s.t) * (ψ s.curr.xhat + h s.curr.xhat - Fs) +
    ipN n (s.t • toFn s.curr.x - (s.t - 1) • toFn s.curr.xhat - toFn xs)
      (s.t • toFn s.curr.x - (s.t - 1) • toFn s.curr.xhat - toFn xs)

/-- `Eₖ = 2γₖ tₖ² (F(x̂ₖ) − F⋆) + ‖tₖ x̂ₖ − (tₖ−1) x̂ₖ₋₁ − x⋆‖²` after the prox stage of pass `k` -/
def postQ (n : ℕ) (ψ h : List α → α) (xs : List α) (Fs : α) (s : St α) : α :=
  2 * s.curr.gamma * s.t ^ 2 * (ψ s.curr.xhat + h s.curr.xhat - Fs) +
    ipN n (s.t • toFn s.curr.xhat - (s.t - 1) • toFn s.prev - toFn xs)
      (s.t • toFn s.curr.xhat - (s.t - 1) • toFn s.prev - toFn xs)

structure TopInv (n : ℕ) (pr : Params α) (ψ : List α → α) (grad : List α → List α) (h : List α → α)
    (dom : List α → Prop) (xs : List α) (Fs : α) (s : St α) (R : α) : Prop where
  cons : TopCons n pr ψ grad s
  ht : 1 ≤ s.t
  htk : ((s.k : α) + 2) / 2 ≤ s.t
  hprev : 1 < s.t → dom s.curr.xhat
  hv : 0 ≤ (s.t ^ 2 - s.t) * (ψ s.curr.xhat + h s.curr.xhat - Fs)
  hQ : preQ n ψ h xs Fs s ≤ R

variable {xs : List α} {Fs : α}

/-- **Lyapunov step on the model** (`E_{k} ≤ E_{k−1} + margin`): after the prox / backtracking
    stage of a pass, `postQ ≤ preQ + 2γₖtₖ²·marginₖ`; moreover the new `x̂` is in `dom h`, has
    length `n` and `F(x̂ₖ) ≥ F⋆`. -/
theorem proxStage_post (S : Spec n P ψ grad h dom) (hp : ParamOK pr) (hQ : QubMax n ψ grad pr.Lmax)
    (T : Target n ψ h dom xs Fs) (stop : ℕ → Bool) (s : St α) (R : α)
    (hs : TopInv n pr ψ grad h dom xs Fs s R)
    (hfo : (proxStage P pr stop s).fuelOut = false) (hns : stop (qubEndTick P pr stop s) = false) :
    postQ n ψ h xs Fs (proxStage P pr stop s)
        ≤ R + 2 * (proxStage P pr stop s).curr.gamma * s.t ^ 2 * marginQ pr (ψ s.curr.x) ∧
    0 ≤ ψ (proxStage P pr stop s).curr.xhat + h (proxStage P pr stop s).curr.xhat - Fs ∧
    dom (proxStage P pr stop s).curr.xhat ∧ (proxStage P pr stop s).curr.xhat.length = n := by
  obtain ⟨hst, hγle, hacc, hprev, ht, hk⟩ := proxStage_stepped (pr := pr) S stop s hs.cons
  have hacc := hacc hfo hns
  have hxl := hs.cons.xlen
  have hxhl := stepped_xhat_len S hxl hst
  have hdom : dom (proxStage P pr stop s).curr.xhat := by
    rw [hst.hxhat]; exact S.prox_dom _ _ _ hxl (S.grad_len _ hxl)
  have hv' : 0 ≤ ψ (proxStage P pr stop s).curr.xhat + h (proxStage P pr stop s).curr.xhat - Fs := by
    have := T.Fs_min _ hdom hxhl; linarith
  refine ⟨?_, hv', hdom, hxhl⟩
  have h3s := stepped_three_point S hp hQ hxl hst hacc xs T.xs_dom T.xs_len
  have h3p : 1 < s.t → _ := fun h1 =>
    stepped_three_point S hp hQ hxl hst hacc s.curr.xhat (hs.hprev h1) hs.cons.xhlen
  rw [← T.Fs_eq] at h3s
  have hl := lyapunov_step (isIP_ipN n) (t := s.t) hs.ht h3p h3s
  unfold postQ
  rw [hprev, ht]
  have hpre := hs.hQ
  unfold preQ at hpre
  have hmono : 2 * (proxStage P pr stop s).curr.gamma * (s.t ^ 2 - s.t) * (ψ s.curr.xhat + h s.curr.xhat - Fs)
      ≤ 2 * s.curr.gamma * (s.t ^ 2 - s.t) * (ψ s.curr.xhat + h s.curr.xhat - Fs) := by
    have := mul_le_mul_of_nonneg_right hγle hs.hv
    nlinarith [this]
  linarith


theorem nextX_acc (t tn : α) (x xh p : List α) :
    fista_nextX false t tn x xh p = vadd xh (smul ((t - 1) / tn) (vsub xh p)) := rfl

/-- `advance` keeps the state consistent (new `x`, freshly evaluated `∇ψ(x)` / `ψ(x)`). -/
theorem advance_cons (S : Spec n P ψ grad h dom) (s : St α) (eps : α) (hcons : TopCons n pr ψ grad s)
    (hxlen : (fista_nextX pr.disableAcceleration s.t (fista_tNext s.t) s.curr.x s.curr.xhat s.prev).length = n) :
    TopCons n pr ψ grad (advance P pr s eps) := by
  have hxhl := hcons.xhlen
  unfold advance
  cases hf : fixedLip pr
  · simp only [Bool.false_eq_true, if_false, evalPsiGradPsi]
    exact { xlen := hxlen, xhlen := hxhl, hg := (S.psiGrad_eq _).2, hpsix := fun _ => (S.psiGrad_eq _).1,
            hγ := hcons.hγ, hγL := hcons.hγL, hLfix := fun hc => by rw [hf] at hc; exact absurd hc (by decide) }
  · simp only [if_true, evalGradPsi]
    exact { xlen := hxlen, xhlen := hxhl, hg := S.gradPsi_eq _,
            hpsix := fun hc => by rw [hf] at hc; exact absurd hc (by decide),
            hγ := hcons.hγ, hγL := hcons.hγL, hLfix := fun _ => hcons.hLfix hf }

theorem advance_fields (s : St α) (eps : α) :
    (advance P pr s eps).t = fista_tNext s.t ∧ (advance P pr s eps).k = s.k + 1 ∧
    (advance P pr s eps).curr.xhat = s.curr.xhat ∧ (advance P pr s eps).curr.gamma = s.curr.gamma ∧
    (advance P pr s eps).curr.x =
      fista_nextX pr.disableAcceleration s.t (fista_tNext s.t) s.curr.x s.curr.xhat s.prev := by
  unfold advance
  cases hf : fixedLip pr <;> simp [evalPsiGradPsi, evalGradPsi]

/-- **Extrapolation step on the model**: `advance` turns `postQ` of pass `k` into `preQ` of pass
    `k+1` (equality, by `tNext_identity` and the code's extrapolation formula) and re-establishes
    the top-of-loop invariant. -/
theorem advance_top (S : Spec n P ψ grad h dom) (hsq : LawfulSqrt α)
    (hacc : pr.disableAcceleration = false)
    (s : St α) (eps R : α) (hcons : TopCons n pr ψ grad s)
    (ht : 1 ≤ s.t) (htk : ((s.k : α) + 2) / 2 ≤ s.t) (hprevl : s.prev.length = n)
    (hdom : dom s.curr.xhat) (hv : 0 ≤ ψ s.curr.xhat + h s.curr.xhat - Fs)
    (hpost : postQ n ψ h xs Fs s ≤ R) :
    TopInv n pr ψ grad h dom xs Fs (advance P pr s eps) R := by
  have htn1 := tNext_ge_one hsq s.t ht
  have htn0 : fista_tNext s.t ≠ 0 := (tNext_pos hsq s.t ht).ne'
  have hid := tNext_identity hsq s.t
  have hxhl := hcons.xhlen
  have hlen1 : (vsub s.curr.xhat s.prev).length = n := by
    rw [length_vsub _ _ (by rw [hxhl, hprevl]), hxhl]
  have hlen2 : (smul ((s.t - 1) / fista_tNext s.t) (vsub s.curr.xhat s.prev)).length = n := by
    rw [length_smul, hlen1]
  have hxlen : (fista_nextX pr.disableAcceleration s.t (fista_tNext s.t) s.curr.x s.curr.xhat s.prev).length = n := by
    rw [hacc, nextX_acc, length_vadd _ _ (by rw [hxhl, hlen2]), hxhl]
  have hxfn : toFn (fista_nextX pr.disableAcceleration s.t (fista_tNext s.t) s.curr.x s.curr.xhat s.prev)
      = toFn s.curr.xhat + ((s.t - 1) / fista_tNext s.t) • (toFn s.curr.xhat - toFn s.prev) := by
    rw [hacc, nextX_acc, toFn_vadd _ _ (by rw [hxhl, hlen2]), toFn_smul,
      toFn_vsub _ _ (by rw [hxhl, hprevl])]
  have hcons' : TopCons n pr ψ grad (advance P pr s eps) := advance_cons S s eps hcons hxlen
  obtain ⟨e1, e2, e3, e4, e5⟩ := advance_fields (P := P) (pr := pr) s eps
  have hsq2 : (fista_tNext s.t) ^ 2 - fista_tNext s.t = s.t ^ 2 := hid
  refine { cons := hcons', ht := ?_, htk := ?_, hprev := ?_, hv := ?_, hQ := ?_ }
  · rw [e1]; exact htn1
  · rw [e1, e2]
    have := tNext_ge hsq s.t
    push_cast
    linarith
  · intro _; rw [e3]; exact hdom
  · rw [e1, e3, hsq2]; exact mul_nonneg (sq_nonneg _) hv
  · unfold preQ
    rw [e1, e3, e4, e5, hsq2, hxfn, extrapolation_identity htn0]
    exact hpost


/-! ### The callbacks of a whole solve -/

/-- rounding margin contributed by the iterate reported in a callback:
    `2γₖ tₖ² · (1+|ψ(xₖ)|)·qub_tolerance_factor` (zero when the step size is fixed) -/
def cbMargin (pr : Params α) (cb : Callback α) : α :=
  2 * cb.it.gamma * cb.t ^ 2 * (if fixedLip pr then 0 else (1 + |cb.it.psix|) * pr.qubTol)

def marginSum (pr : Params α) (cbs : List (Callback α)) : α := (cbs.map (cbMargin pr)).sum

/-- the rate bound for one reported iterate, with accumulated margin `M` -/
def Rate (ψ h : List α → α) (Fs D M : α) (cb : Callback α) : Prop :=
  ψ cb.it.xhat + h cb.it.xhat - Fs ≤ 2 * (D + M) / (cb.it.gamma * ((cb.k : α) + 2) ^ 2)

/-- every callback (newest first) satisfies the rate bound with the margin accumulated up to it -/
def AllOK (pr : Params α) (ψ h : List α → α) (Fs D : α) : List (Callback α) → Prop
  | [] => True
  | cb :: rest => Rate ψ h Fs D (marginSum pr (cb :: rest)) cb ∧ AllOK pr ψ h Fs D rest

/-- the callback record built from a loop state -/
def mkCb (s : St α) (st : SolverStatus) (e : α) : Callback α :=
  { k := s.k, status := st, it := s.curr, fbe := s.curr.fbe, t := s.t, eps := e }

theorem advance_cbs (s : St α) (e : α) : (advance P pr s e).cbs = mkCb s .Busy e :: s.cbs := rfl

theorem exitBlock_callbacks (s : St α) (e : α) (st : SolverStatus) (x0 y Sig errz0 : List α) :
    (exitBlock P pr s e st x0 y Sig errz0).callbacks = (mkCb s st e :: s.cbs).reverse := rfl

theorem proxStage_fuelOut_mono (stop : ℕ → Bool) (s : St α) (hf : s.fuelOut = true) :
    (proxStage P pr stop s).fuelOut = true := by
  unfold proxStage; simp [hf]

theorem mainLoop_fuelOut_mono (stop : Nat → Bool) (oot : Bool) (x0 y Sig errz0 : List α) (fuel : ℕ)
    (s : St α) (hf : s.fuelOut = true) :
    (mainLoop P pr stop oot x0 y Sig errz0 fuel s).fuelOut = true := by
  induction fuel generalizing s with
  | zero => simp [mainLoop]
  | succ f ih =>
    unfold mainLoop
    simp only []
    have h1 := proxStage_fuelOut_mono (P := P) (pr := pr) stop s hf
    split_ifs
    · rw [(exitBlock_fields P pr _ _ _ x0 y Sig errz0).2.2.2.2.1, (headStep_curr P pr stop oot _).2.2.2.1]
      exact h1
    · apply ih
      unfold advance
      simp only []
      rw [(headStep_curr P pr stop oot _).2.2.2.1]; exact h1

/-- The stop flag is never lowered during a solve. -/
def StopMono (stop : ℕ → Bool) : Prop := ∀ a b, a ≤ b → stop a = true → stop b = true

/-- A `Busy` head saw no stop request. -/
theorem headStep_busy_no_stop (stop : ℕ → Bool) (oot : Bool) (s : St α)
    (hb : (headStep P pr stop oot s).2.2 = .Busy) : stop (headStep P pr stop oot s).1.tick = false := by
  cases hst : stop (headStep P pr stop oot s).1.tick
  · rfl
  · exfalso
    have e : (headStep P pr stop oot s).2.2 =
        statusChain pr.tolerance pr.maxIter pr.maxNoProgress s.k (epsOf P pr s.curr)
          (noProgressUpdate s.noProgress s.k pr.maxNoProgress (s.curr.xhat == s.prev)) oot
          (stop (headStep P pr stop oot s).1.tick) := by
      unfold headStep statusOf; simp only []
    rw [e, hst] at hb
    unfold statusChain at hb
    simp only [] at hb
    split_ifs at hb

/-- The tick of the final loop-head check of a solve: the exit block adds the final callback and, in
    fixed-step mode without `∇ψ(x̂)`, the late `ψ(x̂)`. -/
def finalPoll (pr : Params α) (r : Result α) : ℕ :=
  r.ticks - 1 - (if fixedLip pr && !needGradHat pr then 1 else 0)

theorem finalPoll_exitBlock (s : St α) (e : α) (st : SolverStatus) (x0 y Sig errz0 : List α) :
    finalPoll pr (exitBlock P pr s e st x0 y Sig errz0) = s.tick := by
  unfold finalPoll exitBlock
  simp only []
  split_ifs <;> omega

theorem headStep_tick_ge (stop : ℕ → Bool) (oot : Bool) (s : St α) :
    s.tick ≤ (headStep P pr stop oot s).1.tick := by
  unfold headStep; simp only []; omega

/-- **Generic induction over the main loop** (stop flag never lowered): a state invariant `Inv` (at
    the top of a pass) and a property `Q` of the callback list (newest first) that are re-established
    by every pass *whose backtracking loop was not cut short by a stop request* hold for all callbacks
    but the final one, and for the final one too if no stop request was visible at the final
    loop-head check (a request visible there may have cut the last backtracking short). -/
theorem mainLoop_ind (stop : Nat → Bool) (hm : StopMono stop) (oot : Bool) (x0 y Sig errz0 : List α)
    (Inv : St α → Prop) (Q : List (Callback α) → Prop)
    (hcb : ∀ s, Inv s → (proxStage P pr stop s).fuelOut = false →
      stop (qubEndTick P pr stop s) = false → Q s.cbs → ∀ st e,
      Q (mkCb (headStep P pr stop oot (proxStage P pr stop s)).1 st e :: s.cbs))
    (hadv : ∀ s, Inv s → (proxStage P pr stop s).fuelOut = false →
      stop (qubEndTick P pr stop s) = false → Q s.cbs →
      Inv (advance P pr (headStep P pr stop oot (proxStage P pr stop s)).1
        (headStep P pr stop oot (proxStage P pr stop s)).2.1))
    (fuel : ℕ) (s : St α) (hk : s.k ≤ pr.maxIter) (hfuel : pr.maxIter + 1 ≤ fuel + s.k)
    (hinv : Inv s) (hq : Q s.cbs)
    (hres : (mainLoop P pr stop oot x0 y Sig errz0 fuel s).fuelOut = false) :
    Q (mainLoop P pr stop oot x0 y Sig errz0 fuel s).callbacks.reverse.tail ∧
    (stop (finalPoll pr (mainLoop P pr stop oot x0 y Sig errz0 fuel s)) = false →
      Q (mainLoop P pr stop oot x0 y Sig errz0 fuel s).callbacks.reverse) := by
  induction fuel generalizing s with
  | zero => omega
  | succ f ih =>
    unfold mainLoop at hres ⊢
    simp only [] at hres ⊢
    have hfo : (proxStage P pr stop s).fuelOut = false := by
      cases hb : (proxStage P pr stop s).fuelOut
      · rfl
      · exfalso
        have h1 : (headStep P pr stop oot (proxStage P pr stop s)).1.fuelOut = true := by
          rw [(headStep_curr P pr stop oot _).2.2.2.1]; exact hb
        split_ifs at hres
        · rw [(exitBlock_fields P pr _ _ _ x0 y Sig errz0).2.2.2.2.1, h1] at hres
          exact absurd hres (by decide)
        · have h2 : (advance P pr (headStep P pr stop oot (proxStage P pr stop s)).1
              (headStep P pr stop oot (proxStage P pr stop s)).2.1).fuelOut = true := by
            unfold advance; simp only []; exact h1
          rw [mainLoop_fuelOut_mono stop oot x0 y Sig errz0 f _ h2] at hres
          exact absurd hres (by decide)
    have hhc := headStep_curr P pr stop oot (proxStage P pr stop s)
    -- no request visible at this head ⇒ none was when the backtracking loop ended
    have hquiet : stop (headStep P pr stop oot (proxStage P pr stop s)).1.tick = false →
        stop (qubEndTick P pr stop s) = false := by
      intro hns
      cases hq' : stop (qubEndTick P pr stop s)
      · rfl
      · have hle : qubEndTick P pr stop s ≤ (headStep P pr stop oot (proxStage P pr stop s)).1.tick :=
          Nat.le_trans (qubEndTick_le P pr stop s)
            (headStep_tick_ge (P := P) (pr := pr) stop oot (proxStage P pr stop s))
        have := hm _ _ hle hq'
        rw [this] at hns; exact absurd hns (by decide)
    split_ifs at hres ⊢ with hb
    · rw [exitBlock_callbacks, List.reverse_reverse, hhc.2.2.1, (proxStage_k P pr stop s).2.1,
        finalPoll_exitBlock]
      exact ⟨hq, fun hns => hcb s hinv hfo (hquiet hns) hq _ _⟩
    · have hbusy : (headStep P pr stop oot (proxStage P pr stop s)).2.2 = .Busy := by
        simpa using hb
      have hns := hquiet (headStep_busy_no_stop stop oot _ hbusy)
      have hQ' := hcb s hinv hfo hns hq
      have hkne := headStep_busy_k P pr stop oot _ hbusy
      rw [(proxStage_k P pr stop s).1] at hkne
      apply ih _ _ _ (hadv s hinv hfo hns hq)
      · rw [advance_cbs, hhc.2.2.1, (proxStage_k P pr stop s).2.1]
        exact hQ' _ _
      · exact hres
      · rw [(advance_k _ _ _ _).1, hhc.2.1, (proxStage_k P pr stop s).1]; omega
      · rw [(advance_k _ _ _ _).1, hhc.2.1, (proxStage_k P pr stop s).1]; omega

/-- consistency of the state handed to `advance` (after the prox stage and the head check) -/
theorem head_topCons (S : Spec n P ψ grad h dom) (stop : Nat → Bool) (oot : Bool) (s : St α)
    (hcons : TopCons n pr ψ grad s) :
    TopCons n pr ψ grad (headStep P pr stop oot (proxStage P pr stop s)).1 := by
  obtain ⟨hst, _, _, _, _, _⟩ := proxStage_stepped (pr := pr) S stop s hcons
  have hhc := headStep_curr P pr stop oot (proxStage P pr stop s)
  have hx : (proxStage P pr stop s).curr.x = s.curr.x := hst.hx
  exact { xlen := by rw [hhc.1, hx]; exact hcons.xlen,
          xhlen := by rw [hhc.1]; exact stepped_xhat_len S hcons.xlen hst,
          hg := by rw [hhc.1, hst.hg, hx],
          hpsix := fun hf => by rw [hhc.1, hst.hpsix hf, hx],
          hγ := by rw [hhc.1]; exact hst.hγ, hγL := by rw [hhc.1]; exact hst.hγL,
          hLfix := fun hf => by rw [hhc.1]; exact hst.hLfix hf }

/-- margin bookkeeping: the callback built from the state after the prox stage contributes
    `2γₖtₖ²·marginQ(ψ(xₖ))` -/
theorem marginSum_cons (S : Spec n P ψ grad h dom) (stop : Nat → Bool) (oot : Bool) (s : St α)
    (hcons : TopCons n pr ψ grad s) (st : SolverStatus) (e : α) :
    marginSum pr (mkCb (headStep P pr stop oot (proxStage P pr stop s)).1 st e :: s.cbs)
      = marginSum pr s.cbs + 2 * (proxStage P pr stop s).curr.gamma * s.t ^ 2 * marginQ pr (ψ s.curr.x) := by
  obtain ⟨hst, _, _, _, ht, _⟩ := proxStage_stepped (pr := pr) S stop s hcons
  have hhc := headStep_curr P pr stop oot (proxStage P pr stop s)
  unfold marginSum cbMargin marginQ mkCb
  simp only [List.map_cons, List.sum_cons, hhc.1, hhc.2.2.2.2.1, ht]
  cases hf : fixedLip pr
  · simp only [Bool.false_eq_true, if_false]
    rw [hst.hpsix hf]; ring
  · simp only [if_true]; ring

/-- **Main induction** (stop flag never lowered): every callback of the main loop but the final one
    satisfies the rate bound, and so does the final one unless a stop request was visible at the
    final loop-head check (it may have cut the last backtracking short). -/
theorem mainLoop_allOK (S : Spec n P ψ grad h dom) (hp : ParamOK pr) (hQ : QubMax n ψ grad pr.Lmax)
    (T : Target n ψ h dom xs Fs) (hsq : LawfulSqrt α) (hacc : pr.disableAcceleration = false)
    (stop : Nat → Bool) (hm : StopMono stop) (oot : Bool) (x0 y Sig errz0 : List α) (D : α) (fuel : ℕ)
    (s : St α)
    (hk : s.k ≤ pr.maxIter) (hfuel : pr.maxIter + 1 ≤ fuel + s.k)
    (hinv : TopInv n pr ψ grad h dom xs Fs s (D + marginSum pr s.cbs))
    (hok : AllOK pr ψ h Fs D s.cbs)
    (hres : (mainLoop P pr stop oot x0 y Sig errz0 fuel s).fuelOut = false) :
    AllOK pr ψ h Fs D (mainLoop P pr stop oot x0 y Sig errz0 fuel s).callbacks.reverse.tail ∧
    (stop (finalPoll pr (mainLoop P pr stop oot x0 y Sig errz0 fuel s)) = false →
      AllOK pr ψ h Fs D (mainLoop P pr stop oot x0 y Sig errz0 fuel s).callbacks.reverse) := by
  refine mainLoop_ind stop hm oot x0 y Sig errz0
    (fun s => TopInv n pr ψ grad h dom xs Fs s (D + marginSum pr s.cbs)) (AllOK pr ψ h Fs D)
    ?_ ?_ fuel s hk hfuel hinv hok hres
  · -- the callback of a pass satisfies the rate bound
    intro s hinv hfo hns hok st e
    obtain ⟨hpost, hv', _, _⟩ := proxStage_post S hp hQ T stop s _ hinv hfo hns
    obtain ⟨hst, _, _, _, ht, hks⟩ := proxStage_stepped (pr := pr) S stop s hinv.cons
    have hhc := headStep_curr P pr stop oot (proxStage P pr stop s)
    refine ⟨?_, hok⟩
    rw [marginSum_cons S stop oot s hinv.cons]
    unfold Rate mkCb
    simp only [hhc.1, hhc.2.1, hks]
    unfold postQ at hpost
    rw [ht] at hpost
    exact rate_of_post hst.hγ hinv.htk hv' ((isIP_ipN n).nonneg _) (by linarith)
  · -- extrapolation re-establishes the invariant
    intro s hinv hfo hns _
    obtain ⟨hpost, hv', hdom', _⟩ := proxStage_post S hp hQ T stop s _ hinv hfo hns
    obtain ⟨_, _, _, hprev, ht, hks⟩ := proxStage_stepped (pr := pr) S stop s hinv.cons
    have hhc := headStep_curr P pr stop oot (proxStage P pr stop s)
    refine advance_top (xs := xs) (Fs := Fs) S hsq hacc _ _ _ (head_topCons S stop oot s hinv.cons)
      (by rw [hhc.2.2.2.2.1, ht]; exact hinv.ht)
      (by rw [hhc.2.2.2.2.1, hhc.2.1, ht, hks]; exact hinv.htk)
      (by rw [hhc.2.2.2.2.2, hprev]; exact hinv.cons.xhlen)
      (by rw [hhc.1]; exact hdom') (by rw [hhc.1]; exact hv') ?_
    have : postQ n ψ h xs Fs (headStep P pr stop oot (proxStage P pr stop s)).1
        = postQ n ψ h xs Fs (proxStage P pr stop s) := by
      unfold postQ; rw [hhc.1, hhc.2.2.2.2.1, hhc.2.2.2.2.2]
    rw [this, advance_cbs, hhc.2.2.1, (proxStage_k P pr stop s).2.1, marginSum_cons S stop oot s hinv.cons]
    linarith

/-! ### Initial state -/

theorem eclamp_ge_lo (v lo hi : α) (h : lo ≤ hi) : lo ≤ eclamp v lo hi := by
  unfold eclamp; split_ifs with h1 h2
  · exact le_refl _
  · exact h
  · exact not_lt.mp h1

/-- The state before the first pass satisfies the top-of-loop invariant with
    `R = ‖x₀ − x⋆‖²` (all three Lipschitz modes). -/
theorem initState_top (S : Spec n P ψ grad h dom) (hp : ParamOK pr) (x0 gV : List α) (nan : α)
    (hx0 : x0.length = n) (s : St α) (hi : initState P pr x0 gV nan = .inr s) :
    TopInv n pr ψ grad h dom xs Fs s (ipN n (toFn x0 - toFn xs) (toFn x0 - toFn xs)) ∧
    s.k = 0 ∧ s.cbs = [] ∧ s.t = 1 ∧ s.curr.x = x0 := by
  have hLmax : 0 < pr.Lmax := lt_of_lt_of_le hp.lmin_pos hp.lmin_le
  -- the iterate built by `initIterate`
  have hit : (initIterate P pr x0 gV nan).1.x = x0 ∧ (initIterate P pr x0 gV nan).1.xhat.length = n ∧
      (initIterate P pr x0 gV nan).1.gradPsi = grad x0 ∧
      (fixedLip pr = false → (initIterate P pr x0 gV nan).1.psix = ψ x0) ∧
      0 < (initIterate P pr x0 gV nan).1.L ∧
      (fixedLip pr = true → (initIterate P pr x0 gV nan).1.L = pr.Lmax) := by
    unfold initIterate
    simp only []
    cases hf : fixedLip pr
    · simp only [Bool.false_eq_true, if_false]
      by_cases hL0 : pr.L0 ≤ 0
      · simp only [hL0, if_true, initialLipschitz, blankIterate]
        refine ⟨trivial, ?_, (S.psiGrad_eq _).2, fun _ => (S.psiGrad_eq _).1,
          lt_of_lt_of_le hp.lmin_pos (eclamp_ge_lo _ _ _ hp.lmin_le), fun hc => absurd hc (by decide)⟩
        rw [length_vsub]
        · exact hx0
        · rw [List.length_map, (S.psiGrad_eq _).2, S.grad_len _ hx0, hx0]
      · simp only [hL0, if_false, evalPsiGradPsi, blankIterate]
        exact ⟨trivial, hx0, (S.psiGrad_eq _).2, fun _ => (S.psiGrad_eq _).1, not_le.mp hL0,
          fun hc => absurd hc (by decide)⟩
    · simp only [if_true, evalGradPsi, blankIterate]
      exact ⟨trivial, hx0, S.gradPsi_eq _, fun hc => absurd hc (by decide), hLmax, fun _ => trivial⟩
  unfold initState at hi
  simp only [] at hi
  split_ifs at hi
  all_goals first
    | (injection hi with hi
       subst hi
       obtain ⟨h1, h2, h3, h4, h5, h6⟩ := hit
       refine ⟨{ cons := { xlen := by simpa [h1] using hx0, xhlen := h2,
                           hg := by simpa [h1] using h3, hpsix := fun hf => by simpa [h1] using h4 hf,
                           hγ := by simp only [fista_gammaInit]; exact div_pos hp.lgf_pos h5,
                           hγL := by simp only [fista_gammaInit]; exact div_mul_cancel₀ _ h5.ne',
                           hLfix := h6 },
                 ht := le_refl _, htk := by simp, hprev := fun hc => absurd hc (lt_irrefl _),
                 hv := by simp, hQ := ?_ }, rfl, rfl, rfl, h1⟩
       unfold preQ
       simp only [h1, one_pow, sub_self, mul_zero, zero_mul, zero_add, one_smul, zero_smul, sub_zero]
       exact le_refl _)
    | (exact absurd hi (by simp))


/-! ### Acceleration disabled (`disable_acceleration`): proximal gradient on the model -/

/-- per-step rounding margin of the reported iterate -/
def cbM (pr : Params α) (cb : Callback α) : α :=
  if fixedLip pr then 0 else (1 + |cb.it.psix|) * pr.qubTol

def marginSumPg (pr : Params α) (cbs : List (Callback α)) : α :=
  (cbs.map fun cb => 2 * cb.it.gamma * ((cb.k : α) + 1) * cbM pr cb).sum

/-- the O(1/k) bound for one reported iterate -/
def RatePg (ψ h : List α → α) (Fs D M : α) (cb : Callback α) : Prop :=
  ψ cb.it.xhat + h cb.it.xhat - Fs ≤ (D + M) / (2 * cb.it.gamma * ((cb.k : α) + 1))

/-- newest first: every callback satisfies the O(1/k) bound with the margin accumulated up to it,
    and `F` does not increase (beyond the step's margin) from one callback to the next -/
def AllOKPg (pr : Params α) (ψ h : List α → α) (Fs D : α) : List (Callback α) → Prop
  | [] => True
  | cb :: rest =>
    RatePg ψ h Fs D (marginSumPg pr (cb :: rest)) cb ∧
    (∀ cb', rest.head? = some cb' →
      ψ cb.it.xhat + h cb.it.xhat ≤ ψ cb'.it.xhat + h cb'.it.xhat + cbM pr cb) ∧
    AllOKPg pr ψ h Fs D rest

structure TopInvPg (n : ℕ) (pr : Params α) (ψ : List α → α) (grad : List α → List α) (h : List α → α)
    (dom : List α → Prop) (xs : List α) (Fs : α) (s : St α) (R : α) : Prop where
  cons : TopCons n pr ψ grad s
  hprev : s.k ≠ 0 → s.curr.x = s.curr.xhat ∧ dom s.curr.xhat
  hhead : ∀ cb', s.cbs.head? = some cb' → cb'.it.xhat = s.curr.xhat ∧ s.k ≠ 0
  hv : 0 ≤ (s.k : α) * (ψ s.curr.xhat + h s.curr.xhat - Fs)
  hQ : 2 * s.curr.gamma * (s.k : α) * (ψ s.curr.xhat + h s.curr.xhat - Fs)
        + ipN n (toFn s.curr.x - toFn xs) (toFn s.curr.x - toFn xs) ≤ R

/-- One pass with acceleration disabled: `2γₖ(k+1)(F(x̂ₖ)−F⋆) + ‖x̂ₖ−x⋆‖²` grows by at most the
    margin, and `F(x̂ₖ) ≤ F(x̂ₖ₋₁) + marginₖ`. -/
theorem proxStage_postPg (S : Spec n P ψ grad h dom) (hp : ParamOK pr) (hQ : QubMax n ψ grad pr.Lmax)
    (T : Target n ψ h dom xs Fs) (stop : ℕ → Bool) (s : St α) (R : α)
    (hs : TopInvPg n pr ψ grad h dom xs Fs s R)
    (hfo : (proxStage P pr stop s).fuelOut = false) (hns : stop (qubEndTick P pr stop s) = false) :
    2 * (proxStage P pr stop s).curr.gamma * ((s.k : α) + 1)
          * (ψ (proxStage P pr stop s).curr.xhat + h (proxStage P pr stop s).curr.xhat - Fs)
        + ipN n (toFn (proxStage P pr stop s).curr.xhat - toFn xs) (toFn (proxStage P pr stop s).curr.xhat - toFn xs)
      ≤ R + 2 * (proxStage P pr stop s).curr.gamma * ((s.k : α) + 1) * marginQ pr (ψ s.curr.x) ∧
    0 ≤ ψ (proxStage P pr stop s).curr.xhat + h (proxStage P pr stop s).curr.xhat - Fs ∧
    dom (proxStage P pr stop s).curr.xhat ∧ (proxStage P pr stop s).curr.xhat.length = n ∧
    (s.k ≠ 0 → ψ (proxStage P pr stop s).curr.xhat + h (proxStage P pr stop s).curr.xhat
        ≤ ψ s.curr.xhat + h s.curr.xhat + marginQ pr (ψ s.curr.x)) := by
  obtain ⟨hst, hγle, hacc, _, _, _⟩ := proxStage_stepped (pr := pr) S stop s hs.cons
  have hacc := hacc hfo hns
  have hxl := hs.cons.xlen
  have hxhl := stepped_xhat_len S hxl hst
  have hdom : dom (proxStage P pr stop s).curr.xhat := by
    rw [hst.hxhat]; exact S.prox_dom _ _ _ hxl (S.grad_len _ hxl)
  have hv' : 0 ≤ ψ (proxStage P pr stop s).curr.xhat + h (proxStage P pr stop s).curr.xhat - Fs := by
    have := T.Fs_min _ hdom hxhl; linarith
  have h3s := stepped_three_point S hp hQ hxl hst hacc xs T.xs_dom T.xs_len
  rw [← T.Fs_eq] at h3s
  have hb := lyapunov_base (isIP_ipN n) h3s
  have hmono : s.k ≠ 0 → ψ (proxStage P pr stop s).curr.xhat + h (proxStage P pr stop s).curr.xhat
      ≤ ψ s.curr.xhat + h s.curr.xhat + marginQ pr (ψ s.curr.x) := by
    intro hk
    obtain ⟨hxeq, hxd⟩ := hs.hprev hk
    have h3x := stepped_three_point S hp hQ hxl hst hacc s.curr.x (by rw [hxeq]; exact hxd) hxl
    have := pg_descent (isIP_ipN n) hst.hγ h3x
    have e : ψ s.curr.x + h s.curr.x = ψ s.curr.xhat + h s.curr.xhat := by rw [hxeq]
    linarith
  refine ⟨?_, hv', hdom, hxhl, hmono⟩
  have hpre := hs.hQ
  have hm := marginQ_nonneg pr hp (ψ s.curr.x)
  have hγ' := hst.hγ
  have hk0 : (0 : α) ≤ (s.k : α) := Nat.cast_nonneg _
  by_cases hk : s.k = 0
  · simp only [hk, Nat.cast_zero, mul_zero, zero_mul, zero_add, mul_one] at hpre ⊢
    linarith
  · have hm1 := hmono hk
    have a1 : (s.k : α) * (ψ (proxStage P pr stop s).curr.xhat + h (proxStage P pr stop s).curr.xhat - Fs)
        ≤ (s.k : α) * (ψ s.curr.xhat + h s.curr.xhat - Fs + marginQ pr (ψ s.curr.x)) :=
      mul_le_mul_of_nonneg_left (by linarith) hk0
    have a2 : (proxStage P pr stop s).curr.gamma * ((s.k : α) * (ψ s.curr.xhat + h s.curr.xhat - Fs))
        ≤ s.curr.gamma * ((s.k : α) * (ψ s.curr.xhat + h s.curr.xhat - Fs)) :=
      mul_le_mul_of_nonneg_right hγle hs.hv
    nlinarith [mul_le_mul_of_nonneg_left a1 hγ'.le]

theorem nextX_noacc (t tn : α) (x xh p : List α) : fista_nextX true t tn x xh p = xh := rfl

/-- **Main induction, acceleration disabled** (same form as `mainLoop_allOK`). -/
theorem mainLoop_allOKPg (S : Spec n P ψ grad h dom) (hp : ParamOK pr) (hQ : QubMax n ψ grad pr.Lmax)
    (T : Target n ψ h dom xs Fs) (hacc : pr.disableAcceleration = true)
    (stop : Nat → Bool) (hm : StopMono stop) (oot : Bool) (x0 y Sig errz0 : List α) (D : α) (fuel : ℕ)
    (s : St α)
    (hk : s.k ≤ pr.maxIter) (hfuel : pr.maxIter + 1 ≤ fuel + s.k)
    (hinv : TopInvPg n pr ψ grad h dom xs Fs s (D + marginSumPg pr s.cbs))
    (hok : AllOKPg pr ψ h Fs D s.cbs)
    (hres : (mainLoop P pr stop oot x0 y Sig errz0 fuel s).fuelOut = false) :
    AllOKPg pr ψ h Fs D (mainLoop P pr stop oot x0 y Sig errz0 fuel s).callbacks.reverse.tail ∧
    (stop (finalPoll pr (mainLoop P pr stop oot x0 y Sig errz0 fuel s)) = false →
      AllOKPg pr ψ h Fs D (mainLoop P pr stop oot x0 y Sig errz0 fuel s).callbacks.reverse) := by
  have hmsum : ∀ (s : St α) (hcons : TopCons n pr ψ grad s) (st : SolverStatus) (e : α),
      marginSumPg pr (mkCb (headStep P pr stop oot (proxStage P pr stop s)).1 st e :: s.cbs)
        = marginSumPg pr s.cbs
          + 2 * (proxStage P pr stop s).curr.gamma * ((s.k : α) + 1) * marginQ pr (ψ s.curr.x) ∧
      cbM pr (mkCb (headStep P pr stop oot (proxStage P pr stop s)).1 st e) = marginQ pr (ψ s.curr.x) := by
    intro s hcons st e
    obtain ⟨hst, _, _, _, _, hks⟩ := proxStage_stepped (pr := pr) S stop s hcons
    have hhc := headStep_curr P pr stop oot (proxStage P pr stop s)
    unfold marginSumPg cbM marginQ mkCb
    simp only [List.map_cons, List.sum_cons, hhc.1, hhc.2.1, hks]
    cases hf : fixedLip pr
    · simp only [Bool.false_eq_true, if_false]
      rw [hst.hpsix hf]; exact ⟨by ring, rfl⟩
    · simp only [if_true]; exact ⟨by ring, trivial⟩
  refine mainLoop_ind stop hm oot x0 y Sig errz0
    (fun s => TopInvPg n pr ψ grad h dom xs Fs s (D + marginSumPg pr s.cbs)) (AllOKPg pr ψ h Fs D)
    ?_ ?_ fuel s hk hfuel hinv hok hres
  · intro s hinv hfo hns hok st e
    obtain ⟨hpost, hv', _, _, hmono⟩ := proxStage_postPg S hp hQ T stop s _ hinv hfo hns
    obtain ⟨hst, _, _, _, _, hks⟩ := proxStage_stepped (pr := pr) S stop s hinv.cons
    have hhc := headStep_curr P pr stop oot (proxStage P pr stop s)
    refine ⟨?_, ?_, hok⟩
    · rw [(hmsum s hinv.cons st e).1]
      unfold RatePg mkCb
      simp only [hhc.1, hhc.2.1, hks]
      have hk1 : (0 : α) < (s.k : α) + 1 := by positivity
      rw [le_div_iff₀ (by have := hst.hγ; positivity)]
      nlinarith [(isIP_ipN (α := α) n).nonneg (toFn (proxStage P pr stop s).curr.xhat - toFn xs)]
    · intro cb' hcb'
      obtain ⟨hx, hk⟩ := hinv.hhead cb' hcb'
      rw [(hmsum s hinv.cons st e).2]
      have := hmono hk
      simp only [mkCb, hhc.1]
      rw [hx]; exact this
  · intro s hinv hfo hns _
    obtain ⟨hpost, hv', hdom', hxhl', _⟩ := proxStage_postPg S hp hQ T stop s _ hinv hfo hns
    obtain ⟨_, _, _, _, _, hks⟩ := proxStage_stepped (pr := pr) S stop s hinv.cons
    have hhc := headStep_curr P pr stop oot (proxStage P pr stop s)
    have hcons' := head_topCons S stop oot s hinv.cons
    obtain ⟨e1, e2, e3, e4, e5⟩ := advance_fields (P := P) (pr := pr)
      (headStep P pr stop oot (proxStage P pr stop s)).1 (headStep P pr stop oot (proxStage P pr stop s)).2.1
    rw [hacc, nextX_noacc] at e5
    have hxlen : (fista_nextX pr.disableAcceleration (headStep P pr stop oot (proxStage P pr stop s)).1.t
        (fista_tNext (headStep P pr stop oot (proxStage P pr stop s)).1.t)
        (headStep P pr stop oot (proxStage P pr stop s)).1.curr.x
        (headStep P pr stop oot (proxStage P pr stop s)).1.curr.xhat
        (headStep P pr stop oot (proxStage P pr stop s)).1.prev).length = n := by
      rw [hacc, nextX_noacc, hhc.1]; exact hxhl'
    refine { cons := advance_cons S _ _ hcons' hxlen, hprev := ?_, hhead := ?_, hv := ?_, hQ := ?_ }
    · intro _
      rw [e5, e3, hhc.1]; exact ⟨rfl, hdom'⟩
    · intro cb' hcb'
      rw [advance_cbs] at hcb'
      simp only [List.head?_cons, Option.some.injEq] at hcb'
      subst hcb'
      rw [e3, e2]
      exact ⟨rfl, Nat.succ_ne_zero _⟩
    · rw [e2, e3, hhc.1]; exact mul_nonneg (by positivity) hv'
    · rw [e2, e3, e4, e5, hhc.1, hhc.2.1, hks, advance_cbs, hhc.2.2.1, (proxStage_k P pr stop s).2.1,
        (hmsum s hinv.cons _ _).1]
      push_cast
      linarith

end

end Alpaqa.C08
