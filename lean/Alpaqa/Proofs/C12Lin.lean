/-
  C12 — bridge between the row-list matrices of the executable Riccati model
  (`Alpaqa/Model/C12.lean`) and Mathlib's `Matrix (Fin n) (Fin m) α`; sums over a partition
  `J ++ K ~ range p`; the scatter `Δu(J) = e`.
-/
import Alpaqa.Model.C12
import Alpaqa.Proofs.C12Vec
import Mathlib.Data.Matrix.Mul
import Mathlib.Algebra.BigOperators.Fin
import Mathlib.Data.List.Perm.Basic
import Mathlib.Data.List.Nodup
import Mathlib.Data.List.Range

namespace Alpaqa.C12
open Alpaqa Matrix
variable {α : Type} [Field α]

theorem sumTo_eq_range (n : Nat) (f : Nat → α) : sumTo n f = ∑ k ∈ Finset.range n, f k := by
  unfold sumTo
  induction n with
  | zero => simp
  | succ n ih => rw [List.range_succ, List.foldl_append, ih, Finset.sum_range_succ]; simp

theorem sumTo_eq_fin (n : Nat) (f : Nat → α) : sumTo n f = ∑ k : Fin n, f k := by
  rw [sumTo_eq_range, Finset.sum_range]

theorem mget_mkM {n m i j : Nat} (f : Nat → Nat → α) (hi : i < n) (hj : j < m) :
    mget (mkM n m f) i j = f i j := by
  simp [mget, mkM, hi, hj]

theorem vget_mkV {n i : Nat} (f : Nat → α) (hi : i < n) : vget (mkV n f) i = f i := by
  simp [vget, mkV, hi]

def toM (n m : Nat) (A : Mat α) : Matrix (Fin n) (Fin m) α := fun i j => mget A i j
def toV (n : Nat) (x : Vec α) : Fin n → α := fun i => vget x i

theorem toM_mkM_apply (n m : Nat) (f : Nat → Nat → α) (i : Fin n) (j : Fin m) :
    toM n m (mkM n m f) i j = f i j := mget_mkM f i.2 j.2
theorem toV_mkV_apply (n : Nat) (f : Nat → α) (i : Fin n) : toV n (mkV n f) i = f i :=
  vget_mkV f i.2

theorem toM_mulMM (n k m : Nat) (A B : Mat α) :
    toM n m (mulMM n k m A B) = toM n k A * toM k m B := by
  ext i j; rw [mulMM, toM_mkM_apply, Matrix.mul_apply, sumTo_eq_fin]; rfl
theorem toM_mulTM (n k m : Nat) (A B : Mat α) :
    toM n m (mulTM n k m A B) = (toM k n A)ᵀ * toM k m B := by
  ext i j; rw [mulTM, toM_mkM_apply, Matrix.mul_apply, sumTo_eq_fin]; rfl
theorem toV_mulMV (n k : Nat) (A : Mat α) (x : Vec α) :
    toV n (mulMV n k A x) = toM n k A *ᵥ toV k x := by
  ext i; rw [mulMV, toV_mkV_apply, sumTo_eq_fin]; rfl
theorem toV_mulTV (n k : Nat) (A : Mat α) (x : Vec α) :
    toV n (mulTV n k A x) = (toM k n A)ᵀ *ᵥ toV k x := by
  ext i; rw [mulTV, toV_mkV_apply, sumTo_eq_fin]; rfl
theorem toM_addM (n m : Nat) (A B : Mat α) : toM n m (addM n m A B) = toM n m A + toM n m B := by
  ext i j; rw [addM, toM_mkM_apply]; rfl
theorem toM_negM (n m : Nat) (A : Mat α) : toM n m (negM n m A) = -toM n m A := by
  ext i j; rw [negM, toM_mkM_apply]; rfl
theorem toV_addV (n : Nat) (x y : Vec α) : toV n (addV n x y) = toV n x + toV n y := by
  ext i; rw [addV, toV_mkV_apply]; rfl
theorem toV_negV (n : Nat) (x : Vec α) : toV n (negV n x) = -toV n x := by
  ext i; rw [negV, toV_mkV_apply]; rfl

theorem eq_of_toV_eq {n : Nat} {x y : Vec α} (hx : x.length = n) (hy : y.length = n)
    (h : toV n x = toV n y) : x = y := by
  apply List.ext_getElem (by rw [hx, hy])
  intro i h1 h2
  have := congrFun h ⟨i, by omega⟩
  simp only [toV, vget, List.getD_eq_getElem?_getD] at this
  simpa [h1, h2] using this

theorem length_mkV (n : Nat) (f : Nat → α) : (mkV n f).length = n := by simp [mkV]

/-! ### sums over index lists -/

theorem sum_map_range (p : Nat) (f : Nat → α) :
    ((List.range p).map f).sum = ∑ k ∈ Finset.range p, f k := by
  induction p with
  | zero => simp
  | succ p ih => rw [List.range_succ, List.map_append, List.sum_append, ih, Finset.sum_range_succ]; simp

theorem sum_map_iget (l : List Nat) (f : Nat → α) :
    (l.map f).sum = ∑ i ∈ Finset.range l.length, f (iget l i) := by
  induction l with
  | nil => simp
  | cons x xs ih =>
    rw [List.map_cons, List.sum_cons, List.length_cons, Finset.sum_range_succ', ih]
    simp [iget, add_comm]

/-- a sum over `range p` splits along a partition `J ++ K ~ range p` -/
theorem sum_partition (J K : List Nat) (p : Nat) (h : (J ++ K).Perm (List.range p)) (f : Nat → α) :
    ∑ k ∈ Finset.range p, f k
      = ∑ b ∈ Finset.range J.length, f (iget J b) + ∑ k ∈ Finset.range K.length, f (iget K k) := by
  rw [← sum_map_range, ← (h.map f).sum_eq, List.map_append, List.sum_append, sum_map_iget,
    sum_map_iget]

theorem sumTo_partition (J K : List Nat) (p : Nat) (h : (J ++ K).Perm (List.range p))
    (f : Nat → α) :
    sumTo p f = sumTo J.length (fun b => f (iget J b)) + sumTo K.length (fun k => f (iget K k)) := by
  simp only [sumTo_eq_range]; exact sum_partition J K p h f

/-! ### consequences of `J ++ K ~ range p` -/

theorem part_nodup_J {J K : List Nat} {p : Nat} (h : (J ++ K).Perm (List.range p)) : J.Nodup :=
  (List.nodup_append.mp (h.nodup_iff.mpr List.nodup_range)).1

theorem part_lt_J {J K : List Nat} {p : Nat} (h : (J ++ K).Perm (List.range p)) :
    ∀ j ∈ J, j < p := fun j hj =>
  List.mem_range.mp (h.mem_iff.mp (List.mem_append_left _ hj))

theorem part_lt_K {J K : List Nat} {p : Nat} (h : (J ++ K).Perm (List.range p)) :
    ∀ k ∈ K, k < p := fun k hk =>
  List.mem_range.mp (h.mem_iff.mp (List.mem_append_right _ hk))

theorem part_K_notin_J {J K : List Nat} {p : Nat} (h : (J ++ K).Perm (List.range p)) :
    ∀ k ∈ K, k ∉ J := fun k hk hj =>
  (List.nodup_append.mp (h.nodup_iff.mpr List.nodup_range)).2.2 k hj k hk rfl

theorem iget_mem {l : List Nat} {i : Nat} (h : i < l.length) : iget l i ∈ l := by
  simp only [iget, List.getD_eq_getElem?_getD, List.getElem?_eq_getElem h, Option.getD_some]
  exact List.getElem_mem h

/-! ### `lookupJ` and `scatter` -/

theorem lookupJ_none (J : List Nat) (k p : Nat) (h : k ∉ J) : lookupJ J k p = none := by
  induction J generalizing p with
  | nil => rfl
  | cons j js ih =>
    have h1 : j ≠ k := fun e => h (e ▸ List.mem_cons_self ..)
    have h2 : k ∉ js := fun e => h (List.mem_cons_of_mem _ e)
    simp [lookupJ, h1, ih _ h2]

theorem lookupJ_some (J : List Nat) (hnd : J.Nodup) (b : Nat) (hb : b < J.length) (p : Nat) :
    lookupJ J (iget J b) p = some (p + b) := by
  induction J generalizing b p with
  | nil => simp at hb
  | cons j js ih =>
    cases b with
    | zero => simp [lookupJ, iget]
    | succ b =>
      have hb' : b < js.length := by simpa using hb
      have hmem : iget js b ∈ js := iget_mem hb'
      have hne : j ≠ iget js b := fun e => (List.nodup_cons.mp hnd).1 (e ▸ hmem)
      have : iget (j :: js) (b + 1) = iget js b := by simp [iget]
      rw [this]
      simp only [lookupJ, hne, if_false]
      rw [ih (List.nodup_cons.mp hnd).2 b hb' (p + 1)]
      congr 1; omega

theorem vget_scatter_J (nu : Nat) (base vals : Vec α) (J : List Nat) (hnd : J.Nodup)
    (hJ : ∀ j ∈ J, j < nu) (b : Nat) (hb : b < J.length) :
    vget (scatter nu base J vals) (iget J b) = vget vals b := by
  unfold scatter
  rw [vget_mkV _ (hJ _ (iget_mem hb)), lookupJ_some J hnd b hb 0]
  simp

theorem vget_scatter_notin (nu : Nat) (base vals : Vec α) (J : List Nat) (k : Nat) (hk : k < nu)
    (h : k ∉ J) : vget (scatter nu base J vals) k = vget base k := by
  unfold scatter
  rw [vget_mkV _ hk, lookupJ_none J k 0 h]

end Alpaqa.C12
