/-
  Scalar layer of the executable model (core Lean only — no Mathlib import, so that the
  driver executables link).

  Model functions are written once over an arbitrary carrier `α` using only the core
  notation classes (`Add Sub Mul Div Neg LT LE OfNat …`) plus the small class `RealLike`
  for what the C++ takes from libm (`sqrt`, `isnan`, `isfinite`).  They are *executed* at
  `Float` (bit-exact against the C++ harness) and *proved about* at any linearly ordered
  field (`Alpaqa/Proofs`), where the same class arguments resolve to the field's own
  instances, so there is no instance diamond.
-/
namespace Alpaqa

/-- What the model needs from libm / IEEE classification. -/
class RealLike (α : Type) where
  sqrt     : α → α
  isNaN    : α → Bool
  isFinite : α → Bool

instance : RealLike Float where
  sqrt     := Float.sqrt
  isNaN    := Float.isNaN
  isFinite := Float.isFinite

instance : NatCast Float := ⟨Float.ofNat⟩

section
variable {α : Type}

/-- `std::max(a,b)` / Eigen `cwiseMax` (`numext::maxi`): `(a < b) ? b : a`. -/
@[inline] def emax [LT α] [DecidableLT α] (a b : α) : α := if a < b then b else a
/-- `std::min(a,b)` / Eigen `cwiseMin`: `(b < a) ? b : a`. -/
@[inline] def emin [LT α] [DecidableLT α] (a b : α) : α := if b < a then b else a

/-- `std::abs` on a real: sign test; the `+ 0` makes `abs (-0.0) = +0.0` at `Float`
    (IEEE: `-0 + +0 = +0`, and `a + 0 = a` for every other `a`) and is the identity in a field. -/
@[inline] def eabs [LT α] [DecidableLT α] [Neg α] [Add α] [OfNat α 0] (a : α) : α :=
  if a < 0 then -a else a + 0

/-- `std::fmax(a,b)`: NaN-ignoring maximum. -/
@[inline] def fmaxS [LT α] [DecidableLT α] [RealLike α] (a b : α) : α :=
  if RealLike.isNaN a then b else if RealLike.isNaN b then a else if a < b then b else a
/-- `std::fmin(a,b)`: NaN-ignoring minimum. -/
@[inline] def fminS [LT α] [DecidableLT α] [RealLike α] (a b : α) : α :=
  if RealLike.isNaN a then b else if RealLike.isNaN b then a else if b < a then b else a

/-- `std::clamp(v, lo, hi)` = `(v < lo) ? lo : (hi < v) ? hi : v`. -/
@[inline] def eclamp [LT α] [DecidableLT α] (v lo hi : α) : α :=
  if v < lo then lo else if hi < v then hi else v

end

/-! ### Bounds with explicit infinities

A bound is `none` when the C++ stores `±inf`. `Box α` is a list of `(lb, ub)` pairs. -/

abbrev Bnd (α : Type) := Option α

/-- `max(v, lb)` where `lb = none` means `-inf`. -/
@[inline] def maxLb {α} [LT α] [DecidableLT α] (v : α) (lb : Bnd α) : α :=
  match lb with | none => v | some l => emax v l
/-- `min(v, ub)` where `ub = none` means `+inf`. -/
@[inline] def minUb {α} [LT α] [DecidableLT α] (v : α) (ub : Bnd α) : α :=
  match ub with | none => v | some u => emin v u

end Alpaqa
