/-
  C10 hand-written executable model (core Lean only): `alpaqa::LimitedMemoryQR` and
  `alpaqa::AndersonAccel` on top of the ring index arithmetic / scalar formulas regenerated from
  the C++ (`Alpaqa/Gen/C10.lean`).  Tied to /repo by the bit-exact op-sequence correspondence of
  `checks/c10.py` (`harness/c10.cpp` ↔ `Driver/C10.lean`).

  Conventions.  Vectors are total functions `Nat → α`, matrices `Nat → Nat → α` (row, column);
  between operations they are *frozen* into arrays (`Mat`, `Array α`) so that no closure chain
  survives an operation.  Reductions are `sumTo` — Eigen's scalar-path redux (`res = f 0;
  res += f i`), so the `Float` instance is bit-exact under the harness flags.
  Storage that the C++ leaves uninitialised is `0` here; it is never read (the correspondence
  compares only what the public API exposes).

  `JacobiRotation::makeGivens` is an oracle `giv p q = (c, s, r)`; the theorems assume the
  contract `c² + s² = 1`, `r = c·p − s·q`, `s·p + c·q = 0`; the driver instantiates it with a
  line-by-line port of Eigen's real-scalar implementation (`givensEigen`).
-/
import Alpaqa.Model.Vec
import Alpaqa.Gen.C10

namespace Alpaqa.C10
open Alpaqa Alpaqa.Gen

/-! ### frozen storage -/

/-- Column-major dense storage: `cols` arrays of length `rows`. -/
structure Mat (α : Type) where
  rows : Nat
  cols : Nat
  data : Array (Array α)

section
variable {α : Type}

/-- Eigen scalar-path redux of `f 0 … f (n-1)` with `+`: starts from `f 0`, not from `0`. -/
def sumTo [Add α] [OfNat α 0] : Nat → (Nat → α) → α
  | 0, _ => 0
  | 1, f => f 0
  | k + 2, f => sumTo (k + 1) f + f (k + 1)

def freezeV (n : Nat) (f : Nat → α) : Array α := Array.ofFn (n := n) fun i => f i.val
def readV [OfNat α 0] (a : Array α) (i : Nat) : α := a.getD i 0

def Mat.ofFn (rows cols : Nat) (f : Nat → Nat → α) : Mat α :=
  ⟨rows, cols, Array.ofFn (n := cols) fun j => Array.ofFn (n := rows) fun i => f i.val j.val⟩
def Mat.get [OfNat α 0] (M : Mat α) (i j : Nat) : α := (M.data.getD j #[]).getD i 0
def Mat.zero [OfNat α 0] (rows cols : Nat) : Mat α := Mat.ofFn rows cols fun _ _ => 0

/-- `q.norm()` / `v.norm()` over `n` rows. -/
def normTo [Add α] [Mul α] [OfNat α 0] [RealLike α] (n : Nat) (f : Nat → α) : α :=
  RealLike.sqrt (sumTo n fun j => f j * f j)

end

/-! ### LimitedMemoryQR -/

structure LMQR (α : Type) where
  n : Nat
  m : Nat
  Q : Mat α            -- n × m
  R : Mat α            -- m × m, columns in ring order
  qIdx : Nat
  rStart : Nat
  rEnd : Nat
  reorth : Nat
  minEig : α
  maxEig : α
  infc : α             -- the constant `inf<config_t>` (set by the constructor; read by `update_eig_bounds`)

section
variable {α : Type} [Add α] [Sub α] [Mul α] [Div α] [Neg α] [LT α] [LE α] [DecidableLT α]
  [DecidableLE α] [BEq α] [RealLike α] [NatCast α] [OfScientific α] [OfNat α 0] [OfNat α 1]

/-- `reset()`; `inf` = `inf<config_t>`. -/
def LMQR.reset (inf : α) (s : LMQR α) : LMQR α :=
  let (qi, rs, re, rc) := lmqrResetIdx
  let (mn, mx) := lmqrResetEig inf
  { s with qIdx := qi, rStart := rs, rEnd := re, reorth := rc, minEig := mn, maxEig := mx }

/-- `LimitedMemoryQR(n, m)` (member initialisers = the state `reset()` produces). -/
def LMQR.new (inf : α) (n m : Nat) : LMQR α :=
  LMQR.reset inf { n := n, m := m, Q := Mat.zero n m, R := Mat.zero m m, qIdx := 0, rStart := 0,
                   rEnd := 0, reorth := 0, minEig := inf, maxEig := inf, infc := inf }

/-- storage column of logical column `k` as `get_full_R` computes it (rotate by `r_idx_start`). -/
def LMQR.slot (s : LMQR α) (k : Nat) : Nat := (s.rStart + k) % s.m

/-- `get_R()`: `q_idx × q_idx`, upper triangular view of the ring-ordered columns. -/
def LMQR.getR (s : LMQR α) (i k : Nat) : α := if i ≤ k then s.R.get i (s.slot k) else 0

/-! #### add_column -/

/-- One iteration of the (re)orthogonalisation `for`: `s = Q.col(i).dot(q); r(i) (+)= s;
    q -= s * Q.col(i)`. -/
def mgsStep (n : Nat) (Q : Nat → Nat → α) (acc : Bool) (i : Nat) (q r : Nat → α) :
    (Nat → α) × (Nat → α) :=
  let s := sumTo n fun j => Q j i * q j
  (fun j => q j - s * Q j i, fun k => if k = i then (if acc then r i + s else s) else r k)

/-- `for (i = 0; i < K; ++i)` of `mgsStep`. -/
def mgsPass (n : Nat) (Q : Nat → Nat → α) (acc : Bool) : Nat → (Nat → α) × (Nat → α) →
    (Nat → α) × (Nat → α)
  | 0, qr => qr
  | k + 1, qr => let qr' := mgsPass n Q acc k qr; mgsStep n Q acc k qr'.1 qr'.2

/-- The `while (norm_q < η * norm_v)` loop; `q`, `r` frozen after every pass.
    Returns `(q, r, norm_q, number of passes)`.  `fuel` bounds the trip count (each pass must shrink
    `norm_q` by the factor η, so binary64 needs < 2200 passes; the driver passes 4096). -/
def reorthLoop (n m K : Nat) (Q : Nat → Nat → α) (η : α) :
    Nat → Array α → Array α → α → α → Nat → Array α × Array α × α × Nat
  | 0, q, r, nq, _, cnt => (q, r, nq, cnt)
  | fuel + 1, q, r, nq, nv, cnt =>
    if lmqrReorthCond η nq nv then
      let qr := mgsPass n Q true K (readV q, readV r)
      let q' := freezeV n qr.1
      let r' := freezeV m qr.2
      reorthLoop n m K Q η fuel q' r' (normTo n (readV q')) nq (cnt + 1)
    else (q, r, nq, cnt)

/-- The orthogonalised column, its coefficients, its norm and the pass count:
    everything `add_column` computes before it normalises. -/
def addCore (fuel : Nat) (s : LMQR α) (v : Nat → α) : Array α × Array α × α × Nat :=
  let K := s.qIdx
  let qr := mgsPass s.n s.Q.get false K (v, fun i => s.R.get i s.rEnd)
  let q := freezeV s.n qr.1
  let r := freezeV s.m qr.2
  reorthLoop s.n s.m K s.Q.get lmqrEta fuel q r (normTo s.n (readV q)) (normTo s.n v) 0

/-- `add_column(v)`: `r(q_idx) = norm_q; if (norm_q > 0) q /= norm_q; else q.setZero();`. -/
def LMQR.addColumn (fuel : Nat) (s : LMQR α) (v : Nat → α) : LMQR α :=
  let K := s.qIdx
  let core := addCore fuel s v
  let q := core.1
  let r := core.2.1
  let nq := core.2.2.1
  let (mn, mx) := lmqrAddEig s.minEig s.maxEig nq
  let (qi, rs, re) := lmqrAddIdx s.m s.qIdx s.rStart s.rEnd
  { s with
    Q := Mat.ofFn s.n s.m fun i j =>
      if j = K then (if lmqrAddNormalize nq then readV q i / nq else 0) else s.Q.get i j
    R := Mat.ofFn s.m s.m fun i j =>
      if j = s.rEnd then (if i = K then nq else readV r i) else s.R.get i j
    qIdx := qi, rStart := rs, rEnd := re, reorth := s.reorth + core.2.2.2, minEig := mn, maxEig := mx }

/-! #### remove_column -/

/-- Eigen `apply_rotation_in_the_plane(x, y, (c, −s))`: `x' = c·x − s·y`, `y' = s·x + c·y`,
    with its early return for the identity rotation. -/
@[inline] def rotPair (c s x y : α) : α × α :=
  if c == 1 && s == 0 then (x, y) else (c * x - s * y, s * x + c * y)

/-- `R.col(cc).applyOnTheLeft(r, r+1, G.adjoint())`.
    (The rotated pair is computed only when an entry of column `cc` is read: compiled Lean
    η-expands this definition, so a `let` in front of the `fun` would be re-evaluated on every
    read, also on reads that merely pass through.) -/
def rotRows (c s : α) (r cc : Nat) (R : Nat → Nat → α) : Nat → Nat → α :=
  fun i j =>
    if j = cc then
      (if i = r then (rotPair c s (R r cc) (R (r + 1) cc)).1
       else if i = r + 1 then (rotPair c s (R r cc) (R (r + 1) cc)).2 else R i j)
    else R i j

/-- `Q.block(0,0,n,q_idx).applyOnTheRight(r, r+1, G)`. -/
def rotCols (c s : α) (r : Nat) (Q : Nat → Nat → α) : Nat → Nat → α :=
  fun i j => if j = r then (rotPair c s (Q i r) (Q i (r + 1))).1
             else if j = r + 1 then (rotPair c s (Q i r) (Q i (r + 1))).2 else Q i j

/-- `for (cc = r_succ(c); cc != r_idx_end; cc = r_succ(cc)) R.col(cc).applyOnTheLeft(…)`. -/
def innerLoop (m rEnd : Nat) (c s : α) (r : Nat) : Nat → Nat → (Nat → Nat → α) → Nat → Nat → α
  | 0, _, R => R
  | fuel + 1, cc, R =>
    if lmqrInnerCond rEnd cc then innerLoop m rEnd c s r fuel (lmqrInnerStep m cc) (rotRows c s r cc R)
    else R

/-- State of the Givens sweep. -/
structure Sweep (α : Type) where
  r : Nat
  c : Nat
  Q : Nat → Nat → α
  R : Nat → Nat → α
  minEig : α
  maxEig : α

/-- One trip of the `while (r < q_idx - 1)` body. -/
def sweepStep (giv : α → α → α × α × α) (m rEnd : Nat) (w : Sweep α) : Sweep α :=
  let g := giv (w.R w.r w.c) (w.R (w.r + 1) w.c)
  let cθ := g.1
  let sθ := g.2.1
  let R1 : Nat → Nat → α := fun i j => if i = w.r ∧ j = w.c then g.2.2 else w.R i j
  let R2 := innerLoop m rEnd cθ sθ w.r m (lmqrInnerInit m w.c) R1
  let Q2 := rotCols cθ sθ w.r w.Q
  let (r', c') := lmqrRemoveAdvance m w.r w.c
  { r := r', c := c', Q := Q2, R := R2, minEig := w.minEig, maxEig := w.maxEig }

def sweepLoop (giv : α → α → α × α × α) (m rEnd qIdx : Nat) : Nat → Sweep α → Sweep α
  | 0, w => w
  | fuel + 1, w =>
    if lmqrRemoveCond qIdx w.r then sweepLoop giv m rEnd qIdx fuel (sweepStep giv m rEnd w) else w

/-- `remove_column()` up to (excluding) its last statement `update_eig_bounds();`. -/
def LMQR.removeCore (giv : α → α → α × α × α) (s : LMQR α) : LMQR α :=
  let (r0, c0) := lmqrRemoveInit s.m s.qIdx s.rStart s.rEnd
  let w := sweepLoop giv s.m s.rEnd s.qIdx s.m
    { r := r0, c := c0, Q := s.Q.get, R := s.R.get, minEig := s.minEig, maxEig := s.maxEig }
  let (qi, rs, re) := lmqrRemoveIdx s.m s.qIdx s.rStart s.rEnd
  { s with Q := Mat.ofFn s.n s.m w.Q, R := Mat.ofFn s.m s.m w.R, qIdx := qi, rStart := rs, rEnd := re,
           minEig := w.minEig, maxEig := w.maxEig }

/-! #### ring iteration (CircularRange / ReverseCircularRange over the generated iterator steps) -/

/-- `for (auto [i, c] : ring_iter())`: the `(zerobased, circular)` pairs in order. -/
def ringFwdFrom (max size : Nat) : Nat → Nat → Nat → List (Nat × Nat)
  | 0, _, _ => []
  | fuel + 1, zb, ci =>
    if circEq zb ci size 0 then [] else (zb, ci) :: (let p := circInc max zb ci; ringFwdFrom max size fuel p.1 p.2)

def LMQR.ringFwd (s : LMQR α) : List (Nat × Nat) :=
  let a := lmqrRingIterArgs s.m s.qIdx s.rStart s.rEnd
  let b := circBegin a.1 a.2.1 a.2.2.1 a.2.2.2
  let e := circEnd a.1 a.2.1 a.2.2.1 a.2.2.2
  ringFwdFrom b.2.2 e.1 (s.m + 1) b.1 b.2.1

/-- `for (auto [i, c] : ring_reverse_iter())`: start at `rbegin = reverse_iterator{end()}`,
    dereference = `*--tmp`, advance = `--forwardit`, stop when `forwardit == begin()`. -/
def ringRevFrom (max bz : Nat) : Nat → Nat → Nat → List (Nat × Nat)
  | 0, _, _ => []
  | fuel + 1, zb, ci =>
    if circEq zb ci bz 0 then [] else
      let p := circDec max zb ci
      p :: ringRevFrom max bz fuel p.1 p.2

def LMQR.ringRev (s : LMQR α) : List (Nat × Nat) :=
  let a := lmqrRingIterArgs s.m s.qIdx s.rStart s.rEnd
  let b := circBegin a.1 a.2.1 a.2.2.1 a.2.2.2
  let e := circEnd a.1 a.2.1 a.2.2.1 a.2.2.2
  -- rend().forwardit = begin(): its zerobased index is what `circEq` compares with
  ringRevFrom e.2.2 b.1 (s.m + 1) e.1 e.2.1

/-! #### update_eig_bounds, and the two operations that end with it -/

/-- `for (auto [i, r_idx] : ring_iter()) { min_eig = min(min_eig, R(i, r_idx)); max_eig = max(…); }` -/
def eigLoop : List (Nat × Nat) → (Nat → Nat → α) → α × α → α × α
  | [], _, acc => acc
  | (i, c) :: rest, R, acc => eigLoop rest R (lmqrEigStep acc.1 acc.2 (R i c))

/-- `update_eig_bounds()`. -/
def LMQR.updateEig (s : LMQR α) : LMQR α :=
  { s with minEig := (eigLoop s.ringFwd s.R.get (lmqrEigInit s.infc)).1,
           maxEig := (eigLoop s.ringFwd s.R.get (lmqrEigInit s.infc)).2 }

/-- `remove_column()`. -/
def LMQR.removeColumn (giv : α → α → α × α × α) (s : LMQR α) : LMQR α := (s.removeCore giv).updateEig

/-! #### solve_col -/

/-- Inner loop of the back substitution: `for (it_c = it_d.forwardit; it_c != fwd_end; ++it_c)
    x(rR) -= R(rR, cR2) * x(rX2)` accumulated on `acc`. -/
def solveInner (max size : Nat) (R : Nat → Nat → α) (rR : Nat) (x : Nat → α) :
    Nat → Nat → Nat → α → α
  | 0, _, _, acc => acc
  | fuel + 1, zb, ci, acc =>
    if circEq zb ci size 0 then acc
    else
      let p := circInc max zb ci
      solveInner max size R rR x fuel p.1 p.2 (acc - R rR ci * x zb)

/-- Outer loop: `for (it_d = rev_bgn; it_d != rev_end; ++it_d)`; `(zb, ci)` = `it_d.forwardit`. -/
def solveOuter (n max size bz : Nat) (Q R : Nat → Nat → α) (b : Nat → α) (tol : α) :
    Nat → Nat → Nat → (Nat → α) → Nat → α
  | 0, _, _, x => x
  | fuel + 1, zb, ci, x =>
    if circEq zb ci bz 0 then x
    else
      let d := circDec max zb ci          -- (rR, cR) = *it_d
      let rR := d.1
      let cR := d.2
      let x' : Nat → α :=
        if lmqrSolveSkip (R rR cR) tol then fun k => if k = rR then 0 else x k
        else
          let t := sumTo n fun j => Q j rR * b j
          let t := solveInner max size R rR x (max + 1) zb ci t
          let v := t / R rR cR
          fun k => if k = rR then v else x k
      solveOuter n max size bz Q R b tol fuel d.1 d.2 x'

/-- `solve_col(b, x, tol)`: `x` is in/out (entries ≥ `q_idx` keep their old values). -/
def LMQR.solveCol (s : LMQR α) (b x : Nat → α) (tol : α) : Nat → α :=
  let a := lmqrRingIterArgs s.m s.qIdx s.rStart s.rEnd
  let bg := circBegin a.1 a.2.1 a.2.2.1 a.2.2.2
  let e := circEnd a.1 a.2.1 a.2.2.1 a.2.2.2
  solveOuter s.n e.2.2 e.1 bg.1 s.Q.get s.R.get b tol (s.m + 1) e.1 e.2.1 x

/-! #### scale_R -/

def scaleLoop (scal : α) : List (Nat × Nat) → (Nat → Nat → α) → Nat → Nat → α
  | [], R => R
  | (i, c) :: rest, R =>
    scaleLoop scal rest fun k j => if j = c ∧ k ≤ i then R k j * scal else R k j

/-- `scale_R(scal)`. -/
def LMQR.scaleR (s : LMQR α) (scal : α) : LMQR α :=
  LMQR.updateEig { s with R := Mat.ofFn s.m s.m (scaleLoop scal s.ringFwd s.R.get) }

/-! ### AndersonAccel -/

structure AA (α : Type) where
  n : Nat
  memory : Nat
  minDivFac : α
  qr : LMQR α
  G : Mat α            -- n × m_AA
  rLast : Array α
  gamLS : Array α
  initialized : Bool

/-- `AndersonAccel(params, n)` = `resize(n)`. -/
def AA.new (inf : α) (memory : Nat) (minDivFac : α) (n : Nat) : AA α :=
  let mAA := aaMem n memory
  { n := n, memory := memory, minDivFac := minDivFac, qr := LMQR.new inf n mAA,
    G := Mat.zero n mAA, rLast := freezeV n fun _ => 0, gamLS := freezeV mAA fun _ => 0,
    initialized := false }

/-- `initialize(g₀, r₀)`. -/
def AA.initialize (inf : α) (a : AA α) (g0 r0 : Nat → α) : AA α :=
  { a with G := Mat.ofFn a.n a.qr.m fun i j => if j = 0 then g0 i else a.G.get i j
           rLast := freezeV a.n r0, qr := a.qr.reset inf, initialized := true }

/-- `reset()`. -/
def AA.reset (inf : α) (a : AA α) : AA α :=
  let newest := lmqrRingTail a.qr.qIdx a.qr.rStart a.qr.rEnd
  { a with G := if aaResetCopies newest
                then Mat.ofFn a.n a.qr.m fun i j => if j = 0 then a.G.get i newest else a.G.get i j
                else a.G
           qr := a.qr.reset inf }

/-- The accumulation loop `while (++g_it != g_end) { α = γ(i) − γ(i−1); x += α G.col(g_idx) }`
    over the remaining ring entries. -/
def aaAccum (gam : Nat → α) (G : Nat → Nat → α) : List (Nat × Nat) → (Nat → α) → Nat → α
  | [], x => x
  | (i, c) :: rest, x =>
    let al := aaAlphaMid gam i
    aaAccum gam G rest fun j => x j + al * G j c

/-- `xₖ_aa = α₀ G.col(c₀); loop; xₖ_aa += α_last gₖ` over the ring entries `fwd` (= `ring_iter()`). -/
def aaCombine (gam : Nat → α) (G : Nat → Nat → α) (gk : Nat → α) (numCols : Nat) :
    List (Nat × Nat) → Nat → α
  | [] => fun _ => 0     -- unreachable after add_column (the C++ asserts)
  | (_, c0) :: rest =>
    let a0 := aaAlpha0 gam
    let x1 := aaAccum gam G rest fun j => a0 * G j c0
    let aL := aaAlphaLast gam numCols
    fun j => x1 j + aL * gk j

/-- `minimize_update_anderson` + the `rₗₐₛₜ = rₖ` of `compute`; returns the new state and `xₖ_aa`. -/
def AA.computeCore (fuel : Nat) (giv : α → α → α × α × α) (a : AA α) (gk rk : Nat → α) :
    AA α × Array α :=
  let qr1 := if aaFull (lmqrNumColumns a.qr.qIdx a.qr.rStart a.qr.rEnd) a.qr.m
             then a.qr.removeColumn giv else a.qr
  let qr2 := qr1.addColumn fuel fun j => rk j - readV a.rLast j
  let gam := freezeV qr2.m (qr2.solveCol rk (readV a.gamLS) (aaTol qr2.maxEig a.minDivFac))
  let G := a.G.get
  let x := aaCombine (readV gam) G gk (lmqrNumColumns qr2.qIdx qr2.rStart qr2.rEnd) qr2.ringFwd
  let xa := freezeV a.n x
  let tail := lmqrRingTail qr2.qIdx qr2.rStart qr2.rEnd
  ({ a with qr := qr2, gamLS := gam, rLast := freezeV a.n rk
            G := Mat.ofFn a.n a.qr.m fun i j => if j = tail then gk i else G i j }, xa)

/-- `compute(gₖ, rₖ, xₖ_aa)`; `none` = `std::logic_error` (called before `initialize`). -/
def AA.compute (fuel : Nat) (giv : α → α → α × α × α) (a : AA α) (gk rk : Nat → α) :
    Option (AA α × Array α) :=
  if !a.initialized then none else some (a.computeCore fuel giv gk rk)

def AA.scaleR (a : AA α) (scal : α) : AA α := { a with qr := a.qr.scaleR scal }

end

/-! ### `JacobiRotation<double>::makeGivens` (Eigen 3.4, real scalars), line by line -/

/-- returns `(c, s, r)`. -/
def givensEigen {α : Type} [Add α] [Mul α] [Div α] [Neg α] [LT α] [DecidableLT α] [BEq α]
    [RealLike α] [OfNat α 0] [OfNat α 1] (p q : α) : α × α × α :=
  if q == 0 then
    ((if p < 0 then -1 else 1), 0, eabs p)
  else if p == 0 then
    (0, (if q < 0 then 1 else -1), eabs q)
  else if eabs q < eabs p then
    let t := q / p
    let u := RealLike.sqrt (1 + t * t)
    let u := if p < 0 then -u else u
    let c := 1 / u
    (c, -t * c, p * u)
  else
    let t := p / q
    let u := RealLike.sqrt (1 + t * t)
    let u := if q < 0 then -u else u
    let s := -1 / u
    (-t * s, s, q * u)

end Alpaqa.C10
