/-
  Loop model of `PANOCSolver::operator()` (panoc.tpp), statement by statement.

  * problem functions are pure oracles (`Problem α`: y, Σ are closed over);
  * the direction provider is an arbitrary state machine (`Direction D α`);
  * `stop : Nat → Bool` is the stop flag as a function of the *tick* (number of oracle calls —
    problem evaluations and direction calls — made so far), `oot` the time-limit oracle;
  * decision kernels are the translator-generated ones (`Gen.C05`, `Gen.C06`).

  Aliasing that exists in the C++ is modelled: the two `Iterate`s are records that are swapped,
  `next->grad_ψ.swap(curr->grad_ψx̂)` is a swap of record fields, never-written fields keep the
  arbitrary initial content `garbage`.

  Executed at `Float` by `Driver/Loop.lean` against recorded traces of the real solver
  (bit-exact replay of every callback field, the returned x / y / err_z and the statistics);
  theorems are in `Props/C03.lean`, `Props/C05.lean`, `Props/C06_Panoc.lean`, `Props/C19_Panoc.lean`,
  `Props/C01_Alm.lean`; fuel sufficiency in `Proofs/PanocFuel.lean`, sizes in `Proofs/PanocSized.lean`.
-/
import Alpaqa.Model.Vec
import Alpaqa.Gen.C05
import Alpaqa.Gen.C06

namespace Alpaqa.Panoc
open Alpaqa Alpaqa.Gen

/-- Problem oracles with `y`, `Σ` fixed. -/
structure Problem (α : Type) where
  /-- `eval_ψ_grad_ψ(x, y, Σ, grad, work_n, work_m)` ↦ `(ψ, grad, work_m)` -/
  psiGradPsi : Vec α → α × Vec α × Vec α
  /-- `eval_ψ(x̂, y, Σ, ŷ)` ↦ `(ψ, ŷ)` -/
  psi : Vec α → α × Vec α
  /-- `eval_grad_ψ(x, y, Σ, grad, work_n, work_m)` ↦ `grad` -/
  gradPsi : Vec α → Vec α
  /-- `eval_grad_L(x̂, ŷ, grad, work_n)` ↦ `grad` -/
  gradL : Vec α → Vec α → Vec α
  /-- `eval_prox_grad_step(γ, x, grad_ψ, x̂, p)` ↦ `(h(x̂), x̂, p)` -/
  prox : α → Vec α → Vec α → α × Vec α × Vec α

/-- Direction provider as a state machine over an arbitrary state `D`. -/
structure Direction (D α : Type) where
  init : D → α → Vec α → Vec α → Vec α → Vec α → D
  hasInitial : D → Bool
  /-- `apply(γ, x, x̂, p, grad_ψ, q)` ↦ (new state, success, content of `q` afterwards);
      the previous content of `q` is passed in because a failing provider may leave it. -/
  apply : D → α → Vec α → Vec α → Vec α → Vec α → Vec α → D × Bool × Vec α
  update : D → α → α → Vec α → Vec α → Vec α → Vec α → Vec α → Vec α → D × Bool
  changedGamma : D → α → α → D
  reset : D → D

structure Params (α : Type) where
  L0 : α
  lipEps : α
  lipDelta : α
  LgammaFactor : α
  maxIter : Nat
  minLsCoef : α
  lsUpdateFactor : α
  forceLinesearch : Bool
  lsStrictness : α
  Lmin : α
  Lmax : α
  stopCrit : PANOCStopCrit
  maxNoProgress : Nat
  qubTol : α
  lsTol : α
  updateDirInCandidate : Bool
  recomputeLastProx : Bool
  eagerGradientEval : Bool
  /-- `InnerSolveOptions` -/
  alwaysOverwrite : Bool
  tolerance : α
  /-- fuel for the inner `while` loops (line search, initial step-size loop; the C++ loops have none).
      `Proofs/PanocFuel.run_fuel_suffices`: `(n+1)(K+1)` suffices when `L_max ≤ L_start·2ⁿ` and
      `ρᴷ < min_linesearch_coefficient` (defaults: `n = 84`, `K = 9`, 850 passes); the replay drivers
      keep the default 4096 and report `FUEL-EXHAUSTED` should it ever run out. -/
  lsFuel : Nat := 4096

structure Iterate (α : Type) where
  x : Vec α
  xhat : Vec α
  gradPsi : Vec α
  gradPsiHat : Vec α
  p : Vec α
  yhat : Vec α
  psix : α
  psixhat : α
  gamma : α
  L : α
  pTp : α
  gradPsiTp : α
  hxhat : α
  haveGradHat : Bool

structure Stats (α : Type) where
  status : SolverStatus := .Busy
  eps : α
  iterations : Nat := 0
  lsFailures : Nat := 0
  lsBacktracks : Nat := 0
  stepsizeBacktracks : Nat := 0
  lbfgsFailures : Nat := 0
  lbfgsRejected : Nat := 0
  tau1Accepted : Nat := 0
  countTau : Nat := 0
  sumTau : α
  finalGamma : α
  finalPsi : α
  finalH : α
  finalFbe : α

/-- What the progress callback is handed. -/
structure Callback (α : Type) where
  k : Nat
  status : SolverStatus
  it : Iterate α
  fbe : α
  q : Vec α
  tau : α
  eps : α

structure Result (α D : Type) where
  stats : Stats α
  /-- direction state at exit -/
  dfinal : D
  x : Vec α
  y : Vec α
  errz : Vec α
  /-- were x, y, err_z overwritten? -/
  wrote : Bool
  callbacks : List (Callback α)
  ticks : Nat
  /-- the iterate that was current at exit -/
  final : Option (Iterate α)
  /-- inner `while` ran out of model fuel (never on replayed runs) -/
  fuelOut : Bool := false

section
variable {α D : Type} [Add α] [Sub α] [Mul α] [Div α] [Neg α] [LT α] [LE α] [DecidableLT α]
  [DecidableLE α] [BEq α] [RealLike α] [NatCast α] [OfScientific α]
  [OfNat α 0] [OfNat α 1] [OfNat α 2] [OfNat α 100]

def Iterate.fbe (i : Iterate α) : α := panoc_fbe i.psix i.hxhat i.pTp i.gamma i.gradPsiTp

def qubViolated (pr : Params α) (i : Iterate α) : Bool :=
  panoc_qubViolated pr.qubTol i.psix i.psixhat i.gradPsiTp i.L i.pTp

def linesearchViolated (pr : Params α) (c n : Iterate α) : Bool :=
  panoc_linesearchViolated pr.forceLinesearch pr.lsStrictness pr.lsTol
    c.psix c.hxhat c.pTp c.gamma c.gradPsiTp c.L n.psix n.hxhat n.pTp n.gamma n.gradPsiTp

/-- `eval_ψ_grad_ψ(i)` -/
def evalPsiGradPsi (P : Problem α) (i : Iterate α) : Iterate α :=
  let r := P.psiGradPsi i.x
  { i with psix := r.1, gradPsi := r.2.1 }

/-- `eval_prox_grad_step(i)` -/
def evalProxGradStep (P : Problem α) (i : Iterate α) : Iterate α :=
  let r := P.prox i.gamma i.x i.gradPsi
  let p := r.2.2
  { i with hxhat := r.1, xhat := r.2.1, p := p, pTp := sqNorm p, gradPsiTp := dot p i.gradPsi }

/-- `eval_ψx̂(i)` (both the eager and the lazy variant) -/
def evalPsiHat (P : Problem α) (pr : Params α) (i : Iterate α) : Iterate α :=
  if pr.eagerGradientEval then
    let r := P.psiGradPsi i.xhat
    { i with psixhat := r.1, gradPsiHat := r.2.1, yhat := r.2.2, haveGradHat := true }
  else
    let r := P.psi i.xhat
    { i with psixhat := r.1, yhat := r.2, haveGradHat := false }

/-- `eval_grad_ψx̂(i)` -/
def evalGradPsiHat (P : Problem α) (i : Iterate α) : Iterate α :=
  { i with gradPsiHat := P.gradL i.xhat i.yhat, haveGradHat := true }

/-- `Helpers::initial_lipschitz_estimate` (the overload that also returns ψ, ∇ψ).
    Returns `(L, ψ, ∇ψ, work_x, work_grad_ψ)`. -/
def initialLipschitz (P : Problem α) (pr : Params α) (x : Vec α) : α × α × Vec α × Vec α × Vec α :=
  let r := P.psiGradPsi x
  let g := r.2.1
  let h := g.map fun gi =>
    if gi > 0 then emax (pr.lipEps * gi) pr.lipDelta else emin (pr.lipEps * gi) (-pr.lipDelta)
  let wx := vsub x h
  let normh := norm2 h
  let wg := P.gradPsi wx
  let L := norm2 (vsub wg g) / normh
  (eclamp L pr.Lmin pr.Lmax, r.1, g, wx, wg)

/-- State threaded through one solve. -/
structure St (α D : Type) where
  curr : Iterate α
  next : Iterate α
  q : Vec α
  /-- has `apply` been called yet (before that `q` is uninitialised storage) -/
  qValid : Bool := false
  d : D
  tick : Nat
  stats : Stats α
  k : Nat
  noProgress : Nat
  cbs : List (Callback α)
  fuelOut : Bool := false
  /-- `have_ŷx̂` of the loop head just passed: `ŷx̂` of the current iterate holds `ŷ(x̂)` (always with
      lazy evaluation; with `eager_gradient_eval` only if the head evaluated it) -/
  yhatValid : Bool := false

/-- Line-search working state. -/
structure LS (α D : Type) where
  curr : Iterate α
  next : Iterate α
  d : D
  tick : Nat
  tau : α
  tauPrev : α
  updInLs : Bool
  updated : Bool
  dirRejected : Bool
  lsBacktracks : Nat
  stepsizeBacktracks : Nat
  lbfgsRejected : Nat
  fuelOut : Bool := false

/-- `take_safe_step` -/
def takeSafeStep (P : Problem α) (c n : Iterate α) (tick : Nat) : Iterate α × Iterate α × Nat :=
  let (c, tick) := if !c.haveGradHat then (evalGradPsiHat P c, tick + 1) else (c, tick)
  -- next->grad_ψ.swap(curr->grad_ψx̂)
  let n' := { n with x := c.xhat, psix := c.psixhat, gradPsi := c.gradPsiHat, haveGradHat := false }
  let c' := { c with gradPsiHat := n.gradPsi, haveGradHat := false }
  (c', n', tick)

/-- `take_accelerated_step(τ)` -/
def takeAcceleratedStep (P : Problem α) (c n : Iterate α) (q : Vec α) (tau : α) : Iterate α :=
  let x := if tau == 1 then vadd c.x q
           else vadd (vadd c.x (smul (1 - tau) c.p)) (smul tau q)
  { evalPsiGradPsi P { n with x := x } with haveGradHat := false }

/-- Outcome of one pass through the body of the line-search loop. -/
inductive Pass (α D : Type) where
  /-- `break`: QUB and line-search conditions satisfied -/
  | done (s : LS α D)
  /-- `continue` -/
  | again (s : LS α D)

/-- `if (τ != τ_prev) { τ != 0 ? take_accelerated_step(τ) : take_safe_step(); τ_prev = τ; }` -/
def lsRecompute (P : Problem α) (q : Vec α) (s : LS α D) : LS α D :=
  if s.tau != s.tauPrev then
    if s.tau != 0 then
      { s with next := takeAcceleratedStep P s.curr s.next q s.tau, tick := s.tick + 1,
               tauPrev := s.tau }
    else
      let r := takeSafeStep P s.curr s.next s.tick
      { s with curr := r.1, next := r.2.1, tick := r.2.2, tauPrev := s.tau }
  else s

/-- "Update L-BFGS in candidate (even if we don't accept this point)". -/
def lsUpdateInCandidate (dir : Direction D α) (s : LS α D) : LS α D :=
  if s.updInLs && !s.updated then
    let r := dir.update s.d s.curr.gamma s.next.gamma s.curr.x s.next.x s.curr.p s.next.p
               s.curr.gradPsi s.next.gradPsi
    { s with d := r.1, tick := s.tick + 1, dirRejected := !r.2,
             lbfgsRejected := s.lbfgsRejected + (if r.2 then 0 else 1),
             updInLs := false, updated := true }
  else s

/-- One pass through the body of `while (!stop_signal.stop_requested()) { … }`. -/
def lsPass (P : Problem α) (dir : Direction D α) (pr : Params α) (q : Vec α) (tauInit : α)
    (s0 : LS α D) : Pass α D :=
  -- Recompute step only if τ changed
  let s := lsRecompute P q s0
  let fail := !RealLike.isFinite s.next.psix ||
    (decide (s.next.L ≥ pr.Lmax) && !decide (s.curr.L ≥ pr.Lmax))
  if decide (s.tau > (0 : α)) && fail then
    .again { s with next := { s.next with L := s.curr.L, gamma := s.curr.gamma }, tau := 0,
                    d := dir.reset s.d, tick := s.tick + 1, updInLs := false }
  else
  -- Calculate x̂ₖ₊₁, ψ(x̂ₖ₊₁)
  let s2 : LS α D := { s with next := evalPsiHat P pr (evalProxGradStep P s.next), tick := s.tick + 2 }
  if decide (s2.next.L < pr.Lmax) && qubViolated pr s2.next then
    .again { s2 with next := { s2.next with gamma := s2.next.gamma / 2, L := s2.next.L * 2 },
                     tau := if s2.tau > 0 then tauInit else s2.tau,
                     stepsizeBacktracks := s2.stepsizeBacktracks + 1, updInLs := false }
  else
  -- Update L-BFGS in candidate
  let s3 := lsUpdateInCandidate dir s2
  if decide (s3.tau > (0 : α)) && linesearchViolated pr s3.curr s3.next then
    let tau := s3.tau * pr.lsUpdateFactor
    let tau := if tau < pr.minLsCoef then 0 else tau
    .again { s3 with tau := tau, lsBacktracks := s3.lsBacktracks + 1 }
  else .done s3

/-- The inner `while (!stop_signal.stop_requested())` loop. -/
def lineSearch (P : Problem α) (dir : Direction D α) (pr : Params α) (stop : Nat → Bool)
    (q : Vec α) (tauInit : α) : Nat → LS α D → LS α D
  | 0, s => { s with fuelOut := true }
  | fuel + 1, s =>
    if stop s.tick then s else
    match lsPass P dir pr q tauInit s with
    | .done s' => s'
    | .again s' => lineSearch P dir pr stop q tauInit fuel s'

def statusOf (pr : Params α) (k : Nat) (eps : α) (noProgress : Nat) (oot intr : Bool) :
    SolverStatus :=
  statusChain pr.tolerance pr.maxIter pr.maxNoProgress k eps noProgress oot intr

def epsOf (P : Problem α) (pr : Params α) (c : Iterate α) : α :=
  calcErrorStopCrit pr.stopCrit (fun g x gr => let r := P.prox g x gr; (r.2.1, r.2.2))
    c.p c.gamma c.x c.xhat c.yhat c.gradPsi c.gradPsiHat

/-- number of oracle calls `calc_error_stop_crit` makes -/
def epsTicks (c : PANOCStopCrit) : Nat :=
  match c with
  | .ProjGradUnitNorm | .ProjGradUnitNorm2 | .Ipopt | .LBFGSBpp => 1
  | _ => 0

/-- Exit block: write-back of x, y, err_z and the statistics. -/
def exitBlock (P : Problem α) (pr : Params α) (s : St α D) (eps : α) (status : SolverStatus)
    (x0 y Sig : Vec α) (errz0 : Vec α) : Result α D :=
  let cb : Callback α :=
    { k := s.k, status := status, it := s.curr, fbe := s.curr.fbe, q := [], tau := -1, eps := eps }
  let write := status == .Converged || status == .Interrupted || pr.alwaysOverwrite
  -- the progress callback counts as one event
  -- `if (!have_ŷx̂) curr->ψx̂ = problem.eval_ψ(curr->x̂, y, Σ, curr->ŷx̂)` (with eager evaluation
  -- eval_ψ_grad_ψ only used ŷx̂ as workspace, unless the head already evaluated ŷ)
  let (c, tick) := if write && !s.yhatValid then
      (let r := P.psi s.curr.xhat; { s.curr with psixhat := r.1, yhat := r.2 }, s.tick + 2)
    else (s.curr, s.tick + 1)
  let errz := if write then (if errz0.length > 0 then vdiv (vsub c.yhat y) Sig else errz0) else errz0
  let st : Stats α :=
    { s.stats with iterations := s.k, eps := eps, status := status,
                   finalGamma := c.gamma, finalPsi := c.psixhat, finalH := c.hxhat,
                   finalFbe := c.fbe }
  { stats := st, dfinal := s.d, x := if write then c.xhat else x0, y := if write then c.yhat else y, errz := errz,
    wrote := write, callbacks := (cb :: s.cbs).reverse, ticks := tick, final := some c,
    fuelOut := s.fuelOut }

/-- `ŷ(x̂)` is read at this head: by the Ipopt criterion, or by `eval_grad_L` when `∇ψ(x̂)` has to be
    recomputed. -/
def headReadsYhat (pr : Params α) (c : Iterate α) : Bool :=
  pr.stopCrit == .Ipopt || (requiresGradHat pr.stopCrit && !c.haveGradHat)

/-- `have_ŷx̂` after the head's ŷ evaluation. -/
def headYhatValid (pr : Params α) (c : Iterate α) : Bool :=
  !pr.eagerGradientEval || headReadsYhat pr c

/-- `(void)problem.eval_ψ(curr->x̂, y, Σ, curr->ŷx̂)` at the loop head: with eager evaluation `ŷx̂` has only
    been the workspace of `eval_ψ_grad_ψ`; it is evaluated where it is read (`ψ(x̂)` is known already and
    is not overwritten).  Returns the iterate and the number of calls made (0 or 1). -/
def headEvalYhat (P : Problem α) (pr : Params α) (c : Iterate α) : Iterate α × Nat :=
  if pr.eagerGradientEval && headReadsYhat pr c then ({ c with yhat := (P.psi c.xhat).2 }, 1) else (c, 0)

/-- Top of the loop: `ŷ(x̂ₖ)` (eager evaluation) and `∇ψ(x̂ₖ)` if the criterion needs them, `εₖ`, the stop
    status. -/
def headStep (P : Problem α) (pr : Params α) (stop : Nat → Bool) (oot : Bool) (s : St α D) :
    St α D × α × SolverStatus :=
  let cy := headEvalYhat P pr s.curr
  let ct := if requiresGradHat pr.stopCrit && !cy.1.haveGradHat
    then (evalGradPsiHat P cy.1, s.tick + cy.2 + 1) else (cy.1, s.tick + cy.2)
  let eps := epsOf P pr ct.1
  let s' : St α D := { s with curr := ct.1, tick := ct.2 + epsTicks pr.stopCrit,
                              yhatValid := headYhatValid pr s.curr }
  (s', eps, statusOf pr s'.k eps s'.noProgress oot (stop s'.tick))

/-- Direction stage: `initialize` at k = 0, `apply`, validity check.
    Returns (direction state, tick, q, τ_init, lbfgs_failures increment, q valid). -/
def directionStage (dir : Direction D α) (s : St α D) : D × Nat × Vec α × α × Nat × Bool :=
  let dt := if s.k == 0 then
      (dir.init s.d s.curr.gamma s.curr.x s.curr.xhat s.curr.p s.curr.gradPsi, s.tick + 1)
    else (s.d, s.tick)
  let hasInit := dir.hasInitial dt.1
  -- has_initial_direction() is only evaluated when k = 0
  let tick := if s.k == 0 then dt.2 + 1 else dt.2
  let qValid := s.qValid || decide (s.k > 0) || hasInit
  if decide (s.k > 0) || hasInit then
    let r := dir.apply dt.1 s.curr.gamma s.curr.x s.curr.xhat s.curr.p s.curr.gradPsi s.q
    let t1 : α := if r.2.1 then 1 else 0
    let t1 : α := if t1 == 1 && !vallFinite r.2.2 then 0 else t1
    if t1 != 1 then (dir.reset r.1, tick + 2, r.2.2, t1, 1, qValid)
    else (r.1, tick + 1, r.2.2, t1, 0, qValid)
  else (dt.1, tick, s.q, 0, 0, qValid)

/-- "Update L-BFGS" after the line search (flush on step-size change, optional recomputation of the
    last prox step, `direction.update`). Returns (curr, direction state, tick, rejected increment). -/
def updateStage (P : Problem α) (dir : Direction D α) (pr : Params α) (ls : LS α D) :
    Iterate α × D × Nat × Nat :=
  if !ls.updated then
    let cdt : Iterate α × D × Nat :=
      if ls.curr.gamma != ls.next.gamma then
        let d := dir.changedGamma ls.d ls.next.gamma ls.curr.gamma
        if pr.recomputeLastProx then
          (evalProxGradStep P { ls.curr with gamma := ls.next.gamma, L := ls.next.L }, d, ls.tick + 2)
        else (ls.curr, d, ls.tick + 1)
      else (ls.curr, ls.d, ls.tick)
    let curr := cdt.1
    let r := dir.update cdt.2.1 curr.gamma ls.next.gamma curr.x ls.next.x curr.p ls.next.p
               curr.gradPsi ls.next.gradPsi
    (curr, r.1, cdt.2.2 + 1, if r.2 then 0 else 1)
  else (ls.curr, ls.d, ls.tick, 0)

/-- One iteration of the main loop after a `Busy` status (direction, line search, bookkeeping,
    callback, `std::swap(curr, next); ++k`), or the `continue` taken when the solver was
    interrupted during the line search. -/
def iterBody (P : Problem α) (dir : Direction D α) (pr : Params α) (stop : Nat → Bool)
    (s : St α D) (eps : α) : St α D :=
  let ds := directionStage dir s
  let d := ds.1; let tick := ds.2.1; let q := ds.2.2.1; let tauInit := ds.2.2.2.1
  let fails := ds.2.2.2.2.1; let qValid := ds.2.2.2.2.2
  -- Line search
  let ls0 : LS α D :=
    { curr := s.curr, next := { s.next with gamma := s.curr.gamma, L := s.curr.L }, d := d,
      tick := tick, tau := tauInit, tauPrev := -1, updInLs := pr.updateDirInCandidate,
      updated := false, dirRejected := true, lsBacktracks := 0, stepsizeBacktracks := 0,
      lbfgsRejected := 0 }
  let ls := lineSearch P dir pr stop q tauInit pr.lsFuel ls0
  let stats1 : Stats α :=
    { s.stats with
      lbfgsFailures := s.stats.lbfgsFailures + fails,
      lsBacktracks := s.stats.lsBacktracks + ls.lsBacktracks,
      stepsizeBacktracks := s.stats.stepsizeBacktracks + ls.stepsizeBacktracks,
      lbfgsRejected := s.stats.lbfgsRejected + ls.lbfgsRejected }
  -- interrupted during the line search: discard the candidate, handle the stop request at the
  -- top of the loop (`if (stop_signal.stop_requested()) continue;`)
  if stop ls.tick then
    { s with curr := ls.curr, next := ls.next, q := q, qValid := qValid, d := ls.d, tick := ls.tick,
             stats := stats1, fuelOut := s.fuelOut || ls.fuelOut }
  else
  let tau := ls.tau
  let stats : Stats α :=
    { stats1 with
      lsFailures := s.stats.lsFailures + (if tau == 0 && decide (tauInit > 0) then 1 else 0),
      tau1Accepted := s.stats.tau1Accepted + (if tau == 1 then 1 else 0),
      countTau := s.stats.countTau + (if tauInit > 0 then 1 else 0),
      sumTau := s.stats.sumTau + tau }
  -- Check if we made any progress
  let noProgress := noProgressUpdate s.noProgress s.k pr.maxNoProgress (ls.curr.x == ls.next.x)
  -- Update L-BFGS
  let us := updateStage P dir pr ls
  let curr := us.1
  let stats : Stats α := { stats with lbfgsRejected := stats.lbfgsRejected + us.2.2.2 }
  -- progress callback, advance
  let cb : Callback α :=
    { k := s.k, status := .Busy, it := curr, fbe := curr.fbe, q := if qValid then q else [], tau := tau,
      eps := eps }
  { curr := ls.next, next := curr, q := q, qValid := qValid, d := us.2.1, tick := us.2.2.1 + 1,
    stats := stats, k := s.k + 1, noProgress := noProgress, cbs := cb :: s.cbs,
    fuelOut := s.fuelOut || ls.fuelOut }

/-- The main `while (true)` loop; `fuel` bounds the number of passes of the model
    (`max_iter + 2` suffices: the chain is never `Busy` at `k = max_iter`, and a pass that does not
    advance `k` is followed by an exit). -/
def mainLoop (P : Problem α) (dir : Direction D α) (pr : Params α) (stop : Nat → Bool) (oot : Bool)
    (x0 y Sig errz0 : Vec α) : Nat → St α D → Result α D
  | 0, s => { (exitBlock P pr s s.stats.eps .Exception x0 y Sig errz0) with fuelOut := true }
  | fuel + 1, s =>
    let h := headStep P pr stop oot s
    if h.2.2 != .Busy then exitBlock P pr h.1 h.2.1 h.2.2 x0 y Sig errz0
    else mainLoop P dir pr stop oot x0 y Sig errz0 fuel (iterBody P dir pr stop h.1 h.2.1)

/-- The initial `while (!stop_signal.stop_requested() && curr->L < L_max && qub_violated(*curr))`
    loop: the flag is polled first, at the tick the condition is tested.
    Returns (iterate, tick, number of backtracks, fuel exhausted). -/
def initQub (P : Problem α) (pr : Params α) (stop : Nat → Bool) :
    Nat → Iterate α → Nat → Nat → Iterate α × Nat × Nat × Bool
  | 0, c, t, b => (c, t, b, true)
  | f + 1, c, t, b =>
    if stop t then (c, t, b, false) else
    if decide (c.L < pr.Lmax) && qubViolated pr c then
      initQub P pr stop f
        (evalPsiHat P pr (evalProxGradStep P { c with gamma := c.gamma / 2, L := c.L * 2 })) (t + 2) (b + 1)
    else (c, t, b, false)

def blankIterate (garbageV : Vec α) (garbageS : α) : Iterate α :=
  { x := garbageV, xhat := garbageV, gradPsi := garbageV,
    gradPsiHat := garbageV, p := garbageV, yhat := garbageV, psix := garbageS, psixhat := garbageS,
    gamma := garbageS, L := garbageS, pTp := garbageS, gradPsiTp := garbageS, hxhat := garbageS,
    haveGradHat := false }

/-- `Stats s;` — the default member initialisers of `PANOCStats` (`ε = inf`, everything else 0);
    `infS` is the carrier's `+∞` (the replay driver passes `1.0/0.0`). -/
def stats0 (infS : α) : Stats α :=
  { eps := infS, sumTau := 0, finalGamma := 0, finalPsi := 0, finalH := 0, finalFbe := 0 }

/-- Everything before the main loop: Lipschitz estimate, first proximal-gradient step, initial
    quadratic-upper-bound backtracking.  `Sum.inl ticks` = early `NotFinite` return. -/
def initState (P : Problem α) (d0 : D) (pr : Params α) (stop : Nat → Bool) (x0 : Vec α)
    (garbageV : Vec α) (garbageS infS : α) : Nat ⊕ St α D :=
  let blank := blankIterate garbageV garbageS
  let curr := { blank with x := x0 }
  -- Estimate Lipschitz constant
  let cnt : Iterate α × Iterate α × Nat :=
    if pr.L0 ≤ 0 then
      let r := initialLipschitz P pr curr.x
      ({ curr with L := r.1, psix := r.2.1, gradPsi := r.2.2.1, xhat := r.2.2.2.1 },
       { blank with gradPsi := r.2.2.2.2 }, 2)
    else
      (evalPsiGradPsi P { curr with L := pr.L0 }, blank, 1)
  if !RealLike.isFinite cnt.1.L then .inl cnt.2.2
  else
  let curr := { cnt.1 with gamma := pr.LgammaFactor / cnt.1.L }
  -- First proximal gradient step, then the quadratic upper bound loop
  let r := initQub P pr stop pr.lsFuel (evalPsiHat P pr (evalProxGradStep P curr)) (cnt.2.2 + 2) 0
  .inr { curr := r.1, next := cnt.2.1, q := garbageV, d := d0, tick := r.2.1,
         stats := { stats0 infS with stepsizeBacktracks := r.2.2.1 }, k := 0, noProgress := 0,
         cbs := [], fuelOut := r.2.2.2 }

/-- `PANOCSolver::operator()`. `garbage*` is the arbitrary content of never-written storage
    (`garbageS`: the `NaN` the `Iterate` scalars are initialised with), `infS` the `+∞` the
    statistics' `ε` is initialised with — it is what the early `NotFinite` return reports. -/
def run (P : Problem α) (dir : Direction D α) (d0 : D) (pr : Params α) (stop : Nat → Bool)
    (oot : Bool) (x0 y Sig errz0 : Vec α) (garbageV : Vec α) (garbageS infS : α) : Result α D :=
  match initState P d0 pr stop x0 garbageV garbageS infS with
  | .inl ticks =>
    { stats := { stats0 infS with status := .NotFinite }, dfinal := d0, x := x0, y := y,
      errz := errz0, wrote := false, callbacks := [], ticks := ticks, final := none }
  | .inr s => mainLoop P dir pr stop oot x0 y Sig errz0 (pr.maxIter + 2) s

end
end Alpaqa.Panoc
