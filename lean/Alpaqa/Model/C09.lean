/-
  C09 hand-written executable model of `alpaqa::LBFGS` (lbfgs.hpp / lbfgs.tpp), core Lean only.
  Tied to /repo by the op-sequence correspondence of `checks/c09.py` (bit-exact at `Float`);
  the acceptance test and all ring index arithmetic come from `Alpaqa/Gen/C09.lean`
  (regenerated from the C++ on every run).

  State = the ring of `(s, y, ρ)` slots, the `α` row (a separate list: `apply` is `const` and
  only writes `α`; so does the repaired `apply_masked`), `idx`, `full`.
  `history()` is `slots.length`.
-/
import Alpaqa.Model.C09Base
import Alpaqa.Gen.C09

namespace Alpaqa.C09
open Alpaqa

structure Params (α : Type) where
  memory      : Nat
  minDivFac   : α
  minAbsS     : α
  cbfgsAlpha  : α
  cbfgsEps    : α
  forcePosDef : Bool
  /-- `stepsize == LBFGSStepSize::BasedOnCurvature` -/
  curvature   : Bool

/-- One column pair of `LBFGSStorage` without its `α` entry. -/
structure Slot (α : Type) where
  s   : Vec α
  y   : Vec α
  rho : α

structure State (α : Type) where
  n     : Nat
  slots : List (Slot α)
  al    : List α
  idx   : Nat
  full  : Bool

section
variable {α : Type} [Add α] [Sub α] [Mul α] [Div α] [Neg α] [LT α] [LE α] [DecidableLT α]
  [DecidableLE α] [RealLike α] [PowLike α] [HasNaN α] [OfNat α 0] [OfNat α 1] [OfNat α 2]

instance : Inhabited (Slot α) := ⟨⟨[], [], 0⟩⟩

/-- `LBFGS::update_valid(params, yᵀs, sᵀs, pᵀp)` (generated kernel applied to the params). -/
def updateValid (p : Params α) (yTs sTs pTp : α) : Bool :=
  Gen.lbfgsUpdateValid p.minAbsS p.minDivFac p.forcePosDef p.cbfgsAlpha p.cbfgsEps yTs sTs pTp

def State.history (st : State α) : Nat := st.slots.length
def State.slot (st : State α) (i : Nat) : Slot α := st.slots.getD i default
def State.currentHistory (st : State α) : Nat :=
  Gen.lbfgsCurrentHistory st.history st.idx st.full
def State.fwdIdx (st : State α) : List Nat := Gen.lbfgsForeachFwd st.history st.idx st.full
def State.revIdx (st : State α) : List Nat := Gen.lbfgsForeachRev st.history st.idx st.full
/-- `idx == 0 && not full` -/
def State.isEmpty (st : State α) : Bool := st.idx == 0 && !st.full

/-- `LBFGS(params, n)` / `resize(n)`: fresh storage (contents never read before written), `reset()`.
    `none` = `std::invalid_argument` (`memory < 1`). -/
def resize (p : Params α) (n : Nat) : Option (State α) :=
  if p.memory < 1 then none
  else some ⟨n, List.replicate p.memory ⟨List.replicate n 0, List.replicate n 0, 0⟩,
             List.replicate p.memory 0, 0, false⟩

/-- `reset()` -/
def reset (st : State α) : State α := { st with idx := 0, full := false }

/-- `update_sy_impl(s, y, pₙₑₓₜᵀpₙₑₓₜ, forced)`; returns the new state and the `bool` result. -/
def updateSy (p : Params α) (st : State α) (s y : Vec α) (pTp : α) (forced : Bool) :
    State α × Bool :=
  let yTs := dot y s
  let ρ := 1 / yTs
  if !forced && !(updateValid p yTs (sqNorm s) pTp) then (st, false)
  else
    let idx' := Gen.lbfgsSucc st.history st.idx
    ({ st with slots := st.slots.set st.idx ⟨s, y, ρ⟩, idx := idx',
               full := st.full || idx' == 0 }, true)

/-- `update(xₖ, xₙₑₓₜ, pₖ, pₙₑₓₜ, sign, forced)`; `positive` = `sign == Sign::Positive`. -/
def update (p : Params α) (st : State α) (xk xn pk pn : Vec α) (positive forced : Bool) :
    State α × Bool :=
  let s := vsub xn xk
  let y := if positive then vsub pn pk else vsub pk pn
  let pTp := if Gen.cbfgsEnabled p.cbfgsAlpha p.cbfgsEps then sqNorm pn else 0
  updateSy p st s y pTp forced

/-- First loop of `apply` over the indices `is` (newest first): `α(i) = ρ(i)·⟨s(i),q⟩; q -= α(i)·y(i)`. -/
def revPass (slots : List (Slot α)) (is : List Nat) (al : List α) (q : Vec α) : List α × Vec α :=
  is.foldl (fun (aq : List α × Vec α) i =>
    let c := slots.getD i default
    let a := c.rho * dot c.s aq.2
    (aq.1.set i a, vsub aq.2 (smul a c.y))) (al, q)

/-- Second loop of `apply` (oldest first): `β = ρ(i)·⟨y(i),q⟩; q -= (β − α(i))·s(i)`. -/
def fwdPass (slots : List (Slot α)) (al : List α) (is : List Nat) (q : Vec α) : Vec α :=
  is.foldl (fun q i =>
    let c := slots.getD i default
    let β := c.rho * dot c.y q
    vsub q (smul (β - al.getD i 0) c.s)) q

/-- The initial scaling `apply` uses: `γ` itself, or `1 / (ρ(pred idx)·‖y(pred idx)‖²)`. -/
def applyGamma (p : Params α) (st : State α) (γ : α) : α :=
  if p.curvature || decide (γ < 0) then
    let c := st.slot (Gen.lbfgsPred st.history st.idx)
    1 / (c.rho * sqNorm c.y)
  else γ

/-- `apply(q, γ)`: new state (only `α` changes), the vector left in `q`, the `bool` result. -/
def apply (p : Params α) (st : State α) (q : Vec α) (γ : α) : State α × Vec α × Bool :=
  if st.isEmpty then (st, q, false)
  else
    let γ0 := applyGamma p st γ
    let r := revPass st.slots st.revIdx st.al q
    let q2 := smul γ0 r.2
    let q3 := fwdPass st.slots r.1 st.fwdIdx q2
    ({ st with al := r.1 }, q3, true)

/-! ### `apply_masked` -/

/-- `dotJ`: `a.dot(b)` when `J` is full, else `acc = 0; for j∈J: acc += a(j)·b(j)`. -/
def dotJ (fullJ : Bool) (J : List Nat) (a b : Vec α) : α :=
  if fullJ then dot a b else J.foldl (fun acc j => acc + vget a j * vget b j) 0
/-- `axmyJ`: `y -= a·x` on the indices of `J`. -/
def axmyJ (fullJ : Bool) (J : List Nat) (a : α) (x y : Vec α) : Vec α :=
  if fullJ then vsub y (smul a x) else J.foldl (fun y j => y.set j (vget y j - a * vget x j)) y
/-- `scalJ`: `x *= a` on the indices of `J`. -/
def scalJ (fullJ : Bool) (J : List Nat) (a : α) (x : Vec α) : Vec α :=
  if fullJ then smul a x else J.foldl (fun x j => x.set j (vget x j * a)) x

/-- Loop state of `apply_masked_impl`.  `skip` abstracts the marker the code keeps in the `α`
    row: `skip[i]` ⇔ `std::isnan(α(i))` (set for a pair that is invalid on `J`; for a valid pair it
    is `isnan` of the `α` just computed).  It is rebuilt for every visited index on every call,
    so it is not part of the persistent state.  `need` is the local `need_γ`: the initial scaling
    is still to be computed from the most recent pair valid on `J`. -/
structure MaskAcc (α : Type) where
  al   : List α
  skip : List Bool
  q    : Vec α
  γ    : α
  need : Bool

/-- Body of the first loop of `apply_masked_impl` for ring index `i`.  The stored `ρ(i)` is
    *not* written (repaired code: the `J`-restricted `ρ` is a local).  The scaling is taken from
    the first visited pair that is valid on `J`, whatever its sign (repaired code: the marker is
    the separate flag `need_γ`, not the sign of `γ`). -/
def maskedRevStep (p : Params α) (fullJ : Bool) (J : List Nat) (slots : List (Slot α))
    (a : MaskAcc α) (i : Nat) : MaskAcc α :=
  let c := slots.getD i default
  let yTs := dotJ fullJ J c.s c.y
  let sTs := dotJ fullJ J c.s c.s
  let ρ := 1 / yTs
  if !(updateValid p yTs sTs 0) then
    { a with al := a.al.set i HasNaN.nan, skip := a.skip.set i true }
  else
    let αi := ρ * dotJ fullJ J c.s a.q
    let q := axmyJ fullJ J αi c.y a.q
    let set := Gen.lbfgsMaskedSetGamma a.need a.γ
    let γ := if set then Gen.lbfgsMaskedGammaOfPair ρ (dotJ fullJ J c.y c.y) else a.γ
    let need := if set then false else a.need
    { al := a.al.set i αi, skip := a.skip.set i (RealLike.isNaN αi), q := q, γ := γ, need := need }

/-- Body of the second loop of `apply_masked_impl`: skipped pairs stay skipped, the
    `J`-restricted `ρ` is recomputed. -/
def maskedFwdStep (fullJ : Bool) (J : List Nat) (slots : List (Slot α)) (al : List α)
    (skip : List Bool) (q : Vec α) (i : Nat) : Vec α :=
  let c := slots.getD i default
  if skip.getD i false then q
  else
    let ρ := 1 / dotJ fullJ J c.s c.y
    let β := ρ * dotJ fullJ J c.y q
    axmyJ fullJ J (β - al.getD i 0) c.s q

inductive MaskedResult (α : Type) where
  | threw                                     -- `std::invalid_argument` (CBFGS enabled)
  | done (st : State α) (q : Vec α) (ok : Bool)

/-- `apply_masked_impl(q, γ, J)` (repaired: only the `α` row of the state changes; it fails only
    when the scaling had to be computed and no pair is valid on `J` — `q` is then untouched). -/
def applyMasked (p : Params α) (st : State α) (q : Vec α) (γ : α) (J : List Nat) :
    MaskedResult α :=
  if st.isEmpty then .done st q false
  else
    let fullJ := q.length == J.length
    let γ := if p.curvature then -1 else γ
    if Gen.cbfgsEnabled p.cbfgsAlpha p.cbfgsEps then .threw
    else
      let a := st.revIdx.foldl (maskedRevStep p fullJ J st.slots)
        ⟨st.al, List.replicate st.al.length false, q, γ, Gen.lbfgsMaskedNeedGamma γ⟩
      let st' := { st with al := a.al }
      if Gen.lbfgsMaskedFail a.need a.γ then .done st' a.q false
      else
        let q2 := scalJ fullJ J a.γ a.q
        let q3 := st.fwdIdx.foldl (maskedFwdStep fullJ J st.slots a.al a.skip) q2
        .done st' q3 true

/-- `scale_y(factor)`: `y(i) *= factor; ρ(i) *= 1/factor` on the raw slots `0 … current_history−1`. -/
def scaleY (st : State α) (f : α) : State α :=
  let k := if st.full then st.history else st.idx
  { st with slots := (st.slots.take k).map (fun c => ⟨c.s, smul f c.y, c.rho * (1 / f)⟩)
                      ++ st.slots.drop k }

/-! ### Abstraction: the stored pairs, oldest first -/

/-- The stored slots in age order (oldest first). -/
def State.pairs (st : State α) : List (Slot α) :=
  if st.full then st.slots.drop st.idx ++ st.slots.take st.idx else st.slots.take st.idx

/-- `abs : State → History`. -/
def State.abs (st : State α) : List (Vec α × Vec α) := st.pairs.map fun c => (c.s, c.y)

/-! ### Dense specification -/

/-- The dense BFGS inverse-Hessian operator of a history given *newest first*:
    `H [] q = γ₀ q`, and for newest pair `(s,y)`:
    `ρ = 1/⟨y,s⟩; α = ρ⟨s,q⟩; r = H older (q − αy); β = ρ⟨y,r⟩; r + (α−β)s`
    (= `(I−ρsyᵀ) H_older (I−ρysᵀ) + ρssᵀ` applied to `q`). -/
def Hrev (γ0 : α) : List (Vec α × Vec α) → Vec α → Vec α
  | [], q => smul γ0 q
  | (s, y) :: older, q =>
    let ρ := 1 / dot y s
    let a := ρ * dot s q
    let r := Hrev γ0 older (vsub q (smul a y))
    let β := ρ * dot y r
    vadd r (smul (a - β) s)

/-- `H(hist, γ₀)` with `hist` oldest first (DESIGN A.2). -/
def H (γ0 : α) (hist : List (Vec α × Vec α)) (q : Vec α) : Vec α := Hrev γ0 hist.reverse q

/-- The two-loop recursion on a list of slots given newest first, using the *stored* `ρ`
    (what the two passes of `apply` compute, as a structural recursion). -/
def twoLoop (γ0 : α) : List (Slot α) → Vec α → Vec α
  | [], q => smul γ0 q
  | c :: older, q =>
    let a := c.rho * dot c.s q
    let r := twoLoop γ0 older (vsub q (smul a c.y))
    let β := c.rho * dot c.y r
    vsub r (smul (β - a) c.s)

end
end Alpaqa.C09
