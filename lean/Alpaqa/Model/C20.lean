/-
  C20 hand-written model (core Lean only): problem wrappers / loaders.

    problem/problem-with-counters.hpp   `ProblemWithCounters`           (NLP counting wrapper)
    problem/ocproblem.hpp               `ControlProblemWithCounters`    (OCP counting wrapper)
    problem/type-erased-problem.hpp/.tpp, ocproblem.hpp/.tpp            (vtable filling + defaults)
    problem/functional-problem.hpp      `FunctionalProblem`
    interop/dl/src/dl-problem.cpp       `DLProblem`, `DLControlProblem` (C-ABI loader)

  Three parts:
    1. the *shapes* of the tables that `gen/gen_c20.py` re-extracts from the C++ on every run
       (`Alpaqa/Gen/C20.lean` instantiates them) and the Boolean predicates the table theorems
       decide;
    2. the counter block with sharing: wrappers point to a block (`std::shared_ptr`), ops
       create / call / copy / decouple / reset, for both reset bodies that can be read off the
       source (`evaluations.reset()` = null the pointer, `evaluations->reset()` = zero the block);
       and the declarative tally specification it is proved equal to;
    3. vtable resolution (which problem-level functions run when a type-erased function is
       called, given which optional members exist and what their `provides_*` return), the
       wrapper / loader as transformers of that description (driven by the generated tables),
       and the loader decision procedure (an interpreter of the constructor's check list).
-/
import Alpaqa.Model.Scalar


namespace Alpaqa.C20

/-! ## 1. Table shapes -/

/-- One forwarding method of a counting wrapper:
    `R method(params) const [requires requires { &Problem::requiresMember; }]
       { ++evaluations->counter; return timed(evaluations->time.timer, [&]{ return problem.callee(callArgs); }); }` -/
structure FwdEntry where
  method : String
  counter : Option String
  timer : Option String
  callee : String
  params : List String
  callArgs : List String
  requiresMember : Option String
  deriving DecidableEq, Repr, Inhabited

/-- `bool provides_method() const requires requires (Problem p) { { p.provides_requiresMember() } -> … }
      { return problem.provides_callee(); }`   (all three stored without the `provides_` prefix) -/
structure ProvEntry where
  method : String
  requiresMember : String
  callee : String
  deriving DecidableEq, Repr, Inhabited

/-- What the body of `reset_evaluations()` does. -/
inductive ResetKind where
  | nullsPointer   -- `evaluations.reset();`   (std::shared_ptr::reset: the wrapper loses its block)
  | zeroesBlock    -- `evaluations->reset();`  (EvalCounter::reset: the shared block is zeroed)
  deriving DecidableEq, Repr, Inhabited

structure WrapperTable where
  cls : String
  counterType : String
  fwd : List FwdEntry
  prov : List ProvEntry
  counterFields : List String
  timerFields : List String
  resetKind : ResetKind
  /-- `decouple_evaluations() { evaluations = std::make_shared<C>(*evaluations); }` -/
  decoupleClones : Bool
  /-- no user-declared copy operations and `evaluations` is a `std::shared_ptr` member -/
  copyShares : Bool
  /-- default member initializer `= std::make_shared<C>()` -/
  freshOnCreate : Bool
  /-- `void C::reset() { *this = {}; }` and every field is `{}`-initialised -/
  counterResetZeroes : Bool
  deriving Repr, Inhabited

/-- Default of an optional vtable entry, read off its body. -/
inductive DefaultKind where
  | throws (msg : String)                         -- `throw not_implemented_error(msg);`
  | throwsIfMNonzero (msg : String)               -- `if (vtable.m != 0) throw …;`
  | fallbackIfM0 (to : String) (msg : Option String)
      -- `if (vtable.m == 0 && vtable.to != default_to) return vtable.to(…);` then throw msg / compute
  | computes                                      -- composes other entries / returns a constant
  | null                                          -- OCP: the vtable entry is `nullptr`
  deriving DecidableEq, Repr, Inhabited

structure TEEntry where
  name : String
  required : Bool
  params : List String
  dflt : Option DefaultKind
  /-- `provides_name()` returns `vtable.a != (vtable.)b`; `b = "nullptr"` for null defaults -/
  providesTests : Option (String × String)
  deriving DecidableEq, Repr, Inhabited

structure TETable where
  cls : String
  entries : List TEEntry
  /-- `supports_X()` = `provides_X() || (vtable.m == 0 && provides_Y())`  ↦ (X, Y) -/
  supports : List (String × String)
  deriving Repr, Inhabited

/-- One function member *declared* by a vtable struct (`required_function_t<Sig> name;` /
    `optional_function_t<Sig> name = default_name;`), read independently of the constructor's
    `ALPAQA_TE_*_METHOD` lines that `TETable.entries` is read from. -/
structure VtField where
  name : String
  optional : Bool
  init : Option String
  deriving DecidableEq, Repr, Inhabited

/-- `R TypeErasedX::method(params) const { … call(vtable.entry, args) … }` -/
structure TEDispatch where
  method : String
  entry : String
  params : List String
  args : List String
  deriving DecidableEq, Repr, Inhabited

/-- What a counting wrapper stores: `ProblemWithCounters<Prob>` owns a copy of the problem,
    `ProblemWithCounters<const Prob &>` aliases the caller's object. -/
inductive Holds where
  | value | reference
  deriving DecidableEq, Repr, Inhabited

/-- `template <class Problem> auto name(param p) { … ProbWithCnt = wrapper<templateArg>; return ProbWithCnt{…}; }`
    (`forwardsTo`: the body is `return other(p);`, the other fields are then those of `other`) -/
structure HelperEntry where
  name : String
  wrapper : String
  holds : Holds
  templateArg : String
  param : String
  forwardsTo : Option String
  deriving DecidableEq, Repr, Inhabited

/-- `[for (index_t v = 0; v < bound; ++v)] out.segment(off, len) = F(in.segment(off, len), box)` -/
structure SegRule where
  loop : Option (String × String)
  off : String
  len : String
  box : String
  deriving DecidableEq, Repr, Inhabited

/-- `DLControlProblem`'s own projections: box initialisation of the constructor
    (`boxFill`: (target, `if` / `else if`, condition, getter called)) and the two bodies -/
structure OwnProj where
  dims : List (String × String)
  boxSizes : List (String × String)
  boxFill : List (String × String × String × String)
  diff : List SegRule
  mult : List SegRule
  deriving DecidableEq, Repr, Inhabited

/-- One function-pointer member of the C-ABI table in `dl-problem.h`. -/
structure AbiMember where
  name : String
  ret : String
  params : List (String × String)   -- (C type, name)
  hasDefault : Bool                 -- `ALPAQA_DEFAULT(nullptr)` present
  deriving DecidableEq, Repr, Inhabited

/-- One forwarding definition in `dl-problem.cpp`. -/
structure DLFwd where
  method : String
  member : String               -- `functions->member(…)`
  params : List String
  passed : List String          -- canonicalised arguments (`x.data()` ↦ `x`, `instance.get()` ↦ `instance`)
  nullable : List String        -- passed as `v.size() == 0 ? nullptr : v.data()`
  guarded : Bool                -- `if (functions->member) … ; return Base::method(fallbackArgs);`
  fallback : Option (String × List String)
  deriving DecidableEq, Repr, Inhabited

inductive PExpr where
  | nonnull (m : String)
  | isnull (m : String)
  | and (a b : PExpr)
  | or (a b : PExpr)
  | base (f : String)           -- `BoxConstrProblem::f()`
  deriving DecidableEq, Repr, Inhabited

/-- `bool Cls::provides_method() const { return test; }` (method stored without `provides_`) -/
structure DLProv where
  method : String
  test : PExpr
  deriving DecidableEq, Repr, Inhabited

/-- The constructor of `DLProblem` / `DLControlProblem`, as an ordered list of steps. -/
inductive LoadStep where
  | emptyFilename                      -- `if (so_filename.empty()) throw std::invalid_argument`
  | loadLib                            -- `handle = util::load_lib(so_filename)`
  | versionFn (catches : String) (checkInsideTry : Bool)
      -- `try { f = load_func(name + "_version"); [check_abi_version(f());] } catch (const catches &) { warn }`
      -- followed, when the check is not inside the try block, by `if (f) check_abi_version(f());`
  | loadRegister                       -- `load_func(handle, function_name)`
  | callRegister                       -- `auto r = register_func(user_param)`
  | abiOfResult                        -- `check_abi_version(r.abi_version)`
  | exceptionField                     -- `if (unique_exception) rethrow`
  | functionsNull (tested : String)    -- `if (!tested) throw std::logic_error`
  | assignFunctions (src : String)     -- `functions = src;`
  deriving DecidableEq, Repr, Inhabited

structure DLTable where
  cls : String
  fwd : List DLFwd
  prov : List DLProv
  ctor : List LoadStep
  /-- post-load initialisation calls in the constructor (`initialize_box_C` …) -/
  init : List DLFwd
  /-- every member function declared by the class (dl-problem.hpp) -/
  declared : List String
  /-- reads of the table's data members: (reader, member) — `<ctor>:x` for `this->x = functions->x`,
      `get_name` for `functions->name`, inline getters `get_X() { return functions->X; }` -/
  dataReads : List (String × String)
  /-- members defined in dl-problem.cpp whose body does not use the plug-in's function table at all
      (implemented by the class itself, e.g. `DLControlProblem::eval_proj_diff_g`) -/
  own : List String
  /-- members defined inline in dl-problem.hpp that are not reads of the table: (name, body) -/
  inlineBodies : List (String × String)
  deriving Repr, Inhabited

/-! ### Predicates decided over the tables -/

def dropPrefix (p s : String) : Option String :=
  if s.startsWith p then some (s.drop p.length).toString else none

/-- forwarding entry is "diagonal": same callee, same arguments, counter and timer named after
    the method, requires-clause (when present) names the member that is called. -/
def FwdEntry.diagonal (e : FwdEntry) : Bool :=
  e.callee == e.method && e.callArgs == e.params &&
  e.timer == e.counter &&
  (match e.counter with
   | none => true
   | some c => e.method == "eval_" ++ c) &&
  (match e.requiresMember with
   | none => true
   | some r => r == e.method)

def ProvEntry.diagonal (e : ProvEntry) : Bool :=
  e.requiresMember == e.method && e.callee == e.method

def WrapperTable.find (t : WrapperTable) (m : String) : Option FwdEntry :=
  t.fwd.find? (·.method == m)

def WrapperTable.findProv (t : WrapperTable) (m : String) : Option ProvEntry :=
  t.prov.find? (·.method == m)

def TETable.find (t : TETable) (m : String) : Option TEEntry :=
  t.entries.find? (·.name == m)

def sameMembers (a b : List String) : Bool :=
  a.all (b.contains ·) && b.all (a.contains ·)

def nodupS : List String → Bool
  | [] => true
  | x :: xs => !xs.contains x && nodupS xs

/-- number of occurrences -/
def countS (xs : List String) (x : String) : Nat := (xs.filter (· == x)).length

/-- every counter field is incremented by exactly one method, and nothing else is incremented -/
def WrapperTable.countersBijective (t : WrapperTable) : Bool :=
  let cs := t.fwd.filterMap (·.counter)
  nodupS cs && sameMembers cs t.counterFields && t.timerFields == t.counterFields

/-- expected argument list of the C call, from the typedef's parameter names -/
def abiExpected (box : Option String) (td : AbiMember) : List String :=
  td.params.map fun (_, n) =>
    if n == "zl" then "D.lowerbound" else if n == "zu" then "D.upperbound"
    else if n == "lb" then (box.getD "?") ++ ".lowerbound"
    else if n == "ub" then (box.getD "?") ++ ".upperbound"
    else n

/-- a box-typed C++ parameter is the one parameter of `get_U / get_D / get_D_N`; for the
    constructor's `initialize_box_*` calls the translator stores it in `params` too. -/
def DLFwd.boxParam (e : DLFwd) (td : AbiMember) : Option String :=
  if td.params.any (·.2 == "lb") then e.params.head? else none

def DLFwd.abiOk (abi : List AbiMember) (e : DLFwd) : Bool :=
  match abi.find? (·.name == e.member) with
  | none => false
  | some td => e.passed == abiExpected (e.boxParam td) td

def PExpr.members : PExpr → List String
  | .nonnull m => [m] | .isnull m => [m]
  | .and a b => a.members ++ b.members | .or a b => a.members ++ b.members
  | .base _ => []

/-! ## 2. Counter block with sharing -/

def upd {β : Type} (f : Nat → β) (i : Nat) (v : β) : Nat → β := fun j => if j = i then v else f j

section counters
variable {F : Type} [DecidableEq F]

def updF (c : F → Nat) (f : F) (v : Nat) : F → Nat := fun g => if g = f then v else c g

/-- Implementation state: wrappers hold a (possibly null) pointer to a counter block. -/
structure CState (F : Type) where
  nW : Nat
  nB : Nat
  ptr : Nat → Option Nat
  blk : Nat → F → Nat

inductive COp (F : Type) where
  | create
  | call (w : Nat) (f : F)
  | copy (w : Nat)
  | decouple (w : Nat)
  | reset (w : Nat)
  deriving Repr

inductive COut where
  | ok
  | created (w : Nat)
  | crash          -- dereference of a null `evaluations` pointer (undefined behaviour in C++)
  | badWrapper     -- protocol error: no such wrapper
  deriving DecidableEq, Repr, Inhabited

def CState.empty : CState F := ⟨0, 0, fun _ => none, fun _ _ => 0⟩

def cstep (rk : ResetKind) (s : CState F) : COp F → CState F × COut
  | .create =>
      ({ nW := s.nW + 1, nB := s.nB + 1, ptr := upd s.ptr s.nW (some s.nB),
         blk := upd s.blk s.nB (fun _ => 0) }, .created s.nW)
  | .call w f =>
      if w < s.nW then
        match s.ptr w with
        | none => (s, .crash)
        | some b => ({ s with blk := upd s.blk b (updF (s.blk b) f (s.blk b f + 1)) }, .ok)
      else (s, .badWrapper)
  | .copy w =>
      if w < s.nW then
        ({ s with nW := s.nW + 1, ptr := upd s.ptr s.nW (s.ptr w) }, .created s.nW)
      else (s, .badWrapper)
  | .decouple w =>
      if w < s.nW then
        match s.ptr w with
        | none => (s, .crash)
        | some b => ({ s with nB := s.nB + 1, ptr := upd s.ptr w (some s.nB),
                              blk := upd s.blk s.nB (s.blk b) }, .ok)
      else (s, .badWrapper)
  | .reset w =>
      if w < s.nW then
        match rk with
        | .nullsPointer => ({ s with ptr := upd s.ptr w none }, .ok)
        | .zeroesBlock =>
            match s.ptr w with
            | none => (s, .crash)
            | some b => ({ s with blk := upd s.blk b (fun _ => 0) }, .ok)
      else (s, .badWrapper)

def crun (rk : ResetKind) (s : CState F) : List (COp F) → CState F × List COut
  | [] => (s, [])
  | op :: ops =>
      let (s1, o) := cstep rk s op
      let (s2, os) := crun rk s1 ops
      (s2, o :: os)

/-- counter value a wrapper reads (`w.evaluations->f`), `none` when the pointer is null -/
def CState.read (s : CState F) (w : Nat) (f : F) : Option Nat :=
  (s.ptr w).map fun b => s.blk b f

/-- Specification: every wrapper carries its *own* tally and a group tag; a call through a wrapper
    is seen by exactly the wrappers in its group.  No heap, no aliasing. -/
structure SState (F : Type) where
  nW : Nat
  nG : Nat
  grp : Nat → Option Nat
  tally : Nat → F → Nat

def SState.empty : SState F := ⟨0, 0, fun _ => none, fun _ _ => 0⟩

def sstep (rk : ResetKind) (s : SState F) : COp F → SState F × COut
  | .create =>
      ({ nW := s.nW + 1, nG := s.nG + 1, grp := upd s.grp s.nW (some s.nG),
         tally := upd s.tally s.nW (fun _ => 0) }, .created s.nW)
  | .call w f =>
      if w < s.nW then
        match s.grp w with
        | none => (s, .crash)
        | some g =>
            ({ s with tally := fun w' =>
                 if s.grp w' = some g then updF (s.tally w') f (s.tally w' f + 1) else s.tally w' }, .ok)
      else (s, .badWrapper)
  | .copy w =>
      if w < s.nW then
        ({ s with nW := s.nW + 1, grp := upd s.grp s.nW (s.grp w),
                  tally := upd s.tally s.nW (s.tally w) }, .created s.nW)
      else (s, .badWrapper)
  | .decouple w =>
      if w < s.nW then
        match s.grp w with
        | none => (s, .crash)
        | some _ => ({ s with nG := s.nG + 1, grp := upd s.grp w (some s.nG) }, .ok)
      else (s, .badWrapper)
  | .reset w =>
      if w < s.nW then
        match rk with
        | .nullsPointer => ({ s with grp := upd s.grp w none }, .ok)
        | .zeroesBlock =>
            match s.grp w with
            | none => (s, .crash)
            | some g =>
                ({ s with tally := fun w' => if s.grp w' = some g then (fun _ => 0) else s.tally w' }, .ok)
      else (s, .badWrapper)

def srun (rk : ResetKind) (s : SState F) : List (COp F) → SState F × List COut
  | [] => (s, [])
  | op :: ops =>
      let (s1, o) := sstep rk s op
      let (s2, os) := srun rk s1 ops
      (s2, o :: os)

end counters

/-! ## 2b. What a wrapper sees when the underlying problem changes

  `σ` = the data of a problem object (bounds, function objects, parameters).  The implementation
  state stores, per wrapper, either nothing (it aliases the one underlying object) or its own copy;
  the specification gives every wrapper a *view* `σ → σ` of the underlying object's current data
  (`id` for an alias, a constant function for a snapshot).  No sharing in the specification. -/

section aliasing
variable {σ : Type}

structure WState (σ : Type) where
  nW : Nat
  under : σ
  /-- `none`: no such wrapper; `some none`: holds a reference to `under`; `some (some x)`: owns the copy `x` -/
  held : Nat → Option (Option σ)

inductive WOp (σ : Type) where
  | wrap (h : Holds)                    -- `problem_with_counters(u)` / `problem_with_counters_ref(u)`
  | copy (w : Nat)                      -- copy construction of a wrapper
  | mutate (f : σ → σ)                  -- the caller changes the underlying problem
  | mutateVia (w : Nat) (f : σ → σ)     -- change through the wrapper's own `problem` member
  | call (w : Nat)                      -- an evaluation through wrapper `w`

inductive WOut (σ : Type) where
  | created (w : Nat)
  | ok
  | saw (x : σ)          -- the data the evaluation ran on
  | constRef             -- `problem` is a `const Prob &`: cannot be changed through the wrapper
  | bad                  -- protocol error: no such wrapper

def WState.init (u : σ) : WState σ := ⟨0, u, fun _ => none⟩

def wstep (s : WState σ) : WOp σ → WState σ × WOut σ
  | .wrap .value =>
      ({ s with nW := s.nW + 1, held := upd s.held s.nW (some (some s.under)) }, .created s.nW)
  | .wrap .reference =>
      ({ s with nW := s.nW + 1, held := upd s.held s.nW (some none) }, .created s.nW)
  | .copy w =>
      if w < s.nW then ({ s with nW := s.nW + 1, held := upd s.held s.nW (s.held w) }, .created s.nW)
      else (s, .bad)
  | .mutate f => ({ s with under := f s.under }, .ok)
  | .mutateVia w f =>
      if w < s.nW then
        match s.held w with
        | some (some x) => ({ s with held := upd s.held w (some (some (f x))) }, .ok)
        | some none => (s, .constRef)
        | none => (s, .bad)
      else (s, .bad)
  | .call w =>
      if w < s.nW then
        match s.held w with
        | some none => (s, .saw s.under)
        | some (some x) => (s, .saw x)
        | none => (s, .bad)
      else (s, .bad)

def wrun (s : WState σ) : List (WOp σ) → WState σ × List (WOut σ)
  | [] => (s, [])
  | op :: ops =>
      let (s1, o) := wstep s op
      let (s2, os) := wrun s1 ops
      (s2, o :: os)

/-- Specification: per wrapper a view of the underlying object's current data, and whether it is an alias. -/
structure VState (σ : Type) where
  nW : Nat
  under : σ
  view : Nat → σ → σ
  isRef : Nat → Bool

def VState.init (u : σ) : VState σ := ⟨0, u, fun _ => id, fun _ => false⟩

def vstep (s : VState σ) : WOp σ → VState σ × WOut σ
  | .wrap .value =>
      ({ s with nW := s.nW + 1, view := upd s.view s.nW (fun _ => s.under), isRef := upd s.isRef s.nW false },
       .created s.nW)
  | .wrap .reference =>
      ({ s with nW := s.nW + 1, view := upd s.view s.nW id, isRef := upd s.isRef s.nW true }, .created s.nW)
  | .copy w =>
      if w < s.nW then
        ({ s with nW := s.nW + 1, view := upd s.view s.nW (s.view w), isRef := upd s.isRef s.nW (s.isRef w) },
         .created s.nW)
      else (s, .bad)
  | .mutate f => ({ s with under := f s.under }, .ok)
  | .mutateVia w f =>
      if w < s.nW then
        if s.isRef w then (s, .constRef)
        else ({ s with view := upd s.view w (fun u => f (s.view w u)) }, .ok)
      else (s, .bad)
  | .call w => if w < s.nW then (s, .saw (s.view w s.under)) else (s, .bad)

def vrun (s : VState σ) : List (WOp σ) → VState σ × List (WOut σ)
  | [] => (s, [])
  | op :: ops =>
      let (s1, o) := vstep s op
      let (s2, os) := vrun s1 ops
      (s2, o :: os)

/-- the underlying object's data after a history: only the caller's own changes count -/
def underAfter (u : σ) : List (WOp σ) → σ
  | [] => u
  | .mutate f :: ops => underAfter (f u) ops
  | _ :: ops => underAfter u ops

end aliasing

def holdsOf (tbl : List HelperEntry) (name : String) : Option Holds :=
  (tbl.find? (·.name == name)).map (·.holds)

/-! ### Counters and aliasing together: one wrapper index space -/

section system
variable {σ F : Type} [DecidableEq F]

inductive SOp (σ F : Type) where
  | create (helper : String)            -- wrap the underlying problem with the named helper function
  | copy (w : Nat)
  | decouple (w : Nat)
  | reset (w : Nat)
  | mutate (f : σ → σ)
  | mutateVia (w : Nat) (f : σ → σ)
  | call (w : Nat) (fn : F)

structure Sys (σ F : Type) where
  c : CState F
  w : WState σ

/-- one operation on the pair (counter heap, wrapper data); an unknown helper name creates nothing -/
def sysStep (tbl : List HelperEntry) (rk : ResetKind) (s : Sys σ F) : SOp σ F → Sys σ F × COut × WOut σ
  | .create h =>
      match holdsOf tbl h with
      | none => (s, .badWrapper, .bad)
      | some k =>
          let (c', o1) := cstep rk s.c .create
          let (w', o2) := wstep s.w (.wrap k)
          (⟨c', w'⟩, o1, o2)
  | .copy v =>
      let (c', o1) := cstep rk s.c (.copy v)
      let (w', o2) := wstep s.w (.copy v)
      (⟨c', w'⟩, o1, o2)
  | .decouple v => let (c', o1) := cstep rk s.c (.decouple v); (⟨c', s.w⟩, o1, .ok)
  | .reset v => let (c', o1) := cstep rk s.c (.reset v); (⟨c', s.w⟩, o1, .ok)
  | .mutate f => let (w', o2) := wstep s.w (.mutate f); (⟨s.c, w'⟩, .ok, o2)
  | .mutateVia v f => let (w', o2) := wstep s.w (.mutateVia v f); (⟨s.c, w'⟩, .ok, o2)
  | .call v fn =>
      let (c', o1) := cstep rk s.c (.call v fn)
      let (w', o2) := wstep s.w (.call v)
      (⟨c', w'⟩, o1, o2)

def sysRun (tbl : List HelperEntry) (rk : ResetKind) (s : Sys σ F) : List (SOp σ F) → Sys σ F
  | [] => s
  | op :: ops => sysRun tbl rk (sysStep tbl rk s op).1 ops

/-- the counter operations of a history: the changes of problem data are dropped -/
def SOp.toC (tbl : List HelperEntry) : SOp σ F → Option (COp F)
  | .create h => (holdsOf tbl h).map fun _ => .create
  | .copy v => some (.copy v)
  | .decouple v => some (.decouple v)
  | .reset v => some (.reset v)
  | .mutate _ => none
  | .mutateVia _ _ => none
  | .call v fn => some (.call v fn)

/-- the data operations of a history: counter management is dropped -/
def SOp.toW (tbl : List HelperEntry) : SOp σ F → Option (WOp σ)
  | .create h => (holdsOf tbl h).map .wrap
  | .copy v => some (.copy v)
  | .decouple _ => none
  | .reset _ => none
  | .mutate f => some (.mutate f)
  | .mutateVia v f => some (.mutateVia v f)
  | .call v _ => some (.call v)

end system

/-! ## 3. Vtable resolution, wrappers and loaders as description transformers -/

/-- What a problem class looks like to `ProblemVTable`'s constructor: which members exist
    (`requires { &P::member; }`), which `provides_member` exist and what they return. -/
structure Native where
  has : String → Bool
  hasProv : String → Bool
  provVal : String → Bool

/-- `ALPAQA_TE_OPTIONAL_METHOD`: the vtable entry is the problem's member iff the member exists
    and (`provides_member` does not exist or returns true). -/
def Native.provided (n : Native) (f : String) : Bool :=
  n.has f && (!n.hasProv f || n.provVal f)

/-- The counting wrapper seen as a problem class, read off the generated table: a forwarding
    method exists iff its requires-clause holds for the wrapped class; `provides_X` exists iff its
    requires-clause holds, and returns what the named callee returns. -/
def WrapperTable.wrap (t : WrapperTable) (n : Native) : Native where
  has f := match t.find f with
    | none => false
    | some e => match e.requiresMember with | none => true | some r => n.has r
  hasProv f := match t.findProv f with
    | none => false
    | some p => n.hasProv p.requiresMember
  provVal f := match t.findProv f with
    | none => false
    | some p => n.provVal p.callee

/-- outcome of calling one type-erased function -/
inductive Outcome where
  | calls (cs : List String)      -- these problem-level methods run, in this order
  | notImpl (msg : String)        -- `not_implemented_error(msg)`
  | nullCall                      -- OCP: call through a null vtable entry (undefined behaviour)
  deriving DecidableEq, Repr, Inhabited

def Outcome.seq : Outcome → Outcome → Outcome
  | .calls a, .calls b => .calls (a ++ b)
  | .calls _, o => o
  | o, _ => o

/-- NLP: `type-erased-problem.tpp`.  `P f` = the vtable entry of `f` is the problem's own member.
    `m0` = the problem has no general constraints (then `y.size() == 0` in every call we make). -/
def resolveNLP (P : String → Bool) (m0 : Bool) (f : String) : Outcome :=
  let self := Outcome.calls [f]
  let fGradF := if P "eval_f_grad_f" then Outcome.calls ["eval_f_grad_f"] else .calls ["eval_grad_f", "eval_f"]
  let fG := if P "eval_f_g" then Outcome.calls ["eval_f_g"] else .calls ["eval_g", "eval_f"]
  let gfggp := if P "eval_grad_f_grad_g_prod" then Outcome.calls ["eval_grad_f_grad_g_prod"]
               else .calls ["eval_grad_f", "eval_grad_g_prod"]
  -- default_eval_grad_L with a non-empty y
  let gradLne := if P "eval_grad_L" then Outcome.calls ["eval_grad_L"] else gfggp
  let proj := Outcome.calls ["eval_proj_diff_g"]
  if P f then self else
  match f with
  | "eval_proj_diff_g" | "eval_proj_multipliers" | "eval_prox_grad_step" | "eval_f"
  | "eval_grad_f" | "eval_g" | "eval_grad_g_prod" => self          -- required
  | "eval_inactive_indices_res_lna" => .notImpl "eval_inactive_indices_res_lna"
  | "eval_jac_g" => if m0 then .calls [] else .notImpl "eval_jac_g"
  | "get_jac_g_sparsity" => .calls []
  | "eval_grad_gi" => .notImpl "eval_grad_gi"
  | "eval_hess_L_prod" => .notImpl "eval_hess_L_prod"
  | "eval_hess_L" => .notImpl "eval_hess_L"
  | "get_hess_L_sparsity" => .calls []
  | "eval_hess_ψ_prod" =>
      if m0 && P "eval_hess_L_prod" then .calls ["eval_hess_L_prod"] else .notImpl "eval_hess_ψ_prod"
  | "eval_hess_ψ" =>
      if m0 && P "eval_hess_L" then .calls ["eval_hess_L"] else .notImpl "eval_hess_ψ"
  | "get_hess_ψ_sparsity" =>
      if m0 && P "get_hess_L_sparsity" then .calls ["get_hess_L_sparsity"] else .calls []
  | "eval_f_grad_f" => fGradF
  | "eval_f_g" => fG
  | "eval_grad_f_grad_g_prod" => gfggp
  | "eval_grad_L" => if m0 then .calls ["eval_grad_f"] else gfggp
  | "eval_ψ" => if m0 then .calls ["eval_f"] else fG.seq proj
  | "eval_grad_ψ" =>
      if m0 then .calls ["eval_grad_f"] else (Outcome.calls ["eval_g"]).seq (proj.seq gradLne)
  | "eval_ψ_grad_ψ" => if m0 then fGradF else fG.seq (proj.seq gradLne)
  | "get_box_C" => .notImpl "get_box_C"
  | "get_box_D" => .notImpl "get_box_D"
  | "check" => .calls []
  | "get_name" => .calls []
  | _ => .notImpl ("?" ++ f)

/-- the functions whose absence is observable as `not_implemented_error` (no computing default) -/
def nlpThrowing : List String :=
  ["eval_inactive_indices_res_lna", "eval_jac_g", "eval_grad_gi", "eval_hess_L_prod", "eval_hess_L",
   "eval_hess_ψ_prod", "eval_hess_ψ", "get_box_C", "get_box_D"]

def nlpRequired : List String :=
  ["eval_proj_diff_g", "eval_proj_multipliers", "eval_prox_grad_step", "eval_f", "eval_grad_f",
   "eval_g", "eval_grad_g_prod"]

def nlpOptional : List String :=
  ["eval_inactive_indices_res_lna", "eval_jac_g", "get_jac_g_sparsity", "eval_grad_gi",
   "eval_hess_L_prod", "eval_hess_L", "get_hess_L_sparsity", "eval_hess_ψ_prod", "eval_hess_ψ",
   "get_hess_ψ_sparsity", "eval_f_grad_f", "eval_f_g", "eval_grad_f_grad_g_prod", "eval_grad_L",
   "eval_ψ", "eval_grad_ψ", "eval_ψ_grad_ψ", "get_box_C", "get_box_D", "check", "get_name"]

def nlpAll : List String := nlpRequired ++ nlpOptional

/-- `provides_f()` of `TypeErasedProblem` -/
def teProvides (P : String → Bool) (f : String) : Bool := P f

/-- `supports_eval_hess_ψ_prod()` / `supports_eval_hess_ψ()` -/
def teSupports (P : String → Bool) (m0 : Bool) (f : String) : Bool :=
  match f with
  | "eval_hess_ψ_prod" => P f || (m0 && P "eval_hess_L_prod")
  | "eval_hess_ψ" => P f || (m0 && P "eval_hess_L")
  | _ => P f

/-- the default kind the model above implements, to be compared with the generated table -/
def nlpModelDefault : String → DefaultKind
  | "eval_inactive_indices_res_lna" => .throws "eval_inactive_indices_res_lna"
  | "eval_jac_g" => .throwsIfMNonzero "eval_jac_g"
  | "eval_grad_gi" => .throws "eval_grad_gi"
  | "eval_hess_L_prod" => .throws "eval_hess_L_prod"
  | "eval_hess_L" => .throws "eval_hess_L"
  | "eval_hess_ψ_prod" => .fallbackIfM0 "eval_hess_L_prod" (some "eval_hess_ψ_prod")
  | "eval_hess_ψ" => .fallbackIfM0 "eval_hess_L" (some "eval_hess_ψ")
  | "get_hess_ψ_sparsity" => .fallbackIfM0 "get_hess_L_sparsity" none
  | "get_box_C" => .throws "get_box_C"
  | "get_box_D" => .throws "get_box_D"
  | _ => .computes

/-! ### OCP: `ocproblem.hpp` / `ocproblem.tpp` -/

def ocpRequired : List String :=
  ["eval_proj_diff_g", "eval_proj_multipliers", "get_U", "get_x_init", "eval_f", "eval_jac_f",
   "eval_grad_f_prod", "eval_l", "eval_l_N", "eval_qr", "eval_q_N", "eval_add_Q",
   "eval_add_R_masked", "eval_add_S_masked", "check"]

def ocpOptional : List String :=
  ["get_D", "get_D_N", "eval_h", "eval_h_N", "eval_add_Q_N", "eval_add_R_prod_masked",
   "eval_add_S_prod_masked", "get_R_work_size", "get_S_work_size", "eval_constr", "eval_constr_N",
   "eval_grad_constr_prod", "eval_grad_constr_prod_N", "eval_add_gn_hess_constr",
   "eval_add_gn_hess_constr_N"]

def ocpAll : List String := ocpRequired ++ ocpOptional

def ocpModelDefault : String → DefaultKind
  | "get_D" => .throws "get_D"
  | "eval_h" => .throws "eval_h"
  | "eval_h_N" => .throws "eval_h_N"
  | "eval_constr" => .throws "eval_constr"
  | "eval_grad_constr_prod" => .throws "eval_grad_constr_prod"
  | "eval_add_gn_hess_constr" => .throws "eval_add_gn_hess_constr"
  | "eval_add_R_prod_masked" => .throws "default_eval_add_R_prod_masked"
  | "eval_add_S_prod_masked" => .throws "default_eval_add_S_prod_masked"
  | _ => .computes

/-- outcome of running the *default* of an absent entry without further forwarding -/
def ocpAbsent (f : String) : Outcome :=
  match ocpModelDefault f with
  | .throws m => .notImpl m
  | .null => .nullCall
  | _ => .calls []

def resolveOCP (P : String → Bool) (f : String) : Outcome :=
  -- `default_X_N` forwards to entry `g` through the vtable
  let viaN (g : String) : Outcome := if P g then .calls [g] else ocpAbsent g
  if P f then .calls [f] else
  if ocpRequired.contains f then .calls [f] else
  match f with
  | "get_D_N" => viaN "get_D"
  | "eval_add_Q_N" => .calls ["eval_add_Q"]
  | "get_R_work_size" | "get_S_work_size" => .calls []
  | "eval_constr_N" => viaN "eval_constr"
  | "eval_grad_constr_prod_N" => viaN "eval_grad_constr_prod"
  | "eval_add_gn_hess_constr_N" => viaN "eval_add_gn_hess_constr"
  | _ => ocpAbsent f

/-- `ControlProblemVTable`'s constructor: which dimension makes which entry mandatory. -/
def ocpCtorMissing (P : String → Bool) (nc nh nhN : Nat) : Option String :=
  if nc > 0 && !P "get_D" then some "get_D"
  else if nc > 0 && !P "eval_constr" then some "eval_constr"
  else if nc > 0 && !P "eval_grad_constr_prod" then some "eval_grad_constr_prod"
  else if nh > 0 && !P "eval_h" then some "eval_h"
  else if nhN > 0 && !P "eval_h_N" then some "eval_h_N"
  else none

/-! ### The C-ABI loader -/

/-- which table members the plug-in filled in (`mask` over the list of ABI members) -/
abbrev FnTable := String → Bool

def PExpr.eval (tbl : FnTable) (baseVal : String → Bool) : PExpr → Bool
  | .nonnull m => tbl m
  | .isnull m => !tbl m
  | .and a b => a.eval tbl baseVal && b.eval tbl baseVal
  | .or a b => a.eval tbl baseVal || b.eval tbl baseVal
  | .base f => baseVal f

/-- `DLProblem` / `DLControlProblem` seen as a problem class, read off the generated table. -/
def DLTable.native (t : DLTable) (tbl : FnTable) (baseVal : String → Bool) : Native where
  has f := t.declared.contains f
  hasProv f := t.prov.any (·.method == f)
  provVal f := match t.prov.find? (·.method == f) with
    | none => false
    | some p => p.test.eval tbl baseVal

/-- plug-in functions run by one `DLProblem::method` call -/
def DLTable.pluginCalls (t : DLTable) (tbl : FnTable) (method : String) : Option (List String) :=
  match t.fwd.find? (·.method == method) with
  | none => some []                       -- inherited from BoxConstrProblem / not forwarded
  | some e =>
      if e.guarded then some (if tbl e.member then [e.member] else [])
      else if tbl e.member then some [e.member] else none     -- none: null function pointer call

inductive VersionSym where
  | missing | good | mismatch
  deriving DecidableEq, Repr, Inhabited

/-- Everything about a plug-in that the constructor looks at. -/
structure PluginDescr where
  emptyPath : Bool
  libLoads : Bool
  versionSym : VersionSym
  registerSym : Bool
  abiOk : Bool          -- `r.abi_version == ALPAQA_DL_ABI_VERSION`
  exceptionSet : Bool   -- `r.exception != nullptr`
  hasFunctions : Bool   -- `r.functions != nullptr`
  deriving DecidableEq, Repr, Inhabited

inductive LoadError where
  | invalidArgument | dlopenFailed | missingSymbol | abiMismatch | pluginException | noFunctions
  | functionsNeverAssigned
  deriving DecidableEq, Repr, Inhabited

inductive LoadResult where
  | ok (warnedNoVersion : Bool)
  | error (e : LoadError)
  deriving DecidableEq, Repr, Inhabited

structure LoadSt where
  memberFunctions : Bool := false    -- the class member `functions` is non-null
  registered : Bool := false         -- `r` exists
  warned : Bool := false
  deriving Repr

/-- one constructor step; `.inr e` = the constructor throws -/
def loadStep (derives : Bool) (d : PluginDescr) (st : LoadSt) : LoadStep → LoadSt ⊕ LoadError
  | .emptyFilename => if d.emptyPath then .inr .invalidArgument else .inl st
  | .loadLib => if d.libLoads then .inl st else .inr .dlopenFailed
  | .versionFn catches inside =>
      match d.versionSym with
      | .missing => if catches == "dynamic_load_error" then .inl { st with warned := true }
                    else .inr .missingSymbol
      | .good => .inl st
      | .mismatch =>
          -- `check_abi_version` throws `invalid_abi_error`; when thrown inside the try block it is
          -- caught iff it derives from the caught type
          if inside && (catches == "invalid_abi_error" || (catches == "dynamic_load_error" && derives))
          then .inl { st with warned := true } else .inr .abiMismatch
  | .loadRegister => if d.registerSym then .inl st else .inr .missingSymbol
  | .callRegister => .inl { st with registered := true }
  | .abiOfResult => if d.abiOk then .inl st else .inr .abiMismatch
  | .exceptionField => if d.exceptionSet then .inr .pluginException else .inl st
  | .functionsNull tested =>
      let nonnull := if tested == "r.functions" then d.hasFunctions
                     else if tested == "functions" then st.memberFunctions else false
      if nonnull then .inl st else .inr .noFunctions
  | .assignFunctions src =>
      .inl { st with memberFunctions := if src == "r.functions" then d.hasFunctions else false }

def loadRun (derives : Bool) (d : PluginDescr) : LoadSt → List LoadStep → LoadResult
  | st, [] => if st.memberFunctions then .ok st.warned else .error .functionsNeverAssigned
  | st, s :: ss =>
      match loadStep derives d st s with
      | .inl st' => loadRun derives d st' ss
      | .inr e => .error e

def load (derives : Bool) (steps : List LoadStep) (d : PluginDescr) : LoadResult :=
  loadRun derives d {} steps

/-- does the constructor reach (and run) `register_func(user_param)`? -/
def registerCalledRun (derives : Bool) (d : PluginDescr) : LoadSt → List LoadStep → Bool
  | _, [] => false
  | st, s :: ss =>
      match loadStep derives d st s with
      | .inl st' => s == .callRegister || registerCalledRun derives d st' ss
      | .inr _ => false

def registerCalled (derives : Bool) (steps : List LoadStep) (d : PluginDescr) : Bool :=
  registerCalledRun derives d {} steps

/-- documented: the registration function of a plug-in runs iff the library could be opened, its
    `<name>_version()` (when exported) reports this ABI, and the registration symbol exists -/
def registerSpec (d : PluginDescr) : Bool :=
  !d.emptyPath && d.libLoads && d.versionSym != .mismatch && d.registerSym

/-- The documented decision: what a loader should answer for a plug-in description.
    `swallow` = a mismatching `<name>_version()` is not treated as an error (what the
    constructor as written does when `invalid_abi_error` derives from the caught type). -/
def loadSpec (swallow : Bool) (d : PluginDescr) : LoadResult :=
  if d.emptyPath then .error .invalidArgument
  else if !d.libLoads then .error .dlopenFailed
  else if d.versionSym == .mismatch && !swallow then .error .abiMismatch
  else if !d.registerSym then .error .missingSymbol
  else if !d.abiOk then .error .abiMismatch
  else if d.exceptionSet then .error .pluginException
  else if !d.hasFunctions then .error .noFunctions
  else .ok (d.versionSym != .good)

def allBool : List Bool := [false, true]

def PluginDescr.all : List PluginDescr :=
  allBool.flatMap fun a => allBool.flatMap fun b =>
  [VersionSym.missing, .good, .mismatch].flatMap fun v => allBool.flatMap fun c =>
  allBool.flatMap fun e => allBool.flatMap fun x => allBool.map fun h =>
    ⟨a, b, v, c, e, x, h⟩

/-! ## 4. `DLControlProblem`'s own projections (no C-ABI member)

  Bounds are `Option`s (`none` = the C++ stores ±inf).  `getD` / `getDN` = what the plug-in's
  `get_D` / `get_D_N` answer, `none` when the table member is null. -/

section proj
variable {α : Type}

abbrev BoxO (α : Type) := List (Bnd α × Bnd α)

def infBox (n : Nat) : BoxO α := List.replicate n (none, none)

/-- the constructor: `D = Box{nc}; D_N = Box{nc_N}; if (provides_get_D()) get_D(D);
    if (provides_get_D_N()) get_D_N(D_N); else if (provides_get_D() && nc_N == nc) get_D(D_N);` -/
def dlocpBoxes (nc ncN : Nat) (getD getDN : Option (BoxO α)) : BoxO α × BoxO α :=
  let D := match getD with | some b => b | none => infBox nc
  let DN := match getDN with
    | some b => b
    | none => match getD with
      | some b => if ncN = nc then b else infBox ncN
      | none => infBox ncN
  (D, DN)

/-- all stages: `N` copies of the stage box followed by the terminal box -/
def tileBox (N : Nat) (D DN : BoxO α) : BoxO α := (List.replicate N D).flatten ++ DN

variable [LT α] [DecidableLT α]

/-- `projecting_difference(v, box) = v - v.cwiseMax(lb).cwiseMin(ub)`, componentwise -/
def boxDiff [Sub α] (B : BoxO α) (z : List α) : List α :=
  List.zipWith (fun v b => v - minUb (maxLb v b.1) b.2) z B

/-- `eval_proj_multipliers_box(D, y, M, 0)`: `y.cwiseMax(lb = -inf ? 0 : -M).cwiseMin(ub = +inf ? 0 : M)` -/
def boxMult [Neg α] [OfNat α 0] (M : α) (B : BoxO α) (y : List α) : List α :=
  List.zipWith (fun v b =>
    emin (emax v (match b.1 with | none => 0 | some _ => -M)) (match b.2 with | none => 0 | some _ => M)) y B

def dlocpProjDiff [Sub α] (N : Nat) (D DN : BoxO α) (z : List α) : List α := boxDiff (tileBox N D DN) z

def dlocpProjMult [Neg α] [OfNat α 0] (N : Nat) (D DN : BoxO α) (M : α) (y : List α) : List α :=
  boxMult M (tileBox N D DN) y

end proj

end Alpaqa.C20
