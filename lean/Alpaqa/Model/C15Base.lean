/-
  C15 base definitions used by the *generated* file `Alpaqa/Gen/C15.lean` (core Lean only):
  complex vectors as lists of (re, im) pairs, the complex 1-norm, and `std::find` as an index.
-/
import Alpaqa.Model.Vec

namespace Alpaqa
section
variable {α : Type}

/-- A vector of `std::complex<real_t>`: (re, im) pairs — also how the real-matrix overload of
    `L1NormComplex::prox` reinterprets a real vector of even length. -/
abbrev CVec (α : Type) := List (α × α)

/-- `std::abs(std::complex)`.  Over the reals this is `√(re² + im²)`; libstdc++ evaluates it with
    `hypot`, which may differ from the `sqrt` formula by an ulp at `Float`, so values built from
    `cabs` are compared by the monitor (few-ulp tolerance), not bit for bit. -/
@[inline] def cabs [Add α] [Mul α] [RealLike α] (z : α × α) : α :=
  RealLike.sqrt (z.1 * z.1 + z.2 * z.2)

/-- `norm_1` of a complex vector: `cwiseAbs().sum()`. -/
def cnorm1 [Add α] [Mul α] [OfNat α 0] [RealLike α] (v : CVec α) : α := vsum (v.map cabs)

/-- complex vector ⊙ real vector (`out.cwiseProduct(λ)`). -/
def cscale [Mul α] (v : CVec α) (w : Vec α) : CVec α :=
  List.zipWith (fun z l => (z.1 * l, z.2 * l)) v w

/-- `std::find(v.begin(), v.end(), c) - v.begin()`: index of the first element equal to `c`
    (`v.size()` if there is none). -/
def findFirstIdx [BEq α] (v : Vec α) (c : α) : Nat := v.findIdx (· == c)

end
end Alpaqa
