/-
  Vector layer of the executable model: `List α` with the reductions in the order Eigen
  performs them when compiled with `-DEIGEN_DONT_VECTORIZE` (DefaultTraversal, NoUnrolling:
  a left fold that *starts from the first coefficient*, not from 0).
-/
import Alpaqa.Model.Scalar

namespace Alpaqa
section
variable {α : Type}

abbrev Vec (α : Type) := List α

@[inline] def vzip (f : α → α → α) (a b : Vec α) : Vec α := List.zipWith f a b

def vadd [Add α] (a b : Vec α) : Vec α := vzip (· + ·) a b
def vsub [Sub α] (a b : Vec α) : Vec α := vzip (· - ·) a b
def vmul [Mul α] (a b : Vec α) : Vec α := vzip (· * ·) a b
def vdiv [Div α] (a b : Vec α) : Vec α := vzip (· / ·) a b
def vneg [Neg α] (a : Vec α) : Vec α := a.map (- ·)
def smul [Mul α] (c : α) (a : Vec α) : Vec α := a.map (c * ·)
def vmax [LT α] [DecidableLT α] (a b : Vec α) : Vec α := vzip emax a b
def vmin [LT α] [DecidableLT α] (a b : Vec α) : Vec α := vzip emin a b
def vmaxs [LT α] [DecidableLT α] (a : Vec α) (c : α) : Vec α := a.map (emax · c)
def vmins [LT α] [DecidableLT α] (a : Vec α) (c : α) : Vec α := a.map (emin · c)
def vdivs [Div α] (a : Vec α) (c : α) : Vec α := a.map (· / c)
def vget [OfNat α 0] (a : Vec α) (i : Nat) : α := a.getD i 0
def vallFinite [RealLike α] (a : Vec α) : Bool := a.all RealLike.isFinite
def vabs [LT α] [DecidableLT α] [Neg α] [Add α] [OfNat α 0] (a : Vec α) : Vec α := a.map eabs

/-- Eigen redux, scalar path: `res = f(0); for i in 1..n: res = op(res, f(i))`; empty ⇒ `z`. -/
@[inline] def redux (op : α → α → α) (z : α) : Vec α → α
  | []      => z
  | x :: xs => xs.foldl op x

def vsum [Add α] [OfNat α 0] (a : Vec α) : α := redux (· + ·) 0 a
def dot [Add α] [Mul α] [OfNat α 0] (a b : Vec α) : α := vsum (vmul a b)
def sqNorm [Add α] [Mul α] [OfNat α 0] (a : Vec α) : α := vsum (a.map fun x => x * x)
def norm2 [Add α] [Mul α] [OfNat α 0] [RealLike α] (a : Vec α) : α := RealLike.sqrt (sqNorm a)
/-- `lpNorm<Infinity>` = `cwiseAbs().maxCoeff()`; Eigen returns 0 for an empty vector. -/
def normInf [LT α] [DecidableLT α] [Neg α] [Add α] [OfNat α 0] (a : Vec α) : α :=
  redux emax 0 (vabs a)
/-- `lpNorm<1>` = `cwiseAbs().sum()`. -/
def norm1 [LT α] [DecidableLT α] [Neg α] [Add α] [OfNat α 0] (a : Vec α) : α :=
  vsum (vabs a)

end
end Alpaqa
