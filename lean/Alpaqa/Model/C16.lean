/-
  C16 — executable model of `alpaqa::util::TypeErased<VTable, Allocator, SmallBufferSize>`
  (util/type-erasure.hpp): a pool of wrappers over a *checked ghost heap*.

  * A wrapper is `(self, size, allocator, vtable type, small buffer contents)`; `self` is a
    pointer (`Loc`): the small buffer of some slot, a heap block, or an external object.
    As in the C++, nothing in the wrapper says whether it owns: that is decided by the
    generated predicates `Gen.C16.ownsReferencedObject size`, `…allocateUsesSmallBuffer` etc.
  * Objects live *in* locations (`bufObj` of a slot, `obj` of a block, `env k`), get a fresh id
    on construction, and are removed by destruction.  Every primitive checks what the real
    heap would silently corrupt: destroy of nothing, construct over a live object, double free,
    free through an unequal allocator, free of storage holding a live object, dispatch through
    a dangling pointer, wrapper storage released with a live payload.  A failed check sets
    `err` (first failure wins).  `Props/C16.lean` proves that `err` is never set and that the
    structural invariant holds after every operation sequence.
  * The operation bodies below (`opMoveAssign`, `opCopyAssign`, …, collected in `stepH`) are
    *hand-staged* sequences of these primitives: the form the invariant proofs work on.  The
    model the driver runs is `step` of `Model/C16Exec.lean` — an interpreter of the programs
    regenerated from the C++ (`Gen.C16.*P`); `Proofs.C16.step_eq_stepH` proves that both agree
    on every state and operation.  `expected*` below additionally records the action order per
    control-flow path, and `Props.C16.shape_*` decides that it equals the regenerated tables.

  Core Lean only (the driver links this file).
-/
import Alpaqa.Gen.C16

namespace Alpaqa.C16
open Alpaqa.Gen.C16

/-- A pointer value. -/
inductive Loc
  | buf (i : Nat)   -- small buffer of wrapper slot `i`
  | blk (b : Nat)   -- heap block `b`
  | env (k : Nat)   -- object `k` owned by the environment
  deriving DecidableEq, Repr

/-- A payload object: identity, value, and its type (identified with `sizeof`). -/
structure Obj where
  id : Nat
  val : Nat
  ty : Nat
  deriving DecidableEq, Repr

structure Wrapper where
  self : Option Loc
  size : Nat
  alloc : Nat
  vtTy : Nat            -- `vtable.type` (0 = `void`); survives a move-from, as in the C++
  bufObj : Option Obj   -- ghost: the object living in this wrapper's small buffer
  deriving DecidableEq, Repr

structure Block where
  alloc : Nat            -- allocator (id) that allocated it
  size : Nat
  live : Bool
  obj : Option Obj       -- ghost: the object living in the block
  owner : Nat            -- ghost: slot of the wrapper whose `self` points here
  freedBy : Option Nat   -- allocator (id) that deallocated it
  deriving Repr

structure Cfg where
  sbs : Nat       -- SmallBufferSize
  pocca : Bool    -- propagate_on_container_copy_assignment
  pocma : Bool    -- propagate_on_container_move_assignment
  socc : Bool     -- select_on_container_copy_construction returns the default allocator (id 0)
  npool : Nat
  deriving Repr

inductive Ev
  | alloc (a b sz : Nat) | dealloc (a b : Nat)
  | ctor (id val : Nat) | copy (id src : Nat) | move (id src : Nat) | dtor (id : Nat)
  | thrw | read (id val : Nat) | write (id val : Nat)
  deriving Repr

inductive Out
  | ok | empty | badOp | excCopy | excCtor | excConst | excType | val (id v : Nat)
  deriving DecidableEq, Repr

structure State where
  cfg : Cfg
  wr : Nat → Option Wrapper
  blk : Nat → Block
  nblk : Nat
  env : Nat → Option Obj
  nextId : Nat
  ccnt : Nat → Nat             -- constructions per object id
  dcnt : Nat → Nat             -- destructions per object id
  where_ : Nat → Option Loc    -- ghost: where the object with this id lives (none: not alive)
  err : Option String
  log : List Ev                -- events of the current operation, newest first

/-- allocator equality class (`operator==` of the harness allocator): ids 2c and 2c+1 are equal -/
def cls (a : Nat) : Nat := a / 2

def upd {β : Type} (f : Nat → β) (i : Nat) (v : β) : Nat → β := fun j => if j = i then v else f j

def fail (s : State) (msg : String) : State :=
  match s.err with
  | some _ => s
  | none => { s with err := some msg }

def emit (s : State) (e : Ev) : State := { s with log := e :: s.log }

def blankW (a : Nat) : Wrapper := ⟨none, invalidSize, a, 0, none⟩
def deadBlock : Block := ⟨0, 0, false, none, 0, none⟩

def getW (s : State) (i : Nat) : Wrapper := (s.wr i).getD (blankW 0)

def modW (s : State) (i : Nat) (f : Wrapper → Wrapper) : State :=
  match s.wr i with
  | some w => { s with wr := upd s.wr i (some (f w)) }
  | none => fail s "access to a wrapper that does not exist"

def objAt (s : State) : Loc → Option Obj
  | .buf i => match s.wr i with | some w => w.bufObj | none => none
  | .blk b => (s.blk b).obj
  | .env k => s.env k

def setObj (s : State) (l : Loc) (o : Option Obj) : State :=
  match l with
  | .buf i => modW s i fun w => { w with bufObj := o }
  | .blk b => { s with blk := upd s.blk b { s.blk b with obj := o } }
  | .env k => { s with env := upd s.env k o }

/-- storage a wrapper may construct a payload in: its small buffer or a live heap block — never
    the environment's storage (a wrapper does not own what it merely references) -/
def usable (s : State) : Loc → Bool
  | .buf i => (s.wr i).isSome
  | .blk b => (s.blk b).live
  | .env _ => false

/-- placement-new of a fresh object at `l` -/
def constructAt (s : State) (l : Loc) (val ty : Nat) (ev : Nat → Ev) : State :=
  if !(usable s l) then fail s "construct in storage that is not available"
  else if (objAt s l).isSome then fail s "construct over a live object"
  else
    let id := s.nextId
    let s := setObj s l (some ⟨id, val, ty⟩)
    emit { s with nextId := id + 1, ccnt := upd s.ccnt id (s.ccnt id + 1),
                  where_ := upd s.where_ id (some l) } (ev id)

/-- destructor call on the object at `l` -/
def destroyAt (s : State) (l : Loc) : State :=
  match objAt s l with
  | none => fail s "destroy of an object that is not alive"
  | some o =>
    let s := setObj s l none
    emit { s with dcnt := upd s.dcnt o.id (s.dcnt o.id + 1), where_ := upd s.where_ o.id none }
      (.dtor o.id)

/-- `vtable.copy(src, dst)` -/
def copyConstruct (s : State) (src dst : Option Loc) : State :=
  match src, dst with
  | some p, some q =>
    match objAt s p with
    | some o => constructAt s q o.val o.ty (fun id => .copy id o.id)
    | none => fail s "copy-construct from storage without a live object"
  | _, _ => fail s "copy-construct through a null pointer"

/-- `vtable.move(src, dst)`; the source keeps living with the moved-from value 0 -/
def moveConstruct (s : State) (src dst : Option Loc) : State :=
  match src, dst with
  | some p, some q =>
    match objAt s p with
    | some o => setObj (constructAt s q o.val o.ty (fun id => .move id o.id)) p
                  (some { o with val := 0 })
    | none => fail s "move-construct from storage without a live object"
  | _, _ => fail s "move-construct through a null pointer"

/-- `allocator.allocate(sz)` by allocator `a`, on behalf of slot `owner` -/
def heapAlloc (s : State) (a sz owner : Nat) : State × Nat :=
  let b := s.nblk
  (emit { s with blk := upd s.blk b ⟨a, sz, true, none, owner, none⟩, nblk := b + 1 }
    (.alloc a b sz), b)

/-- `a.deallocate(p, _)` -/
def heapFree (s : State) (a : Nat) (p : Option Loc) : State :=
  match p with
  | some (.blk b) =>
    let B := s.blk b
    if !B.live then fail s "deallocate of a block that is not live"
    else if cls B.alloc != cls a then
      fail s "deallocate through an allocator unequal to the allocating one"
    else if B.obj.isSome then fail s "deallocate of storage that still holds a live object"
    else emit { s with blk := upd s.blk b { B with live := false, freedBy := some a } }
      (.dealloc a b)
  | _ => fail s "deallocate of a pointer that is not a heap block"

/-! ### `TypeErased` private helpers -/

/-- `TypeErased::allocate(size)` (the returned guard is modelled at the call sites) -/
def wAllocate (s : State) (i sz : Nat) : State :=
  if allocateUsesSmallBuffer sz s.cfg.sbs then
    modW s i fun w => { w with self := some (.buf i), size := sz }
  else
    let r := heapAlloc s (getW s i).alloc sz i
    modW r.1 i fun w => { w with self := some (.blk r.2), size := sz }

/-- `TypeErased::deallocate()` -/
def wDeallocate (s : State) (i : Nat) : State :=
  let w := getW s i
  let s := if deallocateUsesAllocator w.size s.cfg.sbs then heapFree s w.alloc w.self else s
  modW s i fun w => { w with self := none }

/-- `TypeErased::cleanup()` -/
def wCleanup (s : State) (i : Nat) : State :=
  let w := getW s i
  if !(ownsReferencedObject w.size) then modW s i fun w => { w with self := none }
  else match w.self with
    | some p => wDeallocate (destroyAt s p) i
    | none => s

/-- `self = std::exchange(other.self, nullptr)` (+ ghost: the block changes owner) -/
def steal (s : State) (i k : Nat) : State :=
  let p := (getW s k).self
  let s := modW s i fun w => { w with self := p }
  let s := modW s k fun w => { w with self := none }
  match p with
  | some (.blk b) => { s with blk := upd s.blk b { s.blk b with owner := i } }
  | _ => s

/-- the small-buffer move path: `self = small_buffer.data(); vtable.move(other.self, self);
    vtable.destroy(other.self); other.self = nullptr;` -/
def moveSmall (s : State) (i k : Nat) : State :=
  let s := modW s i fun w => { w with self := some (.buf i) }
  let src := (getW s k).self
  let s := moveConstruct s src (some (.buf i))
  let s := match src with
    | some p => destroyAt s p
    | none => fail s "destroy through a null pointer"
  modW s k fun w => { w with self := none }

/-- `do_copy_assign<CopyAllocator>(other)`; `thr`: the payload's copy constructor throws -/
def doCopyAssign (s : State) (copyAlloc : Bool) (i k : Nat) (thr : Bool) : State × Out :=
  let wk := getW s k
  let s := if copyAlloc && s.cfg.pocca then modW s i fun w => { w with alloc := wk.alloc } else s
  if !(operatorBool wk.self.isSome) then (s, .ok)
  else if !(ownsReferencedObject wk.size) then
    (modW s i fun w => { w with size := wk.size, self := wk.self }, .ok)
  else
    let s := wAllocate s i wk.size
    if thr then (wDeallocate (emit s .thrw) i, .excCopy)   -- ~Deallocator runs
    else (copyConstruct s wk.self (getW s i).self, .ok)

/-- a wrapper comes into existence in slot `i` (members default-initialised) -/
def newW (s : State) (i a vt : Nat) : State :=
  { s with wr := upd s.wr i (some { blankW a with vtTy := vt }) }

/-- the storage of wrapper `i` goes away (end of destructor / constructor left by exception) -/
def dropW (s : State) (i : Nat) : State :=
  let w := getW s i
  let s := if w.bufObj.isSome then fail s "wrapper storage released while its buffer holds a live object"
           else if w.self.isSome then fail s "wrapper storage released while `self` is not null"
           else s
  { s with wr := upd s.wr i none }

/-! ### Operations -/

inductive Op
  | newDefault (i a : Nat)
  | newInPlace (i a ty val : Nat) (thr : Bool)
  | newCopyEnv (i a k : Nat) (thr : Bool)
  | newMoveEnv (i a k : Nat)
  | newPtr (i a k : Nat) (isConst : Bool)
  | copyCtor (i j : Nat) (thr : Bool)
  | copyCtorAlloc (i j a : Nat) (thr : Bool)
  | moveCtor (i j : Nat)
  | moveCtorAlloc (i j a : Nat)
  | copyAssign (i j : Nat) (thr : Bool)
  | moveAssign (i j : Nat)
  | del (i : Nat)
  | get (i : Nat) | set (i v : Nat) | asMut (i ty : Nat) | asConst (i ty : Nat) | getPtr (i : Nat)
  deriving Repr

def free (s : State) (i : Nat) : Bool := decide (i < s.cfg.npool) && (s.wr i).isNone
def has (s : State) (i : Nat) : Bool := (s.wr i).isSome

def opNewInPlace (s : State) (i a ty val : Nat) (thr : Bool) : State × Out :=
  let s := wAllocate (newW s i a 0) i ty
  if thr then (dropW (wDeallocate (emit s .thrw) i) i, .excCtor)
  else
    let s := constructAt s ((getW s i).self.getD (.buf i)) val ty (fun id => .ctor id val)
    (modW s i fun w => { w with vtTy := ty }, .ok)

def opNewCopyEnv (s : State) (i a k : Nat) (thr : Bool) : State × Out :=
  match s.env k with
  | none => (s, .badOp)
  | some o =>
    let s := wAllocate (newW s i a 0) i o.ty
    if thr then (dropW (wDeallocate (emit s .thrw) i) i, .excCopy)
    else
      let s := copyConstruct s (some (.env k)) (getW s i).self
      (modW s i fun w => { w with vtTy := o.ty }, .ok)

def opNewMoveEnv (s : State) (i a k : Nat) : State × Out :=
  match s.env k with
  | none => (s, .badOp)
  | some o =>
    let s := wAllocate (newW s i a 0) i o.ty
    let s := moveConstruct s (some (.env k)) (getW s i).self
    (modW s i fun w => { w with vtTy := o.ty }, .ok)

def opNewPtr (s : State) (i a k : Nat) (isConst : Bool) : State × Out :=
  match s.env k with
  | none => (s, .badOp)
  | some o =>
    (modW (newW s i a 0) i fun w =>
      { w with size := refSize isConst, vtTy := o.ty, self := some (.env k) }, .ok)

def opCopyCtorWith (s : State) (i j a : Nat) (thr : Bool) : State × Out :=
  let s := newW s i a (getW s j).vtTy
  let r := doCopyAssign s false i j thr
  if r.2 == .excCopy then (dropW r.1 i, .excCopy) else r

def opMoveCtor (s : State) (i j : Nat) : State × Out :=
  let wj := getW s j
  let s := newW s i wj.alloc wj.vtTy
  let s := modW s i fun w => { w with size := wj.size }
  let s :=
    if !(ownsReferencedObject wj.size) || moveCtorLarge wj.size s.cfg.sbs then steal s i j
    else if wj.self.isSome then moveSmall s i j
    else s
  (modW s j fun w => { w with size := invalidSize }, .ok)

/-- heap payload, allocators unequal: allocate, move, destroy, free the source block -/
def moveRealloc (s : State) (i j : Nat) (srcFreeBy : Nat) (viaOtherDeallocate : Bool) : State :=
  let wi := getW s i
  let wj := getW s j
  let r := heapAlloc s wi.alloc wi.size i
  let s := modW r.1 i fun w => { w with self := some (.blk r.2) }
  let s := moveConstruct s wj.self (some (.blk r.2))
  let s := match wj.self with
    | some p => destroyAt s p
    | none => fail s "destroy through a null pointer"
  if viaOtherDeallocate then wDeallocate s j
  else modW (heapFree s srcFreeBy wj.self) j fun w => { w with self := none }

def opMoveCtorAlloc (s : State) (i j a : Nat) : State × Out :=
  let wj := getW s j
  let s := newW s i a wj.vtTy
  if wj.self.isNone then (s, .ok)
  else
    let s := modW s i fun w => { w with size := wj.size }
    let s :=
      if !(ownsReferencedObject wj.size) then steal s i j
      else if moveCtorAllocLarge wj.size s.cfg.sbs then
        if cls a == cls wj.alloc then steal s i j
        else moveRealloc s i j wj.alloc true
      else if wj.self.isSome then moveSmall s i j
      else s
    (modW s j fun w => { w with size := invalidSize }, .ok)

def opCopyAssign (s : State) (i j : Nat) (thr : Bool) : State × Out :=
  if i = j then (s, .ok)
  else
    let s := wCleanup s i
    let s := modW s i fun w => { w with vtTy := (getW s j).vtTy }
    doCopyAssign s true i j thr

def opMoveAssign (s : State) (i j : Nat) : State × Out :=
  if i = j then (s, .ok)
  else
    let s := wCleanup s i
    let wj := getW s j
    let prop := s.cfg.pocma
    let s := if prop then modW s i fun w => { w with alloc := wj.alloc } else s
    if wj.self.isNone then (s, .ok)
    else
      let s := modW s i fun w => { w with size := wj.size, vtTy := wj.vtTy }
      let ai := (getW s i).alloc
      let s :=
        if !(ownsReferencedObject wj.size) then steal s i j
        else if moveAssignLarge wj.size s.cfg.sbs then
          if prop || cls ai == cls wj.alloc then steal s i j
          else moveRealloc s i j (if prop then ai else wj.alloc) false
        else if wj.self.isSome then moveSmall s i j
        else s
      (modW s j fun w => { w with size := invalidSize }, .ok)

def opDel (s : State) (i : Nat) : State × Out := (dropW (wCleanup s i) i, .ok)

/-- run the guard list of an accessor (generated from `as()`, `get_pointer()`) -/
def runGuards (gs : List Guard) (w : Wrapper) (ty : Nat) (deliver : Out) : Out :=
  match gs with
  | [] => .ok
  | .typeCheck :: r => if w.vtTy != ty then .excType else runGuards r w ty deliver
  | .constCheck :: r => if referencedObjectIsConst w.size then .excConst else runGuards r w ty deliver
  | .deliver :: _ => deliver

/-- read the object `self` points to -/
def deref (s : State) (w : Wrapper) : State × Out :=
  match w.self with
  | none => (s, .empty)
  | some p =>
    match objAt s p with
    | some o => (emit s (.read o.id o.val), .val o.id o.val)
    | none => (fail s "dispatch through a dangling pointer", .badOp)

def opGet (s : State) (i : Nat) : State × Out := deref s (getW s i)

def opSet (s : State) (i v : Nat) : State × Out :=
  let w := getW s i
  match w.self with
  | none => (s, .empty)
  | some p =>
    if nonConstCallGuards.all id && referencedObjectIsConst w.size then (s, .excConst)
    else match objAt s p with
      | some o => (emit (setObj s p (some { o with val := v })) (.write o.id v), .val o.id v)
      | none => (fail s "dispatch through a dangling pointer", .badOp)

def opAccess (s : State) (gs : List Guard) (i ty : Nat) : State × Out :=
  let w := getW s i
  if w.self.isNone then (s, .empty)
  else
    let d := deref s w
    match runGuards gs w ty d.2 with
    | .val id v => (d.1, .val id v)
    | o => (s, o)

/-- The operations with the *hand-staged* bodies above (`opMoveAssign`, …): the form the invariant
    proofs work on.  The model the driver runs is `step` of `Model/C16Exec.lean`, which executes the
    regenerated programs `Gen.C16.*P`; `Proofs.C16.step_eq_stepH` proves that the two agree on every
    state and operation. -/
def stepH (s : State) : Op → State × Out
  | .newDefault i a => if free s i then (newW s i a 0, .ok) else (s, .badOp)
  | .newInPlace i a ty val thr => if free s i then opNewInPlace s i a ty val thr else (s, .badOp)
  | .newCopyEnv i a k thr => if free s i then opNewCopyEnv s i a k thr else (s, .badOp)
  | .newMoveEnv i a k => if free s i then opNewMoveEnv s i a k else (s, .badOp)
  | .newPtr i a k c => if free s i then opNewPtr s i a k c else (s, .badOp)
  | .copyCtor i j thr =>
    if free s i && has s j then
      opCopyCtorWith s i j (if s.cfg.socc then 0 else (getW s j).alloc) thr
    else (s, .badOp)
  | .copyCtorAlloc i j a thr => if free s i && has s j then opCopyCtorWith s i j a thr else (s, .badOp)
  | .moveCtor i j => if free s i && has s j then opMoveCtor s i j else (s, .badOp)
  | .moveCtorAlloc i j a => if free s i && has s j then opMoveCtorAlloc s i j a else (s, .badOp)
  | .copyAssign i j thr => if has s i && has s j then opCopyAssign s i j thr else (s, .badOp)
  | .moveAssign i j => if has s i && has s j then opMoveAssign s i j else (s, .badOp)
  | .del i => if has s i then opDel s i else (s, .badOp)
  | .get i => if has s i then opGet s i else (s, .badOp)
  | .set i v => if has s i then opSet s i v else (s, .badOp)
  | .asMut i ty => if has s i then opAccess s asMut i ty else (s, .badOp)
  | .asConst i ty => if has s i then opAccess s asConst i ty else (s, .badOp)
  | .getPtr i => if has s i then opAccess s getPointer i (getW s i).vtTy else (s, .badOp)

/-- Fresh pool: no wrappers, two environment objects (ids 0 and 1: a small and a large one). -/
def initState (cfg : Cfg) (tyS tyL : Nat) : State :=
  { cfg := cfg, wr := fun _ => none, blk := fun _ => deadBlock, nblk := 0,
    env := fun k => if k = 0 then some ⟨0, 100, tyS⟩ else if k = 1 then some ⟨1, 101, tyL⟩ else none,
    nextId := 2, ccnt := (fun id => if id < 2 then 1 else 0), dcnt := fun _ => 0,
    where_ := fun id => if id = 0 then some (.env 0) else if id = 1 then some (.env 1) else none,
    err := none, log := [] }

def countIf (n : Nat) (p : Nat → Bool) : Nat := ((List.range n).filter p).length

/-- ids whose destruction count is not exactly one / blocks still live or freed by an unequal
    allocator -/
def badIds (s : State) : Nat := countIf s.nextId fun id => s.dcnt id != 1 || s.ccnt id != 1
def badBlocks (s : State) : Nat :=
  countIf s.nblk fun b => (s.blk b).live ||
    (match (s.blk b).freedBy with | some a => cls a != cls (s.blk b).alloc | none => true)

/-! ### The order of lifetime actions the operation bodies above follow (per control-flow path)

  This is the hand model's declaration of what it implements; `Props.C16.shape_*` decides that
  it is equal to the table regenerated from the C++ on every run. -/

def expectedCopyCtor : List Path := [
  ⟨[], [.initAllocSelectOnCopy, .initVtableCopy, .doCopyAssignKeepAlloc]⟩]

def expectedCopyCtorAlloc : List Path := [
  ⟨[], [.initAllocArg, .initVtableCopy, .doCopyAssignKeepAlloc]⟩]

def expectedCopyAssign : List Path := [
  ⟨[(.selfAssign, true)], []⟩,
  ⟨[(.selfAssign, false)], [.cleanup, .copyVtable, .doCopyAssignMayCopyAlloc]⟩]

def expectedMoveCtor : List Path := [
  ⟨[(.otherNotOwningOrSizeLarge, true)],
   [.initAllocMoveOther, .initVtableMove, .takeSize, .stealPtr, .invalidateOtherSize]⟩,
  ⟨[(.otherNotOwningOrSizeLarge, false), (.otherNonEmpty, true)],
   [.initAllocMoveOther, .initVtableMove, .takeSize, .useSmallBuffer, .moveConstruct, .destroyOther,
    .nullOther, .invalidateOtherSize]⟩,
  ⟨[(.otherNotOwningOrSizeLarge, false), (.otherNonEmpty, false)],
   [.initAllocMoveOther, .initVtableMove, .takeSize, .invalidateOtherSize]⟩]

def expectedMoveCtorAlloc : List Path := [
  ⟨[(.otherEmpty, true)], [.initAllocArg, .initVtableMove]⟩,
  ⟨[(.otherEmpty, false), (.otherNotOwning, true)],
   [.initAllocArg, .initVtableMove, .takeSize, .stealPtr, .invalidateOtherSize]⟩,
  ⟨[(.otherEmpty, false), (.otherNotOwning, false), (.sizeLarge, true), (.allocEq, true)],
   [.initAllocArg, .initVtableMove, .takeSize, .stealPtr, .invalidateOtherSize]⟩,
  ⟨[(.otherEmpty, false), (.otherNotOwning, false), (.sizeLarge, true), (.allocEq, false)],
   [.initAllocArg, .initVtableMove, .takeSize, .allocOwn, .moveConstruct, .destroyOther,
    .otherDeallocate, .invalidateOtherSize]⟩,
  ⟨[(.otherEmpty, false), (.otherNotOwning, false), (.sizeLarge, false), (.otherNonEmpty, true)],
   [.initAllocArg, .initVtableMove, .takeSize, .useSmallBuffer, .moveConstruct, .destroyOther,
    .nullOther, .invalidateOtherSize]⟩,
  ⟨[(.otherEmpty, false), (.otherNotOwning, false), (.sizeLarge, false), (.otherNonEmpty, false)],
   [.initAllocArg, .initVtableMove, .takeSize, .invalidateOtherSize]⟩]

/-- move assignment: common prefix `cleanup; bind prop_alloc; [allocator = move(other.allocator)]`,
    then per branch -/
def maPrefix (prop : Bool) : List Act :=
  [.cleanup, .bindPropMoveAssign] ++ (if prop then [.moveAllocator] else [])

def expectedMoveAssign : List Path :=
  [⟨[(.selfAssign, true)], []⟩] ++
  [true, false].map (fun p => ⟨[(.selfAssign, false), (.propAlloc, p), (.otherEmpty, true)], maPrefix p⟩) ++
  [true, false].map (fun p =>
    ⟨[(.selfAssign, false), (.propAlloc, p), (.otherEmpty, false), (.otherNotOwning, true)],
     maPrefix p ++ [.takeSize, .moveVtable, .stealPtr, .invalidateOtherSize]⟩) ++
  [true, false].map (fun p =>
    ⟨[(.selfAssign, false), (.propAlloc, p), (.otherEmpty, false), (.otherNotOwning, false),
      (.sizeLarge, true), (.propAllocOrAllocEq, true)],
     maPrefix p ++ [.takeSize, .moveVtable, .stealPtr, .invalidateOtherSize]⟩) ++
  [true, false].map (fun p =>
    ⟨[(.selfAssign, false), (.propAlloc, p), (.otherEmpty, false), (.otherNotOwning, false),
      (.sizeLarge, true), (.propAllocOrAllocEq, false)],
     maPrefix p ++ [.takeSize, .moveVtable, .allocOwn, .moveConstruct, .destroyOther,
       .deallocOwnIfPropElseOtherOtherSelf, .nullOther, .invalidateOtherSize]⟩) ++
  [true, false].map (fun p =>
    ⟨[(.selfAssign, false), (.propAlloc, p), (.otherEmpty, false), (.otherNotOwning, false),
      (.sizeLarge, false), (.otherNonEmpty, true)],
     maPrefix p ++ [.takeSize, .moveVtable, .useSmallBuffer, .moveConstruct, .destroyOther,
       .nullOther, .invalidateOtherSize]⟩) ++
  [true, false].map (fun p =>
    ⟨[(.selfAssign, false), (.propAlloc, p), (.otherEmpty, false), (.otherNotOwning, false),
      (.sizeLarge, false), (.otherNonEmpty, false)],
     maPrefix p ++ [.takeSize, .moveVtable, .invalidateOtherSize]⟩)

def expectedCleanup : List Path := [
  ⟨[(.notOwning, true)], [.nullSelf]⟩,
  ⟨[(.notOwning, false), (.nonEmpty, true)], [.destroySelf, .selfDeallocate]⟩,
  ⟨[(.notOwning, false), (.nonEmpty, false)], []⟩]

def expectedDeallocate : List Path := [
  ⟨[(.sizeLarge, true)], [.deallocOwnSelf, .nullSelf]⟩,
  ⟨[(.sizeLarge, false)], [.nullSelf]⟩]

def expectedAllocate : List Path := [⟨[], [.chooseStorage, .setSize, .returnGuard]⟩]

def dcaPrefix (c : Bool) : List Act := [.bindPropCopyAssign] ++ (if c then [.copyAllocator] else [])

def expectedDoCopyAssign : List Path :=
  [true, false].map (fun c => ⟨[(.copyAllocAndProp, c), (.otherEmpty, true)], dcaPrefix c⟩) ++
  [true, false].map (fun c =>
    ⟨[(.copyAllocAndProp, c), (.otherEmpty, false), (.otherNotOwning, true)],
     dcaPrefix c ++ [.takeSize, .aliasPtr]⟩) ++
  [true, false].map (fun c =>
    ⟨[(.copyAllocAndProp, c), (.otherEmpty, false), (.otherNotOwning, false)],
     dcaPrefix c ++ [.guardedAllocateOtherSize, .copyConstruct, .releaseGuard]⟩)

def expectedConstructInplacePtr : List Act := [.setRefSize, .setVtableInPlace, .setRefSelf]
def expectedConstructInplaceObj : List Act :=
  [.guardedAllocateSizeofT, .constructPayload, .setVtableInPlace, .releaseObjGuard, .releaseGuard]

end Alpaqa.C16
