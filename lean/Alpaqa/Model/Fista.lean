/-
  Loop model of `FISTASolver::operator()` (fista.tpp), statement by statement.

  * problem functions are pure oracles (`Problem α`: y, Σ are closed over);
  * `stop : Nat → Bool` is the stop flag as a function of the *tick* (number of oracle calls —
    problem evaluations and progress callbacks — made so far), `oot` the time-limit oracle;
  * decision kernels and update statements are the translator-generated ones:
    `fista_qubViolated`, `fista_fbe` (`Gen.C05`), `statusChain`, `calcErrorStopCrit`,
    `requiresGradHat`, `noProgressUpdate` (`Gen.C06`), `fista_fixedLipschitz`, `fista_gammaInit`,
    `fista_backtrack`, `fista_tNext`, `fista_nextX` (`Gen.C08`).

  Aliasing that exists in the C++ is modelled: `prev_x̂.swap(curr->x̂)` is a swap of the two
  vectors (the swapped-in content of `curr->x̂` is overwritten by the proximal step that follows
  immediately); the finite-difference Lipschitz estimate uses `curr->x̂` as its workspace, so in
  that mode `prev_x̂` holds `x₀ − h` (not `x₀`) during iteration 0; never-written storage keeps the
  arbitrary initial content `garbage`.

  The loop is written as small staged functions (`proxStage`, `headStep`, `exitBlock`, `advance`,
  `mainLoop`, `initState`, `run`) so that invariants can be proved stage by stage.
  Executed at `Float` by `Driver/LoopFista.lean` against recorded traces of the real solver
  (bit-exact replay of every callback field, the returned x / y / err_z and the statistics);
  theorems are in `Props/C03_Fista.lean`, `Props/C06_Fista.lean`, `Props/C19_Fista.lean`,
  `Props/C08.lean`.
-/
import Alpaqa.Model.Vec
import Alpaqa.Gen.C05
import Alpaqa.Gen.C06
import Alpaqa.Gen.C08

namespace Alpaqa.Fista
open Alpaqa Alpaqa.Gen

/-- Problem oracles with `y`, `Σ` fixed. -/
structure Problem (α : Type) where
  /-- `eval_ψ_grad_ψ(x, y, Σ, grad, work_n, work_m)` ↦ `(ψ, grad, work_m)` -/
  psiGradPsi : Vec α → α × Vec α × Vec α
  /-- `eval_ψ(x̂, y, Σ, ŷ)` ↦ `(ψ, ŷ)` -/
  psi : Vec α → α × Vec α
  /-- `eval_grad_ψ(x, y, Σ, grad, work_n, work_m)` ↦ `grad` -/
  gradPsi : Vec α → Vec α
  /-- `eval_grad_L(x̂, ŷ, grad, work_n)` ↦ `grad` -/
  gradL : Vec α → Vec α → Vec α
  /-- `eval_prox_grad_step(γ, x, grad_ψ, x̂, p)` ↦ `(h(x̂), x̂, p)` -/
  prox : α → Vec α → Vec α → α × Vec α × Vec α

structure Params (α : Type) where
  L0 : α
  lipEps : α
  lipDelta : α
  LgammaFactor : α
  maxIter : Nat
  Lmin : α
  Lmax : α
  stopCrit : PANOCStopCrit
  maxNoProgress : Nat
  qubTol : α
  disableAcceleration : Bool
  /-- `InnerSolveOptions` -/
  alwaysOverwrite : Bool
  tolerance : α
  /-- fuel for the quadratic-upper-bound `while` (the C++ loop has none) -/
  qubFuel : Nat := 4096

structure Iterate (α : Type) where
  x : Vec α
  xhat : Vec α
  gradPsi : Vec α
  gradPsiHat : Vec α
  p : Vec α
  yhat : Vec α
  psix : α
  psixhat : α
  gamma : α
  L : α
  pTp : α
  gradPsiTp : α
  hxhat : α

structure Stats (α : Type) where
  status : SolverStatus := .Busy
  eps : α
  iterations : Nat := 0
  stepsizeBacktracks : Nat := 0
  finalGamma : α
  finalPsi : α
  finalH : α

/-- What the progress callback is handed. -/
structure Callback (α : Type) where
  k : Nat
  status : SolverStatus
  it : Iterate α
  fbe : α
  t : α
  eps : α

structure Result (α : Type) where
  stats : Stats α
  x : Vec α
  y : Vec α
  errz : Vec α
  /-- were x, y, err_z overwritten? -/
  wrote : Bool
  callbacks : List (Callback α)
  ticks : Nat
  /-- the iterate that was current at exit -/
  final : Option (Iterate α)
  /-- a loop ran out of model fuel (never on replayed runs) -/
  fuelOut : Bool := false

section
variable {α : Type} [Add α] [Sub α] [Mul α] [Div α] [Neg α] [LT α] [LE α] [DecidableLT α]
  [DecidableLE α] [BEq α] [RealLike α] [NatCast α] [OfScientific α]
  [OfNat α 0] [OfNat α 1] [OfNat α 2] [OfNat α 4] [OfNat α 100]

def Iterate.fbe (i : Iterate α) : α := fista_fbe i.psix i.hxhat i.pTp i.gamma i.gradPsiTp

def qubViolated (pr : Params α) (i : Iterate α) : Bool :=
  fista_qubViolated pr.qubTol i.psix i.psixhat i.gradPsiTp i.L i.pTp

/-- `bool fixed_lipschitz = params.L_min == params.L_max;` -/
def fixedLip (pr : Params α) : Bool := fista_fixedLipschitz pr.Lmin pr.Lmax

/-- `bool need_grad_ψx̂ = Helpers::stop_crit_requires_grad_ψx̂(params.stop_crit);` -/
def needGradHat (pr : Params α) : Bool := requiresGradHat pr.stopCrit

/-- `eval_ψ_grad_ψ(i)` -/
def evalPsiGradPsi (P : Problem α) (i : Iterate α) : Iterate α :=
  let r := P.psiGradPsi i.x
  { i with psix := r.1, gradPsi := r.2.1 }

/-- `eval_grad_ψ(i)` -/
def evalGradPsi (P : Problem α) (i : Iterate α) : Iterate α :=
  { i with gradPsi := P.gradPsi i.x }

/-- `eval_prox_grad_step(i)` -/
def evalProxGradStep (P : Problem α) (i : Iterate α) : Iterate α :=
  let r := P.prox i.gamma i.x i.gradPsi
  let p := r.2.2
  { i with hxhat := r.1, xhat := r.2.1, p := p, pTp := sqNorm p, gradPsiTp := dot p i.gradPsi }

/-- `eval_ψx̂(i)` -/
def evalPsiHat (P : Problem α) (i : Iterate α) : Iterate α :=
  let r := P.psi i.xhat
  { i with psixhat := r.1, yhat := r.2 }

/-- `eval_grad_ψx̂(i)` ("assumes that eval_ψx̂ was called first") -/
def evalGradPsiHat (P : Problem α) (i : Iterate α) : Iterate α :=
  { i with gradPsiHat := P.gradL i.xhat i.yhat }

/-- `Helpers::initial_lipschitz_estimate` (the overload that also returns ψ, ∇ψ).
    Returns `(L, ψ, ∇ψ, work_x)`. -/
def initialLipschitz (P : Problem α) (pr : Params α) (x : Vec α) : α × α × Vec α × Vec α :=
  let r := P.psiGradPsi x
  let g := r.2.1
  let h := g.map fun gi =>
    if gi > 0 then emax (pr.lipEps * gi) pr.lipDelta else emin (pr.lipEps * gi) (-pr.lipDelta)
  let wx := vsub x h
  let normh := norm2 h
  let wg := P.gradPsi wx
  let L := norm2 (vsub wg g) / normh
  (eclamp L pr.Lmin pr.Lmax, r.1, g, wx)

/-- State threaded through one solve (at the top of the `while (true)` loop). -/
structure St (α : Type) where
  curr : Iterate α
  /-- `prev_x̂` -/
  prev : Vec α
  /-- acceleration parameter `t` -/
  t : α
  k : Nat
  noProgress : Nat
  tick : Nat
  backtracks : Nat
  cbs : List (Callback α)
  fuelOut : Bool := false

/-- `while (curr->L < params.L_max && qub_violated(*curr)) { γ /= 2; L *= 2; prox; ψ(x̂); ++bt }`.
    Returns (iterate, tick, backtracks, fuel exhausted). -/
def qubLoop (P : Problem α) (pr : Params α) (stop : Nat → Bool) :
    Nat → Iterate α → Nat → Nat → Iterate α × Nat × Nat × Bool
  | 0, c, t, b => (c, t, b, true)
  | f + 1, c, t, b =>
    -- `while (!stop_signal.stop_requested() && curr->L < L_max && qub_violated(*curr))`
    if stop t then (c, t, b, false) else
    if decide (c.L < pr.Lmax) && qubViolated pr c then
      let gl := fista_backtrack c.gamma c.L
      qubLoop P pr stop f (evalPsiHat P (evalProxGradStep P { c with gamma := gl.1, L := gl.2 })) (t + 2) (b + 1)
    else (c, t, b, false)

/-- `prev_x̂.swap(curr->x̂); eval_prox_grad_step(*curr); if (!fixed_lipschitz || need_grad_ψx̂) eval_ψx̂(*curr);`
    (the old `prev_x̂` lands in `curr->x̂` and is overwritten right away by the prox step). -/
def firstStep (P : Problem α) (pr : Params α) (s : St α) : Iterate α :=
  let c1 := evalProxGradStep P { s.curr with xhat := s.prev }
  if !fixedLip pr || needGradHat pr then evalPsiHat P c1 else c1

/-- oracle calls made by `firstStep` -/
def firstTick (pr : Params α) (s : St α) : Nat :=
  s.tick + 1 + (if !fixedLip pr || needGradHat pr then 1 else 0)

/-- `if (need_grad_ψx̂) eval_grad_ψx̂(*curr);` -/
def withGradHat (P : Problem α) (pr : Params α) (c : Iterate α) : Iterate α :=
  if needGradHat pr then evalGradPsiHat P c else c

/-- "Proximal gradient step" and "Quadratic upper bound" sections of the loop body:
    `prev_x̂.swap(curr->x̂); eval_prox_grad_step; [eval_ψx̂]; while (…) {…}; [eval_grad_ψx̂]`
    (∇ψ(x̂) is evaluated once, at the accepted step, after the backtracking loop). -/
def proxStage (P : Problem α) (pr : Params α) (stop : Nat → Bool) (s : St α) : St α :=
  let r := qubLoop P pr stop pr.qubFuel (firstStep P pr s) (firstTick pr s) s.backtracks
  { s with curr := withGradHat P pr r.1, prev := s.curr.xhat,
           tick := r.2.1 + (if needGradHat pr then 1 else 0),
           backtracks := r.2.2.1, fuelOut := s.fuelOut || r.2.2.2 }

def statusOf (pr : Params α) (k : Nat) (eps : α) (noProgress : Nat) (oot intr : Bool) :
    SolverStatus :=
  statusChain pr.tolerance pr.maxIter pr.maxNoProgress k eps noProgress oot intr

def epsOf (P : Problem α) (pr : Params α) (c : Iterate α) : α :=
  calcErrorStopCrit pr.stopCrit (fun g x gr => let r := P.prox g x gr; (r.2.1, r.2.2))
    c.p c.gamma c.x c.xhat c.yhat c.gradPsi c.gradPsiHat

/-- number of oracle calls `calc_error_stop_crit` makes -/
def epsTicks (c : PANOCStopCrit) : Nat :=
  match c with
  | .ProjGradUnitNorm | .ProjGradUnitNorm2 | .Ipopt | .LBFGSBpp => 1
  | _ => 0

/-- "Check stopping criteria": no-progress counter, `εₖ`, the stop status. -/
def headStep (P : Problem α) (pr : Params α) (stop : Nat → Bool) (oot : Bool) (s : St α) :
    St α × α × SolverStatus :=
  let np := noProgressUpdate s.noProgress s.k pr.maxNoProgress (s.curr.xhat == s.prev)
  let eps := epsOf P pr s.curr
  let s' : St α := { s with noProgress := np, tick := s.tick + epsTicks pr.stopCrit }
  (s', eps, statusOf pr s'.k eps np oot (stop s'.tick))

/-- "Return solution": final callback, late `eval_ψx̂`, write-back of x, y, err_z, statistics. -/
def exitBlock (P : Problem α) (pr : Params α) (s : St α) (eps : α) (status : SolverStatus)
    (x0 y Sig : Vec α) (errz0 : Vec α) : Result α :=
  let cb : Callback α :=
    { k := s.k, status := status, it := s.curr, fbe := s.curr.fbe, t := s.t, eps := eps }
  -- `if (fixed_lipschitz && !need_grad_ψx̂) eval_ψx̂(*curr);`
  let c := if fixedLip pr && !needGradHat pr then evalPsiHat P s.curr else s.curr
  let ticks := s.tick + 1 + (if fixedLip pr && !needGradHat pr then 1 else 0)
  let write := status == .Converged || status == .Interrupted || pr.alwaysOverwrite
  let errz := if write then (if errz0.length > 0 then vdiv (vsub c.yhat y) Sig else errz0) else errz0
  let st : Stats α :=
    { status := status, eps := eps, iterations := s.k, stepsizeBacktracks := s.backtracks,
      finalGamma := c.gamma, finalPsi := c.psixhat, finalH := c.hxhat }
  { stats := st, x := if write then c.xhat else x0, y := if write then c.yhat else y, errz := errz,
    wrote := write, callbacks := (cb :: s.cbs).reverse, ticks := ticks, final := some c,
    fuelOut := s.fuelOut }

/-- "Progress callback", "Calculate next point", "Advance step". -/
def advance (P : Problem α) (pr : Params α) (s : St α) (eps : α) : St α :=
  let cb : Callback α :=
    { k := s.k, status := .Busy, it := s.curr, fbe := s.curr.fbe, t := s.t, eps := eps }
  -- `real_t t_new = …; real_t t_prev = std::exchange(t, t_new);`
  let tNew := fista_tNext s.t
  let tPrev := s.t
  let x := fista_nextX pr.disableAcceleration tPrev tNew s.curr.x s.curr.xhat s.prev
  let c : Iterate α := { s.curr with x := x }
  let c := if fixedLip pr then evalGradPsi P c else evalPsiGradPsi P c
  { s with curr := c, t := tNew, k := s.k + 1, tick := s.tick + 2, cbs := cb :: s.cbs }

/-- The main `while (true)` loop; `fuel` bounds the number of passes of the model
    (`max_iter + 1` suffices: every `Busy` pass advances `k` and the chain is never `Busy` at
    `k = max_iter`). -/
def mainLoop (P : Problem α) (pr : Params α) (stop : Nat → Bool) (oot : Bool)
    (x0 y Sig errz0 : Vec α) : Nat → St α → Result α
  | 0, s => { (exitBlock P pr s (0 : α) .Exception x0 y Sig errz0) with fuelOut := true }
  | fuel + 1, s =>
    let h := headStep P pr stop oot (proxStage P pr stop s)
    if h.2.2 != .Busy then exitBlock P pr h.1 h.2.1 h.2.2 x0 y Sig errz0
    else mainLoop P pr stop oot x0 y Sig errz0 fuel (advance P pr h.1 h.2.1)

def blankIterate (garbageV : Vec α) (nan : α) : Iterate α :=
  { x := garbageV, xhat := garbageV, gradPsi := garbageV, gradPsiHat := garbageV, p := garbageV,
    yhat := garbageV, psix := nan, psixhat := nan, gamma := nan, L := nan, pTp := nan,
    gradPsiTp := nan, hxhat := nan }

/-- Everything before the main loop: `curr->x = x; curr->x̂ = x;`, the three Lipschitz modes.
    Returns the iterate and the number of oracle calls made. -/
def initIterate (P : Problem α) (pr : Params α) (x0 garbageV : Vec α) (nan : α) : Iterate α × Nat :=
  let curr : Iterate α := { blankIterate garbageV nan with x := x0, xhat := x0 }
  if fixedLip pr then
    (evalGradPsi P { curr with L := pr.Lmax }, 1)
  else if pr.L0 ≤ 0 then
    let r := initialLipschitz P pr curr.x
    ({ curr with L := r.1, psix := r.2.1, gradPsi := r.2.2.1, xhat := r.2.2.2 }, 2)
  else
    (evalPsiGradPsi P { curr with L := pr.L0 }, 1)

/-- `Sum.inl ticks` = early `NotFinite` return. `nan` is the initial value of the scalar fields of
    `Iterate` (`NaN<config_t>`), `garbageV` the arbitrary content of never-written vectors. -/
def initState (P : Problem α) (pr : Params α) (x0 garbageV : Vec α) (nan : α) : Nat ⊕ St α :=
  let it := initIterate P pr x0 garbageV nan
  if !RealLike.isFinite it.1.L then .inl it.2
  else
    .inr { curr := { it.1 with gamma := fista_gammaInit pr.LgammaFactor it.1.L }, prev := garbageV,
           t := 1, k := 0, noProgress := 0, tick := it.2, backtracks := 0, cbs := [] }

/-- `FISTASolver::operator()`.  `inf` is `Stats::ε`'s default value. -/
def run (P : Problem α) (pr : Params α) (stop : Nat → Bool) (oot : Bool)
    (x0 y Sig errz0 : Vec α) (garbageV : Vec α) (nan inf : α) : Result α :=
  match initState P pr x0 garbageV nan with
  | .inl ticks =>
    { stats := { status := .NotFinite, eps := inf, finalGamma := 0, finalPsi := 0, finalH := 0 },
      x := x0, y := y, errz := errz0, wrote := false, callbacks := [], ticks := ticks,
      final := none }
  | .inr s => mainLoop P pr stop oot x0 y Sig errz0 (pr.maxIter + 2) s

end
end Alpaqa.Fista
