/-
  Loop model of `ZeroFPRSolver::operator()` (zerofpr.tpp), statement by statement.

  * problem functions are pure oracles (`Problem α`: y, Σ are closed over);
  * the direction provider is an arbitrary state machine (`Direction D α`);
  * `stop : Nat → Bool` is the stop flag as a function of the *tick* (number of events so far:
    problem evaluations made by the solver, direction calls, progress callbacks), `oot` the
    time-limit oracle;
  * decision kernels are the translator-generated ones (`Gen.C05` `zerofpr_*`, `Gen.C06`).

  Storage of the C++ and how it is modelled:
  * `iterates[2]` with the pointers `curr` / `next` — two `Iterate` records, `std::swap(curr, next)`
    is a swap of the records;
  * `prox_iterate` (`prox`) — a `ProxIterate` record (its `ŷx̂` member is never read or written by
    the C++ and is left out);
  * never-written fields keep the arbitrary content `garbage`;
  * `work_n`, `work_m` are write-only scratch space of the problem functions: not modelled;
  * `calc_error_stop_crit` is handed `next->p` as its second workspace and overwrites it for the
    criteria that re-evaluate the prox step.  Not modelled, because it can never become visible:
    `next->p` is read only by `direction.update` and (after the swap) through `curr`, and every
    path to either of them runs `eval_prox_grad_step(*next)` first (the line search can be left
    through `break` only after that call, an interrupted line search `continue`s to the loop head
    without swapping);
  * unlike PANOC the line search never writes to `*curr` or `*prox`: they are *parameters* of the
    line-search functions below, not part of the line-search state.

  Executed at `Float` by `Driver/LoopZerofpr.lean` against recorded traces of the real solver
  (bit-exact replay of every callback field, the returned x / y / err_z, the statistics and the
  number of events); theorems are in `Props/C03_Zerofpr.lean`, `Props/C05_Zerofpr.lean`,
  `Props/C06_Zerofpr.lean`, `Props/C19_Zerofpr.lean`.
-/
import Alpaqa.Model.Vec
import Alpaqa.Gen.C05
import Alpaqa.Gen.C06

namespace Alpaqa.Zerofpr
open Alpaqa Alpaqa.Gen

/-- Problem oracles with `y`, `Σ` fixed. -/
structure Problem (α : Type) where
  /-- `eval_ψ_grad_ψ(x, y, Σ, grad, work_n, work_m)` ↦ `(ψ, grad, work_m)` -/
  psiGradPsi : Vec α → α × Vec α × Vec α
  /-- `eval_ψ(x̂, y, Σ, ŷ)` ↦ `(ψ, ŷ)` -/
  psi : Vec α → α × Vec α
  /-- `eval_grad_ψ(x, y, Σ, grad, work_n, work_m)` ↦ `grad` -/
  gradPsi : Vec α → Vec α
  /-- `eval_grad_L(x̂, ŷ, grad, work_n)` ↦ `grad` -/
  gradL : Vec α → Vec α → Vec α
  /-- `eval_prox_grad_step(γ, x, grad_ψ, x̂, p)` ↦ `(h(x̂), x̂, p)` -/
  prox : α → Vec α → Vec α → α × Vec α × Vec α

/-- Direction provider as a state machine over an arbitrary state `D`. -/
structure Direction (D α : Type) where
  init : D → α → Vec α → Vec α → Vec α → Vec α → D
  hasInitial : D → Bool
  /-- `apply(γ, x, x̂, p, grad_ψ, q)` ↦ (new state, success, content of `q` afterwards);
      the previous content of `q` is passed in because a failing provider may leave it. -/
  apply : D → α → Vec α → Vec α → Vec α → Vec α → Vec α → D × Bool × Vec α
  update : D → α → α → Vec α → Vec α → Vec α → Vec α → Vec α → Vec α → D × Bool
  changedGamma : D → α → α → D
  reset : D → D

/-- `ZeroFPRParams` and the two `InnerSolveOptions` fields the solver reads. -/
structure Params (α : Type) where
  L0 : α
  lipEps : α
  lipDelta : α
  LgammaFactor : α
  maxIter : Nat
  minLsCoef : α
  forceLinesearch : Bool
  lsStrictness : α
  Lmin : α
  Lmax : α
  stopCrit : PANOCStopCrit
  maxNoProgress : Nat
  qubTol : α
  lsTol : α
  updateDirInCandidate : Bool
  recomputeLastProx : Bool
  updateDirFromProxStep : Bool
  /-- `InnerSolveOptions` -/
  alwaysOverwrite : Bool
  tolerance : α
  /-- fuel for the inner `while` (the C++ loop has none) -/
  lsFuel : Nat := 4096

/-- `struct Iterate` -/
structure Iterate (α : Type) where
  x : Vec α
  xhat : Vec α
  gradPsi : Vec α
  p : Vec α
  yhat : Vec α
  psix : α
  psixhat : α
  gamma : α
  L : α
  pTp : α
  gradPsiTp : α
  hxhat : α

/-- `struct ProxIterate` (without the unused `ŷx̂`): `grad_ψ` is `∇ψ(x̂ₖ)`, and `(x̂, p)` the
    proximal-gradient step taken *from* `x̂ₖ`. -/
structure ProxIterate (α : Type) where
  xhat : Vec α
  gradPsi : Vec α
  p : Vec α
  pTp : α
  gradPsiTp : α
  hxhat : α

structure Stats (α : Type) where
  status : SolverStatus := .Busy
  eps : α
  iterations : Nat := 0
  lsFailures : Nat := 0
  lsBacktracks : Nat := 0
  stepsizeBacktracks : Nat := 0
  lbfgsFailures : Nat := 0
  lbfgsRejected : Nat := 0
  tau1Accepted : Nat := 0
  countTau : Nat := 0
  sumTau : α
  finalGamma : α
  finalPsi : α
  finalH : α
  finalFbe : α

/-- What the progress callback is handed. -/
structure Callback (α : Type) where
  k : Nat
  status : SolverStatus
  it : Iterate α
  fbe : α
  /-- `grad_ψ_hat` = `prox->grad_ψ` -/
  gradPsiHat : Vec α
  q : Vec α
  tau : α
  eps : α

structure Result (α D : Type) where
  stats : Stats α
  /-- direction state at exit -/
  dfinal : D
  x : Vec α
  y : Vec α
  errz : Vec α
  /-- were x, y, err_z overwritten? -/
  wrote : Bool
  callbacks : List (Callback α)
  ticks : Nat
  /-- the iterate that was current at exit -/
  final : Option (Iterate α)
  /-- inner `while` ran out of model fuel (never on replayed runs) -/
  fuelOut : Bool := false

section
variable {α D : Type} [Add α] [Sub α] [Mul α] [Div α] [Neg α] [LT α] [LE α] [DecidableLT α]
  [DecidableLE α] [BEq α] [RealLike α] [NatCast α] [OfScientific α]
  [OfNat α 0] [OfNat α 1] [OfNat α 2] [OfNat α 100]

/-- `Iterate::fbe()` -/
def Iterate.fbe (i : Iterate α) : α := zerofpr_fbe i.psix i.hxhat i.pTp i.gamma i.gradPsiTp

/-- `qub_violated(i)` -/
def qubViolated (pr : Params α) (i : Iterate α) : Bool :=
  zerofpr_qubViolated pr.qubTol i.psix i.psixhat i.gradPsiTp i.L i.pTp

/-- `linesearch_violated(curr, next)` -/
def linesearchViolated (pr : Params α) (c n : Iterate α) : Bool :=
  zerofpr_linesearchViolated pr.forceLinesearch pr.lsStrictness pr.lsTol
    c.psix c.hxhat c.pTp c.gamma c.gradPsiTp c.L n.psix n.hxhat n.pTp n.gamma n.gradPsiTp

/-- `eval_ψ_grad_ψ(i)` -/
def evalPsiGradPsi (P : Problem α) (i : Iterate α) : Iterate α :=
  let r := P.psiGradPsi i.x
  { i with psix := r.1, gradPsi := r.2.1 }

/-- `eval_prox_grad_step(i)` -/
def evalProxGradStep (P : Problem α) (i : Iterate α) : Iterate α :=
  let r := P.prox i.gamma i.x i.gradPsi
  let p := r.2.2
  { i with hxhat := r.1, xhat := r.2.1, p := p, pTp := sqNorm p, gradPsiTp := dot p i.gradPsi }

/-- `eval_cost_in_prox(i)`: `i.ψx̂ = problem.eval_ψ(i.x̂, y, Σ, i.ŷx̂)` -/
def evalCostInProx (P : Problem α) (i : Iterate α) : Iterate α :=
  let r := P.psi i.xhat
  { i with psixhat := r.1, yhat := r.2 }

/-- `eval_grad_in_prox(i)`: `problem.eval_grad_L(i.x̂, i.ŷx̂, prox->grad_ψ, work_n)` -/
def evalGradInProx (P : Problem α) (i : Iterate α) (px : ProxIterate α) : ProxIterate α :=
  { px with gradPsi := P.gradL i.xhat i.yhat }

/-- `eval_prox_grad_step_in_prox(i)`: prox step from `i.x̂` with `i.γ` and `prox->grad_ψ` -/
def evalProxGradStepInProx (P : Problem α) (i : Iterate α) (px : ProxIterate α) : ProxIterate α :=
  let r := P.prox i.gamma i.xhat px.gradPsi
  let p := r.2.2
  { px with hxhat := r.1, xhat := r.2.1, p := p, pTp := sqNorm p, gradPsiTp := dot p px.gradPsi }

/-- `Helpers::initial_lipschitz_estimate` (the overload that also returns ψ, ∇ψ).
    Returns `(L, ψ, ∇ψ, work_x, work_grad_ψ)`. -/
def initialLipschitz (P : Problem α) (pr : Params α) (x : Vec α) : α × α × Vec α × Vec α × Vec α :=
  let r := P.psiGradPsi x
  let g := r.2.1
  let h := g.map fun gi =>
    if gi > 0 then emax (pr.lipEps * gi) pr.lipDelta else emin (pr.lipEps * gi) (-pr.lipDelta)
  let wx := vsub x h
  let normh := norm2 h
  let wg := P.gradPsi wx
  let L := norm2 (vsub wg g) / normh
  (eclamp L pr.Lmin pr.Lmax, r.1, g, wx, wg)

/-- State threaded through one solve. -/
structure St (α D : Type) where
  curr : Iterate α
  next : Iterate α
  prox : ProxIterate α
  q : Vec α
  /-- has `apply` been called yet (before that `q` is uninitialised storage) -/
  qValid : Bool := false
  d : D
  tick : Nat
  stats : Stats α
  k : Nat
  noProgress : Nat
  cbs : List (Callback α)
  fuelOut : Bool := false

/-- Line-search working state (`*curr`, `*prox`, `q`, `τ_init` are read-only during the line
    search and are parameters). -/
structure LS (α D : Type) where
  next : Iterate α
  d : D
  tick : Nat
  tau : α
  tauPrev : α
  updInLs : Bool
  updated : Bool
  dirRejected : Bool
  lsBacktracks : Nat
  stepsizeBacktracks : Nat
  lbfgsRejected : Nat
  fuelOut : Bool := false

/-- `take_safe_step`: `xₖ₊₁ = x̂ₖ`, reusing `ψ(x̂ₖ)` and `∇ψ(x̂ₖ)` -/
def takeSafeStep (c : Iterate α) (px : ProxIterate α) (n : Iterate α) : Iterate α :=
  { n with x := c.xhat, psix := c.psixhat, gradPsi := px.gradPsi }

/-- `take_accelerated_step(τ)`: `xₖ₊₁ = x̂ₖ + τ qₖ`, then `eval_ψ_grad_ψ(*next)` -/
def takeAcceleratedStep (P : Problem α) (c n : Iterate α) (q : Vec α) (tau : α) : Iterate α :=
  let x := if tau == 1 then vadd c.xhat q else vadd c.xhat (smul tau q)
  evalPsiGradPsi P { n with x := x }

/-- Outcome of one pass through the body of the line-search loop. -/
inductive Pass (α D : Type) where
  /-- `break`: QUB and line-search conditions satisfied -/
  | done (s : LS α D)
  /-- `continue` -/
  | again (s : LS α D)

/-- `if (τ != τ_prev) { τ != 0 ? take_accelerated_step(τ) : take_safe_step(); τ_prev = τ; }` -/
def lsRecompute (P : Problem α) (c : Iterate α) (px : ProxIterate α) (q : Vec α) (s : LS α D) :
    LS α D :=
  if s.tau != s.tauPrev then
    if s.tau != 0 then
      { s with next := takeAcceleratedStep P c s.next q s.tau, tick := s.tick + 1,
               tauPrev := s.tau }
    else
      { s with next := takeSafeStep c px s.next, tauPrev := s.tau }
  else s

/-- The two ways `direction.update` is called (`update_direction_from_prox_step`):
    between `x̂ₖ` and the candidate (with the prox step taken from `x̂ₖ`), or between `xₖ` and
    the candidate. -/
def dirUpdate (dir : Direction D α) (fromProx : Bool) (d : D) (c : Iterate α)
    (px : ProxIterate α) (n : Iterate α) : D × Bool :=
  if fromProx then
    dir.update d c.gamma n.gamma c.xhat n.x px.p n.p px.gradPsi n.gradPsi
  else
    dir.update d c.gamma n.gamma c.x n.x c.p n.p c.gradPsi n.gradPsi

/-- "Update L-BFGS" inside the line search (`update_direction_in_candidate`). -/
def lsUpdateInCandidate (dir : Direction D α) (pr : Params α) (c : Iterate α)
    (px : ProxIterate α) (s : LS α D) : LS α D :=
  if s.updInLs && !s.updated then
    let r := dirUpdate dir pr.updateDirFromProxStep s.d c px s.next
    { s with d := r.1, tick := s.tick + 1, dirRejected := !r.2,
             lbfgsRejected := s.lbfgsRejected + (if r.2 then 0 else 1),
             updInLs := false, updated := true }
  else s

/-- One pass through the body of `while (!stop_signal.stop_requested()) { … }`. -/
def lsPass (P : Problem α) (dir : Direction D α) (pr : Params α) (c : Iterate α)
    (px : ProxIterate α) (q : Vec α) (tauInit : α) (s0 : LS α D) : Pass α D :=
  -- Recompute step only if τ changed
  let s := lsRecompute P c px q s0
  let fail := !RealLike.isFinite s.next.psix ||
    (decide (s.next.L ≥ pr.Lmax) && !decide (c.L ≥ pr.Lmax))
  if decide (s.tau > (0 : α)) && fail then
    .again { s with next := { s.next with L := c.L, gamma := c.gamma }, tau := 0,
                    d := dir.reset s.d, tick := s.tick + 1, updInLs := false }
  else
  -- Calculate x̂ₖ₊₁, ψ(x̂ₖ₊₁)
  let s2 : LS α D :=
    { s with next := evalCostInProx P (evalProxGradStep P s.next), tick := s.tick + 2 }
  -- Quadratic upper bound step size condition
  if decide (s2.next.L < pr.Lmax) && qubViolated pr s2.next then
    .again { s2 with next := { s2.next with gamma := s2.next.gamma / 2, L := s2.next.L * 2 },
                     tau := if s2.tau > 0 then tauInit else s2.tau,
                     stepsizeBacktracks := s2.stepsizeBacktracks + 1, updInLs := false }
  else
  -- Update L-BFGS
  let s3 := lsUpdateInCandidate dir pr c px s2
  -- Line search condition
  if decide (s3.tau > (0 : α)) && linesearchViolated pr c s3.next then
    let tau := s3.tau / 2
    let tau := if tau < pr.minLsCoef then 0 else tau
    .again { s3 with tau := tau, lsBacktracks := s3.lsBacktracks + 1 }
  else .done s3

/-- The inner `while (!stop_signal.stop_requested())` loop. -/
def lineSearch (P : Problem α) (dir : Direction D α) (pr : Params α) (stop : Nat → Bool)
    (c : Iterate α) (px : ProxIterate α) (q : Vec α) (tauInit : α) : Nat → LS α D → LS α D
  | 0, s => { s with fuelOut := true }
  | fuel + 1, s =>
    if stop s.tick then s else
    match lsPass P dir pr c px q tauInit s with
    | .done s' => s'
    | .again s' => lineSearch P dir pr stop c px q tauInit fuel s'

/-- `Helpers::check_all_stop_conditions` -/
def statusOf (pr : Params α) (k : Nat) (eps : α) (noProgress : Nat) (oot intr : Bool) :
    SolverStatus :=
  statusChain pr.tolerance pr.maxIter pr.maxNoProgress k eps noProgress oot intr

/-- `Helpers::calc_error_stop_crit(problem, stop_crit, curr->p, curr->γ, curr->x, curr->x̂,
    curr->ŷx̂, curr->grad_ψ, prox->grad_ψ, work_n, next->p)` -/
def epsOf (P : Problem α) (pr : Params α) (c : Iterate α) (gradHat : Vec α) : α :=
  calcErrorStopCrit pr.stopCrit (fun g x gr => let r := P.prox g x gr; (r.2.1, r.2.2))
    c.p c.gamma c.x c.xhat c.yhat c.gradPsi gradHat

/-- number of problem calls `calc_error_stop_crit` makes -/
def epsTicks (c : PANOCStopCrit) : Nat :=
  match c with
  | .ProjGradUnitNorm | .ProjGradUnitNorm2 | .Ipopt | .LBFGSBpp => 1
  | _ => 0

/-- Exit block: final progress callback, write-back of x, y, err_z, the statistics. -/
def exitBlock (pr : Params α) (s : St α D) (eps : α) (status : SolverStatus)
    (x0 y Sig : Vec α) (errz0 : Vec α) : Result α D :=
  let c := s.curr
  let cb : Callback α :=
    { k := s.k, status := status, it := c, fbe := c.fbe, gradPsiHat := s.prox.gradPsi, q := [],
      tau := -1, eps := eps }
  let write := status == .Converged || status == .Interrupted || pr.alwaysOverwrite
  let errz := if write then (if errz0.length > 0 then vdiv (vsub c.yhat y) Sig else errz0) else errz0
  let st : Stats α :=
    { s.stats with iterations := s.k, eps := eps, status := status,
                   finalGamma := c.gamma, finalPsi := c.psixhat, finalH := c.hxhat,
                   finalFbe := c.fbe }
  { stats := st, dfinal := s.d, x := if write then c.xhat else x0, y := if write then c.yhat else y,
    errz := errz, wrote := write, callbacks := (cb :: s.cbs).reverse,
    -- the progress callback counts as one event
    ticks := s.tick + 1, final := some c, fuelOut := s.fuelOut }

/-- Top of the loop: `eval_grad_in_prox(*curr)`, `eval_prox_grad_step_in_prox(*curr)`, `εₖ`,
    the stop status. -/
def headStep (P : Problem α) (pr : Params α) (stop : Nat → Bool) (oot : Bool) (s : St α D) :
    St α D × α × SolverStatus :=
  let px := evalProxGradStepInProx P s.curr (evalGradInProx P s.curr s.prox)
  let eps := epsOf P pr s.curr px.gradPsi
  let s' : St α D := { s with prox := px, tick := s.tick + 2 + epsTicks pr.stopCrit }
  (s', eps, statusOf pr s'.k eps s'.noProgress oot (stop s'.tick))

/-- Direction stage: `initialize` at k = 0, `apply`, validity check.
    Returns (direction state, tick, q, τ_init, lbfgs_failures increment, q valid). -/
def directionStage (dir : Direction D α) (s : St α D) : D × Nat × Vec α × α × Nat × Bool :=
  let dt := if s.k == 0 then
      (dir.init s.d s.curr.gamma s.curr.xhat s.prox.xhat s.prox.p s.prox.gradPsi, s.tick + 1)
    else (s.d, s.tick)
  let hasInit := dir.hasInitial dt.1
  -- has_initial_direction() is only evaluated when k = 0
  let tick := if s.k == 0 then dt.2 + 1 else dt.2
  let qValid := s.qValid || decide (s.k > 0) || hasInit
  if decide (s.k > 0) || hasInit then
    let r := dir.apply dt.1 s.curr.gamma s.curr.xhat s.prox.xhat s.prox.p s.prox.gradPsi s.q
    let t1 : α := if r.2.1 then 1 else 0
    let t1 : α := if t1 == 1 && !vallFinite r.2.2 then 0 else t1
    if t1 != 1 then (dir.reset r.1, tick + 2, r.2.2, t1, 1, qValid)
    else (r.1, tick + 1, r.2.2, t1, 0, qValid)
  else (dt.1, tick, s.q, 0, 0, qValid)

/-- "Update L-BFGS" after the line search (flush on step-size change, optional recomputation of
    the prox step in `x̂ₖ` with the new step size, `direction.update` one way or the other).
    Returns (curr, prox, direction state, tick, rejected increment). -/
def updateStage (P : Problem α) (dir : Direction D α) (pr : Params α) (c : Iterate α)
    (px : ProxIterate α) (ls : LS α D) : Iterate α × ProxIterate α × D × Nat × Nat :=
  if !ls.updated then
    let cpdt : Iterate α × ProxIterate α × D × Nat :=
      if c.gamma != ls.next.gamma then
        let d := dir.changedGamma ls.d ls.next.gamma c.gamma
        if pr.recomputeLastProx then
          let c' : Iterate α := { c with gamma := ls.next.gamma, L := ls.next.L }
          (c', evalProxGradStepInProx P c' px, d, ls.tick + 2)
        else (c, px, d, ls.tick + 1)
      else (c, px, ls.d, ls.tick)
    let r := dirUpdate dir (decide (ls.tau > (0 : α)) && pr.updateDirFromProxStep) cpdt.2.2.1
               cpdt.1 cpdt.2.1 ls.next
    (cpdt.1, cpdt.2.1, r.1, cpdt.2.2.2 + 1, if r.2 then 0 else 1)
  else (c, px, ls.d, ls.tick, 0)

/-- The line-search state at the start of an iteration. -/
def lsInit (pr : Params α) (s : St α D) (d : D) (tick : Nat) (tauInit : α) : LS α D :=
  { next := { s.next with gamma := s.curr.gamma, L := s.curr.L }, d := d,
    tick := tick, tau := tauInit, tauPrev := -1, updInLs := pr.updateDirInCandidate,
    updated := false, dirRejected := true, lsBacktracks := 0, stepsizeBacktracks := 0,
    lbfgsRejected := 0 }

/-- The line search of the iteration that starts in state `s` (after the loop head). -/
def lsOf (P : Problem α) (dir : Direction D α) (pr : Params α) (stop : Nat → Bool) (s : St α D) :
    LS α D :=
  let ds := directionStage dir s
  lineSearch P dir pr stop s.curr s.prox ds.2.2.1 ds.2.2.2.1 pr.lsFuel
    (lsInit pr s ds.1 ds.2.1 ds.2.2.2.1)

/-- One iteration of the main loop after a `Busy` status (direction, line search, bookkeeping,
    callback, `std::swap(curr, next); ++k`), or the `continue` taken when the solver was
    interrupted during the line search. -/
def iterBody (P : Problem α) (dir : Direction D α) (pr : Params α) (stop : Nat → Bool)
    (s : St α D) (eps : α) : St α D :=
  let ds := directionStage dir s
  let q := ds.2.2.1; let tauInit := ds.2.2.2.1
  let fails := ds.2.2.2.2.1; let qValid := ds.2.2.2.2.2
  -- Line search
  let ls := lsOf P dir pr stop s
  let stats1 : Stats α :=
    { s.stats with
      lbfgsFailures := s.stats.lbfgsFailures + fails,
      lsBacktracks := s.stats.lsBacktracks + ls.lsBacktracks,
      stepsizeBacktracks := s.stats.stepsizeBacktracks + ls.stepsizeBacktracks,
      lbfgsRejected := s.stats.lbfgsRejected + ls.lbfgsRejected }
  -- interrupted during the line search: discard the candidate, handle the stop request at the
  -- top of the loop (`if (stop_signal.stop_requested()) continue;`)
  if stop ls.tick then
    { s with next := ls.next, q := q, qValid := qValid, d := ls.d, tick := ls.tick,
             stats := stats1, fuelOut := s.fuelOut || ls.fuelOut }
  else
  let tau := ls.tau
  let stats : Stats α :=
    { stats1 with
      lsFailures := s.stats.lsFailures + (if tau == 0 && decide (tauInit > 0) then 1 else 0),
      tau1Accepted := s.stats.tau1Accepted + (if tau == 1 then 1 else 0),
      countTau := s.stats.countTau + (if tauInit > 0 then 1 else 0),
      sumTau := s.stats.sumTau + tau }
  -- Check if we made any progress
  let noProgress := noProgressUpdate s.noProgress s.k pr.maxNoProgress (s.curr.x == ls.next.x)
  -- Update L-BFGS
  let us := updateStage P dir pr s.curr s.prox ls
  let curr := us.1
  let stats : Stats α := { stats with lbfgsRejected := stats.lbfgsRejected + us.2.2.2.2 }
  -- progress callback, advance
  let cb : Callback α :=
    { k := s.k, status := .Busy, it := curr, fbe := curr.fbe, gradPsiHat := us.2.1.gradPsi,
      q := if qValid then q else [], tau := tau, eps := eps }
  { curr := ls.next, next := curr, prox := us.2.1, q := q, qValid := qValid, d := us.2.2.1,
    tick := us.2.2.2.1 + 1, stats := stats, k := s.k + 1, noProgress := noProgress,
    cbs := cb :: s.cbs, fuelOut := s.fuelOut || ls.fuelOut }

/-- The main `while (true)` loop; `fuel` bounds the number of passes of the model
    (`max_iter + 2` suffices for a monotone stop flag: the chain is never `Busy` at
    `k = max_iter`, and a pass that does not advance `k` is followed by an exit). -/
def mainLoop (P : Problem α) (dir : Direction D α) (pr : Params α) (stop : Nat → Bool) (oot : Bool)
    (x0 y Sig errz0 : Vec α) : Nat → St α D → Result α D
  | 0, s => { (exitBlock pr s s.stats.eps .Exception x0 y Sig errz0) with fuelOut := true }
  | fuel + 1, s =>
    let h := headStep P pr stop oot s
    if h.2.2 != .Busy then exitBlock pr h.1 h.2.1 h.2.2 x0 y Sig errz0
    else mainLoop P dir pr stop oot x0 y Sig errz0 fuel (iterBody P dir pr stop h.1 h.2.1)

/-- The initial `while (curr->L < L_max && qub_violated(*curr))` loop.
    Returns (iterate, tick, number of backtracks, fuel exhausted). -/
def initQub (P : Problem α) (pr : Params α) (stop : Nat → Bool) :
    Nat → Iterate α → Nat → Nat → Iterate α × Nat × Nat × Bool
  | 0, c, t, b => (c, t, b, true)
  | f + 1, c, t, b =>
    -- `while (!stop_signal.stop_requested() && curr->L < L_max && qub_violated(*curr))`
    if stop t then (c, t, b, false) else
    if decide (c.L < pr.Lmax) && qubViolated pr c then
      initQub P pr stop f
        (evalCostInProx P (evalProxGradStep P { c with gamma := c.gamma / 2, L := c.L * 2 }))
        (t + 2) (b + 1)
    else (c, t, b, false)

def blankIterate (garbageV : Vec α) (garbageS : α) : Iterate α :=
  { x := garbageV, xhat := garbageV, gradPsi := garbageV,
    p := garbageV, yhat := garbageV, psix := garbageS, psixhat := garbageS,
    gamma := garbageS, L := garbageS, pTp := garbageS, gradPsiTp := garbageS, hxhat := garbageS }

def blankProx (garbageV : Vec α) (garbageS : α) : ProxIterate α :=
  { xhat := garbageV, gradPsi := garbageV, p := garbageV, pTp := garbageS, gradPsiTp := garbageS,
    hxhat := garbageS }

def stats0 (garbageS : α) : Stats α :=
  { eps := garbageS, sumTau := 0, finalGamma := 0, finalPsi := 0, finalH := 0, finalFbe := 0 }

/-- Lipschitz estimate (or `L_0`) with `ψ(x₀)`, `∇ψ(x₀)`.
    Returns (curr, next, ticks). -/
def initLipschitz (P : Problem α) (pr : Params α) (x0 : Vec α) (garbageV : Vec α) (garbageS : α) :
    Iterate α × Iterate α × Nat :=
  let blank := blankIterate garbageV garbageS
  let curr := { blank with x := x0 }
  if pr.L0 ≤ 0 then
    let r := initialLipschitz P pr curr.x
    -- work_x = curr->x̂, work_grad_ψ = next->grad_ψ
    ({ curr with L := r.1, psix := r.2.1, gradPsi := r.2.2.1, xhat := r.2.2.2.1 },
     { blank with gradPsi := r.2.2.2.2 }, 2)
  else
    (evalPsiGradPsi P { curr with L := pr.L0 }, blank, 1)

/-- Everything before the main loop: Lipschitz estimate, first proximal-gradient step, initial
    quadratic-upper-bound backtracking.  `Sum.inl ticks` = early `NotFinite` return. -/
def initState (P : Problem α) (d0 : D) (pr : Params α) (stop : Nat → Bool) (x0 : Vec α) (garbageV : Vec α)
    (garbageS : α) : Nat ⊕ St α D :=
  let cnt := initLipschitz P pr x0 garbageV garbageS
  if !RealLike.isFinite cnt.1.L then .inl cnt.2.2
  else
  let curr := { cnt.1 with gamma := pr.LgammaFactor / cnt.1.L }
  -- First proximal gradient step, then the quadratic upper bound loop
  let r := initQub P pr stop pr.lsFuel (evalCostInProx P (evalProxGradStep P curr)) (cnt.2.2 + 2) 0
  .inr { curr := r.1, next := cnt.2.1, prox := blankProx garbageV garbageS, q := garbageV, d := d0,
         tick := r.2.1,
         stats := { stats0 garbageS with stepsizeBacktracks := r.2.2.1 }, k := 0, noProgress := 0,
         cbs := [], fuelOut := r.2.2.2 }

/-- `ZeroFPRSolver::operator()`. `garbage*` is the arbitrary content of never-written storage,
    `infS` the value `inf<config_t>` that `Stats::ε` is initialised with (returned unchanged by the
    early `NotFinite` exit; the driver passes `1.0/0.0`). -/
def run (P : Problem α) (dir : Direction D α) (d0 : D) (pr : Params α) (stop : Nat → Bool)
    (oot : Bool) (x0 y Sig errz0 : Vec α) (garbageV : Vec α) (garbageS : α) (infS : α) : Result α D :=
  match initState P d0 pr stop x0 garbageV garbageS with
  | .inl ticks =>
    { stats := { stats0 garbageS with status := .NotFinite, eps := infS }, dfinal := d0, x := x0, y := y,
      errz := errz0, wrote := false, callbacks := [], ticks := ticks, final := none }
  | .inr s => mainLoop P dir pr stop oot x0 y Sig errz0 (pr.maxIter + 2) s

end
end Alpaqa.Zerofpr
