/-
  Line protocol shared by all drivers (core Lean only).

  A line is a list of space-separated tokens. Doubles cross as 16 lower-case hex digits of
  their IEEE-754 bit pattern (never as decimal text); vectors as `n t1 … tn`.
-/
import Alpaqa.Model.Vec

namespace Alpaqa.Proto

def hexDigit? (c : Char) : Option UInt64 :=
  if '0' ≤ c ∧ c ≤ '9' then some (c.toNat - '0'.toNat).toUInt64
  else if 'a' ≤ c ∧ c ≤ 'f' then some (c.toNat - 'a'.toNat + 10).toUInt64
  else if 'A' ≤ c ∧ c ≤ 'F' then some (c.toNat - 'A'.toNat + 10).toUInt64
  else none

def parseHex64? (s : String) : Option UInt64 :=
  if s.length = 0 ∨ s.length > 16 then none
  else s.toList.foldl (fun acc c => do
    let a ← acc; let d ← hexDigit? c; pure (a * 16 + d)) (some 0)

def parseF? (s : String) : Option Float := (parseHex64? s).map Float.ofBits

def hexChar (d : UInt64) : Char :=
  if d < 10 then Char.ofNat ('0'.toNat + d.toNat) else Char.ofNat ('a'.toNat + d.toNat - 10)

def toHex64 (u : UInt64) : String :=
  String.ofList ((List.range 16).map fun i => hexChar ((u >>> (4 * (15 - i)).toUInt64) &&& 0xf))

/-- Canonical print: all NaNs print as the same token (payload and sign of NaN are not
    specified by IEEE arithmetic and differ between libm and Lean's runtime). -/
def fmtF (x : Float) : String := if x.isNaN then "nan" else toHex64 x.toBits

def fmtV (v : List Float) : String :=
  String.intercalate " " (toString v.length :: v.map fmtF)

def tokens (line : String) : List String :=
  (line.trimAscii.toString.splitOn " ").filter (· ≠ "")

/-- Parser state: remaining tokens. -/
abbrev P := StateT (List String) Option

def tok : P String := do
  match (← get) with
  | [] => failure
  | t :: ts => set ts; pure t

def nat : P Nat := do let t ← tok; match t.toNat? with | some n => pure n | none => failure
def int : P Int := do let t ← tok; match t.toInt? with | some n => pure n | none => failure
def flt : P Float := do
  let t ← tok
  if t = "nan" then pure (0.0 / 0.0) else
  match parseF? t with | some f => pure f | none => failure
def vec : P (List Float) := do
  let n ← nat
  let rec go : Nat → List Float → P (List Float)
    | 0, acc => pure acc.reverse
    | k+1, acc => do let f ← flt; go k (f :: acc)
  go n []
def bool : P Bool := do let t ← tok; pure (t = "1" || t = "true")

def run {β} (p : P β) (ts : List String) : Option β := (p.run ts).map (·.1)

/-- `±inf` → `none`, finite → `some`. -/
def lbOf (x : Float) : Option Float := if x == (-1.0/0.0) then none else some x
def ubOf (x : Float) : Option Float := if x == (1.0/0.0) then none else some x

/-- Read stdin line by line, apply `step`, print its output line. -/
partial def loop {σ} (h : IO.FS.Stream) (step : σ → String → σ × String) (s : σ) : IO Unit := do
  let line ← h.getLine
  if line.isEmpty then return ()
  let (s', out) := step s line
  IO.println out
  loop h step s'

def mainLoop {σ} (step : σ → String → σ × String) (init : σ) : IO Unit := do
  loop (← IO.getStdin) step init

end Alpaqa.Proto
