/-
  Loop model of `PANTRSolver::operator()` (pantr.tpp), statement by statement.

  * problem functions are pure oracles (`Problem α`: y, Σ are closed over);
  * the trust-region direction provider is an arbitrary state machine (`Direction D α`;
    `apply(γ, x, x̂, p, ∇ψ, radius, q) ↦ (q_model, q)`);
  * `stop : Nat → Bool` is the stop flag as a function of the *tick* (number of events so far:
    problem evaluations made by the solver, direction calls incl. `has_initial_direction`, progress
    callbacks), `oot` the time-limit oracle;
  * decision kernels are the translator-generated ones: `pantr_fbe`, `pantr_qubViolated`,
    `pantr_candidateRatio`, `pantr_updatedRadius` (`Gen.C05`), `statusChain`,
    `calcErrorStopCrit`, `requiresGradHat` (`Gen.C06`).

  Aliasing that exists in the C++ is modelled: the three `Iterate`s `curr / prox / cand` are records
  that are swapped (`std::swap(curr, cand)`, `std::swap(curr, prox)`), the solver-level buffer
  `grad_ψx̂` is swapped with `prox->grad_ψ` in `compute_FBS_step`, the Lipschitz estimate borrows
  `curr->x̂` and `cand->grad_ψ` as workspaces.  Never-written *vector* storage has the arbitrary
  content `garbageV`; the scalar members of `Iterate` are initialised to `NaN` by the C++
  (`consts.nan`).

  Not modelled (and why it cannot become visible): `calc_error_stop_crit` uses `cand->p` as its
  second workspace (`ProjGradUnitNorm*`, `Ipopt`, `LBFGSBpp`).  `cand->p` is read only by
  `direction.update` on the accept path, after `eval_prox_grad_step(*cand)` in
  `compute_candidate_fbe` has rewritten it; an iterate that becomes `cand` through
  `std::swap(curr, cand)` is dead until that same rewrite.  `work_n`, `work_m` are never read.
  A direction provider that throws (NewtonTR: non-finite / tiny radius, missing Hessian products)
  leaves the solver by stack unwinding before any output is written; such runs are outside the
  model.

  PANTR-specific facts the model makes explicit:
  * `no_progress` is declared, passed to the status chain, and *never updated* — it is the
    constant 0, so `NoProgress` is unreachable and `max_no_progress` has no effect;
  * there is no line-search loop: the flag is polled by the status chain at the loop head and by
    the condition of `backtrack_qub` (initial and in-iteration step-size backtracking);
  * the `grad_ψ_hat` handed to the `Busy` callback is the buffer *after* the swap of
    `compute_FBS_step`, i.e. the previous content of `prox->grad_ψ`, not `∇ψ(x̂ₖ)`.

  Executed at `Float` by `Driver/LoopPantr.lean` against recorded traces of the real solver
  (bit-exact replay of every callback field, the returned x / y / err_z, the statistics and the
  number of events); theorems are in `Props/C03_Pantr.lean`, `C05_Pantr`, `C06_Pantr`, `C19_Pantr`.
-/
import Alpaqa.Model.Vec
import Alpaqa.Gen.C05
import Alpaqa.Gen.C06

namespace Alpaqa.Pantr
open Alpaqa Alpaqa.Gen

/-- Problem oracles with `y`, `Σ` fixed. -/
structure Problem (α : Type) where
  /-- `eval_ψ_grad_ψ(x, y, Σ, grad, work_n, work_m)` ↦ `(ψ, grad, work_m)` -/
  psiGradPsi : Vec α → α × Vec α × Vec α
  /-- `eval_ψ(x̂, y, Σ, ŷ)` ↦ `(ψ, ŷ)` -/
  psi : Vec α → α × Vec α
  /-- `eval_grad_ψ(x, y, Σ, grad, work_n, work_m)` ↦ `grad` -/
  gradPsi : Vec α → Vec α
  /-- `eval_grad_L(x̂, ŷ, grad, work_n)` ↦ `grad` -/
  gradL : Vec α → Vec α → Vec α
  /-- `eval_prox_grad_step(γ, x, grad_ψ, x̂, p)` ↦ `(h(x̂), x̂, p)` -/
  prox : α → Vec α → Vec α → α × Vec α × Vec α

/-- Trust-region direction provider as a state machine over an arbitrary state `D`. -/
structure Direction (D α : Type) where
  init : D → α → Vec α → Vec α → Vec α → Vec α → D
  hasInitial : D → Bool
  /-- `apply(γ, x, x̂, p, grad_ψ, radius, q)` ↦ (new state, `q_model`, content of `q` afterwards);
      the previous content of `q` is passed in because a provider may leave (part of) it. -/
  apply : D → α → Vec α → Vec α → Vec α → Vec α → α → Vec α → D × α × Vec α
  update : D → α → α → Vec α → Vec α → Vec α → Vec α → Vec α → Vec α → D × Bool
  changedGamma : D → α → α → D
  reset : D → D

structure Params (α : Type) where
  L0 : α
  lipEps : α
  lipDelta : α
  LgammaFactor : α
  maxIter : Nat
  Lmin : α
  Lmax : α
  stopCrit : PANOCStopCrit
  maxNoProgress : Nat
  qubTol : α
  trTol : α
  ratioThresholdAcceptable : α
  ratioThresholdGood : α
  radiusFactorRejected : α
  radiusFactorAcceptable : α
  radiusFactorGood : α
  initialRadius : α
  minRadius : α
  computeRatioUsingNewStepsize : Bool
  updateDirectionOnProxStep : Bool
  recomputeLastProx : Bool
  disableAcceleration : Bool
  ratioApproxFbe : Bool
  /-- `InnerSolveOptions` -/
  alwaysOverwrite : Bool
  tolerance : α
  /-- fuel for `backtrack_qub`, the ONLY inner loop of pantr.tpp (the C++ loop has none; it ends
      because `L` doubles until `L ≥ L_max`).  `Proofs/PantrFuel.lean: pantr_fuel_suffices` proves over
      an ordered field that it never runs out when `L_max ≤ L_init·2ᴺ` and `N < qubFuel`
      (`FuelOK`; e.g. `N = 84` for `L_min = 1e-5`, `L_max = 1e20`), for every stop schedule; the replay
      driver asserts it on every recorded run. -/
  qubFuel : Nat := 4096

/-- The special values `inf<config_t>` and `NaN<config_t>` the C++ writes (initial `Stats::ε`,
    failed trust-region step; initial `ρ`, scalar members of a fresh `Iterate`, `Δ`/`ρ` of the
    final callback). -/
structure Consts (α : Type) where
  inf : α
  nan : α

structure Iterate (α : Type) where
  x : Vec α
  xhat : Vec α
  gradPsi : Vec α
  p : Vec α
  yhat : Vec α
  psix : α
  psixhat : α
  gamma : α
  L : α
  pTp : α
  gradPsiTp : α
  hxhat : α

structure Stats (α : Type) where
  status : SolverStatus := .Busy
  eps : α
  iterations : Nat := 0
  acceleratedStepRejected : Nat := 0
  stepsizeBacktracks : Nat := 0
  directionFailures : Nat := 0
  directionUpdateRejected : Nat := 0
  finalGamma : α
  finalPsi : α
  finalH : α
  finalFbe : α

/-- What the progress callback is handed. -/
structure Callback (α : Type) where
  k : Nat
  status : SolverStatus
  it : Iterate α
  fbe : α
  gradPsiHat : Vec α
  q : Vec α
  Delta : α
  rho : α
  tau : α
  eps : α

structure Result (α D : Type) where
  stats : Stats α
  /-- direction state at exit -/
  dfinal : D
  x : Vec α
  y : Vec α
  errz : Vec α
  /-- were x, y, err_z overwritten? -/
  wrote : Bool
  callbacks : List (Callback α)
  ticks : Nat
  /-- the iterate that was current at exit -/
  final : Option (Iterate α)
  /-- a `backtrack_qub` loop ran out of model fuel (never on replayed runs) -/
  fuelOut : Bool := false

section
variable {α D : Type} [Add α] [Sub α] [Mul α] [Div α] [Neg α] [LT α] [LE α] [DecidableLT α]
  [DecidableLE α] [BEq α] [RealLike α] [NatCast α] [OfScientific α]
  [OfNat α 0] [OfNat α 1] [OfNat α 2] [OfNat α 100]

def Iterate.fbe (i : Iterate α) : α := pantr_fbe i.psix i.hxhat i.pTp i.gamma i.gradPsiTp

def qubViolated (pr : Params α) (i : Iterate α) : Bool :=
  pantr_qubViolated pr.qubTol i.psix i.psixhat i.gradPsiTp i.L i.pTp

/-- `eval_ψ_grad_ψ(i)` -/
def evalPsiGradPsi (P : Problem α) (i : Iterate α) : Iterate α :=
  let r := P.psiGradPsi i.x
  { i with psix := r.1, gradPsi := r.2.1 }

/-- `eval_prox_grad_step(i)` -/
def evalProxGradStep (P : Problem α) (i : Iterate α) : Iterate α :=
  let r := P.prox i.gamma i.x i.gradPsi
  let p := r.2.2
  { i with hxhat := r.1, xhat := r.2.1, p := p, pTp := sqNorm p, gradPsiTp := dot p i.gradPsi }

/-- `eval_ψx̂(i)` -/
def evalPsiHat (P : Problem α) (i : Iterate α) : Iterate α :=
  let r := P.psi i.xhat
  { i with psixhat := r.1, yhat := r.2 }

/-- `Helpers::initial_lipschitz_estimate` (the overload that also returns ψ, ∇ψ).
    Returns `(L, ψ, ∇ψ, work_x, work_grad_ψ)`. -/
def initialLipschitz (P : Problem α) (pr : Params α) (x : Vec α) : α × α × Vec α × Vec α × Vec α :=
  let r := P.psiGradPsi x
  let g := r.2.1
  let h := g.map fun gi =>
    if gi > 0 then emax (pr.lipEps * gi) pr.lipDelta else emin (pr.lipEps * gi) (-pr.lipDelta)
  let wx := vsub x h
  let normh := norm2 h
  let wg := P.gradPsi wx
  let L := norm2 (vsub wg g) / normh
  (eclamp L pr.Lmin pr.Lmax, r.1, g, wx, wg)

/-- One pass of the body of `backtrack_qub`: `γ /= 2; L *= 2; eval_prox_grad_step; eval_ψx̂`. -/
def backtrackStep (P : Problem α) (i : Iterate α) : Iterate α :=
  evalPsiHat P (evalProxGradStep P { i with gamma := i.gamma / 2, L := i.L * 2 })

/-- `backtrack_qub(i)`: `while (!stop_signal.stop_requested() && i.L < L_max && qub_violated(i))
    { … ++s.stepsize_backtracks; }` — the flag is polled first, at the tick the condition is tested.
    Returns (iterate, tick, number of backtracks, fuel exhausted). -/
def backtrackQub (P : Problem α) (pr : Params α) (stop : Nat → Bool) :
    Nat → Iterate α → Nat → Nat → Iterate α × Nat × Nat × Bool
  | 0, c, t, b => (c, t, b, true)
  | f + 1, c, t, b =>
    if stop t then (c, t, b, false) else
    if decide (c.L < pr.Lmax) && qubViolated pr c then
      backtrackQub P pr stop f (backtrackStep P c) (t + 2) (b + 1)
    else (c, t, b, false)

/-- State threaded through one solve. -/
structure St (α D : Type) where
  curr : Iterate α
  prox : Iterate α
  cand : Iterate α
  /-- the solver-level buffer `grad_ψx̂` -/
  gradPsiHat : Vec α
  q : Vec α
  d : D
  tick : Nat
  stats : Stats α
  k : Nat
  /-- `accept_candidate` -/
  accept : Bool
  /-- trust radius `Δ` -/
  Delta : α
  /-- reduction ratio `ρ` -/
  rho : α
  cbs : List (Callback α)
  fuelOut : Bool := false

def statusOf (pr : Params α) (k : Nat) (eps : α) (oot intr : Bool) : SolverStatus :=
  -- `no_progress` is never updated by pantr.tpp: the chain always sees 0
  statusChain pr.tolerance pr.maxIter pr.maxNoProgress k eps 0 oot intr

def epsOf (P : Problem α) (pr : Params α) (c : Iterate α) (gradPsiHat : Vec α) : α :=
  calcErrorStopCrit pr.stopCrit (fun g x gr => let r := P.prox g x gr; (r.2.1, r.2.2))
    c.p c.gamma c.x c.xhat c.yhat c.gradPsi gradPsiHat

/-- number of oracle calls `calc_error_stop_crit` makes -/
def epsTicks (c : PANOCStopCrit) : Nat :=
  match c with
  | .ProjGradUnitNorm | .ProjGradUnitNorm2 | .Ipopt | .LBFGSBpp => 1
  | _ => 0

def boolToScalar (b : Bool) : α := if b then 1 else 0

/-- Exit block: final callback, write-back of x, y, err_z, statistics. -/
def exitBlock (co : Consts α) (pr : Params α) (s : St α D) (eps : α) (status : SolverStatus)
    (x0 y Sig : Vec α) (errz0 : Vec α) : Result α D :=
  let c := s.curr
  let cb : Callback α :=
    { k := s.k, status := status, it := c, fbe := c.fbe, gradPsiHat := s.gradPsiHat, q := [],
      Delta := co.nan, rho := co.nan, tau := boolToScalar s.accept, eps := eps }
  let write := status == .Converged || status == .Interrupted || pr.alwaysOverwrite
  let errz := if write then (if errz0.length > 0 then vdiv (vsub c.yhat y) Sig else errz0) else errz0
  let st : Stats α :=
    { s.stats with iterations := s.k, eps := eps, status := status,
                   finalGamma := c.gamma, finalPsi := c.psixhat, finalH := c.hxhat,
                   finalFbe := c.fbe }
  { stats := st, dfinal := s.d, x := if write then c.xhat else x0, y := if write then c.yhat else y,
    errz := errz, wrote := write, callbacks := (cb :: s.cbs).reverse, ticks := s.tick + 1,
    final := some c, fuelOut := s.fuelOut }

/-- Top of the loop: `∇ψ(x̂ₖ)` if the criterion needs it, `εₖ`, the stop status. -/
def headStep (P : Problem α) (pr : Params α) (stop : Nat → Bool) (oot : Bool) (s : St α D) :
    St α D × α × SolverStatus :=
  let need := requiresGradHat pr.stopCrit
  let gt := if need then (P.gradL s.curr.xhat s.curr.yhat, s.tick + 1) else (s.gradPsiHat, s.tick)
  let eps := epsOf P pr s.curr gt.1
  let s' : St α D := { s with gradPsiHat := gt.1, tick := gt.2 + epsTicks pr.stopCrit }
  (s', eps, statusOf pr s'.k eps oot (stop s'.tick))

/-- `compute_FBS_step()`: `∇ψ(x̂ₖ)` unless the head already has it, then
    `prox->x = curr->x̂; prox->ψx = curr->ψx̂; prox->grad_ψ.swap(grad_ψx̂); prox->γ = curr->γ;
     prox->L = curr->L; eval_ψ_grad_ψ(*prox); eval_prox_grad_step(*prox);`.
    Returns (prox, grad_ψx̂ buffer, tick). -/
def fbsStep (P : Problem α) (pr : Params α) (s : St α D) : Iterate α × Vec α × Nat :=
  let gt := if requiresGradHat pr.stopCrit then (s.gradPsiHat, s.tick)
            else (P.gradL s.curr.xhat s.curr.yhat, s.tick + 1)
  let prox0 : Iterate α :=
    { s.prox with x := s.curr.xhat, psix := s.curr.psixhat, gradPsi := gt.1,
                  gamma := s.curr.gamma, L := s.curr.L }
  (evalProxGradStep P (evalPsiGradPsi P prox0), s.prox.gradPsi, gt.2 + 2)

/-- `compute_trust_region_step(q, Δ)`: `direction.apply`, validity checks, `direction.reset()`.
    Returns (direction state, tick, q, q_model as seen by the caller, direction_failures increment). -/
def trustRegionStep (co : Consts α) (dir : Direction D α) (d : D) (tick : Nat) (prox : Iterate α)
    (Delta : α) (q : Vec α) : D × Nat × Vec α × α × Nat :=
  let r := dir.apply d prox.gamma prox.x prox.xhat prox.p prox.gradPsi Delta q
  if !vallFinite r.2.2 then (dir.reset r.1, tick + 2, r.2.2, co.inf, 1)
  else if r.2.1 ≥ 0 then (dir.reset r.1, tick + 2, r.2.2, r.2.1, 1)
  else (r.1, tick + 1, r.2.2, r.2.1, 0)

/-- `compute_candidate_fbe(q)`.  Returns (cand, tick, backtracks, fuel exhausted). -/
def candidateFbe (P : Problem α) (pr : Params α) (stop : Nat → Bool) (prox cand : Iterate α)
    (q : Vec α) (tick : Nat) : Iterate α × Nat × Nat × Bool :=
  let c1 := evalPsiGradPsi P { cand with x := vadd prox.x q }
  let c2 := evalProxGradStep P { c1 with gamma := prox.gamma, L := prox.L }
  if pr.computeRatioUsingNewStepsize then
    backtrackQub P pr stop pr.qubFuel (evalPsiHat P c2) (tick + 3) 0
  else (c2, tick + 2, 0, false)

/-- `compute_candidate_ratio(q_model)` -/
def candidateRatio (pr : Params α) (prox cand : Iterate α) (qModel : α) : α :=
  pantr_candidateRatio qModel pr.trTol pr.ratioApproxFbe pr.LgammaFactor
    prox.psix prox.hxhat prox.pTp prox.gamma prox.gradPsiTp
    cand.psix cand.hxhat cand.pTp cand.gamma cand.gradPsiTp

/-- `std::fmax(compute_updated_radius(q, ρ, Δ), params.min_radius)` -/
def updatedRadius (pr : Params α) (q : Vec α) (rho Delta : α) : α :=
  fmaxS (pantr_updatedRadius rho Delta (norm2 q) pr.ratioThresholdGood pr.ratioThresholdAcceptable
    pr.radiusFactorGood pr.radiusFactorAcceptable pr.radiusFactorRejected) pr.minRadius

/-- Working state between the stages of one iteration. -/
structure Mid (α D : Type) where
  curr : Iterate α
  prox : Iterate α
  cand : Iterate α
  gradPsiHat : Vec α
  q : Vec α
  d : D
  tick : Nat
  accept : Bool
  accelerated : Bool
  Delta : α
  rho : α
  failures : Nat
  backtracks : Nat
  fuelOut : Bool

/-- `direction.initialize` at `k = 0` and `accelerated_iteration = k > 0 ||
    direction.has_initial_direction()` (short-circuit: the provider is asked only at `k = 0`).
    Returns (direction state, accelerated, tick). -/
def dirInit (dir : Direction D α) (s : St α D) (prox : Iterate α) (tick : Nat) : D × Bool × Nat :=
  let dt := if s.k == 0 then
      (dir.init s.d prox.gamma prox.x prox.xhat prox.p prox.gradPsi, tick + 1)
    else (s.d, tick)
  (dt.1, decide (s.k > 0) || dir.hasInitial dt.1, if s.k == 0 then dt.2 + 1 else dt.2)

/-- The body of `if (accelerated_iteration && !params.disable_acceleration)`: the trust-region
    step and — if the model value is negative — the candidate, ratio, acceptance decision and
    radius update. -/
def trAttempt (co : Consts α) (P : Problem α) (dir : Direction D α) (pr : Params α)
    (stop : Nat → Bool) (b : Mid α D) : Mid α D :=
  let tr := trustRegionStep co dir b.d b.tick b.prox b.Delta b.q
  let q := tr.2.2.1
  let qModel := tr.2.2.2.1
  if qModel < 0 then
    let cf := candidateFbe P pr stop b.prox b.cand q tr.2.1
    let rho := candidateRatio pr b.prox cf.1 qModel
    { b with cand := cf.1, q := q, d := tr.1, tick := cf.2.1,
             accept := decide (rho ≥ pr.ratioThresholdAcceptable),
             Delta := updatedRadius pr q rho b.Delta, rho := rho, failures := tr.2.2.2.2,
             backtracks := cf.2.2.1, fuelOut := cf.2.2.2 }
  else { b with q := q, d := tr.1, tick := tr.2.1, failures := tr.2.2.2.2 }

/-- From the FBS step to just before the progress callback: `compute_FBS_step`,
    `direction.initialize` at `k = 0`, `has_initial_direction`, the trust-region attempt
    (`accept_candidate = false` otherwise). -/
def trStage (co : Consts α) (P : Problem α) (dir : Direction D α) (pr : Params α)
    (stop : Nat → Bool) (s : St α D) : Mid α D :=
  let fb := fbsStep P pr s
  let di := dirInit dir s fb.1 fb.2.2
  let base : Mid α D :=
    { curr := s.curr, prox := fb.1, cand := s.cand, gradPsiHat := fb.2.1, q := s.q, d := di.1,
      tick := di.2.2, accept := false, accelerated := di.2.1, Delta := s.Delta, rho := s.rho,
      failures := 0, backtracks := 0, fuelOut := false }
  if di.2.1 && !pr.disableAcceleration then trAttempt co P dir pr stop base else base

/-- Result of the accept / reject stage: the three iterates after the pointer swap, direction
    state, tick, backtracks, `direction_update_rejected` increment, fuel flag. -/
structure Fin (α D : Type) where
  curr : Iterate α
  prox : Iterate α
  cand : Iterate α
  d : D
  tick : Nat
  backtracks : Nat
  updRejected : Nat
  fuelOut : Bool

/-- "Accept TR step" (`t0` = tick after the progress callback): QUB in the candidate (unless done already), flush on a step-size change,
    `direction.update`, `std::swap(curr, cand)`. -/
def acceptStage (P : Problem α) (dir : Direction D α) (pr : Params α) (stop : Nat → Bool)
    (m : Mid α D) (t0 : Nat) : Fin α D :=
  let cb : Iterate α × Nat × Nat × Bool :=
    if !pr.computeRatioUsingNewStepsize then
      backtrackQub P pr stop pr.qubFuel (evalPsiHat P m.cand) (t0 + 1) 0
    else (m.cand, t0, 0, false)
  let cand := cb.1
  let pdt : Iterate α × D × Nat :=
    if m.prox.gamma != cand.gamma then
      let d := dir.changedGamma m.d cand.gamma m.prox.gamma
      if pr.recomputeLastProx then
        (evalProxGradStep P { m.prox with gamma := cand.gamma, L := cand.L }, d, cb.2.1 + 2)
      else (m.prox, d, cb.2.1 + 1)
    else (m.prox, m.d, cb.2.1)
  let prox := pdt.1
  let r := dir.update pdt.2.1 prox.gamma cand.gamma prox.x cand.x prox.p cand.p prox.gradPsi cand.gradPsi
  -- std::swap(curr, cand)
  { curr := cand, prox := prox, cand := m.curr, d := r.1, tick := pdt.2.2 + 1,
    backtracks := cb.2.2.1, updRejected := if r.2 then 0 else 1, fuelOut := cb.2.2.2 }

/-- "Fall back to proximal gradient step" (`t0` = tick after the progress callback): QUB in `x̂ₖ`, flush on a step-size change, optional
    `direction.update`, `std::swap(curr, prox)`. -/
def rejectStage (P : Problem α) (dir : Direction D α) (pr : Params α) (stop : Nat → Bool)
    (m : Mid α D) (t0 : Nat) : Fin α D :=
  let pb := backtrackQub P pr stop pr.qubFuel (evalPsiHat P m.prox) (t0 + 1) 0
  let prox := pb.1
  let cdt : Iterate α × D × Nat :=
    if prox.gamma != m.curr.gamma then
      let d := dir.changedGamma m.d prox.gamma m.curr.gamma
      if pr.recomputeLastProx then
        (evalProxGradStep P { m.curr with gamma := prox.gamma, L := prox.L }, d, pb.2.1 + 2)
      else (m.curr, d, pb.2.1 + 1)
    else (m.curr, m.d, pb.2.1)
  let curr := cdt.1
  let udt : D × Nat × Nat :=
    if pr.updateDirectionOnProxStep then
      let r := dir.update cdt.2.1 curr.gamma prox.gamma curr.x prox.x curr.p prox.p curr.gradPsi
                 prox.gradPsi
      (r.1, cdt.2.2 + 1, if r.2 then 0 else 1)
    else (cdt.2.1, cdt.2.2, 0)
  -- std::swap(curr, prox)
  { curr := prox, prox := curr, cand := m.cand, d := udt.1, tick := udt.2.1,
    backtracks := pb.2.2.1, updRejected := udt.2.2, fuelOut := pb.2.2.2 }

/-- One iteration of the main loop after a `Busy` status. -/
def iterBody (co : Consts α) (P : Problem α) (dir : Direction D α) (pr : Params α)
    (stop : Nat → Bool) (s : St α D) (eps : α) : St α D :=
  let m := trStage co P dir pr stop s
  -- Progress callback (one event)
  let cb : Callback α :=
    { k := s.k, status := .Busy, it := m.curr, fbe := m.curr.fbe, gradPsiHat := m.gradPsiHat, q := m.q,
      Delta := m.Delta, rho := m.rho, tau := boolToScalar m.accept, eps := eps }
  let f := if m.accept then acceptStage P dir pr stop m (m.tick + 1)
           else rejectStage P dir pr stop m (m.tick + 1)
  let stats : Stats α :=
    { s.stats with
      directionFailures := s.stats.directionFailures + m.failures,
      stepsizeBacktracks := s.stats.stepsizeBacktracks + m.backtracks + f.backtracks,
      directionUpdateRejected := s.stats.directionUpdateRejected + f.updRejected,
      acceleratedStepRejected := s.stats.acceleratedStepRejected +
        (if !m.accept && m.accelerated then 1 else 0) }
  { curr := f.curr, prox := f.prox, cand := f.cand, gradPsiHat := m.gradPsiHat, q := m.q, d := f.d,
    tick := f.tick, stats := stats, k := s.k + 1, accept := m.accept, Delta := m.Delta, rho := m.rho,
    cbs := cb :: s.cbs, fuelOut := s.fuelOut || m.fuelOut || f.fuelOut }

/-- The main `while (true)` loop; `fuel` bounds the number of passes of the model.
    `max_iter + 1` (what `run` passes) suffices UNCONDITIONALLY — any carrier, any stop schedule:
    pantr.tpp has no retry loop inside an iteration (one trust-region attempt; a rejected candidate
    falls back to the forward-backward step) and never `continue`s, so every pass that does not exit
    advances `k`, and the chain is never `Busy` at `k = max_iter`
    (`Proofs/PantrInv.lean: mainLoop_exit_at_head`: every return is a head exit; the `Exception` /
    `fuelOut := true` branch below is unreachable from `run`). -/
def mainLoop (co : Consts α) (P : Problem α) (dir : Direction D α) (pr : Params α)
    (stop : Nat → Bool) (oot : Bool) (x0 y Sig errz0 : Vec α) : Nat → St α D → Result α D
  | 0, s => { (exitBlock co pr s s.stats.eps .Exception x0 y Sig errz0) with fuelOut := true }
  | fuel + 1, s =>
    let h := headStep P pr stop oot s
    if h.2.2 != .Busy then exitBlock co pr h.1 h.2.1 h.2.2 x0 y Sig errz0
    else mainLoop co P dir pr stop oot x0 y Sig errz0 fuel (iterBody co P dir pr stop h.1 h.2.1)

def blankIterate (co : Consts α) (garbageV : Vec α) : Iterate α :=
  { x := garbageV, xhat := garbageV, gradPsi := garbageV, p := garbageV, yhat := garbageV,
    psix := co.nan, psixhat := co.nan, gamma := co.nan, L := co.nan, pTp := co.nan,
    gradPsiTp := co.nan, hxhat := co.nan }

def stats0 (co : Consts α) : Stats α :=
  { eps := co.inf, finalGamma := 0, finalPsi := 0, finalH := 0, finalFbe := 0 }

/-- `Δ = params.initial_radius; if (!isfinite(Δ) || Δ == 0) Δ = 0.1·‖∇ψ(x₀)‖;
     Δ = fmax(Δ, params.min_radius)` -/
def initialRadius (pr : Params α) (gradPsi : Vec α) : α :=
  let d := pr.initialRadius
  let d := if !RealLike.isFinite d || d == 0 then (0.1 : α) * norm2 gradPsi else d
  fmaxS d pr.minRadius

/-- "Estimate Lipschitz constant": finite differences (`curr->x̂` and `cand->grad_ψ` are its
    workspaces) or the user's `L_0` with `eval_ψ_grad_ψ(*curr)`.  Returns (curr, cand, ticks). -/
def lipschitzStage (co : Consts α) (P : Problem α) (pr : Params α) (x0 : Vec α) (garbageV : Vec α) :
    Iterate α × Iterate α × Nat :=
  let blank := blankIterate co garbageV
  let curr := { blank with x := x0 }
  if pr.L0 ≤ 0 then
    let r := initialLipschitz P pr curr.x
    ({ curr with L := r.1, psix := r.2.1, gradPsi := r.2.2.1, xhat := r.2.2.2.1 },
     { blank with gradPsi := r.2.2.2.2 }, 2)
  else
    (evalPsiGradPsi P { curr with L := pr.L0 }, blank, 1)

/-- `curr->γ = Lγ_factor / curr->L; eval_prox_grad_step(*curr); eval_ψx̂(*curr);` -/
def firstStep (P : Problem α) (pr : Params α) (c : Iterate α) : Iterate α :=
  evalPsiHat P (evalProxGradStep P { c with gamma := pr.LgammaFactor / c.L })

/-- Everything before the main loop: Lipschitz estimate, first proximal-gradient step, initial
    quadratic-upper-bound backtracking, initial radius.  `Sum.inl ticks` = early `NotFinite`. -/
def initState (co : Consts α) (P : Problem α) (d0 : D) (pr : Params α) (stop : Nat → Bool)
    (x0 : Vec α) (garbageV : Vec α) : Nat ⊕ St α D :=
  let cnt := lipschitzStage co P pr x0 garbageV
  if !RealLike.isFinite cnt.1.L then .inl cnt.2.2
  else
  -- First proximal gradient step, then the quadratic upper bound loop
  let r := backtrackQub P pr stop pr.qubFuel (firstStep P pr cnt.1) (cnt.2.2 + 2) 0
  .inr { curr := r.1, prox := blankIterate co garbageV, cand := cnt.2.1, gradPsiHat := garbageV,
         q := garbageV, d := d0,
         tick := r.2.1, stats := { stats0 co with stepsizeBacktracks := r.2.2.1 }, k := 0,
         accept := false, Delta := initialRadius pr r.1.gradPsi, rho := co.nan, cbs := [],
         fuelOut := r.2.2.2 }

/-- `PANTRSolver::operator()`. `garbageV` is the arbitrary content of never-written vectors. -/
def run (co : Consts α) (P : Problem α) (dir : Direction D α) (d0 : D) (pr : Params α)
    (stop : Nat → Bool) (oot : Bool) (x0 y Sig errz0 : Vec α) (garbageV : Vec α) : Result α D :=
  match initState co P d0 pr stop x0 garbageV with
  | .inl ticks =>
    { stats := { stats0 co with status := .NotFinite }, dfinal := d0, x := x0, y := y,
      errz := errz0, wrote := false, callbacks := [], ticks := ticks, final := none }
  | .inr s => mainLoop co P dir pr stop oot x0 y Sig errz0 (pr.maxIter + 1) s

end
end Alpaqa.Pantr
