/-
  C14 — sparsity-format conversions (`alpaqa/problem/sparsity-conversions.hpp`).

  Core Lean only.  Two layers:

  * the **specification**: `Mat β` (dimensions + entry function) and `denote : Sparsity → values →
    Option (Mat β)` — what matrix a (pattern, value vector) pair *means*; `none` = not a valid
    representation (symmetric but non-square, entry in the wrong triangle, index out of range,
    malformed outer pointers / index vectors of different length, duplicate entries — the library
    `assert`s uniqueness);
  * the **model of the code**: one function per `SparsityConverter<From, To>` specialisation
    (constructor = pattern conversion or exception; `vals` = `convert_values`), written as the
    loops of the C++ and parameterised by the formulas regenerated from the source
    (`Alpaqa/Gen/C14.lean`: triangle tests, scatter targets, index offsets, loop conditions, nnz
    formulas, result flags, the feature macro that compiles converters out).

  Indices are unbounded `Int` (index-width casts are value preserving: no overflow is modelled; the
  index type is kept as a tag because two code paths branch on `is_same_v<From, To>`).
  Unchecked C++ accesses (Eigen under NDEBUG) that would leave the index vectors / the dense
  buffer are mapped to the pseudo-error `Err.ub`: the real code has undefined behaviour there, the
  harness never feeds such inputs and no theorem claims anything about the real code on them.
-/
import Alpaqa.Gen.C14

namespace Alpaqa.C14
open Alpaqa

/-! ### Formats -/

inductive Symmetry | unsym | upper | lower
  deriving DecidableEq, Repr, Inhabited

def Symmetry.code : Symmetry → Int
  | .unsym => 0 | .upper => 1 | .lower => 2

def Symmetry.ofCode? (i : Int) : Option Symmetry :=
  if i == 0 then some .unsym else if i == 1 then some .upper else if i == 2 then some .lower else none

inductive CscOrder | unsorted | sortedRows
  deriving DecidableEq, Repr, Inhabited

def CscOrder.code : CscOrder → Int
  | .unsorted => 0 | .sortedRows => 1

def CscOrder.ofCode (i : Int) : CscOrder := if i == 1 then .sortedRows else .unsorted

inductive CooOrder | unsorted | colsAndRows | colsOnly | rowsAndCols | rowsOnly
  deriving DecidableEq, Repr, Inhabited

def CooOrder.code : CooOrder → Int
  | .unsorted => 0 | .colsAndRows => 1 | .colsOnly => 2 | .rowsAndCols => 3 | .rowsOnly => 4

def CooOrder.ofCode (i : Int) : CooOrder :=
  if i == 1 then .colsAndRows else if i == 2 then .colsOnly else if i == 3 then .rowsAndCols
  else if i == 4 then .rowsOnly else .unsorted

/-- Storage index type (`int`, `long`, `long long`). -/
inductive IdxTy | int | long | longlong
  deriving DecidableEq, Repr, Inhabited

structure Dense where
  rows : Nat
  cols : Nat
  sym : Symmetry
  deriving DecidableEq, Repr

structure CSC where
  rows : Nat
  cols : Nat
  sym : Symmetry
  inner : List Int
  outer : List Int
  order : CscOrder
  ity : IdxTy
  deriving DecidableEq, Repr

structure COO where
  rows : Nat
  cols : Nat
  sym : Symmetry
  rowIdx : List Int
  colIdx : List Int
  order : CooOrder
  firstIndex : Int
  ity : IdxTy
  deriving DecidableEq, Repr

inductive Sparsity | dense (d : Dense) | csc (s : CSC) | coo (s : COO)
  deriving DecidableEq

def Sparsity.rows : Sparsity → Nat | .dense d => d.rows | .csc s => s.rows | .coo s => s.rows
def Sparsity.cols : Sparsity → Nat | .dense d => d.cols | .csc s => s.cols | .coo s => s.cols
def Sparsity.sym : Sparsity → Symmetry | .dense d => d.sym | .csc s => s.sym | .coo s => s.sym

/-- Number of values of a representation (`get_nnz`). -/
def Sparsity.nnz : Sparsity → Nat
  | .dense d => d.rows * d.cols | .csc s => s.inner.length | .coo s => s.rowIdx.length

inductive Target | dense | csc (ity : IdxTy) | coo (ity : IdxTy)
  deriving DecidableEq, Repr

/-- `SparsityConversionRequest<To>`: `first_index` is read by COO targets, `order` by CSC targets. -/
structure Request where
  firstIndex : Option Int := none
  order : Option CscOrder := none
  deriving DecidableEq, Repr

inductive Err
  | invalidArgument   -- std::invalid_argument
  | runtimeError      -- std::runtime_error
  | other             -- any other exception type
  | ub                -- the C++ has undefined behaviour here (unchecked access); see file header
  | notModelled       -- a code path this build does not compile (feature macro true)
  deriving DecidableEq, Repr

def Err.ofName (s : String) : Err :=
  if s == "invalid_argument" then .invalidArgument
  else if s == "runtime_error" then .runtimeError else .other

/-! ### Specification: the matrix denoted by a representation -/

structure Mat (β : Type) where
  rows : Nat
  cols : Nat
  get : Nat → Nat → β

def inBounds (rows cols : Nat) (e : Int × Int) : Bool :=
  decide (0 ≤ e.1) && decide (e.1 < (rows : Int)) && decide (0 ≤ e.2) && decide (e.2 < (cols : Int))

def triangleOk : Symmetry → Int × Int → Bool
  | .unsym, _ => true
  | .upper, e => decide (e.1 ≤ e.2)
  | .lower, e => decide (e.2 ≤ e.1)

/-- Stored entry `e = (row, col)` supplies cell `(i, j)` (directly, or mirrored when symmetric). -/
def hits (sym : Symmetry) (i j : Nat) (e : Int × Int) : Bool :=
  (e.1 == (i : Int) && e.2 == (j : Int)) ||
    (decide (sym ≠ .unsym) && e.1 == (j : Int) && e.2 == (i : Int))

section spec
variable {β : Type}

/-- Value of cell `(i, j)`: that of the (first) stored entry supplying it, else zero. -/
def lookup (z : β) (sym : Symmetry) (es : List (Int × Int)) (v : List β) (i j : Nat) : β :=
  match es.findIdx? (hits sym i j) with
  | some l => v.getD l z
  | none => z

/-- The `rows × cols` matrix whose cells are given by `lookup` (zero outside). -/
def lookupMat (z : β) (rows cols : Nat) (sym : Symmetry) (es : List (Int × Int)) (v : List β) : Mat β :=
  { rows := rows, cols := cols,
    get := fun i j => if i < rows ∧ j < cols then lookup z sym es v i j else z }

/-- Matrix of a list of zero-based entries `(row, col)`; entry number `l` carries `v[l]`;
    `none` unless the entries are in range, in the stored triangle and pairwise distinct. -/
def sparseMat (z : β) (rows cols : Nat) (sym : Symmetry) (es : List (Int × Int)) (v : List β) :
    Option (Mat β) :=
  if sym ≠ .unsym ∧ rows ≠ cols then none
  else if ¬ es.all (inBounds rows cols) then none
  else if ¬ es.all (triangleOk sym) then none
  else if ¬ es.Nodup then none
  else some (lookupMat z rows cols sym es v)

/-- Dense storage is column major.  With a symmetry tag the tagged triangle is authoritative
    (for symmetric data this is the same as reading every cell; see `denseRaw`). -/
def denseMat (z : β) (d : Dense) (v : List β) : Option (Mat β) :=
  if d.sym ≠ .unsym ∧ d.rows ≠ d.cols then none
  else some { rows := d.rows, cols := d.cols, get := fun i j =>
    if i < d.rows ∧ j < d.cols then
      match d.sym with
      | .unsym => v.getD (i + j * d.rows) z
      | .upper => v.getD (min i j + max i j * d.rows) z
      | .lower => v.getD (max i j + min i j * d.rows) z
    else z }

/-- Every cell of the dense storage, ignoring the symmetry tag. -/
def denseRaw (z : β) (rows cols : Nat) (v : List β) : Mat β :=
  { rows := rows, cols := cols, get := fun i j => if i < rows ∧ j < cols then v.getD (i + j * rows) z else z }

/-- Column index of every slot of a compressed-column structure: slot `i` belongs to column `c`
    iff `outer[c] ≤ i < outer[c+1]`. -/
def expandOuter : Nat → List Int → List Int
  | c, a :: b :: rest => List.replicate (b - a).toNat (c : Int) ++ expandOuter (c + 1) (b :: rest)
  | _, _ => []

def monotone : List Int → Bool
  | a :: b :: rest => decide (a ≤ b) && monotone (b :: rest)
  | _ => true

/-- Well-formed outer pointers: `cols + 1` of them, starting at 0, non-decreasing, ending at nnz. -/
def outerWF (cols : Nat) (outer : List Int) (nnz : Nat) : Bool :=
  outer.length == cols + 1 && outer.head? == some 0 && outer.getLast? == some (nnz : Int) &&
    monotone outer

def cscEntriesSpec (s : CSC) : Option (List (Int × Int)) :=
  if outerWF s.cols s.outer s.inner.length then some (s.inner.zip (expandOuter 0 s.outer)) else none

def cooEntriesSpec (s : COO) : Option (List (Int × Int)) :=
  if s.rowIdx.length = s.colIdx.length then
    some ((s.rowIdx.map (· - s.firstIndex)).zip (s.colIdx.map (· - s.firstIndex)))
  else none

/-- Zero-based entries of a sparse representation (`none`: structurally malformed / dense). -/
def Sparsity.entries? : Sparsity → Option (List (Int × Int))
  | .dense _ => none | .csc s => cscEntriesSpec s | .coo s => cooEntriesSpec s

/-- The matrix denoted by a representation and its value vector (`z` = zero). -/
def denote (z : β) : Sparsity → List β → Option (Mat β)
  | .dense d, v => denseMat z d v
  | .csc s, v => (cscEntriesSpec s).bind fun es => sparseMat z s.rows s.cols s.sym es v
  | .coo s, v => (cooEntriesSpec s).bind fun es => sparseMat z s.rows s.cols s.sym es v

end spec

/-! ### Model of the converters -/

section model
variable {β : Type}

/-- Result of constructing a `SparsityConverter`: the converted pattern and `convert_values`. -/
structure Conv (β : Type) where
  out : Sparsity
  vals : List β → Except Err (List β)

/-- `from(to)`: values are copied unchanged. -/
def copyVals : List β → Except Err (List β) := fun v => .ok v

/-- Eigen: `to.reshaped(rows, cols)(i, j)` addresses element `i + j * rows` (column major). -/
def flatIdx (rows : Nat) (i j : Int) : Nat := (i + j * (rows : Int)).toNat

/-- `T(i, j) = x` for each listed cell, in order; `none` = a cell outside the matrix. -/
def writeCells (rows cols : Nat) (x : β) : List (Int × Int) → List β → Option (List β)
  | [], T => some T
  | w :: ws, T =>
    if inBounds rows cols w then writeCells rows cols x ws (T.set (flatIdx rows w.1 w.2) x) else none

/-- The scatter loop of the conversions to dense over the entries `(r, c)`; entry number `l`
    carries `work(l)`. -/
def scatterGo (throws : Int → Int → Bool) (writes : Int → Int → List (Int × Int)) (rows cols : Nat)
    (work : List β) (z : β) : List (Int × Int) → Nat → List β → Except Err (List β)
  | [], _, T => .ok T
  | e :: es, l, T =>
    if throws e.1 e.2 then .error .invalidArgument
    else match writeCells rows cols (work.getD l z) (writes e.1 e.2) T with
      | none => .error .ub
      | some T' => scatterGo throws writes rows cols work z es (l + 1) T'

/-- Inner loop `for (i = inner_start; i < inner_end; ++i) r = inner_idx(i)`: `n` iterations from
    `i`; `none` on a read outside `inner_idx`. -/
def cscColumn (inner : List Int) (c : Int) : Int → Nat → Option (List (Int × Int))
  | _, 0 => some []
  | i, n + 1 =>
    if 0 ≤ i then
      match inner[i.toNat]?, cscColumn inner c (i + 1) n with
      | some r, some rest => some ((r, c) :: rest)
      | _, _ => none
    else none

/-- Outer loop `for (c = 0; c < cols; ++c)` with `inner_start = outer_ptr(c)`,
    `inner_end = outer_ptr(c + 1)` (walks adjacent pairs; `cscWalk` checks there are `cols` pairs). -/
def cscColumns (inner : List Int) : Nat → List Int → Option (List (Int × Int))
  | c, a :: b :: rest =>
    match cscColumn inner (c : Int) a (b - a).toNat, cscColumns inner (c + 1) (b :: rest) with
    | some col, some more => some (col ++ more)
    | _, _ => none
  | _, _ => some []

/-- Entries `(r, c)` in the order the C++ loops visit them (slot `l` = position).  `none`: the
    `assert` of `nnz()` (`outer_ptr.size() == cols + 1`) is violated or a read leaves `inner_idx`. -/
def cscWalk (s : CSC) : Option (List (Int × Int)) :=
  if s.outer.length ≠ s.cols + 1 then none else cscColumns s.inner 0 s.outer

/-- `SparsityConverter<Dense, Dense>` -/
def denseToDense (d : Dense) : Except Err (Conv β) :=
  if Gen.C14.denseDenseRejectsShape d.sym.code d.rows d.cols then .error .invalidArgument
  else .ok { out := .dense d, vals := copyVals }

/-- `SparsityConverter<SparseCSC, Dense>::convert_values` -/
def cscDenseVals (z : β) (s : CSC) : List β → Except Err (List β) := fun work =>
  match cscWalk s with
  | none => .error .ub
  | some es =>
    if es.length > s.inner.length then .error .ub      -- `work(l)` past `nnz()`
    else scatterGo (Gen.C14.cscDenseThrows s.sym.code) (Gen.C14.cscDenseWrites s.sym.code)
      s.rows s.cols work z es 0 (List.replicate (s.rows * s.cols) z)

/-- `SparsityConverter<SparseCSC, Dense>` -/
def cscToDense (z : β) (s : CSC) : Except Err (Conv β) :=
  if Gen.C14.cscDenseRejectsShape s.sym.code s.rows s.cols then .error .invalidArgument
  else .ok { out := .dense { rows := s.rows, cols := s.cols, sym := s.sym }, vals := cscDenseVals z s }

/-- Zero-based `(r, c)` of a COO structure as the conversion to dense computes them. -/
def cooWalk (s : COO) : Option (List (Int × Int)) :=
  if s.rowIdx.length ≠ s.colIdx.length then none     -- `assert` of `nnz()`
  else some ((s.rowIdx.map fun i => Gen.C14.cooDenseRow i s.firstIndex).zip
    (s.colIdx.map fun i => Gen.C14.cooDenseCol i s.firstIndex))

/-- `SparsityConverter<SparseCOO, Dense>::convert_values` -/
def cooDenseVals (z : β) (s : COO) : List β → Except Err (List β) := fun work =>
  match cooWalk s with
  | none => .error .ub
  | some es =>
    scatterGo (Gen.C14.cooDenseThrows s.sym.code) (Gen.C14.cooDenseWrites s.sym.code)
      s.rows s.cols work z es 0 (List.replicate (s.rows * s.cols) z)

/-- `SparsityConverter<SparseCOO, Dense>` -/
def cooToDense (z : β) (s : COO) : Except Err (Conv β) :=
  if Gen.C14.cooDenseRejectsShape s.sym.code s.rows s.cols then .error .invalidArgument
  else .ok { out := .dense { rows := s.rows, cols := s.cols, sym := s.sym }, vals := cooDenseVals z s }

/-- `for (c = 0; c < cols; ++c) for (r = 0; cond r c; ++r)`: the rows visited per column.
    (The inner loop is cut at `rows`: beyond that the C++ would write row indices that do not exist.) -/
def loopColumns (cond : Int → Int → Bool) (rows cols : Nat) : List (List (Nat × Nat)) :=
  (List.range cols).map fun (c : Nat) =>
    ((List.range rows).takeWhile fun (r : Nat) => cond (r : Int) (c : Int)).map fun (r : Nat) => (r, c)

/-- Running entry count `l` at the start of every column, and the final count. -/
def prefixCounts : Int → List Nat → List Int
  | l, [] => [l]
  | l, n :: ns => l :: prefixCounts (l + (n : Int)) ns

/-- `convert_values` of the converters from dense: copy, or per column the leading `top c`
    entries of the dense column (`copy_backward(f.col(c).topRows(top c), t += adv c)`). -/
def denseValues (z : β) (copy triangle : Bool) (top adv : Int → Int) (rows cols n : Nat) :
    List β → Except Err (List β) := fun v =>
  if copy then .ok v
  else if triangle then
    if (List.range cols).all fun (c : Nat) =>
        top (c : Int) == adv (c : Int) && decide (0 ≤ top (c : Int)) && decide (top (c : Int) ≤ (rows : Int)) then
      .ok ((List.range cols).flatMap fun (c : Nat) =>
        (List.range (top (c : Int)).toNat).map fun (r : Nat) => v.getD (r + c * rows) z)
    else .error .ub
  else .ok (List.replicate n z)          -- `to` is left untouched

/-- `SparsityConverter<Dense, SparseCOO>` -/
def denseToCoo (z : β) (d : Dense) (ity : IdxTy) (req : Request) : Except Err (Conv β) :=
  let sym := d.sym.code
  if Gen.C14.denseCooRejects sym d.rows d.cols then .error .invalidArgument
  else
    let Δ := Gen.C14.denseCooDelta req.firstIndex.isSome (req.firstIndex.getD 0)
    let ps := (loopColumns (Gen.C14.denseCooRowCond sym d.rows d.cols) d.rows d.cols).flatten
    if (ps.length : Int) ≠ Gen.C14.denseCooNnz sym d.rows d.cols then .error .ub
    else .ok {
      out := .coo {
        rows := d.rows, cols := d.cols, sym := d.sym
        rowIdx := ps.map fun p => Gen.C14.denseCooRowIndex sym p.1 p.2 Δ
        colIdx := ps.map fun p => Gen.C14.denseCooColIndex sym p.1 p.2 Δ
        order := CooOrder.ofCode Gen.C14.denseCooOrder
        firstIndex := Gen.C14.denseCooFirstIndex req.firstIndex.isSome (req.firstIndex.getD 0)
        ity := ity }
      vals := denseValues z (Gen.C14.denseCooValuesCopy sym) (Gen.C14.denseCooValuesTriangle sym)
        Gen.C14.denseCooTopRows Gen.C14.denseCooAdvance d.rows d.cols ps.length }

/-- `SparsityConverter<Dense, SparseCSC>` -/
def denseToCsc (z : β) (d : Dense) (ity : IdxTy) : Except Err (Conv β) :=
  let sym := d.sym.code
  if Gen.C14.denseCscRejects sym d.rows d.cols then .error .invalidArgument
  else
    let colsL := loopColumns (Gen.C14.denseCscRowCond sym d.rows d.cols) d.rows d.cols
    let ps := colsL.flatten
    if (ps.length : Int) ≠ Gen.C14.denseCscNnz sym d.rows d.cols then .error .ub
    else .ok {
      out := .csc {
        rows := d.rows, cols := d.cols, sym := d.sym
        inner := ps.map fun p => Gen.C14.denseCscInnerIdx sym p.1 p.2
        outer := (prefixCounts 0 (colsL.map List.length)).map fun l => Gen.C14.denseCscOuterPtr sym l
        order := CscOrder.ofCode Gen.C14.denseCscOrder
        ity := ity }
      vals := denseValues z (Gen.C14.denseCscValuesCopy sym) (Gen.C14.denseCscValuesTriangle sym)
        Gen.C14.denseCscTopRows Gen.C14.denseCscAdvance d.rows d.cols ps.length }

/-- `SparsityConverter<SparseCSC, SparseCOO>` -/
def cscToCoo (s : CSC) (ity : IdxTy) (req : Request) : Except Err (Conv β) :=
  match cscWalk s with
  | none => .error .ub
  | some es =>
    if es.length ≠ s.inner.length then .error .ub     -- write past / uninitialised tail of the resized vectors
    else
      let Δ := Gen.C14.cscCooDelta req.firstIndex.isSome (req.firstIndex.getD 0)
      .ok {
        out := .coo {
          rows := s.rows, cols := s.cols, sym := s.sym
          rowIdx := es.map fun e => Gen.C14.cscCooRowIndex e.1 e.2 Δ
          colIdx := es.map fun e => Gen.C14.cscCooColIndex e.1 e.2 Δ
          order := CooOrder.ofCode (Gen.C14.cscCooOrder s.order.code)
          firstIndex := Gen.C14.cscCooFirstIndex req.firstIndex.isSome (req.firstIndex.getD 0)
          ity := ity }
        vals := copyVals }

/-- `SparsityConverter<SparseCOO, SparseCOO>` -/
def cooToCoo (s : COO) (ity : IdxTy) (req : Request) : Except Err (Conv β) :=
  let Δ := Gen.C14.cooCooDelta req.firstIndex.isSome (req.firstIndex.getD 0) s.firstIndex
  if Gen.C14.cooCooReuse (decide (s.ity = ity)) Δ then .ok { out := .coo s, vals := copyVals }
  else if s.rowIdx.length ≠ s.colIdx.length then .error .ub          -- `assert` of `nnz()`
  else .ok {
    out := .coo {
      rows := s.rows, cols := s.cols, sym := s.sym
      rowIdx := s.rowIdx.map fun i => Gen.C14.cooCooIndex i Δ
      colIdx := s.colIdx.map fun i => Gen.C14.cooCooIndex i Δ
      order := CooOrder.ofCode (Gen.C14.cooCooOrder s.order.code)
      firstIndex := Gen.C14.cooCooFirstIndex req.firstIndex.isSome (req.firstIndex.getD 0) s.firstIndex
      ity := ity }
    vals := copyVals }

/-- `SparsityConverter<SparseCOO, SparseCSC>`: compiled out unless the feature macro holds. -/
def cooToCsc (_s : COO) (_ity : IdxTy) (_req : Request) : Except Err (Conv β) :=
  if Gen.C14.haveCooCscConversions then .error .notModelled
  else .error (Err.ofName Gen.C14.cooCscFallbackThrows)

/-- `SparsityConverter<SparseCSC, SparseCSC>`: index-type conversion and pass-through; sorting is
    compiled out unless the feature macro holds.  (The request / `need_sorting` logic is hand
    modelled; the translator pins the token hash of `convert_sparsity`.) -/
def cscToCsc (s : CSC) (ity : IdxTy) (req : Request) : Except Err (Conv β) :=
  let wantSorted := req.order == some CscOrder.sortedRows
  let needSorting := wantSorted && s.order == CscOrder.unsorted
  let order := if wantSorted then CscOrder.sortedRows else s.order
  if needSorting then
    if Gen.C14.haveCooCscConversions then .error .notModelled
    else .error (Err.ofName Gen.C14.cscCscSortFallbackThrows)
  else .ok { out := .csc { s with order := order, ity := ity }, vals := copyVals }   -- `permutation` stays empty

/-- Construct `SparsityConverter<From, To>{from, request}`. -/
def convert (z : β) : Sparsity → Target → Request → Except Err (Conv β)
  | .dense d, .dense, _ => denseToDense d
  | .dense d, .csc ity, _ => denseToCsc z d ity
  | .dense d, .coo ity, req => denseToCoo z d ity req
  | .csc s, .dense, _ => cscToDense z s
  | .csc s, .csc ity, req => cscToCsc s ity req
  | .csc s, .coo ity, req => cscToCoo s ity req
  | .coo s, .dense, _ => cooToDense z s
  | .coo s, .csc ity, req => cooToCsc s ity req
  | .coo s, .coo ity, req => cooToCoo s ity req

/-- Pattern conversion followed by value conversion. -/
def convertAll (z : β) (r : Sparsity) (t : Target) (req : Request) (v : List β) :
    Except Err (Sparsity × List β) :=
  match convert z r t req with
  | .error e => .error e
  | .ok cv => match cv.vals v with
    | .error e => .error e
    | .ok v' => .ok (cv.out, v')

end model

end Alpaqa.C14
