/-
  Executable model of the PANOC *direction providers* (core Lean only):

    NoopDirection, LBFGSDirection, StructuredLBFGSDirection, AndersonDirection
    (/repo/src/alpaqa/include/alpaqa/inner/directions/panoc/*.hpp, structured-lbfgs.tpp).

  The providers are thin wrappers: every scalar / componentwise statement, every argument list
  and every branch condition of the wrappers is *generated* from the C++ (`Alpaqa/Gen/Dirs.lean`,
  regenerated on every run by `gen/gen_dirs.py`); the accelerators they wrap are the models of
  C09 (`C09.State`: `LBFGS`) and C10 (`C10.AA`: `AndersonAccel`); the inactive set of the
  structured provider is `C15.inactiveIndices` (`BoxConstrProblem::eval_inactive_indices_res_lna`).
  What is hand-written here is only the control skeleton that connects these pieces; it is tied to
  /repo by the bit-exact op-sequence correspondence of `checks/dirs.py`
  (`harness/dirs.cpp` ↔ `Driver/Dirs.lean`) and by the oracle-free PANOC replay
  (`Driver/LoopFull.lean`).

  Each provider has a state type and the six operations of the `PANOCDirection` interface:
  `init` (= `initialize`, a Lean keyword), `hasInitial`, `update`, `apply`, `changedGamma`, `reset`.
  `apply` is `const` in the C++ but writes through `mutable` members (the `α` row of the L-BFGS
  storage, the whole Anderson accelerator), so it returns a new state.
  The output argument `qₖ` of `apply` is passed in (`q0`) because a failing provider leaves it.

  Exceptions (`std::invalid_argument` from `LBFGS::resize` / `apply_masked` / the argument checks
  of `StructuredLBFGSDirection::initialize`, `std::logic_error` from `AndersonAccel::compute`)
  are the `threw` alternative of the result types; the object keeps its previous state then.
-/
import Alpaqa.Model.C09
import Alpaqa.Model.C10
import Alpaqa.Model.C15
import Alpaqa.Gen.Dirs

namespace Alpaqa.Directions
open Alpaqa Alpaqa.Gen

/-- Result of an operation that may throw. -/
inductive Res (β : Type) where
  | ok (b : β)
  | threw

/-- Result of `apply`: new provider state, returned flag, content of `qₖ` afterwards. -/
inductive ApplyRes (σ α : Type) where
  | done (st : σ) (ok : Bool) (q : Vec α)
  | threw

section
variable {α : Type} [Add α] [Sub α] [Mul α] [Div α] [Neg α] [LT α] [LE α] [DecidableLT α]
  [DecidableLE α] [BEq α] [RealLike α] [PowLike α] [HasNaN α] [NatCast α] [OfScientific α]
  [OfNat α 0] [OfNat α 1] [OfNat α 2]

/-! ### NoopDirection -/
namespace Noop

abbrev State := Unit

def init (_ : State) : State := ()
def hasInitial (_ : State) : Bool := noopHasInitial
def update (s : State) (_γk _γn : α) (_xk _xn _pk _pn _gk _gn : Vec α) : State × Bool :=
  (s, noopUpdate)
def apply (s : State) (_γ : α) (_x _xh _p _g q0 : Vec α) : ApplyRes State α :=
  .done s noopApply q0
def changedGamma (s : State) (_γ _old : α) : State := s
def reset (s : State) : State := s

end Noop

/-! ### LBFGSDirection -/

structure LbfgsCfg (α : Type) where
  /-- `LBFGS::Params` -/
  accel : C09.Params α
  /-- `LBFGSDirectionParams::rescale_on_step_size_changes` -/
  rescale : Bool

namespace Lbfgs

abbrev State (α : Type) := C09.State α

/-- `LBFGS(params)`: no storage yet (`history() = 0`), `idx = 0`, `full = false`. -/
def fresh : State α := ⟨0, [], [], 0, false⟩

/-- `initialize`: `lbfgs.resize(problem.get_n())`. -/
def init (c : LbfgsCfg α) (n : Nat) (_ : State α) : Res (State α) :=
  match C09.resize c.accel n with
  | none => .threw
  | some s => .ok s

def hasInitial (_ : State α) : Bool := lbfgsDirHasInitial

/-- `update`: `lbfgs.update(…)` with the generated argument selection. -/
def update (c : LbfgsCfg α) (st : State α) (γk γn : α) (xk xn pk pn gk gn : Vec α) :
    State α × Bool :=
  let a := lbfgsDirUpdateArgs γk γn xk xn pk pn gk gn
  C09.update c.accel st a.1 a.2.1 a.2.2.1 a.2.2.2.1 a.2.2.2.2.1 a.2.2.2.2.2

/-- `apply`: `qₖ = …; return lbfgs.apply(qₖ, γ)`. -/
def apply (c : LbfgsCfg α) (st : State α) (γ : α) (x xh p g q0 : Vec α) : ApplyRes (State α) α :=
  let a := lbfgsDirApplyArgs γ x xh p g q0
  let r := C09.apply c.accel st a.1 a.2
  .done r.1 r.2.2 r.2.1

/-- `changed_γ`: `scale_y(f)` or `reset()` as the generated selector says. -/
def changedGamma (c : LbfgsCfg α) (st : State α) (γ old : α) : State α :=
  match lbfgsDirChangedGamma c.rescale γ old with
  | some f => C09.scaleY st f
  | none => C09.reset st

def reset (st : State α) : State α := C09.reset st

end Lbfgs

/-! ### AndersonDirection -/

structure AndersonCfg (α : Type) where
  /-- `AndersonAccelParams::memory` -/
  memory : Nat
  /-- `AndersonAccelParams::min_div_fac` -/
  minDivFac : α
  /-- `AndersonDirectionParams::rescale_on_step_size_changes` -/
  rescale : Bool
  /-- `inf<config_t>` -/
  inf : α
  /-- fuel of the reorthogonalisation loop of `add_column` (see `C10.reorthLoop`) -/
  fuel : Nat
  /-- `Eigen::JacobiRotation::makeGivens` -/
  giv : α → α → α × α × α

namespace Anderson

abbrev State (α : Type) := C10.AA α

/-- `AndersonAccel(params)`: dimension 0, not initialised. -/
def fresh (c : AndersonCfg α) : State α := C10.AA.new c.inf c.memory c.minDivFac 0

/-- a list as the total function the C10 model works with -/
def fn (v : Vec α) : Nat → α := fun i => v.getD i 0

/-- `initialize`: `anderson.resize(n); anderson.initialize(…)`. -/
def init (c : AndersonCfg α) (n : Nat) (_ : State α) (y Sig : Vec α) (γ0 : α)
    (x0 xh0 p0 g0 : Vec α) : State α :=
  let a := andersonDirInitArgs y Sig γ0 x0 xh0 p0 g0
  (C10.AA.new c.inf c.memory c.minDivFac n).initialize c.inf (fn a.1) (fn a.2)

def hasInitial (_ : State α) : Bool := andersonDirHasInitial

def update (st : State α) (_γk _γn : α) (_xk _xn _pk _pn _gk _gn : Vec α) : State α × Bool :=
  (st, andersonDirUpdate)

/-- `apply`: `anderson.compute(g, r, qₖ); qₖ -= xₖ; return true` (generated), on the C10 model of
    `compute`. -/
def apply (c : AndersonCfg α) (st : State α) (γ : α) (x xh p g q0 : Vec α) :
    ApplyRes (State α) α :=
  let a := andersonDirComputeArgs γ x xh p g
  match st.compute c.fuel c.giv (fn a.1) (fn a.2) with
  | none => .threw
  | some (st', xaa) =>
    let out := (List.range st'.n).map (C10.readV xaa)
    let r := andersonDirApply (fun _ _ => out) γ x xh p g q0
    .done st' r.2 r.1

/-- `changed_γ`: `scale_R(f)` or `reset()` as the generated selector says. -/
def changedGamma (c : AndersonCfg α) (st : State α) (γ old : α) : State α :=
  match andersonDirChangedGamma c.rescale γ old with
  | some f => st.scaleR f
  | none => st.reset c.inf

def reset (c : AndersonCfg α) (st : State α) : State α := st.reset c.inf

end Anderson

/-! ### StructuredLBFGSDirection -/

/-- What the structured provider sees of the problem (`y`, `Σ` are the references stored by
    `initialize`).  The evaluation functions are oracles. -/
structure SProblem (α : Type) where
  n : Nat
  m : Nat
  y : Vec α
  Sig : Vec α
  /-- `eval_inactive_indices_res_lna(γ, x, ∇ψ(x), J)`: the list `J` -/
  inactive : α → Vec α → Vec α → List Nat
  /-- `eval_grad_ψ(x, y, Σ, ·)` (used by the finite-difference variant) -/
  gradPsi : Vec α → Vec α
  /-- `eval_hess_L_prod(x, y, 1, v, ·)` -/
  hessLProd : Vec α → Vec α → Vec α
  /-- `eval_hess_ψ_prod(x, y, Σ, 1, v, ·)` -/
  hessPsiProd : Vec α → Vec α → Vec α
  /-- `eval_g(x, ·)` -/
  g : Vec α → Vec α
  /-- `eval_grad_gi(x, i, ·)` -/
  gradGi : Vec α → Nat → Vec α
  /-- `get_box_D()` -/
  Dlb : Vec α
  Dub : Vec α
  provInactive : Bool
  provHessL : Bool
  provHessPsi : Bool
  provBoxD : Bool
  provGradGi : Bool

/-- The inactive set of a `BoxConstrProblem` (box `C`, optional ℓ1 weights). -/
def boxInactive (l1 lb ub : Vec α) : α → Vec α → Vec α → List Nat :=
  fun γ x g => C15.inactiveIndices l1 γ x g lb ub

structure SCfg (α : Type) where
  accel : C09.Params α
  /-- `hessian_vec_factor` -/
  hvf : α
  /-- `hessian_vec_finite_differences` -/
  fd : Bool
  /-- `full_augmented_hessian` -/
  fullAug : Bool
  /-- `failure_policy` -/
  policy : FailurePolicy
  /-- `std::cbrt(std::numeric_limits<real_t>::epsilon())` -/
  cbrtEps : α

namespace SLbfgs

abbrev State (α : Type) := C09.State α

def fresh : State α := ⟨0, [], [], 0, false⟩

/-- `initialize`: the argument checks, then `lbfgs.resize(n)` (workspaces are not modelled:
    they are written before they are read in every call). -/
def init (P : SProblem α) (c : SCfg α) (_ : State α) : Res (State α) :=
  if slbfgsInitThrows c.hvf c.fd c.fullAug P.provInactive P.provHessL P.provHessPsi P.provBoxD
      P.provGradGi then .threw
  else match C09.resize c.accel P.n with
    | none => .threw
    | some s => .ok s

def hasInitial (_ : State α) : Bool := slbfgsHasInitial

def update (c : SCfg α) (st : State α) (γk γn : α) (xk xn pk pn gk gn : Vec α) : State α × Bool :=
  let a := slbfgsUpdateArgs γk γn xk xn pk pn gk gn
  C09.update c.accel st a.1 a.2.1 a.2.2.1 a.2.2.2.1 a.2.2.2.2.1 a.2.2.2.2.2

/-- `v(J) = f(j)` for the indices of `J`, in order. -/
def setJ (J : List Nat) (f : Nat → α) (q : Vec α) : Vec α :=
  J.foldl (fun q j => q.set j (f j)) q

/-- The "add the Hessian of the penalty terms" loop of `approximate_hessian_vec_term`. -/
def penaltyLoop (P : SProblem α) (x q : Vec α) (J : List Nat) (HqK : Vec α) : Vec α :=
  let gx := P.g x
  (List.range P.m).foldl (fun H i =>
    let ζ := slbfgsZeta (vget gx i) (vget P.y i) (vget P.Sig i)
    let inactive := slbfgsConstrInactive (vget P.Dlb i) (vget P.Dub i) ζ
    if slbfgsPenaltySkip inactive then H
    else
      let w := P.gradGi x i
      let t := slbfgsPenaltyT (vget P.Sig i) w q
      J.foldl (fun H j => H.set j (slbfgsPenaltyAcc (vget H j) (vget w j) t)) H) HqK

/-- `approximate_hessian_vec_term(xₖ, ∇ψ(xₖ), qₖ, J)`: the vector left in `HqK`. -/
def approxHessVec (P : SProblem α) (c : SCfg α) (x g q : Vec α) (J : List Nat) : Vec α :=
  if slbfgsHvFD c.fd c.fullAug P.provHessPsi then fdHessProd P.gradPsi c.cbrtEps x g q
  else if slbfgsHvLagrangianOnly c.fd c.fullAug P.provHessPsi then P.hessLProd x q
  else if slbfgsHvUsesHessPsi c.fd c.fullAug P.provHessPsi then P.hessPsiProd x q
  else
    let H := P.hessLProd x q
    if slbfgsHvAddsPenalty c.fd c.fullAug P.provHessPsi then penaltyLoop P x q J H else H

/-- The right-hand side handed to `apply_masked` when active indices exist: `qₖ = pₖ` on `K`,
    `(1/γ) pₖ(J) [− hvf · (H q_K)(J)]` on `J`. -/
def rhs (P : SProblem α) (c : SCfg α) (γ : α) (x xh p g : Vec α) (J : List Nat) : Vec α :=
  let q := slbfgsQInit γ x xh p g
  if slbfgsHessEnabled c.hvf then
    let v := setJ J (fun _ => 0) q
    let H := approxHessVec P c x g v J
    setJ J (fun j => slbfgsRhsJHess γ c.hvf (vget p j) (vget H j)) v
  else
    setJ J (fun j => slbfgsRhsJ γ (vget p j)) q

/-- What the `switch (failure_policy)` leaves in `qₖ` after `apply_masked` failed. -/
def fallback (c : SCfg α) (n : Nat) (γ : α) (J : List Nat) (q : Vec α) : Vec α :=
  if slbfgsFailureScales c.policy then
    if slbfgsFailureScaleAll J.length n then slbfgsFailureScaleFull γ q
    else setJ J (fun j => slbfgsFailureScaleJ γ (vget q j)) q
  else q

/-- `apply`. -/
def apply (P : SProblem α) (c : SCfg α) (st : State α) (γ : α) (x xh p g q0 : Vec α) :
    ApplyRes (State α) α :=
  let J := P.inactive γ x g
  if slbfgsNoFree J.length P.n then .done st false q0
  else if slbfgsAllFree J.length P.n then
    let r := C09.apply c.accel st (slbfgsRhsFull γ x xh p g) (slbfgsFullGamma γ)
    .done r.1 r.2.2 r.2.1
  else
    match C09.applyMasked c.accel st (rhs P c γ x xh p g J) (slbfgsMaskedGamma γ) J with
    | .threw => .threw
    | .done st' q ok =>
      if ok then .done st' true q
      else .done st' (slbfgsFailureReturn c.policy ok) (fallback c P.n γ J q)

/-- `changed_γ`: nothing. -/
def changedGamma (st : State α) (_γ _old : α) : State α := st

def reset (st : State α) : State α := C09.reset st

end SLbfgs

end
end Alpaqa.Directions
