/-
  C18 hand-written model (core Lean only) of alpaqa's parameter-string machinery:

    params/params.hpp      `split_key`, `set_params` (prefix filter, `used` counters)
    params/params.tpp      `set_param_default` for table-driven structs and enums,
                           `assert_key_empty`
    src/params/params.cpp  leaf setters: bool, integers / floats via `from_chars`
                           (error code, then trailing-characters check), vec (element-wise),
                           durations
    util/duration-parse.hpp `parse_single_duration` / `parse_duration`

  The model follows the code *as written*: every leaf setter parses into a local and assigns
  to the field only after all checks have passed (numbers: error code, then trailing-characters
  check; durations: every component incl. the range checks; vec: every element), so a leaf is
  written exactly when the setter returns normally — except `vec_from_file` in its direct form
  while `Env.vffEmplaceFirst` holds (see `setVff`).

  Strings are `List Char` (the C++ works on UTF-8 bytes; every delimiter the code looks for is
  ASCII, so splitting on characters and on bytes coincide).  The tables (`Env`, `DurCfg`) are
  parameters here; `Alpaqa/Gen/C18.lean` instantiates them from /repo on every run.

  `std::from_chars` for floating point is an oracle `parseReal : Str → NumRes R` (value and the
  unconsumed rest).  Integer `from_chars` is modelled directly (`parseInt`).
-/

namespace Alpaqa.C18

abbrev Str := List Char
/-- Member names from the top-level object down to a leaf. -/
abbrev Path := List String

/-! ### Declarations emitted by the translator -/

inductive Kind where
  | bool
  | int (lo hi : Int)            -- integral type with its value range
  | real
  | enum (name : String)         -- enum with an `ENUM_TABLE`
  | dur (resNs : Nat)            -- `std::chrono::duration`, period in ns
  | vec
  | struct (name : String)       -- struct with a `PARAMS_TABLE`
  | vff (expected : Int)         -- `params::vec_from_file` with its fixed `expected_size`
  | other (cxx : String)         -- member type without any `set_param` (never in a table)
  deriving DecidableEq, Repr, Inhabited

/-- One `PARAMS_MEMBER(name, …)`: key string, member written, kind of the member. -/
structure Entry where
  key : String
  member : String
  kind : Kind
  deriving DecidableEq, Repr, Inhabited

/-- What `std::ifstream f(path)` followed by `csv::read_row_std_vector<real_t>(f)` sees: no such
    file, or the tokens of the first data row (the CSV reader itself is property C17; here it is
    an oracle: each token is then converted with `from_chars`, all of it or `read_error`). -/
inductive FileRow where
  | missing
  | row (toks : List (List Char))
  deriving DecidableEq, Repr, Inhabited

structure Env where
  /-- struct name ↦ its `PARAMS_TABLE` in source order -/
  structs : List (String × List Entry)
  /-- enum name ↦ its `ENUM_TABLE`: enumerator name ↦ underlying value -/
  enums : List (String × List (String × Int))
  /-- `set_param(vec_from_file&, …)`, direct form: does the code engage / overwrite `v.value`
      *before* parsing and checking the size (`set_param(v.value.emplace(), s)`), or only after
      both succeeded?  Re-read from params.cpp on every run (`Gen.C18.vffDirectSteps`). -/
  vffEmplaceFirst : Bool
  /-- the file system seen by the `@file` form (default: no file exists) -/
  files : List Char → FileRow := fun _ => .missing
  deriving Inhabited

def Env.table (env : Env) (name : String) : List Entry :=
  match env.structs.find? (·.1 == name) with
  | some p => p.2
  | none => []

def Env.enumTable (env : Env) (name : String) : List (String × Int) :=
  match env.enums.find? (·.1 == name) with
  | some p => p.2
  | none => []

/-- Data of `duration-parse.hpp` that the translator re-reads on every run. -/
structure DurCfg where
  /-- characters skipped by `find_first_not_of("+0 ")` -/
  trim : List Char
  /-- characters that end the unit token (`find_first_of("+-0123456789. ")`) -/
  stop : List Char
  /-- unit string ↦ period in ns (`units == "s" || units.empty()` gives two entries) -/
  units : List (String × Nat)
  deriving Repr, Inhabited

/-! ### Values -/

inductive Leaf (R : Type) where
  | b (v : Bool)
  | i (v : Int)
  | r (v : R)
  | e (v : Int)
  | d (ticks : Int)
  | v (xs : List R)
  | o (x : Option (List R))      -- `std::optional<vec>` of a `vec_from_file`
  deriving DecidableEq, Repr, Inhabited

inductive Err where
  | invalidKey | indexed | badBool | badEnum
  | numInvalid | numRange | numSuffix
  | durValue | durUnits
  | fileOpen | fileRead | badSize
  | unsupported | fuel
  deriving DecidableEq, Repr, Inhabited

/-- Result of `from_chars(first, last, value)`. -/
inductive NumRes (R : Type) where
  | ok (val : R) (rest : Str)    -- `ec == errc()`, `rest = [res.ptr, last)`
  | invalid                      -- `errc::invalid_argument`
  | range                        -- `errc::result_out_of_range`
  deriving DecidableEq, Repr, Inhabited

abbrev Store (R : Type) := Path → Option (Leaf R)

def Store.set {R} (st : Store R) (p : Path) (l : Leaf R) : Store R :=
  fun q => if q = p then some l else st q

/-! ### `split_key` -/

/-- `params::split_key(full, tok)`: split at the first `tok`; `(full, "")` when there is none. -/
def splitKey (full : Str) (tok : Char := '.') : Str × Str :=
  (full.takeWhile (· != tok), (full.dropWhile (· != tok)).drop 1)

/-! ### Integer `from_chars` (libstdc++ contract, base 10) -/

def digitVal (c : Char) : Nat := c.toNat - '0'.toNat

def digitsVal (ds : Str) : Nat := ds.foldl (fun a c => a * 10 + digitVal c) 0

/-- `std::from_chars` for an integral type with range `[lo, hi]`: optional `-` (signed types
    only), at least one digit, no leading `+` or white space; the whole digit run is consumed
    before the range is checked. -/
def parseInt (lo hi : Int) (s : Str) : NumRes Int :=
  let neg := lo < 0 && s.head? == some '-'
  let body := if neg then s.drop 1 else s
  let ds := body.takeWhile Char.isDigit
  let rest := body.dropWhile Char.isDigit
  if ds.isEmpty then .invalid
  else
    let v : Int := if neg then -(digitsVal ds : Int) else (digitsVal ds : Int)
    if v < lo || hi < v then .range else .ok v rest

/-! ### Durations -/

/-- What the duration code needs from the scalar type besides field arithmetic. -/
class DurScalar (R : Type) where
  ofInt : Int → R
  /-- `static_cast<int64_t>(x)`: truncation toward zero.  Only reached for values strictly
      inside the `int64` range (`parseSingle` rejects everything else before rounding). -/
  trunc : R → Int

section dur
variable {R : Type} [Sub R] [Mul R] [Div R] [LT R] [DecidableLT R] [BEq R] [DurScalar R]
open DurScalar

/-- `std::chrono::round<Duration>(duration<double, unit>{v})` as libstdc++ writes it:
    `duration_cast` (multiply or divide by the integral period ratio), `floor` (fix up the
    truncation), the two distances in the common (finer) period, ties to even. -/
def chronoRound (unitNs resNs : Nat) (v : R) : Int :=
  if resNs ≤ unitNs then
    let num : R := ofInt (unitNs / resNs : Nat)
    let x := v * num
    let c := trunc x
    let t0 := if x < ofInt c then c - 1 else c
    let t1 := t0 + 1
    let d0 := x - ofInt t0
    let d1 := ofInt t1 - x
    if d0 == d1 then (if t0 % 2 = 0 then t0 else t1) else if d0 < d1 then t0 else t1
  else
    let den : R := ofInt (resNs / unitNs : Nat)
    let c := trunc (v / den)
    let t0 := if v < ofInt c * den then c - 1 else c
    let t1 := t0 + 1
    let d0 := v - ofInt t0 * den
    let d1 := ofInt t1 * den - v
    if d0 == d1 then (if t0 % 2 = 0 then t0 else t1) else if d0 < d1 then t0 else t1

/-- `duration<double, Period>{d}.count()`: the value in units of the target resolution, as a
    floating-point number (same `duration_cast` arithmetic as inside `chrono::round`). -/
def durCount (unitNs resNs : Nat) (v : R) : R :=
  if resNs ≤ unitNs then v * ofInt (unitNs / resNs : Nat) else v / ofInt (resNs / unitNs : Nat)

/-- `numeric_limits<int64_t>::lowest()` / `max()` (`Rep` of every `std::chrono` typedef). -/
def repMin : Int := -9223372036854775808
def repMax : Int := 9223372036854775807

/-- The lambda `add` of `parse_single_duration`: reject counts that are NaN / infinite / not
    strictly inside the range of `Rep` (compared as `double`: `static_cast<double>(max) = 2⁶³`),
    round, reject a sum that would overflow, add. -/
def durAdd (unitNs resNs : Nat) (v : R) (acc : Int) : Option Int :=
  let count := durCount unitNs resNs v
  if decide ((ofInt repMin : R) < count) && decide (count < (ofInt (repMax + 1) : R)) then
    let r := chronoRound unitNs resNs v
    if (if 0 ≤ r then decide (acc ≤ repMax - r) else decide (repMin - r ≤ acc)) then some (acc + r)
    else none
  else none

def DurCfg.unit? (cfg : DurCfg) (u : Str) : Option Nat :=
  (cfg.units.find? (·.1.toList == u)).map (·.2)

/-- `parse_single_duration(t, s)`: new value of `t` and the remaining string, or the error. -/
def parseSingle (cfg : DurCfg) (resNs : Nat) (parseReal : Str → NumRes R) (acc : Int) (s : Str) :
    Except Err (Int × Str) :=
  let s1 := s.dropWhile (fun c => cfg.trim.contains c)
  if s1.isEmpty then .ok (acc, [])
  else match parseReal s1 with
    | .invalid => .error .durValue
    | .range => .error .durValue
    | .ok v rest =>
      let units := rest.takeWhile (fun c => !cfg.stop.contains c)
      let after := rest.dropWhile (fun c => !cfg.stop.contains c)
      match cfg.unit? units with
      | none => .error .durUnits
      | some u =>
        match durAdd u resNs v acc with
        | none => .error .durValue          -- `invalid_duration_value`, `result_out_of_range`
        | some acc' => .ok (acc', after)

/-- `parse_duration(t, s)`: `while (!s.empty()) s = parse_single_duration(t, s);`.
    Returns the value `t` holds when the loop ends or throws. -/
def parseDuration (cfg : DurCfg) (resNs : Nat) (parseReal : Str → NumRes R) :
    Nat → Int → Str → Int × Option Err
  | _, acc, [] => (acc, none)
  | 0, acc, _ :: _ => (acc, some .fuel)
  | fuel + 1, acc, c :: cs =>
    match parseSingle cfg resNs parseReal acc (c :: cs) with
    | .error e => (acc, some e)
    | .ok (acc', rest) => parseDuration cfg resNs parseReal fuel acc' rest

end dur

/-! ### Leaf setters -/

/-- Number of pieces and the pieces of a vec value: `count(',') + 1` applications of
    `split_key(remainder, ',')`. -/
def pieces : Nat → Str → List Str
  | 0, _ => []
  | n + 1, s => (splitKey s ',').1 :: pieces n (splitKey s ',').2

/-- Element-wise stores into the temporary of `set_param(vec&, s)`; returns the parsed prefix
    and the error. -/
def setVecElems {R} (parseReal : Str → NumRes R) : List Str → List R → List R × Option Err
  | [], done => (done, none)
  | p :: ps, done =>
    match parseReal p with
    | .invalid => (done, some .numInvalid)
    | .range => (done, some .numRange)
    | .ok v [] => setVecElems parseReal ps (done ++ [v])
    | .ok v (_ :: _) => (done ++ [v], some .numSuffix)

/-- `read_row_std_vector`'s conversion of the tokens of the row: every token entirely a number. -/
def readRow {R} (parseReal : Str → NumRes R) : List Str → Option (List R)
  | [] => some []
  | t :: ts =>
    match parseReal t with
    | .ok v [] => (readRow parseReal ts).map (v :: ·)
    | _ => none

/-- `v.expected_size >= 0 && size != v.expected_size` -/
def sizeMismatch (expected : Int) (n : Nat) : Bool := decide (0 ≤ expected) && decide ((n : Int) ≠ expected)

/-- `set_param(vec_from_file<config_t> &v, ParamString s)` after `assert_key_empty`.
    `@path`: open (else `Unable to open file`), read the first row (else `Unable to read from
    file`), check the size (else `Incorrect size`), only then `v.value.emplace(row)`.
    Otherwise the value is a vec literal.  `emplaceFirst = true` is
    `set_param(v.value.emplace(), s); if (size mismatch) throw`: the optional is engaged with an
    empty vector first, so a rejected element leaves `some []` and a size mismatch leaves the
    parsed vector stored.  `emplaceFirst = false`: parse into a local, check, then store. -/
def setVff {R} (files : Str → FileRow) (emplaceFirst : Bool) (parseReal : Str → NumRes R) (expected : Int)
    (value : Str) : Option (Leaf R) × Option Err :=
  match value with
  | '@' :: path =>
    match files path with
    | .missing => (none, some .fileOpen)
    | .row toks =>
      match readRow parseReal toks with
      | none => (none, some .fileRead)
      | some xs => if sizeMismatch expected xs.length then (none, some .badSize) else (some (.o (some xs)), none)
  | _ =>
    match setVecElems parseReal (pieces (value.count ',' + 1) value) [] with
    | (xs, none) =>
      if sizeMismatch expected xs.length then
        (if emplaceFirst then some (.o (some xs)) else none, some .badSize)
      else (some (.o (some xs)), none)
    | (_, some e) => (if emplaceFirst then some (.o (some [])) else none, some e)

section leaf
variable {R : Type} [Sub R] [Mul R] [Div R] [LT R] [DecidableLT R] [BEq R] [DurScalar R]

/-- The leaf `set_param` overloads.  `key` is the not yet consumed part of the option key.
    Returns the value stored into the leaf (if any store happened) and the exception. -/
def setLeaf (env : Env) (cfg : DurCfg) (parseReal : Str → NumRes R) (k : Kind) (key value : Str) :
    Option (Leaf R) × Option Err :=
  match k with
  | .vec =>
    -- no `assert_key_empty`: a sub-key of a vec is ignored by the code
    let n := value.count ',' + 1
    match setVecElems parseReal (pieces n value) [] with
    | (xs, none) => (some (.v xs), none)     -- `v = std::move(w)` after the loop
    | (_, some e) => (none, some e)
  | .struct _ => (none, some .unsupported)
  | .other _ => (none, some .unsupported)
  | .vff expected =>
    if !key.isEmpty then (none, some .indexed)
    else setVff env.files env.vffEmplaceFirst parseReal expected value
  | .bool =>
    if !key.isEmpty then (none, some .indexed)
    else if value == "0".toList || value == "false".toList then (some (.b false), none)
    else if value == "1".toList || value == "true".toList then (some (.b true), none)
    else (none, some .badBool)
  | .int lo hi =>
    if !key.isEmpty then (none, some .indexed)
    else match parseInt lo hi value with
      | .invalid => (none, some .numInvalid)
      | .range => (none, some .numRange)
      | .ok v [] => (some (.i v), none)                    -- `f = value` is the last statement
      | .ok _ (_ :: _) => (none, some .numSuffix)
  | .real =>
    if !key.isEmpty then (none, some .indexed)
    else match parseReal value with
      | .invalid => (none, some .numInvalid)
      | .range => (none, some .numRange)
      | .ok v [] => (some (.r v), none)
      | .ok _ (_ :: _) => (none, some .numSuffix)
  | .enum name =>
    if !key.isEmpty then (none, some .indexed)
    else match (env.enumTable name).find? (·.1.toList == value) with
      | none => (none, some .badEnum)
      | some p => (some (.e p.2), none)
  | .dur res =>
    if !key.isEmpty then (none, some .indexed)
    else
      -- `Duration value{}; parse_duration(value, s.value); t = value;`
      match parseDuration cfg res parseReal value.length 0 value with
      | (t, none) => (some (.d t), none)
      | (_, some e) => (none, some e)

/-! ### Table-driven dispatch -/

def Env.find (env : Env) (name : String) (k : Str) : Option Entry :=
  (env.table name).find? (·.key.toList == k)

/-- The leaf an option key addresses: follows `set_param_default<struct>` through the tables.
    `none` = some component is not a key of the table reached (or the fuel ran out — excluded
    for `key.length < fuel` when no table has an empty key: `addressed_fuel_suffices`). -/
def addressed (env : Env) : Nat → Kind → Path → Str → Option (Path × Kind × Str)
  | 0, _, _, _ => none
  | fuel + 1, .struct name, path, key =>
    match env.find name (splitKey key).1 with
    | none => none
    | some e => addressed env fuel e.kind (path ++ [e.member]) (splitKey key).2
  | _ + 1, k, path, key => some (path, k, key)

/-- Effect of a leaf setter on the store. -/
def applyLeaf (st : Store R) (p : Path) (w : Option (Leaf R) × Option Err) : Store R × Option Err :=
  match w with
  | (some l, e) => (st.set p l, e)
  | (none, e) => (st, e)

/-- `set_param(t, {full_key, key, value})` for an object of kind `k` located at `path`.
    Returns the store when the call returns or throws, and the exception if any. -/
def setParam (env : Env) (cfg : DurCfg) (parseReal : Str → NumRes R) :
    Nat → Kind → Path → Str → Str → Store R → Store R × Option Err
  | 0, _, _, _, _, st => (st, some .fuel)
  | fuel + 1, .struct name, path, key, value, st =>
    match env.find name (splitKey key).1 with
    | none => (st, some .invalidKey)
    | some e => setParam env cfg parseReal fuel e.kind (path ++ [e.member]) (splitKey key).2 value st
  | _ + 1, k, path, key, value, st => applyLeaf st path (setLeaf env cfg parseReal k key value)

/-- Does option `kv` carry the prefix `pfx`?  (`split_key(kv, '=')`, then `split_key(key)`.) -/
def optPrefix (kv : Str) : Str := (splitKey (splitKey kv '=').1).1
def optKey (kv : Str) : Str := (splitKey (splitKey kv '=').1).2
def optValue (kv : Str) : Str := (splitKey kv '=').2

/-- Recursion budget `set_params` gives `setParam` for one option key.  Every
    `set_param_default<struct>` level that finds its component consumes at least one character
    of a non-empty key (and an empty component is not a key of any table), so `key.length + 1`
    levels always suffice: `Props/C18.lean` proves that any larger budget gives the same result
    (`setParam_fuel_suffices`) and that `Err.fuel` is never produced (`setParams_never_fuel`). -/
def keyFuel (key : Str) : Nat := key.length + 1

/-- `set_params(t, prefix, options, used)`: store at return / throw, the increments applied to
    `used` (one entry per option), and the exception. -/
def setParams (env : Env) (cfg : DurCfg) (parseReal : Str → NumRes R) (top : Kind)
    (pfx : Str) : List Str → Store R → Store R × List Nat × Option Err
  | [], st => (st, [], none)
  | kv :: rest, st =>
    if optPrefix kv != pfx then
      let r := setParams env cfg parseReal top pfx rest st
      (r.1, 0 :: r.2.1, r.2.2)
    else
      match setParam env cfg parseReal (keyFuel (optKey kv)) top [] (optKey kv) (optValue kv) st with
      | (st1, some err) => (st1, 1 :: rest.map (fun _ => 0), some err)
      | (st1, none) =>
        let r := setParams env cfg parseReal top pfx rest st1
        (r.1, 1 :: r.2.1, r.2.2)

end leaf

/-! ### Declarations used only by the table theorems -/

structure FieldDecl where
  name : String
  cxxType : String
  kind : Kind
  deriving DecidableEq, Repr, Inhabited

structure StructDecl where
  name : String
  file : String
  fields : List FieldDecl
  deriving DecidableEq, Repr, Inhabited

structure EnumDecl where
  name : String
  file : String
  /-- enumerator, value, `[[deprecated]]` -/
  enumerators : List (String × Int × Bool)
  deriving DecidableEq, Repr, Inhabited

/-- ASCII transliteration convention of `PARAMS_MEMBER_ALIAS(alias, name)`. -/
def greekName (c : Char) : Option String :=
  match c with
  | 'α' => some "alpha" | 'β' => some "beta" | 'γ' => some "gamma" | 'δ' => some "delta"
  | 'ε' => some "epsilon" | 'ϵ' => some "epsilon" | 'ζ' => some "zeta" | 'η' => some "eta"
  | 'θ' => some "theta" | 'κ' => some "kappa" | 'λ' => some "lambda" | 'μ' => some "mu"
  | 'ν' => some "nu" | 'ξ' => some "xi" | 'π' => some "pi" | 'ρ' => some "rho" | 'σ' => some "sigma"
  | 'τ' => some "tau" | 'φ' => some "phi" | 'ψ' => some "psi" | 'ω' => some "omega"
  | _ => none

/-- Member name with Greek letters spelled out and `_` dropped (so that `Lγ_factor` and
    `L_gamma_factor` compare equal). -/
def translit (s : String) : String :=
  String.join (s.toList.map fun c =>
    match greekName c with
    | some n => n
    | none => if c == '_' then "" else String.singleton c)

end Alpaqa.C18
