/-
  C04 base layer (core Lean only): the model of alpaqa's `ProblemVTable` as a record of oracle
  functions, the parallel record of call traces, and the two loop / update primitives the
  generated code (`Alpaqa/Gen/C04.lean`) is written in.

  Conventions (shared with `gen/gen_c04.py`):
  * a C++ slot `R name(crvec a, …, rvec out1, …) const` becomes a function of the `crvec` / scalar
    arguments returning `R × out1 × …` (`void` and workspace arguments `work_*` are dropped);
  * an `rvec` argument that some path of a default leaves untouched is passed in as `<name>_in`
    (only `eval_ψ`'s `ŷ`, in the `y.size() == 0` shortcut);
  * the Hessian slots return `Option` (`none` = the C++ throws `not_implemented_error`), and the
    pointer comparisons `vtable.X != default_X` are the Boolean fields `p_X`.
-/
import Alpaqa.Model.Vec

namespace Alpaqa.C04
open Alpaqa

/-- `ProblemVTable<Conf>`: dimensions, the required functions C04 talks about, and the optional
    slots (each holds either the user's function or the default, see `resolve`). -/
structure VTable (α : Type) where
  n : Nat
  m : Nat
  -- required
  eval_proj_diff_g : Vec α → Vec α
  eval_f : Vec α → α
  eval_grad_f : Vec α → Vec α
  eval_g : Vec α → Vec α
  eval_grad_g_prod : Vec α → Vec α → Vec α
  -- second order (`none` = throws not_implemented_error)
  p_eval_hess_L_prod : Bool
  p_eval_hess_L : Bool
  p_eval_hess_psi_prod : Bool
  p_eval_hess_psi : Bool
  eval_hess_L_prod : Vec α → Vec α → α → Vec α → Option (Vec α)
  eval_hess_L : Vec α → Vec α → α → Option (Vec α)
  eval_hess_psi_prod : Vec α → Vec α → Vec α → α → Vec α → Option (Vec α)
  eval_hess_psi : Vec α → Vec α → Vec α → α → Option (Vec α)
  -- combined evaluations
  eval_f_grad_f : Vec α → α × Vec α
  eval_f_g : Vec α → α × Vec α
  eval_grad_f_grad_g_prod : Vec α → Vec α → Vec α × Vec α
  -- Lagrangian / augmented Lagrangian
  eval_grad_L : Vec α → Vec α → Vec α
  eval_psi : Vec α → Vec α → Vec α → Vec α → α × Vec α
  eval_grad_psi : Vec α → Vec α → Vec α → Vec α
  eval_psi_grad_psi : Vec α → Vec α → Vec α → α × Vec α

/-- Call traces: for every slot, the list of *problem member functions* (required or
    user-supplied) that a call of the slot with these arguments reaches, in call order. -/
structure TraceVT (α : Type) where
  eval_proj_diff_g : Vec α → List String
  eval_f : Vec α → List String
  eval_grad_f : Vec α → List String
  eval_g : Vec α → List String
  eval_grad_g_prod : Vec α → Vec α → List String
  eval_hess_L_prod : Vec α → Vec α → α → Vec α → List String
  eval_hess_L : Vec α → Vec α → α → List String
  eval_hess_psi_prod : Vec α → Vec α → Vec α → α → Vec α → List String
  eval_hess_psi : Vec α → Vec α → Vec α → α → List String
  eval_f_grad_f : Vec α → List String
  eval_f_g : Vec α → List String
  eval_grad_f_grad_g_prod : Vec α → Vec α → List String
  eval_grad_L : Vec α → Vec α → List String
  eval_psi : Vec α → Vec α → Vec α → Vec α → List String
  eval_grad_psi : Vec α → Vec α → Vec α → List String
  eval_psi_grad_psi : Vec α → Vec α → Vec α → List String

/-- `for (index_t i = 0; i < n; ++i) body` as a left fold over `0 … n-1`. -/
@[inline] def forRange {σ : Type} (n : Nat) (body : Nat → σ → σ) (s : σ) : σ :=
  (List.range n).foldl (fun s i => body i s) s

/-- `v(i) = a`. -/
@[inline] def vset {α : Type} (v : Vec α) (i : Nat) (a : α) : Vec α := v.set i a

end Alpaqa.C04
