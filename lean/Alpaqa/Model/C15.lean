/-
  C15 hand-written models (tied to /repo by the correspondence run `checks/c15.py`):
  the parts of `BoxConstrProblem` that are not pure componentwise expressions.
-/
import Alpaqa.Model.Vec
import Alpaqa.Gen.C15

namespace Alpaqa.C15
open Alpaqa

section
variable {α : Type} [Add α] [Sub α] [Mul α] [Neg α] [LT α] [DecidableLT α] [BEq α] [OfNat α 0]

/-- `add_to_J_if_in_box_interior`: strict interior test. -/
@[inline] def inInterior (lb ub xfw : α) : Bool := decide (lb < xfw) && decide (xfw < ub)

/-- One component of `eval_inactive_indices_res_lna`, general (box + ℓ1) branch
    (`update_J_general`). -/
def inactiveGeneral (lam γ lb ub xfw : α) : Bool :=
  if lam == 0 then inInterior lb ub xfw
  else if γ * lam < xfw then inInterior lb ub (xfw - γ * lam)
  else if xfw < -γ * lam then inInterior lb ub (xfw + γ * lam)
  else false

/-- `BoxConstrProblem::eval_inactive_indices_res_lna`: the list `J` (ascending), for
    `l1_reg` of size 0, 1 or n. -/
def inactiveIndices (l1 : Vec α) (γ : α) (x g lb ub : Vec α) : List Nat :=
  let n := x.length
  let lamIs0 : Bool := l1.length == 0 || (l1.length == 1 && vget l1 0 == 0)
  (List.range n).filter fun i =>
    let xfw := vget x i - γ * vget g i
    if lamIs0 then inInterior (vget lb i) (vget ub i) xfw
    else
      let lam := if l1.length == 0 then 0 else if l1.length == 1 then vget l1 0 else vget l1 i
      inactiveGeneral lam γ (vget lb i) (vget ub i) xfw

/-- One ALM component of `eval_proj_multipliers_box` (`none` = infinite bound). -/
def projMult1 (lbInf ubInf : Bool) (M y : α) : α :=
  let ylb := if lbInf then 0 else -M
  let yub := if ubInf then 0 else M
  emin (emax y ylb) yub

/-- `eval_proj_multipliers_box`: first `split` components zeroed, the rest clamped. -/
def projMultipliers (lbInf ubInf : List Bool) (split : Nat) (M : α) (y : Vec α) : Vec α :=
  (List.range y.length).map fun i =>
    if i < split then 0 else projMult1 (lbInf.getD i false) (ubInf.getD i false) M (vget y i)

/-- `eval_prox_grad_step` dispatch of `BoxConstrProblem` on `l1_reg.size()`; returns
    `(h(x̂), x̂, p)`. -/
def proxGradStep [LE α] (l1 : Vec α) (γ : α) (x g lb ub : Vec α) : α × Vec α × Vec α :=
  let idx := List.range x.length
  if l1.length == 0 then
    let r := idx.map fun i => Gen.projGradStepBox γ (vget x i) (vget g i) (vget lb i) (vget ub i)
    (0, r.map (·.2), r.map (·.1))
  else if l1.length == 1 then
    let lam := vget l1 0
    let r := idx.map fun i =>
      Gen.proxGradStepBoxL1 lam γ (vget x i) (vget g i) (vget lb i) (vget ub i)
    let xh := r.map (·.2)
    (lam * norm1 xh, xh, r.map (·.1))
  else
    let r := idx.map fun i =>
      Gen.proxGradStepBoxL1 (vget l1 i) γ (vget x i) (vget g i) (vget lb i) (vget ub i)
    let xh := r.map (·.2)
    (norm1 (vmul xh l1), xh, r.map (·.1))

/-- `L1Norm<Conf, real_t>::prox`: `(out, returned value)`; `λ == 0` is the identity with value 0,
    otherwise the generated soft-threshold on every component and the generated returned value
    `λ * norm_1(out)`. -/
def l1ProxScalarWeight (lam γ : α) (v : Vec α) : Vec α × α :=
  if lam == 0 then (v, 0)
  else
    let out := v.map fun a => Gen.l1ProxScalarW lam γ a
    (out, Gen.l1ValueScalarW lam out)

/-- `L1Norm<Conf, vec>::prox`: an empty weight vector is replaced by all ones; generated
    soft-threshold per component, generated returned value `norm_1(out.cwiseProduct(λ))`. -/
def l1ProxVectorWeight [OfNat α 1] (lam : Vec α) (γ : α) (v : Vec α) : Vec α × α :=
  let lam := if lam.length == 0 then v.map (fun _ => (1 : α)) else lam
  let out := (List.range v.length).map fun i => Gen.l1ProxVectorW (vget lam i) γ (vget v i)
  (out, Gen.l1ValueVectorW lam out)

/-- The generic default of the `prox_step` customisation point (`prox_step_fn`, "prox_step from
    prox"): `fb_step = in + γ_fwd·fwd_step; h = prox(func, fb_step, out, γ); fb_step = out − in;
    return h` — for any functor, given its `prox` (with `γ` already applied) as a function
    `input ↦ (out, h)`.  Returns `(h, out, fb_step)`. -/
def proxStepDefault (prox : Vec α → Vec α × α) (inp fwd : Vec α) (γfwd : α) : α × Vec α × Vec α :=
  let idx := List.range inp.length
  let fb0 := idx.map fun i => Gen.proxStepDefaultFwd (vget inp i) γfwd (vget fwd i)
  let r := prox fb0
  (r.2, r.1, idx.map fun i => Gen.proxStepDefaultFb (vget r.1 i) (vget inp i))

end

/-! ### `L1NormComplex::prox` and the post-SVD part of `NuclearNorm::prox` -/
section
variable {α : Type} [Add α] [Sub α] [Mul α] [Div α] [Neg α] [LT α] [LE α] [DecidableLT α]
  [DecidableLE α] [BEq α] [RealLike α] [OfNat α 0] [OfNat α 1]

/-- The real-matrix overload of `L1NormComplex::prox` reinterprets a real vector of even length
    as complex numbers: consecutive (re, im) pairs (`start_lifetime_as_array<cplx_t>`). -/
def toCVec : Vec α → CVec α
  | a :: b :: r => (a, b) :: toCVec r
  | _ => []

def ofCVec (v : CVec α) : Vec α := v.flatMap fun z => [z.1, z.2]

/-- `L1NormComplex<Conf, real_t>::prox`: `(out, returned value)`; `λ == 0` is the identity. -/
def cplxL1ProxScalarW (lam γ : α) (v : CVec α) : CVec α × α :=
  if lam == 0 then (v, 0)
  else
    let out := v.map fun z => Gen.cplxSoftScalarW γ lam z.1 z.2
    (out, Gen.cplxL1ValueScalarW lam out)

/-- `L1NormComplex<Conf, vec>::prox`: an empty weight vector is replaced by all ones. -/
def cplxL1ProxVectorW (lam : Vec α) (γ : α) (v : CVec α) : CVec α × α :=
  let lam := if lam.length == 0 then v.map (fun _ => (1 : α)) else lam
  let out := (List.range v.length).map fun i =>
    let z := v.getD i (0, 0)
    Gen.cplxSoftVectorW γ (vget lam i) z.1 z.2
  (out, Gen.cplxL1ValueVectorW lam out)

/-- `NuclearNorm::prox` after `svd.compute`: given the singular values the SVD oracle returned,
    the thresholded singular values, the returned value and the rank used for the reconstruction
    `U(:, 0:rank) · diag(sv(0:rank)) · V(:, 0:rank)ᵀ`.  `none` = the `λ == 0` early exit
    (`out = in`, value 0, no SVD). -/
def nuclearPost (lam γ : α) (σ : Vec α) : Option (Vec α × α × Nat) :=
  if lam == 0 then none
  else
    let sv := σ.map (Gen.nucThreshold lam γ)
    some (sv, Gen.nucValue lam sv, Gen.nucRank sv)

/-- The reconstruction `out = U(:, 0:rank) · diag(sv(0:rank)) · V(:, 0:rank)ᵀ` (all matrices
    column-major; `U` is rows × k, `V` is cols × k).  Evaluation order of Eigen's lazy
    coefficient-based product (used below its GEMM threshold): `(U(i,k)·sv_k)·V(j,k)` summed
    left to right from the first term; an empty sum is 0. -/
def nuclearReconstruct (rows cols rank : Nat) (sv U V : Vec α) : Vec α :=
  (List.range cols).flatMap fun j => (List.range rows).map fun i =>
    vsum ((List.range rank).map fun k => (vget U (i + k * rows) * vget sv k) * vget V (j + k * cols))

end
end Alpaqa.C15
