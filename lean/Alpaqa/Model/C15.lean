/-
  C15 hand-written models (tied to /repo by the correspondence run `checks/c15.py`):
  the parts of `BoxConstrProblem` that are not pure componentwise expressions.
-/
import Alpaqa.Model.Vec
import Alpaqa.Gen.C15

namespace Alpaqa.C15
open Alpaqa

section
variable {α : Type} [Add α] [Sub α] [Mul α] [Neg α] [LT α] [DecidableLT α] [BEq α] [OfNat α 0]

/-- `add_to_J_if_in_box_interior`: strict interior test. -/
@[inline] def inInterior (lb ub xfw : α) : Bool := decide (lb < xfw) && decide (xfw < ub)

/-- One component of `eval_inactive_indices_res_lna`, general (box + ℓ1) branch
    (`update_J_general`). -/
def inactiveGeneral (lam γ lb ub xfw : α) : Bool :=
  if lam == 0 then inInterior lb ub xfw
  else if γ * lam < xfw then inInterior lb ub (xfw - γ * lam)
  else if xfw < -γ * lam then inInterior lb ub (xfw + γ * lam)
  else false

/-- `BoxConstrProblem::eval_inactive_indices_res_lna`: the list `J` (ascending), for
    `l1_reg` of size 0, 1 or n. -/
def inactiveIndices (l1 : Vec α) (γ : α) (x g lb ub : Vec α) : List Nat :=
  let n := x.length
  let lamIs0 : Bool := l1.length == 0 || (l1.length == 1 && vget l1 0 == 0)
  (List.range n).filter fun i =>
    let xfw := vget x i - γ * vget g i
    if lamIs0 then inInterior (vget lb i) (vget ub i) xfw
    else
      let lam := if l1.length == 0 then 0 else if l1.length == 1 then vget l1 0 else vget l1 i
      inactiveGeneral lam γ (vget lb i) (vget ub i) xfw

/-- One ALM component of `eval_proj_multipliers_box` (`none` = infinite bound). -/
def projMult1 (lbInf ubInf : Bool) (M y : α) : α :=
  let ylb := if lbInf then 0 else -M
  let yub := if ubInf then 0 else M
  emin (emax y ylb) yub

/-- `eval_proj_multipliers_box`: first `split` components zeroed, the rest clamped. -/
def projMultipliers (lbInf ubInf : List Bool) (split : Nat) (M : α) (y : Vec α) : Vec α :=
  (List.range y.length).map fun i =>
    if i < split then 0 else projMult1 (lbInf.getD i false) (ubInf.getD i false) M (vget y i)

/-- `eval_prox_grad_step` dispatch of `BoxConstrProblem` on `l1_reg.size()`; returns
    `(h(x̂), x̂, p)`. -/
def proxGradStep [LE α] (l1 : Vec α) (γ : α) (x g lb ub : Vec α) : α × Vec α × Vec α :=
  let idx := List.range x.length
  if l1.length == 0 then
    let r := idx.map fun i => Gen.projGradStepBox γ (vget x i) (vget g i) (vget lb i) (vget ub i)
    (0, r.map (·.2), r.map (·.1))
  else if l1.length == 1 then
    let lam := vget l1 0
    let r := idx.map fun i =>
      Gen.proxGradStepBoxL1 lam γ (vget x i) (vget g i) (vget lb i) (vget ub i)
    let xh := r.map (·.2)
    (lam * norm1 xh, xh, r.map (·.1))
  else
    let r := idx.map fun i =>
      Gen.proxGradStepBoxL1 (vget l1 i) γ (vget x i) (vget g i) (vget lb i) (vget ub i)
    let xh := r.map (·.2)
    (norm1 (vmul xh l1), xh, r.map (·.1))

end
end Alpaqa.C15
