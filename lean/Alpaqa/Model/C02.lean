/-
  C02 — executable, decidable certificate checkers (core Lean only; run at core `Rat` by
  `Driver/C02.lean`, proved sound over every linearly ordered field in `Props/C02.lean`).

  The "independent active-set solve" of the property is *proof-carrying*: whoever produces the pair
  `(x*, y*)` (here: `checks/c02.py`, exact `Fraction` arithmetic), `isExactKKT` re-checks the exact
  KKT conditions of

      minimise  ½ xᵀQx + cᵀx   subject to   x ∈ C = Π [Clb_i, Cub_i],   A x ∈ D = Π [Dlb_j, Dub_j]

  (bounds optional = infinite), and `isSCCert` re-checks the strong-convexity constant `μ` from a
  factor `B` with `½(Q + Qᵀ) = μ I + BᵀB`.  Vectors are `Fin n → α`, matrices `Fin m → Fin n → α`;
  sums are the structural recursion `fsum` (bridged to `∑ i` in `Proofs/C02.lean`).

  Only `+`, `*`, unary `-`, `<`, `≤`, `=` and the literal `0` are used (no division: the stationarity
  residual is tested through its double `2·r*`, whose signs are those of `r*`), so the same
  definitions run at `Rat` and `Int`.
-/
namespace Alpaqa.C02

section
variable {α : Type}

/-- `Σ_{i<n} f i`, by structural recursion on `n` (`f 0 + (f 1 + (… + 0))`). -/
def fsum [Add α] [OfNat α 0] : (n : Nat) → (Fin n → α) → α
  | 0, _ => 0
  | n + 1, f => f 0 + fsum n (fun i => f i.succ)

/-- `∀ i < n, p i`, decidably. -/
def allFin : (n : Nat) → (Fin n → Bool) → Bool
  | 0, _ => true
  | n + 1, p => p 0 && allFin n (fun i => p i.succ)

variable [Add α] [Mul α] [Neg α] [OfNat α 0]

def fdot {n : Nat} (x y : Fin n → α) : α := fsum n fun i => x i * y i

/-- `A x`. -/
def mulV {m n : Nat} (A : Fin m → Fin n → α) (x : Fin n → α) : Fin m → α := fun j => fdot (A j) x

/-- `Aᵀ y`. -/
def tmulV {m n : Nat} (A : Fin m → Fin n → α) (y : Fin m → α) : Fin n → α :=
  fun i => fsum m fun j => A j i * y j

/-- `2·(Q_s x + c + Aᵀy)_i` with `Q_s = ½(Q + Qᵀ)`: twice the gradient of the Lagrangian. -/
def grad2 {m n : Nat} (Q : Fin n → Fin n → α) (c : Fin n → α) (A : Fin m → Fin n → α)
    (x : Fin n → α) (y : Fin m → α) : Fin n → α :=
  fun i => (fsum n fun k => (Q i k + Q k i) * x k) + ((c i + c i) + (tmulV A y i + tmulV A y i))

variable [LT α] [LE α] [DecidableLT α] [DecidableLE α] [DecidableEq α]

/-- `z ∈ [lb, ub]`, `none` = infinite side. -/
def inBoxB (lb ub : Option α) (z : α) : Bool :=
  (match lb with | none => true | some l => decide (l ≤ z)) &&
  (match ub with | none => true | some u => decide (z ≤ u))

/-- Componentwise sign condition "`nv ∈ N_[lb,ub](z)`" w.r.t. the active set of `z`:
    a positive component needs `z` *on* its (finite) upper bound, a negative one on its lower bound. -/
def signB (lb ub : Option α) (z nv : α) : Bool :=
  (if 0 < nv then (match ub with | none => false | some u => decide (u = z)) else true) &&
  (if nv < 0 then (match lb with | none => false | some l => decide (l = z)) else true)

/-- `x* ∈ C`. -/
def chkXinC {n : Nat} (Clb Cub : Fin n → Option α) (xs : Fin n → α) : Bool :=
  allFin n fun i => inBoxB (Clb i) (Cub i) (xs i)

/-- `A x* ∈ D`. -/
def chkAxInD {m n : Nat} (A : Fin m → Fin n → α) (Dlb Dub : Fin m → Option α) (xs : Fin n → α) : Bool :=
  allFin m fun j => inBoxB (Dlb j) (Dub j) (mulV A xs j)

/-- `r* = −(Q_s x* + c + Aᵀy*)` satisfies the sign conditions of `N_C(x*)` (tested on `2 r*`). -/
def chkStat {m n : Nat} (Q : Fin n → Fin n → α) (c : Fin n → α) (A : Fin m → Fin n → α)
    (Clb Cub : Fin n → Option α) (xs : Fin n → α) (ys : Fin m → α) : Bool :=
  allFin n fun i => signB (Clb i) (Cub i) (xs i) (-(grad2 Q c A xs ys i))

/-- `y*` satisfies the sign conditions of `N_D(A x*)`. -/
def chkMult {m n : Nat} (A : Fin m → Fin n → α) (Dlb Dub : Fin m → Option α)
    (xs : Fin n → α) (ys : Fin m → α) : Bool :=
  allFin m fun j => signB (Dlb j) (Dub j) (mulV A xs j) (ys j)

/-- The exact-KKT certificate checker. -/
def isExactKKT {m n : Nat} (Q : Fin n → Fin n → α) (c : Fin n → α) (A : Fin m → Fin n → α)
    (Clb Cub : Fin n → Option α) (Dlb Dub : Fin m → Option α) (xs : Fin n → α) (ys : Fin m → α) : Bool :=
  chkXinC Clb Cub xs && chkAxInD A Dlb Dub xs && chkStat Q c A Clb Cub xs ys && chkMult A Dlb Dub xs ys

/-- Strong-convexity certificate: `Q + Qᵀ = 2μ I + 2 BᵀB` entry by entry (`B` is `k × n`). -/
def isSCCert {n k : Nat} (Q : Fin n → Fin n → α) (μ : α) (B : Fin k → Fin n → α) : Bool :=
  allFin n fun i => allFin n fun j =>
    decide (Q i j + Q j i =
      (if i = j then μ + μ else 0) + ((fsum k fun l => B l i * B l j) + (fsum k fun l => B l i * B l j)))

end

end Alpaqa.C02
