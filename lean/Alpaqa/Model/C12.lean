/-
  C12 hand-written models (core Lean only), tied to /repo by the correspondence run
  `checks/c12.py` (harness/c12.cpp ↔ Driver/C12.lean):

  * `forward` / `backward`  — `OCPEvaluator::forward / backward` (ocp-vars.hpp) over the flat
    storage vector, addressed through the *generated* layout functions of `Alpaqa/Gen/C12.lean`
    (every read is a fresh read of the storage, as with Eigen views), with the user functions of
    the control problem as oracles (`OCP`).
  * `indexSetUpdate` …      — `detail::IndexSet::update` (index-set.hpp) on top of the generated
    loops `buildJ` / `computeComplement`, and the accessors `indices(i)` / `compl_indices(i)`.
  * `factorMasked` / `solveMasked` — `StatefulLQRFactor::factor_masked / solve_masked` (lqr.hpp),
    statement by statement, over row-list matrices; `LDLT/PartialPivLU::solve` are the oracles
    `solveM` / `solveV`.
-/
import Alpaqa.Model.Vec
import Alpaqa.Gen.C12

namespace Alpaqa.C12
open Alpaqa Alpaqa.Gen.C12

/-! ### Segments of a flat vector (`v.segment(start, len)`) -/
section seg
variable {β : Type}

/-- read `v.segment(s, len)` -/
def getSeg (st : List β) (s len : Nat) : List β := (st.drop s).take len
/-- assign `v.segment(s, vals.size()) = vals` -/
def setSeg (st : List β) (s : Nat) (vals : List β) : List β :=
  st.take s ++ vals ++ st.drop (s + vals.length)

end seg

section
variable {α : Type} [Add α] [Sub α] [Mul α] [Div α] [Neg α] [LT α] [DecidableLT α]
  [OfNat α 0] [OfNat α 1] [OfNat α 2]

/-! ### Boxes with possibly infinite sides, ALM penalty kernels (box.hpp) -/

/-- `Box`: per component `(lower, upper)`, `none` = infinite side. -/
abbrev Box (α : Type) := List (Bnd α × Bnd α)

/-- one component of `projecting_difference(ζ, D) = ζ − ζ.cwiseMax(lb).cwiseMin(ub)` -/
@[inline] def projDiff1 (z : α) (b : Bnd α × Bnd α) : α := z - minUb (maxLb z b.1) b.2
def projDiff (ζ : Vec α) (D : Box α) : Vec α := List.zipWith projDiff1 ζ D

/-- `ζ = c + μ.asDiagonal().inverse() * y`, i.e. `ζᵢ = cᵢ + (1/μᵢ)·yᵢ`. -/
def zeta (c μ y : Vec α) : Vec α := vadd c (vmul (μ.map fun m => 1 / m) y)

/-- `dist_squared(ζ, D, μ) = d.dot(μ.cwiseProduct(d))`, `d = ζ − Π_D ζ`. -/
def distSqW (ζ : Vec α) (D : Box α) (μ : Vec α) : α :=
  dot (projDiff ζ D) (vmul μ (projDiff ζ D))

/-- `μ.asDiagonal() * projecting_difference(ζ, D)` -/
def penGrad (ζ : Vec α) (D : Box α) (μ : Vec α) : Vec α := vmul μ (projDiff ζ D)

/-! ### The control problem's functions as oracles -/

/-- What `OCPEvaluator` calls on the `TypeErasedControlProblem`. -/
structure OCP (α : Type) where
  /-- `eval_f(t, x, u)` -/
  f : Nat → Vec α → Vec α → Vec α
  /-- `eval_h(t, x, u)` -/
  h : Nat → Vec α → Vec α → Vec α
  /-- `eval_h_N(x)` -/
  hN : Vec α → Vec α
  /-- `eval_l(t, h)` -/
  l : Nat → Vec α → α
  /-- `eval_l_N(h)` -/
  lN : Vec α → α
  /-- `eval_constr(t, x)` -/
  c : Nat → Vec α → Vec α
  /-- `eval_constr_N(x)` -/
  cN : Vec α → Vec α
  /-- `eval_grad_f_prod(t, x, u, p)` = `(Aᵀp ; Bᵀp)` -/
  gradFProd : Nat → Vec α → Vec α → Vec α → Vec α
  /-- `eval_qr(t, xu, h)` -/
  qr : Nat → Vec α → Vec α → Vec α
  /-- `eval_q_N(x, h)` -/
  qN : Vec α → Vec α → Vec α
  /-- `eval_grad_constr_prod(t, x, p)` -/
  gradCProd : Nat → Vec α → Vec α → Vec α
  /-- `eval_grad_constr_prod_N(x, p)` -/
  gradCProdN : Vec α → Vec α → Vec α

/-! ### `OCPEvaluator::forward` -/

/-- `½·dist²_μ(c + μ⁻¹y, D)` as the code accumulates it: `real_t(0.5) * dist_squared(ζ, D, μ)`. -/
def penaltyTerm (c : Vec α) (D : Box α) (μ y : Vec α) : α := (1 / 2 : α) * distSqW (zeta c μ y) D μ

/-- `if (nh > 0) { eval_h(t, xk, uk, hk); V += eval_l(t, hk); } else V += eval_l(t, xuk);` -/
def outStep (P : OCP α) (v : OCPVars) (t : Nat) (s : Vec α × α) : Vec α × α :=
  if v.nh > 0 then
    let st1 := setSeg s.1 (v.hkStart t)
      (P.h t (getSeg s.1 (v.xkStart t) (v.xkLen t)) (getSeg s.1 (v.ukStart t) (v.ukLen t)))
    (st1, s.2 + P.l t (getSeg st1 (v.hkStart t) (v.hkLen t)))
  else (s.1, s.2 + P.l t (getSeg s.1 (v.xukStart t) (v.xukLen t)))

/-- `if (nc > 0) { eval_constr(t, xk, ck); V += ½·dist²_μ(ck + μ⁻¹yk, D); }` -/
def conStep (P : OCP α) (v : OCPVars) (D : Box α) (μ y : Vec α) (t : Nat) (s : Vec α × α) :
    Vec α × α :=
  let nc := v.nc
  if nc > 0 then
    let st2 := setSeg s.1 (v.ckStart t) (P.c t (getSeg s.1 (v.xkStart t) (v.xkLen t)))
    (st2, s.2 + penaltyTerm (getSeg st2 (v.ckStart t) (v.ckLen t)) D
                    (getSeg μ (t * nc) nc) (getSeg y (t * nc) nc))
  else s

/-- `eval_f(t, xk, uk, vars.xk(storage, t + 1));` -/
def dynStep (P : OCP α) (v : OCPVars) (t : Nat) (s : Vec α × α) : Vec α × α :=
  (setSeg s.1 (v.xkStart (t + 1))
      (P.f t (getSeg s.1 (v.xkStart t) (v.xkLen t)) (getSeg s.1 (v.ukStart t) (v.ukLen t))), s.2)

/-- body of the `for (t = 0; t < N; ++t)` loop; state = (storage, V). -/
def forwardStage (P : OCP α) (v : OCPVars) (D : Box α) (μ y : Vec α) (s : Vec α × α) (t : Nat) :
    Vec α × α :=
  dynStep P v t (conStep P v D μ y t (outStep P v t s))

/-- terminal outputs / cost: `eval_h_N`, `eval_l_N`. -/
def outStepN (P : OCP α) (v : OCPVars) (s : Vec α × α) : Vec α × α :=
  let N := v.N
  if v.nh_N > 0 then
    let st1 := setSeg s.1 (v.hkStart N) (P.hN (getSeg s.1 (v.xkStart N) (v.xkLen N)))
    (st1, s.2 + P.lN (getSeg st1 (v.hkStart N) (v.hkLen N)))
  else (s.1, s.2 + P.lN (getSeg s.1 (v.xkStart N) (v.xkLen N)))

/-- terminal constraints: `eval_constr_N`, penalty with `D_N`, multipliers at `N·nc`. -/
def conStepN (P : OCP α) (v : OCPVars) (DN : Box α) (μ y : Vec α) (s : Vec α × α) : Vec α × α :=
  let N := v.N
  let nc := v.nc
  let ncN := v.nc_N
  if ncN > 0 then
    let st2 := setSeg s.1 (v.ckStart N) (P.cN (getSeg s.1 (v.xkStart N) (v.xkLen N)))
    (st2, s.2 + penaltyTerm (getSeg st2 (v.ckStart N) (v.ckLen N)) DN
                    (getSeg μ (N * nc) ncN) (getSeg y (N * nc) ncN))
  else s

/-- terminal part of `forward`. -/
def forwardTerminal (P : OCP α) (v : OCPVars) (DN : Box α) (μ y : Vec α) (s : Vec α × α) :
    Vec α × α :=
  conStepN P v DN μ y (outStepN P v s)

/-- `OCPEvaluator::forward(storage, D, D_N, μ, y)`: returns the updated storage and `V`. -/
def forward (P : OCP α) (v : OCPVars) (D DN : Box α) (μ y : Vec α) (st : Vec α) : Vec α × α :=
  forwardTerminal P v DN μ y ((List.range v.N).foldl (forwardStage P v D μ y) (st, 0))

/-! ### `OCPEvaluator::forward_simulate(storage)` -/

/-- body of the loop of `forward_simulate`: `eval_h` (`nh > 0`), `eval_constr` (`nc > 0`), `eval_f`;
    no cost is accumulated and neither `D`, `μ` nor `y` is read. -/
def simStage (P : OCP α) (v : OCPVars) (st : Vec α) (t : Nat) : Vec α :=
  let st1 := if v.nh > 0 then
      setSeg st (v.hkStart t)
        (P.h t (getSeg st (v.xkStart t) (v.xkLen t)) (getSeg st (v.ukStart t) (v.ukLen t)))
    else st
  let st2 := if v.nc > 0 then
      setSeg st1 (v.ckStart t) (P.c t (getSeg st1 (v.xkStart t) (v.xkLen t)))
    else st1
  setSeg st2 (v.xkStart (t + 1))
    (P.f t (getSeg st2 (v.xkStart t) (v.xkLen t)) (getSeg st2 (v.ukStart t) (v.ukLen t)))

/-- `OCPEvaluator::forward_simulate(storage)`: the roll-out `panoc-ocp.tpp` runs before a
    `backward` whose cost it does not need (`initial_lipschitz_estimate`). -/
def forwardSimulate (P : OCP α) (v : OCPVars) (st : Vec α) : Vec α :=
  let s := (List.range v.N).foldl (simStage P v) st
  let N := v.N
  let s1 := if v.nh_N > 0 then
      setSeg s (v.hkStart N) (P.hN (getSeg s (v.xkStart N) (v.xkLen N)))
    else s
  if v.nc_N > 0 then setSeg s1 (v.ckStart N) (P.cN (getSeg s1 (v.xkStart N) (v.xkLen N))) else s1

/-! ### `OCPEvaluator::backward` -/

/-- `λ`, `q_N` after the terminal part of `backward`. -/
def backwardTerminal (P : OCP α) (v : OCPVars) (DN : Box α) (μ y : Vec α) (st : Vec α) : Vec α :=
  let N := v.N
  let nc := v.nc
  let ncN := v.nc_N
  let xN := getSeg st (v.xkStart N) (v.xkLen N)
  let hN := getSeg st (v.hkStart N) (v.hkLen N)
  let lam := P.qN xN hN
  if ncN > 0 then
    let cN := getSeg st (v.ckStart N) (v.ckLen N)
    let yN := getSeg y (N * nc) ncN
    let μN := getSeg μ (N * nc) ncN
    vadd lam (P.gradCProdN xN (penGrad (zeta cN μN yN) DN μN))
  else lam

/-- the stage gradient `(q_t, r_t)` that `backward` leaves in `qr(t)`:
    `eval_qr(t, xuk, hk)` and, with stage constraints, `q += ∇c(x)·(μ ∘ (ζ − Π_D ζ))`. -/
def stageQR (P : OCP α) (v : OCPVars) (D : Box α) (μ y : Vec α) (st : Vec α) (t : Nat) :
    Vec α × Vec α :=
  let nc := v.nc
  let hk := getSeg st (v.hkStart t) (v.hkLen t)
  let xuk := getSeg st (v.xukStart t) (v.xukLen t)
  let xk := getSeg st (v.xkStart t) (v.xkLen t)
  let qr0 := P.qr t xuk hk
  let qk0 := qr0.take v.nx
  let rk := qr0.drop (qr0.length - v.nu)
  let qk :=
    if nc > 0 then
      let ck := getSeg st (v.ckStart t) (v.ckLen t)
      let yk := getSeg y (t * nc) nc
      let μk := getSeg μ (t * nc) nc
      vadd qk0 (P.gradCProd t xk (penGrad (zeta ck μk yk) D μk))
    else qk0
  (qk, rk)

/-- one trip of `for (t = N; t-- > 0;)`: returns `(λ_t, g_t, qr_t)`.
    `(q; r) ← (Aᵀλ; Bᵀλ); λ ← q; g_t ← r; (q; r) ← stage gradient; λ += q; g_t += r`. -/
def backwardStage (P : OCP α) (v : OCPVars) (D : Box α) (μ y : Vec α) (st : Vec α) (t : Nat)
    (lam : Vec α) : Vec α × Vec α × Vec α :=
  let gf := P.gradFProd t (getSeg st (v.xkStart t) (v.xkLen t)) (getSeg st (v.ukStart t) (v.ukLen t)) lam
  let qr := stageQR P v D μ y st t
  (vadd (gf.take v.nx) qr.1, vadd (gf.drop (gf.length - v.nu)) qr.2, qr.1 ++ qr.2)

/-- the loop `for (t = N; t-- > 0;)`, accumulating `g_t` and `qr_t` (stage 0 first). -/
def backwardLoop (P : OCP α) (v : OCPVars) (D : Box α) (μ y : Vec α) (st : Vec α) :
    Nat → Vec α → List (Vec α) → List (Vec α) → List (Vec α) × List (Vec α)
  | 0, _, gs, qrs => (gs, qrs)
  | t + 1, lam, gs, qrs =>
    let r := backwardStage P v D μ y st t lam
    backwardLoop P v D μ y st t r.1 (r.2.1 :: gs) (r.2.2 :: qrs)

/-- Result of `backward`: per-stage gradient blocks `g_t = g.segment(t·nu, nu)`, per-stage `qr(t)`
    blocks and `q_N`. -/
structure BackOut (α : Type) where
  gs : List (Vec α)
  qrs : List (Vec α)
  qN : Vec α

/-- `OCPEvaluator::backward(storage, g, qr, q_N, D, D_N, μ, y)`. -/
def backward (P : OCP α) (v : OCPVars) (D DN : Box α) (μ y : Vec α) (st : Vec α) : BackOut α :=
  let lamN := backwardTerminal P v DN μ y st
  let r := backwardLoop P v D μ y st v.N lamN [] []
  ⟨r.1, r.2, lamN⟩

/-- the flat gradient vector `g` (blocks `t·nu … t·nu+nu`). -/
def BackOut.g (b : BackOut α) : Vec α := b.gs.flatten

/-- the flat `qr` vector as `panoc-ocp.tpp` stores it: `qr(t) = vars.qrk(qr, t)`,
    `q_N() = vars.qk(qr, N)` (generated layout). -/
def BackOut.qrFlat (b : BackOut α) (v : OCPVars) : Vec α :=
  let base : Vec α := List.replicate v.createQrSize 0
  let s1 := (List.range b.qrs.length).foldl
    (fun acc t => setSeg acc (v.qrkStart t) (b.qrs.getD t [])) base
  setSeg s1 (v.qkStart v.N) b.qN

end

/-! ### `detail::IndexSet` -/

/-- `IndexSet::update(condition)`: for every time step the pair `(J_t, K_t)`. -/
def indexSetUpdate (cond : Nat → Nat → Bool) (N n : Nat) : List (List Nat × List Nat) :=
  (List.range N).map fun t =>
    let J := buildJ (cond t) n
    (J, computeComplement J n)

/-- the raw `storage` vector after `update`: `sizes` then, per time step, `J_t` followed by `K_t`. -/
def indexSetStorage (rows : List (List Nat × List Nat)) : List Nat :=
  rows.map (·.1.length) ++ (rows.map fun r => r.1 ++ r.2).flatten

/-- `IndexSet::indices(i)` on the raw storage (generated offsets). -/
def isetIndicesAt (sto : List Nat) (N n i : Nat) : List Nat :=
  let nJ := (getSeg sto (isetSizesStart N n) (isetSizesLen N n)).getD i 0
  getSeg (getSeg sto (isetIndicesStart N n) (isetIndicesLen N n)) (isetJStart n i nJ) (isetJLen n i nJ)

/-- `IndexSet::compl_indices(i)` on the raw storage (generated offsets). -/
def isetComplAt (sto : List Nat) (N n i : Nat) : List Nat :=
  let nJ := (getSeg sto (isetSizesStart N n) (isetSizesLen N n)).getD i 0
  getSeg (getSeg sto (isetIndicesStart N n) (isetIndicesLen N n)) (isetKStart n i nJ) (isetKLen n i nJ)

/-! ### `StatefulLQRFactor` (lqr.hpp) over row-list matrices -/
section riccati
variable {α : Type} [Add α] [Mul α] [Neg α] [OfNat α 0]

abbrev Mat (α : Type) := List (List α)

def mget (A : Mat α) (i j : Nat) : α := (A.getD i []).getD j 0
def mkM (n m : Nat) (f : Nat → Nat → α) : Mat α :=
  (List.range n).map fun i => (List.range m).map fun j => f i j
def mkV (n : Nat) (f : Nat → α) : Vec α := (List.range n).map f
/-- `Σ_{k<n} f k` (left fold from 0). -/
def sumTo (n : Nat) (f : Nat → α) : α := (List.range n).foldl (fun acc k => acc + f k) 0

/-- `C(n×m) = A(n×k) · B(k×m)` -/
def mulMM (n k m : Nat) (A B : Mat α) : Mat α :=
  mkM n m fun i j => sumTo k fun l => mget A i l * mget B l j
/-- `C(n×m) = Aᵀ · B`, `A` is `k×n`, `B` is `k×m` -/
def mulTM (n k m : Nat) (A B : Mat α) : Mat α :=
  mkM n m fun i j => sumTo k fun l => mget A l i * mget B l j
/-- `y(n) = A(n×k) · x(k)` -/
def mulMV (n k : Nat) (A : Mat α) (x : Vec α) : Vec α :=
  mkV n fun i => sumTo k fun l => mget A i l * vget x l
/-- `y(n) = Aᵀ · x`, `A` is `k×n` -/
def mulTV (n k : Nat) (A : Mat α) (x : Vec α) : Vec α :=
  mkV n fun i => sumTo k fun l => mget A l i * vget x l
def addM (n m : Nat) (A B : Mat α) : Mat α := mkM n m fun i j => mget A i j + mget B i j
def negM (n m : Nat) (A : Mat α) : Mat α := mkM n m fun i j => -mget A i j
def addV (n : Nat) (x y : Vec α) : Vec α := mkV n fun i => vget x i + vget y i
def negV (n : Nat) (x : Vec α) : Vec α := mkV n fun i => -vget x i
/-- index list lookup `J(j)` -/
def iget (J : List Nat) (j : Nat) : Nat := J.getD j 0

/-- Per-stage data of the LQR subproblem: `AB(i)`, the cost blocks behind the callbacks
    `Q(i) R(i) S(i) R_prod(i) S_prod(i)`, `q(i) r(i)`, the fixed inputs `u(i)` and the index sets. -/
structure LQRStage (α : Type) where
  A : Mat α
  B : Mat α
  Q : Mat α
  R : Mat α
  S : Mat α
  q : Vec α
  r : Vec α
  u : Vec α
  J : List Nat
  K : List Nat

/-- What `factor_masked` leaves behind for stage `i` (and the intermediates the theorems name). -/
structure RicStage (α : Type) where
  Rbar : Mat α
  Sbar : Mat α
  tvec : Vec α
  yvec : Vec α
  gain : Mat α
  e : Vec α
  /-- the cost-to-go `(P, s)` of stage `i+1` this stage was computed from -/
  Pn : Mat α
  sn : Vec α

/-- first half of the loop body of `factor_masked` (up to `gain_Ki = −gain_Ki; ei = −ei`).
    `solveM R̄ S̄` / `solveV R̄ t` stand for `R̄LU.solve(·)` of `Eigen::LDLT` / `PartialPivLU`. -/
def ricRecord (nx nu : Nat) (solveM : Mat α → Mat α → Mat α) (solveV : Mat α → Vec α → Vec α)
    (d : LQRStage α) (P : Mat α) (s : Vec α) : RicStage α :=
  let nJ := d.J.length
  let nK := d.K.length
  -- R̅ ← R + Bᵀ P B
  let BiJ := mkM nx nJ fun a j => mget d.B a (iget d.J j)
  let PBiJ := mulMM nx nx nJ P BiJ
  let Rbar0 := mulTM nJ nx nJ BiJ PBiJ
  let Rbar := addM nJ nJ Rbar0 (mkM nJ nJ fun a b => mget d.R (iget d.J a) (iget d.J b))
  -- S̅ ← S + Bᵀ P A
  let PA := mulMM nx nx nx P d.A
  let Sbar0 := mulTM nJ nx nx BiJ PA
  let Sbar := addM nJ nx Sbar0 (mkM nJ nx fun a b => mget d.S (iget d.J a) b)
  -- c = B(·,K) u(K), y ← P c + s
  let c := mkV nx fun a => sumTo nK fun k => mget d.B a (iget d.K k) * vget d.u (iget d.K k)
  let y := addV nx (mulMV nx nx P c) s
  -- t ← Bᵀy + r + R(J,K) u(K)
  let t0 := addV nJ (mulTV nJ nx BiJ y) (mkV nJ fun a => vget d.r (iget d.J a))
  let t := addV nJ t0
    (mkV nJ fun a => sumTo nK fun k => mget d.R (iget d.J a) (iget d.K k) * vget d.u (iget d.K k))
  -- K ← −R̅⁻¹S̅, e ← −R̅⁻¹t
  let gain := negM nJ nx (solveM Rbar Sbar)
  let e := negV nJ (solveV Rbar t)
  ⟨Rbar, Sbar, t, y, gain, e, P, s⟩

/-- `P ← Q + Aᵀ P A + S̅ᵀ K` (in the order the code accumulates: `AᵀPA`, `+= S̅ᵀK`, then `Q(i)(P)`). -/
def ricNextP (nx : Nat) (d : LQRStage α) (P : Mat α) (r : RicStage α) : Mat α :=
  addM nx nx
    (addM nx nx (mulTM nx nx nx d.A (mulMM nx nx nx P d.A)) (mulTM nx d.J.length nx r.Sbar r.gain))
    d.Q

/-- `s ← S̅ᵀ e + Aᵀ y + q + Sᵀ(·,K) u(K)` -/
def ricNextS (nx : Nat) (d : LQRStage α) (r : RicStage α) : Vec α :=
  addV nx
    (addV nx (addV nx (mulTV nx d.J.length r.Sbar r.e) (mulTV nx nx d.A r.yvec)) d.q)
    (mkV nx fun a => sumTo d.K.length fun k => mget d.S (iget d.K k) a * vget d.u (iget d.K k))

/-- body of the loop `for (i = N; i-- > 0;)` of `factor_masked`; state `(P, s)`;
    the cost-to-go is only updated `if (i > 0)`. -/
def factorStage (nx nu : Nat) (solveM : Mat α → Mat α → Mat α) (solveV : Mat α → Vec α → Vec α)
    (d : LQRStage α) (i : Nat) (P : Mat α) (s : Vec α) : RicStage α × Mat α × Vec α :=
  let r := ricRecord nx nu solveM solveV d P s
  if i > 0 then (r, ricNextP nx d P r, ricNextS nx d r) else (r, P, s)

/-- the loop of `factor_masked` from stage `i−1` down to `0`; returns the stage records
    (stage 0 first). -/
def factorLoop (nx nu : Nat) (solveM : Mat α → Mat α → Mat α) (solveV : Mat α → Vec α → Vec α)
    (data : Nat → LQRStage α) : Nat → Mat α → Vec α → List (RicStage α) → List (RicStage α)
  | 0, _, _, acc => acc
  | i + 1, P, s, acc =>
    let r := factorStage nx nu solveM solveV (data i) i P s
    factorLoop nx nu solveM solveV data i r.2.1 r.2.2 (r.1 :: acc)

/-- `StatefulLQRFactor::factor_masked`: `P ← 0; Q(N)(P); s = q(N);` then the loop. -/
def factorMasked (N nx nu : Nat) (solveM : Mat α → Mat α → Mat α) (solveV : Mat α → Vec α → Vec α)
    (data : Nat → LQRStage α) (QN : Mat α) (qN : Vec α) : List (RicStage α) :=
  factorLoop nx nu solveM solveV data N (addM nx nx (mkM nx nx fun _ _ => 0) QN) qN []

/-- position of `k` in the index list `J` (searched from position `pos`) -/
def lookupJ : List Nat → Nat → Nat → Option Nat
  | [], _, _ => none
  | j :: js, k, pos => if j = k then some pos else lookupJ js k (pos + 1)

/-- `Δui(Ji) = ei`: overwrite the `J` components of `base`. -/
def scatter (nu : Nat) (base : Vec α) (J : List Nat) (vals : Vec α) : Vec α :=
  mkV nu fun k => match lookupJ J k 0 with
    | some j => vget vals j
    | none => vget base k

/-- one trip of the loop of `solve_masked`: from `Δx_i` to `(Δu_i, Δx_{i+1})`. -/
def solveStage (nx nu : Nat) (d : LQRStage α) (r : RicStage α) (dx : Vec α) : Vec α × Vec α :=
  let nJ := d.J.length
  let ei := addV nJ r.e (mulMV nJ nx r.gain dx)
  let du := scatter nu d.u d.J ei
  (du, addV nx (mulMV nx nx d.A dx) (mulMV nx nu d.B du))

/-- `StatefulLQRFactor::solve_masked`: returns `[Δu_0 … Δu_{N−1}]` and `[Δx_0 … Δx_N]`. -/
def solveLoop (nx nu : Nat) (data : Nat → LQRStage α) :
    List (RicStage α) → Nat → Vec α → List (Vec α) × List (Vec α)
  | [], _, dx => ([], [dx])
  | r :: rs, i, dx =>
    let p := solveStage nx nu (data i) r dx
    let rest := solveLoop nx nu data rs (i + 1) p.2
    (p.1 :: rest.1, dx :: rest.2)

def solveMasked (nx nu : Nat) (data : Nat → LQRStage α) (stages : List (RicStage α)) :
    List (Vec α) × List (Vec α) :=
  solveLoop nx nu data stages 0 (mkV nx fun _ => 0)

end riccati

end Alpaqa.C12
