/-
  C11 hand-written model: the truncated-CG loop of `SteihaugCG::solve` (steihaugcg.hpp) over a
  Hessian-vector oracle `B : Vec α → Vec α`, and `NewtonTRDirection::apply` (newton-tr.hpp) on top
  of it.  Every number, vector and branch condition is computed by a kernel regenerated from the
  C++ on every run (`Alpaqa/Gen/C11.lean`); what is written by hand here is the loop, the order of
  the kernel calls, the storage aliasing (`pa = r`, `pb = d`) and the index-set split J / K.

  Tied to /repo by the bit-exact correspondence run of `checks/c11.py` (step, value, number of
  Hessian products of each kind and the final workspaces `z r d` are compared).
-/
import Alpaqa.Model.Vec
import Alpaqa.Gen.C11

namespace Alpaqa.C11
open Alpaqa Alpaqa.Gen.C11

/-- Which `return` of `solve` was taken. `fuel` is not a C++ exit: it marks an exhausted
    recursion budget of the Lean loop and is proved unreachable (`Props.C11.never_fuel`). -/
inductive Exit where
  | negCurvA   -- `dBd <= 0`, returned `pa` (lower root)
  | negCurvB   -- `dBd <= 0`, returned `pb` (upper root)
  | alphaNaN   -- `!isfinite(alpha)`: NaN step and value
  | overLong   -- `‖z + alpha d‖ >= Δ`: boundary point at the non-negative root
  | interior   -- residual rule or iteration cap
  | zeroGrad   -- `grad_mag == 0`: the origin, value 0, before the loop
  | fuel
  deriving DecidableEq, Repr, Inhabited

def Exit.isBoundary : Exit → Bool
  | .negCurvA | .negCurvB | .overLong => true
  | _ => false

/-- The CG workspaces between two iterations. -/
structure St (α : Type) where
  z   : Vec α
  r   : Vec α
  d   : Vec α
  rsq : α
  i   : Nat

/-- What `solve` leaves behind: the step, the returned model value, the exit taken and the
    workspaces (`st.i` = number of completed iterations). -/
structure Res (α : Type) where
  s    : Vec α
  q    : α
  exit : Exit
  st   : St α
  /-- observation only (not a C++ variable that survives): `‖d‖²` of the direction of the last
      iteration, the `a` of `get_boundaries_intersections`; the monitor uses it to recognise runs in
      which the curvature test fired on underflowed quantities. -/
  dsq  : α

section
variable {α : Type} [Add α] [Sub α] [Mul α] [Div α] [Neg α] [LT α] [LE α] [DecidableLT α]
  [DecidableLE α] [BEq α] [RealLike α] [NatCast α] [OfScientific α]
  [OfNat α 0] [OfNat α 1] [OfNat α 2] [OfNat α 4]

def zeros (n : Nat) : Vec α := List.replicate n 0

/-- `NaN<config_t>`: a quiet NaN at `Float`; never produced over a field (`isFinite` is true). -/
def nanVal : α := (0 : α) / (0 : α)

/-- One pass through the body of `while (true)`. `inl` = a `return`, `inr` = next iteration. -/
def cgStep (cs : α → α → α) (B : Vec α → Vec α) (g : Vec α) (Δ tol : α) (maxIter : Int)
    (st : St α) : Sum (Res α) (St α) :=
  let c := cgCurvature B st.d                       -- (Bd, dBd)
  if cgNegCurv c.2 then
    let t  := boundaryIntersections cs st.z st.d Δ   -- (ta, tb)
    let pa := cgPointA st.z t.1 t.2 st.d
    let pb := cgPointB st.z t.1 t.2 st.d
    let qa := cgEval B g pa
    let qb := cgEval B g pb
    let ws : St α := { st with r := pa, d := pb }    -- `auto &pa = r; auto &pb = d;`
    if cgPickA qa qb then .inl ⟨pa, qa, .negCurvA, ws, sqNorm st.d⟩
    else .inl ⟨pb, qb, .negCurvB, ws, sqNorm st.d⟩
  else
    let alpha := cgAlpha st.rsq c.2
    if cgAlphaBad alpha then
      .inl ⟨st.z.map (fun _ => nanVal), nanVal, .alphaNaN, st, sqNorm st.d⟩
    else
      let s := cgTrial st.z alpha st.d
      if cgOverLong s Δ then
        let t  := boundaryIntersections cs st.z st.d Δ
        let s' := cgBoundary st.z t.1 t.2 st.d
        .inl ⟨s', cgEval B g s', .overLong, st, sqNorm st.d⟩
      else
        let rr := cgResidual st.r alpha c.1            -- (r, r_next_sq, r_next)
        if cgInteriorExit rr.2.2 tol st.i maxIter then
          .inl ⟨s, cgEval B g s, .interior, { st with r := rr.1 }, sqNorm st.d⟩
        else
          let nx := cgNext rr.2.1 st.rsq st.d rr.1 s st.z st.i   -- (β, r_sq, d, z, i)
          .inr ⟨nx.2.2.2.1, rr.1, nx.2.2.1, nx.2.1, nx.2.2.2.2⟩

/-- `while (true)` with a recursion budget. -/
def cgLoop (cs : α → α → α) (B : Vec α → Vec α) (g : Vec α) (Δ tol : α) (maxIter : Int) :
    Nat → St α → Res α
  | 0, st => ⟨st.z, 0, .fuel, st, 0⟩
  | f + 1, st =>
    match cgStep cs B g Δ tol maxIter st with
    | .inl res => res
    | .inr st' => cgLoop cs B g Δ tol maxIter f st'

/-- State after the initialisation block of `solve`. -/
def cgStart (g : Vec α) : St α :=
  let ini := cgInit g                                -- (r, d, r_sq, grad_mag)
  ⟨zeros g.length, ini.1, ini.2.1, ini.2.2.1, 0⟩

/-- Enough budget for every run: an iteration with `i > max_iter` never continues. -/
def cgFuel (maxIter : Int) : Nat := (maxIter + 2).toNat + 1

/-- The loop of `solve` from the initial state (what `solve` does for a non-zero gradient). -/
def steihaugLoop (cs : α → α → α) (B : Vec α → Vec α) (g : Vec α) (Δ : α)
    (tolMax tolScale tolRoot : α) (maxIter : Int) : Res α :=
  let tol := cgTolerance tolMax tolScale tolRoot (cgInit g).2.2.2
  cgLoop cs B g Δ tol maxIter (cgFuel maxIter) (cgStart g)

/-- `SteihaugCG::solve(grad, hess_prod, trust_radius, step)` with
    `params = {tol_scale, tol_scale_root, tol_max, ·}` and `max_iter` already rounded.
    A zero gradient (`grad_mag == 0`) returns the origin with value 0 before the loop; the
    workspaces then hold the initial state (`z = 0, r = g, d = −g`). -/
def steihaug (cs : α → α → α) (B : Vec α → Vec α) (g : Vec α) (Δ : α)
    (tolMax tolScale tolRoot : α) (maxIter : Int) : Res α :=
  if cgZeroGrad (cgInit g).2.2.2 then ⟨zeros g.length, 0, .zeroGrad, cgStart g, 0⟩
  else steihaugLoop cs B g Δ tolMax tolScale tolRoot maxIter

/-- Dense Hessian as rows; the harness computes `B v` as one left-fold dot product per row. -/
def matVec (rows : List (Vec α)) (v : Vec α) : Vec α := rows.map fun row => dot row v

/-! ### Newton-TR -/

/-- `v(J)`. -/
def gather (J : List Nat) (v : Vec α) : Vec α := J.map (vget v)

/-- `base` with `base(J) = w`. -/
def overlay (base : Vec α) (J : List Nat) (w : Vec α) : Vec α :=
  (List.range base.length).map fun i =>
    match J.findIdx? (· == i) with
    | some k => vget w k
    | none   => vget base i

/-- `IndexSet::compute_complement` for an ascending `J`: the other indices, ascending. -/
def complement (J : List Nat) (n : Nat) : List Nat := (List.range n).filter fun i => !J.contains i

structure NtrOut (α : Type) where
  q   : Vec α
  val : α
  cg  : Res α

/-- `NewtonTRDirection::apply` (exact-Hessian branch, `finite_diff = false`):
    `H` is `v ↦ ∇²ψ(xₖ)·v`, `J` the inactive indices returned by the problem, `p` the
    forward-backward step. `none` = the radius guards throw. -/
def newtonTR (cs : α → α → α) (H : Vec α → Vec α) (J : List Nat) (γ : α) (p : Vec α)
    (hvf radius epsMach tolMax tolScale tolRoot : α) (maxIter : Int) : Option (NtrOut α) :=
  if ntrRadiusNotFinite radius then none
  else if ntrRadiusTooSmall radius epsMach then none
  else
    let n   := p.length
    let K   := complement J n
    let rJ0 := ntrRhs γ (gather J p)
    let q0  := overlay p J (zeros J.length)                 -- q(K) = p(K); q(J) = 0
    let nqK := ntrNormQK (gather K p)
    let rJ  := if ntrUseHess hvf then ntrRhsHess rJ0 (gather J (H q0)) hvf else rJ0
    let BJ  := fun v => gather J (H (overlay (zeros n) J v))  -- hess_vec_mult
    let res := steihaug cs BJ rJ radius tolMax tolScale tolRoot maxIter
    some ⟨overlay q0 J res.s, ntrReturn res.q nqK γ, res⟩

end
end Alpaqa.C11
