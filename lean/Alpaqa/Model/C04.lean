/-
  C04 hand-written model (core Lean only; tied to /repo by the correspondence run
  `checks/c04.py`):

  * `Provided` — which optional functions the user's problem class has (one `Option` each);
  * `resolve : Basic → Provided → VTable` — the vtable the `ProblemVTable` constructor builds:
    the user's function where supplied, otherwise the *generated* default
    (`Alpaqa/Gen/C04.lean`), which calls back *through the vtable*; `resolveT` is the same for the
    call traces;
  * the closed forms (`yhatSpec`, `dsqSpec`, `specPsi`, …) built from the four basic functions and
    the projection difference — they are what `Props/C04.lean` proves every vtable entry equal to,
    and they double as the "straightforward" user-supplied implementations in the driver.
-/
import Alpaqa.Model.Vec
import Alpaqa.Model.C04Base
import Alpaqa.Gen.C04

namespace Alpaqa.C04
open Alpaqa

/-- The functions every problem must supply (C04's part of them). -/
structure Basic (α : Type) where
  n : Nat
  m : Nat
  f : Vec α → α
  grad_f : Vec α → Vec α
  g : Vec α → Vec α
  grad_g_prod : Vec α → Vec α → Vec α
  proj_diff_g : Vec α → Vec α

/-- One `Option` per optional member function of the user's problem class. -/
structure Provided (α : Type) where
  f_grad_f : Option (Vec α → α × Vec α) := none
  f_g : Option (Vec α → α × Vec α) := none
  grad_f_grad_g_prod : Option (Vec α → Vec α → Vec α × Vec α) := none
  grad_L : Option (Vec α → Vec α → Vec α) := none
  psi : Option (Vec α → Vec α → Vec α → α × Vec α) := none
  grad_psi : Option (Vec α → Vec α → Vec α → Vec α) := none
  psi_grad_psi : Option (Vec α → Vec α → Vec α → α × Vec α) := none
  hess_L_prod : Option (Vec α → Vec α → α → Vec α → Vec α) := none
  hess_L : Option (Vec α → Vec α → α → Vec α) := none
  hess_psi_prod : Option (Vec α → Vec α → Vec α → α → Vec α → Vec α) := none
  hess_psi : Option (Vec α → Vec α → Vec α → α → Vec α) := none

section resolve
variable {α : Type} [Add α] [Sub α] [Mul α] [Div α] [Neg α] [LT α] [LE α] [DecidableLT α]
  [DecidableLE α] [BEq α] [RealLike α] [NatCast α] [OfScientific α] [OfNat α 0] [OfNat α 1]

/-- Required slots filled from the problem; every optional slot still a placeholder. -/
def stage0 (B : Basic α) (P : Provided α) : VTable α where
  n := B.n
  m := B.m
  eval_proj_diff_g := B.proj_diff_g
  eval_f := B.f
  eval_grad_f := B.grad_f
  eval_g := B.g
  eval_grad_g_prod := B.grad_g_prod
  p_eval_hess_L_prod := P.hess_L_prod.isSome
  p_eval_hess_L := P.hess_L.isSome
  p_eval_hess_psi_prod := P.hess_psi_prod.isSome
  p_eval_hess_psi := P.hess_psi.isSome
  eval_hess_L_prod := fun _ _ _ _ => none
  eval_hess_L := fun _ _ _ => none
  eval_hess_psi_prod := fun _ _ _ _ _ => none
  eval_hess_psi := fun _ _ _ _ => none
  eval_f_grad_f := fun _ => (0, [])
  eval_f_g := fun _ => (0, [])
  eval_grad_f_grad_g_prod := fun _ _ => ([], [])
  eval_grad_L := fun _ _ => []
  eval_psi := fun _ _ _ _ => (0, [])
  eval_grad_psi := fun _ _ _ => []
  eval_psi_grad_psi := fun _ _ _ => (0, [])

/-- Slots whose default reads required functions only. -/
def stage1 (B : Basic α) (P : Provided α) : VTable α :=
  let v := stage0 B P
  { v with
    eval_hess_L_prod := match P.hess_L_prod with
      | some h => fun x y s w => some (h x y s w)
      | none => Gen.C04.default_eval_hess_L_prod v
    eval_hess_L := match P.hess_L with
      | some h => fun x y s => some (h x y s)
      | none => Gen.C04.default_eval_hess_L v
    eval_f_grad_f := match P.f_grad_f with
      | some u => u
      | none => Gen.C04.default_eval_f_grad_f v
    eval_f_g := match P.f_g with
      | some u => u
      | none => Gen.C04.default_eval_f_g v
    eval_grad_f_grad_g_prod := match P.grad_f_grad_g_prod with
      | some u => u
      | none => Gen.C04.default_eval_grad_f_grad_g_prod v }

/-- Slots whose default reads stage-1 slots. -/
def stage2 (B : Basic α) (P : Provided α) : VTable α :=
  let v := stage1 B P
  { v with
    eval_hess_psi_prod := match P.hess_psi_prod with
      | some h => fun x y S s w => some (h x y S s w)
      | none => Gen.C04.default_eval_hess_psi_prod v
    eval_hess_psi := match P.hess_psi with
      | some h => fun x y S s => some (h x y S s)
      | none => Gen.C04.default_eval_hess_psi v
    eval_grad_L := match P.grad_L with
      | some u => u
      | none => Gen.C04.default_eval_grad_L v }

/-- `ProblemVTable(std::in_place, p)`: the vtable of a problem with basic functions `B` that
    supplies exactly the optional functions in `P`. -/
def resolve (B : Basic α) (P : Provided α) : VTable α :=
  let v := stage2 B P
  { v with
    eval_psi := match P.psi with
      | some u => fun x y S _ => u x y S
      | none => Gen.C04.default_eval_psi v
    eval_grad_psi := match P.grad_psi with
      | some u => u
      | none => Gen.C04.default_eval_grad_psi v
    eval_psi_grad_psi := match P.psi_grad_psi with
      | some u => u
      | none => Gen.C04.default_eval_psi_grad_psi v }

/-! ### call traces -/

def tag1 {β : Type} (t : String) : β → List String := fun _ => [t]
def tag2 {β γ : Type} (t : String) : β → γ → List String := fun _ _ => [t]
def tag3 {β γ δ : Type} (t : String) : β → γ → δ → List String := fun _ _ _ => [t]
def tag4 {β γ δ ε : Type} (t : String) : β → γ → δ → ε → List String := fun _ _ _ _ => [t]
def tag5 {β γ δ ε ζ : Type} (t : String) : β → γ → δ → ε → ζ → List String := fun _ _ _ _ _ => [t]

def stage0T : TraceVT α where
  eval_proj_diff_g := tag1 "proj_diff_g"
  eval_f := tag1 "f"
  eval_grad_f := tag1 "grad_f"
  eval_g := tag1 "g"
  eval_grad_g_prod := tag2 "grad_g_prod"
  eval_hess_L_prod := fun _ _ _ _ => []
  eval_hess_L := fun _ _ _ => []
  eval_hess_psi_prod := fun _ _ _ _ _ => []
  eval_hess_psi := fun _ _ _ _ => []
  eval_f_grad_f := fun _ => []
  eval_f_g := fun _ => []
  eval_grad_f_grad_g_prod := fun _ _ => []
  eval_grad_L := fun _ _ => []
  eval_psi := fun _ _ _ _ => []
  eval_grad_psi := fun _ _ _ => []
  eval_psi_grad_psi := fun _ _ _ => []

def stage1T (B : Basic α) (P : Provided α) : TraceVT α :=
  let t : TraceVT α := stage0T
  let v := stage0 B P
  { t with
    eval_hess_L_prod := if P.hess_L_prod.isSome then tag4 "hess_L_prod"
      else Gen.C04.default_eval_hess_L_prodT t v
    eval_hess_L := if P.hess_L.isSome then tag3 "hess_L" else Gen.C04.default_eval_hess_LT t v
    eval_f_grad_f := if P.f_grad_f.isSome then tag1 "f_grad_f" else Gen.C04.default_eval_f_grad_fT t v
    eval_f_g := if P.f_g.isSome then tag1 "f_g" else Gen.C04.default_eval_f_gT t v
    eval_grad_f_grad_g_prod := if P.grad_f_grad_g_prod.isSome then tag2 "grad_f_grad_g_prod"
      else Gen.C04.default_eval_grad_f_grad_g_prodT t v }

def stage2T (B : Basic α) (P : Provided α) : TraceVT α :=
  let t := stage1T B P
  let v := stage1 B P
  { t with
    eval_hess_psi_prod := if P.hess_psi_prod.isSome then tag5 "hess_psi_prod"
      else Gen.C04.default_eval_hess_psi_prodT t v
    eval_hess_psi := if P.hess_psi.isSome then tag4 "hess_psi" else Gen.C04.default_eval_hess_psiT t v
    eval_grad_L := if P.grad_L.isSome then tag2 "grad_L" else Gen.C04.default_eval_grad_LT t v }

/-- Which problem member functions a call through each slot of `resolve B P` reaches. -/
def resolveT (B : Basic α) (P : Provided α) : TraceVT α :=
  let t := stage2T B P
  let v := stage2 B P
  { t with
    eval_psi := if P.psi.isSome then tag4 "psi" else Gen.C04.default_eval_psiT t v
    eval_grad_psi := if P.grad_psi.isSome then tag3 "grad_psi" else Gen.C04.default_eval_grad_psiT t v
    eval_psi_grad_psi := if P.psi_grad_psi.isSome then tag3 "psi_grad_psi"
      else Gen.C04.default_eval_psi_grad_psiT t v }

end resolve

/-! ### Closed forms (the definition of the augmented-Lagrangian quantities)

Everything is built from `f ∇f g ∇g·y` and the projection difference `z ↦ z − Π_D z`.
`Σ` is either a vector of length `m` or a single shared factor (length 1). -/
section spec
variable {α : Type} [Add α] [Sub α] [Mul α] [Div α] [LT α] [DecidableLT α] [OfNat α 0]

/-- left-to-right sum starting from 0. -/
def sumL (l : List α) : α := l.foldl (· + ·) 0

/-- `Σ_i`: component `i` of the penalty vector, or the shared factor. -/
def sigmaAt (Sig : Vec α) (i : Nat) : α := if Sig.length == 1 then vget Sig 0 else vget Sig i

/-- `ζ_i = g_i + y_i / Σ_i`. -/
def zetaAt (g y Sig : Vec α) (i : Nat) : α := vget g i + vget y i / sigmaAt Sig i

def zetaV (g y Sig : Vec α) : Vec α := (List.range y.length).map (zetaAt g y Sig)

/-- `ŷ = Σ (ζ − Π_D ζ)` with `pd z = z − Π_D z`. -/
def yhatSpec (pd : Vec α → Vec α) (g y Sig : Vec α) : Vec α :=
  let d := pd (zetaV g y Sig)
  (List.range y.length).map fun i => sigmaAt Sig i * vget d i

/-- `dist_Σ²(ζ, D) = Σ_i d_i Σ_i d_i`. -/
def dsqSpec (pd : Vec α → Vec α) (g y Sig : Vec α) : α :=
  let d := pd (zetaV g y Sig)
  sumL ((List.range y.length).map fun i => vget d i * sigmaAt Sig i * vget d i)

variable [OfNat α 2]

def specFGradF (B : Basic α) (x : Vec α) : α × Vec α := (B.f x, B.grad_f x)
def specFG (B : Basic α) (x : Vec α) : α × Vec α := (B.f x, B.g x)
def specGradFGradGProd (B : Basic α) (x y : Vec α) : Vec α × Vec α := (B.grad_f x, B.grad_g_prod x y)
/-- `∇L = ∇f + ∇g·y`. -/
def specGradL (B : Basic α) (x y : Vec α) : Vec α := vadd (B.grad_f x) (B.grad_g_prod x y)
/-- `(ψ, ŷ)`, `ψ = f + ½ dist_Σ²(g + Σ⁻¹y, D)`. -/
def specPsi (B : Basic α) (x y Sig : Vec α) : α × Vec α :=
  (B.f x + dsqSpec B.proj_diff_g (B.g x) y Sig / 2, yhatSpec B.proj_diff_g (B.g x) y Sig)
/-- `∇ψ = ∇f + ∇g·ŷ`. -/
def specGradPsi (B : Basic α) (x y Sig : Vec α) : Vec α :=
  specGradL B x (yhatSpec B.proj_diff_g (B.g x) y Sig)
def specPsiGradPsi (B : Basic α) (x y Sig : Vec α) : α × Vec α :=
  ((specPsi B x y Sig).1, specGradPsi B x y Sig)

/-! ### Boxes with explicit infinities -/

abbrev BoxD (α : Type) := List (Bnd α × Bnd α)

/-- `Π_[l,u] z` (a `none` side is infinite). -/
def proj1 (l u : Bnd α) (z : α) : α := minUb (maxLb z l) u
/-- `z − Π_[l,u] z`. -/
def pd1 (l u : Bnd α) (z : α) : α := z - proj1 l u z
/-- `BoxConstrProblem::eval_proj_diff_g`. -/
def boxProjDiff (D : BoxD α) (z : Vec α) : Vec α := List.zipWith (fun z b => pd1 b.1 b.2 z) z D

def lbAt (D : BoxD α) (i : Nat) : Bnd α := (D.getD i (none, none)).1
def ubAt (D : BoxD α) (i : Nat) : Bnd α := (D.getD i (none, none)).2

end spec
end Alpaqa.C04
