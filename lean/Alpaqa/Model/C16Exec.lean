/-
  C16 — the executable model the driver runs: an *interpreter* of the programs regenerated from
  util/type-erasure.hpp (`Gen.C16.copyCtorP … doCopyAssignP`, `constructInplaceObj/Ptr`).

  Every lifetime action name (`Act`) and decision name (`Cond`) of the generated programs gets its
  meaning here, in terms of the checked ghost-heap primitives of `Model/C16.lean` (`modW`,
  `steal`, `constructAt`, `destroyAt`, `moveConstruct`, `copyConstruct`, `heapAlloc`, `heapFree`).
  `step` executes an operation by running the regenerated program of the corresponding C++
  function, so a source change that reorders / drops / swaps statements changes what this model
  *does* (and `Proofs.C16.step_eq_stepH`, on which `Props.C16.inv_step` rests, no longer holds).

  Nested calls (`cleanup()`, `deallocate()`, `allocate(size)`, `do_copy_assign<…>(other)`) run the
  regenerated program of the callee; the RAII guard `storage_guard` (a `Deallocator`) is a local
  flag whose destructor (`instance->deallocate()`, text-checked by the translator) runs at scope
  exit — normal or by exception.

  Core Lean only (the driver links this file).
-/
import Alpaqa.Model.C16

namespace Alpaqa.C16
open Alpaqa.Gen.C16

/-- how the payload of a constructing operation comes into being (`construct_inplace<T>(args…)`) -/
inductive Payload
  | none
  | value (v : Nat)                    -- `T(v, thr)`
  | copyEnv (k : Nat)                  -- `T(const T &)` from environment object `k`
  | moveEnv (k : Nat)                  -- `T(T &&)` from environment object `k`
  | ptrEnv (k : Nat) (isConst : Bool)  -- `T = U *` / `const U *` pointing to environment object `k`

/-- parameters of one activation of a lifetime function -/
structure Ctx where
  this : Nat                   -- slot of `*this`
  other : Nat := 0             -- slot of `other`
  allocArg : Nat := 0          -- the `alloc` parameter
  sizeArg : Nat := 0           -- the `size` parameter of `allocate` / `sizeof(T)`
  copyAlloc : Bool := false    -- template parameter `CopyAllocator`
  thr : Bool := false          -- the payload's copy / value constructor throws
  large : Nat → Nat → Bool := fun _ _ => false   -- this function's own `size > small_buffer_size`
  payload : Payload := .none

/-- local variables of an activation -/
structure Fr where
  prop : Bool := false         -- `constexpr bool prop_alloc`
  guard : Bool := false        -- `storage_guard` is armed
  objGuard : Bool := false     -- `obj_guard` is armed
  exc : Bool := false          -- an exception is propagating

/-- the decisions -/
def evalCond (cx : Ctx) (fr : Fr) (s : State) : Cond → Bool
  | .selfAssign => cx.other == cx.this
  | .otherEmpty => !(operatorBool (getW s cx.other).self.isSome)
  | .otherNonEmpty => (getW s cx.other).self.isSome
  | .nonEmpty => (getW s cx.this).self.isSome
  | .otherNotOwning => !(ownsReferencedObject (getW s cx.other).size)
  | .notOwning => !(ownsReferencedObject (getW s cx.this).size)
  | .sizeLarge => cx.large (getW s cx.this).size s.cfg.sbs
  | .allocEq => cls (getW s cx.this).alloc == cls (getW s cx.other).alloc
  | .propAlloc => fr.prop
  | .copyAllocAndProp => cx.copyAlloc && fr.prop
  | .propAllocOrAllocEq => fr.prop || cls (getW s cx.this).alloc == cls (getW s cx.other).alloc
  | .otherNotOwningOrSizeLarge =>
    !(ownsReferencedObject (getW s cx.other).size) || cx.large (getW s cx.this).size s.cfg.sbs

/-- `vtable.destroy(p)` -/
def destroyPtr (s : State) (p : Option Loc) : State :=
  match p with
  | some l => destroyAt s l
  | none => fail s "destroy through a null pointer"

/-- the actions that are not calls of other lifetime functions -/
def doPrim (cx : Ctx) (a : Act) (x : State × Fr) : State × Fr :=
  let s := x.1
  let fr := x.2
  let i := cx.this
  let j := cx.other
  match a with
  -- member initialisers of the constructors
  | .initAllocSelectOnCopy =>
    (modW s i fun w => { w with alloc := if s.cfg.socc then 0 else (getW s j).alloc }, fr)
  | .initAllocArg => (modW s i fun w => { w with alloc := cx.allocArg }, fr)
  | .initAllocMoveOther => (modW s i fun w => { w with alloc := (getW s j).alloc }, fr)
  | .initVtableCopy => (modW s i fun w => { w with vtTy := (getW s j).vtTy }, fr)
  | .initVtableMove => (modW s i fun w => { w with vtTy := (getW s j).vtTy }, fr)
  -- plain member assignments
  | .copyVtable => (modW s i fun w => { w with vtTy := (getW s j).vtTy }, fr)
  | .moveVtable => (modW s i fun w => { w with vtTy := (getW s j).vtTy }, fr)
  | .copyAllocator => (modW s i fun w => { w with alloc := (getW s j).alloc }, fr)
  | .moveAllocator => (modW s i fun w => { w with alloc := (getW s j).alloc }, fr)
  | .takeSize => (modW s i fun w => { w with size := (getW s j).size }, fr)
  | .aliasPtr => (modW s i fun w => { w with self := (getW s j).self }, fr)
  | .stealPtr => (steal s i j, fr)
  | .useSmallBuffer => (modW s i fun w => { w with self := some (.buf i) }, fr)
  | .nullOther => (modW s j fun w => { w with self := none }, fr)
  | .nullSelf => (modW s i fun w => { w with self := none }, fr)
  | .invalidateOtherSize => (modW s j fun w => { w with size := invalidSize }, fr)
  | .setSize => (modW s i fun w => { w with size := cx.sizeArg }, fr)
  -- storage
  | .allocOwn =>
    let r := heapAlloc s (getW s i).alloc (getW s i).size i
    (modW r.1 i fun w => { w with self := some (.blk r.2) }, fr)
  | .chooseStorage =>
    (if allocateUsesSmallBuffer cx.sizeArg s.cfg.sbs then
       modW s i fun w => { w with self := some (.buf i) }
     else
       let r := heapAlloc s (getW s i).alloc cx.sizeArg i
       modW r.1 i fun w => { w with self := some (.blk r.2) }, fr)
  | .deallocOwnSelf => (heapFree s (getW s i).alloc (getW s i).self, fr)
  | .deallocOwnOtherSelf => (heapFree s (getW s i).alloc (getW s j).self, fr)
  | .deallocOtherOtherSelf => (heapFree s (getW s j).alloc (getW s j).self, fr)
  | .deallocOtherSelf => (heapFree s (getW s j).alloc (getW s i).self, fr)
  | .deallocOwnIfPropElseOtherOtherSelf =>
    (heapFree s (if fr.prop then (getW s i).alloc else (getW s j).alloc) (getW s j).self, fr)
  -- payload lifetime
  | .moveConstruct => (moveConstruct s (getW s j).self (getW s i).self, fr)
  | .copyConstruct =>
    (if cx.thr then emit s .thrw else copyConstruct s (getW s j).self (getW s i).self,
     { fr with exc := fr.exc || cx.thr })
  | .destroyOther => (destroyPtr s (getW s j).self, fr)
  | .destroySelf => (destroyPtr s (getW s i).self, fr)
  | .constructPayload =>
    match cx.payload with
    | .value v =>
      (if cx.thr then emit s .thrw
       else match (getW s i).self with
         | some p => constructAt s p v cx.sizeArg (fun id => .ctor id v)
         | none => fail s "construct through a null pointer",
       { fr with exc := fr.exc || cx.thr, objGuard := !cx.thr })
    | .copyEnv k =>
      (if cx.thr then emit s .thrw else copyConstruct s (some (.env k)) (getW s i).self,
       { fr with exc := fr.exc || cx.thr, objGuard := !cx.thr })
    | .moveEnv k => (moveConstruct s (some (.env k)) (getW s i).self, { fr with objGuard := true })
    | _ => (fail s "construct_inplace without a payload", fr)
  | .setVtableInPlace => (modW s i fun w => { w with vtTy := cx.sizeArg }, fr)
  | .setRefSize =>
    (match cx.payload with
     | .ptrEnv _ c => modW s i fun w => { w with size := refSize c }
     | _ => fail s "pointer branch of construct_inplace without a pointer", fr)
  | .setRefSelf =>
    (match cx.payload with
     | .ptrEnv k _ => modW s i fun w => { w with self := some (.env k) }
     | _ => fail s "pointer branch of construct_inplace without a pointer", fr)
  -- locals
  | .bindPropMoveAssign => (s, { fr with prop := s.cfg.pocma })
  | .bindPropCopyAssign => (s, { fr with prop := s.cfg.pocca })
  | .releaseGuard => (s, { fr with guard := false })
  | .releaseObjGuard => (s, { fr with objGuard := false })
  | .returnGuard => (s, fr)      -- the returned `Deallocator` is the caller's `storage_guard`
  -- calls: handled one level up
  | .cleanup | .selfDeallocate | .otherDeallocate | .doCopyAssignKeepAlloc
  | .doCopyAssignMayCopyAlloc | .guardedAllocateOtherSize | .guardedAllocateSizeofT =>
    (fail s "call of a lifetime function at a level where none is expected", fr)

/-- actions that can leave by exception -/
def canThrow : Act → Bool
  | .copyConstruct | .constructPayload | .doCopyAssignKeepAlloc | .doCopyAssignMayCopyAlloc => true
  | _ => false

/-- scope exit (normal or by exception): the destructors of the armed guards run, in reverse
    order of declaration (`obj_guard`, then `storage_guard`) -/
def unwind (dtor : Ctx → State → State) (cx : Ctx) (x : State × Fr) : State × Fr :=
  let s := if x.2.objGuard then destroyPtr x.1 (getW x.1 cx.this).self else x.1
  let s := if x.2.guard then dtor cx s else s
  (s, { x.2 with guard := false, objGuard := false })

/-- run a program -/
def execWith (call : Ctx → Act → State × Fr → State × Fr) (dtor : Ctx → State → State) (cx : Ctx) :
    Prog → State × Fr → State × Fr
  | .ret, x => unwind dtor cx x
  | .act a k, x =>
    if canThrow a then
      let y := call cx a x
      if y.2.exc then unwind dtor cx y else execWith call dtor cx k y
    else execWith call dtor cx k (call cx a x)
  | .ite c t e, x =>
    if evalCond cx x.2 x.1 c then execWith call dtor cx t x else execWith call dtor cx e x

/-! #### level 0: `deallocate()`, `allocate(size)` -/

def exec0 := execWith doPrim (fun _ s => s)

/-- `TypeErased::deallocate()` -/
def gDeallocate (s : State) (i : Nat) : State :=
  (exec0 { this := i, large := deallocateUsesAllocator } deallocateFnP (s, {})).1

/-- `TypeErased::allocate(size)` (the returned guard is armed by the caller's declaration) -/
def gAllocate (s : State) (i sz : Nat) : State :=
  (exec0 { this := i, sizeArg := sz } allocateFnP (s, {})).1

/-! #### level 1: `cleanup()`, `do_copy_assign`, `construct_inplace` -/

def call1 (cx : Ctx) (a : Act) (x : State × Fr) : State × Fr :=
  match a with
  | .selfDeallocate => (gDeallocate x.1 cx.this, x.2)
  | .otherDeallocate => (gDeallocate x.1 cx.other, x.2)
  | .guardedAllocateOtherSize =>
    (gAllocate x.1 cx.this (getW x.1 cx.other).size, { x.2 with guard := true })
  | .guardedAllocateSizeofT => (gAllocate x.1 cx.this cx.sizeArg, { x.2 with guard := true })
  | a => doPrim cx a x

/-- `~Deallocator() { instance ? instance->deallocate() : void(); }` -/
def dtor1 (cx : Ctx) (s : State) : State := gDeallocate s cx.this

def exec1 := execWith call1 dtor1

/-- `TypeErased::cleanup()` -/
def gCleanup (s : State) (i : Nat) : State := (exec1 { this := i } cleanupFnP (s, {})).1

/-- `do_copy_assign<CopyAllocator>(other)`; the flag: left by exception -/
def gDoCopyAssign (s : State) (copyAlloc : Bool) (i k : Nat) (thr : Bool) : State × Bool :=
  let r := exec1 { this := i, other := k, copyAlloc := copyAlloc, thr := thr } doCopyAssignP (s, {})
  (r.1, r.2.exc)

/-! #### level 2: constructors and assignment operators -/

def call2 (cx : Ctx) (a : Act) (x : State × Fr) : State × Fr :=
  match a with
  | .cleanup => (gCleanup x.1 cx.this, x.2)
  | .doCopyAssignKeepAlloc =>
    let r := gDoCopyAssign x.1 false cx.this cx.other cx.thr
    (r.1, { x.2 with exc := r.2 })
  | .doCopyAssignMayCopyAlloc =>
    let r := gDoCopyAssign x.1 true cx.this cx.other cx.thr
    (r.1, { x.2 with exc := r.2 })
  | a => call1 cx a x

def exec2 := execWith call2 dtor1

def progOfActs : List Act → Prog
  | [] => .ret
  | a :: r => .act a (progOfActs r)

/-! ### Operations: the wrapper storage comes into existence (constructors: members
    default-initialised, `self = nullptr`, `size = invalid_size` — text-checked by the translator),
    the regenerated program of the function runs, and a constructor left by exception releases
    the wrapper storage again (the destructor does not run). -/

def gCopyCtor (prog : Prog) (s : State) (i j a : Nat) (thr : Bool) : State × Out :=
  let r := exec2 { this := i, other := j, allocArg := a, thr := thr } prog (newW s i 0 0, {})
  if r.2.exc then (dropW r.1 i, .excCopy) else (r.1, .ok)

def gMoveCtor (prog : Prog) (large : Nat → Nat → Bool) (s : State) (i j a : Nat) : State × Out :=
  ((exec2 { this := i, other := j, allocArg := a, large := large } prog (newW s i 0 0, {})).1, .ok)

def gCopyAssign (s : State) (i j : Nat) (thr : Bool) : State × Out :=
  let r := exec2 { this := i, other := j, thr := thr } copyAssignP (s, {})
  if r.2.exc then (r.1, .excCopy) else (r.1, .ok)

def gMoveAssign (s : State) (i j : Nat) : State × Out :=
  ((exec2 { this := i, other := j, large := moveAssignLarge } moveAssignP (s, {})).1, .ok)

/-- `~TypeErased() { cleanup(); }` (text-checked by the translator), then the storage goes away -/
def gDel (s : State) (i : Nat) : State × Out := (dropW (gCleanup s i) i, .ok)

/-- the main constructors: `allocator{alloc}`, then `construct_inplace<T>(args…)` -/
def gConstruct (s : State) (i a ty : Nat) (pl : Payload) (thr : Bool) (exc : Out) : State × Out :=
  let acts := match pl with
    | .ptrEnv _ _ => constructInplacePtr
    | _ => constructInplaceObj
  let r := exec1 { this := i, sizeArg := ty, thr := thr, payload := pl } (progOfActs acts)
    (newW s i a 0, {})
  if r.2.exc then (dropW r.1 i, exc) else (r.1, .ok)

def gFromEnv (s : State) (i a k : Nat) (pl : Payload) (thr : Bool) : State × Out :=
  match s.env k with
  | none => (s, .badOp)
  | some o => gConstruct s i a o.ty pl thr .excCopy

/-- **The model the driver runs.** -/
def step (s : State) : Op → State × Out
  | .newDefault i a => if free s i then (newW s i a 0, .ok) else (s, .badOp)
  | .newInPlace i a ty val thr =>
    if free s i then gConstruct s i a ty (.value val) thr .excCtor else (s, .badOp)
  | .newCopyEnv i a k thr => if free s i then gFromEnv s i a k (.copyEnv k) thr else (s, .badOp)
  | .newMoveEnv i a k => if free s i then gFromEnv s i a k (.moveEnv k) false else (s, .badOp)
  | .newPtr i a k c => if free s i then gFromEnv s i a k (.ptrEnv k c) false else (s, .badOp)
  | .copyCtor i j thr => if free s i && has s j then gCopyCtor copyCtorP s i j 0 thr else (s, .badOp)
  | .copyCtorAlloc i j a thr =>
    if free s i && has s j then gCopyCtor copyCtorAllocP s i j a thr else (s, .badOp)
  | .moveCtor i j =>
    if free s i && has s j then gMoveCtor moveCtorP moveCtorLarge s i j 0 else (s, .badOp)
  | .moveCtorAlloc i j a =>
    if free s i && has s j then gMoveCtor moveCtorAllocP moveCtorAllocLarge s i j a else (s, .badOp)
  | .copyAssign i j thr => if has s i && has s j then gCopyAssign s i j thr else (s, .badOp)
  | .moveAssign i j => if has s i && has s j then gMoveAssign s i j else (s, .badOp)
  | .del i => if has s i then gDel s i else (s, .badOp)
  | .get i => if has s i then opGet s i else (s, .badOp)
  | .set i v => if has s i then opSet s i v else (s, .badOp)
  | .asMut i ty => if has s i then opAccess s asMut i ty else (s, .badOp)
  | .asConst i ty => if has s i then opAccess s asConst i ty else (s, .badOp)
  | .getPtr i => if has s i then opAccess s getPointer i (getW s i).vtTy else (s, .badOp)

def run (s : State) : List Op → State
  | [] => s
  | o :: r => run (step s o).1 r

/-- destroy every wrapper of the pool (slots `n-1 … 0`) -/
def delAll (s : State) : Nat → State
  | 0 => s
  | n + 1 => delAll (step s (.del n)).1 n

/-- end of a sequence: all wrappers go, then the environment's objects -/
def finish (s : State) : State :=
  let s := delAll s s.cfg.npool
  let s := if (s.env 1).isSome then destroyAt s (.env 1) else s
  if (s.env 0).isSome then destroyAt s (.env 0) else s

/-! ### Per-allocator-instance ledger (what the harness's tracking arenas count) -/

/-- number of blocks obtained from arena (allocator equality class) `c` -/
def arenaAllocs (s : State) (c : Nat) : Nat := countIf s.nblk fun b => cls (s.blk b).alloc == c

/-- number of blocks returned to arena `c` -/
def arenaFrees (s : State) (c : Nat) : Nat :=
  countIf s.nblk fun b => match (s.blk b).freedBy with | some a => cls a == c | none => false

/-- number of blocks of arena `c` still outstanding -/
def arenaLive (s : State) (c : Nat) : Nat :=
  countIf s.nblk fun b => (s.blk b).live && cls (s.blk b).alloc == c

/-- the control-flow paths of a program (for the cross-check with the path tables) -/
def progPaths : Prog → List (Cond × Bool) → List Act → List Path
  | .ret, cs, as => [⟨cs.reverse, as.reverse⟩]
  | .act a k, cs, as => progPaths k cs (a :: as)
  | .ite c t e, cs, as => progPaths t ((c, true) :: cs) as ++ progPaths e ((c, false) :: cs) as

end Alpaqa.C16
